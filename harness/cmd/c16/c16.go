// Command c16: correspondence harness for C16 (decoders reject malformed input with an error
// instead of crashing).  The REAL decoders are run over every truncation point and every
// single-field corruption of every file of a corpus of valid files, plus a grammar-aware random
// stream; each run is under recover, a 2 s watchdog and a measured allocation bound.  Outcome class
// and data are compared with the Lean decoders (lean/M3d/Model/Codec*.lean).
package main

import (
	"bytes"
	"encoding/binary"
	"fmt"
	"math"
	"math/rand"
	"os"
	"strconv"
	"strings"

	"verif/harness/codec"
	"verif/harness/hlib"

	ff "github.com/unixpickle/model3d/fileformats"
	"github.com/unixpickle/model3d/model2d"
	"github.com/unixpickle/model3d/model3d"
)

func main() {
	if len(os.Args) > 1 && os.Args[1] == "-worker" {
		workerMain()
		return
	}
	hlib.Main("C16", run)
}

type sample struct {
	name   string
	format string // stl | off | ply | csv
	data   []byte
}

var decodersOf = map[string][]string{
	"stl": {"stl", "stlr"},
	"off": {"off", "offm"},
	"ply": {"plyg", "plyc"},
	"csv": {"csv"},
}

type state struct {
	c    *hlib.Ctx
	r    runner
	seen map[string]bool
	// timeouts reported per decoder: each costs the 2 s of the watchdog, so once a decoder has hung on
	// maxTimeoutsPerKind inputs (every one of them reported) its remaining cases are not run
	timeouts map[string]int
}

const maxTimeoutsPerKind = 25

func allocBound(n int) uint64 { return 64*uint64(n) + 1<<20 }

// unsupportedCSV: a field starting with a quote is outside the modelled subset of encoding/csv.
func unsupportedCSV(data []byte) bool {
	for _, ln := range bytes.Split(data, []byte("\n")) {
		for _, f := range bytes.Split(ln, []byte(",")) {
			if len(f) > 0 && f[0] == '"' {
				return true
			}
		}
	}
	return false
}

// try runs one decoder on one input and emits the case.
func (s *state) try(kind string, data []byte, origin string) {
	key := kind + "\x00" + string(data)
	if s.seen[key] {
		return
	}
	s.seen[key] = true
	if s.timeouts[kind] >= maxTimeoutsPerKind {
		s.c.Stat("c16.skipped_after_"+strconv.Itoa(maxTimeoutsPerKind)+"_timeouts."+kind, 1)
		return
	}
	res, alloc := s.r.call(kind, data)
	if res == "timeout" {
		s.timeouts[kind]++
	}
	if kind == "csv" && unsupportedCSV(data) {
		// quoted fields are outside the modelled subset of encoding/csv: no data comparison, but the real
		// decoder must still neither panic, hang, crash nor over-allocate on them
		s.c.Stat("c16.csv_quoted_field.robustness_only", 1)
		class := res
		if i := strings.IndexAny(class, " :"); i >= 0 {
			class = class[:i]
		}
		switch {
		case class == "panic" || class == "timeout" || class == "crash":
			s.c.PropFail("c16:csv/"+class, fmt.Sprintf("%s on %s input %s (csv, quoted field)", res, origin, codec.HexBytes(data)))
		case alloc > allocBound(len(data)):
			s.c.PropFail("c16:csv/over-allocation", fmt.Sprintf("allocated %d bytes for %d input bytes (bound %d) on %s input %s (csv, quoted field)",
				alloc, len(data), allocBound(len(data)), origin, codec.HexBytes(data)))
		}
		return
	}
	tb := codec.NewTables()
	if kind != "plyh" {
		tb.AddFileTokens(data, kind == "csv")
	}
	op := fmt.Sprintf("c16 %s %s %s", kind, codec.HexBytes(data), tb.String())
	s.c.Stat("c16.cases."+kind, 1)
	s.c.Stat("c16.origin."+origin, 1)
	class := res
	if i := strings.IndexAny(class, " :"); i >= 0 {
		class = class[:i]
	}
	if kind == "plyg" {
		// header | n rows… end
		switch {
		case res == "openerr":
			class = "error"
		case strings.HasSuffix(res, " err"):
			class = "error"
		case strings.HasSuffix(res, " eof"), res == "unbounded-empty-rows":
			class = "ok"
		}
	}
	if kind == "plyh" && res != "error" && !strings.HasPrefix(res, "panic") && res != "timeout" && !strings.HasPrefix(res, "crash") {
		class = "ok"
	}
	s.c.Stat("c16.outcome."+kind+"."+class, 1)
	switch class {
	case "panic", "timeout", "crash":
		s.c.PropFail("c16:"+kind+"/"+class, fmt.Sprintf("%s on %s input %s (%s)", res, origin, codec.HexBytes(data), kind))
	default:
		if alloc > allocBound(len(data)) {
			s.c.PropFail("c16:"+kind+"/over-allocation", fmt.Sprintf("allocated %d bytes for %d input bytes (bound %d) on %s input %s",
				alloc, len(data), allocBound(len(data)), origin, codec.HexBytes(data)))
			res = "over-allocation:" + res
		}
	}
	s.c.Emit(op, res)
}

func (s *state) tryAll(sm sample, data []byte, origin string) {
	for _, k := range decodersOf[sm.format] {
		s.try(k, data, origin)
	}
	if sm.format == "ply" {
		// the header decoder alone, on the header text
		if i := bytes.Index(data, []byte("end_header\n")); i >= 0 {
			s.try("plyh", data[:i+len("end_header\n")], origin)
		} else {
			s.try("plyh", data, origin)
		}
	}
}

func run(c *hlib.Ctx) {
	s := &state{c: c, seen: map[string]bool{}, timeouts: map[string]int{}}
	defer s.r.close()
	corpus := buildCorpus(c.Rng)
	c.Stat("c16.corpus.files", len(corpus))
	for _, sm := range corpus {
		c.Stat("c16.corpus.bytes", len(sm.data))
		// the valid file itself, on its own decoders and on everybody else's
		for _, ks := range decodersOf {
			for _, k := range ks {
				s.try(k, sm.data, "valid")
			}
		}
		s.tryAll(sm, sm.data, "valid")
		// every truncation point
		for n := 0; n < len(sm.data); n++ {
			s.tryAll(sm, sm.data[:n], "truncation")
		}
		// every single-field corruption
		for _, m := range corruptions(sm) {
			s.tryAll(sm, m, "corruption")
		}
		// every property declaration switched between scalar and list, the body re-encoded to match
		s.shapeSweep(sm)
	}
	// long lists (more genuine entries than the bounded pre-allocation holds) and the capacity ledger
	thorough := c.N >= 1000
	s.longLists(thorough)
	s.capLedger(thorough)
	s.longHeaders(thorough)
	s.rowLines(c.N * 2)
	s.bigSTL()
	s.bigOFF(thorough)
	// grammar-aware random stream
	for i := 0; i < c.N*4; i++ {
		sm := randomStream(c.Rng)
		s.tryAll(sm, sm.data, "random")
	}
	// mesh files near the accept boundary of IsStandardVertex / IsStandardFace, bodies consistent with the
	// header (last, so that the PRNG stream of the generators above is what it was)
	s.nearStandard(c.N * 2)
}

// ---------------------------------------------------------------------------
// corpus of valid files, produced by the real writers where the library has one

func buildCorpus(r *rand.Rand) []sample {
	var out []sample
	tri := func(a, b, cc model3d.Coord3D) *model3d.Triangle { return &model3d.Triangle{a, b, cc} }
	p0, p1, p2, p3 := model3d.XYZ(0, 0, 0), model3d.XYZ(1, 0, 0), model3d.XYZ(0, 1, 0), model3d.XYZ(0, 0, -2.5)
	meshes := map[string][]*model3d.Triangle{
		"empty":  nil,
		"single": {tri(p0, p1, p2)},
		"tetra":  {tri(p0, p2, p1), tri(p0, p1, p3), tri(p0, p3, p2), tri(p1, p2, p3)},
	}
	for _, name := range []string{"empty", "single", "tetra"} {
		m := meshes[name]
		out = append(out, sample{"stl-bin-" + name, "stl", model3d.EncodeSTL(m)})
		out = append(out, sample{"ply-mesh-" + name, "ply", model3d.EncodePLY(m, func(p model3d.Coord3D) [3]uint8 {
			return [3]uint8{uint8(p.X * 255), uint8(p.Y * 255), 7}
		})})
	}
	// ASCII STL to the specification
	{
		var sb strings.Builder
		sb.WriteString("solid t\n")
		for _, t := range meshes["tetra"][:2] {
			n := t.Normal()
			fmt.Fprintf(&sb, " facet normal %g %g %g\n  outer loop\n", n.X, n.Y, n.Z)
			for _, p := range t {
				fmt.Fprintf(&sb, "   vertex %g %g %g\n", p.X, p.Y, p.Z)
			}
			sb.WriteString("  endloop\n endfacet\n")
		}
		sb.WriteString("endsolid t\n")
		out = append(out, sample{"stl-ascii", "stl", []byte(sb.String())})
		out = append(out, sample{"stl-ascii-empty", "stl", []byte("solid e\nendsolid e\n")})
	}
	// OFF to the specification (a triangle file, a file with a quad, the counts on the first line)
	out = append(out, sample{"off-tri", "off", []byte("OFF\n4 2 0\n0 0 0\n1 0 0\n0 1 0\n0 0 -2.5\n3 0 1 2\n3 0 3 1\n")})
	out = append(out, sample{"off-quad", "off", []byte("OFF\n4 2 5\n0 0 0\n1 0 0\n1 1 0\n0 1 0\n4 0 1 2 3\n3 0 1 2\n")})
	out = append(out, sample{"off-oneline", "off", []byte("OFF 3 1 0\n0 0 0\n1 0 0\n0 1 0\n3 0 1 2\n")})
	out = append(out, sample{"off-nofaces", "off", []byte("OFF\n1 0 0\n0 0 0\n")})
	// generic PLY streams through the real PLYWriter: binary little/big endian and ASCII with lists
	for _, f := range []ff.PLYFormat{ff.PLYFormatBinaryLittle, ff.PLYFormatBinaryBig, ff.PLYFormatASCII} {
		h := &ff.PLYHeader{Format: f, Elements: []*ff.PLYElement{
			ff.NewPLYElementColoredVertex(3),
			{Name: "empty", Count: 0, Properties: []*ff.PLYProperty{{Name: "q", ElemType: ff.PLYPropertyTypeDouble}}},
			ff.NewPLYElementFace(2),
			{Name: "misc", Count: 1, Properties: []*ff.PLYProperty{
				{Name: "a", ElemType: ff.PLYPropertyTypeShort},
				{Name: "l", LenType: ff.PLYPropertyTypeUint, ElemType: ff.PLYPropertyTypeUshort},
				{Name: "m", LenType: ff.PLYPropertyTypeChar, ElemType: ff.PLYPropertyTypeFloat64},
				{Name: "b", ElemType: ff.PLYPropertyTypeUint32}}},
		}}
		var buf bytes.Buffer
		w, _ := ff.NewPLYWriter(&buf, h)
		for i := 0; i < 3; i++ {
			w.Write([]ff.PLYValue{ff.PLYValueFloat32{Value: float32(i)}, ff.PLYValueFloat32{Value: 0.5}, ff.PLYValueFloat32{Value: -1},
				ff.PLYValueUint8{Value: 255}, ff.PLYValueUint8{Value: uint8(i)}, ff.PLYValueUint8{Value: 0}})
		}
		for i := 0; i < 2; i++ {
			w.Write([]ff.PLYValue{ff.PLYValueList{Length: ff.PLYValueUint8{Value: 3}, Values: []ff.PLYValue{
				ff.PLYValueInt32{Value: 0}, ff.PLYValueInt32{Value: int32(i + 1)}, ff.PLYValueInt32{Value: 2 - int32(i)}}}})
		}
		w.Write([]ff.PLYValue{ff.PLYValueInt16{Value: -2},
			ff.PLYValueList{Length: ff.PLYValueUint32{Value: 2}, Values: []ff.PLYValue{ff.PLYValueUint16{Value: 7}, ff.PLYValueUint16{Value: 65535}}},
			ff.PLYValueList{Length: ff.PLYValueInt8{Value: 1}, Values: []ff.PLYValue{ff.PLYValueFloat64{Value: 0.1}}},
			ff.PLYValueUint32{Value: 4000000000}})
		out = append(out, sample{"ply-generic-" + codec.ShowFormat(f), "ply", append([]byte{}, buf.Bytes()...)})
	}
	// a binary mesh file with the standard elements (what other tools export), little endian
	{
		h := &ff.PLYHeader{Format: ff.PLYFormatBinaryLittle, Elements: []*ff.PLYElement{
			ff.NewPLYElementColoredVertex(3), ff.NewPLYElementFace(1)}}
		var buf bytes.Buffer
		w, _ := ff.NewPLYWriter(&buf, h)
		for i := 0; i < 3; i++ {
			w.Write([]ff.PLYValue{ff.PLYValueFloat32{Value: float32(i)}, ff.PLYValueFloat32{Value: 2}, ff.PLYValueFloat32{Value: 0},
				ff.PLYValueUint8{Value: 1}, ff.PLYValueUint8{Value: 2}, ff.PLYValueUint8{Value: 3}})
		}
		w.Write([]ff.PLYValue{ff.PLYValueList{Length: ff.PLYValueUint8{Value: 3}, Values: []ff.PLYValue{
			ff.PLYValueInt32{Value: 0}, ff.PLYValueInt32{Value: 1}, ff.PLYValueInt32{Value: 2}}}})
		out = append(out, sample{"ply-mesh-binary", "ply", append([]byte{}, buf.Bytes()...)})
	}
	// the same mesh as an ASCII file (every row is a text line: ReadColorPLY decodes it), and with a comment
	// row inside the body (the row reader skips it)
	{
		h := &ff.PLYHeader{Format: ff.PLYFormatASCII, Elements: []*ff.PLYElement{
			ff.NewPLYElementColoredVertex(3), ff.NewPLYElementFace(1)}}
		var buf bytes.Buffer
		w, _ := ff.NewPLYWriter(&buf, h)
		for i := 0; i < 3; i++ {
			w.Write([]ff.PLYValue{ff.PLYValueFloat32{Value: float32(i)}, ff.PLYValueFloat32{Value: 2}, ff.PLYValueFloat32{Value: 0.5 * float32(i*i)},
				ff.PLYValueUint8{Value: 1}, ff.PLYValueUint8{Value: 2}, ff.PLYValueUint8{Value: 3}})
		}
		w.Write([]ff.PLYValue{ff.PLYValueList{Length: ff.PLYValueUint8{Value: 3}, Values: []ff.PLYValue{
			ff.PLYValueInt32{Value: 0}, ff.PLYValueInt32{Value: 1}, ff.PLYValueInt32{Value: 2}}}})
		data := append([]byte{}, buf.Bytes()...)
		out = append(out, sample{"ply-mesh-ascii", "ply", data})
		if i := bytes.Index(data, []byte("end_header\n")); i >= 0 {
			j := i + len("end_header\n")
			if k := bytes.IndexByte(data[j:], '\n'); k >= 0 {
				out = append(out, sample{"ply-mesh-ascii-comment", "ply", splice(data, j+k+1, j+k+1, []byte("comment a row of the body\n"))})
			}
		}
	}
	// segment CSV through the real writer
	{
		m := model2d.NewMesh()
		m.Add(&model2d.Segment{model2d.XY(0, 0), model2d.XY(1, 0.5)})
		one := model2d.EncodeCSV(m)
		var buf bytes.Buffer
		w := ff.NewSegmentCSVWriter(&buf)
		w.Write([4]float64{0, 0, 1, 0.5})
		w.Write([4]float64{1e-7, -2.5, 1e21, math.Inf(1)})
		w.Write([4]float64{3, 4, 5, 6})
		out = append(out, sample{"csv-one", "csv", one}, sample{"csv-three", "csv", buf.Bytes()}, sample{"csv-empty", "csv", nil})
	}
	_ = r
	return out
}

// ---------------------------------------------------------------------------
// single-field corruptions

var nastyTokens = []string{"0", "-1", "1", "3", "4", "2147483648", "4294967295", "-2147483649", "9223372036854775807",
	"9223372036854775808", "99999999999999999999", "255", "256", "x", "1e999", "nan", "-0", "+5", "0x10", "1_0",
	"uchar", "uint8", "int8", "float", "double", "int", "list", "property", "element", "comment", "end_header", "vertex", "face",
	"endsolid", "endfacet", "facet", "solid", "OFF", "\xc2\xa0", "\"",
	// counts whose product with a record / slot size wraps around: 50 n = 2^32 + 4 (binary STL record), 8 n = 2^32
	// (a pointer per entry), 8 n = 2^64 -- a clamp or a size computed in a narrower type lets them through
	"85899346", "536870912", "2305843009213693952"}

// textRegion returns the length of the part of the file that is text (whole file, or the PLY header
// of a binary PLY file; 0 for a binary STL).
func textRegion(sm sample) int {
	switch sm.format {
	case "stl":
		if bytes.HasPrefix(sm.data, []byte("solid")) {
			return len(sm.data)
		}
		return 0
	case "ply":
		i := bytes.Index(sm.data, []byte("end_header\n"))
		if i < 0 {
			return len(sm.data)
		}
		if bytes.Contains(sm.data[:i], []byte("format ascii")) {
			return len(sm.data)
		}
		return i + len("end_header\n")
	}
	return len(sm.data)
}

func splice(data []byte, from, to int, repl []byte) []byte {
	out := make([]byte, 0, len(data)+len(repl))
	out = append(out, data[:from]...)
	out = append(out, repl...)
	return append(out, data[to:]...)
}

func corruptions(sm sample) [][]byte {
	var out [][]byte
	data := sm.data
	nt := textRegion(sm)
	// token replacement in the text region
	isSep := func(b byte) bool { return b == ' ' || b == '\n' || b == '\t' || b == '\r' || (sm.format == "csv" && b == ',') }
	for i := 0; i < nt; {
		if isSep(data[i]) {
			i++
			continue
		}
		j := i
		for j < nt && !isSep(data[j]) {
			j++
		}
		for _, t := range nastyTokens {
			out = append(out, splice(data, i, j, []byte(t)))
		}
		out = append(out, splice(data, i, j, nil)) // token deleted
		i = j
	}
	// separators: each newline removed / turned into a space / doubled; each space turned into a newline
	for i := 0; i < nt; i++ {
		switch data[i] {
		case '\n':
			out = append(out, splice(data, i, i+1, nil), splice(data, i, i+1, []byte(" ")), splice(data, i, i+1, []byte("\n\n")),
				splice(data, i, i+1, []byte("\r\n")))
		case ' ', ',':
			out = append(out, splice(data, i, i+1, []byte("\n")), splice(data, i, i+1, nil), splice(data, i, i+1, []byte{data[i], data[i]}))
		}
	}
	// lines: each deleted, each duplicated; for PLY headers: all properties of each element removed
	lineStart := 0
	for i := 0; i < nt; i++ {
		if data[i] == '\n' {
			out = append(out, splice(data, lineStart, i+1, nil))
			out = append(out, splice(data, lineStart, lineStart, data[lineStart:i+1]))
			lineStart = i + 1
		}
	}
	out = append(out, blankCorruptions(data, nt)...)
	if sm.format == "ply" {
		lines := bytes.SplitAfter(data[:nt], []byte("\n"))
		for e := 0; e < len(lines); e++ {
			if !bytes.HasPrefix(lines[e], []byte("element ")) {
				continue
			}
			var b []byte
			for k, ln := range lines {
				skip := false
				if k > e && bytes.HasPrefix(ln, []byte("property ")) {
					skip = true
					for q := e + 1; q < k; q++ {
						if !bytes.HasPrefix(lines[q], []byte("property ")) {
							skip = false
						}
					}
				}
				if !skip {
					b = append(b, ln...)
				}
			}
			out = append(out, append(b, data[nt:]...))
		}
	}
	// PLY: an extra element declared without any property, with a small and with huge counts
	if sm.format == "ply" {
		if i := bytes.Index(data, []byte("end_header\n")); i >= 0 {
			for _, n := range []string{"1", "4294967295", "9223372036854775807"} {
				out = append(out, splice(data, i, i, []byte("element extra "+n+"\n")))
			}
		}
	}
	// binary region: every byte -> 00 ff 80 7f; every 2/4-byte window -> extreme patterns in both byte orders
	for i := nt; i < len(data); i++ {
		for _, v := range []byte{0x00, 0xff, 0x80, 0x7f} {
			if data[i] != v {
				out = append(out, splice(data, i, i+1, []byte{v}))
			}
		}
		if i+4 <= len(data) {
			for _, v := range []uint32{0xffffffff, 0x80000000, 0x7fffffff, 0x00000080, 0xffffff7f, 0x10000000, 0x00000010} {
				var b [4]byte
				binary.BigEndian.PutUint32(b[:], v)
				out = append(out, splice(data, i, i+4, b[:]))
			}
		}
		if i+2 <= len(data) {
			out = append(out, splice(data, i, i+2, []byte{0xff, 0xff}), splice(data, i, i+2, []byte{0x80, 0x00}), splice(data, i, i+2, []byte{0x00, 0x80}))
		}
	}
	// binary STL: the count field set to specific values
	if sm.format == "stl" && nt == 0 && len(data) >= 84 {
		n := binary.LittleEndian.Uint32(data[80:84])
		counts := []uint32{0, 1, n + 1, n - 1, 1 << 31, math.MaxUint32, 1 << 24}
		// counts whose product with a size wraps around 32 bits: the smallest n with n*m >= j*2^32, for the
		// record size (50), a pointer (8), a vertex (12), a coordinate triple of float64 (24), a triangle (72)
		for _, m := range []uint64{50, 8, 12, 24, 72} {
			for j := uint64(1); j <= 2; j++ {
				counts = append(counts, uint32((j<<32+m-1)/m))
			}
		}
		counts = append(counts, uint32((1<<32+4<<20)/50)) // the last n with 50 n <= 2^32 + 4 MiB
		for _, v := range counts {
			var b [4]byte
			binary.LittleEndian.PutUint32(b[:], v)
			out = append(out, splice(data, 80, 84, b[:]))
		}
		// "solid" in the header of a binary file
		out = append(out, splice(data, 0, 5, []byte("solid")))
	}
	return out
}

// ---------------------------------------------------------------------------
// grammar-aware random stream

func pick(r *rand.Rand, xs []string) string { return xs[r.Intn(len(xs))] }

func randNum(r *rand.Rand) string {
	switch r.Intn(8) {
	case 0:
		return pick(r, nastyTokens[:19])
	case 1:
		return strconv.FormatFloat(codec.Float64(r, false), 'g', -1, 64)
	default:
		return strconv.Itoa(r.Intn(6))
	}
}

func randomStream(r *rand.Rand) sample {
	var sb strings.Builder
	nl := func() {
		switch r.Intn(12) {
		case 0:
			sb.WriteString("\r\n")
		case 1:
			// missing newline
		default:
			sb.WriteString("\n")
		}
	}
	types := []string{"char", "uchar", "short", "ushort", "int", "uint", "float", "double", "int8", "uint8", "float32", "int32", "bogus"}
	switch r.Intn(5) {
	case 0: // PLY
		sb.WriteString("ply")
		nl()
		format := pick(r, []string{"ascii", "ascii", "binary_little_endian", "binary_big_endian", "binary"})
		sb.WriteString("format " + format + " " + pick(r, []string{"1.0", "1.0", "1.0", "2.0"}))
		nl()
		type el struct{ count, width int }
		ne := r.Intn(4)
		var rows []int
		for e := 0; e < ne; e++ {
			cnt := r.Intn(4)
			name := pick(r, []string{"vertex", "face", "edge", "vertex", "face"})
			fmt.Fprintf(&sb, "element %s %s", name, pick(r, []string{strconv.Itoa(cnt), strconv.Itoa(cnt), strconv.Itoa(cnt), "-1", "x", "4294967295"}))
			nl()
			np := r.Intn(7)
			if name == "face" && r.Intn(2) == 0 {
				fmt.Fprintf(&sb, "property list %s %s vertex_index", pick(r, []string{"uchar", "uchar", "uint8", "int8", "char", "int"}), pick(r, []string{"int", "int32", "uint", "float"}))
				nl()
				np = 0
			}
			for p := 0; p < np; p++ {
				pname := pick(r, []string{"x", "y", "z", "red", "green", "blue", "w", "vertex_index"})
				if name == "vertex" && r.Intn(3) > 0 {
					pname = []string{"x", "y", "z", "red", "green", "blue"}[p%6]
					t := "float"
					if p%6 >= 3 {
						t = "uchar"
					}
					if r.Intn(10) == 0 {
						t = pick(r, types)
					}
					fmt.Fprintf(&sb, "property %s %s", t, pname)
				} else if r.Intn(4) == 0 {
					fmt.Fprintf(&sb, "property list %s %s %s", pick(r, types), pick(r, types), pname)
				} else {
					fmt.Fprintf(&sb, "property %s %s", pick(r, types), pname)
				}
				nl()
			}
			if r.Intn(10) == 0 {
				sb.WriteString("comment made by nobody")
				nl()
			}
			rows = append(rows, cnt)
		}
		if r.Intn(12) != 0 {
			sb.WriteString("end_header\n")
		}
		if format == "ascii" {
			for _, cnt := range rows {
				for k := 0; k < cnt; k++ {
					switch r.Intn(12) {
					case 0: // a white-space-only row in front of the row
						sb.WriteString(blankOf(r))
						nl()
					case 1: // the row indented
						sb.WriteString(blankOf(r))
					}
					nt := r.Intn(8)
					for q := 0; q < nt; q++ {
						if q > 0 {
							sb.WriteString(" ")
						}
						sb.WriteString(randNum(r))
					}
					if r.Intn(12) == 0 {
						sb.WriteString(blankOf(r))
					}
					nl()
				}
			}
			if r.Intn(8) == 0 { // the file ends in white space (terminated or not)
				sb.WriteString(blankOf(r))
				if r.Intn(2) == 0 {
					sb.WriteString("\n")
				}
			}
		} else {
			n := r.Intn(60)
			for k := 0; k < n; k++ {
				sb.WriteByte([]byte{0, 1, 2, 3, 0xff, 0x80, byte(r.Intn(256))}[r.Intn(7)])
			}
		}
		return sample{"random-ply", "ply", []byte(sb.String())}
	case 1: // ASCII STL
		sb.WriteString(pick(r, []string{"solid x", "solid", "solidx y", "solid x"}))
		nl()
		n := r.Intn(12)
		for k := 0; k < n; k++ {
			if r.Intn(10) == 0 {
				sb.WriteString(blankOf(r))
				if r.Intn(2) == 0 {
					nl()
				}
			}
			switch r.Intn(9) {
			case 0:
				fmt.Fprintf(&sb, "facet normal %s %s %s", randNum(r), randNum(r), randNum(r))
			case 1:
				sb.WriteString("outer loop")
			case 2, 3, 4:
				fmt.Fprintf(&sb, "vertex %s %s %s", randNum(r), randNum(r), randNum(r))
				if r.Intn(10) == 0 {
					sb.WriteString(" " + randNum(r))
				}
			case 5:
				sb.WriteString("endloop")
			case 6:
				sb.WriteString("endfacet")
			case 7:
				sb.WriteString(pick(r, []string{"endsolid x", "endsolidx", "", "  ", "facet 1 2 3"}))
			case 8:
				sb.WriteString(pick(r, []string{"vertex", "facet", "garbage line", "\xc2\xa0vertex 1 2 3", "endfacet\xe2\x80\x80x"}))
			}
			nl()
		}
		if r.Intn(2) == 0 {
			if r.Intn(4) == 0 {
				sb.WriteString(blankOf(r))
			}
			sb.WriteString("endsolid")
			if r.Intn(2) == 0 {
				sb.WriteString("\n")
			}
		}
		return sample{"random-stl-ascii", "stl", []byte(sb.String())}
	case 2: // binary STL: header, count, payload of arbitrary length
		b := make([]byte, 80)
		if r.Intn(4) == 0 {
			copy(b, "solid but binary")
		}
		var cnt [4]byte
		nrec := r.Intn(4)
		declared := []uint32{uint32(nrec), uint32(nrec), uint32(nrec + 1), 0, math.MaxUint32, 1 << 31, uint32(r.Intn(1 << 20))}[r.Intn(7)]
		binary.LittleEndian.PutUint32(cnt[:], declared)
		b = append(b, cnt[:]...)
		payload := nrec*50 + []int{0, 0, 1, 49, 25}[r.Intn(5)]
		for k := 0; k < payload; k++ {
			b = append(b, byte(r.Intn(256)))
		}
		return sample{"random-stl-binary", "stl", b}
	case 3: // OFF
		sb.WriteString(pick(r, []string{"OFF", "OFF", "OFF", "OFFx", "COFF", "OFF "}))
		nv, nf := r.Intn(5), r.Intn(4)
		if r.Intn(3) == 0 {
			sb.WriteString(" ")
		} else {
			nl()
		}
		fmt.Fprintf(&sb, "%s %s %s", pick(r, []string{strconv.Itoa(nv), strconv.Itoa(nv), "-1", "4294967295", "x"}),
			pick(r, []string{strconv.Itoa(nf), strconv.Itoa(nf), strconv.Itoa(nf), "-1", "9223372036854775807"}), randNum(r))
		nl()
		blankRow := func() {
			if r.Intn(10) == 0 {
				sb.WriteString(blankOf(r))
				if r.Intn(2) == 0 {
					nl()
				}
			}
		}
		for k := 0; k < nv; k++ {
			blankRow()
			fmt.Fprintf(&sb, "%s %s %s", randNum(r), randNum(r), randNum(r))
			if r.Intn(15) == 0 {
				sb.WriteString(" 1")
			}
			nl()
		}
		for k := 0; k < nf; k++ {
			kk := []int{3, 3, 3, 4, 2, 1, 0, 5}[r.Intn(8)]
			blankRow()
			fmt.Fprintf(&sb, "%d", kk)
			for q := 0; q < kk; q++ {
				fmt.Fprintf(&sb, " %s", pick(r, []string{strconv.Itoa(r.Intn(nv + 1)), strconv.Itoa(r.Intn(nv + 1)), strconv.Itoa(r.Intn(nv + 1)), "-1", "2147483648", "x"}))
			}
			nl()
		}
		return sample{"random-off", "off", []byte(sb.String())}
	default: // CSV
		n := r.Intn(5)
		for k := 0; k < n; k++ {
			if r.Intn(10) == 0 {
				sb.WriteString(blankOf(r))
				if r.Intn(2) == 0 {
					nl()
				}
			}
			nfld := []int{4, 4, 4, 4, 3, 5, 1, 0}[r.Intn(8)]
			for q := 0; q < nfld; q++ {
				if q > 0 {
					sb.WriteString(",")
				}
				sb.WriteString(pick(r, []string{randNum(r), randNum(r), randNum(r), " 1", "1 ", "", "1\"2", "1E5", "+Inf", "NaN"}))
			}
			nl()
		}
		return sample{"random-csv", "csv", []byte(sb.String())}
	}
}
