package main

import (
	"bufio"
	"encoding/hex"
	"fmt"
	"io"
	"os"
	"os/exec"
	"runtime"
	"strings"
	"syscall"
	"time"
)

// The real decoders run in a child process (this binary with -worker): an unrecoverable runtime
// failure (out of memory, stack exhaustion) or a hang then costs one case, not the harness.

const workerAddressSpace = 6 << 30 // RLIMIT_AS of the worker: a multi-GB make() fails fast

func workerMain() {
	lim := &syscall.Rlimit{Cur: workerAddressSpace, Max: workerAddressSpace}
	_ = syscall.Setrlimit(syscall.RLIMIT_AS, lim)
	in := bufio.NewReaderSize(os.Stdin, 1<<20)
	out := bufio.NewWriter(os.Stdout)
	for {
		line, err := in.ReadString('\n')
		if err != nil {
			return
		}
		parts := strings.Fields(line)
		if len(parts) != 2 {
			return
		}
		var data []byte
		if parts[1] != "-" {
			data, _ = hex.DecodeString(parts[1])
		}
		res, alloc := measured(parts[0], data)
		fmt.Fprintf(out, "%d\t%s\n", alloc, res)
		out.Flush()
	}
}

// measured runs the decoder under recover and reports the bytes allocated while it ran.
func measured(kind string, data []byte) (res string, alloc uint64) {
	var m0, m1 runtime.MemStats
	runtime.ReadMemStats(&m0)
	func() {
		defer func() {
			if r := recover(); r != nil {
				msg := fmt.Sprint(r)
				if len(msg) > 120 {
					msg = msg[:120]
				}
				msg = strings.NewReplacer("\n", "_", "\t", "_", " ", "_").Replace(msg)
				res = "panic:" + msg
			}
		}()
		res = decode(kind, data)
	}()
	runtime.ReadMemStats(&m1)
	return res, m1.TotalAlloc - m0.TotalAlloc
}

type worker struct {
	cmd   *exec.Cmd
	in    io.WriteCloser
	lines chan string
	errb  *tailBuf
}

type tailBuf struct{ b []byte }

// Write keeps the HEAD of the worker's stderr: the runtime prints the reason of an unrecoverable failure
// ("fatal error: runtime: out of memory") first and the goroutine dump after it.
func (t *tailBuf) Write(p []byte) (int, error) {
	if room := 8192 - len(t.b); room > 0 {
		if room > len(p) {
			room = len(p)
		}
		t.b = append(t.b, p[:room]...)
	}
	return len(p), nil
}

func startWorker() *worker {
	cmd := exec.Command(os.Args[0], "-worker")
	cmd.Env = append(os.Environ(), "GOMEMLIMIT=off", "GOTRACEBACK=single")
	in, _ := cmd.StdinPipe()
	outp, _ := cmd.StdoutPipe()
	w := &worker{cmd: cmd, in: in, lines: make(chan string, 1), errb: &tailBuf{}}
	cmd.Stderr = w.errb
	if err := cmd.Start(); err != nil {
		panic(err)
	}
	go func() {
		rd := bufio.NewReaderSize(outp, 1<<20)
		for {
			line, err := rd.ReadString('\n')
			if err != nil {
				close(w.lines)
				return
			}
			w.lines <- strings.TrimSuffix(line, "\n")
		}
	}()
	return w
}

func (w *worker) kill() {
	w.in.Close()
	w.cmd.Process.Kill()
	w.cmd.Wait()
}

type runner struct {
	w         *worker
	confirmed map[string]int // per kind: timeouts that survived the 20 s retry
}

// call runs one decoder in the worker under a 2 s watchdog.  A first timeout is re-tried once in a fresh
// worker with a 20 s limit, so that a scheduling stall of a loaded machine is not reported as a decoder that
// loops without consuming input (a real spin still exceeds the second limit).  After two such confirmed hangs of
// one kind, later 2 s timeouts of that kind are final.
func (r *runner) call(kind string, data []byte) (res string, alloc uint64) {
	res, alloc = r.callLimit(kind, data, 2*time.Second)
	if res == "timeout" {
		if r.confirmed[kind] >= 2 {
			// this decoder has already spun twice for more than 20 s in this run (the run reports a violation
			// anyway): further 2 s timeouts of the same kind are not re-tried, so that a hanging decoder does
			// not cost 22 s per case
			return res, alloc
		}
		res, alloc = r.callLimit(kind, data, 20*time.Second)
		if res == "timeout" {
			if r.confirmed == nil {
				r.confirmed = map[string]int{}
			}
			r.confirmed[kind]++
		}
	}
	return res, alloc
}

func (r *runner) callLimit(kind string, data []byte, limit time.Duration) (res string, alloc uint64) {
	if r.w == nil {
		r.w = startWorker()
	}
	hx := "-"
	if len(data) > 0 {
		hx = hex.EncodeToString(data)
	}
	if _, err := io.WriteString(r.w.in, kind+" "+hx+"\n"); err != nil {
		r.w.kill()
		r.w = nil
		return "crash:write-failed", 0
	}
	select {
	case line, ok := <-r.w.lines:
		if !ok {
			r.w.cmd.Wait()
			msg := firstLine(string(r.w.errb.b))
			r.w = nil
			return "crash:" + msg, 0
		}
		tab := strings.IndexByte(line, '\t')
		fmt.Sscanf(line[:tab], "%d", &alloc)
		return line[tab+1:], alloc
	case <-time.After(limit):
		r.w.kill()
		r.w = nil
		return "timeout", 0
	}
}

func (r *runner) close() {
	if r.w != nil {
		r.w.kill()
		r.w = nil
	}
}

func firstLine(s string) string {
	s = strings.TrimSpace(s)
	if i := strings.Index(s, "fatal error:"); i >= 0 {
		s = s[i:]
	}
	if i := strings.IndexByte(s, '\n'); i >= 0 {
		s = s[:i]
	}
	if len(s) > 120 {
		s = s[:120]
	}
	return strings.NewReplacer("\t", "_", " ", "_").Replace(s)
}
