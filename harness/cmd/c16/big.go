package main

import (
	"bytes"
	"fmt"
	"strconv"
	"strings"

	"github.com/unixpickle/model3d/model3d"
)

// bigSTL: STL files longer than the 512-byte chunk NewSTLReader sniffs (binary/ASCII detection) so that the
// rest of the file reaches the reader through io.MultiReader(chunk, r).  The files of the corpus proper are
// all shorter.  Every mutation that touches the neighbourhood of the chunk boundary is run, the others are
// sampled: every truncation point in [470, 560) and every 9th elsewhere; every single-field corruption whose
// first changed byte lies in [470, 560), one in 20 of the others; a NUL / non-ASCII byte written at and
// inserted around offset 512.
func (s *state) bigSTL() {
	r := s.c.Rng
	var tris []*model3d.Triangle
	for i := 0; i < 12; i++ {
		f := float64(i)
		tris = append(tris, &model3d.Triangle{model3d.XYZ(f, 0, 0.25), model3d.XYZ(f+1, 0.5, 0), model3d.XYZ(f, 1, -2)})
	}
	var sb strings.Builder
	sb.WriteString("solid big\n")
	for _, t := range tris[:6] {
		n := t.Normal()
		fmt.Fprintf(&sb, "facet normal %g %g %g\n outer loop\n", n.X, n.Y, n.Z)
		for _, p := range t {
			fmt.Fprintf(&sb, "  vertex %g %g %g\n", p.X, p.Y, p.Z)
		}
		sb.WriteString(" endloop\nendfacet\n")
	}
	sb.WriteString("endsolid big\n")
	files := []sample{
		{"stl-bin-big", "stl", model3d.EncodeSTL(tris)},
		{"stl-ascii-big", "stl", []byte(sb.String())},
	}
	near := func(i int) bool { return i >= 470 && i < 560 }
	for _, sm := range files {
		s.c.Stat("c16.corpus.big_files", 1)
		s.c.Stat("c16.corpus.big_bytes", len(sm.data))
		s.tryAll(sm, sm.data, "valid")
		for n := 0; n < len(sm.data); n++ {
			if near(n) || n%9 == 0 || n+60 > len(sm.data) {
				s.tryAll(sm, sm.data[:n], "big-truncation")
			}
		}
		for _, m := range corruptions(sm) {
			d := 0
			for d < len(m) && d < len(sm.data) && m[d] == sm.data[d] {
				d++
			}
			if near(d) || r.Intn(20) == 0 {
				s.tryAll(sm, m, "big-corruption")
			}
		}
		for _, at := range []int{505, 510, 511, 512, 513, 520, len(sm.data) - 20} {
			if at < 0 || at >= len(sm.data) {
				continue
			}
			for _, v := range []byte{0x00, 0x80, 0xff, '\n', ' '} {
				s.tryAll(sm, splice(sm.data, at, at+1, []byte{v}), "big-corruption")
				s.tryAll(sm, splice(sm.data, at, at, []byte{v}), "big-corruption")
			}
		}
	}
}

// bigOFF: OFF files whose single face is a polygon with hundreds / thousands of corners that are really
// there (a convex one: points of a parabola; one with a reflex vertex at every other corner), so that
// model3d.ReadOFF runs the triangulator (model3d.TriangulateFace -> model2d.Triangulate) on a polygon of the
// size of the input.  For these files the correspondence compares the polygon (kind off) and checks that
// ReadOFF neither panics, hangs, crashes nor allocates more than 64*len + 1 MiB (kind offm, class
// `polygons`).  Mutations: two corners exchanged / one repeated (no longer a simple polygon), an index out
// of range, the face count field, truncations.
func (s *state) bigOFF(thorough bool) {
	r := s.c.Rng
	sizes := []int{600, 2500}
	if thorough {
		sizes = append(sizes, 1200, 4000)
	}
	for _, n := range sizes {
		for shape := 0; shape < 2; shape++ {
			var sb bytes.Buffer
			fmt.Fprintf(&sb, "OFF\n%d 1 0\n", n)
			for i := 0; i < n; i++ {
				y := i * i
				if shape == 1 && i%2 == 1 {
					y += 3 // every other corner is reflex; the chain stays under the closing chord
				}
				fmt.Fprintf(&sb, "%d %d 0\n", i, y)
			}
			head := sb.Len()
			idx := make([]int, n)
			for i := range idx {
				idx[i] = i
			}
			face := func(ix []int) []byte {
				var fb bytes.Buffer
				fb.WriteString(strconv.Itoa(len(ix)))
				for _, v := range ix {
					fb.WriteByte(' ')
					fb.WriteString(strconv.Itoa(v))
				}
				fb.WriteByte('\n')
				return fb.Bytes()
			}
			base := append([]byte{}, sb.Bytes()...)
			valid := append(append([]byte{}, base...), face(idx)...)
			sm := sample{"off-big-" + strconv.Itoa(n), "off", valid}
			s.c.Stat("c16.corpus.big_polygon_files", 1)
			s.c.Stat("c16.corpus.big_polygon_bytes", len(valid))
			s.tryAll(sm, valid, "valid")
			if n <= 1200 {
				// no longer simple polygons (the triangulator may give up: that is an error, not a crash)
				for k := 0; k < 3; k++ {
					ix := append([]int{}, idx...)
					a, b := r.Intn(n), r.Intn(n)
					ix[a], ix[b] = ix[b], ix[a]
					s.tryAll(sm, append(append([]byte{}, base...), face(ix)...), "big-polygon-corruption")
					ix = append([]int{}, idx...)
					ix[r.Intn(n)] = ix[r.Intn(n)]
					s.tryAll(sm, append(append([]byte{}, base...), face(ix)...), "big-polygon-corruption")
				}
			}
			for _, bad := range []int{n, -1, 1 << 31} {
				ix := append([]int{}, idx...)
				ix[r.Intn(n)] = bad
				s.tryAll(sm, append(append([]byte{}, base...), face(ix)...), "big-polygon-corruption")
			}
			// a corner dropped from / added to the face line without changing its count; the count changed
			s.tryAll(sm, append(append([]byte{}, base...), face(idx[:n-1])...), "big-polygon-corruption")
			m := face(idx)
			s.tryAll(sm, append(append([]byte{}, base...), append([]byte("9"), m...)...), "big-polygon-corruption")
			// truncations: inside the vertex table, at its end, inside the face line, the last newline
			for _, cut := range []int{head / 2, head, head + len(m)/2, len(valid) - 1} {
				s.tryAll(sm, valid[:cut], "big-polygon-truncation")
			}
		}
	}
}
