package main

import (
	"fmt"
	"strconv"
	"strings"
	"verif/harness/hlib"

	"github.com/unixpickle/model3d/model2d"
	"github.com/unixpickle/model3d/model3d"
)

// Kinds group (GroupBounders / groupBounders / splitBounders / bestSplitAxis) and bvh (NewBVHAreaDensity).
// Objects are *Rect with dyadic corners.

var groupSizes = []int{0, 1, 1, 2, 2, 3, 3, 3, 4, 4, 5, 5, 6, 6, 7, 7, 8, 9, 10, 10, 16, 17, 31, 32, 33, 64, 100, 200}

// groupBoxes: object boxes with a small coordinate range so that equal mid-points, duplicates and flat
// boxes are the norm.
func (g *G) groupBoxes(dim, n int) []box {
	switch g.Rng.Intn(6) {
	case 0: // all identical
		bs := make([]box, n)
		b := g.randBox(dim)
		for i := range bs {
			bs[i] = b
		}
		return bs
	case 1, 2: // tiny grid: corners in {-1,…,1} (halves)
		bs := make([]box, n)
		for i := range bs {
			for a := 0; a < dim; a++ {
				x, y := g.half(1), g.half(1)
				if x > y {
					x, y = y, x
				}
				if g.p(0.3) {
					y = x
				}
				bs[i].lo[a], bs[i].hi[a] = x, y
			}
			if i > 0 && g.p(0.25) {
				bs[i] = bs[g.Rng.Intn(i)]
			}
		}
		return bs
	case 3: // same mid-point on one axis for everything (symmetric boxes around a centre)
		bs := make([]box, n)
		ax, ctr := g.Rng.Intn(dim), g.half(2)
		for i := range bs {
			bs[i] = g.randBox(dim)
			w := float64(g.Rng.Intn(5)) / 2
			bs[i].lo[ax], bs[i].hi[ax] = ctr-w, ctr+w
		}
		return bs
	}
	return g.boxSet(dim, n)
}

// runGroup is the dimension-independent part: objs[i] has box bs[i]; sorted/grouped/real are the real code.
func runGroup[B comparable](g *G, dim int, bs []box, objs []B,
	sorted func([]B) [][]B, groupSorted func([]B, [][]int) []B, real func([]B)) {
	n := len(objs)
	idx := map[B]int{}
	for i, o := range objs {
		idx[o] = i
	}
	var orders [][]int
	var viaHook, viaReal []int
	pan := guard(func() {
		for _, ax := range sorted(objs) {
			var o []int
			for _, b := range ax {
				o = append(o, idx[b])
			}
			orders = append(orders, o)
		}
		for _, b := range groupSorted(objs, orders) {
			viaHook = append(viaHook, idx[b])
		}
		cp := append([]B{}, objs...)
		real(cp)
		for _, b := range cp {
			i, ok := idx[b]
			if !ok {
				i = -1
			}
			viaReal = append(viaReal, i)
		}
	})
	t := (&toks{}).s("c08", "group").n(dim, n)
	for _, o := range orders {
		t.n(o...)
	}
	for _, b := range bs {
		t.b(dim, b)
	}
	op := t.String()
	impl := pan
	if pan == "" {
		impl = idsStr(viaHook)
		if !isPerm(n, viaReal) {
			g.PropFail("prop:c08 group-not-permutation", fmt.Sprint(op, " => ", viaReal))
		}
		if fmt.Sprint(viaHook) != fmt.Sprint(viaReal) {
			g.PropFail("prop:c08 group-hook-differs", fmt.Sprint(op, " => hook ", viaHook, " real ", viaReal))
		}
	}
	g.Emit(op, impl)
	g.Stat("group"+strconv.Itoa(dim)+" cases", 1)
	if n == 0 {
		g.Stat("group empty", 1)
	}
	dup := map[box]bool{}
	for _, b := range bs {
		if dup[b] {
			g.Stat("group duplicate-objects", 1)
		}
		dup[b] = true
		if b.flat(dim) {
			g.Stat("group flat-boxes", 1)
		}
	}
}

func (g *G) genGroup(dim int) {
	n := g.pickI(groupSizes)
	bs := g.groupBoxes(dim, n)
	if dim == 3 {
		objs := make([]*model3d.Rect, n)
		for i, b := range bs {
			objs[i] = &model3d.Rect{MinVal: c3(b.lo), MaxVal: c3(b.hi)}
		}
		runGroup(g, 3, bs, objs,
			func(o []*model3d.Rect) [][]*model3d.Rect { r := model3d.VerifSortedOrders(o); return r[:] },
			func(o []*model3d.Rect, ord [][]int) []*model3d.Rect {
				return model3d.VerifGroupSorted(o, [3][]int{ord[0], ord[1], ord[2]})
			},
			func(o []*model3d.Rect) { model3d.GroupBounders(o) })
	} else {
		objs := make([]*model2d.Rect, n)
		for i, b := range bs {
			objs[i] = &model2d.Rect{MinVal: c2(b.lo), MaxVal: c2(b.hi)}
		}
		runGroup(g, 2, bs, objs,
			func(o []*model2d.Rect) [][]*model2d.Rect { r := model2d.VerifSortedOrders(o); return r[:] },
			func(o []*model2d.Rect, ord [][]int) []*model2d.Rect {
				return model2d.VerifGroupSorted(o, [2][]int{ord[0], ord[1]})
			},
			func(o []*model2d.Rect) { model2d.GroupBounders(o) })
	}
}

// ---------------------------------------------------------------------------
// bvh

func (g *G) genBVH(dim int) {
	n := g.pickI(groupSizes)
	bs := g.groupBoxes(dim, n)
	var sh *shape
	var orders [][]int // the per-axis orders sortBounders produces for these objects (hook)
	pan := guard(func() {
		if dim == 3 {
			objs := make([]*model3d.Rect, n)
			idx := map[*model3d.Rect]int{}
			for i, b := range bs {
				objs[i] = &model3d.Rect{MinVal: c3(b.lo), MaxVal: c3(b.hi)}
				idx[objs[i]] = i
			}
			for _, ax := range model3d.VerifSortedOrders(objs) {
				var o []int
				for _, b := range ax {
					o = append(o, idx[b])
				}
				orders = append(orders, o)
			}
			sh = shapeOfBVH3(model3d.NewBVHAreaDensity(objs),
				func(t *model3d.BVH[*model3d.Rect]) bool { return t.Leaf != nil }, idx)
		} else {
			objs := make([]*model2d.Rect, n)
			idx := map[*model2d.Rect]int{}
			for i, b := range bs {
				objs[i] = &model2d.Rect{MinVal: c2(b.lo), MaxVal: c2(b.hi)}
				idx[objs[i]] = i
			}
			for _, ax := range model2d.VerifSortedOrders(objs) {
				var o []int
				for _, b := range ax {
					o = append(o, idx[b])
				}
				orders = append(orders, o)
			}
			sh = shapeOfBVH2(model2d.NewBVHAreaDensity(objs),
				func(t *model2d.BVH[*model2d.Rect]) bool { return t.Leaf != nil }, idx)
		}
	})
	if n == 0 {
		// the documented behaviour on no objects is a panic; nothing to compare with the model
		if pan == "" {
			g.PropFail("prop:c08 bvh-empty-no-panic", "dim "+strconv.Itoa(dim))
		}
		g.Stat("bvh empty-panics", 1)
		return
	}
	if pan != "" {
		g.Emit((&toks{}).s("c08", "bvh").n(n).s("L", "0").String(), pan)
		return
	}
	var w []string
	sh.ser(&w, "N")
	op := (&toks{}).s("c08", "bvh").n(n).s(w...).String()
	if !sh.binary() {
		g.PropFail("prop:c08 bvh-branch-not-binary", op)
	}
	if leaves := sh.leaves(); !isPerm(n, leaves) {
		g.PropFail("prop:c08 bvh-not-permutation", op+" => "+strings.TrimSpace(fmt.Sprint(leaves)))
	}
	g.Emit(op, "perm=1 n="+strconv.Itoa(n))
	g.Stat("bvh"+strconv.Itoa(dim)+" cases", 1)
	// bvhx: the exact tree.  The faithful model (newBVH with areaDensityBVHSplit's scores - exact on these
	// half-integer boxes - and the axis choice) must rebuild the very tree of NewBVHAreaDensity from the per-axis
	// orders of sortBounders.
	t := (&toks{}).s("c08", "bvhx").n(dim, n)
	for _, o := range orders {
		t.n(o...)
	}
	for _, b := range bs {
		t.b(dim, b)
	}
	g.Emit(t.String(), strings.Join(w, " "))
	g.Stat("bvhx"+strconv.Itoa(dim)+" cases", 1)
	if n >= 3 && sh.kids[1].k == 'L' {
		g.Stat("bvhx root cuts off a single last object", 1)
	}
}

var _ = hlib.RatStr
