package main

import (
	"fmt"
	"math"
	"sort"
	"strings"
	"verif/harness/hlib"

	"github.com/unixpickle/model3d/model2d"
	"github.com/unixpickle/model3d/model3d"
)

// Kinds j3 / j2 (trace = 0, sound = 1) and d3 / d2 on REAL triangles / segments: the leaf answers in the
// op line are the results of the real per-primitive methods (data), the implementation output is the
// result of the real hierarchy (GroupedTrianglesToCollider, BVHToCollider, GroupedTrianglesToSDF, …).

var realSizes = []int{0, 1, 1, 2, 2, 3, 3, 4, 4, 5, 5, 8, 8, 8, 16, 16, 16, 33, 33, 64, 200}

func (g *G) genReal(n int) {
	for i := 0; i < n; {
		switch m := g.Rng.Intn(20); {
		case m < 8:
			i += g.realSet3()
		case m < 14:
			i += g.realSet2()
		case m < 17:
			i += g.realDist3()
		default:
			i += g.realDist2()
		}
	}
}

func (g *G) gridPt(dim int) V {
	var v V
	for a := 0; a < dim; a++ {
		v[a] = g.half(4)
	}
	return v
}

func zeroArea(a, b, c V) bool {
	u, w := b.sub(a), c.sub(a)
	return u[1]*w[2]-u[2]*w[1] == 0 && u[2]*w[0]-u[0]*w[2] == 0 && u[0]*w[1]-u[1]*w[0] == 0
}

// randPrims: n primitives with k vertices each (k = 3: triangles, k = 2: segments) on the half-integer
// grid: shared vertices, small local primitives, exact duplicates, axis-aligned (flat boxes), degenerate.
func (g *G) randPrims(dim, k, n int, degenerateOK bool) [][]V {
	pool := make([]V, n/2+3)
	for i := range pool {
		pool[i] = g.gridPt(dim)
	}
	local := g.p(0.6)
	// common planes: axis-aligned faces (floors, walls, sides of boxes, extruded profiles; collinear runs of
	// segments in 2-D) make the bounds of INNER nodes flat as well.  coplanarAll: the whole set lies in one
	// axis plane; otherwise (sometimes) 1 … 3 planes, each primitive put on one of them with probability 0.7.
	type plane struct {
		a int
		x float64
	}
	var planes []plane
	pPlane := 0.0
	switch m := g.Rng.Intn(20); {
	case m < 3:
		planes, pPlane = []plane{{g.Rng.Intn(dim), g.half(3)}}, 1
	case m < 7:
		for k := 1 + g.Rng.Intn(3); k > 0; k-- {
			planes = append(planes, plane{g.Rng.Intn(dim), g.half(3)})
		}
		pPlane = 0.7
	}
	if pPlane == 1 && n > 1 {
		g.Stat(fmt.Sprintf("real%d sets in one axis plane(all bounds flat)", dim), 1)
	}
	out := make([][]V, 0, n)
	for len(out) < n {
		vs := make([]V, k)
		switch {
		case len(out) > 0 && g.p(0.1): // duplicate (possibly with rotated vertices)
			src := out[g.Rng.Intn(len(out))]
			r := g.Rng.Intn(k)
			for j := range vs {
				vs[j] = src[(j+r)%k]
			}
		case local && g.p(0.8):
			base := pool[g.Rng.Intn(len(pool))]
			vs[0] = base
			for j := 1; j < k; j++ {
				vs[j] = base
				for a := 0; a < dim; a++ {
					vs[j][a] += float64(g.Rng.Intn(5)-2) / 2
				}
			}
		default:
			for j := range vs {
				vs[j] = pool[g.Rng.Intn(len(pool))]
			}
		}
		if g.p(0.2) { // axis-aligned: flat bounding box
			a := g.Rng.Intn(dim)
			for j := range vs {
				vs[j][a] = vs[0][a]
			}
		}
		if len(planes) > 0 && g.p(pPlane) {
			pl := planes[g.Rng.Intn(len(planes))]
			for j := range vs {
				vs[j][pl.a] = pl.x
			}
		}
		if degenerateOK && g.p(0.05) {
			if k == 3 && g.p(0.5) {
				vs[2] = vs[1].scale(2).sub(vs[0]) // collinear
			} else {
				vs[k-1] = vs[0]
			}
		}
		deg := (k == 3 && zeroArea(vs[0], vs[1], vs[2])) || (k == 2 && vs[0] == vs[1])
		if deg && !degenerateOK {
			continue
		}
		if deg {
			g.Stat(fmt.Sprintf("real%d degenerate-primitives", dim), 1)
		}
		out = append(out, vs)
	}
	return out
}

// boxPrims: the surfaces of 1 … 3 axis-aligned boxes on the half-integer grid (the triangulation of NewMeshRect:
// two triangles per face; in 2-D the four edges of a rectangle outline), possibly touching / overlapping / nested.
// Every face is an axis-aligned flat set, so the hierarchy nodes over one face (or over coplanar faces of two
// boxes) have zero-thickness bounds.
func (g *G) boxPrims(dim int) [][]V {
	var out [][]V
	for nb := 1 + g.Rng.Intn(3); nb > 0; nb-- {
		var b box
		for a := 0; a < dim; a++ {
			x := g.half(3)
			b.lo[a], b.hi[a] = x, x+g.pickF([]float64{0.5, 1, 1, 2, 3, 4})
		}
		if dim == 2 {
			c := []V{{b.lo[0], b.lo[1]}, {b.hi[0], b.lo[1]}, {b.hi[0], b.hi[1]}, {b.lo[0], b.hi[1]}}
			for i := range c {
				out = append(out, []V{c[i], c[(i+1)%4]})
			}
			continue
		}
		for a := 0; a < 3; a++ {
			u, w := (a+1)%3, (a+2)%3
			for _, x := range []float64{b.lo[a], b.hi[a]} {
				var c [4]V
				for i, uw := range [][2]float64{{b.lo[u], b.lo[w]}, {b.hi[u], b.lo[w]}, {b.hi[u], b.hi[w]}, {b.lo[u], b.hi[w]}} {
					c[i][a], c[i][u], c[i][w] = x, uw[0], uw[1]
				}
				if g.p(0.5) { // either diagonal
					out = append(out, []V{c[0], c[1], c[2]}, []V{c[0], c[2], c[3]})
				} else {
					out = append(out, []V{c[0], c[1], c[3]}, []V{c[1], c[2], c[3]})
				}
			}
		}
	}
	g.Rng.Shuffle(len(out), func(i, j int) { out[i], out[j] = out[j], out[i] })
	return out
}

// primTarget: a point on a primitive: vertex, edge midpoint, or an interior point.
func (g *G) primTarget(vs []V) V {
	a, b := vs[g.Rng.Intn(len(vs))], vs[g.Rng.Intn(len(vs))]
	switch g.Rng.Intn(4) {
	case 0, 1:
		return a
	case 2:
		return a.add(b).scale(0.5)
	}
	c := vs[len(vs)-1]
	return a.add(b).scale(0.5).add(c).scale(0.5)
}

// primInterior: a point strictly inside the primitive (weights 1/4, 1/4, 1/2 in some order; 1/4 : 3/4 or the
// middle on a segment): exact on the half-integer grid.
func primInterior(g *G, vs []V) V {
	p := g.Rng.Perm(len(vs))
	if len(vs) == 2 {
		m := vs[0].add(vs[1]).scale(0.5)
		if g.p(0.5) {
			return m
		}
		return m.add(vs[p[0]]).scale(0.5)
	}
	return vs[p[0]].add(vs[p[1]]).scale(0.5).add(vs[p[2]]).scale(0.5)
}

// realQuery: aimed either at the primitive boxes or at points on the primitives themselves.
func (g *G) realQuery(dim int, kind string, prims [][]V, bs, aim []box) query {
	pAim := 0.4
	if kind == "rect" {
		pAim = 0.25
	}
	if len(prims) == 0 || g.p(pAim) {
		return g.aimQuery(dim, kind, aim)
	}
	i := g.Rng.Intn(len(prims))
	if kind == "rect" && g.p(0.7) { // prefer an axis-aligned primitive (flat bounds)
		var flat []int
		for j, b := range bs {
			if b.flat(dim) {
				flat = append(flat, j)
			}
		}
		if len(flat) > 0 {
			i = g.pickI(flat)
		}
	}
	t := g.primTarget(prims[i])
	q := query{q: kind}
	switch kind {
	case "ray", "first":
		o, d := g.rayThrough(dim, t, bs[i], false)
		q.setRay(dim, o, d, g.dirScale())
		if tinyDir(dim, q.pt(dim, 1)) {
			g.Stat("real ray tiny-dir-component(<1e-6)", 1)
		}
	case "sphere": // centre at axis distance r from a point of the primitive
		r := g.pickF([]float64{0.5, 1, 1.5, 2, 0.25, 0})
		c := t
		c[g.Rng.Intn(dim)] += r * g.pickF([]float64{1, -1})
		if g.p(0.3) {
			r += g.pickF([]float64{0.25, -0.25})
		}
		q.a = append(append(q.a, c[:dim]...), r)
	case "seg":
		var d V
		for a := 0; a < dim; a++ {
			if !g.p(0.3) {
				d[a] = g.pickF(smallDirs)
			}
		}
		p, e := t.sub(d), t // ends exactly on the primitive
		switch g.Rng.Intn(3) {
		case 0:
			p, e = t, t.add(d) // starts on it
		case 1:
			p, e = t.sub(d), t.add(d) // crosses
		}
		q.a = append(append(q.a, p[:dim]...), e[:dim]...)
	case "rect": // a small box around / beside a point of the primitive: it pierces a face (crosses a segment)
		// in its interior, contains no vertex and often no part of an edge
		if g.p(0.7) {
			t = primInterior(g, prims[i])
		}
		q.a = make([]float64, 2*dim)
		for a := 0; a < dim; a++ {
			w := g.pickF([]float64{0, 0.03125, 0.03125, 0.0625, 0.0625, 0.125, 0.25, 0.5, 1})
			if bs[i].lo[a] == bs[i].hi[a] && g.p(0.7) { // across the plane of a flat primitive
				w = g.pickF([]float64{0.03125, 0.25, 0.5, 1, 2})
			}
			lo, hi := t[a]-w, t[a]+w
			switch g.Rng.Intn(6) {
			case 0:
				hi = t[a] // touches the point from below
			case 1:
				lo = t[a] // … from above
			}
			q.a[a], q.a[dim+a] = lo, hi
		}
	case "tri": // a triangle with the point of the primitive as its centroid
		var d1, d2 V
		for a := 0; a < 3; a++ {
			d1[a], d2[a] = float64(g.Rng.Intn(9)-4)/2, float64(g.Rng.Intn(9)-4)/2
		}
		for _, v := range []V{t.add(d1), t.add(d2), t.sub(d1).sub(d2)} {
			q.a = append(q.a, v[:]...)
		}
	default:
		return g.aimQuery(dim, kind, aim)
	}
	return q
}

func segBits3(s model3d.Segment) [6]uint64 {
	return [6]uint64{math.Float64bits(s[0].X), math.Float64bits(s[0].Y), math.Float64bits(s[0].Z),
		math.Float64bits(s[1].X), math.Float64bits(s[1].Y), math.Float64bits(s[1].Z)}
}

// matchSegs maps the segments returned by a hierarchy to the ids 1000*leaf+j of the per-leaf results
// (by value, in hierarchy order); an unmatched segment gets id 999999.
func matchSegs(order []int, leafSegs [][]model3d.Segment, got []model3d.Segment) []int {
	var ids []int
	pos, j := 0, 0
	for _, s := range got {
		found := false
		for pos < len(order) {
			ls := leafSegs[order[pos]]
			if j < len(ls) && segBits3(ls[j]) == segBits3(s) {
				ids = append(ids, 1000*order[pos]+j)
				j++
				found = true
				break
			}
			pos, j = pos+1, 0
		}
		if !found {
			ids = append(ids, 999999)
		}
	}
	return ids
}

// realAns3: the real per-triangle answers (the leaf data of the op line).
func realAns3(tris []*model3d.Triangle, q query) (ans []lans, segs [][]model3d.Segment, pan string) {
	ans = make([]lans, len(tris))
	segs = make([][]model3d.Segment, len(tris))
	pan = guard(func() {
		for i, t := range tris {
			a := &ans[i]
			switch q.q {
			case "ray":
				n := t.RayCollisions(&model3d.Ray{Origin: c3(q.v(0)), Direction: c3(q.v(1))}, func(rc model3d.RayCollision) {
					a.scales = append(a.scales, rc.Scale)
				})
				if n != len(a.scales) {
					panic("harness: triangle ray count differs from callbacks")
				}
			case "first":
				rc, ok := t.FirstRayCollision(&model3d.Ray{Origin: c3(q.v(0)), Direction: c3(q.v(1))})
				a.has, a.s = ok, rc.Scale
			case "sphere":
				a.flag = t.SphereCollision(c3(q.v(0)), q.a[3])
			case "seg":
				a.flag = t.SegmentCollision(model3d.Segment{c3(q.v(0)), c3(q.v(1))})
			case "rect":
				a.flag = t.RectCollision(&model3d.Rect{MinVal: c3(q.v(0)), MaxVal: c3(q.v(1))})
			case "tri":
				segs[i] = t.TriangleCollisions(&model3d.Triangle{c3(q.v(0)), c3(q.v(1)), c3(q.v(2))})
				for j := range segs[i] {
					a.ids = append(a.ids, 1000*i+j)
				}
			}
		}
	})
	return
}

// clipSensitive: coverage statistic only.  Would the halving hierarchy over the leaves `ids` answer the box query
// differently if every node handed its children the part of the box inside the node's bounds (a valid step for
// point sets, but the leaf tests are edge tests: under a zero-thickness node the clipped box is flat and no longer
// pierces the face)?  leafAns(i, lo, hi) is the real per-primitive test.
func clipSensitive(dim int, ids []int, bs []box, lo, hi V, leafAns func(i int, lo, hi V) bool) bool {
	var rec func(ids []int, lo, hi V) bool
	rec = func(ids []int, lo, hi V) bool {
		if len(ids) == 1 {
			return leafAns(ids[0], lo, hi)
		}
		u := bs[ids[0]]
		for _, i := range ids {
			u = union(u, bs[i])
		}
		for a := 0; a < dim; a++ {
			lo[a], hi[a] = math.Max(lo[a], u.lo[a]), math.Min(hi[a], u.hi[a])
			if lo[a] > hi[a] {
				return false
			}
		}
		return rec(ids[:len(ids)/2], lo, hi) || rec(ids[len(ids)/2:], lo, hi)
	}
	if len(ids) == 0 {
		return false
	}
	plain := false
	for _, i := range ids {
		plain = plain || leafAns(i, lo, hi)
	}
	return plain != rec(ids, lo, hi)
}

func primsOf3(tris []*model3d.Triangle) []model3d.Triangle {
	out := make([]model3d.Triangle, len(tris))
	for i, t := range tris {
		out[i] = *t
	}
	return out
}

func primsOf2(segs []*model2d.Segment) []model2d.Segment {
	out := make([]model2d.Segment, len(segs))
	for i, s := range segs {
		out[i] = *s
	}
	return out
}

// canon: order-independent rendering of a result (MeshToCollider's leaf order depends on map iteration).
func canon(q string, r qres, segs []model3d.Segment) string {
	if r.pan != "" {
		return r.pan
	}
	switch q {
	case "ray":
		var w []string
		for _, h := range r.hits {
			w = append(w, hlib.RatStr(h.s))
		}
		sort.Strings(w)
		return fmt.Sprint(r.count, w)
	case "first":
		if !r.ok {
			return "none"
		}
		return hlib.RatStr(r.h.s)
	case "tri":
		var w []string
		for _, s := range segs {
			w = append(w, fmt.Sprint(segBits3(s)))
		}
		sort.Strings(w)
		return strings.Join(w, ",")
	}
	return b01(r.flag)
}

var kinds3 = []string{"ray", "ray", "first", "first", "sphere", "sphere", "seg", "rect", "tri"}
var kinds2 = []string{"ray", "ray", "first", "first", "sphere", "sphere", "seg", "rect"}

// setKinds: the queries put to one set: each kind of the list with probability 0.6, plus extra box queries (the
// box handed to a leaf is what its edge tests run on) — more of them when inner nodes have flat bounds.
func (g *G) setKinds(kinds []string, flatNodes bool) []string {
	var out []string
	for _, k := range kinds {
		if !g.p(0.4) {
			out = append(out, k)
		}
	}
	extra := g.Rng.Intn(3)
	if flatNodes {
		extra += 5
	}
	for ; extra > 0; extra-- {
		out = append(out, "rect")
	}
	return out
}

// flatPair: two different primitives whose common bounds are flat (an inner node over them has zero thickness).
func flatPair(dim int, bs []box) bool {
	if len(bs) > 64 {
		bs = bs[:64]
	}
	for i := range bs {
		for j := i + 1; j < len(bs); j++ {
			if union(bs[i], bs[j]).flat(dim) {
				return true
			}
		}
	}
	return false
}

// realSet3: one triangle set; GroupedTrianglesToCollider (`H n …`), BVHToCollider (nested `J 2`),
// MeshToCollider (scan only).
func (g *G) realSet3() int {
	n := g.pickI(realSizes)
	var prims [][]V
	if g.p(0.15) { // closed axis-aligned box meshes: every face is a flat set
		prims = g.boxPrims(3)
		n = len(prims)
		g.Stat("real3 box-mesh sets(axis-aligned faces)", 1)
	} else {
		prims = g.randPrims(3, 3, n, g.p(0.5)) // zero-area triangles poison `tri` queries (NaN segments), so only in half of the sets
	}
	tris := make([]*model3d.Triangle, n)
	ss := g.sceneScale() // the whole scene (triangles and queries) times a power of two
	for i, p := range prims {
		tris[i] = &model3d.Triangle{c3(p[0].scale(ss)), c3(p[1].scale(ss)), c3(p[2].scale(ss))}
	}
	if ss != 1 {
		g.Stat("real3 sets far from unit scale", 1)
	}
	var collH, collB, collN, collM model3d.Collider
	var shB, shN *shape
	idx := map[*model3d.Triangle]int{}
	pan := guard(func() {
		model3d.GroupTriangles(tris)
		for i, t := range tris {
			idx[t] = i
		}
		collH = model3d.GroupedTrianglesToCollider(tris)
		if n > 0 {
			in := append([]*model3d.Triangle{}, tris...)
			g.Rng.Shuffle(n, func(i, j int) { in[i], in[j] = in[j], in[i] })
			bvh := model3d.NewBVHAreaDensity(in)
			shB = shapeOfBVH3(bvh, func(t *model3d.BVH[*model3d.Triangle]) bool { return t.Leaf != nil }, idx)
			collB = model3d.BVHToCollider(bvh)
			// a hand-made BVH over the same triangles (any order, branches with 2 … 5 or more children)
			shN = g.randNaryShape(g.Rng.Perm(n))
			collN = model3d.BVHToCollider(bvhOfShape3(shN, func(i int) *model3d.Triangle { return tris[i] }))
			if shN.maxWidth() > 2 {
				g.Stat("real3 BVHToCollider branch-with-more-than-2-children", 1)
			}
		}
		collM = model3d.MeshToCollider(model3d.NewMeshTriangles(tris))
	})
	if pan != "" {
		g.PropFail("prop:c08 real3-build-panics", pan)
		return 1
	}
	if len(idx) != n {
		g.PropFail("prop:c08 group-not-permutation", "GroupTriangles lost or duplicated a triangle")
	}
	if shB != nil && (!shB.binary() || !isPerm(n, shB.leaves())) {
		g.PropFail("prop:c08 bvh-not-permutation", "NewBVHAreaDensity on triangles")
	}
	bs, bs0 := make([]box, n), make([]box, n) // bs0 / prims: unit-size copies for the query generators
	for i, t := range tris { // prims in grouped order
		bs[i] = box{v3(t.Min()), v3(t.Max())}
		bs0[i] = bs[i].scale(1 / ss)
		prims[i] = []V{v3(t[0]).scale(1 / ss), v3(t[1]).scale(1 / ss), v3(t[2]).scale(1 / ss)}
	}
	shH := &shape{k: 'H', ids: seq(n)}
	aim := g.aimBoxes(3, bs0)
	emitted := 0
	flatNodes := flatPair(3, bs0)
	if flatNodes {
		g.Stat("real3 sets with coplanar axis-aligned triangles(flat inner bounds possible)", 1)
	}
	// answers are values: the slices returned by TriangleCollisions are kept and read again after all later
	// queries on the same colliders
	var keptSegs, keptCopies [][]model3d.Segment
	defer func() {
		for i, ss := range keptSegs {
			for j, s := range ss {
				if segBits3(s) != segBits3(keptCopies[i][j]) {
					g.PropFail("prop:c08 tri-answer-changed-after-later-queries",
						fmt.Sprintf("TriangleCollisions answer %d of a set of %d triangles: segment %d read %v when returned and %v after later queries", i, n, j, keptCopies[i][j], s))
					return
				}
			}
		}
	}()
	for _, kind := range g.setKinds(kinds3, flatNodes) {
		q := g.realQuery(3, kind, prims, bs0, aim)
		q.scaleScene(ss)
		ans, lsegs, pan := realAns3(tris, q)
		ok := pan == ""
		for _, a := range ans {
			ok = ok && a.finite()
		}
		if !ok {
			g.Stat("real3 skipped(non-finite or panicking leaf answer)", 1)
			continue
		}
		// A zero-area triangle answers TriangleCollisions with a NaN segment whatever the query is
		// (also far outside its box): such leaf data is not consistent with the leaf's bounds.
		nanSeg := false
		for _, ls := range lsegs {
			for _, s := range ls {
				for _, x := range []float64{s[0].X, s[0].Y, s[0].Z, s[1].X, s[1].Y, s[1].Z} {
					nanSeg = nanSeg || math.IsNaN(x) || math.IsInf(x, 0)
				}
			}
		}
		if nanSeg {
			// (found by this harness and repaired in /repo by "fix: Triangle.TriangleCollisions reported a
			// NaN segment for zero-area triangles"): a leaf that reports a collision far outside its own
			// bounds makes the bounds-pruning hierarchy disagree with the scan over the triangles.
			g.PropFail("prop:c08 real3-triangle-reports-nan-segment",
				"a triangle of the set answers TriangleCollisions with a non-finite segment: "+fmt.Sprint(prims)+" query "+fmt.Sprint(q.a))
			continue
		}
		if kind == "rect" {
			if clipSensitive(3, seq(n), bs, q.v(0), q.v(1), func(i int, lo, hi V) bool {
				return tris[i].RectCollision(&model3d.Rect{MinVal: c3(lo), MaxVal: c3(hi)})
			}) {
				g.Stat("real3 rect queries piercing a face under a flat node(children must be asked the unclipped box)", 1)
			}
		}
		hierNote = ""
		if n <= 16 {
			hierNote = fmt.Sprintf(" | real triangles (leaf order) %v, %s query %v; H = GroupedTrianglesToCollider, J-nest = BVHToCollider of that BVH", primsOf3(tris), kind, q.a)
		}
		for _, hs := range []struct {
			coll model3d.Collider
			sh   *shape
		}{{collH, shH}, {collB, shB}, {collN, shN}} {
			if hs.sh == nil || (hs.sh != shH && n > 33 && g.p(0.5)) {
				continue
			}
			order := hs.sh.leaves()
			cv := conv3{
				tag: func(rc model3d.RayCollision) int {
					if tc, ok := rc.Extra.(*model3d.TriangleCollision); ok {
						if i, ok := idx[tc.Triangle]; ok {
							return 1000 * i
						}
					}
					return 999999
				},
				segs: func(ss []model3d.Segment) []int {
					keptSegs = append(keptSegs, ss)
					keptCopies = append(keptCopies, append([]model3d.Segment{}, ss...))
					return matchSegs(order, lsegs, ss)
				},
			}
			res := run3(hs.coll, q, cv)
			g.emitHier("j3", 3, q, false, true, bs, ans, hs.sh, res, nil)
			emitted++
		}
		// MeshToCollider: canonicalised comparison with the scan
		var gotSegs, wantSegs []model3d.Segment
		cvM := conv3{tag: func(model3d.RayCollision) int { return 0 },
			segs: func(ss []model3d.Segment) []int { gotSegs = ss; return nil }}
		got := run3(collM, q, cvM)
		for _, s := range lsegs {
			wantSegs = append(wantSegs, s...)
		}
		if a, b := canon(kind, got, gotSegs), canon(kind, scan(kind, seq(n), ans), wantSegs); a != b {
			g.PropFail("prop:c08 meshtocollider-"+kind+"-differs-from-scan",
				opLine("j3", 3, q, false, true, bs, ans, shH)+" => got "+a+" want "+b+hierNote)
		}
		g.Stat("real3 MeshToCollider checks", 1)
	}
	hierNote = ""
	if n == 0 {
		g.Stat("real3 empty-set", 1)
	}
	return emitted + 1
}

// ---------------------------------------------------------------------------
// 2D

func realAns2(segs []*model2d.Segment, q query) (ans []lans, pan string) {
	ans = make([]lans, len(segs))
	pan = guard(func() {
		for i, s := range segs {
			a := &ans[i]
			switch q.q {
			case "ray":
				n := s.RayCollisions(&model2d.Ray{Origin: c2(q.w(0)), Direction: c2(q.w(1))}, func(rc model2d.RayCollision) {
					a.scales = append(a.scales, rc.Scale)
				})
				if n != len(a.scales) {
					panic("harness: segment ray count differs from callbacks")
				}
			case "first":
				rc, ok := s.FirstRayCollision(&model2d.Ray{Origin: c2(q.w(0)), Direction: c2(q.w(1))})
				a.has, a.s = ok, rc.Scale
			case "sphere":
				a.flag = s.CircleCollision(c2(q.w(0)), q.a[2])
			case "seg":
				a.flag = s.SegmentCollision(&model2d.Segment{c2(q.w(0)), c2(q.w(1))})
			case "rect":
				a.flag = s.RectCollision(&model2d.Rect{MinVal: c2(q.w(0)), MaxVal: c2(q.w(1))})
			}
		}
	})
	return
}

func (g *G) realSet2() int {
	n := g.pickI(realSizes)
	var prims [][]V
	if g.p(0.15) { // rectangle outlines: every side is a flat set, sides of different rectangles may be collinear
		prims = g.boxPrims(2)
		n = len(prims)
		g.Stat("real2 rect-outline sets(axis-aligned sides)", 1)
	} else {
		prims = g.randPrims(2, 2, n, true)
	}
	segs := make([]*model2d.Segment, n)
	ss := g.sceneScale()
	for i, p := range prims {
		segs[i] = &model2d.Segment{c2(p[0].scale(ss)), c2(p[1].scale(ss))}
	}
	if ss != 1 {
		g.Stat("real2 sets far from unit scale", 1)
	}
	var collH, collB, collN, collM model2d.Collider
	var shB, shN *shape
	idx := map[*model2d.Segment]int{}
	pan := guard(func() {
		model2d.GroupSegments(segs)
		for i, s := range segs {
			idx[s] = i
		}
		collH = model2d.GroupedSegmentsToCollider(segs)
		if n > 0 {
			in := append([]*model2d.Segment{}, segs...)
			g.Rng.Shuffle(n, func(i, j int) { in[i], in[j] = in[j], in[i] })
			bvh := model2d.NewBVHAreaDensity(in)
			shB = shapeOfBVH2(bvh, func(t *model2d.BVH[*model2d.Segment]) bool { return t.Leaf != nil }, idx)
			collB = model2d.BVHToCollider(bvh)
			shN = g.randNaryShape(g.Rng.Perm(n))
			collN = model2d.BVHToCollider(bvhOfShape2(shN, func(i int) *model2d.Segment { return segs[i] }))
			if shN.maxWidth() > 2 {
				g.Stat("real2 BVHToCollider branch-with-more-than-2-children", 1)
			}
		}
		collM = model2d.MeshToCollider(model2d.NewMeshSegments(segs))
	})
	if pan != "" {
		g.PropFail("prop:c08 real2-build-panics", pan)
		return 1
	}
	if len(idx) != n {
		g.PropFail("prop:c08 group-not-permutation", "GroupSegments lost or duplicated a segment")
	}
	if shB != nil && (!shB.binary() || !isPerm(n, shB.leaves())) {
		g.PropFail("prop:c08 bvh-not-permutation", "NewBVHAreaDensity on segments")
	}
	bs, bs0 := make([]box, n), make([]box, n)
	for i, s := range segs {
		bs[i] = box{v2(s.Min()), v2(s.Max())}
		bs0[i] = bs[i].scale(1 / ss)
		prims[i] = []V{v2(s[0]).scale(1 / ss), v2(s[1]).scale(1 / ss)}
	}
	shH := &shape{k: 'H', ids: seq(n)}
	aim := g.aimBoxes(2, bs0)
	flatNodes := flatPair(2, bs0)
	if flatNodes {
		g.Stat("real2 sets with collinear axis-aligned segments(flat inner bounds possible)", 1)
	}
	tag := func(rc model2d.RayCollision) int {
		if s, ok := rc.Extra.(*model2d.Segment); ok {
			if i, ok := idx[s]; ok {
				return 1000 * i
			}
		}
		return 999999
	}
	emitted := 0
	for _, kind := range g.setKinds(kinds2, flatNodes) {
		q := g.realQuery(2, kind, prims, bs0, aim)
		q.scaleScene(ss)
		ans, pan := realAns2(segs, q)
		ok := pan == ""
		for _, a := range ans {
			ok = ok && a.finite()
		}
		if !ok {
			g.Stat("real2 skipped(non-finite or panicking leaf answer)", 1)
			continue
		}
		if kind == "rect" {
			if clipSensitive(2, seq(n), bs, q.w(0), q.w(1), func(i int, lo, hi V) bool {
				return segs[i].RectCollision(&model2d.Rect{MinVal: c2(lo), MaxVal: c2(hi)})
			}) {
				g.Stat("real2 rect queries crossing a segment under a flat node(children must be asked the unclipped box)", 1)
			}
		}
		hierNote = ""
		if n <= 16 {
			hierNote = fmt.Sprintf(" | real segments (leaf order) %v, %s query %v; H = GroupedSegmentsToCollider, J-nest = BVHToCollider of that BVH", primsOf2(segs), kind, q.a)
		}
		for _, hs := range []struct {
			coll model2d.Collider
			sh   *shape
		}{{collH, shH}, {collB, shB}, {collN, shN}} {
			if hs.sh == nil || (hs.sh != shH && n > 33 && g.p(0.5)) {
				continue
			}
			res := run2(hs.coll, q, tag)
			g.emitHier("j2", 2, q, false, true, bs, ans, hs.sh, res, nil)
			emitted++
		}
		got := run2(collM, q, func(model2d.RayCollision) int { return 0 })
		if a, b := canon(kind, got, nil), canon(kind, scan(kind, seq(n), ans), nil); a != b {
			g.PropFail("prop:c08 meshtocollider2d-"+kind+"-differs-from-scan",
				opLine("j2", 2, q, false, true, bs, ans, shH)+" => got "+a+" want "+b+hierNote)
		}
		g.Stat("real2 MeshToCollider checks", 1)
	}
	hierNote = ""
	if n == 0 {
		g.Stat("real2 empty-set", 1)
	}
	return emitted + 1
}

// ---------------------------------------------------------------------------
// meshDistFunc: d3 / d2

var distSizes = []int{1, 1, 2, 2, 3, 3, 4, 5, 5, 8, 8, 16, 16, 33, 64, 200}

// distPoint: a query point: on a vertex, on the surface, at a box corner, between two primitives
// (equidistant), or anywhere on the grid.
func (g *G) distPoint(dim int, prims [][]V, bs []box) V {
	i, j := g.Rng.Intn(len(prims)), g.Rng.Intn(len(prims))
	switch g.Rng.Intn(6) {
	case 0:
		return g.primTarget(prims[i])
	case 1:
		return g.boxPoint(dim, bs[i], true)
	case 2: // middle between points of two primitives
		return g.primTarget(prims[i]).add(g.primTarget(prims[j])).scale(0.5)
	case 3: // axis offset from a point of a primitive
		c := g.primTarget(prims[i])
		c[g.Rng.Intn(dim)] += g.pickF([]float64{-2, -1, -0.5, 0.5, 1, 2})
		return c
	case 4:
		all := bs[0]
		for _, b := range bs {
			all = union(all, b)
		}
		return g.boxPoint(dim, all, true)
	}
	return g.gridPt(dim)
}

func distLine(kind string, dim int, c V, bs []box, ds []float64) string {
	t := (&toks{}).s("c08", kind, "1").v(dim, c).n(len(bs))
	for i, b := range bs {
		t.b(dim, b).f(ds[i])
	}
	return t.n(len(bs)).n(seq(len(bs))...).String()
}

func (g *G) realDist3() int {
	n := g.pickI(distSizes)
	prims := g.randPrims(3, 3, n, false)
	tris := make([]*model3d.Triangle, n)
	ss := g.sceneScale()
	for i, p := range prims {
		tris[i] = &model3d.Triangle{c3(p[0].scale(ss)), c3(p[1].scale(ss)), c3(p[2].scale(ss))}
	}
	if ss != 1 {
		g.Stat("d3 sets far from unit scale", 1)
	}
	var sdf, sdfM model3d.FaceSDF
	idx := map[*model3d.Triangle]int{}
	if pan := guard(func() {
		model3d.GroupTriangles(tris)
		sdf = model3d.GroupedTrianglesToSDF(tris)
		sdfM = model3d.MeshToSDF(model3d.NewMeshTriangles(tris))
	}); pan != "" {
		g.PropFail("prop:c08 d3-build-panics", pan)
		return 1
	}
	bs, bs0 := make([]box, n), make([]box, n)
	for i, t := range tris {
		idx[t] = i
		bs[i] = box{v3(t.Min()), v3(t.Max())}
		bs0[i] = bs[i].scale(1 / ss)
		prims[i] = []V{v3(t[0]).scale(1 / ss), v3(t[1]).scale(1 / ss), v3(t[2]).scale(1 / ss)}
	}
	nq := 6 + g.Rng.Intn(7)
	emitted := 0
	for k := 0; k < nq; k++ {
		c := g.distPoint(3, prims, bs0).scale(ss)
		ds := make([]float64, n)
		best, finite := math.Inf(1), true
		for i, t := range tris {
			ds[i] = t.Closest(c3(c)).Dist(c3(c))
			finite = finite && !math.IsNaN(ds[i]) && !math.IsInf(ds[i], 0)
			best = math.Min(best, ds[i])
		}
		if !finite {
			g.Stat("d3 skipped(non-finite leaf distance)", 1)
			continue
		}
		op := distLine("d3", 3, c, bs, ds)
		var face *model3d.Triangle
		var pt model3d.Coord3D
		var dist, sd, pd, md float64
		pan := guard(func() {
			face, pt, dist = sdf.FaceSDF(c3(c))
			sd = sdf.SDF(c3(c))
			_, pd = sdf.(model3d.PointSDF).PointSDF(c3(c))
			md = sdfM.SDF(c3(c))
		})
		if pan != "" {
			g.Emit(op, pan)
			continue
		}
		g.Emit(op, hlib.RatStr(math.Abs(dist)))
		emitted++
		g.Stat("d3 cases", 1)
		d := math.Abs(dist)
		fi, known := idx[face]
		switch {
		case d != best:
			g.PropFail("prop:c08 d3-dist-not-minimum", op+" => "+hlib.RatStr(d))
		case !known || ds[fi] != d:
			g.PropFail("prop:c08 d3-face-not-at-dist", op)
		case pt.Dist(c3(c)) != d:
			g.PropFail("prop:c08 d3-point-not-at-dist", op)
		case math.Abs(sd) != d || math.Abs(pd) != d:
			g.PropFail("prop:c08 d3-sdf-variants-differ", op)
		case math.Abs(md) != d:
			g.PropFail("prop:c08 d3-meshtosdf-differs", op+" => "+hlib.RatStr(math.Abs(md)))
		}
		ties := 0
		for _, x := range ds {
			if x == best {
				ties++
			}
		}
		if ties > 1 {
			g.Stat("d3 ties(several faces at the minimum)", 1)
		}
		if best == 0 {
			g.Stat("d3 point-on-surface", 1)
		}
	}
	return emitted + 1
}

func (g *G) realDist2() int {
	n := g.pickI(distSizes)
	prims := g.randPrims(2, 2, n, false)
	segs := make([]*model2d.Segment, n)
	ss := g.sceneScale()
	for i, p := range prims {
		segs[i] = &model2d.Segment{c2(p[0].scale(ss)), c2(p[1].scale(ss))}
	}
	if ss != 1 {
		g.Stat("d2 sets far from unit scale", 1)
	}
	var sdf, sdfM model2d.FaceSDF
	idx := map[*model2d.Segment]int{}
	if pan := guard(func() {
		model2d.GroupSegments(segs)
		sdf = model2d.GroupedSegmentsToSDF(segs)
		sdfM = model2d.MeshToSDF(model2d.NewMeshSegments(segs))
	}); pan != "" {
		g.PropFail("prop:c08 d2-build-panics", pan)
		return 1
	}
	bs, bs0 := make([]box, n), make([]box, n)
	for i, s := range segs {
		idx[s] = i
		bs[i] = box{v2(s.Min()), v2(s.Max())}
		bs0[i] = bs[i].scale(1 / ss)
		prims[i] = []V{v2(s[0]).scale(1 / ss), v2(s[1]).scale(1 / ss)}
	}
	nq := 6 + g.Rng.Intn(7)
	emitted := 0
	for k := 0; k < nq; k++ {
		c := g.distPoint(2, prims, bs0).scale(ss)
		ds := make([]float64, n)
		best, finite := math.Inf(1), true
		for i, s := range segs {
			ds[i] = s.Closest(c2(c)).Dist(c2(c))
			finite = finite && !math.IsNaN(ds[i]) && !math.IsInf(ds[i], 0)
			best = math.Min(best, ds[i])
		}
		if !finite {
			g.Stat("d2 skipped(non-finite leaf distance)", 1)
			continue
		}
		op := distLine("d2", 2, c, bs, ds)
		var face *model2d.Segment
		var pt model2d.Coord
		var dist, sd, pd, md float64
		pan := guard(func() {
			face, pt, dist = sdf.FaceSDF(c2(c))
			sd = sdf.SDF(c2(c))
			_, pd = sdf.(model2d.PointSDF).PointSDF(c2(c))
			md = sdfM.SDF(c2(c))
		})
		if pan != "" {
			g.Emit(op, pan)
			continue
		}
		g.Emit(op, hlib.RatStr(math.Abs(dist)))
		emitted++
		g.Stat("d2 cases", 1)
		d := math.Abs(dist)
		fi, known := idx[face]
		switch {
		case d != best:
			g.PropFail("prop:c08 d2-dist-not-minimum", op+" => "+hlib.RatStr(d))
		case !known || ds[fi] != d:
			g.PropFail("prop:c08 d2-face-not-at-dist", op)
		case pt.Dist(c2(c)) != d:
			g.PropFail("prop:c08 d2-point-not-at-dist", op)
		case math.Abs(sd) != d || math.Abs(pd) != d:
			g.PropFail("prop:c08 d2-sdf-variants-differ", op)
		case math.Abs(md) != d:
			g.PropFail("prop:c08 d2-meshtosdf-differs", op+" => "+hlib.RatStr(math.Abs(md)))
		}
		ties := 0
		for _, x := range ds {
			if x == best {
				ties++
			}
		}
		if ties > 1 {
			g.Stat("d2 ties(several faces at the minimum)", 1)
		}
		if best == 0 {
			g.Stat("d2 point-on-surface", 1)
		}
	}
	return emitted + 1
}
