package main

import (
	"fmt"
	"math"
	"sort"
	"strconv"
	"strings"
	"verif/harness/hlib"

	"github.com/unixpickle/model3d/model2d"
	"github.com/unixpickle/model3d/model3d"
)

// Kinds kd3 / kd2: CoordTree.  The REAL tree is serialised into every op line; the Lean side re-runs
// the pruned traversals on that very tree and compares with the linear scan.

// kdNode: dimension-independent copy of a real tree (built by walking the exported fields).
type kdNode struct {
	c      V
	axis   int
	lt, ge *kdNode
}

func kdOf3(t *model3d.CoordTree) *kdNode {
	if t == nil {
		return nil
	}
	return &kdNode{v3(t.Coord), t.SplitAxis, kdOf3(t.LessThan), kdOf3(t.GreaterEqual)}
}

func kdOf2(t *model2d.CoordTree) *kdNode {
	if t == nil {
		return nil
	}
	return &kdNode{v2(t.Coord), t.SplitAxis, kdOf2(t.LessThan), kdOf2(t.GreaterEqual)}
}

func (k *kdNode) ser(dim int, t *toks) {
	if k == nil {
		t.s("_")
		return
	}
	t.s("N").v(dim, k.c).n(k.axis)
	k.lt.ser(dim, t)
	k.ge.ser(dim, t)
}

func (k *kdNode) nodes(out *[]*kdNode) {
	if k != nil {
		*out = append(*out, k)
		k.lt.nodes(out)
		k.ge.nodes(out)
	}
}

func sqDist(dim int, a, b V) float64 {
	s := 0.0
	for i := 0; i < dim; i++ {
		s += (a[i] - b[i]) * (a[i] - b[i])
	}
	return s
}

func ptStr(dim int, p V) string {
	w := make([]string, dim)
	for i := range w {
		w[i] = hlib.RatStr(p[i])
	}
	return strings.Join(w, ",")
}

// kdTree: the real tree behind a dimension-independent interface.
type kdTree struct {
	dim      int
	contains func(V) bool
	nn       func(V) V
	knn      func(int, V) []V
	sphere   func(V, float64) bool
	slice    func() []V
	// knnTable issues KNN(ks[i], ps[i]) one after the other, KEEPING the returned slices, and reports every
	// answer twice: as it was when its call returned, and as the retained slice reads after the last call.
	knnTable func(ks []int, ps []V) (atReturn, atEnd [][]V)
	// the small wrappers: Dist (= distance to the nearest neighbour), Empty, Leaf
	dist  func(V) float64
	empty func() bool
	leaf  func() bool
}

func newKD(dim int, pts []V) (kdTree, *kdNode) {
	if dim == 3 {
		ps := make([]model3d.Coord3D, len(pts))
		for i, p := range pts {
			ps[i] = c3(p)
		}
		t := model3d.NewCoordTree(ps)
		conv := func(cs []model3d.Coord3D) []V {
			out := make([]V, len(cs))
			for i, c := range cs {
				out[i] = v3(c)
			}
			return out
		}
		return kdTree{3,
			func(p V) bool { return t.Contains(c3(p)) },
			func(p V) V { return v3(t.NearestNeighbor(c3(p))) },
			func(k int, p V) []V { return conv(t.KNN(k, c3(p))) },
			func(p V, r float64) bool { return t.SphereCollision(c3(p), r) },
			func() []V { return conv(t.Slice()) },
			func(ks []int, ps []V) (atReturn, atEnd [][]V) {
				kept := make([][]model3d.Coord3D, len(ks))
				for i, k := range ks {
					kept[i] = t.KNN(k, c3(ps[i]))
					atReturn = append(atReturn, conv(kept[i]))
				}
				for _, r := range kept {
					atEnd = append(atEnd, conv(r))
				}
				return
			},
			func(p V) float64 { return t.Dist(c3(p)) }, t.Empty, t.Leaf}, kdOf3(t)
	}
	ps := make([]model2d.Coord, len(pts))
	for i, p := range pts {
		ps[i] = c2(p)
	}
	t := model2d.NewCoordTree(ps)
	conv := func(cs []model2d.Coord) []V {
		out := make([]V, len(cs))
		for i, c := range cs {
			out[i] = v2(c)
		}
		return out
	}
	return kdTree{2,
		func(p V) bool { return t.Contains(c2(p)) },
		func(p V) V { return v2(t.NearestNeighbor(c2(p))) },
		func(k int, p V) []V { return conv(t.KNN(k, c2(p))) },
		func(p V, r float64) bool { return t.SphereCollision(c2(p), r) },
		func() []V { return conv(t.Slice()) },
		func(ks []int, ps []V) (atReturn, atEnd [][]V) {
			kept := make([][]model2d.Coord, len(ks))
			for i, k := range ks {
				kept[i] = t.KNN(k, c2(ps[i]))
				atReturn = append(atReturn, conv(kept[i]))
			}
			for _, r := range kept {
				atEnd = append(atEnd, conv(r))
			}
			return
		},
		func(p V) float64 { return t.Dist(c2(p)) }, t.Empty, t.Leaf}, kdOf2(t)
}

var kdSizes = []int{0, 1, 2, 3, 3, 4, 4, 5, 5, 7, 7, 8, 8, 16, 16, 16, 33, 33, 33, 100, 200}

func (g *G) genKD(n int) {
	for i, k := 0, 0; i < n; k++ {
		i += g.kdCase(2 + k%2)
	}
}

func sortedPts(ps []V) []V {
	out := append([]V{}, ps...)
	sort.Slice(out, func(i, j int) bool {
		for a := 0; a < 3; a++ {
			if out[i][a] != out[j][a] {
				return out[i][a] < out[j][a]
			}
		}
		return false
	})
	return out
}

func (g *G) kdCase(dim int) int {
	kind := "kd" + strconv.Itoa(dim)
	n := g.pickI(kdSizes)
	span := g.pickI([]int{1, 3, 3, 6, 6, 10})
	pts := make([]V, n)
	// sc: grid spacing of the whole scene (points, queries, radii).  With spacing 1/4 or 1/2 plane
	// distances below 1 occur, where d and d*d are ordered the other way round than above 1 (a
	// squared/unsquared mix-up in a pruning test is invisible on integer clouds).
	sc := g.pickF([]float64{1, 1, 0.5, 0.25, 0.25})
	if g.p(0.15) { // the same scenes far below / above unit size (exact: powers of two)
		sc *= g.sceneScaleFar()
		g.Stat(kind+" trees far from unit scale", 1)
	}
	mode := g.Rng.Intn(8) // 0: all identical, 1: collinear along an axis, else: small integer cloud
	line := g.Rng.Intn(dim)
	for i := range pts {
		for a := 0; a < dim; a++ {
			pts[i][a] = float64(g.Rng.Intn(span+1)) * sc
		}
		if i > 0 && mode == 0 {
			pts[i] = pts[0]
		}
		if i > 0 && mode == 1 {
			for a := 0; a < dim; a++ {
				if a != line {
					pts[i][a] = pts[0][a]
				}
			}
		}
	}
	var tree kdTree
	var root *kdNode
	if pan := guard(func() { tree, root = newKD(dim, pts) }); pan != "" {
		g.PropFail("prop:c08 kd-build-panics", pan)
		return 1
	}
	treeToks := &toks{}
	root.ser(dim, treeToks)
	ts := treeToks.String()
	var nodes []*kdNode
	root.nodes(&nodes)
	emitted := 0
	emit := func(op *toks, impl string) {
		g.Emit(op.s(ts).String(), impl)
		emitted++
	}
	member := map[V]int{}
	for _, p := range pts {
		member[p]++
	}

	// build: ordering invariant + Slice() is a permutation of the input
	{
		op := (&toks{}).s("c08", kind, "build").n(n)
		for _, p := range pts {
			op.v(dim, p)
		}
		var sl []V
		pan := guard(func() { sl = tree.slice() })
		impl := pan
		if pan == "" {
			impl = "inv=1 perm=1"
			if fmt.Sprint(sortedPts(sl)) != fmt.Sprint(sortedPts(pts)) || len(nodes) != n {
				g.PropFail("prop:c08 kd-slice-not-permutation", op.String()+" "+ts)
			}
		}
		emit(op, impl)
		if pan == "" && (tree.empty() != (n == 0) || tree.leaf() != (n <= 1)) {
			g.PropFail("prop:c08 kd-empty-or-leaf-wrong", fmt.Sprintf("%s %s: %d points, Empty() = %v, Leaf() = %v", op.String(), ts, n, tree.empty(), tree.leaf()))
		}
		g.Stat(kind+" trees", 1)
		if sc < 1 && sc >= 0.25 {
			g.Stat(kind+" trees on a sub-unit grid", 1)
		}
		if n == 0 {
			g.Stat(kind+" empty-tree", 1)
		}
		if len(member) < n {
			g.Stat(kind+" trees with duplicate points", 1)
		}
	}

	// across: a query point p obtained from a tree point q by moving it, along the split axis of one of
	// q's ancestors, to the other side of that ancestor's split plane: the traversal descends away from
	// q first and only the "other half-space" test can find it.  Returns p and the distance |p−q|.
	across := func() (V, float64) {
		for try := 0; try < 20; try++ {
			nd := nodes[g.Rng.Intn(len(nodes))]
			var sub []*kdNode
			less := nd.lt != nil && (nd.ge == nil || g.p(0.5))
			if less {
				nd.lt.nodes(&sub)
			} else {
				nd.ge.nodes(&sub)
			}
			if len(sub) == 0 {
				continue
			}
			q := sub[g.Rng.Intn(len(sub))]
			p := q.c
			if less { // q[axis] < split: put p on the split plane or beyond
				p[nd.axis] = nd.c[nd.axis] + sc*g.pickF([]float64{0, 0, 0.25, 0.5, 1})
			} else { // q[axis] >= split: put p strictly below the split plane
				p[nd.axis] = nd.c[nd.axis] - sc*g.pickF([]float64{0.25, 0.5, 1, 2})
			}
			return p, math.Abs(p[nd.axis] - q.c[nd.axis])
		}
		return nodes[0].c, 0
	}

	// queryPoint: aimed at the pruning boundary
	queryPoint := func() V {
		var p V
		for a := 0; a < dim; a++ {
			p[a] = sc * float64(g.Rng.Intn(4*span+17)-8) / 4 // quarter grid in [-2, span+2]
		}
		if n == 0 {
			return p
		}
		nd := nodes[g.Rng.Intn(len(nodes))]
		switch g.Rng.Intn(9) {
		case 0: // exactly on a split plane
			p[nd.axis] = nd.c[nd.axis]
		case 1: // a tree point
			p = nd.c
		case 2: // middle between two tree points (equidistant, often across a split plane)
			p = nd.c.add(nodes[g.Rng.Intn(len(nodes))].c).scale(0.5)
		case 3: // integer offset along the split axis from a tree point
			p = nd.c
			p[nd.axis] += sc * float64(g.Rng.Intn(5)-2)
		case 4: // integer point (ties between neighbours)
			for a := 0; a < dim; a++ {
				p[a] = sc * float64(g.Rng.Intn(span+1))
			}
		case 5, 6, 7:
			p, _ = across()
		}
		return p
	}

	// contains: half of the queries are members
	for k := 0; k < 3; k++ {
		p := queryPoint()
		if n > 0 && k%2 == 0 {
			p = pts[g.Rng.Intn(n)]
		}
		op := (&toks{}).s("c08", kind, "contains").v(dim, p)
		emit(op, hlib.Guard(func() string {
			r := tree.contains(p)
			if r != (member[p] > 0) {
				g.PropFail("prop:c08 kd-contains-differs-from-scan", op.String()+" "+ts)
			}
			return b01(r)
		}))
	}

	// nn
	for k := 0; k < 6; k++ {
		p := queryPoint()
		if n == 0 {
			if pan := guard(func() { tree.nn(p) }); pan == "" {
				g.PropFail("prop:c08 kd-nn-empty-no-panic", kind)
			}
			g.Stat(kind+" nn-on-empty-tree-panics", 1)
			break
		}
		op := (&toks{}).s("c08", kind, "nn").v(dim, p)
		emit(op, hlib.Guard(func() string {
			r := tree.nn(p)
			best, ties := math.Inf(1), 0
			for q := range member {
				if d := sqDist(dim, p, q); d < best {
					best, ties = d, 1
				} else if d == best {
					ties++
				}
			}
			d := sqDist(dim, p, r)
			if d != best || member[r] == 0 {
				g.PropFail("prop:c08 kd-nn-differs-from-scan", op.String()+" "+ts)
			}
			// Dist(p) = distance to the nearest stored point: the squared distances are exact here and the
			// square root is correctly rounded and monotone, so the brute-force answer is sqrt(min sqDist)
			if dd := tree.dist(p); dd != math.Sqrt(best) {
				g.PropFail("prop:c08 kd-dist-differs-from-scan", op.String()+" "+ts+" => Dist "+hlib.Hex(dd)+" want "+hlib.Hex(math.Sqrt(best)))
			}
			if ties > 1 {
				g.Stat(kind+" nn ties", 1)
			}
			// values, not identities: with ties any nearest point is a correct answer
			return hlib.RatStr(d)
		}))
	}

	// knn
	for _, k := range []int{0, 1, 1, 2, 3, 1 + g.Rng.Intn(n+1), 1 + g.Rng.Intn(n+1), n - 1, n, n + 1, 2*n + 3} {
		if k < 0 || !g.p(0.6) {
			continue
		}
		p := queryPoint()
		op := (&toks{}).s("c08", kind, "knn").n(k).v(dim, p)
		emit(op, hlib.Guard(func() string {
			rs := tree.knn(k, p)
			all := make([]float64, n)
			for i, q := range pts {
				all[i] = sqDist(dim, p, q)
			}
			sort.Float64s(all)
			want := all
			if k < n {
				want = all[:k]
				if k > 0 && all[k-1] == all[k] {
					g.Stat(kind+" knn ties(kth distance equals next)", 1)
				}
			}
			okRes := len(rs) == len(want)
			used := map[V]int{}
			for i, r := range rs {
				used[r]++
				okRes = okRes && i < len(want) && sqDist(dim, p, r) == want[i] && used[r] <= member[r]
			}
			if !okRes {
				g.PropFail("prop:c08 kd-knn-differs-from-scan", op.String()+" "+ts)
			}
			if k > n {
				g.Stat(kind+" knn k>n", 1)
			}
			if len(rs) == 0 {
				return "-"
			}
			w := make([]string, len(rs))
			for i, r := range rs {
				w[i] = hlib.RatStr(sqDist(dim, p, r)) // values, not identities (ties)
			}
			return strings.Join(w, " ")
		}))
	}

	// knntab: a table of k-nearest answers (`nbrs[i] = tree.KNN(k, p[i])`): all queries are issued first and
	// the answers the caller holds are read afterwards.  An answer is a value — it must still be the brute-force
	// answer of ITS query after any number of later queries on the tree.
	if g.p(0.8) {
		m := 2 + g.Rng.Intn(5)
		k0 := g.pickI([]int{1, 1, 2, 3, 4, 1 + g.Rng.Intn(n+1), n, n + 2})
		ks, ps := make([]int, m), make([]V, m)
		op := (&toks{}).s("c08", kind, "knntab").n(m)
		for i := range ks {
			ks[i] = k0
			switch g.Rng.Intn(6) {
			case 0:
				ks[i] = 1 + g.Rng.Intn(n+2)
			case 1:
				ks[i] = g.Rng.Intn(k0 + 1) // smaller, sometimes 0
			}
			ps[i] = queryPoint()
			if n > 0 && g.p(0.5) { // the k-NN graph of the cloud itself
				ps[i] = pts[g.Rng.Intn(n)]
			}
			op.n(ks[i]).v(dim, ps[i])
		}
		emit(op, hlib.Guard(func() string {
			atReturn, atEnd := tree.knnTable(ks, ps)
			w := make([]string, m)
			for i := range ks {
				all := make([]float64, n)
				for j, q := range pts {
					all[j] = sqDist(dim, ps[i], q)
				}
				sort.Float64s(all)
				want := all
				if ks[i] < n {
					want = all[:ks[i]]
				}
				for pass, rs := range [][]V{atReturn[i], atEnd[i]} {
					okRes := len(rs) == len(want)
					used := map[V]int{}
					for j, r := range rs {
						used[r]++
						okRes = okRes && j < len(want) && sqDist(dim, ps[i], r) == want[j] && used[r] <= member[r]
					}
					if !okRes {
						when := "when its call returned"
						if pass == 1 {
							when = "when read after the later queries of the table"
							if fmt.Sprint(atReturn[i]) != fmt.Sprint(atEnd[i]) {
								when += " (it was " + fmt.Sprint(atReturn[i]) + " when its call returned)"
							}
						}
						g.PropFail("prop:c08 kd-knn-table-differs-from-scan",
							fmt.Sprintf("%s %s => entry %d is %v %s", op.String(), ts, i, rs, when))
						break
					}
				}
				ds := make([]string, len(atEnd[i]))
				for j, r := range atEnd[i] {
					ds[j] = hlib.RatStr(sqDist(dim, ps[i], r)) // values, not identities (ties)
				}
				w[i] = strings.Join(ds, " ")
				if len(ds) == 0 {
					w[i] = "-"
				}
			}
			g.Stat(kind+" knn tables(answers read after later queries)", 1)
			return strings.Join(w, " | ")
		}))
	}

	// sphere: radius exactly the distance to a tree point (touching, `<=`), slightly smaller, or random
	for k := 0; k < 6; k++ {
		p := queryPoint()
		r := sc * float64(g.Rng.Intn(9)) / 4
		if n > 0 && g.p(0.7) {
			nd := nodes[g.Rng.Intn(len(nodes))]
			off := sc * float64(g.Rng.Intn(4))
			p = nd.c
			p[g.Rng.Intn(dim)] += off * g.pickF([]float64{1, -1})
			r = off
			if g.p(0.5) { // the only point within reach lies across a split plane
				p, off = across()
				r = off
			}
			switch g.Rng.Intn(4) {
			case 0:
				r = off - 0.25*sc
			case 1:
				r = -off
			}
		}
		op := (&toks{}).s("c08", kind, "sphere").v(dim, p).f(r)
		emit(op, hlib.Guard(func() string {
			got := tree.sphere(p, r)
			want, touch := false, false
			for _, q := range pts {
				d := sqDist(dim, p, q)
				want = want || d <= r*r
				touch = touch || d == r*r
			}
			if got != want {
				g.PropFail("prop:c08 kd-sphere-differs-from-scan", op.String()+" "+ts)
			}
			if touch {
				g.Stat(kind+" sphere exactly-touching", 1)
			}
			return b01(got)
		}))
	}
	return emitted
}
