package main

import (
	"github.com/unixpickle/model3d/model2d"
	"github.com/unixpickle/model3d/model3d"
	"github.com/unixpickle/model3d/render3d"
)

// Kinds j3 / j2 / o3 with SYNTHETIC leaves: a leaf has a fixed box and a canned answer for the current
// query, and records every call of a query method in a shared trace.

// A synthetic leaf is a FUNCTION of the query it is asked: its canned answer belongs to the caller's query
// (by value: origin and direction, centre and radius, end points, corners, vertices); asked anything else - a
// box clipped to a node's bounds, a shortened segment, a ray moved to the box entry - it reports nothing (which
// is sound for every query), and the call shows up in the trace as -(id+1).  An index must hand its members
// the caller's query: their own tests (edge tests for real triangles) run on what they are handed.
type synState struct {
	trace []int
	ans   []lans
	q     query // the caller's query
}

func (st *synState) hit(id int, same bool) lans {
	if !same {
		st.trace = append(st.trace, -(id + 1))
		return lans{}
	}
	st.trace = append(st.trace, id)
	return st.ans[id]
}

func (st *synState) ray3(r *model3d.Ray) bool {
	return r != nil && r.Origin == c3(st.q.v(0)) && r.Direction == c3(st.q.v(1))
}

func (st *synState) ray2(r *model2d.Ray) bool {
	return r != nil && r.Origin == c2(st.q.w(0)) && r.Direction == c2(st.q.w(1))
}

// synth3 implements model3d.Collider + TriangleCollider + SegmentCollider + RectCollider.
type synth3 struct {
	id int
	b  box
	st *synState
}

func (s *synth3) Min() model3d.Coord3D { return c3(s.b.lo) }
func (s *synth3) Max() model3d.Coord3D { return c3(s.b.hi) }
func (s *synth3) RayCollisions(r *model3d.Ray, f func(model3d.RayCollision)) int {
	a := s.st.hit(s.id, s.st.ray3(r))
	for j, sc := range a.scales {
		if f != nil {
			f(model3d.RayCollision{Scale: sc, Extra: 1000*s.id + j})
		}
	}
	return len(a.scales)
}
func (s *synth3) FirstRayCollision(r *model3d.Ray) (model3d.RayCollision, bool) {
	a := s.st.hit(s.id, s.st.ray3(r))
	if !a.has {
		return model3d.RayCollision{}, false
	}
	return model3d.RayCollision{Scale: a.s, Extra: 1000 * s.id}, true
}
func (s *synth3) SphereCollision(c model3d.Coord3D, r float64) bool {
	return s.st.hit(s.id, c == c3(s.st.q.v(0)) && r == s.st.q.a[3]).flag
}
func (s *synth3) SegmentCollision(seg model3d.Segment) bool {
	return s.st.hit(s.id, seg[0] == c3(s.st.q.v(0)) && seg[1] == c3(s.st.q.v(1))).flag
}
func (s *synth3) RectCollision(r *model3d.Rect) bool {
	return s.st.hit(s.id, r != nil && r.MinVal == c3(s.st.q.v(0)) && r.MaxVal == c3(s.st.q.v(1))).flag
}
func (s *synth3) TriangleCollisions(t *model3d.Triangle) []model3d.Segment {
	q := s.st.q
	a := s.st.hit(s.id, t != nil && t[0] == c3(q.v(0)) && t[1] == c3(q.v(1)) && t[2] == c3(q.v(2)))
	var out []model3d.Segment
	for _, id := range a.ids { // the id travels in the first coordinate of the dummy segment
		out = append(out, model3d.Segment{model3d.X(float64(id)), model3d.X(float64(id) + 0.5)})
	}
	return out
}

// synth2 implements model2d.Collider (+ SegmentCollider + RectCollider).
type synth2 struct {
	id int
	b  box
	st *synState
}

func (s *synth2) Min() model2d.Coord { return c2(s.b.lo) }
func (s *synth2) Max() model2d.Coord { return c2(s.b.hi) }
func (s *synth2) RayCollisions(r *model2d.Ray, f func(model2d.RayCollision)) int {
	a := s.st.hit(s.id, s.st.ray2(r))
	for j, sc := range a.scales {
		if f != nil {
			f(model2d.RayCollision{Scale: sc, Extra: 1000*s.id + j})
		}
	}
	return len(a.scales)
}
func (s *synth2) FirstRayCollision(r *model2d.Ray) (model2d.RayCollision, bool) {
	a := s.st.hit(s.id, s.st.ray2(r))
	if !a.has {
		return model2d.RayCollision{}, false
	}
	return model2d.RayCollision{Scale: a.s, Extra: 1000 * s.id}, true
}
func (s *synth2) CircleCollision(c model2d.Coord, r float64) bool {
	return s.st.hit(s.id, c == c2(s.st.q.w(0)) && r == s.st.q.a[2]).flag
}
func (s *synth2) SegmentCollision(seg *model2d.Segment) bool {
	return s.st.hit(s.id, seg != nil && seg[0] == c2(s.st.q.w(0)) && seg[1] == c2(s.st.q.w(1))).flag
}
func (s *synth2) RectCollision(r *model2d.Rect) bool {
	return s.st.hit(s.id, r != nil && r.MinVal == c2(s.st.q.w(0)) && r.MaxVal == c2(s.st.q.w(1))).flag
}

// synthObj implements render3d.Object.
type synthObj struct {
	id int
	b  box
	st *synState
}

func (s *synthObj) Min() model3d.Coord3D { return c3(s.b.lo) }
func (s *synthObj) Max() model3d.Coord3D { return c3(s.b.hi) }
func (s *synthObj) Cast(r *model3d.Ray) (model3d.RayCollision, render3d.Material, bool) {
	a := s.st.hit(s.id, s.st.ray3(r))
	if !a.has {
		return model3d.RayCollision{}, nil, false
	}
	return model3d.RayCollision{Scale: a.s, Extra: 1000 * s.id}, nil, true
}

var synthConv3 = conv3{
	tag: func(rc model3d.RayCollision) int { t, _ := rc.Extra.(int); return t },
	segs: func(ss []model3d.Segment) []int {
		var out []int
		for _, s := range ss {
			out = append(out, int(s[0].X))
		}
		return out
	},
}

func synthTag2(rc model2d.RayCollision) int { t, _ := rc.Extra.(int); return t }

// ---------------------------------------------------------------------------
// shapes

// randShape: a random nesting over the leaf ids (each used once, left to right).
func (g *G) randShape(ids []int, depth int, allowH, allowJ bool) *shape {
	if len(ids) == 1 && (g.p(0.7) || (!allowH && depth >= 4)) {
		return &shape{k: 'L', leaf: ids[0]}
	}
	if allowH && (!allowJ || depth >= 4 || g.p(0.25)) {
		return &shape{k: 'H', ids: ids}
	}
	s := &shape{k: 'J'}
	if depth >= 4 { // all remaining leaves as direct children
		for _, i := range ids {
			s.kids = append(s.kids, &shape{k: 'L', leaf: i})
		}
		return s
	}
	k := 1 + g.Rng.Intn(4)
	if k > len(ids) {
		k = len(ids)
	}
	// k consecutive non-empty groups
	cuts := g.Rng.Perm(len(ids) - 1)[:k-1]
	isCut := map[int]bool{}
	for _, c := range cuts {
		isCut[c+1] = true
	}
	start := 0
	for i := 1; i <= len(ids); i++ {
		if i == len(ids) || isCut[i] {
			s.kids = append(s.kids, g.randShape(ids[start:i], depth+1, allowH, allowJ))
			start = i
		}
	}
	return s
}

// randBinShape: random binary nesting (the shape of a hand-made BVH).
func (g *G) randBinShape(ids []int) *shape {
	if len(ids) == 1 {
		return &shape{k: 'L', leaf: ids[0]}
	}
	m := 1 + g.Rng.Intn(len(ids)-1)
	return &shape{k: 'J', kids: []*shape{g.randBinShape(ids[:m]), g.randBinShape(ids[m:])}}
}

// randNaryShape: the shape of a hand-made / externally grouped BVH ("a leaf, or a branch with two or more
// children"): every branch has 2 … 5 children (sometimes all remaining objects as direct children).
func (g *G) randNaryShape(ids []int) *shape {
	if len(ids) == 1 {
		return &shape{k: 'L', leaf: ids[0]}
	}
	k := 2 + g.Rng.Intn(4)
	if k > len(ids) || g.p(0.1) {
		k = len(ids)
	}
	isCut := map[int]bool{}
	for _, c := range g.Rng.Perm(len(ids) - 1)[:k-1] {
		isCut[c+1] = true
	}
	s := &shape{k: 'J'}
	start := 0
	for i := 1; i <= len(ids); i++ {
		if i == len(ids) || isCut[i] {
			s.kids = append(s.kids, g.randNaryShape(ids[start:i]))
			start = i
		}
	}
	return s
}

// maxWidth: the largest number of children of a branch.
func (s *shape) maxWidth() int {
	w := len(s.kids)
	for _, k := range s.kids {
		if kw := k.maxWidth(); kw > w {
			w = kw
		}
	}
	return w
}

// bvhOfShape3 / bvhOfShape2: a hand-made BVH with exactly the shape (L / J nodes only).
func bvhOfShape3[B model3d.Bounder](s *shape, leaf func(int) B) *model3d.BVH[B] {
	if s.k == 'L' {
		return &model3d.BVH[B]{Leaf: leaf(s.leaf)}
	}
	b := &model3d.BVH[B]{}
	for _, k := range s.kids {
		b.Branch = append(b.Branch, bvhOfShape3(k, leaf))
	}
	return b
}

func bvhOfShape2[B model2d.Bounder](s *shape, leaf func(int) B) *model2d.BVH[B] {
	if s.k == 'L' {
		return &model2d.BVH[B]{Leaf: leaf(s.leaf)}
	}
	b := &model2d.BVH[B]{}
	for _, k := range s.kids {
		b.Branch = append(b.Branch, bvhOfShape2(k, leaf))
	}
	return b
}

// build3 builds exactly the hierarchy the shape describes out of the real constructors.
func (g *G) build3(s *shape, lv []*synth3) model3d.Collider {
	switch s.k {
	case 'L':
		return lv[s.leaf]
	case 'H':
		cs := make([]model3d.Collider, len(s.ids))
		for i, id := range s.ids {
			cs[i] = lv[id]
		}
		return model3d.GroupedCollidersToCollider(cs)
	}
	kids := make([]model3d.Collider, len(s.kids))
	for i, k := range s.kids {
		kids[i] = g.build3(k, lv)
	}
	jc := model3d.NewJoinedCollider(kids)
	if ch, _, _, ok := model3d.VerifJoinedChildren(jc); ok {
		spliced := len(ch) != len(kids)
		for i := 0; !spliced && i < len(ch); i++ {
			spliced = ch[i] != kids[i]
		}
		if spliced {
			g.Stat("j3 flatten-equal-bounds(child spliced)", 1)
		}
	}
	return jc
}

func (g *G) build2(s *shape, lv []*synth2) model2d.Collider {
	if s.k == 'L' {
		return lv[s.leaf]
	}
	kids := make([]model2d.Collider, len(s.kids))
	for i, k := range s.kids {
		kids[i] = g.build2(k, lv)
	}
	return model2d.NewJoinedCollider(kids)
}

// buildObj: FilteredObject{JoinedObject, BoundsRect} by hand.
func buildObj(s *shape, lv []*synthObj) render3d.Object {
	if s.k == 'L' {
		return lv[s.leaf]
	}
	var j render3d.JoinedObject
	for _, k := range s.kids {
		j = append(j, buildObj(k, lv))
	}
	return &render3d.FilteredObject{Object: j, Bounds: model3d.BoundsRect(j)}
}

// buildObjBVH: a hand-made BVH with the shape (branches of any width), for the real BVHToObject.
func buildObjBVH(s *shape, lv []*synthObj) *model3d.BVH[render3d.Object] {
	return bvhOfShape3(s, func(i int) render3d.Object { return lv[i] })
}

// ---------------------------------------------------------------------------
// canned answers

var scaleGrid = func() []float64 { // T = {0, 1/4, …, 12}
	var t []float64
	for i := 0; i <= 48; i++ {
		t = append(t, float64(i)/4)
	}
	return t
}()

// soundAnswer: an answer consistent with the leaf's own box (exact arithmetic on dyadics), given with
// probability pYes where one is allowed.
func (g *G) soundAnswer(dim int, q query, b box, id int, pYes float64) lans {
	var a lans
	switch q.q {
	case "ray", "first":
		o, d := q.pt(dim, 0), q.pt(dim, 1)
		sig := q.sig
		if sig == 0 {
			sig = 1
		}
		var ok []float64
		for _, t := range scaleGrid {
			t /= sig // exact: sig is a power of two, d·t = (d/sig)·(t·sig)
			if inBox(dim, o.along(d, t), b) {
				ok = append(ok, t)
			}
		}
		if len(ok) == 0 || !g.p(pYes) {
			return a
		}
		if q.q == "first" {
			a.has = true
			a.s = ok[0]
			if g.p(0.3) {
				a.s = g.pickF(ok)
			}
			return a
		}
		switch g.Rng.Intn(4) {
		case 0: // entry and exit
			a.scales = []float64{ok[0], ok[len(ok)-1]}
		case 1: // one hit
			a.scales = []float64{g.pickF(ok)}
		case 2: // duplicates
			s := g.pickF(ok)
			a.scales = []float64{s, s}
		default: // random subset in random order
			for k := g.Rng.Intn(4); k > 0; k-- {
				a.scales = append(a.scales, g.pickF(ok))
			}
		}
	case "sphere":
		c, r := q.pt(dim, 0), q.a[dim]
		d2 := ptBoxDistSq(dim, c, b)
		a.flag = (d2 < r*r && g.p(pYes)) || (d2 == r*r && g.p(0.8))
	case "seg":
		p, e := q.pt(dim, 0), q.pt(dim, 1)
		d := e.sub(p)
		for k := 0; k <= 8; k++ {
			if inBox(dim, p.along(d, float64(k)/8), b) {
				a.flag = g.p(pYes)
				break
			}
		}
	case "rect":
		a.flag = boxesMeet(dim, box{q.pt(dim, 0), q.pt(dim, 1)}, b) && g.p(pYes)
	case "tri":
		tb := box{q.v(0), q.v(0)}
		tb = union(tb, box{q.v(1), q.v(1)})
		tb = union(tb, box{q.v(2), q.v(2)})
		if boxesMeet(3, tb, b) && g.p(pYes) {
			for j := 0; j <= g.Rng.Intn(3); j++ {
				a.ids = append(a.ids, 1000*id+j)
			}
		}
	}
	return a
}

// wildAnswer: random, regardless of the box (only the faithful traversal is compared).
func (g *G) wildAnswer(q query, id int, pYes float64, palette []float64) lans {
	var a lans
	if !g.p(pYes) {
		return a
	}
	switch q.q {
	case "ray":
		for k := 1 + g.Rng.Intn(3); k > 0; k-- {
			a.scales = append(a.scales, g.pickF(palette))
		}
	case "first":
		a.has, a.s = true, g.pickF(palette)
	case "tri":
		for j := 0; j <= g.Rng.Intn(3); j++ {
			a.ids = append(a.ids, 1000*id+j)
		}
	default:
		a.flag = true
	}
	return a
}

func (g *G) answers(dim int, q query, bs []box, sound bool) []lans {
	pYes := g.pickF([]float64{0.05, 0.15, 0.3, 0.6, 1})
	ans := make([]lans, len(bs))
	// wild scales come from a small per-case palette, so that equal minimal scales (ties) are frequent
	palette := scaleGrid[:17]
	if g.p(0.6) {
		palette = []float64{g.pickF(scaleGrid[:17]), g.pickF(scaleGrid[:17]), g.pickF(scaleGrid[:17])}
	}
	if q.sig != 0 && q.sig != 1 && (q.q == "ray" || q.q == "first") { // keep the scales comparable with the box parameters
		scaled := make([]float64, len(palette))
		for i, t := range palette {
			scaled[i] = t / q.sig
		}
		palette = scaled
	}
	for i, b := range bs {
		if sound {
			ans[i] = g.soundAnswer(dim, q, b, i, pYes)
		} else {
			ans[i] = g.wildAnswer(q, i, pYes, palette)
		}
	}
	return ans
}

// aimQuery draws an aimed query of the given kind.
func (g *G) aimQuery(dim int, kind string, boxes []box) query {
	q := query{q: kind}
	switch kind {
	case "ray", "first":
		o, d := g.aimRay(dim, boxes, false)
		q.setRay(dim, o, d, g.dirScale())
		d = q.pt(dim, 1)
		if tinyDir(dim, d) {
			g.Stat("hier ray tiny-dir-component(<1e-6)", 1)
		}
		zero := false
		for a := 0; a < dim; a++ {
			zero = zero || d[a] == 0
		}
		if zero {
			g.Stat("hier ray zero-dir-component", 1)
		}
	case "sphere":
		c, r := g.aimSphere(dim, boxes)
		q.a = append(append(q.a, c[:dim]...), r)
		for _, b := range boxes {
			if ptBoxDistSq(dim, c, b) == r*r {
				g.Stat("hier sphere exactly-touching-a-box", 1)
				break
			}
		}
	case "seg":
		p, e := g.aimSeg(dim, boxes)
		q.a = append(append(q.a, p[:dim]...), e[:dim]...)
	case "rect":
		r := g.aimRect(dim, boxes)
		q.a = append(append(q.a, r.lo[:dim]...), r.hi[:dim]...)
	case "tri":
		t := g.aimTri(boxes)
		q.a = append(append(append(q.a, t[0][:]...), t[1][:]...), t[2][:]...)
	}
	return q
}

// countTies: the minimal `first` scale is reported by more than one leaf.
func countTies(ans []lans) bool {
	best, cnt := 0.0, 0
	for _, a := range ans {
		switch {
		case !a.has:
		case cnt == 0 || a.s < best:
			best, cnt = a.s, 1
		case a.s == best:
			cnt++
		}
	}
	return cnt > 1
}

// ---------------------------------------------------------------------------
// generators

var synthSizes = []int{0, 1, 1, 2, 2, 3, 3, 4, 4, 5, 5, 6, 7, 8, 9, 10, 11, 12}

func seq(n int) []int {
	ids := make([]int, n)
	for i := range ids {
		ids[i] = i
	}
	return ids
}

func (g *G) genSynth(n int) {
	for i := 0; i < n; {
		switch m := g.Rng.Intn(20); {
		case m < 11:
			i += g.synthJ3()
		case m < 15:
			i += g.synthJ2()
		default:
			i += g.synthO3()
		}
	}
}

// synthJ3: one 3D hierarchy, a few queries.
func (g *G) synthJ3() int {
	multi := g.p(0.45) // seg / rect / tri need the joinedMultiCollider: single top-level H
	n := g.pickI(synthSizes)
	if multi && g.p(0.3) {
		n = g.pickI([]int{13, 16, 17, 24, 31, 32, 33, 40})
	}
	bs0, ss := g.boxSet(3, n), g.sceneScale()
	bs := scaleBoxes(bs0, ss)
	st := &synState{}
	lv := make([]*synth3, n)
	for i := range lv {
		lv[i] = &synth3{i, bs[i], st}
	}
	var sh *shape
	switch {
	case multi || n == 0:
		sh = &shape{k: 'H', ids: seq(n)}
	default:
		sh = g.randShape(seq(n), 0, true, true)
	}
	var coll model3d.Collider
	if pan := guard(func() { coll = g.build3(sh, lv) }); pan != "" {
		g.PropFail("prop:c08 j3-build-panics", pan)
		return 1
	}
	aim := g.aimBoxes(3, bs0)
	if ss != 1 {
		g.Stat("j3 hierarchies far from unit scale", 1)
	}
	nq := 2 + g.Rng.Intn(3)
	for k := 0; k < nq; k++ {
		kind := []string{"ray", "first", "sphere"}[g.Rng.Intn(3)]
		if multi && g.p(0.75) {
			kind = []string{"seg", "rect", "tri"}[g.Rng.Intn(3)]
		}
		q := g.aimQuery(3, kind, aim)
		q.scaleScene(ss)
		sound := g.p(0.5)
		st.ans = g.answers(3, q, bs, sound)
		st.trace, st.q = nil, q
		res := run3(coll, q, synthConv3)
		tr := append([]int{}, st.trace...)
		g.emitHier("j3", 3, q, true, sound, bs, st.ans, sh, res, tr)
		if kind == "ray" && res.pan == "" { // counting-only mode must agree
			if cnt, pan := rayCount3(coll, q); pan != "" || cnt != res.count {
				g.PropFail("prop:c08 j3-ray-nil-callback-count-differs", opLine("j3", 3, q, true, sound, bs, st.ans, sh))
			}
		}
		if kind == "first" && countTies(st.ans) {
			g.Stat("j3 first ties(equal scales)", 1)
		}
	}
	return nq
}

// synthJ2: model2d.NewJoinedCollider nests (no flattening); ray / first / circle.
func (g *G) synthJ2() int {
	n := g.pickI(synthSizes)
	bs0, ss := g.boxSet(2, n), g.sceneScale()
	bs := scaleBoxes(bs0, ss)
	st := &synState{}
	lv := make([]*synth2, n)
	for i := range lv {
		lv[i] = &synth2{i, bs[i], st}
	}
	sh := &shape{k: 'J'} // n == 0: `J 0`, the empty collider
	if n > 0 {
		sh = g.randShape(seq(n), 0, false, true)
	}
	var coll model2d.Collider
	if pan := guard(func() { coll = g.build2(sh, lv) }); pan != "" {
		g.PropFail("prop:c08 j2-build-panics", pan)
		return 1
	}
	aim := g.aimBoxes(2, bs0)
	if ss != 1 {
		g.Stat("j2 hierarchies far from unit scale", 1)
	}
	nq := 2 + g.Rng.Intn(3)
	for k := 0; k < nq; k++ {
		q := g.aimQuery(2, []string{"ray", "first", "sphere"}[g.Rng.Intn(3)], aim)
		q.scaleScene(ss)
		sound := g.p(0.5)
		st.ans = g.answers(2, q, bs, sound)
		st.trace, st.q = nil, q
		res := run2(coll, q, synthTag2)
		tr := append([]int{}, st.trace...)
		g.emitHier("j2", 2, q, true, sound, bs, st.ans, sh, res, tr)
		if q.q == "first" && countTies(st.ans) {
			g.Stat("j2 first ties(equal scales)", 1)
		}
	}
	return nq
}

// synthO3: render3d objects; FilteredObject{JoinedObject} by hand or through the real BVHToObject.
func (g *G) synthO3() int {
	n := 1 + g.Rng.Intn(12)
	bs0, ss := g.boxSet(3, n), g.sceneScale()
	bs := scaleBoxes(bs0, ss)
	st := &synState{}
	lv := make([]*synthObj, n)
	for i := range lv {
		lv[i] = &synthObj{i, bs[i], st}
	}
	var sh *shape
	var obj render3d.Object
	viaBVH := g.p(0.5)
	pan := guard(func() {
		if viaBVH {
			// the BVH may come from anywhere: binary (what NewBVHAreaDensity builds) or hand-made
			// with wider branches, objects in any order
			ids := seq(n)
			if g.p(0.5) {
				ids = g.Rng.Perm(n)
			}
			if g.p(0.35) {
				sh = g.randBinShape(ids)
			} else {
				sh = g.randNaryShape(ids)
			}
			obj = render3d.BVHToObject(buildObjBVH(sh, lv))
			g.Stat("o3 via-BVHToObject", 1)
			if sh.maxWidth() > 2 {
				g.Stat("o3 via-BVHToObject branch-with-more-than-2-children", 1)
			}
		} else {
			sh = g.randShape(seq(n), 0, false, true)
			obj = buildObj(sh, lv)
		}
	})
	if pan != "" {
		g.PropFail("prop:c08 o3-build-panics", pan)
		return 1
	}
	aim := g.aimBoxes(3, bs0)
	if ss != 1 {
		g.Stat("o3 hierarchies far from unit scale", 1)
	}
	nq := 2 + g.Rng.Intn(3)
	for k := 0; k < nq; k++ {
		q := g.aimQuery(3, "first", aim)
		q.scaleScene(ss)
		sound := g.p(0.5)
		st.ans = g.answers(3, q, bs, sound)
		st.trace, st.q = nil, q
		res := runObj(obj, q)
		tr := append([]int{}, st.trace...)
		g.emitHier("o3", 3, q, true, sound, bs, st.ans, sh, res, tr)
		if countTies(st.ans) {
			g.Stat("o3 first ties(equal scales)", 1)
		}
		// plain JoinedObject.Cast has no bounds filter: compare with the scan only
		var flat render3d.JoinedObject
		for _, l := range lv {
			flat = append(flat, l)
		}
		st.trace = nil
		got, want := runObj(flat, q), scan("first", seq(n), st.ans)
		if got.str("first") != want.str("first") || len(st.trace) != n {
			g.PropFail("prop:c08 joinedobject-cast-differs-from-scan", opLine("o3", 3, q, true, sound, bs, st.ans, sh))
		}
	}
	return nq
}
