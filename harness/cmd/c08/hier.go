package main

import (
	"fmt"
	"math"
	"strconv"
	"strings"
	"verif/harness/hlib"

	"github.com/unixpickle/model3d/model2d"
	"github.com/unixpickle/model3d/model3d"
	"github.com/unixpickle/model3d/render3d"
)

// Shared machinery of the hierarchy kinds j3 / j2 / o3: the shape language of the op line, the canned /
// recorded leaf answers, query execution on the real colliders, and the harness' own linear scan.

// shape is the hierarchy described in the op line: `L i` | `J k <kids>` | `H m ids` (bvh kind: `N l r`).
type shape struct {
	k    byte // 'L', 'J', 'H'
	leaf int
	ids  []int
	kids []*shape
}

func (s *shape) ser(w *[]string, joinTok string) {
	switch s.k {
	case 'L':
		*w = append(*w, "L", strconv.Itoa(s.leaf))
	case 'H':
		*w = append(*w, "H", strconv.Itoa(len(s.ids)))
		for _, i := range s.ids {
			*w = append(*w, strconv.Itoa(i))
		}
	case 'J':
		if joinTok == "N" {
			*w = append(*w, "N")
		} else {
			*w = append(*w, "J", strconv.Itoa(len(s.kids)))
		}
		for _, k := range s.kids {
			k.ser(w, joinTok)
		}
	}
}

// leaves: left-to-right leaf order (the order the linear scan uses).
func (s *shape) leaves() []int {
	switch s.k {
	case 'L':
		return []int{s.leaf}
	case 'H':
		return s.ids
	}
	var out []int
	for _, k := range s.kids {
		out = append(out, k.leaves()...)
	}
	return out
}

// binary: every J node has exactly two children.
func (s *shape) binary() bool {
	if s.k != 'J' {
		return true
	}
	if len(s.kids) != 2 {
		return false
	}
	return s.kids[0].binary() && s.kids[1].binary()
}

// shapeOfBVH3 / shapeOfBVH2: the real BVH as a shape (leaf index through idx; unknown leaf = -1).
func shapeOfBVH3[B interface {
	comparable
	model3d.Bounder
}](t *model3d.BVH[B], isLeaf func(*model3d.BVH[B]) bool, idx map[B]int) *shape {
	if isLeaf(t) {
		i, ok := idx[t.Leaf]
		if !ok {
			i = -1
		}
		return &shape{k: 'L', leaf: i}
	}
	s := &shape{k: 'J'}
	for _, b := range t.Branch {
		s.kids = append(s.kids, shapeOfBVH3(b, isLeaf, idx))
	}
	return s
}

func shapeOfBVH2[B interface {
	comparable
	model2d.Bounder
}](t *model2d.BVH[B], isLeaf func(*model2d.BVH[B]) bool, idx map[B]int) *shape {
	if isLeaf(t) {
		i, ok := idx[t.Leaf]
		if !ok {
			i = -1
		}
		return &shape{k: 'L', leaf: i}
	}
	s := &shape{k: 'J'}
	for _, b := range t.Branch {
		s.kids = append(s.kids, shapeOfBVH2(b, isLeaf, idx))
	}
	return s
}

// query: kind + flattened arguments (see notes/C08.md).
type query struct {
	q   string // ray | first | sphere | seg | rect | tri
	a   []float64
	sig float64 // ray | first: the direction is sig·(a direction on the small grid); 0 means 1
}

// setRay fills the arguments of a ray / first query with origin o and direction sig·d.
func (q *query) setRay(dim int, o, d V, sig float64) {
	d = d.scale(sig)
	q.a = append(append(q.a[:0], o[:dim]...), d[:dim]...)
	q.sig = sig
}

// scaleScene multiplies every coordinate / radius of the query by s (the ray parameters are unchanged).
func (q *query) scaleScene(s float64) {
	if s == 1 {
		return
	}
	for i := range q.a {
		q.a[i] *= s
	}
}

func (q query) v(i int) V { // i-th point of the arguments (3D layout)
	return V{q.a[3*i], q.a[3*i+1], q.a[3*i+2]}
}
func (q query) w(i int) V { // i-th point (2D layout)
	return V{q.a[2*i], q.a[2*i+1], 0}
}
func (q query) pt(dim, i int) V {
	if dim == 3 {
		return q.v(i)
	}
	return q.w(i)
}

// lans: the answer of one leaf to the current query.
type lans struct {
	scales []float64 // ray
	has    bool      // first
	s      float64
	flag   bool  // sphere | seg | rect
	ids    []int // tri
}

func (a lans) ser(t *toks, q string) {
	switch q {
	case "ray":
		t.n(len(a.scales)).f(a.scales...)
	case "first":
		if a.has {
			t.n(1).f(a.s)
		} else {
			t.n(0)
		}
	case "tri":
		t.n(len(a.ids)).n(a.ids...)
	default:
		t.s(b01(a.flag))
	}
}

func (a lans) finite() bool {
	for _, s := range a.scales {
		if math.IsNaN(s) || math.IsInf(s, 0) {
			return false
		}
	}
	return !a.has || !(math.IsNaN(a.s) || math.IsInf(a.s, 0))
}

type hit struct {
	s   float64
	tag int
}

// qres: result of a query on a hierarchy (or of the linear scan).
type qres struct {
	count int // ray: return value
	hits  []hit
	ok    bool // first
	h     hit
	flag  bool
	ids   []int
	pan   string
}

func hitStr(h hit) string { return hlib.RatStr(h.s) + ":" + strconv.Itoa(h.tag) }

func (r qres) str(q string) string {
	if r.pan != "" {
		return r.pan
	}
	switch q {
	case "ray":
		w := []string{strconv.Itoa(r.count), strconv.Itoa(len(r.hits))}
		for _, h := range r.hits {
			w = append(w, hitStr(h))
		}
		return strings.Join(w, " ")
	case "first":
		if !r.ok {
			return "none"
		}
		// the parameter, not the identity of the object: with equal parameters any of the
		// closest objects is a correct answer
		return hlib.RatStr(r.h.s)
	case "tri":
		return idsStr(r.ids)
	}
	return b01(r.flag)
}

// scan: the specification — linear scan over all leaves in hierarchy order.
func scan(q string, order []int, ans []lans) qres {
	var r qres
	for _, i := range order {
		a := ans[i]
		switch q {
		case "ray":
			for j, s := range a.scales {
				r.hits = append(r.hits, hit{s, 1000*i + j})
			}
			r.count += len(a.scales)
		case "first":
			if a.has && (!r.ok || a.s < r.h.s) {
				r.ok, r.h = true, hit{a.s, 1000 * i}
			}
		case "tri":
			r.ids = append(r.ids, a.ids...)
		default:
			r.flag = r.flag || a.flag
		}
	}
	return r
}

// opLine assembles `c08 <kind> <q> <trace> <sound> <args> <n> <leaves> <shape>`.
func opLine(kind string, dim int, q query, trace, sound bool, bs []box, ans []lans, sh *shape) string {
	t := (&toks{}).s("c08", kind, q.q, b01(trace), b01(sound)).f(q.a...).n(len(bs))
	for i, b := range bs {
		t.b(dim, b)
		ans[i].ser(t, q.q)
	}
	sh.ser(&t.w, "J")
	return t.String()
}

// conv3 / conv2 turn what the real collider hands back into (tag, ids).
type conv3 struct {
	tag  func(rc model3d.RayCollision) int
	segs func(ss []model3d.Segment) []int
}

// run3 executes the query on a real model3d collider.
func run3(coll model3d.Collider, q query, cv conv3) (r qres) {
	r.pan = guard(func() {
		switch q.q {
		case "ray":
			ray := &model3d.Ray{Origin: c3(q.v(0)), Direction: c3(q.v(1))}
			r.count = coll.RayCollisions(ray, func(rc model3d.RayCollision) {
				r.hits = append(r.hits, hit{rc.Scale, cv.tag(rc)})
			})
		case "first":
			ray := &model3d.Ray{Origin: c3(q.v(0)), Direction: c3(q.v(1))}
			rc, ok := coll.FirstRayCollision(ray)
			if ok {
				r.ok, r.h = true, hit{rc.Scale, cv.tag(rc)}
			}
		case "sphere":
			r.flag = coll.SphereCollision(c3(q.v(0)), q.a[3])
		case "seg":
			r.flag = coll.(model3d.MultiCollider).SegmentCollision(model3d.Segment{c3(q.v(0)), c3(q.v(1))})
		case "rect":
			r.flag = coll.(model3d.MultiCollider).RectCollision(&model3d.Rect{MinVal: c3(q.v(0)), MaxVal: c3(q.v(1))})
		case "tri":
			r.ids = cv.segs(coll.(model3d.MultiCollider).TriangleCollisions(&model3d.Triangle{c3(q.v(0)), c3(q.v(1)), c3(q.v(2))}))
		default:
			panic("harness: bad query " + q.q)
		}
	})
	return
}

// rayCount3 is RayCollisions with a nil callback (counting only).
func rayCount3(coll model3d.Collider, q query) (n int, pan string) {
	pan = guard(func() {
		n = coll.RayCollisions(&model3d.Ray{Origin: c3(q.v(0)), Direction: c3(q.v(1))}, nil)
	})
	return
}

// run2 executes the query on a real model2d collider.
func run2(coll model2d.Collider, q query, tag func(rc model2d.RayCollision) int) (r qres) {
	r.pan = guard(func() {
		switch q.q {
		case "ray":
			ray := &model2d.Ray{Origin: c2(q.w(0)), Direction: c2(q.w(1))}
			r.count = coll.RayCollisions(ray, func(rc model2d.RayCollision) {
				r.hits = append(r.hits, hit{rc.Scale, tag(rc)})
			})
		case "first":
			ray := &model2d.Ray{Origin: c2(q.w(0)), Direction: c2(q.w(1))}
			rc, ok := coll.FirstRayCollision(ray)
			if ok {
				r.ok, r.h = true, hit{rc.Scale, tag(rc)}
			}
		case "sphere":
			r.flag = coll.CircleCollision(c2(q.w(0)), q.a[2])
		case "seg":
			r.flag = coll.(model2d.MultiCollider).SegmentCollision(&model2d.Segment{c2(q.w(0)), c2(q.w(1))})
		case "rect":
			r.flag = coll.(model2d.MultiCollider).RectCollision(&model2d.Rect{MinVal: c2(q.w(0)), MaxVal: c2(q.w(1))})
		default:
			panic("harness: bad query " + q.q)
		}
	})
	return
}

// runObj executes `first` (Cast) on a render3d object.
func runObj(obj render3d.Object, q query) (r qres) {
	r.pan = guard(func() {
		rc, _, ok := obj.Cast(&model3d.Ray{Origin: c3(q.v(0)), Direction: c3(q.v(1))})
		if ok {
			tag, _ := rc.Extra.(int)
			r.ok, r.h = true, hit{rc.Scale, tag}
		}
	})
	return
}

// hierNote: appended to the description of a scan mismatch (real sets: the primitives themselves, so that the
// failing input can be replayed against the library without the harness).
var hierNote string

// emitHier prints one hierarchy case and checks it against the harness' own scan when sound.
func (g *G) emitHier(kind string, dim int, q query, trace, sound bool, bs []box, ans []lans, sh *shape,
	res qres, tr []int) {
	op := opLine(kind, dim, q, trace, sound, bs, ans, sh)
	impl := res.pan
	if impl == "" {
		ts := "-"
		if trace {
			ts = idsStr(tr)
		}
		impl = res.str(q.q) + " ; " + ts
	}
	g.Emit(op, impl)
	key := kind + " " + q.q
	if !trace {
		key += " real"
	}
	g.Stat(key+" cases", 1)
	order := sh.leaves()
	if sound && res.pan == "" {
		if want := scan(q.q, order, ans).str(q.q); want != res.str(q.q) {
			site := fmt.Sprintf("prop:c08 %s-%s-differs-from-scan", kind, q.q)
			if !trace { // real triangles / segments: a site of its own, so that the replay names real geometry
				site += "-on-real-primitives"
			}
			g.PropFail(site, op+" => got "+res.str(q.q)+" want "+want+hierNote)
		}
	}
	if trace && len(tr) < len(order) {
		g.Stat(kind+" pruned(trace<leaves)", 1)
	}
	if len(order) == 0 {
		g.Stat(kind+" empty-hierarchy", 1)
	}
}
