// Correspondence harness for property C08 (spatial indexes return exactly the
// brute-force answer).  Every case runs the REAL model3d / model2d / render3d
// code in-process and prints one line
//
//	c08 <kind> <args…> \t <implementation output>
//
// that the Lean driver (lean/M3d/Drv/C08.lean) re-computes with exact rationals.
// All numbers fed to the hierarchy code are small dyadics (times powers of two:
// ray directions, short segments and whole scenes are also generated far below /
// above unit size), so that the float64 arithmetic of the code under test (box
// unions, slab tests, point-to-box distances, squared distances, k-d
// comparisons) is exact.
//
// Files: main.go (budget, helpers, aimed query generators), prefilter.go
// (slab*/pbd*), group.go (group, bvh), hier.go (shapes, query execution, scan),
// synth.go (j3/j2/o3 with synthetic leaves), real.go (j3/j2/d3/d2 with real
// triangles / segments), kd.go (kd3/kd2).
package main

import (
	"math"
	"sort"
	"strconv"
	"strings"
	"verif/harness/hlib"

	"github.com/unixpickle/model3d/model2d"
	"github.com/unixpickle/model3d/model3d"
)

func main() { hlib.Main("C08", run) }

func run(c *hlib.Ctx) {
	g := &G{c}
	// The hierarchy cases are cheap on both sides (≈ 20 µs per line), so every share of the budget is
	// multiplied: -n 300 gives ≈ 3 500 lines, -n 4000 ≈ 47 000 lines.
	const mult = 8
	share := func(pct int) int {
		n := c.N * pct / 100 * mult
		if n < 4 {
			n = 4
		}
		return n
	}
	// 1. prefilters: cheap, 4·N in total
	pre := 4 * c.N / 6
	if pre < 6 {
		pre = 6
	}
	for i := 0; i < pre; i++ {
		g.genSlab(3, true)
		g.genSlab(2, true)
		g.genSlab(3, false)
		g.genSlab(2, false)
		g.genPbd(3)
		g.genPbd(2)
	}
	// 2. grouping, 3. BVH construction
	for i, n := 0, share(10); i < n; i++ {
		g.genGroup(2 + (i+1)%2)
	}
	for i, n := 0, share(5); i < n; i++ {
		g.genBVH(2 + (i+1)%2)
	}
	// 4. synthetic leaves
	g.genSynth(share(35))
	// 5. real geometry
	g.genReal(share(50))
	// 6. k-d trees
	g.genKD(2 * share(15))
}

// ---------------------------------------------------------------------------
// small helpers

// G wraps the context with a few random helpers.
type G struct{ *hlib.Ctx }

// Stat records a distribution counter under a ONE-token key `c08.<kind>.<what>` (the check parses
// `#stat <key> <int>`): blanks and punctuation of the readable key are folded.
func (g *G) Stat(key string, n int) {
	key = strings.Replace(key, " ", ".", 1)
	key = statFold.Replace(key)
	g.Ctx.Stat("c08."+strings.Trim(key, "_"), n)
}

// PropFail: the site must be ONE token as well (`prop:c08/<what>`).
func (g *G) PropFail(site, desc string) {
	g.Ctx.PropFail(strings.ReplaceAll(site, " ", "/"), desc)
}

var statFold = strings.NewReplacer(" ", "_", "(", "_", ")", "", "<=", "_le_", ">=", "_ge_", "<", "_lt_", ">", "_gt_",
	"=", "_eq_", ",", "", "`", "", "+", "_plus_")

func (g *G) p(prob float64) bool        { return g.Rng.Float64() < prob }
func (g *G) half(span int) float64      { return g.Dyadic(span, 1) }
func (g *G) pickF(xs []float64) float64 { return xs[g.Rng.Intn(len(xs))] }
func (g *G) pickI(xs []int) int         { return xs[g.Rng.Intn(len(xs))] }

// V is a point of either dimension (2D uses the first two entries).
type V [3]float64

func c3(v V) model3d.Coord3D { return model3d.XYZ(v[0], v[1], v[2]) }
func c2(v V) model2d.Coord   { return model2d.XY(v[0], v[1]) }
func v3(c model3d.Coord3D) V { return V{c.X, c.Y, c.Z} }
func v2(c model2d.Coord) V   { return V{c.X, c.Y, 0} }

func (a V) add(b V) V         { return V{a[0] + b[0], a[1] + b[1], a[2] + b[2]} }
func (a V) sub(b V) V         { return V{a[0] - b[0], a[1] - b[1], a[2] - b[2]} }
func (a V) scale(s float64) V { return V{a[0] * s, a[1] * s, a[2] * s} }
func (a V) along(d V, t float64) V {
	return V{a[0] + d[0]*t, a[1] + d[1]*t, a[2] + d[2]*t}
}

// box is a closed axis-aligned box.
type box struct{ lo, hi V }

func (b box) flat(dim int) bool {
	for a := 0; a < dim; a++ {
		if b.lo[a] == b.hi[a] {
			return true
		}
	}
	return false
}

func union(a, b box) box {
	for i := 0; i < 3; i++ {
		if b.lo[i] < a.lo[i] {
			a.lo[i] = b.lo[i]
		}
		if b.hi[i] > a.hi[i] {
			a.hi[i] = b.hi[i]
		}
	}
	return a
}

func inBox(dim int, p V, b box) bool {
	for a := 0; a < dim; a++ {
		if p[a] < b.lo[a] || p[a] > b.hi[a] {
			return false
		}
	}
	return true
}

// boxesMeet: the closed boxes intersect (touching counts).
func boxesMeet(dim int, a, b box) bool {
	for i := 0; i < dim; i++ {
		if a.hi[i] < b.lo[i] || b.hi[i] < a.lo[i] {
			return false
		}
	}
	return true
}

// ptBoxDistSq is the harness' own exact squared point-to-box distance (inputs are small dyadics).
func ptBoxDistSq(dim int, c V, b box) float64 {
	s := 0.0
	for a := 0; a < dim; a++ {
		if c[a] < b.lo[a] {
			s += (b.lo[a] - c[a]) * (b.lo[a] - c[a])
		} else if c[a] > b.hi[a] {
			s += (c[a] - b.hi[a]) * (c[a] - b.hi[a])
		}
	}
	return s
}

// toks builds a protocol line.
type toks struct{ w []string }

func (t *toks) s(xs ...string) *toks { t.w = append(t.w, xs...); return t }
func (t *toks) f(xs ...float64) *toks {
	for _, x := range xs {
		t.w = append(t.w, hlib.RatStr(x))
	}
	return t
}
func (t *toks) n(xs ...int) *toks {
	for _, x := range xs {
		t.w = append(t.w, strconv.Itoa(x))
	}
	return t
}
func (t *toks) v(dim int, vs ...V) *toks {
	for _, v := range vs {
		t.f(v[:dim]...)
	}
	return t
}
func (t *toks) b(dim int, b box) *toks { return t.v(dim, b.lo, b.hi) }
func (t *toks) String() string         { return strings.Join(t.w, " ") }

func b01(b bool) string {
	if b {
		return "1"
	}
	return "0"
}

func idsStr(xs []int) string {
	if len(xs) == 0 {
		return "-"
	}
	w := make([]string, len(xs))
	for i, x := range xs {
		w[i] = strconv.Itoa(x)
	}
	return strings.Join(w, " ")
}

// guard runs f and returns "" or the "panic:…" string of hlib.Guard.
func guard(f func()) string { return hlib.Guard(func() string { f(); return "" }) }

func isPerm(n int, xs []int) bool {
	if len(xs) != n {
		return false
	}
	ys := append([]int{}, xs...)
	sort.Ints(ys)
	for i, y := range ys {
		if y != i {
			return false
		}
	}
	return true
}

// ---------------------------------------------------------------------------
// boxes

// randBox: corners on the half-integer grid in [-4,4]; flat on 1, 2 or all axes in 40% of the cases.
func (g *G) randBox(dim int) box {
	var b box
	for a := 0; a < dim; a++ {
		x, y := g.half(4), g.half(4)
		if x > y {
			x, y = y, x
		}
		b.lo[a], b.hi[a] = x, y
	}
	nflat := 0
	switch m := g.Rng.Intn(10); {
	case m >= 9:
		nflat = dim
	case m >= 8:
		nflat = 2
	case m >= 6:
		nflat = 1
	}
	for _, a := range g.Rng.Perm(dim) {
		if nflat == 0 {
			break
		}
		b.hi[a] = b.lo[a]
		nflat--
	}
	return b
}

// boxSet: n boxes with exact duplicates, touching, nested and union boxes.
func (g *G) boxSet(dim, n int) []box {
	bs := make([]box, n)
	allSame := n > 1 && g.p(0.05)
	defer func() { // sometimes all boxes flat in one common plane: inner nodes get flat bounds too
		if g.p(0.12) {
			a, x := g.Rng.Intn(dim), g.half(3)
			for i := range bs {
				bs[i].lo[a], bs[i].hi[a] = x, x
			}
		}
	}()
	for i := range bs {
		switch {
		case i > 0 && (allSame || g.p(0.2)): // exact duplicate
			bs[i] = bs[g.Rng.Intn(i)]
		case i > 0 && g.p(0.15): // shares exactly a face plane with an earlier box
			nb, o, a := g.randBox(dim), bs[g.Rng.Intn(i)], g.Rng.Intn(dim)
			w := nb.hi[a] - nb.lo[a]
			if g.p(0.5) {
				nb.lo[a], nb.hi[a] = o.hi[a], o.hi[a]+w
			} else {
				nb.lo[a], nb.hi[a] = o.lo[a]-w, o.lo[a]
			}
			bs[i] = nb
		case i > 0 && g.p(0.12): // nested in an earlier box (often sharing faces)
			o := bs[g.Rng.Intn(i)]
			nb := o
			for a := 0; a < dim; a++ {
				steps := int((o.hi[a] - o.lo[a]) * 2)
				x := o.lo[a] + float64(g.Rng.Intn(steps+1))/2
				y := o.lo[a] + float64(g.Rng.Intn(steps+1))/2
				if x > y {
					x, y = y, x
				}
				if g.p(0.5) {
					nb.lo[a], nb.hi[a] = x, y
				}
			}
			bs[i] = nb
		case i > 1 && g.p(0.12): // union of earlier boxes (equal bounds with a joined node)
			u := bs[g.Rng.Intn(i)]
			for k := g.Rng.Intn(i) + 1; k > 0; k-- {
				u = union(u, bs[g.Rng.Intn(i)])
			}
			if g.p(0.3) {
				for _, b := range bs[:i] {
					u = union(u, b)
				}
			}
			bs[i] = u
		default:
			bs[i] = g.randBox(dim)
		}
	}
	return bs
}

// aimBoxes: the boxes queries are aimed at: the leaf boxes plus some unions (bounds of inner nodes).
func (g *G) aimBoxes(dim int, bs []box) []box {
	if len(bs) == 0 {
		return []box{g.randBox(dim)}
	}
	out := append([]box{}, bs...)
	all := bs[0]
	for _, b := range bs {
		all = union(all, b)
	}
	out = append(out, all)
	for k := 0; k < 3 && len(bs) > 1; k++ {
		i := g.Rng.Intn(len(bs) - 1)
		j := i + 1 + g.Rng.Intn(len(bs)-i-1)
		u := bs[i]
		for _, b := range bs[i : j+1] {
			u = union(u, b)
		}
		out = append(out, u)
	}
	return out
}

// ---------------------------------------------------------------------------
// aimed queries

var pow2dirs = []float64{1, -1, 2, -2, 0.5, -0.5, 4, -4, 0.25, -0.25}

// A Ray's direction is NOT required to be a unit vector (`RayCollision.Scale` is "the amount of the ray
// direction to add"), and a segment query uses `s[1]-s[0]` as direction: directions of every length must give the
// brute-force answer.  downExps / upExps: σ = 2^-e resp. 2^e multiplies a whole direction (exact; the hits move
// to the parameters t/σ, every quotient of the slab test is scaled exactly), tinyExps: exponents of single
// direction components (origin then lies a tiny, exactly representable amount outside a slab).
var downExps = []int{10, 20, 24, 26, 27, 28, 30, 34, 40, 60, 100}
var upExps = []int{10, 30, 100}
var tinyExps = []int{0, 20, 27, 30, 34, 40}

// dirScale: 1 in 60% of the cases, else a power of two far below / above 1.
func (g *G) dirScale() float64 {
	switch m := g.Rng.Intn(20); {
	case m < 12:
		return 1
	case m < 18:
		return math.Ldexp(1, -g.pickI(downExps))
	default:
		return math.Ldexp(1, g.pickI(upExps))
	}
}

// sceneScaleFar: a power of two far from 1 by which a WHOLE scene (boxes, primitives, points, query, radius) is
// multiplied: exact in float64, every comparison of the hierarchy code keeps its outcome, so the answers must be
// those of the unit-size scene (no absolute tolerance may enter a pruning test).
func (g *G) sceneScaleFar() float64 {
	return math.Ldexp(1, g.pickI([]int{-40, -30, -27, -20, 20, 30}))
}

// sceneScale: 1 in 80% of the cases.
func (g *G) sceneScale() float64 {
	if g.p(0.8) {
		return 1
	}
	return g.sceneScaleFar()
}

func (b box) scale(s float64) box { return box{b.lo.scale(s), b.hi.scale(s)} }

func scaleBoxes(bs []box, s float64) []box {
	if s == 1 {
		return bs
	}
	out := make([]box, len(bs))
	for i, b := range bs {
		out[i] = b.scale(s)
	}
	return out
}

func tinyDir(dim int, d V) bool {
	for a := 0; a < dim; a++ {
		if d[a] != 0 && math.Abs(d[a]) < 1e-6 {
			return true
		}
	}
	return false
}
var smallDirs = []float64{1, -1, 2, -2, 3, -3, 4, -4, 0.5, -0.5, 1.5, -1.5, 0.25, -0.75, 2.5, -3.5}

// boxPoint: a point related to the box: per axis lo / hi / middle / inside / just outside.
func (g *G) boxPoint(dim int, b box, outside bool) V {
	var t V
	for a := 0; a < dim; a++ {
		switch m := g.Rng.Intn(6); {
		case m == 0:
			t[a] = b.lo[a]
		case m == 1:
			t[a] = b.hi[a]
		case m == 2:
			t[a] = (b.lo[a] + b.hi[a]) / 2
		case m == 3 || !outside:
			steps := int((b.hi[a] - b.lo[a]) * 2)
			t[a] = b.lo[a] + float64(g.Rng.Intn(steps+1))/2
		case m == 4:
			t[a] = b.lo[a] - g.pickF([]float64{0.5, 1, 2})
		default:
			t[a] = b.hi[a] + g.pickF([]float64{0.5, 1, 2})
		}
	}
	return t
}

// aimRay: a ray aimed at corners / edges / faces of one of the boxes, with origins on box planes,
// zero direction components, rays starting inside and rays pointing away.  With exactDiv the non-zero
// direction components are ±2^k (the quotients of the slab test are exact).
func (g *G) aimRay(dim int, boxes []box, exactDiv bool) (o, d V) {
	b := boxes[g.Rng.Intn(len(boxes))]
	if g.p(0.2) { // grazing: touches the box in a single point of an edge / corner (minFrac == maxFrac)
		t, d := g.graze(dim, b, exactDiv)
		return t.along(d, -g.pickF([]float64{0, 0.5, 1, 1, 2, -1})), d
	}
	return g.rayThrough(dim, g.boxPoint(dim, b, g.p(0.3)), b, exactDiv)
}

// graze: a point t on an edge / corner of b and a direction that only touches b there: on one of two
// boundary axes the line leaves the slab at t, on the other it enters it at t.
func (g *G) graze(dim int, b box, exactDiv bool) (t, d V) {
	t = g.boxPoint(dim, b, false)
	mag := func() float64 {
		if exactDiv {
			return g.pickF([]float64{0.25, 0.5, 1, 2, 4})
		}
		return g.pickF([]float64{0.5, 1, 1.5, 2, 3, 4})
	}
	ax := g.Rng.Perm(dim)
	for i, a := range ax[:2] {
		out := 1.0
		if g.p(0.5) {
			t[a] = b.hi[a]
		} else {
			t[a], out = b.lo[a], -1
		}
		if i == 0 {
			d[a] = out * mag() // leaves
		} else {
			d[a] = -out * mag() // enters
		}
	}
	if dim == 3 && g.p(0.5) {
		d[ax[2]] = g.pickF([]float64{1, -1, 0.5, -2})
	}
	return t, d
}

// rayThrough: a ray related to the target point t (b: a box whose planes origins are put on).
func (g *G) rayThrough(dim int, t V, b box, exactDiv bool) (o, d V) {
	mode := g.Rng.Intn(10)
	switch {
	case mode == 0: // zero direction
		return t, V{}
	case mode <= 5 || exactDiv: // direction from a set, origin = target − s·dir (s<0: box behind)
		// mixed: components of very different magnitude (±2^k·2^-e per axis; all quotients stay exact): the
		// origin is then a tiny amount outside a slab that the ray does reach.
		mixed := g.p(0.2)
		for a := 0; a < dim; a++ {
			if g.p(0.4) {
				continue
			}
			if exactDiv || mixed {
				d[a] = g.pickF(pow2dirs)
			} else {
				d[a] = g.pickF(smallDirs)
			}
			if mixed {
				d[a] = math.Ldexp(d[a], -g.pickI(tinyExps))
			}
		}
		s := g.pickF([]float64{0, 0.5, 1, 1, 2, 4, -1, -0.5})
		return t.along(d, -s), d
	default: // origin on the grid (often on a plane of the box), direction = target − origin
		for a := 0; a < dim; a++ {
			switch m := g.Rng.Intn(10); {
			case m < 2:
				o[a] = b.lo[a]
			case m < 3:
				o[a] = b.hi[a]
			case m < 5:
				o[a] = t[a]
			default:
				o[a] = g.half(5)
			}
		}
		d = t.sub(o)
		if g.p(0.2) {
			d = d.scale(0.5)
		}
		if g.p(0.1) {
			d = d.scale(-1)
		}
		return o, d
	}
}

var pyth2 = [][]float64{{3, 4, 5}, {1.5, 2, 2.5}, {4, 3, 5}, {6, 2.5, 6.5}, {0.75, 1, 1.25}}
var pyth3 = [][]float64{{1, 2, 2, 3}, {2, 3, 6, 7}, {0.5, 1, 1, 1.5}, {2, 1, 2, 3}, {1, 4, 8, 9}, {2, 4, 4, 6}}

// aimSphere: centre/radius aimed at a box such that r*r is often exactly the squared distance (touching).
func (g *G) aimSphere(dim int, boxes []box) (c V, r float64) {
	b := boxes[g.Rng.Intn(len(boxes))]
	c = g.boxPoint(dim, b, false)
	dist := 0.0
	side := func(a int, off float64) {
		if g.p(0.5) {
			c[a] = b.hi[a] + off
		} else {
			c[a] = b.lo[a] - off
		}
	}
	switch m := g.Rng.Intn(10); {
	case m < 4: // offset along one axis
		dist = g.pickF([]float64{0.5, 1, 1.5, 2, 3, 0.25})
		side(g.Rng.Intn(dim), dist)
	case m < 6: // pythagorean offset on two axes
		t := pyth2[g.Rng.Intn(len(pyth2))]
		ax := g.Rng.Perm(dim)
		side(ax[0], t[0])
		side(ax[1], t[1])
		dist = t[2]
	case m < 7 && dim == 3: // pythagorean offset on three axes
		t := pyth3[g.Rng.Intn(len(pyth3))]
		side(0, t[0])
		side(1, t[1])
		side(2, t[2])
		dist = t[3]
	case m < 8: // inside / on the box: distance 0
	default: // anywhere
		for a := 0; a < dim; a++ {
			c[a] = g.half(6)
		}
		dist = g.pickF([]float64{1, 2, 2.5, 5})
	}
	switch m := g.Rng.Intn(20); {
	case m < 8:
		r = dist
	case m < 12:
		r = dist - 0.25
	case m < 15:
		r = dist + 0.25
	case m < 17:
		r = 0
	case m < 19:
		r = -dist
	default:
		r = g.Dyadic(6, 2)
	}
	return c, r
}

// aimRect: a box sharing exactly a face / edge / corner with one of the boxes (per axis: touching from
// above, touching from below, overlapping, containing, disjoint).
func (g *G) aimRect(dim int, boxes []box) box {
	b := boxes[g.Rng.Intn(len(boxes))]
	var r box
	for a := 0; a < dim; a++ {
		w := g.pickF([]float64{0, 0.5, 1, 2})
		switch g.Rng.Intn(7) {
		case 0, 1:
			r.lo[a], r.hi[a] = b.hi[a], b.hi[a]+w
		case 2, 3:
			r.lo[a], r.hi[a] = b.lo[a]-w, b.lo[a]
		case 4:
			r.lo[a], r.hi[a] = b.lo[a]-w, b.hi[a]+w
		case 5:
			r.lo[a], r.hi[a] = (b.lo[a]+b.hi[a])/2, b.hi[a]+w
		default:
			r.lo[a], r.hi[a] = b.hi[a]+0.5, b.hi[a]+0.5+w
		}
	}
	return r
}

// aimTri: a triangle whose bounding box is an aimRect box.
func (g *G) aimTri(boxes []box) [3]V {
	r := g.aimRect(3, boxes)
	var m V
	for a := 0; a < 3; a++ {
		m[a] = g.pickF([]float64{r.lo[a], r.hi[a], (r.lo[a] + r.hi[a]) / 2})
	}
	// opposite corners of r plus a third point inside r: bounding box = r
	p, q := r.lo, r.hi
	for a := 0; a < 3; a++ {
		if g.p(0.5) {
			p[a], q[a] = q[a], p[a]
		}
	}
	t := [3]V{p, q, m}
	g.Rng.Shuffle(3, func(i, j int) { t[i], t[j] = t[j], t[i] })
	return t
}

// aimSeg: a segment ending exactly on a face of a box (t = 1), starting exactly on it (t = 0), passing
// through, or missing.  End points stay on the quarter grid so that p + (q−p)·k/8 is exact.
func (g *G) aimSeg(dim int, boxes []box) (p, q V) {
	b := boxes[g.Rng.Intn(len(boxes))]
	t := g.boxPoint(dim, b, g.p(0.2))
	var d V
	for a := 0; a < dim; a++ {
		if g.p(0.35) {
			continue
		}
		d[a] = g.pickF(smallDirs)
	}
	if g.p(0.2) {
		t, d = g.graze(dim, b, false)
	}
	if g.p(0.25) { // very short segment (direction s[1]-s[0] far below 1; end points stay exact)
		d = d.scale(math.Ldexp(1, -g.pickI([]int{10, 20, 26, 27, 28, 30, 34, 40})))
	}
	switch g.Rng.Intn(5) {
	case 0: // ends on the target
		return t.sub(d), t
	case 1: // starts on the target
		return t, t.add(d)
	case 2: // passes through the target (middle)
		return t.sub(d), t.add(d)
	case 3: // stops short: target is at parameter 2
		return t.along(d, -2), t.sub(d)
	default: // degenerate segment
		return t, t
	}
}
