package main

import (
	"math"
	"strconv"
	"verif/harness/hlib"

	"github.com/unixpickle/model3d/model2d"
	"github.com/unixpickle/model3d/model3d"
)

// Kinds slab3 / slab2 / slabd3 / slabd2 / pbd3 / pbd2: the bounding-box prefilters through the hooks.

func fracStr(x float64) string {
	switch {
	case math.IsInf(x, -1):
		return "-inf"
	case math.IsInf(x, 1):
		return "+inf"
	}
	return hlib.RatStr(x)
}

// slabHook calls the real rayCollisionWithBounds.
func slabHook(dim int, o, d V, b box) (mn, mx float64) {
	if dim == 3 {
		return model3d.VerifRayCollisionWithBounds(&model3d.Ray{Origin: c3(o), Direction: c3(d)}, c3(b.lo), c3(b.hi))
	}
	return model2d.VerifRayCollisionWithBounds(&model2d.Ray{Origin: c2(o), Direction: c2(d)}, c2(b.lo), c2(b.hi))
}

func (g *G) genSlab(dim int, full bool) {
	b := g.randBox(dim)
	o, d := g.aimRay(dim, []box{b}, full)
	sig := g.dirScale()
	d = d.scale(sig) // exact (power of two); the decisions must not depend on the length of the direction
	if ss := g.sceneScale(); ss != 1 {
		b, o, d = b.scale(ss), o.scale(ss), d.scale(ss)
	}
	kind := "slab"
	if !full {
		kind = "slabd"
	}
	kind += strconv.Itoa(dim)
	op := (&toks{}).s("c08", kind).v(dim, o, d).b(dim, b).String()
	impl := hlib.Guard(func() string {
		mn, mx := slabHook(dim, o, d, b)
		// exactly the Go expressions of rayCollidesWithBounds / joinedMultiCollider.SegmentCollision
		ray := mx >= mn && mx >= 0
		seg := !(mx < mn || mx < 0 || mn > 1)
		dec := b01(ray) + " " + b01(seg)
		if ray {
			g.Stat(kind+" admits", 1)
		}
		if full {
			return fracStr(mn) + " " + fracStr(mx) + " " + dec
		}
		return dec
	})
	g.Emit(op, impl)
	g.Stat(kind+" cases", 1)
	if b.flat(dim) {
		g.Stat(kind+" flat-box", 1)
	}
	zero, plane := false, false
	for a := 0; a < dim; a++ {
		zero = zero || d[a] == 0
		plane = plane || o[a] == b.lo[a] || o[a] == b.hi[a]
	}
	if zero {
		g.Stat(kind+" zero-dir-component", 1)
	}
	if plane {
		g.Stat(kind+" origin-on-box-plane", 1)
	}
	if tinyDir(dim, d) {
		g.Stat(kind+" tiny-dir-component(<1e-6)", 1)
	}
	if sig > 1 {
		g.Stat(kind+" huge-direction", 1)
	}
}

func (g *G) genPbd(dim int) {
	b := g.randBox(dim)
	c, r := g.aimSphere(dim, []box{b})
	kind := "pbd" + strconv.Itoa(dim)
	if ss := g.sceneScale(); ss != 1 {
		b, c, r = b.scale(ss), c.scale(ss), r*ss
		g.Stat(kind+" far from unit scale", 1)
	}
	op := (&toks{}).s("c08", kind).v(dim, c).f(r).b(dim, b).String()
	impl := hlib.Guard(func() string {
		var d2 float64
		var touch bool
		if dim == 3 {
			d2 = model3d.VerifPointToBoundsDistSquared(c3(c), c3(b.lo), c3(b.hi))
			touch = model3d.VerifSphereTouchesBounds(c3(c), r, c3(b.lo), c3(b.hi))
		} else {
			d2 = model2d.VerifPointToBoundsDistSquared(c2(c), c2(b.lo), c2(b.hi))
			touch = model2d.VerifCircleTouchesBounds(c2(c), r, c2(b.lo), c2(b.hi))
		}
		if d2 != ptBoxDistSq(dim, c, b) {
			g.PropFail("prop:c08 pbd-differs-from-harness", op)
		}
		return hlib.RatStr(d2) + " " + b01(touch)
	})
	g.Emit(op, impl)
	g.Stat(kind+" cases", 1)
	if ptBoxDistSq(dim, c, b) == r*r {
		g.Stat(kind+" exactly-touching", 1)
	}
	if b.flat(dim) {
		g.Stat(kind+" flat-box", 1)
	}
	if r <= 0 {
		g.Stat(kind+" r<=0", 1)
	}
}
