package main

// 2-D mesh SDFs (MeshToSDF / GroupedSegmentsToSDF): outlines with and without zero-length segments.
//
// A polygon that is read from a file as a closed polyline (last point = first point), or that lists a
// vertex twice, contains zero-length segments {p, p}.  Segment.Closest of such a piece is 0/0 = NaN, its
// leaf distance is NaN, the test `dist < *curDist` of meshDistFunc.Dist is false and the leaf is ignored:
// the result is the exhaustive minimum over the proper segments, which is the distance to the boundary
// because p is an end point of a neighbouring segment (M3d.C06.mesh2_sdf_exhaustive_min_degenerate,
// mesh_scan_ignores_nan_leaves).  Kinds:
//
//	b.mesh2 inBounds collisions goFace n segs… q  →  val point normal ok
//	x.mesh2 goFace n segs… q                      →  1 iff the face picked by FaceSDF is a proper segment
//	                                                 attaining the exact minimum of the squared distances

import (
	"fmt"
	"math"
	"sort"
	"strings"

	"github.com/unixpickle/model3d/model2d"
	"verif/harness/hlib"
)

var rayDir2 = model2d.Coord{X: 0.5224892708603626, Y: 0.10494477243214506}

// outline2 is a set of closed loops (vertex lists without a repeated closing point).
type outline2 struct {
	loops     [][]model2d.Coord
	centres   []model2d.Coord
	clockwise bool // every loop is listed clockwise (normals face outwards), loops disjoint
	simple    bool // … and is certainly a simple polygon (vertices not rounded)
	kind      string
}

// starLoop draws a star-shaped polygon round ce: k vertices at decreasing angles (clockwise with the y-axis
// up) with radii in [rmin, 1]*r.  dy > 0 rounds the vertices to multiples of r/dy.
func (g gen) starLoop(ce model2d.Coord, r float64, k int, rmin float64, dy float64) []model2d.Coord {
	angles := make([]float64, k)
	for i := range angles {
		angles[i] = (float64(i) + 0.15 + 0.7*g.c.Rng.Float64()) / float64(k) * 2 * math.Pi
	}
	sort.Float64s(angles)
	var pts []model2d.Coord
	for i := k - 1; i >= 0; i-- {
		rad := r * (rmin + (1-rmin)*g.c.Rng.Float64())
		p := model2d.XY(rad*math.Cos(angles[i]), rad*math.Sin(angles[i]))
		if dy > 0 {
			p = model2d.XY(math.Round(p.X/r*dy)/dy*r, math.Round(p.Y/r*dy)/dy*r)
		}
		p = p.Add(ce)
		if len(pts) > 0 && pts[len(pts)-1] == p {
			continue
		}
		pts = append(pts, p)
	}
	for len(pts) > 1 && pts[0] == pts[len(pts)-1] {
		pts = pts[:len(pts)-1]
	}
	return pts
}

func (g gen) outline(sc float64) outline2 {
	ce := g.vec2(sc)
	r := g.pos(sc)
	for {
		var o outline2
		o.clockwise = true
		o.simple = true
		switch g.i(7) {
		case 0, 1:
			o.kind = "star"
			o.loops = [][]model2d.Coord{g.starLoop(ce, r, 3+g.i(10), 0.3, 0)}
			o.centres = []model2d.Coord{ce}
		case 2:
			o.kind = "regular"
			o.loops = [][]model2d.Coord{g.starLoop(ce, r, 3+g.i(8), 1, 0)}
			o.centres = []model2d.Coord{ce}
		case 3:
			o.kind = "dyadic-star"
			o.simple = false
			ce = model2d.XY(g.c.Dyadic(4, 2), g.c.Dyadic(4, 2)).Scale(sc)
			o.loops = [][]model2d.Coord{g.starLoop(ce, sc, 3+g.i(8), 0.4, 4)}
			o.centres = []model2d.Coord{ce}
		case 4:
			o.kind = "rect"
			w, h := g.pos(sc), g.pos(sc)
			o.loops = [][]model2d.Coord{{ce, ce.Add(model2d.XY(0, h)), ce.Add(model2d.XY(w, h)), ce.Add(model2d.XY(w, 0))}}
			o.centres = []model2d.Coord{ce.Add(model2d.XY(w/2, h/2))}
		case 5:
			o.kind = "two-loops"
			ce2 := ce.Add(model2d.XY(2.5*r, 0.3*r*g.f()))
			o.loops = [][]model2d.Coord{g.starLoop(ce, r, 3+g.i(6), 0.4, 0), g.starLoop(ce2, r, 3+g.i(6), 0.4, 0)}
			o.centres = []model2d.Coord{ce, ce2}
		default:
			o.kind = "star-ccw"
			l := g.starLoop(ce, r, 3+g.i(10), 0.3, 0)
			for i, j := 0, len(l)-1; i < j; i, j = i+1, j-1 {
				l[i], l[j] = l[j], l[i]
			}
			o.loops = [][]model2d.Coord{l}
			o.centres = []model2d.Coord{ce}
			o.clockwise = false
		}
		ok := true
		for _, l := range o.loops {
			if len(l) < 3 {
				ok = false
			}
		}
		if ok {
			return o
		}
	}
}

// segments2 turns the loops into segments; mode selects which zero-length pieces are added:
// 0 none, 1 the closing point of every loop is repeated, 2 random vertices are listed twice,
// 3 both, and one vertex three times.  Returns the segments and the vertices that carry a zero-length piece.
func (g gen) segments2(o outline2, mode int) ([]*model2d.Segment, []model2d.Coord) {
	var segs []*model2d.Segment
	var degen []model2d.Coord
	for _, l := range o.loops {
		var pts []model2d.Coord
		any := false
		for i, p := range l {
			pts = append(pts, p)
			dup := 0
			if (mode == 2 || mode == 3) && g.i(4) == 0 {
				dup = 1
			}
			if mode == 3 && i == 1 {
				dup = 2
			}
			for j := 0; j < dup; j++ {
				pts = append(pts, p)
				any = true
			}
		}
		if mode == 2 && !any {
			k := g.i(len(l))
			pts = append(append(append([]model2d.Coord{}, pts[:k+1]...), l[k]), pts[k+1:]...)
		}
		if mode == 1 || mode == 3 {
			// the polyline as it is stored in a file: the last point repeats the first
			pts = append(pts, l[0])
		}
		for i := range pts {
			a, b := pts[i], pts[(i+1)%len(pts)]
			segs = append(segs, &model2d.Segment{a, b})
			if a == b {
				degen = append(degen, a)
			}
		}
	}
	return segs, degen
}

// bruteSeg2 is the distance from c to the segment [a, b] computed without normalising the direction
// (a zero-length piece is the point a); validation only.
func bruteSeg2(a, b, c model2d.Coord) (float64, model2d.Coord) {
	if a == b {
		return a.Dist(c), a
	}
	v := b.Sub(a)
	frac := math.Max(0, math.Min(1, v.Dot(c.Sub(a))/v.Dot(v)))
	cp := a.Add(v.Scale(frac))
	return cp.Dist(c), cp
}

func bruteMesh2(segs []*model2d.Segment, c model2d.Coord) float64 {
	best := math.Inf(1)
	for _, s := range segs {
		if d, _ := bruteSeg2(s[0], s[1], c); d < best {
			best = d
		}
	}
	return best
}

// crossings2 is a plain even-odd crossing test (validation only).
func crossings2(segs []*model2d.Segment, c model2d.Coord) bool {
	inside := false
	for _, s := range segs {
		p1, p2 := s[0], s[1]
		if (p1.Y > c.Y) != (p2.Y > c.Y) {
			x := p1.X + (c.Y-p1.Y)/(p2.Y-p1.Y)*(p2.X-p1.X)
			if c.X < x {
				inside = !inside
			}
		}
	}
	return inside
}

func segLine(faces []*model2d.Segment, hex bool) string {
	var sb strings.Builder
	for _, f := range faces {
		if hex {
			sb.WriteString(" " + h2(f[0]) + " " + h2(f[1]))
		} else {
			sb.WriteString(" " + r2(f[0]) + " " + r2(f[1]))
		}
	}
	return sb.String()
}

func runMesh2(c *hlib.Ctx, g gen, n int) {
	for i := 0; i < n; i++ {
		sc := g.scale()
		o := g.outline(sc)
		mode := g.i(4)
		faces, degen := g.segments2(o, mode)
		c.Stat("mesh2/"+o.kind, 1)
		c.Stat(fmt.Sprintf("mesh2/zero-length-mode-%d", mode), 1)
		c.Stat("mesh2/zero-length-pieces", len(degen))

		// the hierarchy: the segments in the order they were listed, shuffled, or grouped by GroupSegments
		order := g.i(4)
		if order >= 1 {
			g.c.Rng.Shuffle(len(faces), func(a, b int) { faces[a], faces[b] = faces[b], faces[a] })
		}
		if order >= 2 {
			model2d.GroupSegments(faces)
			c.Stat("mesh2/grouped", 1)
		} else {
			c.Stat("mesh2/ungrouped", 1)
		}
		sdf := model2d.GroupedSegmentsToSDF(faces)
		coll := model2d.GroupedSegmentsToCollider(faces)
		mesh := model2d.NewMesh()
		for _, f := range faces {
			mesh.Add(f)
		}
		sdfM := model2d.MeshToSDF(mesh)
		idx := map[*model2d.Segment]int{}
		for j, f := range faces {
			idx[f] = j
		}
		segText := segLine(faces, true)

		lo, hi := sdf.Min(), sdf.Max()
		size := hi.Sub(lo)
		diam := size.Norm()
		var verts []model2d.Coord
		for _, l := range o.loops {
			verts = append(verts, l...)
		}
		var prevQ model2d.Coord
		var prevV float64
		for k := 0; k < 6; k++ {
			var q model2d.Coord
			class := g.i(7)
			if len(degen) > 0 && k < 3 {
				class = k % 2 // aim at the vertices that carry a zero-length piece
			}
			pick := func() model2d.Coord {
				if len(degen) > 0 && g.i(4) != 0 {
					return degen[g.i(len(degen))]
				}
				return verts[g.i(len(verts))]
			}
			switch class {
			case 0:
				// around a vertex, any direction, from a hair to twice the size away
				p := pick()
				ang := g.c.Rng.Float64() * 2 * math.Pi
				rad := diam * []float64{1e-9, 1e-3, 0.05, 0.3, 1, 2}[g.i(6)] * (0.5 + g.c.Rng.Float64())
				q = p.Add(model2d.XY(math.Cos(ang), math.Sin(ang)).Scale(rad))
				c.Stat("mesh2/q-around-vertex", 1)
			case 1:
				// away from the loop's centre through a vertex (the vertex is the nearest boundary point when it is convex)
				p := pick()
				ce := o.centres[0]
				for j, l := range o.loops {
					for _, v := range l {
						if v == p {
							ce = o.centres[j]
						}
					}
				}
				d := p.Sub(ce)
				if d.Norm() == 0 {
					d = model2d.X(1)
				}
				d = d.Normalize()
				ang := 0.6 * g.f()
				d = model2d.XY(d.X*math.Cos(ang)-d.Y*math.Sin(ang), d.X*math.Sin(ang)+d.Y*math.Cos(ang))
				rad := diam * []float64{1e-6, 0.02, 0.2, 0.7, 3}[g.i(5)] * (0.5 + g.c.Rng.Float64())
				q = p.Add(d.Scale(rad))
				c.Stat("mesh2/q-beyond-vertex", 1)
			case 2:
				q = verts[g.i(len(verts))]
				c.Stat("mesh2/q-vertex", 1)
			case 3:
				f := faces[g.i(len(faces))]
				q = f[0].Mid(f[1])
				if f[0] != f[1] {
					q = q.Add(f.Normal().Scale(diam * []float64{0, 1e-9, 1e-3, 0.2}[g.i(4)] * g.f()))
				}
				c.Stat("mesh2/q-near-segment", 1)
			case 4:
				q = lo.Add(model2d.XY(size.X*g.c.Rng.Float64(), size.Y*g.c.Rng.Float64())).Add(g.vec2(diam * 50))
				c.Stat("mesh2/q-far", 1)
			default:
				if g.i(2) == 0 {
					// between a loop's centre and one of its vertices (inside a star-shaped loop)
					j := g.i(len(o.loops))
					v := o.loops[j][g.i(len(o.loops[j]))]
					q = o.centres[j].Add(v.Sub(o.centres[j]).Scale(g.c.Rng.Float64()))
					c.Stat("mesh2/q-towards-centre", 1)
				} else {
					q = lo.Add(model2d.XY(size.X*(g.c.Rng.Float64()*1.6-0.3), size.Y*(g.c.Rng.Float64()*1.6-0.3)))
					c.Stat("mesh2/q-random", 1)
				}
			}

			count := coll.RayCollisions(&model2d.Ray{Origin: q, Direction: rayDir2}, nil)
			inb := model2d.InBounds(coll, q)
			var face *model2d.Segment
			var pt model2d.Coord
			var val float64
			site := "mesh2"
			impl := hlib.Guard(func() string {
				face, pt, val = sdf.FaceSDF(q)
				v0 := sdf.SDF(q)
				p1, v1 := sdf.PointSDF(q)
				nrm, v2 := sdf.NormalSDF(q)
				v3 := sdfM.SDF(q)
				if hx(v0) != hx(val) || hx(v1) != hx(val) || hx(v2) != hx(val) || h2(p1) != h2(pt) {
					c.PropFail("prop:c06/"+site+"/value-differs-between-entry-points",
						fmt.Sprintf("%s outline (zero-length mode %d) at %v: FaceSDF=%v SDF=%v PointSDF=%v NormalSDF=%v", o.kind, mode, q, val, v0, v1, v2))
				}
				if hx(math.Abs(v3)) != hx(math.Abs(val)) {
					c.PropFail("prop:c06/"+site+"/value-depends-on-the-hierarchy",
						fmt.Sprintf("%s outline (zero-length mode %d) at %v: GroupedSegmentsToSDF=%v MeshToSDF=%v", o.kind, mode, q, val, v3))
				}
				if face == nil {
					return hx(val) + " " + h2(pt) + " noface"
				}
				if h2(nrm) != h2(face.Normal()) {
					c.PropFail("prop:c06/"+site+"/normal-is-not-face-normal", fmt.Sprintf("%s outline at %v", o.kind, q))
				}
				return hx(val) + " " + h2(pt) + " " + h2(nrm) + " 1"
			})
			gf := len(faces)
			if face != nil {
				gf = idx[face]
			}
			b := "0"
			if inb {
				b = "1"
			}
			c.Emit(fmt.Sprintf("c06 b.mesh2 %s %d %d %d%s %s", b, count, gf, len(faces), segText, h2(q)), impl)
			if strings.HasPrefix(impl, "panic") {
				continue
			}

			// ---- the property's predicates on the real outputs (validation, tolerances)
			tol := 1e-9 * math.Max(maxAbs2(lo, hi, q), diam)
			brute := bruteMesh2(faces, q)
			if !(math.Abs(math.Abs(val)-brute) <= tol) {
				c.PropFail("prop:c06/"+site+"/not-the-minimum-over-pieces",
					fmt.Sprintf("%s outline (zero-length mode %d, %d segments) at %v: |sdf|=%v but the exhaustive minimum over the pieces is %v",
						o.kind, mode, len(faces), q, val, brute))
			}
			if !(math.Abs(pt.Dist(q)-math.Abs(val)) <= tol) {
				c.PropFail("prop:c06/"+site+"/nearest-point-not-at-reported-distance",
					fmt.Sprintf("%s outline (zero-length mode %d) at %v: point %v value %v", o.kind, mode, q, pt, val))
			}
			if !(bruteMesh2(faces, pt) <= tol) {
				c.PropFail("prop:c06/"+site+"/nearest-point-not-on-boundary",
					fmt.Sprintf("%s outline (zero-length mode %d) at %v: point %v", o.kind, mode, q, pt))
			}
			if (val > 0) != (inb && count%2 == 1) && val != 0 && !math.IsNaN(val) {
				c.PropFail("prop:c06/"+site+"/sign-is-not-parity", fmt.Sprintf("%s outline at %v: sdf=%v inBounds=%v collisions=%d", o.kind, q, val, inb, count))
			}
			if o.clockwise && brute > 1e-6*diam {
				// simple polygon(s): containment by an independent crossing test
				if crossings2(faces, q) != (val > 0) {
					c.PropFail("prop:c06/"+site+"/sign-differs-from-crossing-test",
						fmt.Sprintf("%s outline (zero-length mode %d) at %v: sdf=%v", o.kind, mode, q, val))
				}
				c.Stat("mesh2/sign-checked", 1)
			}
			if face != nil && o.clockwise && o.simple && brute > 1e-6*diam {
				// nearest point in the interior of the reported segment: the normal is ±(q-p)/|q-p|, outward
				d0, d1 := pt.Dist(face[0]), pt.Dist(face[1])
				if d0 > 1e-6*diam && d1 > 1e-6*diam {
					dir := q.Sub(pt).Normalize()
					if val > 0 {
						dir = dir.Scale(-1)
					}
					nrm := face.Normal()
					if !(nrm.Dist(dir) <= 1e-6) {
						c.PropFail("prop:c06/"+site+"/normal-is-not-outward-gradient",
							fmt.Sprintf("%s outline at %v: normal %v but the direction of steepest descent is %v", o.kind, q, nrm, dir))
					}
					c.Stat("mesh2/normal-checked", 1)
				}
			}
			if k > 0 && !math.IsNaN(val) && !math.IsNaN(prevV) {
				if math.Abs(val-prevV) > q.Dist(prevQ)+2*tol {
					c.PropFail("prop:c06/"+site+"/not-1-lipschitz",
						fmt.Sprintf("%s outline (zero-length mode %d): sdf(%v)=%v sdf(%v)=%v", o.kind, mode, prevQ, prevV, q, val))
				}
			}
			prevQ, prevV = q, val
			if val > 0 {
				c.Stat("mesh2/inside", 1)
			} else {
				c.Stat("mesh2/outside", 1)
			}
			for _, p := range degen {
				if p == pt {
					c.Stat("mesh2/nearest-is-a-zero-length-vertex", 1)
					break
				}
			}
		}

		// ---- exact twin: dyadic outline, the face picked by the real search attains the exact minimum
		if i%2 == 0 {
			ce := model2d.XY(g.c.Dyadic(3, 1), g.c.Dyadic(3, 1))
			l := g.starLoop(ce, 2, 3+g.i(7), 0.4, 4)
			if len(l) < 3 {
				continue
			}
			xo := outline2{loops: [][]model2d.Coord{l}, centres: []model2d.Coord{ce}, clockwise: true, kind: "dyadic"}
			xfaces, xdegen := g.segments2(xo, g.i(4))
			if g.i(2) == 0 {
				g.c.Rng.Shuffle(len(xfaces), func(a, b int) { xfaces[a], xfaces[b] = xfaces[b], xfaces[a] })
			}
			if g.i(2) == 0 {
				model2d.GroupSegments(xfaces)
			}
			xs := model2d.GroupedSegmentsToSDF(xfaces)
			xidx := map[*model2d.Segment]int{}
			for j, f := range xfaces {
				xidx[f] = j
			}
			for k := 0; k < 3; k++ {
				q := model2d.XY(g.c.Dyadic(5, 3), g.c.Dyadic(5, 3))
				if len(xdegen) > 0 && k == 0 {
					p := xdegen[g.i(len(xdegen))]
					q = p.Add(p.Sub(ce).Scale(float64(1+g.i(4)) / 4)).Add(model2d.XY(g.c.Dyadic(1, 3), g.c.Dyadic(1, 3)))
				}
				var face *model2d.Segment
				res := hlib.Guard(func() string {
					face, _, _ = xs.FaceSDF(q)
					return "1"
				})
				gf := len(xfaces)
				if face != nil {
					gf = xidx[face]
				}
				c.Emit(fmt.Sprintf("c06 x.mesh2 %d %d%s %s", gf, len(xfaces), segLine(xfaces, false), r2(q)), res)
			}
		}
	}
}
