package main

import (
	"fmt"
	"math"

	"github.com/unixpickle/model3d/model2d"
	"github.com/unixpickle/model3d/model3d"
	"verif/harness/hlib"
)

func maxAbs3(vs ...model3d.Coord3D) float64 {
	m := 0.0
	for _, v := range vs {
		m = math.Max(m, v.Abs().MaxCoord())
	}
	return m
}

func maxAbs2(vs ...model2d.Coord) float64 {
	m := 0.0
	for _, v := range vs {
		m = math.Max(m, math.Max(math.Abs(v.X), math.Abs(v.Y)))
	}
	return m
}

// grad3 is the central-difference gradient of the SDF with step h.
func grad3(s model3d.SDF, c model3d.Coord3D, h float64) model3d.Coord3D {
	var g [3]float64
	for i := 0; i < 3; i++ {
		var d [3]float64
		d[i] = h
		dv := model3d.NewCoord3DArray(d)
		g[i] = (s.SDF(c.Add(dv)) - s.SDF(c.Sub(dv))) / (2 * h)
	}
	return model3d.NewCoord3DArray(g)
}

func grad2(s model2d.SDF, c model2d.Coord, h float64) model2d.Coord {
	var g [2]float64
	for i := 0; i < 2; i++ {
		var d [2]float64
		d[i] = h
		dv := model2d.NewCoordArray(d)
		g[i] = (s.SDF(c.Add(dv)) - s.SDF(c.Sub(dv))) / (2 * h)
	}
	return model2d.NewCoordArray(g)
}

// coneTol is the relative accuracy (in units of the largest coordinate) of Cone.SDF/PointSDF that follows
// from safeNormal's documented 1e-5 fallback: 2e-5 * 2*sqrt(3), rounded up.
const coneTol = 7e-5

// props3 evaluates the property's predicates on the real outputs for one query.
func props3(c *hlib.Ctx, name string, s sdf3, desc string, q model3d.Coord3D) {
	val := s.SDF(q)
	n, _ := s.NormalSDF(q)
	p, _ := s.PointSDF(q)
	if math.IsNaN(val) || !finite3(n) || !finite3(p) {
		c.Stat("props3/"+name+"/non-finite", 1)
		return
	}
	lo, hi := s.Min(), s.Max()
	sc := maxAbs3(q, lo, hi)
	diam := hi.Sub(lo).Norm()
	fail := func(pred, detail string) {
		c.PropFail("prop:c06/"+name+"/"+pred, fmt.Sprintf("%s at %v: %s", desc, q, detail))
	}
	c.Stat("props3/"+name, 1)
	// Cone.genericSDF finds the generator through safeNormal, which replaces a radial direction that is
	// less than 1e-5 of the distance from the base by an arbitrary one: the generator used may be the one
	// on the far side of the axis, the radial offset rho of the query is < 1e-5*|q-Base|, so distance and
	// point are off by up to 2*rho < 2e-5*|q-Base| <= 2e-5*2*sqrt(3)*sc (q and Base have coordinates <= sc).
	tol := 1e-7 * sc
	if name == "cone" {
		tol = coneTol * sc
	}
	if d := q.Dist(p); math.Abs(d-math.Abs(val)) > tol {
		fail("nearest-point-not-at-reported-distance", fmt.Sprintf("|q-p|=%v |sdf|=%v p=%v", d, math.Abs(val), p))
	}
	if sp := s.SDF(p); math.Abs(sp) > tol {
		fail("nearest-point-not-on-surface", fmt.Sprintf("sdf(p)=%v p=%v", sp, p))
	}
	if val > 1e-9*sc && !s.Contains(q) {
		fail("positive-but-not-contained", fmt.Sprintf("sdf=%v", val))
	}
	if val < -1e-9*sc && s.Contains(q) {
		fail("negative-but-contained", fmt.Sprintf("sdf=%v", val))
	}
	if math.Abs(n.Norm()-1) > 1e-9 {
		fail("normal-not-unit", fmt.Sprintf("n=%v |n|=%v", n, n.Norm()))
	}
	// Smoothness of the surface around the nearest point: the normals reported around p agree.
	hs := 1e-4 * diam
	smooth := true
	maxVar := 0.0
	for i := 0; i < 3 && smooth; i++ {
		for _, sgn := range []float64{-1, 1} {
			var d [3]float64
			d[i] = sgn * hs
			n1, _ := s.NormalSDF(p.Add(model3d.NewCoord3DArray(d)))
			maxVar = math.Max(maxVar, n1.Dist(n))
			if n1.Dist(n) > 0.02 {
				smooth = false
				break
			}
		}
	}
	if !smooth || math.Abs(val) < 1e-3*diam {
		c.Stat("props3/"+name+"/gradient-skipped", 1)
		return
	}
	h := 1e-5 * math.Max(sc, diam)
	g1 := grad3(s, q, h)
	g2 := grad3(s, q, 2*h)
	if g1.Dist(g2) > 1e-5 || math.Abs(g1.Norm()-1) > 1e-4 {
		c.Stat("props3/"+name+"/gradient-unreliable", 1)
		return
	}
	c.Stat("props3/"+name+"/gradient-checked", 1)
	// the reported normals vary by maxVar around the nearest point (curvature, or a nearly flat
	// apex/crease), so "normal = -gradient" is only meaningful to that accuracy
	gtol := 1e-4 + 2*maxVar
	if e := g1.Add(n).Norm(); e > gtol {
		fail("normal-is-not-minus-gradient", fmt.Sprintf("normal=%v -grad=%v |diff|=%v nearest=%v", n, g1.Scale(-1), e, p))
	}
	if e := q.Sub(p).Add(n.Scale(val)).Norm(); e > 1e-6*sc+gtol*math.Abs(val) {
		fail("normal-not-parallel-to-offset", fmt.Sprintf("q-p=%v sdf=%v normal=%v", q.Sub(p), val, n))
	}
}

func lipschitz3(c *hlib.Ctx, name string, s sdf3, desc string, qs []model3d.Coord3D) {
	for i := 0; i+1 < len(qs); i++ {
		a, b := qs[i], qs[i+1]
		va, vb := s.SDF(a), s.SDF(b)
		if math.IsNaN(va + vb) {
			continue
		}
		sc := maxAbs3(a, b, s.Min(), s.Max())
		slack := 1e-9 * sc
		if name == "cone" {
			// both values carry the safeNormal inaccuracy of Cone.genericSDF (see props3)
			slack = 2 * coneTol * sc
		}
		if d := a.Dist(b); math.Abs(va-vb) > d*(1+1e-9)+slack {
			c.PropFail("prop:c06/"+name+"/not-1-lipschitz",
				fmt.Sprintf("%s: sdf(%v)=%v sdf(%v)=%v |a-b|=%v", desc, a, va, b, vb, d))
		}
		c.Stat("lipschitz3/"+name, 1)
	}
}

func props2(c *hlib.Ctx, name string, s sdf2, desc string, q model2d.Coord) {
	val := s.SDF(q)
	n, _ := s.NormalSDF(q)
	p, _ := s.PointSDF(q)
	if math.IsNaN(val + n.X + n.Y + p.X + p.Y) {
		c.Stat("props2/"+name+"/non-finite", 1)
		return
	}
	lo, hi := s.Min(), s.Max()
	sc := maxAbs2(q, lo, hi)
	diam := hi.Sub(lo).Norm()
	fail := func(pred, detail string) {
		c.PropFail("prop:c06/"+name+"/"+pred, fmt.Sprintf("%s at %v: %s", desc, q, detail))
	}
	c.Stat("props2/"+name, 1)
	if d := q.Dist(p); math.Abs(d-math.Abs(val)) > 1e-7*sc {
		fail("nearest-point-not-at-reported-distance", fmt.Sprintf("|q-p|=%v |sdf|=%v p=%v", d, math.Abs(val), p))
	}
	if sp := s.SDF(p); math.Abs(sp) > 1e-7*sc {
		fail("nearest-point-not-on-surface", fmt.Sprintf("sdf(p)=%v p=%v", sp, p))
	}
	if val > 1e-9*sc && !s.Contains(q) {
		fail("positive-but-not-contained", fmt.Sprintf("sdf=%v", val))
	}
	if val < -1e-9*sc && s.Contains(q) {
		fail("negative-but-contained", fmt.Sprintf("sdf=%v", val))
	}
	if math.Abs(n.Norm()-1) > 1e-9 {
		fail("normal-not-unit", fmt.Sprintf("n=%v |n|=%v", n, n.Norm()))
	}
	hs := 1e-4 * diam
	smooth := true
	maxVar := 0.0
	for i := 0; i < 2 && smooth; i++ {
		for _, sgn := range []float64{-1, 1} {
			var d [2]float64
			d[i] = sgn * hs
			n1, _ := s.NormalSDF(p.Add(model2d.NewCoordArray(d)))
			maxVar = math.Max(maxVar, n1.Dist(n))
			if n1.Dist(n) > 0.02 {
				smooth = false
				break
			}
		}
	}
	if !smooth || math.Abs(val) < 1e-3*diam {
		c.Stat("props2/"+name+"/gradient-skipped", 1)
		return
	}
	h := 1e-5 * math.Max(sc, diam)
	g1 := grad2(s, q, h)
	g2 := grad2(s, q, 2*h)
	if g1.Dist(g2) > 1e-5 || math.Abs(g1.Norm()-1) > 1e-4 {
		c.Stat("props2/"+name+"/gradient-unreliable", 1)
		return
	}
	c.Stat("props2/"+name+"/gradient-checked", 1)
	// the reported normals vary by maxVar around the nearest point (curvature, or a nearly flat
	// apex/crease), so "normal = -gradient" is only meaningful to that accuracy
	gtol := 1e-4 + 2*maxVar
	if e := g1.Add(n).Norm(); e > gtol {
		fail("normal-is-not-minus-gradient", fmt.Sprintf("normal=%v -grad=%v |diff|=%v nearest=%v", n, g1.Scale(-1), e, p))
	}
	if e := q.Sub(p).Add(n.Scale(val)).Norm(); e > 1e-6*sc+gtol*math.Abs(val) {
		fail("normal-not-parallel-to-offset", fmt.Sprintf("q-p=%v sdf=%v normal=%v", q.Sub(p), val, n))
	}
}

func lipschitz2(c *hlib.Ctx, name string, s sdf2, desc string, qs []model2d.Coord) {
	for i := 0; i+1 < len(qs); i++ {
		a, b := qs[i], qs[i+1]
		va, vb := s.SDF(a), s.SDF(b)
		if math.IsNaN(va + vb) {
			continue
		}
		sc := maxAbs2(a, b, s.Min(), s.Max())
		if d := a.Dist(b); math.Abs(va-vb) > d*(1+1e-9)+1e-9*sc {
			c.PropFail("prop:c06/"+name+"/not-1-lipschitz",
				fmt.Sprintf("%s: sdf(%v)=%v sdf(%v)=%v |a-b|=%v", desc, a, va, b, vb, d))
		}
		c.Stat("lipschitz2/"+name, 1)
	}
}

// segment direction: general, axis aligned, or with a huge aspect ratio against the radius
func (g gen) segDir3(scale float64) model3d.Coord3D {
	for {
		v := g.vec3(scale)
		if v.Norm() > 1e-6*scale {
			return v
		}
	}
}

func (g gen) segDir2(scale float64) model2d.Coord {
	for {
		v := g.vec2(scale)
		if v.Norm() > 1e-6*scale {
			return v
		}
	}
}

// radiusFor gives a radius relative to a length: comparable, much smaller or much larger.
func (g gen) radiusFor(length float64) float64 {
	switch g.i(6) {
	case 0:
		return length * 1e-3 * g.pos(1)
	case 1:
		return length * 1e3 * g.pos(1)
	default:
		return length * g.pos(1.5)
	}
}

func runShapes3(c *hlib.Ctx, g gen, n int) {
	per := 6 // queries per shape instance
	shapes := n/per + 1
	for i := 0; i < shapes; i++ {
		sc := g.scale()

		// Sphere
		{
			s := &model3d.Sphere{Center: g.vec3(sc), Radius: g.pos(sc)}
			desc := fmt.Sprintf("Sphere%+v", *s)
			qs := g.queries3(s, []model3d.Coord3D{s.Center}, [][2]model3d.Coord3D{{s.Center, s.Center.Add(model3d.X(s.Radius))}}, per)
			for _, q := range qs {
				c.Emit("c06 b.sphere "+h3(s.Center)+" "+hx(s.Radius)+" "+h3(q),
					hlib.Guard(func() string { return hx(s.SDF(q)) })+" "+out3(c, "sphere", s, q))
				props3(c, "sphere", s, desc, q)
			}
			lipschitz3(c, "sphere", s, desc, qs)
		}

		// Rect
		{
			lo := g.vec3(sc)
			size := model3d.XYZ(g.pos(sc), g.pos(sc), g.pos(sc))
			if g.i(5) == 0 {
				size = model3d.XYZ(sc*1e3*g.pos(1), sc*1e-3*g.pos(1), sc*g.pos(1))
			}
			s := &model3d.Rect{MinVal: lo, MaxVal: lo.Add(size)}
			hi := s.MaxVal
			mid := lo.Mid(hi)
			desc := fmt.Sprintf("Rect%+v", *s)
			special := []model3d.Coord3D{mid, lo, hi, model3d.XYZ(lo.X, mid.Y, mid.Z), model3d.XYZ(hi.X, hi.Y, mid.Z),
				model3d.XYZ(mid.X, lo.Y, hi.Z), model3d.XYZ(lo.X, hi.Y, lo.Z)}
			axes := [][2]model3d.Coord3D{{lo, hi}, {mid, model3d.XYZ(hi.X, mid.Y, mid.Z)}, {model3d.XYZ(lo.X, lo.Y, mid.Z), model3d.XYZ(lo.X, hi.Y, mid.Z)}}
			qs := g.queries3(s, special, axes, per)
			for _, q := range qs {
				c.Emit("c06 b.rect3 "+h3(lo)+" "+h3(hi)+" "+h3(q), out3(c, "rect3", s, q))
				props3(c, "rect3", s, desc, q)
				if s.Contains(q) {
					c.Stat("rect3/inside", 1)
				} else {
					c.Stat("rect3/outside", 1)
				}
			}
			lipschitz3(c, "rect3", s, desc, qs)
		}

		// Capsule and Cylinder share the parameters
		{
			p1 := g.vec3(sc)
			v := g.segDir3(sc)
			p2 := p1.Add(v)
			r := g.radiusFor(v.Norm())
			cap := &model3d.Capsule{P1: p1, P2: p2, Radius: r}
			cyl := &model3d.Cylinder{P1: p1, P2: p2, Radius: r}
			special := []model3d.Coord3D{p1, p2, p1.Mid(p2)}
			axes := [][2]model3d.Coord3D{{p1, p2}}
			b1, _ := v.OrthoBasis()
			// rim points and points beside the end caps
			special = append(special, p1.Add(b1.Scale(r)), p2.Add(b1.Scale(r*0.5)), p1.Add(b1.Scale(r*2)).Sub(v.Scale(0.1)))
			desc := fmt.Sprintf("Capsule%+v", *cap)
			qs := g.queries3(cap, special, axes, per)
			for _, q := range qs {
				c.Emit("c06 b.caps3 "+h3(p1)+" "+h3(p2)+" "+hx(r)+" "+h3(q), out3(c, "capsule3", cap, q))
				props3(c, "capsule3", cap, desc, q)
			}
			lipschitz3(c, "capsule3", cap, desc, qs)
			desc = fmt.Sprintf("Cylinder%+v", *cyl)
			qs = g.queries3(cyl, special, axes, per)
			for _, q := range qs {
				c.Emit("c06 b.cyl "+h3(p1)+" "+h3(p2)+" "+hx(r)+" "+h3(q), out3(c, "cylinder", cyl, q))
				props3(c, "cylinder", cyl, desc, q)
			}
			lipschitz3(c, "cylinder", cyl, desc, qs)
		}

		// Cone
		{
			base := g.vec3(sc)
			v := g.segDir3(sc)
			tip := base.Add(v)
			r := g.radiusFor(v.Norm())
			s := &model3d.Cone{Tip: tip, Base: base, Radius: r}
			b1, _ := v.OrthoBasis()
			special := []model3d.Coord3D{tip, base, tip.Mid(base), base.Add(b1.Scale(r)),
				base.Add(b1.Scale(r)).Mid(tip), base.Add(b1.Scale(2 * r)).Add(v.Scale(0.5)), base.Add(b1.Scale(r * 0.5)).Sub(v.Scale(0.3))}
			axes := [][2]model3d.Coord3D{{base, tip}, {base.Add(b1.Scale(r)), tip}}
			desc := fmt.Sprintf("Cone%+v", *s)
			qs := g.queries3(s, special, axes, per)
			if i == 0 {
				// the documented example of DESIGN §5 F6
				s = &model3d.Cone{Tip: model3d.Z(4), Base: model3d.Coord3D{}, Radius: 1}
				tip, base, r = s.Tip, s.Base, s.Radius
				desc = fmt.Sprintf("Cone%+v", *s)
				qs = []model3d.Coord3D{model3d.XYZ(2, 0, 2), model3d.XYZ(0, 3, 1), model3d.XYZ(0.25, 0, 1), model3d.XYZ(0, 0, 5), model3d.XYZ(0.5, 0.5, -1)}
			}
			for _, q := range qs {
				c.Emit("c06 b.cone "+h3(tip)+" "+h3(base)+" "+hx(r)+" "+h3(q), out3(c, "cone", s, q))
				props3(c, "cone", s, desc, q)
			}
			lipschitz3(c, "cone", s, desc, qs)
		}

		// Torus
		{
			center := g.vec3(sc)
			axis := g.segDir3([]float64{1, sc, 1e-3, 50}[g.i(4)])
			outer := g.pos(sc)
			inner := outer * g.pos(1) * 0.95
			if g.i(5) == 0 {
				inner = outer * 1e-3
			}
			s := &model3d.Torus{Center: center, Axis: axis, OuterRadius: outer, InnerRadius: inner}
			b1, b2 := axis.OrthoBasis()
			ring := center.Add(b1.Scale(outer))
			special := []model3d.Coord3D{center, ring, center.Add(b2.Scale(outer)), center.Add(b1.Scale(outer + inner)),
				center.Add(b1.Scale(outer - inner)), ring.Add(axis.Normalize().Scale(inner))}
			axes := [][2]model3d.Coord3D{{center, center.Add(axis.Normalize().Scale(outer))}, {center, ring}}
			desc := fmt.Sprintf("Torus%+v", *s)
			qs := g.queries3(s, special, axes, per)
			for _, q := range qs {
				c.Emit("c06 b.torus "+h3(center)+" "+h3(axis)+" "+hx(outer)+" "+hx(inner)+" "+h3(q), out3(c, "torus", s, q))
				props3(c, "torus", s, desc, q)
			}
			lipschitz3(c, "torus", s, desc, qs)
		}
	}
}

func runShapes2(c *hlib.Ctx, g gen, n int) {
	per := 6
	shapes := n/per + 1
	for i := 0; i < shapes; i++ {
		sc := g.scale()
		{
			s := &model2d.Circle{Center: g.vec2(sc), Radius: g.pos(sc)}
			desc := fmt.Sprintf("Circle%+v", *s)
			qs := g.queries2(s, []model2d.Coord{s.Center, s.Center.Add(model2d.X(s.Radius))}, per)
			for _, q := range qs {
				c.Emit("c06 b.circle "+h2(s.Center)+" "+hx(s.Radius)+" "+h2(q),
					hlib.Guard(func() string { return hx(s.SDF(q)) })+" "+out2(c, "circle", s, q))
				props2(c, "circle", s, desc, q)
			}
			lipschitz2(c, "circle", s, desc, qs)
		}
		{
			lo := g.vec2(sc)
			size := model2d.XY(g.pos(sc), g.pos(sc))
			if g.i(5) == 0 {
				size = model2d.XY(sc*1e3*g.pos(1), sc*1e-3*g.pos(1))
			}
			s := &model2d.Rect{MinVal: lo, MaxVal: lo.Add(size)}
			hi := s.MaxVal
			mid := lo.Mid(hi)
			desc := fmt.Sprintf("Rect2%+v", *s)
			special := []model2d.Coord{mid, lo, hi, model2d.XY(lo.X, mid.Y), model2d.XY(mid.X, hi.Y), model2d.XY(hi.X, lo.Y)}
			qs := g.queries2(s, special, per)
			for _, q := range qs {
				c.Emit("c06 b.rect2 "+h2(lo)+" "+h2(hi)+" "+h2(q), out2(c, "rect2", s, q))
				props2(c, "rect2", s, desc, q)
			}
			lipschitz2(c, "rect2", s, desc, qs)
		}
		{
			p1 := g.vec2(sc)
			v := g.segDir2(sc)
			p2 := p1.Add(v)
			r := g.radiusFor(v.Norm())
			s := &model2d.Capsule{P1: p1, P2: p2, Radius: r}
			desc := fmt.Sprintf("Capsule2%+v", *s)
			perp := model2d.XY(-v.Y, v.X).Normalize()
			special := []model2d.Coord{p1, p2, p1.Mid(p2), p1.Add(perp.Scale(r)), p1.Add(v.Scale(0.25)), p2.Add(v.Scale(0.5))}
			qs := g.queries2(s, special, per)
			for _, q := range qs {
				c.Emit("c06 b.caps2 "+h2(p1)+" "+h2(p2)+" "+hx(r)+" "+h2(q), out2(c, "capsule2", s, q))
				props2(c, "capsule2", s, desc, q)
			}
			lipschitz2(c, "capsule2", s, desc, qs)
		}
		{
			// 2-D triangle (non-degenerate: NewTriangle takes the plain inverse)
			var p [3]model2d.Coord
			for {
				p = [3]model2d.Coord{g.vec2(sc), g.vec2(sc), g.vec2(sc)}
				v1, v2 := p[1].Sub(p[0]), p[2].Sub(p[0])
				det := v1.X*v2.Y - v2.X*v1.Y
				if math.Abs(det) > 1e-3*math.Sqrt(v1.NormSquared()*v2.NormSquared()) && v1.Norm() > 0 && v2.Norm() > 0 {
					break
				}
			}
			s := model2d.NewTriangle(p[0], p[1], p[2])
			desc := fmt.Sprintf("Triangle2%v", p)
			special := []model2d.Coord{p[0], p[1], p[2], p[0].Mid(p[1]), p[1].Mid(p[2]), p[0].Add(p[1]).Add(p[2]).Scale(1.0 / 3),
				p[0].Add(p[0].Sub(p[1].Mid(p[2])))}
			qs := g.queries2(s, special, per)
			for _, q := range qs {
				impl := hlib.Guard(func() string {
					b, _ := s.BarycentricSDF(q)
					return out2(c, "triangle2", s, q) + " " + hxs(b[0], b[1], b[2])
				})
				c.Emit("c06 b.tri2 "+h2(p[0])+" "+h2(p[1])+" "+h2(p[2])+" "+h2(q), impl)
				props2(c, "triangle2", s, desc, q)
			}
			lipschitz2(c, "triangle2", s, desc, qs)
		}
	}
}
