package main

// 3-D triangles with a repeated corner (collapsed to a segment: what vertex merging / decimation leaves
// behind), alone and as slivers inside a mesh.  Triangle.Dist / Triangle.Closest run their edge loops
// from +Inf with `d < result`; the zero-length edge has a NaN distance and is skipped, the normal is
// NaN and the in-plane shortcut is not taken (lean/M3d/Model/SdfTriDeg.lean; theorem
// triangle_repeated_corner_dist_exact: the answer is the distance to / nearest point of the remaining
// edge, mesh_sdf_exhaustive_min_slivers: a mesh with such slivers still reports the exhaustive minimum).

import (
	"fmt"
	"math"
	"strings"

	"github.com/unixpickle/model3d/model3d"
	"verif/harness/hlib"
)

// collapsed returns the triangle with corners a, b in one of the four orders with a repeated corner.
func collapsed(a, b model3d.Coord3D, ord int) [3]model3d.Coord3D {
	if ord == 4 {
		// all three corners are one point
		return [3]model3d.Coord3D{a, a, a}
	}
	switch ord % 4 {
	case 0:
		return [3]model3d.Coord3D{a, a, b}
	case 1:
		return [3]model3d.Coord3D{a, b, b}
	case 2:
		return [3]model3d.Coord3D{a, b, a}
	default:
		return [3]model3d.Coord3D{b, a, a}
	}
}

var ordNames = []string{"aab", "abb", "aba", "baa", "aaa"}

// drawOrd picks one of the four orders with two equal corners, or (1 in 6) the triangle that is a point.
func (g gen) drawOrd() int {
	if g.i(6) == 0 {
		return 4
	}
	return g.i(4)
}

// segQueries draws queries around the segment a b: on its line (inside, at the ends, beyond), next to
// it, a hair off it, in general position and far away.
func segQueries(g gen, a, b model3d.Coord3D, k int) []model3d.Coord3D {
	v := b.Sub(a)
	l := v.Norm()
	var res []model3d.Coord3D
	for j := 0; j < k; j++ {
		var q model3d.Coord3D
		switch g.i(7) {
		case 0:
			q = a.Add(v.Scale(float64(g.i(9)-2) / 4))
		case 1:
			q = []model3d.Coord3D{a, b, a.Mid(b)}[g.i(3)]
		case 2:
			q = a.Add(v.Scale(g.c.Rng.Float64())).Add(g.vec3(l * 1e-9))
		case 3:
			q = a.Add(v.Scale(g.c.Rng.Float64()*3 - 1)).Add(g.vec3(l * 100))
		case 4:
			// beyond one of the ends
			e := []model3d.Coord3D{a, b}[g.i(2)]
			q = e.Add(g.vec3(l))
		default:
			q = a.Add(v.Scale(g.c.Rng.Float64()*2 - 0.5)).Add(g.vec3(l))
		}
		res = append(res, q)
	}
	return res
}

func isNum(x float64) bool { return !math.IsNaN(x) && !math.IsInf(x, 0) }

// triDegPredicates evaluates the property directly on the real outputs for a triangle whose point set
// is the segment a b.
func triDegPredicates(c *hlib.Ctx, g gen, site string, t [3]model3d.Coord3D, a, b, q model3d.Coord3D) {
	tr := model3d.Triangle(t)
	d := tr.Dist(q)
	cl := tr.Closest(q)
	seg := model3d.NewSegment(a, b)
	tol := 1e-9 * maxAbs3(a, b, q)
	if !isNum(d) {
		c.PropFail("prop:c06/"+site+"/dist-is-not-a-number", fmt.Sprintf("triangle %v query %v: Dist %v", t, q, d))
		return
	}
	if !finite3(cl) {
		c.PropFail("prop:c06/"+site+"/closest-is-not-a-point", fmt.Sprintf("triangle %v query %v: Closest %v", t, q, cl))
		return
	}
	if math.Abs(d-seg.Dist(q)) > 100*tol {
		c.PropFail("prop:c06/"+site+"/dist-differs-from-remaining-edge", fmt.Sprintf("triangle %v query %v: Dist %v, segment %v", t, q, d, seg.Dist(q)))
	}
	if math.Abs(cl.Dist(q)-d) > 100*tol {
		c.PropFail("prop:c06/"+site+"/dist-differs-from-closest", fmt.Sprintf("triangle %v query %v: Closest %v at %v but Dist %v", t, q, cl, cl.Dist(q), d))
	}
	v := b.Sub(a)
	for k := 0; k <= 8; k++ {
		p := a.Add(v.Scale(float64(k) / 8))
		if p.Dist(q) < d-100*tol {
			c.PropFail("prop:c06/"+site+"/dist-not-the-minimum", fmt.Sprintf("triangle %v query %v: Dist %v but %v is at %v", t, q, d, p, p.Dist(q)))
		}
	}
	// the reported point is on the segment
	if seg.Dist(cl) > 100*tol {
		c.PropFail("prop:c06/"+site+"/closest-not-on-triangle", fmt.Sprintf("triangle %v query %v: Closest %v", t, q, cl))
	}
}

// triPointPredicates: the triangle {a, a, a} is the point a.
func triPointPredicates(c *hlib.Ctx, t [3]model3d.Coord3D, a, q model3d.Coord3D) {
	tr := model3d.Triangle(t)
	d := tr.Dist(q)
	cl := tr.Closest(q)
	tol := 1e-9 * maxAbs3(a, q)
	if !isNum(d) || math.Abs(d-a.Dist(q)) > 100*tol {
		c.PropFail("prop:c06/triangle3p/dist-is-not-the-distance-to-the-point", fmt.Sprintf("triangle %v query %v: Dist %v, the point is at %v", t, q, d, a.Dist(q)))
	}
	if cl != a {
		c.PropFail("prop:c06/triangle3p/closest-is-not-the-point", fmt.Sprintf("triangle %v query %v: Closest %v", t, q, cl))
	}
}

func runTriDeg(c *hlib.Ctx, g gen, n int) {
	for i := 0; i < n; i++ {
		sc := g.scale()
		// (1) bits mode: a collapsed triangle, four corner orders
		{
			a := g.vec3(sc)
			b := a.Add(g.segDir3(sc))
			ord := g.drawOrd()
			t := collapsed(a, b, ord)
			tr := model3d.Triangle(t)
			c.Stat("tri3d/"+ordNames[ord], 1)
			for _, q := range segQueries(g, a, b, 3) {
				impl := hlib.Guard(func() string { return h3(tr.Closest(q)) + " " + hx(tr.Dist(q)) })
				c.Emit("c06 b.tri3d "+h3(t[0])+" "+h3(t[1])+" "+h3(t[2])+" "+h3(q), impl)
				if ord == 4 {
					triPointPredicates(c, t, a, q)
					continue
				}
				triDegPredicates(c, g, "triangle3d", t, a, b, q)
				switch tr.Closest(q) {
				case a, b:
					c.Stat("tri3d/closest-is-a-corner", 1)
				default:
					c.Stat("tri3d/closest-inside-the-edge", 1)
				}
			}
		}
		// (2) bits mode: three different corners on a line (dyadic, so that the cross product is exactly
		// 0 and the normal NaN): all three edges have a distance
		if i%4 == 0 {
			a := g.dy3(4, 2)
			var v model3d.Coord3D
			for {
				v = g.dy3(2, 2)
				if v.Norm() > 0 {
					break
				}
			}
			k := []float64{2, -1, 3, 0.5}[g.i(4)]
			t := [3]model3d.Coord3D{a, a.Add(v), a.Add(v.Scale(k))}
			if g.i(2) == 0 {
				t[0], t[2] = t[2], t[0]
			}
			tr := model3d.Triangle(t)
			nrm := tr.Normal()
			if math.IsNaN(nrm.X) {
				c.Stat("tri3d/collinear-nan-normal", 1)
				// the two extreme corners
				lo, hi := t[0], t[0]
				for _, p := range t[1:] {
					if p.Sub(a).Dot(v) < lo.Sub(a).Dot(v) {
						lo = p
					}
					if p.Sub(a).Dot(v) > hi.Sub(a).Dot(v) {
						hi = p
					}
				}
				for _, q := range segQueries(g, lo, hi, 2) {
					impl := hlib.Guard(func() string { return h3(tr.Closest(q)) + " " + hx(tr.Dist(q)) })
					c.Emit("c06 b.tri3d "+h3(t[0])+" "+h3(t[1])+" "+h3(t[2])+" "+h3(q), impl)
					triDegPredicates(c, g, "triangle3c", t, lo, hi, q)
				}
			}
		}
		// (3) exact mode: dyadic collapsed triangle; which corner is returned (exactly) and, there, Dist =
		// the correctly rounded root of the exact squared distance; otherwise Dist must be a number
		{
			a := g.dy3(4, 2)
			var b model3d.Coord3D
			for {
				b = g.dy3(4, 2)
				if b != a {
					break
				}
			}
			q := g.dy3(8, 2)
			if g.i(4) == 0 {
				q = a.Add(b.Sub(a).Scale(float64(g.i(9)-2) / 4))
			}
			ord := g.drawOrd()
			t := collapsed(a, b, ord)
			tr := model3d.Triangle(t)
			impl := hlib.Guard(func() string {
				p := tr.Closest(q)
				d := tr.Dist(q)
				if ord == 4 {
					c.Stat("x.tri3d/point", 1)
					if finite3(p) {
						return "e " + r3(p) + " " + hx(d)
					}
					return "e " + h3(p) + " " + hx(d)
				}
				if segBoundary(arr(a), arr(b), arr(q)) {
					c.Stat("x.tri3d/boundary", 1)
					if !isNum(d) || !finite3(p) {
						return "b " + hx(d)
					}
					return "b"
				}
				if p == a || p == b {
					c.Stat("x.tri3d/corner", 1)
					return "e " + r3(p) + " " + hx(d)
				}
				c.Stat("x.tri3d/inside-the-edge", 1)
				if isNum(d) && finite3(p) {
					return "i fin"
				}
				return "i " + hx(d) + " " + h3(p)
			})
			c.Emit("c06 x.tri3d "+r3(t[0])+" "+r3(t[1])+" "+r3(t[2])+" "+r3(q), impl)
		}
		// (4) a mesh with collapsed slivers on its edges
		if i%3 == 0 {
			runMeshSliver(c, g, sc)
		}
	}
}

func runMeshSliver(c *hlib.Ctx, g gen, sc float64) {
	var m *model3d.Mesh
	var kind string
	for {
		m, kind = meshFor(g, sc)
		if len(m.TriangleSlice()) > 0 {
			break
		}
	}
	base := m.TriangleSlice()
	nSl := 1 + g.i(3)
	type sliver struct{ a, b model3d.Coord3D }
	var slivers []sliver
	for j := 0; j < nSl; j++ {
		f := base[g.i(len(base))]
		k := g.i(3)
		a, b := f[k], f[(k+1)%3]
		if a == b {
			continue
		}
		ord := g.drawOrd()
		t := collapsed(a, b, ord)
		m.Add(&model3d.Triangle{t[0], t[1], t[2]})
		slivers = append(slivers, sliver{a, b})
		c.Stat("meshd/sliver-"+ordNames[ord], 1)
	}
	if len(slivers) == 0 {
		return
	}
	faces := m.TriangleSlice()
	model3d.GroupTriangles(faces)
	sdf := model3d.GroupedTrianglesToSDF(faces)
	sdf1 := model3d.MeshToSDF(m)
	coll := model3d.GroupedTrianglesToCollider(faces)
	idx := map[*model3d.Triangle]int{}
	var sb strings.Builder
	for j, f := range faces {
		idx[f] = j
		sb.WriteString(" " + h3(f[0]) + " " + h3(f[1]) + " " + h3(f[2]))
	}
	c.Stat("meshd/"+kind, 1)
	lo, hi := sdf.Min(), sdf.Max()
	size := hi.Sub(lo)
	plain := model3d.MeshToSDF(model3d.NewMeshTriangles(base))
	for k := 0; k < 4; k++ {
		q := lo.Add(model3d.XYZ(size.X*(g.c.Rng.Float64()*1.4-0.2), size.Y*(g.c.Rng.Float64()*1.4-0.2), size.Z*(g.c.Rng.Float64()*1.4-0.2)))
		sl := slivers[g.i(len(slivers))]
		switch g.i(5) {
		case 0:
			q = []model3d.Coord3D{sl.a, sl.b, sl.a.Mid(sl.b)}[g.i(3)]
		case 1:
			q = sl.a.Add(sl.b.Sub(sl.a).Scale(g.c.Rng.Float64())).Add(g.vec3(size.Norm() * 1e-3))
		case 2:
			q = sl.a.Add(sl.b.Sub(sl.a).Scale(g.c.Rng.Float64()*2 - 0.5)).Add(g.vec3(size.Norm() * 0.2))
		}
		count := coll.RayCollisions(&model3d.Ray{Origin: q, Direction: rayDir}, nil)
		inb := model3d.InBounds(coll, q)
		face, pt, val := sdf.FaceSDF(q)
		impl := hlib.Guard(func() string {
			v0 := sdf.SDF(q)
			p1, v1 := sdf.PointSDF(q)
			_, v2 := sdf.NormalSDF(q)
			v3 := sdf1.SDF(q)
			if hx(v0) != hx(val) || hx(v1) != hx(val) || hx(v2) != hx(val) || hx(v3) != hx(val) || h3(p1) != h3(pt) {
				c.PropFail("prop:c06/meshd/value-differs-between-entry-points", fmt.Sprintf("%s mesh with slivers at %v: %v %v %v %v %v", kind, q, val, v0, v1, v2, v3))
			}
			return hx(val) + " " + h3(pt) + " 1"
		})
		b := "0"
		if inb {
			b = "1"
		}
		c.Emit(fmt.Sprintf("c06 b.meshd %s %d %d %d%s %s", b, count, idx[face], len(faces), sb.String(), h3(q)), impl)
		if face[0] == face[1] || face[1] == face[2] || face[2] == face[0] {
			c.Stat("meshd/nearest-face-is-a-sliver", 1)
		}
		// |value| = brute-force minimum of Triangle.Dist over the faces, none of which may be NaN
		tol := 1e-9 * maxAbs3(lo, hi, q)
		brute := math.Inf(1)
		for _, f := range faces {
			d := f.Dist(q)
			if !isNum(d) {
				c.PropFail("prop:c06/meshd/face-distance-is-not-a-number", fmt.Sprintf("%s mesh with slivers at %v: face %v has Dist %v", kind, q, *f, d))
				continue
			}
			brute = math.Min(brute, d)
		}
		if math.Abs(brute-math.Abs(val)) > 100*tol {
			c.PropFail("prop:c06/meshd/not-the-minimum-over-faces", fmt.Sprintf("%s mesh with slivers at %v: |sdf|=%v but the minimum of Triangle.Dist over the faces is %v", kind, q, val, brute))
		}
		if math.Abs(pt.Dist(q)-math.Abs(val)) > tol {
			c.PropFail("prop:c06/meshd/nearest-point-not-at-reported-distance", fmt.Sprintf("%s mesh with slivers at %v", kind, q))
		}
		// the slivers add no points: the value is that of the mesh without them
		if v := plain.SDF(q); math.Abs(math.Abs(v)-math.Abs(val)) > 100*tol {
			c.PropFail("prop:c06/meshd/slivers-change-the-distance", fmt.Sprintf("%s mesh at %v: |sdf|=%v with slivers, %v without", kind, q, val, v))
		}
	}
}
