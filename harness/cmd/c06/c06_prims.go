package main

import (
	"fmt"
	"math"
	"math/big"
	"strings"

	"github.com/unixpickle/model3d/model2d"
	"github.com/unixpickle/model3d/model3d"
	"verif/harness/hlib"
)

func (g gen) tri3(sc float64) [3]model3d.Coord3D {
	for {
		t := [3]model3d.Coord3D{g.vec3(sc), g.vec3(sc), g.vec3(sc)}
		tr := model3d.Triangle(t)
		a, b := t[1].Sub(t[0]).Norm(), t[2].Sub(t[0]).Norm()
		if a > 0 && b > 0 && tr.Area() > 1e-3*a*b {
			return t
		}
	}
}

func triQueries(g gen, t [3]model3d.Coord3D, k int) []model3d.Coord3D {
	tr := model3d.Triangle(t)
	nrm := tr.Normal()
	size := t[1].Sub(t[0]).Norm() + t[2].Sub(t[0]).Norm()
	var res []model3d.Coord3D
	for j := 0; j < k; j++ {
		// barycentric coordinates inside, on an edge, at a vertex, or outside; then lifted off the plane
		var b [3]float64
		switch g.i(6) {
		case 0:
			b[g.i(3)] = 1
		case 1:
			e := g.i(3)
			u := g.c.Rng.Float64()
			b[e], b[(e+1)%3] = u, 1-u
		case 2:
			u, v := g.c.Rng.Float64(), g.c.Rng.Float64()
			if u+v > 1 {
				u, v = 1-u, 1-v
			}
			b = [3]float64{1 - u - v, u, v}
		default:
			u, v := g.c.Rng.Float64()*3-1, g.c.Rng.Float64()*3-1
			b = [3]float64{1 - u - v, u, v}
		}
		p := tr.AtBarycentric(b)
		switch g.i(4) {
		case 0:
		case 1:
			p = p.Add(nrm.Scale(size * g.f() * 1e-9))
		default:
			p = p.Add(nrm.Scale(size * g.f()))
		}
		res = append(res, p)
	}
	return res
}

func runPrims(c *hlib.Ctx, g gen, n int) {
	for i := 0; i < n; i++ {
		sc := g.scale()
		// 3-D segment
		{
			s0 := g.vec3(sc)
			v := g.segDir3(sc)
			s1 := s0.Add(v)
			seg := model3d.Segment{s0, s1}
			var q model3d.Coord3D
			switch g.i(6) {
			case 0:
				q = s0.Add(v.Scale(float64(g.i(7)-2) / 2))
			case 1:
				q = []model3d.Coord3D{s0, s1, s0.Mid(s1)}[g.i(3)]
			default:
				q = s0.Add(v.Scale(g.c.Rng.Float64()*2 - 0.5)).Add(g.vec3(v.Norm()))
			}
			impl := hlib.Guard(func() string { return h3(seg.Closest(q)) + " " + hx(seg.Dist(q)) })
			c.Emit("c06 b.seg3 "+h3(s0)+" "+h3(s1)+" "+h3(q), impl)
			cl := seg.Closest(q)
			// predicate: no sampled point of the segment is closer
			for k := 0; k <= 8; k++ {
				p := s0.Add(v.Scale(float64(k) / 8))
				if p.Dist(q) < cl.Dist(q)-1e-9*maxAbs3(s0, s1, q) {
					c.PropFail("prop:c06/segment3/closest-not-optimal", fmt.Sprintf("segment %v query %v closest %v but %v is closer", seg, q, cl, p))
				}
			}
		}
		// 2-D segment
		{
			s0 := g.vec2(sc)
			v := g.segDir2(sc)
			s1 := s0.Add(v)
			seg := model2d.Segment{s0, s1}
			var q model2d.Coord
			switch g.i(6) {
			case 0:
				q = s0.Add(v.Scale(float64(g.i(7)-2) / 2))
			case 1:
				q = []model2d.Coord{s0, s1, s0.Mid(s1)}[g.i(3)]
			default:
				q = s0.Add(v.Scale(g.c.Rng.Float64()*2 - 0.5)).Add(g.vec2(v.Norm()))
			}
			impl := hlib.Guard(func() string { return h2(seg.Closest(q)) + " " + hx(seg.Dist(q)) })
			c.Emit("c06 b.seg2 "+h2(s0)+" "+h2(s1)+" "+h2(q), impl)
			cl := seg.Closest(q)
			for k := 0; k <= 8; k++ {
				p := s0.Add(v.Scale(float64(k) / 8))
				if p.Dist(q) < cl.Dist(q)-1e-9*maxAbs2(s0, s1, q) {
					c.PropFail("prop:c06/segment2/closest-not-optimal", fmt.Sprintf("segment %v query %v closest %v but %v is closer", seg, q, cl, p))
				}
			}
		}
		// 3-D triangle
		if i%2 == 0 {
			t := g.tri3(sc)
			tr := model3d.Triangle(t)
			for _, q := range triQueries(g, t, 3) {
				impl := hlib.Guard(func() string { return h3(tr.Closest(q)) + " " + hx(tr.Dist(q)) })
				c.Emit("c06 b.tri3 "+h3(t[0])+" "+h3(t[1])+" "+h3(t[2])+" "+h3(q), impl)
				cl := tr.Closest(q)
				d := tr.Dist(q)
				tol := 1e-9 * maxAbs3(t[0], t[1], t[2], q)
				if math.Abs(cl.Dist(q)-d) > tol*100 {
					c.PropFail("prop:c06/triangle3/dist-differs-from-closest", fmt.Sprintf("triangle %v query %v Closest %v at %v but Dist %v", t, q, cl, cl.Dist(q), d))
				}
				for k := 0; k < 12; k++ {
					u, v := g.c.Rng.Float64(), g.c.Rng.Float64()
					if u+v > 1 {
						u, v = 1-u, 1-v
					}
					if k < 3 {
						u, v = []float64{0, 1, 0}[k], []float64{0, 0, 1}[k]
					}
					p := tr.AtBarycentric([3]float64{1 - u - v, u, v})
					if p.Dist(q) < cl.Dist(q)-tol*100 {
						c.PropFail("prop:c06/triangle3/closest-not-optimal", fmt.Sprintf("triangle %v query %v closest %v but %v is closer", t, q, cl, p))
					}
				}
			}
		}
	}
}

var rayDir = model3d.Coord3D{X: 0.5224892708603626, Y: 0.10494477243214506, Z: 0.43558938446126527}

func meshFor(g gen, sc float64) (*model3d.Mesh, string) {
	switch g.i(6) {
	case 0:
		lo := g.vec3(sc)
		return model3d.NewMeshRect(lo, lo.Add(model3d.XYZ(g.pos(sc), g.pos(sc), g.pos(sc)))), "rect"
	case 1:
		return model3d.NewMeshIcosahedron().Scale(g.pos(sc)).Translate(g.vec3(sc)), "icosahedron"
	case 2:
		base := g.vec3(sc)
		return model3d.NewMeshCone(base.Add(g.segDir3(sc)), base, g.pos(sc), 5+g.i(4)), "cone"
	case 3:
		p := g.vec3(sc)
		return model3d.NewMeshCylinder(p, p.Add(g.segDir3(sc)), g.pos(sc), 4+g.i(4)), "cylinder"
	default:
		// a soup of random triangles (not closed: the parity is whatever the code computes)
		m := model3d.NewMesh()
		k := 1 + g.i(12)
		for j := 0; j < k; j++ {
			t := g.tri3(sc)
			m.Add(&model3d.Triangle{t[0], t[1], t[2]})
		}
		return m, "soup"
	}
}

func runMesh(c *hlib.Ctx, g gen, n int) {
	for i := 0; i < n; i++ {
		sc := g.scale()
		m, kind := meshFor(g, sc)
		faces := m.TriangleSlice()
		model3d.GroupTriangles(faces)
		sdf := model3d.GroupedTrianglesToSDF(faces)
		sdf1 := model3d.MeshToSDF(m)
		coll := model3d.GroupedTrianglesToCollider(faces)
		idx := map[*model3d.Triangle]int{}
		var sb strings.Builder
		for j, f := range faces {
			idx[f] = j
			sb.WriteString(" " + h3(f[0]) + " " + h3(f[1]) + " " + h3(f[2]))
		}
		c.Stat("mesh/"+kind, 1)
		lo, hi := sdf.Min(), sdf.Max()
		size := hi.Sub(lo)
		for k := 0; k < 4; k++ {
			q := lo.Add(model3d.XYZ(size.X*(g.c.Rng.Float64()*1.4-0.2), size.Y*(g.c.Rng.Float64()*1.4-0.2), size.Z*(g.c.Rng.Float64()*1.4-0.2)))
			switch g.i(5) {
			case 0:
				f := faces[g.i(len(faces))]
				q = f[g.i(3)]
			case 1:
				f := faces[g.i(len(faces))]
				q = f[0].Add(f[1]).Add(f[2]).Scale(1.0 / 3).Add(f.Normal().Scale(size.Norm() * 1e-3 * g.f()))
			}
			count := coll.RayCollisions(&model3d.Ray{Origin: q, Direction: rayDir}, nil)
			inb := model3d.InBounds(coll, q)
			face, pt, val := sdf.FaceSDF(q)
			impl := hlib.Guard(func() string {
				v0 := sdf.SDF(q)
				p1, v1 := sdf.PointSDF(q)
				nrm, v2 := sdf.NormalSDF(q)
				v3 := sdf1.SDF(q)
				if hx(v0) != hx(val) || hx(v1) != hx(val) || hx(v2) != hx(val) || hx(v3) != hx(val) || h3(p1) != h3(pt) {
					c.PropFail("prop:c06/mesh/value-differs-between-entry-points", fmt.Sprintf("%s mesh at %v: %v %v %v %v %v", kind, q, val, v0, v1, v2, v3))
				}
				if h3(nrm) != h3(face.Normal()) {
					c.PropFail("prop:c06/mesh/normal-is-not-face-normal", fmt.Sprintf("%s mesh at %v", kind, q))
				}
				return hx(val) + " " + h3(pt) + " 1"
			})
			b := "0"
			if inb {
				b = "1"
			}
			c.Emit(fmt.Sprintf("c06 b.mesh %s %d %d %d%s %s", b, count, idx[face], len(faces), sb.String(), h3(q)), impl)
			if (val > 0) != (inb && count%2 == 1) && val != 0 {
				c.PropFail("prop:c06/mesh/sign-is-not-parity", fmt.Sprintf("%s mesh at %v: sdf=%v inBounds=%v collisions=%d", kind, q, val, inb, count))
			}
			if count%2 == 1 {
				c.Stat("mesh/odd", 1)
			} else {
				c.Stat("mesh/even", 1)
			}
			// the nearest point is at the reported distance and no vertex / centroid is closer
			tol := 1e-9 * maxAbs3(lo, hi, q)
			if math.Abs(pt.Dist(q)-math.Abs(val)) > tol {
				c.PropFail("prop:c06/mesh/nearest-point-not-at-reported-distance", fmt.Sprintf("%s mesh at %v", kind, q))
			}
			for _, f := range faces {
				for _, p := range []model3d.Coord3D{f[0], f[1], f[2], f[0].Add(f[1]).Add(f[2]).Scale(1.0 / 3)} {
					if p.Dist(q) < math.Abs(val)-100*tol {
						c.PropFail("prop:c06/mesh/not-the-minimum-over-faces", fmt.Sprintf("%s mesh at %v: |sdf|=%v but %v is at %v", kind, q, val, p, p.Dist(q)))
					}
				}
			}
		}
	}
}

func runProfile(c *hlib.Ctx, g gen, n int) {
	for i := 0; i < n/3+1; i++ {
		sc := g.scale()
		var s2 model2d.PointSDF
		var name string
		switch g.i(4) {
		case 0:
			s2, name = &model2d.Circle{Center: g.vec2(sc), Radius: g.pos(sc)}, "circle"
		case 1:
			lo := g.vec2(sc)
			s2, name = &model2d.Rect{MinVal: lo, MaxVal: lo.Add(model2d.XY(g.pos(sc), g.pos(sc)))}, "rect"
		case 2:
			p1 := g.vec2(sc)
			s2, name = &model2d.Capsule{P1: p1, P2: p1.Add(g.segDir2(sc)), Radius: g.pos(sc)}, "capsule"
		default:
			ce := g.vec2(sc)
			m := model2d.NewMeshPolar(func(t float64) float64 { return sc * (1 + 0.3*math.Cos(3*t)) }, 12).Translate(ce)
			s2, name = model2d.MeshToSDF(m), "mesh"
		}
		minZ := sc * g.f()
		maxZ := minZ + g.pos(sc)
		if g.i(6) == 0 {
			maxZ = minZ + sc*1e-3
		}
		prof := model3d.ProfilePointSDF(s2, minZ, maxZ)
		prof1 := model3d.ProfileSDF(s2, minZ, maxZ)
		lo, hi := prof.Min(), prof.Max()
		size := hi.Sub(lo)
		c.Stat("profile/"+name, 1)
		for k := 0; k < 3; k++ {
			q := lo.Add(model3d.XYZ(size.X*(g.c.Rng.Float64()*1.6-0.3), size.Y*(g.c.Rng.Float64()*1.6-0.3), size.Z*(g.c.Rng.Float64()*2-0.5)))
			switch g.i(6) {
			case 0:
				q.Z = minZ
			case 1:
				q.Z = maxZ
			case 2:
				q.Z = (minZ + maxZ) / 2
			}
			p2, s := s2.PointSDF(q.XY())
			impl := hlib.Guard(func() string {
				v := prof1.SDF(q)
				p, v1 := prof.PointSDF(q)
				if hx(prof.SDF(q)) != hx(v) {
					c.PropFail("prop:c06/profile/value-differs-between-entry-points", fmt.Sprintf("profile of %s at %v", name, q))
				}
				tol := 1e-9 * maxAbs3(lo, hi, q)
				if math.Abs(p.Dist(q)-math.Abs(v1)) > tol {
					c.PropFail("prop:c06/profile/nearest-point-not-at-reported-distance", fmt.Sprintf("profile of %s z=[%v,%v] at %v: point %v value %v", name, minZ, maxZ, q, p, v1))
				}
				inside := s > 0 && q.Z >= minZ && q.Z <= maxZ
				if (v > 0) != inside && math.Abs(v) > tol {
					c.PropFail("prop:c06/profile/sign", fmt.Sprintf("profile of %s z=[%v,%v] at %v: value %v", name, minZ, maxZ, q, v))
				}
				return hx(v) + " " + hx(v1) + " " + h3(p)
			})
			c.Emit("c06 b.prof "+hxs(minZ, maxZ)+" "+h2(p2)+" "+hx(s)+" "+h3(q), impl)
			if q.Z >= minZ && q.Z <= maxZ {
				c.Stat("profile/insideZ", 1)
			} else {
				c.Stat("profile/outsideZ", 1)
			}
		}
	}
}

func runColliderSDF(c *hlib.Ctx, g gen, n int) {
	for i := 0; i < n; i++ {
		sc := g.scale()
		var coll interface {
			model3d.Collider
			model3d.SDF
		}
		switch g.i(3) {
		case 0:
			coll = &model3d.Sphere{Center: g.vec3(sc), Radius: g.pos(sc)}
		case 1:
			lo := g.vec3(sc)
			coll = &model3d.Rect{MinVal: lo, MaxVal: lo.Add(model3d.XYZ(g.pos(sc), g.pos(sc), g.pos(sc)))}
		default:
			p := g.vec3(sc)
			coll = &model3d.Capsule{P1: p, P2: p.Add(g.segDir3(sc)), Radius: g.pos(sc)}
		}
		iters := []int{0, 1, 5, 32, 40}[g.i(5)]
		s := model3d.ColliderToSDF(coll, iters)
		if iters == 0 {
			iters = 32
		}
		lo, hi := coll.Min(), coll.Max()
		size := hi.Sub(lo)
		q := lo.Add(model3d.XYZ(size.X*(g.c.Rng.Float64()*2-0.5), size.Y*(g.c.Rng.Float64()*2-0.5), size.Z*(g.c.Rng.Float64()*2-0.5)))
		exact := coll.SDF(q)
		contains := model3d.NewColliderSolid(coll).Contains(q)
		b := "0"
		if contains {
			b = "1"
		}
		v := s.SDF(q)
		c.Emit(fmt.Sprintf("c06 b.coll %d %s %s", iters, b, hx(exact)), hx(v))
		if iters >= 32 && math.Abs(v-exact) > 1e-6*math.Max(1, math.Abs(exact)) && math.Abs(exact) > 1e-9 && math.Abs(exact) < 1e9 {
			c.PropFail("prop:c06/collidersdf/bisection-far-from-exact", fmt.Sprintf("%T%+v at %v: ColliderToSDF=%v exact=%v", coll, coll, q, v, exact))
		}
	}
}

// ---------------------------------------------------------------------------------------------
// exact mode

func ratOf(x float64) *big.Rat { return new(big.Rat).SetFloat64(x) }

func sqDistRat(a, b []float64) *big.Rat {
	s := new(big.Rat)
	for i := range a {
		d := new(big.Rat).Sub(ratOf(a[i]), ratOf(b[i]))
		s.Add(s, d.Mul(d, d))
	}
	return s
}

func (g gen) dy3(span int, bits uint) model3d.Coord3D {
	return model3d.XYZ(g.c.Dyadic(span, bits), g.c.Dyadic(span, bits), g.c.Dyadic(span, bits))
}
func (g gen) dy2(span int, bits uint) model2d.Coord {
	return model2d.XY(g.c.Dyadic(span, bits), g.c.Dyadic(span, bits))
}

func faceOf(n []float64) string {
	for i, x := range n {
		if x == 1 {
			return fmt.Sprintf("%d 1", i)
		} else if x == -1 {
			return fmt.Sprintf("%d 0", i)
		}
	}
	return "none"
}

func runExact(c *hlib.Ctx, g gen, n int) {
	for i := 0; i < n; i++ {
		// Rect 3-D
		{
			lo := g.dy3(4, 3)
			hi := lo.Add(model3d.XYZ(float64(1+g.i(32))/8, float64(1+g.i(32))/8, float64(1+g.i(32))/8))
			s := &model3d.Rect{MinVal: lo, MaxVal: hi}
			q := g.dy3(6, 4)
			switch g.i(5) {
			case 0:
				q = lo.Mid(hi) // exact centre: all faces tie along the shortest axis
			case 1:
				q = model3d.XYZ(lo.X, g.c.Dyadic(6, 4), hi.Z) // on an edge line
			case 2:
				q = lo.Add(hi.Sub(lo).Mul(model3d.XYZ(float64(g.i(5))/4, float64(g.i(5))/4, float64(g.i(5))/4)))
			}
			impl := hlib.Guard(func() string {
				v := s.SDF(q)
				nrm, _ := s.NormalSDF(q)
				p, _ := s.PointSDF(q)
				tag := "out"
				if s.Contains(q) {
					tag = "in"
					c.Stat("x.rect3/in", 1)
				} else {
					c.Stat("x.rect3/out", 1)
				}
				sq := sqDistRat(arr(q), arr(p))
				return fmt.Sprintf("%s %s %s %s %s", tag, sq.String(), hx(v), faceOf(arr(nrm)), r3(p))
			})
			c.Emit("c06 x.rect3 "+r3(lo)+" "+r3(hi)+" "+r3(q), impl)
		}
		// Rect 2-D
		{
			lo := g.dy2(4, 3)
			hi := lo.Add(model2d.XY(float64(1+g.i(32))/8, float64(1+g.i(32))/8))
			s := &model2d.Rect{MinVal: lo, MaxVal: hi}
			q := g.dy2(6, 4)
			switch g.i(5) {
			case 0:
				q = lo.Mid(hi)
			case 1:
				q = model2d.XY(lo.X, g.c.Dyadic(6, 4))
			case 2:
				q = lo.Add(hi.Sub(lo).Mul(model2d.XY(float64(g.i(5))/4, float64(g.i(5))/4)))
			}
			impl := hlib.Guard(func() string {
				v := s.SDF(q)
				nrm, _ := s.NormalSDF(q)
				p, _ := s.PointSDF(q)
				tag := "out"
				if s.Contains(q) {
					tag = "in"
				}
				sq := sqDistRat(arr(q), arr(p))
				return fmt.Sprintf("%s %s %s %s %s", tag, sq.String(), hx(v), faceOf(arr(nrm)), r2(p))
			})
			c.Emit("c06 x.rect2 "+r2(lo)+" "+r2(hi)+" "+r2(q), impl)
		}
		// Segment 3-D: which end point (exactly) or the interior
		{
			s0 := g.dy3(4, 2)
			var s1 model3d.Coord3D
			for {
				s1 = g.dy3(4, 2)
				if s1 != s0 {
					break
				}
			}
			q := g.dy3(8, 2)
			seg := model3d.Segment{s0, s1}
			impl := hlib.Guard(func() string {
				p := seg.Closest(q)
				if segBoundary(arr(s0), arr(s1), arr(q)) {
					// the exact projection is an end point: the code may take either branch
					c.Stat("x.seg3/boundary", 1)
					return "b"
				}
				if p == s0 {
					c.Stat("x.seg3/end0", 1)
					return "0 " + r3(p)
				} else if p == s1 {
					c.Stat("x.seg3/end1", 1)
					return "1 " + r3(p)
				}
				c.Stat("x.seg3/interior", 1)
				return "i"
			})
			c.Emit("c06 x.seg3 "+r3(s0)+" "+r3(s1)+" "+r3(q), impl)
		}
		{
			s0 := g.dy2(4, 2)
			var s1 model2d.Coord
			for {
				s1 = g.dy2(4, 2)
				if s1 != s0 {
					break
				}
			}
			q := g.dy2(8, 2)
			seg := model2d.Segment{s0, s1}
			impl := hlib.Guard(func() string {
				p := seg.Closest(q)
				if segBoundary(arr(s0), arr(s1), arr(q)) {
					return "b"
				}
				if p == s0 {
					return "0 " + r2(p)
				} else if p == s1 {
					return "1 " + r2(p)
				}
				return "i"
			})
			c.Emit("c06 x.seg2 "+r2(s0)+" "+r2(s1)+" "+r2(q), impl)
		}
		// Triangle 3-D: which vertex (exactly) or not a vertex
		{
			t := g.dyTri()
			tr := model3d.Triangle(t)
			q := g.dy3(8, 2)
			impl := hlib.Guard(func() string {
				p := tr.Closest(q)
				for k := 0; k < 3; k++ {
					if segBoundary(arr(t[k]), arr(t[(k+1)%3]), arr(q)) {
						c.Stat("x.tri3/boundary", 1)
						return "b"
					}
				}
				for k := 0; k < 3; k++ {
					if p == t[k] {
						c.Stat("x.tri3/vertex", 1)
						return fmt.Sprintf("v%d", k)
					}
				}
				c.Stat("x.tri3/other", 1)
				return "o"
			})
			c.Emit("c06 x.tri3 "+r3(t[0])+" "+r3(t[1])+" "+r3(t[2])+" "+r3(q), impl)
		}
		// 2-D triangle: region from the barycentric output; at a vertex the value is the correctly
		// rounded root of the exact squared distance
		{
			var p [3]model2d.Coord
			for {
				p = [3]model2d.Coord{g.dy2(4, 2), g.dy2(4, 2), g.dy2(4, 2)}
				v1, v2 := p[1].Sub(p[0]), p[2].Sub(p[0])
				if v1.X*v2.Y-v2.X*v1.Y != 0 {
					break
				}
			}
			s := model2d.NewTriangle(p[0], p[1], p[2])
			q := g.dy2(8, 2)
			impl := hlib.Guard(func() string {
				b, v := s.BarycentricSDF(q)
				pt, _ := s.PointSDF(q)
				if tri2Tie(p, q) {
					// two different boundary points are at exactly the same distance: either is right
					c.Stat("x.tri2/tie", 1)
					return "tie"
				}
				for k := 0; k < 3; k++ {
					if b[k] == 1 {
						c.Stat("x.tri2/vertex", 1)
						return fmt.Sprintf("v%d %s %s", k, sqDistRat(arr(q), arr(pt)).String(), hx(v))
					}
				}
				c.Stat("x.tri2/edge", 1)
				e := 0
				if b[0] == 0 {
					e = 1
				} else if b[1] == 0 {
					e = 2
				}
				in := "0"
				if v > 0 {
					in = "1"
				}
				// exactly on the edge: the sign of the (zero) distance is not determined
				a, b2 := p[e], p[(e+1)%3]
				cr := new(big.Rat).Sub(
					new(big.Rat).Mul(new(big.Rat).Sub(ratOf(b2.X), ratOf(a.X)), new(big.Rat).Sub(ratOf(q.Y), ratOf(a.Y))),
					new(big.Rat).Mul(new(big.Rat).Sub(ratOf(b2.Y), ratOf(a.Y)), new(big.Rat).Sub(ratOf(q.X), ratOf(a.X))))
				if cr.Sign() == 0 {
					in = "on"
				}
				return fmt.Sprintf("e%d %s", e, in)
			})
			c.Emit("c06 x.tri2 "+r2(p[0])+" "+r2(p[1])+" "+r2(p[2])+" "+r2(q), impl)
		}
		// mesh of dyadic triangles: the face selected by the real code attains the exact minimum
		if i%4 == 0 {
			k := 2 + g.i(10)
			m := model3d.NewMesh()
			for j := 0; j < k; j++ {
				t := g.dyTri()
				m.Add(&model3d.Triangle{t[0], t[1], t[2]})
			}
			if g.i(3) == 0 {
				lo := g.dy3(4, 2)
				m = model3d.NewMeshRect(lo, lo.Add(model3d.XYZ(float64(1+g.i(8))/4, float64(1+g.i(8))/4, float64(1+g.i(8))/4)))
			}
			faces := m.TriangleSlice()
			model3d.GroupTriangles(faces)
			sdf := model3d.GroupedTrianglesToSDF(faces)
			var sb strings.Builder
			idx := map[*model3d.Triangle]int{}
			for j, f := range faces {
				idx[f] = j
				sb.WriteString(" " + r3(f[0]) + " " + r3(f[1]) + " " + r3(f[2]))
			}
			q := g.dy3(8, 2)
			face, _, _ := sdf.FaceSDF(q)
			c.Emit(fmt.Sprintf("c06 x.mesh %d %d%s %s", idx[face], len(faces), sb.String(), r3(q)), "1")
		}
	}
}

// tri2Tie reports (exactly, over the rationals) whether the minimum of the squared distances from q to the
// three sides of the triangle is attained at two different points.
func tri2Tie(p [3]model2d.Coord, q model2d.Coord) bool {
	type cand struct {
		d    *big.Rat
		x, y *big.Rat
	}
	var cs []cand
	sub := func(a, b *big.Rat) *big.Rat { return new(big.Rat).Sub(a, b) }
	mul := func(a, b *big.Rat) *big.Rat { return new(big.Rat).Mul(a, b) }
	add := func(a, b *big.Rat) *big.Rat { return new(big.Rat).Add(a, b) }
	for k := 0; k < 3; k++ {
		a, b := p[k], p[(k+1)%3]
		ax, ay, bx, by, qx, qy := ratOf(a.X), ratOf(a.Y), ratOf(b.X), ratOf(b.Y), ratOf(q.X), ratOf(q.Y)
		vx, vy := sub(bx, ax), sub(by, ay)
		dot := new(big.Rat).Quo(add(mul(vx, sub(qx, ax)), mul(vy, sub(qy, ay))), add(mul(vx, vx), mul(vy, vy)))
		fx, fy := ax, ay
		if dot.Sign() <= 0 {
		} else if dot.Cmp(big.NewRat(1, 1)) >= 0 {
			fx, fy = bx, by
		} else {
			fx, fy = add(ax, mul(vx, dot)), add(ay, mul(vy, dot))
		}
		d := add(mul(sub(fx, qx), sub(fx, qx)), mul(sub(fy, qy), sub(fy, qy)))
		cs = append(cs, cand{d, fx, fy})
	}
	m := cs[0].d
	for _, x := range cs {
		if x.d.Cmp(m) < 0 {
			m = x.d
		}
	}
	for i := range cs {
		for j := range cs {
			if cs[i].d.Cmp(m) == 0 && cs[j].d.Cmp(m) == 0 && (cs[i].x.Cmp(cs[j].x) != 0 || cs[i].y.Cmp(cs[j].y) != 0) {
				return true
			}
		}
	}
	return false
}

func (g gen) dyTri() [3]model3d.Coord3D {
	for {
		t := [3]model3d.Coord3D{g.dy3(4, 2), g.dy3(4, 2), g.dy3(4, 2)}
		if t[1].Sub(t[0]).Cross(t[2].Sub(t[0])).Norm() > 0 {
			return t
		}
	}
}

func arr(v interface{}) []float64 {
	switch x := v.(type) {
	case model3d.Coord3D:
		return []float64{x.X, x.Y, x.Z}
	case model2d.Coord:
		return []float64{x.X, x.Y}
	}
	panic("arr")
}

// segBoundary reports (exactly) whether the orthogonal projection of q onto the line s0 s1 is one
// of the end points: v1.(q-s0) == 0 or == v1.v1.
func segBoundary(s0, s1, q []float64) bool {
	a, b := new(big.Rat), new(big.Rat)
	for i := range s0 {
		v := new(big.Rat).Sub(ratOf(s1[i]), ratOf(s0[i]))
		w := new(big.Rat).Sub(ratOf(q[i]), ratOf(s0[i]))
		a.Add(a, new(big.Rat).Mul(v, v))
		b.Add(b, new(big.Rat).Mul(v, w))
	}
	return b.Sign() == 0 || b.Cmp(a) == 0
}
