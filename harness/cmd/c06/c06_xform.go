package main

// Transform- and collider-derived fields over shapes with an exactly known distance:
//
//	b.tsdf3/b.tsdf2     TransformSDF(t, shape).SDF(q)                                  (bits, faithful model)
//	b.tcoll3/b.tcoll2   ColliderToSDF(TransformCollider(t, shape), iters).SDF(q)       (bits, faithful model)
//	x.tsdf3/x.tsdf2     Rect, dyadic translations, power-of-two scalings: value = k * exact distance
//	x.tcoll3/x.tcoll2   same inputs: the returned value must lie in the bracket of
//	                    M3d.C06.transformed_collider_sdf_brackets around k * exact distance
//
// t is a Translate, a Scale (|k| < 1, > 1, negative), a Rotation or a JoinedTransform of up to four of
// them; the shape is a Sphere/Circle, Rect or Capsule.  The op line carries the shape, the members of
// the transform (a Rotation as the entries of its matrix) and the query.

import (
	"fmt"
	"math"
	"strings"

	"github.com/unixpickle/model3d/model2d"
	"github.com/unixpickle/model3d/model3d"
	"verif/harness/hlib"
)

type collSDF3 interface {
	model3d.Collider
	model3d.SDF
	model3d.Solid
}

type collSDF2 interface {
	model2d.Collider
	model2d.SDF
	model2d.Solid
}

// scaleFactor draws a Scale factor: below and above one, negative, extreme.
func (g gen) scaleFactor(exact bool) float64 {
	if exact {
		return []float64{2, 0.5, 4, 0.25, -2, -0.5, -1, 8, 0.125, -4}[g.i(10)]
	}
	switch g.i(6) {
	case 0:
		return []float64{2, 0.5, -1, -2, 0.25, 3, 1.0 / 3, -0.7, 10, 0.1, 1e-3, 1e3}[g.i(12)]
	case 1:
		return -math.Exp(g.f() * 2.5)
	default:
		return math.Exp(g.f() * 2.5)
	}
}

// xform3 draws a DistTransform together with its protocol tokens and its distance factor.
func (g gen) xform3(sc float64, exact bool) (model3d.DistTransform, string, float64) {
	n := 1 + g.i(4)
	if g.i(3) == 0 {
		n = 1
	}
	var members []model3d.Transform
	var toks []string
	k := 1.0
	hasScale := false
	for j := 0; j < n; j++ {
		kind := g.i(5)
		if j == n-1 && !hasScale && g.i(3) != 0 {
			kind = 1 // most transforms contain a scaling
		}
		switch {
		case kind == 0 || kind == 4 && exact:
			var o model3d.Coord3D
			if exact {
				o = g.dy3(3, 2)
				toks = append(toks, "T "+r3(o))
			} else {
				o = g.vec3(sc * 3)
				toks = append(toks, "T "+h3(o))
			}
			members = append(members, &model3d.Translate{Offset: o})
			g.c.Stat("xform3/translate", 1)
		case kind == 1 || kind == 2 || kind == 3:
			s := g.scaleFactor(exact)
			if exact {
				toks = append(toks, "K "+rs(s))
			} else {
				toks = append(toks, "K "+hx(s))
			}
			members = append(members, &model3d.Scale{Scale: s})
			k *= math.Abs(s)
			hasScale = true
			if math.Abs(s) < 1 {
				g.c.Stat("xform3/scale<1", 1)
			} else if math.Abs(s) > 1 {
				g.c.Stat("xform3/scale>1", 1)
			}
			if s < 0 {
				g.c.Stat("xform3/scale<0", 1)
			}
		default:
			axis := model3d.XYZ(g.n(), g.n(), g.n()).Normalize()
			if g.i(3) == 0 {
				var a [3]float64
				a[g.i(3)] = 1
				axis = model3d.NewCoord3DArray(a)
			}
			theta := g.f() * math.Pi
			m := model3d.NewMatrix3Rotation(axis, theta)
			toks = append(toks, "M "+hxs(m[:]...))
			members = append(members, model3d.Rotation(axis, theta))
			g.c.Stat("xform3/rotation", 1)
		}
	}
	desc := fmt.Sprintf("%d %s", n, strings.Join(toks, " "))
	if n == 1 && g.i(2) == 0 {
		g.c.Stat("xform3/bare", 1)
		return members[0].(model3d.DistTransform), desc, k
	}
	g.c.Stat("xform3/joined", 1)
	return model3d.JoinedTransform(members), desc, k
}

func (g gen) xform2(sc float64, exact bool) (model2d.DistTransform, string, float64) {
	n := 1 + g.i(4)
	if g.i(3) == 0 {
		n = 1
	}
	var members []model2d.Transform
	var toks []string
	k := 1.0
	hasScale := false
	for j := 0; j < n; j++ {
		kind := g.i(5)
		if j == n-1 && !hasScale && g.i(3) != 0 {
			kind = 1
		}
		switch {
		case kind == 0 || kind == 4 && exact:
			var o model2d.Coord
			if exact {
				o = g.dy2(3, 2)
				toks = append(toks, "T "+r2(o))
			} else {
				o = g.vec2(sc * 3)
				toks = append(toks, "T "+h2(o))
			}
			members = append(members, &model2d.Translate{Offset: o})
			g.c.Stat("xform2/translate", 1)
		case kind == 1 || kind == 2 || kind == 3:
			s := g.scaleFactor(exact)
			if exact {
				toks = append(toks, "K "+rs(s))
			} else {
				toks = append(toks, "K "+hx(s))
			}
			members = append(members, &model2d.Scale{Scale: s})
			k *= math.Abs(s)
			hasScale = true
			if math.Abs(s) < 1 {
				g.c.Stat("xform2/scale<1", 1)
			} else if math.Abs(s) > 1 {
				g.c.Stat("xform2/scale>1", 1)
			}
		default:
			theta := g.f() * math.Pi
			m := model2d.NewMatrix2Rotation(theta)
			toks = append(toks, "M "+hxs(m[:]...))
			members = append(members, model2d.Rotation(theta))
			g.c.Stat("xform2/rotation", 1)
		}
	}
	desc := fmt.Sprintf("%d %s", n, strings.Join(toks, " "))
	if n == 1 && g.i(2) == 0 {
		return members[0].(model2d.DistTransform), desc, k
	}
	return model2d.JoinedTransform(members), desc, k
}

// shape3 draws one of the shapes whose distance is known in closed form (C06 theorems
// sphere_sdf_exact, rect_sdf_exact, capsule_sdf_exact) and its protocol tokens.
func (g gen) shape3(sc float64) (collSDF3, string, []model3d.Coord3D) {
	switch g.i(3) {
	case 0:
		s := &model3d.Sphere{Center: g.vec3(sc), Radius: g.pos(sc)}
		return s, "S " + h3(s.Center) + " " + hx(s.Radius), []model3d.Coord3D{s.Center}
	case 1:
		lo := g.vec3(sc)
		r := &model3d.Rect{MinVal: lo, MaxVal: lo.Add(model3d.XYZ(g.pos(sc), g.pos(sc), g.pos(sc)))}
		return r, "R " + h3(r.MinVal) + " " + h3(r.MaxVal), []model3d.Coord3D{r.MinVal, r.MaxVal, r.MinVal.Mid(r.MaxVal)}
	default:
		p := g.vec3(sc)
		cp := &model3d.Capsule{P1: p, P2: p.Add(g.segDir3(sc)), Radius: g.pos(sc)}
		return cp, "C " + h3(cp.P1) + " " + h3(cp.P2) + " " + hx(cp.Radius), []model3d.Coord3D{cp.P1, cp.P2, cp.P1.Mid(cp.P2)}
	}
}

func (g gen) shape2(sc float64) (collSDF2, string, []model2d.Coord) {
	switch g.i(3) {
	case 0:
		s := &model2d.Circle{Center: g.vec2(sc), Radius: g.pos(sc)}
		return s, "S " + h2(s.Center) + " " + hx(s.Radius), []model2d.Coord{s.Center}
	case 1:
		lo := g.vec2(sc)
		r := &model2d.Rect{MinVal: lo, MaxVal: lo.Add(model2d.XY(g.pos(sc), g.pos(sc)))}
		return r, "R " + h2(r.MinVal) + " " + h2(r.MaxVal), []model2d.Coord{r.MinVal, r.MaxVal, r.MinVal.Mid(r.MaxVal)}
	default:
		p := g.vec2(sc)
		cp := &model2d.Capsule{P1: p, P2: p.Add(g.segDir2(sc)), Radius: g.pos(sc)}
		return cp, "C " + h2(cp.P1) + " " + h2(cp.P2) + " " + hx(cp.Radius), []model2d.Coord{cp.P1, cp.P2, cp.P1.Mid(cp.P2)}
	}
}

// preimage3 draws a point in the space of the wrapped shape: inside, outside, on the surface, special.
func (g gen) preimage3(s collSDF3, special []model3d.Coord3D) model3d.Coord3D {
	lo, hi := s.Min(), s.Max()
	size := hi.Sub(lo)
	rnd := lo.Add(model3d.XYZ(size.X*(g.c.Rng.Float64()*2-0.5), size.Y*(g.c.Rng.Float64()*2-0.5), size.Z*(g.c.Rng.Float64()*2-0.5)))
	switch g.i(8) {
	case 0:
		return special[g.i(len(special))]
	case 1:
		if ps, ok := s.(model3d.PointSDF); ok {
			p, _ := ps.PointSDF(rnd)
			return p
		}
		return rnd
	case 2:
		return rnd.Add(g.vec3(size.Norm() * 20))
	default:
		return rnd
	}
}

func (g gen) preimage2(s collSDF2, special []model2d.Coord) model2d.Coord {
	lo, hi := s.Min(), s.Max()
	size := hi.Sub(lo)
	rnd := lo.Add(model2d.XY(size.X*(g.c.Rng.Float64()*2-0.5), size.Y*(g.c.Rng.Float64()*2-0.5)))
	switch g.i(8) {
	case 0:
		return special[g.i(len(special))]
	case 1:
		if ps, ok := s.(model2d.PointSDF); ok {
			p, _ := ps.PointSDF(rnd)
			return p
		}
		return rnd
	case 2:
		return rnd.Add(g.vec2(size.Norm() * 20))
	default:
		return rnd
	}
}

func b01(b bool) string {
	if b {
		return "1"
	}
	return "0"
}

var tcollIters = []int{0, 1, 5, 32, 40}

func runXform(c *hlib.Ctx, g gen, n int) {
	for i := 0; i < n; i++ {
		sc := g.scale()
		// ---- 3-D
		{
			shape, stoks, special := g.shape3(sc)
			t, ttoks, k := g.xform3(sc, false)
			inv := t.Inverse()
			desc := fmt.Sprintf("%T%+v under %s", shape, shape, ttoks)
			var prevQ model3d.Coord3D
			var prevV float64
			havePrev := false
			for j := 0; j < 3; j++ {
				q0 := g.preimage3(shape, special)
				q := t.Apply(q0)
				if !finite3(q) {
					continue
				}
				want := k * shape.SDF(q0) // validation only: q0 is the inverse image up to rounding
				mag := math.Max(maxAbs3(q), k*maxAbs3(q0, shape.Min(), shape.Max(), inv.Apply(q)))
				tol := 1e-7*mag + 1e-9*math.Abs(want)

				// TransformSDF
				var v float64
				impl := hlib.Guard(func() string {
					v = model3d.TransformSDF(t, shape).SDF(q)
					return hx(v)
				})
				c.Emit("c06 b.tsdf3 "+stoks+" "+ttoks+" "+h3(q), impl)
				if !strings.HasPrefix(impl, "panic") && !math.IsNaN(v) {
					if math.Abs(v-want) > tol {
						c.PropFail("prop:c06/transformsdf3/value-is-not-scaled-distance",
							fmt.Sprintf("%s at %v: TransformSDF=%v, %v * SDF(preimage %v) = %v", desc, q, v, k, q0, want))
					}
					if (v > tol) != (want > tol) && math.Abs(want) > 2*tol {
						c.PropFail("prop:c06/transformsdf3/sign-differs-from-containment",
							fmt.Sprintf("%s at %v: TransformSDF=%v but contains(preimage)=%v", desc, q, v, shape.Contains(q0)))
					}
				}

				// ColliderToSDF over TransformCollider
				iters := tcollIters[g.i(len(tcollIters))]
				var cv float64
				contains := false
				impl = hlib.Guard(func() string {
					tc := model3d.TransformCollider(t, shape)
					contains = model3d.NewColliderSolid(tc).Contains(q)
					cv = model3d.ColliderToSDF(tc, iters).SDF(q)
					return hx(cv)
				})
				if iters == 0 {
					iters = 32
				}
				c.Emit(fmt.Sprintf("c06 b.tcoll3 %d %s %s %s %s", iters, b01(contains), stoks, ttoks, h3(q)), impl)
				d := math.Abs(want)
				inRange := d > math.Ldexp(1, 1-iters) && d < math.Ldexp(1, iters-1)
				if !strings.HasPrefix(impl, "panic") && iters >= 32 && inRange && d > 100*tol {
					c.Stat("tcoll3/in-range", 1)
					if math.Abs(math.Abs(cv)-d) > 1e-6*d+tol {
						c.PropFail("prop:c06/tcollider3/bisection-far-from-scaled-distance",
							fmt.Sprintf("%s at %v: ColliderToSDF(TransformCollider)=%v, true distance %v * |SDF(preimage %v)| = %v", desc, q, cv, k, q0, d))
					}
					if (cv > 0) != (want > 0) {
						c.PropFail("prop:c06/tcollider3/sign-differs-from-containment",
							fmt.Sprintf("%s at %v: ColliderToSDF(TransformCollider)=%v but SDF(preimage)=%v", desc, q, cv, shape.SDF(q0)))
					}
					if havePrev {
						if dd := q.Dist(prevQ); math.Abs(cv-prevV) > dd*(1+1e-6)+1e-6*(d+math.Abs(prevV))+2*tol {
							c.PropFail("prop:c06/tcollider3/not-1-lipschitz",
								fmt.Sprintf("%s: sdf(%v)=%v sdf(%v)=%v |a-b|=%v", desc, q, cv, prevQ, prevV, dd))
						}
						c.Stat("tcoll3/lipschitz", 1)
					}
					prevQ, prevV, havePrev = q, cv, true
				}
			}
		}
		// ---- 2-D
		{
			shape, stoks, special := g.shape2(sc)
			t, ttoks, k := g.xform2(sc, false)
			inv := t.Inverse()
			desc := fmt.Sprintf("%T%+v under %s", shape, shape, ttoks)
			for j := 0; j < 3; j++ {
				q0 := g.preimage2(shape, special)
				q := t.Apply(q0)
				if math.IsNaN(q.X+q.Y) || math.IsInf(q.X+q.Y, 0) {
					continue
				}
				want := k * shape.SDF(q0)
				mag := math.Max(maxAbs2(q), k*maxAbs2(q0, shape.Min(), shape.Max(), inv.Apply(q)))
				tol := 1e-7*mag + 1e-9*math.Abs(want)

				var v float64
				impl := hlib.Guard(func() string {
					v = model2d.TransformSDF(t, shape).SDF(q)
					return hx(v)
				})
				c.Emit("c06 b.tsdf2 "+stoks+" "+ttoks+" "+h2(q), impl)
				if !strings.HasPrefix(impl, "panic") && !math.IsNaN(v) {
					if math.Abs(v-want) > tol {
						c.PropFail("prop:c06/transformsdf2/value-is-not-scaled-distance",
							fmt.Sprintf("%s at %v: TransformSDF=%v, %v * SDF(preimage %v) = %v", desc, q, v, k, q0, want))
					}
				}

				iters := tcollIters[g.i(len(tcollIters))]
				var cv float64
				contains := false
				impl = hlib.Guard(func() string {
					tc := model2d.TransformCollider(t, shape)
					contains = model2d.NewColliderSolid(tc).Contains(q)
					cv = model2d.ColliderToSDF(tc, iters).SDF(q)
					return hx(cv)
				})
				if iters == 0 {
					iters = 32
				}
				c.Emit(fmt.Sprintf("c06 b.tcoll2 %d %s %s %s %s", iters, b01(contains), stoks, ttoks, h2(q)), impl)
				d := math.Abs(want)
				inRange := d > math.Ldexp(1, 1-iters) && d < math.Ldexp(1, iters-1)
				if !strings.HasPrefix(impl, "panic") && iters >= 32 && inRange && d > 100*tol {
					c.Stat("tcoll2/in-range", 1)
					if math.Abs(math.Abs(cv)-d) > 1e-6*d+tol {
						c.PropFail("prop:c06/tcollider2/bisection-far-from-scaled-distance",
							fmt.Sprintf("%s at %v: ColliderToSDF(TransformCollider)=%v, true distance %v * |SDF(preimage %v)| = %v", desc, q, cv, k, q0, d))
					}
					if (cv > 0) != (want > 0) {
						c.PropFail("prop:c06/tcollider2/sign-differs-from-containment",
							fmt.Sprintf("%s at %v: ColliderToSDF(TransformCollider)=%v but SDF(preimage)=%v", desc, q, cv, shape.SDF(q0)))
					}
				}
			}
		}
		runXformExact3(c, g)
		runXformExact2(c, g)
	}
}

// exact mode: Rect with dyadic corners, dyadic translations, power-of-two scalings.  Every float
// operation of Apply / Inverse / ApplyDistance / Rect.SDF (inside; outside up to the one sqrt) and of the
// bisection (midpoints are dyadic with < 45 bits) is exact, so the real results must satisfy the
// theorems over the rationals exactly.
func runXformExact3(c *hlib.Ctx, g gen) {
	lo := g.dy3(3, 2)
	hi := lo.Add(model3d.XYZ(float64(1+g.i(24))/4, float64(1+g.i(24))/4, float64(1+g.i(24))/4))
	rect := &model3d.Rect{MinVal: lo, MaxVal: hi}
	stoks := "R " + r3(lo) + " " + r3(hi)
	t, ttoks, k := g.xform3(1, true)
	inv := t.Inverse()
	for j := 0; j < 3; j++ {
		q0 := g.dy3(5, 3)
		if g.i(3) == 0 {
			// beyond one face only (rational distance), or inside
			q0 = lo.Add(hi.Sub(lo).Mul(model3d.XYZ(float64(g.i(5))/4, float64(g.i(5))/4, float64(g.i(5))/4)))
			if g.i(2) == 0 {
				var a [3]float64
				a[g.i(3)] = float64(g.i(33)-16) / 8
				q0 = q0.Add(model3d.NewCoord3DArray(a))
			}
		}
		q := t.Apply(q0)
		if inv.Apply(q) != q0 {
			c.Stat("xtsdf3/inexact-skipped", 1)
			continue
		}
		inside := rect.Contains(q0)
		var v float64
		impl := hlib.Guard(func() string {
			v = model3d.TransformSDF(t, rect).SDF(q)
			if inside {
				return "in " + rs(v)
			}
			return "out " + hx(v)
		})
		c.Emit("c06 x.tsdf3 "+stoks+" "+ttoks+" "+r3(q), impl)
		c.Stat("xtsdf3/inside="+b01(inside), 1)

		// the bracket theorem needs 2^-iters < D <= 2^iters and a rational D
		nOut := 0
		for ax := 0; ax < 3; ax++ {
			if x := q0.Array()[ax]; x < lo.Array()[ax] || x > hi.Array()[ax] {
				nOut++
			}
		}
		iters := []int{5, 12, 32, 40}[g.i(4)]
		d := k * math.Abs(rect.SDF(q0))
		if nOut > 1 || !(d > math.Ldexp(1, -iters) && d <= math.Ldexp(1, iters)) {
			c.Stat("xtcoll3/skipped", 1)
			continue
		}
		var cv float64
		contains := false
		impl = hlib.Guard(func() string {
			tc := model3d.TransformCollider(t, rect)
			contains = model3d.NewColliderSolid(tc).Contains(q)
			cv = model3d.ColliderToSDF(tc, iters).SDF(q)
			return "ok"
		})
		c.Emit(fmt.Sprintf("c06 x.tcoll3 %d %s %s %s %s %s", iters, b01(contains), stoks, ttoks, r3(q), rs(cv)), impl)
		c.Stat("xtcoll3/checked", 1)
	}
}

func runXformExact2(c *hlib.Ctx, g gen) {
	lo := g.dy2(3, 2)
	hi := lo.Add(model2d.XY(float64(1+g.i(24))/4, float64(1+g.i(24))/4))
	rect := &model2d.Rect{MinVal: lo, MaxVal: hi}
	stoks := "R " + r2(lo) + " " + r2(hi)
	t, ttoks, k := g.xform2(1, true)
	inv := t.Inverse()
	for j := 0; j < 3; j++ {
		q0 := g.dy2(5, 3)
		if g.i(3) == 0 {
			q0 = lo.Add(hi.Sub(lo).Mul(model2d.XY(float64(g.i(5))/4, float64(g.i(5))/4)))
			if g.i(2) == 0 {
				var a [2]float64
				a[g.i(2)] = float64(g.i(33)-16) / 8
				q0 = q0.Add(model2d.NewCoordArray(a))
			}
		}
		q := t.Apply(q0)
		if inv.Apply(q) != q0 {
			c.Stat("xtsdf2/inexact-skipped", 1)
			continue
		}
		inside := rect.Contains(q0)
		var v float64
		impl := hlib.Guard(func() string {
			v = model2d.TransformSDF(t, rect).SDF(q)
			if inside {
				return "in " + rs(v)
			}
			return "out " + hx(v)
		})
		c.Emit("c06 x.tsdf2 "+stoks+" "+ttoks+" "+r2(q), impl)
		c.Stat("xtsdf2/inside="+b01(inside), 1)

		nOut := 0
		for ax := 0; ax < 2; ax++ {
			if x := q0.Array()[ax]; x < lo.Array()[ax] || x > hi.Array()[ax] {
				nOut++
			}
		}
		iters := []int{5, 12, 32, 40}[g.i(4)]
		d := k * math.Abs(rect.SDF(q0))
		if nOut > 1 || !(d > math.Ldexp(1, -iters) && d <= math.Ldexp(1, iters)) {
			c.Stat("xtcoll2/skipped", 1)
			continue
		}
		var cv float64
		contains := false
		impl = hlib.Guard(func() string {
			tc := model2d.TransformCollider(t, rect)
			contains = model2d.NewColliderSolid(tc).Contains(q)
			cv = model2d.ColliderToSDF(tc, iters).SDF(q)
			return "ok"
		})
		c.Emit(fmt.Sprintf("c06 x.tcoll2 %d %s %s %s %s %s", iters, b01(contains), stoks, ttoks, r2(q), rs(cv)), impl)
		c.Stat("xtcoll2/checked", 1)
	}
}
