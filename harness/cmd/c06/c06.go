// Command c06 is the correspondence harness for property C06 (signed distance fields report
// true distance, nearest point and normal).  It drives the REAL code of model3d / model2d:
//
//   - "b.*" kinds (bits mode): arbitrary doubles; the op line carries the IEEE bit patterns of the
//     inputs, the output those of SDF / NormalSDF / PointSDF (…); the Lean driver runs the models of
//     lean/M3d/Model/Sdf.lean at Float with the same operations in the same order: bit-for-bit equal.
//   - "x.*" kinds (exact mode): small dyadic inputs, outputs that the real code must produce exactly
//     (rationals; a distance that is a square root of an exactly representable number is compared as
//     the correctly rounded root), Lean runs the same models at Rat.
//
// In addition the property's own predicates are evaluated in Go on the real outputs (#propfail):
// nearest point at the reported distance and on the surface, sign <=> Contains, unit normal, normal =
// -gradient (central differences, only where the surface is smooth around the nearest point;
// validation, tolerance 1e-4), 1-Lipschitz on random pairs.
package main

import (
	"fmt"
	"math"
	"strings"

	"github.com/unixpickle/model3d/model2d"
	"github.com/unixpickle/model3d/model3d"
	"verif/harness/hlib"
)

func main() { hlib.Main("C06", run) }

// hx renders a float canonically: NaN as "nan", both zeros as +0.
func hx(x float64) string {
	if math.IsNaN(x) {
		return "nan"
	}
	if x == 0 {
		return "0000000000000000"
	}
	return hlib.Hex(x)
}

func hxs(xs ...float64) string {
	parts := make([]string, len(xs))
	for i, x := range xs {
		parts[i] = hx(x)
	}
	return strings.Join(parts, " ")
}

func h3(v model3d.Coord3D) string { return hxs(v.X, v.Y, v.Z) }
func h2(v model2d.Coord) string   { return hxs(v.X, v.Y) }

func rs(xs ...float64) string {
	parts := make([]string, len(xs))
	for i, x := range xs {
		parts[i] = hlib.RatStr(x)
	}
	return strings.Join(parts, " ")
}
func r3(v model3d.Coord3D) string { return rs(v.X, v.Y, v.Z) }
func r2(v model2d.Coord) string   { return rs(v.X, v.Y) }

type sdf3 interface {
	model3d.Solid
	model3d.PointSDF
	model3d.NormalSDF
}

type sdf2 interface {
	model2d.Solid
	model2d.PointSDF
	model2d.NormalSDF
}

// out3 calls the three entry points of the real shape and renders "val n p"; the three values must
// be the same float.
func out3(c *hlib.Ctx, site string, s sdf3, p model3d.Coord3D) string {
	return hlib.Guard(func() string {
		v := s.SDF(p)
		n, v1 := s.NormalSDF(p)
		q, v2 := s.PointSDF(p)
		if hx(v) != hx(v1) || hx(v) != hx(v2) {
			c.PropFail("prop:c06/"+site+"/value-differs-between-entry-points",
				fmt.Sprintf("SDF=%v NormalSDF=%v PointSDF=%v at %v", v, v1, v2, p))
		}
		return hx(v) + " " + h3(n) + " " + h3(q)
	})
}

func out2(c *hlib.Ctx, site string, s sdf2, p model2d.Coord) string {
	return hlib.Guard(func() string {
		v := s.SDF(p)
		n, v1 := s.NormalSDF(p)
		q, v2 := s.PointSDF(p)
		if hx(v) != hx(v1) || hx(v) != hx(v2) {
			c.PropFail("prop:c06/"+site+"/value-differs-between-entry-points",
				fmt.Sprintf("SDF=%v NormalSDF=%v PointSDF=%v at %v", v, v1, v2, p))
		}
		return hx(v) + " " + h2(n) + " " + h2(q)
	})
}

// ---------------------------------------------------------------------------------------------
// random material

type gen struct{ c *hlib.Ctx }

func (g gen) f() float64 { return g.c.Rng.Float64()*2 - 1 }
func (g gen) n() float64 { return g.c.Rng.NormFloat64() }
func (g gen) i(n int) int { return g.c.Rng.Intn(n) }
func (g gen) pos(scale float64) float64 {
	return (g.c.Rng.Float64()*0.95 + 0.05) * scale
}

// vec3 draws a vector: general position, axis aligned, dyadic or with a zero component.
func (g gen) vec3(scale float64) model3d.Coord3D {
	switch g.i(6) {
	case 0:
		var a [3]float64
		a[g.i(3)] = scale * g.f()
		return model3d.NewCoord3DArray(a)
	case 1:
		return model3d.XYZ(g.c.Dyadic(4, 3), g.c.Dyadic(4, 3), g.c.Dyadic(4, 3)).Scale(scale)
	case 2:
		a := [3]float64{scale * g.f(), scale * g.f(), scale * g.f()}
		a[g.i(3)] = 0
		return model3d.NewCoord3DArray(a)
	default:
		return model3d.XYZ(scale*g.f(), scale*g.f(), scale*g.f())
	}
}

func (g gen) vec2(scale float64) model2d.Coord {
	switch g.i(6) {
	case 0:
		var a [2]float64
		a[g.i(2)] = scale * g.f()
		return model2d.NewCoordArray(a)
	case 1:
		return model2d.XY(g.c.Dyadic(4, 3), g.c.Dyadic(4, 3)).Scale(scale)
	default:
		return model2d.XY(scale*g.f(), scale*g.f())
	}
}

// scale picks the overall size of a case: mostly 1, sometimes tiny or huge.
func (g gen) scale() float64 {
	switch g.i(8) {
	case 0:
		return 1e-3
	case 1:
		return 1e3
	case 2:
		return 37.5
	default:
		return 1
	}
}

// queries3 produces structured and random query points for a 3-D shape with bounds [lo,hi] and a list
// of special points (centres, tips, …) and axes of symmetry (given as point pairs).
func (g gen) queries3(s sdf3, special []model3d.Coord3D, axes [][2]model3d.Coord3D, k int) []model3d.Coord3D {
	lo, hi := s.Min(), s.Max()
	size := hi.Sub(lo)
	diam := size.Norm()
	var res []model3d.Coord3D
	rnd := func() model3d.Coord3D {
		return lo.Add(model3d.XYZ(size.X*(g.c.Rng.Float64()*1.6-0.3), size.Y*(g.c.Rng.Float64()*1.6-0.3),
			size.Z*(g.c.Rng.Float64()*1.6-0.3)))
	}
	for j := 0; j < k; j++ {
		switch g.i(10) {
		case 0:
			if len(special) > 0 {
				res = append(res, special[g.i(len(special))])
				g.c.Stat("q3/special", 1)
				continue
			}
			fallthrough
		case 1:
			if len(axes) > 0 {
				a := axes[g.i(len(axes))]
				t := g.c.Rng.Float64()*2 - 0.5
				if g.i(3) == 0 {
					t = float64(g.i(9)-2) / 4
				}
				res = append(res, a[0].Add(a[1].Sub(a[0]).Scale(t)))
				g.c.Stat("q3/on-axis", 1)
				continue
			}
			fallthrough
		case 2:
			// a point of the surface itself, or a hair off it
			p, _ := s.PointSDF(rnd())
			if g.i(2) == 0 {
				n, _ := s.NormalSDF(p)
				p = p.Add(n.Scale(diam * 1e-9 * g.f()))
			}
			res = append(res, p)
			g.c.Stat("q3/on-surface", 1)
		case 3:
			// far away
			res = append(res, rnd().Add(g.vec3(diam*100)))
			g.c.Stat("q3/far", 1)
		case 4:
			// special point plus a tiny or axis-aligned offset
			if len(special) > 0 {
				var a [3]float64
				a[g.i(3)] = diam * g.f() * []float64{1e-12, 1e-6, 0.3}[g.i(3)]
				res = append(res, special[g.i(len(special))].Add(model3d.NewCoord3DArray(a)))
				g.c.Stat("q3/near-special", 1)
				continue
			}
			fallthrough
		default:
			res = append(res, rnd())
			g.c.Stat("q3/random", 1)
		}
	}
	return res
}

func (g gen) queries2(s sdf2, special []model2d.Coord, k int) []model2d.Coord {
	lo, hi := s.Min(), s.Max()
	size := hi.Sub(lo)
	diam := size.Norm()
	var res []model2d.Coord
	rnd := func() model2d.Coord {
		return lo.Add(model2d.XY(size.X*(g.c.Rng.Float64()*1.6-0.3), size.Y*(g.c.Rng.Float64()*1.6-0.3)))
	}
	for j := 0; j < k; j++ {
		switch g.i(8) {
		case 0:
			if len(special) > 0 {
				res = append(res, special[g.i(len(special))])
				g.c.Stat("q2/special", 1)
				continue
			}
			fallthrough
		case 1:
			p, _ := s.PointSDF(rnd())
			res = append(res, p)
			g.c.Stat("q2/on-surface", 1)
		case 2:
			res = append(res, rnd().Add(g.vec2(diam*100)))
			g.c.Stat("q2/far", 1)
		case 3:
			if len(special) > 0 {
				var a [2]float64
				a[g.i(2)] = diam * g.f() * []float64{1e-12, 1e-6, 0.3}[g.i(3)]
				res = append(res, special[g.i(len(special))].Add(model2d.NewCoordArray(a)))
				g.c.Stat("q2/near-special", 1)
				continue
			}
			fallthrough
		default:
			res = append(res, rnd())
			g.c.Stat("q2/random", 1)
		}
	}
	return res
}

func finite3(v model3d.Coord3D) bool {
	return !math.IsNaN(v.X+v.Y+v.Z) && !math.IsInf(v.X+v.Y+v.Z, 0)
}

func run(c *hlib.Ctx) {
	g := gen{c}
	n := c.N
	runShapes3(c, g, n)
	runShapes2(c, g, n)
	runPrims(c, g, n)
	runMesh(c, g, n/4+1)
	runMesh2(c, g, n/3+1)
	runProfile(c, g, n)
	runColliderSDF(c, g, n/2+1)
	runExact(c, g, n)
	runXform(c, g, n/2+1)
	// translation validation of the regenerated kernels (lean/M3d/Gen/Kernels.lean)
	hlib.RunKernels(c, "c06", n/60+3)
	// triangles with a repeated corner, meshes with such slivers (last: the cases above keep their inputs)
	runTriDeg(c, g, n/2+1)
}
