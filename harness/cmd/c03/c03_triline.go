package main

import (
	"fmt"
	"math"

	"verif/harness/hlib"

	"github.com/unixpickle/model3d/model3d"
	"github.com/unixpickle/model3d/toolbox3d"
)

// runTriLine: kind "triline" — toolbox3d.TriangularLine / TriangularPolygon (one segment) / L1LineJoin's
// line part are CheckedFuncSolids: a box in front of "projection between the endpoints && L1 distance to the
// segment < thickness".  Random segments (mostly oblique, some axis-aligned or planar), query points on the
// end caps, on the L1 ridges and around the surface; the model answers with the definition evaluated exactly
// over the rationals (M3d.C03.wrapper_does_not_cut_triline).  Only points whose three deciding quantities
// (the two projection tests and L1Dist - thickness, computed here in float64 with the library's own vector
// operations) are away from zero by a margin far above the rounding error enter a case, so that the float
// evaluation of the definition inside the real closure and the exact one agree.
func runTriLine(c *hlib.Ctx) {
	n := c.N/8 + 10
	for i := 0; i < n; i++ {
		triLineCase(c, i)
	}
}

func triLineCase(c *hlib.Ctx, idx int) {
	r := c.Rng
	grid := func(x float64, bits float64) float64 { return math.Round(x*bits) / bits }
	var p1, p2 pt
	for {
		for i := 0; i < 3; i++ {
			p1[i] = c.Dyadic(4, 4)
			p2[i] = c.Dyadic(4, 4)
		}
		switch r.Intn(8) {
		case 0: // axis-aligned
			a := r.Intn(3)
			for i := 0; i < 3; i++ {
				if i != a {
					p2[i] = p1[i]
				}
			}
		case 1: // in a coordinate plane
			a := r.Intn(3)
			p2[a] = p1[a]
		case 2: // exact diagonal
			l := float64(r.Intn(48)+1) / 16
			for i := 0; i < 3; i++ {
				s := float64(r.Intn(3) - 1)
				p2[i] = p1[i] + s*l
			}
		}
		if p1 != p2 {
			break
		}
	}
	th := float64(r.Intn(63)+2) / 32
	if r.Intn(4) == 0 {
		th = float64(r.Intn(40)+1) / 8 // thick compared with the segment
	}
	P1, P2 := c3(p1), c3(p2)
	d := P1.Sub(P2)
	dd := d.Dot(d)
	seg := model3d.NewSegment(P1, P2)
	dir := d.Normalize()
	// two directions orthogonal to the line
	o1, o2 := dir.OrthoBasis()

	const margin = 1e-6
	var pts []pt
	inside, caps, oblique := 0, 0, 0
	if p1[0] != p2[0] && p1[1] != p2[1] || p1[0] != p2[0] && p1[2] != p2[2] || p1[1] != p2[1] && p1[2] != p2[2] {
		oblique = 1
	}
	add := func(q model3d.Coord3D, cap bool) {
		q = model3d.XYZ(grid(q.X, 1024), grid(q.Y, 1024), grid(q.Z, 1024))
		dot := q.Sub(P2).Dot(d)
		l1 := seg.L1Dist(q)
		if math.Abs(dot) < margin || math.Abs(dot-dd) < margin || math.Abs(l1-th) < margin {
			return
		}
		if dot > 0 && dot < dd && l1 < th {
			inside++
			if cap {
				caps++
			}
		}
		pts = append(pts, p3(q))
	}
	fr := []float64{0.2, 0.5, 0.8, 0.9, 0.97, 1.04, 1.3}
	for k := 0; k < 36; k++ {
		var t float64
		cap := false
		switch r.Intn(5) {
		case 0:
			t, cap = 1.0/512, true // just inside the cap at p1
		case 1:
			t, cap = 1-1.0/512, true // just inside the cap at p2
		case 2:
			t = []float64{-0.05, 1.05}[r.Intn(2)] // past an endpoint
		default:
			t = r.Float64()
		}
		base := P2.Add(d.Scale(1 - t)) // p1 + (p2-p1)*t
		f := fr[r.Intn(len(fr))] * th
		var off model3d.Coord3D
		switch r.Intn(4) {
		case 0: // along a coordinate axis: the ridge of the L1 prism
			var e pt
			e[r.Intn(3)] = float64(2*r.Intn(2) - 1)
			off = c3(e).Scale(f)
		case 1, 2: // within the plane of the cross-section, scaled to L1 length f
			a := r.Float64() * 2 * math.Pi
			v := o1.Scale(math.Cos(a)).Add(o2.Scale(math.Sin(a)))
			l := math.Abs(v.X) + math.Abs(v.Y) + math.Abs(v.Z)
			off = v.Scale(f / l)
		default: // any direction, L1 length f
			v := model3d.XYZ(r.NormFloat64(), r.NormFloat64(), r.NormFloat64())
			l := math.Abs(v.X) + math.Abs(v.Y) + math.Abs(v.Z)
			if l == 0 {
				continue
			}
			off = v.Scale(f / l)
		}
		add(base.Add(off), cap)
	}
	if len(pts) == 0 {
		return
	}
	variant := idx % 3
	op := fmt.Sprintf("c03 triline q %s %s %s %d", num(th), fpt(p1), fpt(p2), len(pts))
	for _, p := range pts {
		op += " " + fpt(p)
	}
	res := hlib.Guard(func() string {
		var s model3d.Solid
		if variant == 1 {
			s = toolbox3d.TriangularPolygon(th, false, P1, P2)
		} else {
			s = toolbox3d.TriangularLine(th, P1, P2)
		}
		out := b2s(model3d.BoundsValid(s)) + " "
		for _, p := range pts {
			out += b2s(s.Contains(c3(p)))
		}
		return out
	})
	c.Stat("triline.cases", 1)
	c.Stat("triline.oblique", oblique)
	c.Stat("triline.points", len(pts))
	c.Stat("triline.inside", inside)
	c.Stat("triline.inside_cap", caps)
	site := "corr:c03 triline-line"
	if variant == 1 {
		site = "corr:c03 triline-polygon"
	}
	c.EmitSite(op, res, site)
}
