package main

import (
	"fmt"
	"math"
	"strings"

	"verif/harness/hlib"

	"github.com/unixpickle/model3d/model2d"
	"github.com/unixpickle/model3d/model3d"
	"github.com/unixpickle/model3d/toolbox3d"
)

// node is one generated sub-expression: the real solid, its serialisation for the Lean driver,
// and points of interest (corners / surfaces of the operands) in its own coordinates.
type node struct {
	d3  bool
	tok string
	s3  model3d.Solid
	s2  model2d.Solid
	pts []pt
}

func (n *node) sol() sol {
	if n.d3 {
		return sol3{n.s3}
	}
	return sol2{n.s2}
}

type gen struct {
	c     *hlib.Ctx
	exact bool
	rec   *recorder
	next  int
	site  string
	cut   int // wrapper-does-not-cut evaluations
	inTree bool
}

func (g *gen) id() int { g.next++; return g.next }

// coordinate-like number: exact mode = dyadic with 5 fractional bits in [-span, span]
func (g *gen) num(span int) float64 {
	if g.exact {
		return g.c.Dyadic(span, 5)
	}
	switch g.c.Rng.Intn(8) {
	case 0:
		return float64(g.c.Rng.Intn(2*span+1) - span)
	default:
		return (g.c.Rng.Float64()*2 - 1) * float64(span)
	}
}

// non-negative size
func (g *gen) size(span int) float64 {
	if g.c.Rng.Intn(12) == 0 {
		return 0
	}
	if g.exact {
		return float64(g.c.Rng.Intn(span*32)+1) / 32
	}
	if g.c.Rng.Intn(10) == 0 {
		return g.c.Rng.Float64() * 1e-3
	}
	return g.c.Rng.Float64()*float64(span) + 0.01
}

func (g *gen) snap(x float64) float64 {
	if g.exact {
		return math.Round(x*32) / 32
	}
	return x
}

func (g *gen) boxLoHi(d3 bool) (pt, pt) {
	var lo, hi pt
	for i := 0; i < dims(d3); i++ {
		lo[i] = g.num(6)
		hi[i] = lo[i] + g.size(6)
	}
	return lo, hi
}

// boxPts: corners, face centres, centre, slightly inward corners.
func boxPts(lo, hi pt, d3 bool, inward float64) []pt {
	var res []pt
	nd := dims(d3)
	for m := 0; m < 1<<uint(nd); m++ {
		var p, q pt
		for i := 0; i < nd; i++ {
			if m>>uint(i)&1 == 0 {
				p[i] = lo[i]
				q[i] = math.Min(lo[i]+inward, hi[i])
			} else {
				p[i] = hi[i]
				q[i] = math.Max(hi[i]-inward, lo[i])
			}
		}
		res = append(res, p, q)
	}
	var mid pt
	for i := 0; i < nd; i++ {
		mid[i] = (lo[i] + hi[i]) / 2
	}
	res = append(res, mid)
	return res
}

func (g *gen) sub(pts []pt, n int) []pt {
	if len(pts) <= n {
		return pts
	}
	g.c.Rng.Shuffle(len(pts), func(i, j int) { pts[i], pts[j] = pts[j], pts[i] })
	return pts[:n]
}

func (g *gen) inward() float64 {
	if g.exact {
		return 1.0 / 32
	}
	return 1e-3
}

// ---------------------------------------------------------------- wrapper-does-not-cut

// robustIn: the point and its axis neighbours at distance h are all inside (float mode), or just
// the point (exact mode, where every comparison is exact).
func (g *gen) robustIn(s sol, q pt, d3 bool, h float64) bool {
	if !finite(q) || !s.Contains(q) {
		return false
	}
	if g.exact {
		return true
	}
	// all 26 (2D: 8) neighbours: at a vertex of a rect decomposition the axis neighbours can all be
	// inside while an octant is empty, and the rounding of Inverse(Apply(q)) moves diagonally.
	// Several scales down to the rounding level: between two stacked / joined operands there can be a
	// sliver (e.g. next to the tip of a polytope) that the coarse neighbours straddle.
	for _, hh := range []float64{h, h * 1e-3, h * 1e-6, h * 4e-9} {
		if !g.neighboursIn(s, q, d3, hh) {
			return false
		}
	}
	return true
}

func (g *gen) neighboursIn(s sol, q pt, d3 bool, h float64) bool {
	zs := []float64{-1, 0, 1}
	if !d3 {
		zs = []float64{0}
	}
	for _, dx := range []float64{-1, 0, 1} {
		for _, dy := range []float64{-1, 0, 1} {
			for _, dz := range zs {
				r := pt{q[0] + dx*h, q[1] + dy*h, q[2] + dz*h}
				if !s.Contains(r) {
					return false
				}
			}
		}
	}
	return true
}

// anyNeighbourIn: some point of the 3x3(x3) stencil of width h around p is contained.
func anyNeighbourIn(s sol, p pt, d3 bool, h float64) bool {
	zs := []float64{-1, 0, 1}
	if !d3 {
		zs = []float64{0}
	}
	for _, dx := range []float64{-1, 0, 1} {
		for _, dy := range []float64{-1, 0, 1} {
			for _, dz := range zs {
				if s.Contains(pt{p[0] + dx*h, p[1] + dy*h, p[2] + dz*h}) {
					return true
				}
			}
		}
	}
	return false
}

// noCut: for every point of interest q of the operand where the underlying definition says
// inside (robustly, in float mode), the wrapper must report its image contained.
func (g *gen) noCut(wrapper string, inner sol, innerD3 bool, outer sol, pts []pt, fwd func(pt) (pt, bool), desc ...string) {
	lo, hi := inner.Min(), inner.Max()
	h := 1e-6 * boxScale(lo, hi, innerD3)
	for _, q := range pts {
		if !g.robustIn(inner, q, innerD3, h) {
			continue
		}
		p, ok := fwd(q)
		if !ok || !finite(p) {
			continue
		}
		g.cut++
		g.c.Stat("nocut_evaluations_"+wrapper, 1)
		if !outer.Contains(p) {
			if !g.exact {
				// float mode: the image is computed with rounding; a genuine cut removes a neighbourhood
				olo, ohi := outer.Min(), outer.Max()
				if finite(olo) && finite(ohi) && anyNeighbourIn(outer, p, true, 1e-9*boxScale(olo, ohi, true)) {
					g.c.Stat("nocut_image_on_boundary_skipped", 1)
					continue
				}
			}
			g.c.PropFail("c03:wrapper-cuts:"+wrapper, fmt.Sprintf("underlying definition contains %v (image %v) but the %s wrapper with box [%v,%v] rejects it; operand box [%v,%v]",
				q, p, wrapper, outer.Min(), outer.Max(), lo, hi)+" "+strings.Join(desc, " "))
			return
		}
	}
}

// ---------------------------------------------------------------- 3D leaves

func (g *gen) leaf3() *node {
	lo, hi := g.boxLoHi(true)
	k := g.c.Rng.Intn(10)
	switch {
	case k < 4:
		g.c.Stat("leaf_rect3", 1)
		return &node{d3: true, tok: "rect 3 " + fpt(lo) + " " + fpt(hi), s3: model3d.NewRect(c3(lo), c3(hi)),
			pts: boxPts(lo, hi, true, g.inward())}
	case k < 6 && g.exact:
		g.c.Stat("leaf_sphere3", 1)
		r := g.size(4)
		s := &sph3{Sphere: model3d.Sphere{Center: c3(lo), Radius: r}, rec: g.rec}
		pts := boxPts(p3(s.Min()), p3(s.Max()), true, g.inward())
		for i := 0; i < 3; i++ { // the six axis extreme points (on the box faces, on the surface)
			for _, sg := range []float64{-1, 1} {
				q := lo
				q[i] += sg * r
				pts = append(pts, q)
			}
		}
		return &node{d3: true, tok: "sph 3 " + fpt(lo) + " " + num(r), s3: s, pts: pts}
	case k == 6:
		// RectSet.Solid(): the real split tree, serialised through the verif hook
		rs := toolbox3d.NewRectSet()
		for i := 0; i < 1+g.c.Rng.Intn(5); i++ {
			a, b := g.boxLoHi(true)
			for j := range b {
				if b[j] <= a[j] {
					b[j] = a[j] + 1
				}
			}
			rs.Add(model3d.NewRect(c3(a), c3(b)))
		}
		if g.c.Rng.Intn(3) == 0 {
			a, b := g.boxLoHi(true)
			for j := range b {
				if b[j] <= a[j] {
					b[j] = a[j] + 1
				}
			}
			rs.Remove(model3d.NewRect(c3(a), c3(b)))
		}
		s := rs.Solid()
		tree := toolbox3d.VerifRectSetSolidTree(s, num)
		g.c.Stat("leaf_rectSetTree", 1)
		mn, mx := p3(s.Min()), p3(s.Max())
		pts := boxPts(mn, mx, true, g.inward())
		for _, r := range toolbox3d.VerifRectSetRects(rs) {
			pts = append(pts, boxPts(p3(r.MinVal), p3(r.MaxVal), true, g.inward())...)
		}
		return &node{d3: true, tok: "rset " + tree, s3: s, pts: g.sub(pts, 30)}
	case k == 8:
		if n := g.polyLeaf(true); n != nil {
			return n
		}
		return g.leaf3()
	case k == 7 && !g.exact:
		// heightMapSolid: InBounds && HigherAt; HigherAt is the recorded callback
		mn := model2d.XY(g.num(3), g.num(3))
		hm := toolbox3d.NewHeightMap(mn, mn.Add(model2d.XY(0.5+g.c.Rng.Float64()*3, 0.5+g.c.Rng.Float64()*3)), 8+g.c.Rng.Intn(16))
		for i := 0; i < 1+g.c.Rng.Intn(3); i++ {
			hm.AddSphere(mn.Add(model2d.XY(g.c.Rng.Float64()*3, g.c.Rng.Float64()*3)), 0.2+g.c.Rng.Float64()*1.5)
		}
		var s model3d.Solid
		if g.c.Rng.Intn(2) == 0 {
			s = toolbox3d.HeightMapToSolid(hm)
		} else {
			s = toolbox3d.HeightMapToSolidBidir(hm)
		}
		id := g.id()
		lo, hi := p3(s.Min()), p3(s.Max())
		g.c.Stat("leaf_heightMapModelled", 1)
		return &node{d3: true, tok: fmt.Sprintf("hm %s %s %s %s %d", fpt(pt{lo[0], lo[1], 0}), fpt(pt{hi[0], hi[1], 0}), num(lo[2]), num(hi[2]), id),
			s3: &hmLeaf{s: s, hm: hm, id: id, rec: g.rec}, pts: boxPts(lo, hi, true, g.inward())}
	default:
		name, s := g.opaque3()
		g.c.Stat("leaf_orc3_"+name, 1)
		id := g.id()
		o := &orc3{id: id, s: s, rec: g.rec}
		mn, mx := p3(s.Min()), p3(s.Max())
		return &node{d3: true, tok: fmt.Sprintf("orc 3 %s %s %d", fpt(mn), fpt(mx), id), s3: o,
			pts: boxPts(mn, mx, true, g.inward())}
	}
}

// opaque3: a real 3D solid used as an opaque leaf.  In exact mode only leaves with dyadic bounds.
func (g *gen) opaque3() (string, model3d.Solid) {
	lo, hi := g.boxLoHi(true)
	r := g.size(3) + 1.0/32
	if g.exact {
		switch g.c.Rng.Intn(5) {
		case 0:
			return "capsule", &model3d.Capsule{P1: c3(lo), P2: c3(hi), Radius: r}
		case 1:
			return "triangularBall", toolbox3d.TriangularBall(r, c3(lo))
		case 2:
			rs := toolbox3d.NewRectSet()
			for i := 0; i < 1+g.c.Rng.Intn(4); i++ {
				// positive thickness on every axis: a zero-thickness box makes newRectSetSolid recurse
				// without end (observed under C04, outside "rectangular volumes")
				a, b := g.boxLoHi(true)
				for k := range b {
					if b[k] <= a[k] {
						b[k] = a[k] + 1
					}
				}
				rs.Add(model3d.NewRect(c3(a), c3(b)))
			}
			return "rectSet", rs.Solid()
		case 3:
			return "funcSolid", model3d.FuncSolid(c3(lo), c3(hi), func(c model3d.Coord3D) bool {
				return model3d.InBounds(model3d.NewRect(c3(lo), c3(hi)), c) && c.X+c.Y <= lo[0]+hi[1]
			})
		default:
			return "polytopeRect", model3d.NewConvexPolytopeRect(c3(lo), c3(hi)).Solid()
		}
	}
	names := []string{"sphere", "cylinder", "cone", "torus", "capsule", "screw", "teardrop3d", "spurGear",
		"rectSet", "heightMap", "lineJoin", "radialCurve", "triangularLine", "ramp"}
	name := names[g.c.Rng.Intn(len(names))]
	return name, makeOpaque3(g.c, name)
}

// hmLeaf is the real height map solid; it records the underlying callback HigherAt(c.XY(), |c.Z|)
// (independently of the bounds test) for the model's `hm` node.
type hmLeaf struct {
	s   model3d.Solid
	hm  *toolbox3d.HeightMap
	id  int
	rec *recorder
}

func (h *hmLeaf) Min() model3d.Coord3D { return h.s.Min() }
func (h *hmLeaf) Max() model3d.Coord3D { return h.s.Max() }
func (h *hmLeaf) Contains(c model3d.Coord3D) bool {
	h.rec.add("b", h.id, p3(c), 0, f01(h.hm.HigherAt(c.XY(), math.Abs(c.Z))))
	return h.s.Contains(c)
}

// ---------------------------------------------------------------- 2D leaves

func (g *gen) leaf2() *node {
	lo, hi := g.boxLoHi(false)
	k := g.c.Rng.Intn(10)
	switch {
	case k < 4:
		g.c.Stat("leaf_rect2", 1)
		return &node{tok: "rect 2 " + fpt(lo) + " " + fpt(hi), s2: model2d.NewRect(c2(lo), c2(hi)),
			pts: boxPts(lo, hi, false, g.inward())}
	case k < 6 && g.exact:
		g.c.Stat("leaf_circle2", 1)
		r := g.size(4)
		s := &circ2{Circle: model2d.Circle{Center: c2(lo), Radius: r}, rec: g.rec}
		pts := boxPts(p2(s.Min()), p2(s.Max()), false, g.inward())
		for i := 0; i < 2; i++ {
			for _, sg := range []float64{-1, 1} {
				q := lo
				q[i] += sg * r
				pts = append(pts, q)
			}
		}
		return &node{tok: "sph 2 " + fpt(lo) + " " + num(r), s2: s, pts: pts}
	case k == 6 || k == 7:
		if n := g.polyLeaf(false); n != nil {
			return n
		}
		return g.leaf2()
	default:
		name, s := g.opaque2()
		g.c.Stat("leaf_orc2_"+name, 1)
		id := g.id()
		o := &orc2{id: id, s: s, rec: g.rec}
		mn, mx := p2(s.Min()), p2(s.Max())
		return &node{tok: fmt.Sprintf("orc 2 %s %s %d", fpt(mn), fpt(mx), id), s2: o,
			pts: boxPts(mn, mx, false, g.inward())}
	}
}

func (g *gen) opaque2() (string, model2d.Solid) {
	lo, hi := g.boxLoHi(false)
	r := g.size(3) + 1.0/32
	if g.exact {
		switch g.c.Rng.Intn(4) {
		case 0:
			return "capsule2", &model2d.Capsule{P1: c2(lo), P2: c2(hi), Radius: r}
		case 1:
			return "triangle2", model2d.NewTriangle(c2(lo), c2(hi), model2d.XY(lo[0], hi[1]))
		case 2:
			bm := model2d.NewBitmap(1+g.c.Rng.Intn(5), 1+g.c.Rng.Intn(5))
			for i := range bm.Data {
				bm.Data[i] = g.c.Rng.Intn(2) == 0
			}
			return "bitmap", model2d.BitmapToSolid(bm)
		default:
			return "polytopeRect2", model2d.NewConvexPolytopeRect(c2(lo), c2(hi)).Solid()
		}
	}
	names := []string{"circle", "capsule2", "triangle2", "teardrop2d", "gearProfile", "bitmap"}
	name := names[g.c.Rng.Intn(len(names))]
	return name, makeOpaque2(g.c, name)
}

// ---------------------------------------------------------------- transforms

func (g *gen) pow2() float64 {
	v := math.Ldexp(1, g.c.Rng.Intn(5)-2)
	if g.c.Rng.Intn(5) < 2 {
		v = -v
	}
	return v
}

func (g *gen) factor() float64 {
	if g.exact {
		return g.pow2()
	}
	v := 0.2 + g.c.Rng.Float64()*2.8
	if g.c.Rng.Intn(5) < 2 {
		v = -v
	}
	return v
}

// unimodular integer matrix (product of elementary shears, swaps and sign flips): exact inverse
func (g *gen) unimodular3() *model3d.Matrix3 {
	for {
		m := &model3d.Matrix3{1, 0, 0, 0, 1, 0, 0, 0, 1}
		for k := 0; k < 2+g.c.Rng.Intn(3); k++ {
			e := &model3d.Matrix3{1, 0, 0, 0, 1, 0, 0, 0, 1}
			i, j := g.c.Rng.Intn(3), g.c.Rng.Intn(3)
			switch g.c.Rng.Intn(3) {
			case 0:
				if i != j {
					e[3*i+j] = float64(g.c.Rng.Intn(3) - 1)
				}
			case 1:
				if i != j {
					e[3*i+i], e[3*j+j], e[3*i+j], e[3*j+i] = 0, 0, 1, 1
				}
			default:
				e[3*i+i] = -1
			}
			m = m.Mul(e)
		}
		ok := true
		for _, x := range m {
			if math.Abs(x) > 4 {
				ok = false
			}
		}
		inv := m.Inverse()
		id := m.Mul(inv)
		if *id != (model3d.Matrix3{1, 0, 0, 0, 1, 0, 0, 0, 1}) {
			ok = false
		}
		if ok {
			return m
		}
	}
}

func (g *gen) matrix3() *model3d.Matrix3 {
	if g.exact {
		return g.unimodular3()
	}
	if g.c.Rng.Intn(3) > 0 {
		axis := model3d.XYZ(g.c.Rng.NormFloat64(), g.c.Rng.NormFloat64(), g.c.Rng.NormFloat64()).Normalize()
		if g.c.Rng.Intn(4) == 0 {
			axis = model3d.Z(1)
		}
		return model3d.NewMatrix3Rotation(axis, g.c.Rng.Float64()*2*math.Pi)
	}
	for {
		var m model3d.Matrix3
		for i := range m {
			m[i] = g.c.Rng.Float64()*4 - 2
		}
		if math.Abs(m.Det()) > 0.3 {
			return &m
		}
	}
}

func mat3Tok(m *model3d.Matrix3) string {
	var sb []string
	for _, x := range m {
		sb = append(sb, num(x))
	}
	return strings.Join(sb, " ")
}

func (g *gen) xforms3() (model3d.Transform, string) {
	k := 1 + g.c.Rng.Intn(3)
	if g.c.Rng.Intn(2) == 0 {
		k = 1
	}
	var ts model3d.JoinedTransform
	tok := fmt.Sprintf("xf %d", k)
	for i := 0; i < k; i++ {
		switch g.c.Rng.Intn(5) {
		case 0:
			o := pt{g.num(6), g.num(6), g.num(6)}
			ts = append(ts, &model3d.Translate{Offset: c3(o)})
			tok += " tr " + fpt(o)
			g.c.Stat("xf_translate", 1)
		case 1:
			s := g.factor()
			ts = append(ts, &model3d.Scale{Scale: s})
			tok += " sc " + num(s)
			g.c.Stat("xf_scale", 1)
			if s < 0 {
				g.c.Stat("xf_scale_negative", 1)
			}
		case 2, 3:
			v := pt{g.factor(), g.factor(), g.factor()}
			ts = append(ts, &model3d.VecScale{Scale: c3(v)})
			tok += " vs " + fpt(v)
			g.c.Stat("xf_vecscale", 1)
			if v[0] < 0 || v[1] < 0 || v[2] < 0 {
				g.c.Stat("xf_vecscale_negative", 1)
			}
		default:
			m := g.matrix3()
			ts = append(ts, &model3d.Matrix3Transform{Matrix: m})
			tok += " m3 " + mat3Tok(m) + " " + mat3Tok(m.Inverse())
			g.c.Stat("xf_matrix3", 1)
		}
	}
	if k == 1 && g.c.Rng.Intn(2) == 0 {
		return ts[0], tok
	}
	return ts, tok
}

func (g *gen) matrix2() *model2d.Matrix2 {
	if g.exact {
		ms := []model2d.Matrix2{{1, 1, 0, 1}, {0, 1, 1, 0}, {1, 0, -1, 1}, {-1, 0, 0, 1}, {2, 1, 1, 1}, {0, -1, 1, 0}, {1, -2, 0, 1}}
		m := ms[g.c.Rng.Intn(len(ms))]
		return &m
	}
	if g.c.Rng.Intn(2) == 0 {
		return model2d.NewMatrix2Rotation(g.c.Rng.Float64() * 2 * math.Pi)
	}
	for {
		m := model2d.Matrix2{g.c.Rng.Float64()*4 - 2, g.c.Rng.Float64()*4 - 2, g.c.Rng.Float64()*4 - 2, g.c.Rng.Float64()*4 - 2}
		if math.Abs(m.Det()) > 0.3 {
			return &m
		}
	}
}

func (g *gen) xforms2() (model2d.Transform, string) {
	k := 1 + g.c.Rng.Intn(2)
	var ts model2d.JoinedTransform
	tok := fmt.Sprintf("xf %d", k)
	for i := 0; i < k; i++ {
		switch g.c.Rng.Intn(4) {
		case 0:
			o := pt{g.num(6), g.num(6), 0}
			ts = append(ts, &model2d.Translate{Offset: c2(o)})
			tok += " tr " + fpt(o)
		case 1:
			s := g.factor()
			ts = append(ts, &model2d.Scale{Scale: s})
			tok += " sc " + num(s)
		case 2:
			v := pt{g.factor(), g.factor(), 1}
			ts = append(ts, &model2d.VecScale{Scale: c2(v)})
			tok += " vs " + fpt(v)
		default:
			m := g.matrix2()
			mi := m.Inverse()
			ts = append(ts, &model2d.Matrix2Transform{Matrix: m})
			tok += fmt.Sprintf(" m2 %s %s %s %s %s %s %s %s", num(m[0]), num(m[1]), num(m[2]), num(m[3]),
				num(mi[0]), num(mi[1]), num(mi[2]), num(mi[3]))
		}
		g.c.Stat("xf_2d", 1)
	}
	if k == 1 {
		return ts[0], tok
	}
	return ts, tok
}

// ---------------------------------------------------------------- SDF / collider / metaball leaves

func (g *gen) sdfLeaf3() (model3d.SDF, string) {
	lo, hi := g.boxLoHi(true)
	var s model3d.SDF
	switch g.c.Rng.Intn(3) {
	case 0:
		s = model3d.NewRect(c3(lo), c3(hi))
	case 1:
		s = &model3d.Sphere{Center: c3(lo), Radius: g.size(3) + 1.0/32}
	default:
		if lo == hi {
			hi[0] += 1 // P1 == P2 makes Capsule.SDF divide by zero (NaN); not a solid parameter of interest here
		}
		s = &model3d.Capsule{P1: c3(lo), P2: c3(hi), Radius: g.size(2) + 1.0/32}
	}
	id := g.id()
	o := &orcSDF3{id: id, s: s, rec: g.rec}
	return o, fmt.Sprintf("sdfl 3 %s %s %d", fpt(p3(s.Min())), fpt(p3(s.Max())), id)
}

func (g *gen) sdfLeaf2() (model2d.SDF, string) {
	lo, hi := g.boxLoHi(false)
	var s model2d.SDF
	switch g.c.Rng.Intn(2) {
	case 0:
		s = model2d.NewRect(c2(lo), c2(hi))
	default:
		s = &model2d.Circle{Center: c2(lo), Radius: g.size(3) + 1.0/32}
	}
	id := g.id()
	o := &orcSDF2{id: id, s: s, rec: g.rec}
	return o, fmt.Sprintf("sdfl 2 %s %s %d", fpt(p2(s.Min())), fpt(p2(s.Max())), id)
}

func (g *gen) collLeaf3() (model3d.Collider, string, pt, pt) {
	lo, hi := g.boxLoHi(true)
	for i := range hi {
		hi[i] += 0.5
	}
	var cl model3d.Collider
	switch g.c.Rng.Intn(3) {
	case 0:
		cl = model3d.NewRect(c3(lo), c3(hi))
	case 1:
		cl = model3d.MeshToCollider(model3d.NewMeshRect(c3(lo), c3(hi)))
	default:
		cl = &model3d.Sphere{Center: c3(lo), Radius: g.size(3) + 0.5}
	}
	id := g.id()
	o := &orcColl3{Collider: cl, id: id, rec: g.rec}
	return o, fmt.Sprintf("coll 3 %s %s %d", fpt(p3(cl.Min())), fpt(p3(cl.Max())), id), p3(cl.Min()), p3(cl.Max())
}

func (g *gen) mbLeaf3() (model3d.Metaball, string) {
	lo, hi := g.boxLoHi(true)
	var m model3d.Metaball
	switch g.c.Rng.Intn(3) {
	case 0:
		m = model3d.NewRect(c3(lo), c3(hi))
	case 1:
		m = &model3d.Sphere{Center: c3(lo), Radius: g.size(3) + 0.1}
	default:
		if lo == hi {
			hi[0] += 1
		}
		m = &model3d.Capsule{P1: c3(lo), P2: c3(hi), Radius: g.size(2) + 0.1}
	}
	var factors []float64
	switch g.c.Rng.Intn(4) {
	case 0:
		s := 0.3 + g.c.Rng.Float64()*2
		m = model3d.ScaleMetaball(m, s)
		factors = append(factors, math.Abs(1/s))
	case 1:
		v := model3d.XYZ(0.3+g.c.Rng.Float64()*2, -(0.3 + g.c.Rng.Float64()*2), 0.3+g.c.Rng.Float64()*2)
		m = model3d.VecScaleMetaball(m, v)
		factors = append(factors, 1/v.Abs().MaxCoord())
	case 2:
		m = model3d.TranslateMetaball(m, model3d.XYZ(g.num(3), g.num(3), g.num(3)))
	}
	id := g.id()
	o := &orcMB3{Metaball: m, id: id, rec: g.rec}
	tok := fmt.Sprintf("mbl 3 %s %s %d %d", fpt(p3(m.Min())), fpt(p3(m.Max())), id, len(factors))
	for _, f := range factors {
		tok += " " + num(f)
	}
	return o, tok
}

// ---------------------------------------------------------------- 3D expressions

func joinToks(head string, ns []*node) string {
	s := fmt.Sprintf("%s %d", head, len(ns))
	for _, n := range ns {
		s += " " + n.tok
	}
	return s
}

func (g *gen) kids3(depth, n int) ([]*node, []model3d.Solid, []pt) {
	var ns []*node
	var ss []model3d.Solid
	var pts []pt
	for i := 0; i < n; i++ {
		d := depth - 1
		if i > 0 && g.c.Rng.Intn(2) == 0 {
			d = g.c.Rng.Intn(depth)
		}
		k := g.solid3(d)
		ns = append(ns, k)
		ss = append(ss, k.s3)
		pts = append(pts, k.pts...)
	}
	return ns, ss, g.sub(pts, 28)
}

func (g *gen) solid3(depth int) *node {
	if depth <= 0 {
		return g.leaf3()
	}
	const nk = 20
	k := g.c.Rng.Intn(nk)
	switch k {
	case 0: // ForceSolidBounds
		in := g.solid3(depth - 1)
		lo, hi := p3(in.s3.Min()), p3(in.s3.Max())
		for i := 0; i < 3; i++ { // shrink / grow some sides; keep min <= max
			if g.c.Rng.Intn(2) == 0 {
				lo[i] = g.snap(lo[i] + (g.c.Rng.Float64()-0.5)*2)
			}
			if g.c.Rng.Intn(2) == 0 {
				hi[i] = g.snap(hi[i] + (g.c.Rng.Float64()-0.5)*2)
			}
			if hi[i] < lo[i] {
				hi[i] = lo[i]
			}
		}
		g.c.Stat("node_force", 1)
		return &node{d3: true, tok: "chk " + fpt(lo) + " " + fpt(hi) + " " + in.tok,
			s3: model3d.ForceSolidBounds(in.s3, c3(lo), c3(hi)), pts: append(boxPts(lo, hi, true, g.inward()), in.pts...)}
	case 1:
		in := g.solid3(depth - 1)
		out := model3d.CacheSolidBounds(in.s3)
		g.noCut("cache", sol3{in.s3}, true, sol3{out}, in.pts, func(q pt) (pt, bool) { return q, true })
		g.c.Stat("node_cache", 1)
		return &node{d3: true, tok: "cache " + in.tok, s3: out, pts: in.pts}
	case 2, 3:
		ns, ss, pts := g.kids3(depth, 2+g.c.Rng.Intn(3))
		g.c.Stat("node_joined", 1)
		return &node{d3: true, tok: joinToks("join", ns), s3: model3d.JoinedSolid(ss), pts: pts}
	case 4, 5:
		ns, ss, pts := g.kids3(depth, 2+g.c.Rng.Intn(2))
		res := model3d.IntersectedSolid(ss)
		g.c.Stat("node_intersected", 1)
		// disjoint operands: the raw intersection of the boxes is empty on some axis
		mn, mx := ss[0].Max(), ss[0].Max()
		mn = res.Min()
		for _, s := range ss[1:] {
			mx = mx.Min(s.Max())
		}
		if mx.X < mn.X || mx.Y < mn.Y || mx.Z < mn.Z {
			g.c.Stat("node_intersected_disjoint_boxes", 1)
		}
		return &node{d3: true, tok: joinToks("inter", ns), s3: res, pts: pts}
	case 6:
		ns, _, pts := g.kids3(depth, 2)
		g.c.Stat("node_subtracted", 1)
		return &node{d3: true, tok: "sub " + ns[0].tok + " " + ns[1].tok,
			s3: &model3d.SubtractedSolid{Positive: ns[0].s3, Negative: ns[1].s3}, pts: pts}
	case 7:
		ns, ss, _ := g.kids3(depth, 2+g.c.Rng.Intn(2))
		res := model3d.StackSolids(ss...)
		// points of the operands, moved with them
		var pts []pt
		joined := res.(model3d.JoinedSolid)
		for i, n := range ns {
			dz := joined[i].Min().Z - n.s3.Min().Z
			for _, q := range n.pts {
				q[2] += dz
				pts = append(pts, q)
			}
		}
		g.c.Stat("node_stackSolids", 1)
		return &node{d3: true, tok: joinToks("stack", ns), s3: res, pts: g.sub(pts, 28)}
	case 8:
		ns, ss, _ := g.kids3(depth, 2+g.c.Rng.Intn(2))
		res := model3d.StackedSolid(ss)
		var pts []pt
		cz := ss[0].Min().Z
		for _, n := range ns {
			dz := cz - n.s3.Min().Z
			shifted := make([]pt, len(n.pts))
			for i, q := range n.pts {
				q[2] += dz
				shifted[i] = q
			}
			g.noCut("stacked", sol3{n.s3}, true, sol3{res}, n.pts, func(q pt) (pt, bool) { q[2] += dz; return q, g.exact })
			pts = append(pts, shifted...)
			cz = n.s3.Max().Z + dz
		}
		g.c.Stat("node_stackedSolid", 1)
		return &node{d3: true, tok: joinToks("stacked", ns), s3: res, pts: g.sub(pts, 28)}
	case 9, 10, 11:
		in := g.solid3(depth - 1)
		t, tok := g.xforms3()
		out := model3d.TransformSolid(t, in.s3)
		fwd := func(q pt) (pt, bool) { return p3(t.Apply(c3(q))), true }
		g.noCut("transform", sol3{in.s3}, true, sol3{out}, in.pts, fwd, tok, in.tok)
		var pts []pt
		for _, q := range in.pts {
			p, _ := fwd(q)
			pts = append(pts, p)
		}
		g.c.Stat("node_transform", 1)
		return &node{d3: true, tok: tok + " " + in.tok, s3: out, pts: pts}
	case 12:
		in := g.solid2(depth - 1)
		minZ := g.num(4)
		maxZ := minZ + g.size(4)
		out := model3d.ProfileSolid(in.s2, minZ, maxZ)
		var pts []pt
		for _, q := range in.pts {
			for _, z := range []float64{minZ, maxZ, g.snap((minZ + maxZ) / 2)} {
				pts = append(pts, pt{q[0], q[1], z})
			}
		}
		for _, z := range []float64{minZ, maxZ} {
			z := z
			g.noCut("profile", sol2{in.s2}, false, sol3{out}, in.pts, func(q pt) (pt, bool) { return pt{q[0], q[1], z}, true })
		}
		g.c.Stat("node_profile", 1)
		return &node{d3: true, tok: "prof " + in.tok + " " + num(minZ) + " " + num(maxZ), s3: out, pts: g.sub(pts, 28)}
	case 13:
		if g.exact {
			return g.solid3(depth)
		}
		in := g.solid2(depth - 1)
		if in.s2.Max().Y-in.s2.Min().Y < 1e-6 {
			return g.solid3(depth)
		}
		ax := model3d.XYZ(g.c.Rng.NormFloat64(), g.c.Rng.NormFloat64(), g.c.Rng.NormFloat64())
		if g.c.Rng.Intn(3) == 0 {
			ax = model3d.Z(2)
		}
		out := model3d.RevolveSolid(in.s2, ax)
		n := ax.Normalize()
		b1, b2 := n.OrthoBasis()
		var pts []pt
		th := g.c.Rng.Float64() * 2 * math.Pi
		perp := b1.Scale(math.Cos(th)).Add(b2.Scale(math.Sin(th)))
		fwd := func(q pt) (pt, bool) {
			if q[0] < 0 {
				return q, false
			}
			return p3(n.Scale(q[1]).Add(perp.Scale(q[0]))), true
		}
		// revolve recomputes (x, y) with rounding: only points robustly inside at a coarser scale
		lo2, hi2 := p2(in.s2.Min()), p2(in.s2.Max())
		h := 1e-4 * boxScale(lo2, hi2, false)
		var robust []pt
		for _, q := range in.pts {
			ok := q[0] >= 0
			for _, d := range []pt{{h, 0}, {-h, 0}, {0, h}, {0, -h}, {h, h}, {-h, -h}, {h, -h}, {-h, h}} {
				ok = ok && in.s2.Contains(model2d.XY(q[0]+d[0], q[1]+d[1]))
			}
			if ok {
				robust = append(robust, q)
			}
			if p, ok := fwd(q); ok {
				pts = append(pts, p)
			}
		}
		g.noCut("revolve", sol2{in.s2}, false, sol3{out}, robust, fwd)
		g.c.Stat("node_revolve", 1)
		return &node{d3: true, tok: "rev " + in.tok + " " + fpt(p3(ax)), s3: out, pts: pts}
	case 14:
		in := g.solid3(depth - 1)
		axis := g.c.Rng.Intn(3)
		lo, hi := p3(in.s3.Min()), p3(in.s3.Max())
		mn := g.snap(lo[axis] + (hi[axis]-lo[axis])*(g.c.Rng.Float64()*1.6-0.3))
		mx := g.snap(lo[axis] + (hi[axis]-lo[axis])*(g.c.Rng.Float64()*1.6-0.3))
		var out model3d.Solid
		var tok string
		switch g.c.Rng.Intn(3) {
		case 0:
			out = toolbox3d.ClampAxis(in.s3, toolbox3d.Axis(axis), mn, mx)
			tok = fmt.Sprintf("clamp %s %d %s %s", in.tok, axis, num(mn), num(mx))
		case 1:
			out = toolbox3d.ClampAxisMax(in.s3, toolbox3d.Axis(axis), mx)
			tok = fmt.Sprintf("clamp %s %d -inf %s", in.tok, axis, num(mx))
		default:
			out = toolbox3d.ClampAxisMin(in.s3, toolbox3d.Axis(axis), mn)
			tok = fmt.Sprintf("clamp %s %d %s +inf", in.tok, axis, num(mn))
		}
		g.c.Stat("node_clamp", 1)
		return &node{d3: true, tok: tok, s3: out, pts: append(boxPts(p3(out.Min()), p3(out.Max()), true, g.inward()), in.pts...)}
	case 15:
		s, tok := g.sdfLeaf3()
		outset := g.size(2)
		if g.c.Rng.Intn(3) == 0 {
			// inset, small enough to keep the box valid
			w := s.Max().Sub(s.Min())
			outset = -g.snap(math.Min(math.Min(w.X, w.Y), w.Z) / 4)
		}
		out := model3d.SDFToSolid(s, outset)
		lo, hi := p3(out.Min()), p3(out.Max())
		pts := boxPts(lo, hi, true, g.inward())
		// underlying definition: sdf > -outset
		for _, q := range pts {
			if v := s.SDF(c3(q)); v > -outset {
				g.cut++
				g.c.Stat("nocut_evaluations_sdfToSolid", 1)
				if !out.Contains(c3(q)) {
					g.c.PropFail("c03:wrapper-cuts:sdfToSolid", fmt.Sprintf("sdf(%v)=%g > -outset=%g but SDFToSolid box [%v,%v] rejects it", q, v, -outset, lo, hi))
					break
				}
			}
		}
		g.c.Stat("node_sdfToSolid", 1)
		return &node{d3: true, tok: "sdf " + tok + " " + num(outset), s3: out, pts: pts}
	case 16:
		if g.exact {
			return g.solid3(depth)
		}
		n := 1 + g.c.Rng.Intn(4)
		var sdfs []model3d.SDF
		tok := ""
		for i := 0; i < n; i++ {
			s, t := g.sdfLeaf3()
			sdfs = append(sdfs, s)
			tok += " " + t
		}
		r := g.size(2)
		out := model3d.SmoothJoin(r, sdfs...)
		lo, hi := p3(out.Min()), p3(out.Max())
		pts := boxPts(lo, hi, true, g.inward())
		for _, s := range sdfs {
			pts = append(pts, boxPts(p3(s.Min()), p3(s.Max()), true, r/2)...)
		}
		// a sound consequence of the underlying definition: inside any operand => inside the join
		for _, q := range pts {
			for _, s := range sdfs {
				if s.SDF(c3(q)) > 0 {
					g.c.Stat("nocut_evaluations_smoothJoin", 1)
					if !out.Contains(c3(q)) {
						g.c.PropFail("c03:wrapper-cuts:smoothJoin", fmt.Sprintf("operand sdf>0 at %v but SmoothJoin(r=%g) box [%v,%v] rejects it", q, r, lo, hi))
					}
					break
				}
			}
		}
		g.c.Stat("node_smoothJoin", 1)
		return &node{d3: true, tok: fmt.Sprintf("smooth %s %d%s", num(r), n, tok), s3: out, pts: g.sub(pts, 28)}
	case 17:
		cl, tok, clo, chi := g.collLeaf3()
		var out model3d.Solid
		var t string
		if g.c.Rng.Intn(2) == 0 {
			inset := g.size(1)
			if g.c.Rng.Intn(2) == 0 {
				inset = -inset
			}
			if g.c.Rng.Intn(6) == 0 {
				inset = 0
			}
			cs := model3d.NewColliderSolidInset(cl, inset)
			out = cs
			t = "inset " + tok + " " + num(inset)
			g.c.Stat("node_colliderInset", 1)
			for _, q := range boxPts(clo, chi, true, math.Abs(inset)) {
				if model3d.ColliderContains(cl, c3(q), inset) {
					g.c.Stat("nocut_evaluations_colliderInset", 1)
					if !out.Contains(c3(q)) {
						g.c.PropFail("c03:wrapper-cuts:colliderInset", fmt.Sprintf("ColliderContains(%v, inset=%g) but the solid with box [%v,%v] rejects it", q, inset, out.Min(), out.Max()))
						break
					}
				}
			}
		} else {
			r := g.size(1)
			out = model3d.NewColliderSolidHollow(cl, r)
			t = "hollow " + tok + " " + num(r)
			g.c.Stat("node_colliderHollow", 1)
			for _, q := range boxPts(clo, chi, true, r) {
				if r != 0 && cl.SphereCollision(c3(q), r) {
					g.c.Stat("nocut_evaluations_colliderHollow", 1)
					if !out.Contains(c3(q)) {
						g.c.PropFail("c03:wrapper-cuts:colliderHollow", fmt.Sprintf("SphereCollision(%v, %g) but the solid with box [%v,%v] rejects it", q, r, out.Min(), out.Max()))
						break
					}
				}
			}
		}
		lo, hi := p3(out.Min()), p3(out.Max())
		return &node{d3: true, tok: t, s3: out, pts: append(boxPts(lo, hi, true, g.inward()), boxPts(clo, chi, true, g.inward())...)}
	case 18:
		if n := g.polyLeaf(true); n != nil {
			return n
		}
		return g.leaf3()
	default:
		if g.exact {
			if n := g.polyLeaf(true); n != nil {
				return n
			}
			return g.leaf3()
		}
		// MetaballSolid (float mode)
		n := 1 + g.c.Rng.Intn(3)
		var ms []model3d.Metaball
		tok := ""
		for i := 0; i < n; i++ {
			m, t := g.mbLeaf3()
			ms = append(ms, m)
			tok += " " + t
		}
		rt := 0.05 + g.c.Rng.Float64()
		var out model3d.Solid
		res := hlib.Guard(func() string { out = model3d.MetaballSolid(nil, rt, ms...); return "ok" })
		if res != "ok" {
			g.c.Stat("metaball_constructor_panic", 1)
			return g.leaf3()
		}
		lo, hi := p3(out.Min()), p3(out.Max())
		pts := boxPts(lo, hi, true, g.inward())
		thr := model3d.QuarticMetaballFalloffFunc(rt)
		for _, q := range pts {
			var sum float64
			for _, m := range ms {
				sum += model3d.QuarticMetaballFalloffFunc(m.MetaballField(c3(q)))
			}
			if sum > thr {
				g.c.Stat("nocut_evaluations_metaball", 1)
				if !out.Contains(c3(q)) {
					g.c.PropFail("c03:wrapper-cuts:metaball", fmt.Sprintf("field sum %g > threshold %g at %v but the solid with box [%v,%v] rejects it", sum, thr, q, lo, hi))
					break
				}
			}
		}
		g.c.Stat("node_metaball", 1)
		return &node{d3: true, tok: fmt.Sprintf("mb %s %d%s", num(rt), n, tok), s3: out, pts: pts}
	}
}

// ---------------------------------------------------------------- 2D expressions

func (g *gen) kids2(depth, n int) ([]*node, []model2d.Solid, []pt) {
	var ns []*node
	var ss []model2d.Solid
	var pts []pt
	for i := 0; i < n; i++ {
		k := g.solid2(depth - 1)
		ns = append(ns, k)
		ss = append(ss, k.s2)
		pts = append(pts, k.pts...)
	}
	return ns, ss, g.sub(pts, 20)
}

func (g *gen) solid2(depth int) *node {
	if depth <= 0 {
		return g.leaf2()
	}
	switch g.c.Rng.Intn(9) {
	case 0:
		in := g.solid2(depth - 1)
		out := model2d.CacheSolidBounds(in.s2)
		g.noCut("cache2d", sol2{in.s2}, false, sol2{out}, in.pts, func(q pt) (pt, bool) { return q, true })
		return &node{tok: "cache " + in.tok, s2: out, pts: in.pts}
	case 1:
		ns, ss, pts := g.kids2(depth, 2+g.c.Rng.Intn(2))
		g.c.Stat("node_joined2d", 1)
		return &node{tok: joinToks("join", ns), s2: model2d.JoinedSolid(ss), pts: pts}
	case 2:
		ns, ss, pts := g.kids2(depth, 2)
		g.c.Stat("node_intersected2d", 1)
		return &node{tok: joinToks("inter", ns), s2: model2d.IntersectedSolid(ss), pts: pts}
	case 3:
		ns, _, pts := g.kids2(depth, 2)
		g.c.Stat("node_subtracted2d", 1)
		return &node{tok: "sub " + ns[0].tok + " " + ns[1].tok,
			s2: &model2d.SubtractedSolid{Positive: ns[0].s2, Negative: ns[1].s2}, pts: pts}
	case 4, 5:
		in := g.solid2(depth - 1)
		t, tok := g.xforms2()
		out := model2d.TransformSolid(t, in.s2)
		fwd := func(q pt) (pt, bool) { return p2(t.Apply(c2(q))), true }
		g.noCut("transform2d", sol2{in.s2}, false, sol2{out}, in.pts, fwd)
		var pts []pt
		for _, q := range in.pts {
			p, _ := fwd(q)
			pts = append(pts, p)
		}
		g.c.Stat("node_transform2d", 1)
		return &node{tok: tok + " " + in.tok, s2: out, pts: pts}
	case 6:
		in := g.solid3(depth - 1)
		axis := g.c.Rng.Intn(3)
		lo, hi := p3(in.s3.Min()), p3(in.s3.Max())
		v := g.snap(lo[axis] + (hi[axis]-lo[axis])*(g.c.Rng.Float64()*1.2-0.1))
		if len(in.pts) > 0 && g.c.Rng.Intn(2) == 0 {
			v = in.pts[g.c.Rng.Intn(len(in.pts))][axis]
		}
		var out model2d.Solid
		if g.c.Rng.Intn(2) == 0 {
			out = model3d.CrossSectionSolid(in.s3, axis, v)
			g.c.Stat("node_crossSection", 1)
		} else {
			out = toolbox3d.SliceSolid(in.s3, toolbox3d.Axis(axis), v)
			g.c.Stat("node_sliceSolid", 1)
		}
		drop := func(q pt) pt {
			switch axis {
			case 0:
				return pt{q[1], q[2], 0}
			case 1:
				return pt{q[0], q[2], 0}
			}
			return pt{q[0], q[1], 0}
		}
		var pts []pt
		var onPlane []pt
		for _, q := range in.pts {
			pts = append(pts, drop(q))
			q[axis] = v
			onPlane = append(onPlane, q)
		}
		g.noCut("crossSection", sol3{in.s3}, true, sol2{out}, onPlane, func(q pt) (pt, bool) { return drop(q), true })
		return &node{tok: fmt.Sprintf("cross %s %d %s", in.tok, axis, num(v)), s2: out, pts: pts}
	case 7:
		s, tok := g.sdfLeaf2()
		outset := g.size(2)
		out := model2d.SDFToSolid(s, outset)
		g.c.Stat("node_sdfToSolid2d", 1)
		return &node{tok: "sdf " + tok + " " + num(outset), s2: out, pts: boxPts(p2(out.Min()), p2(out.Max()), false, g.inward())}
	default:
		in := g.solid2(depth - 1)
		lo, hi := p2(in.s2.Min()), p2(in.s2.Max())
		for i := 0; i < 2; i++ {
			if g.c.Rng.Intn(2) == 0 {
				lo[i] = g.snap(lo[i] + (g.c.Rng.Float64()-0.5)*2)
			}
			if hi[i] < lo[i] {
				hi[i] = lo[i]
			}
		}
		return &node{tok: "chk " + fpt(lo) + " " + fpt(hi) + " " + in.tok,
			s2: model2d.ForceSolidBounds(in.s2, c2(lo), c2(hi)), pts: append(boxPts(lo, hi, false, g.inward()), in.pts...)}
	}
}

// ---------------------------------------------------------------- one tree = one case

func runTrees(c *hlib.Ctx) {
	n := c.N
	for i := 0; i < n; i++ {
		exact := i%2 == 0
		d3 := i%5 != 4
		depth := i % 7
		oneTree(c, exact, d3, depth)
	}
}

func oneTree(c *hlib.Ctx, exact, d3 bool, depth int) {
	mode := "f"
	if exact {
		mode = "q"
	}
	g := &gen{c: c, exact: exact, rec: newRecorder(), site: "c03:tree-" + mode, inTree: true}
	var root *node
	res := hlib.Guard(func() string {
		if d3 {
			root = g.solid3(depth)
		} else {
			root = g.solid2(depth)
		}
		return "ok"
	})
	if res != "ok" {
		// a constructor panicked (FuncSolid: invalid bounds) on harness-chosen valid parameters
		c.Stat("tree_constructor_panic", 1)
		c.PropFail("c03:constructor-panic", res)
		return
	}
	s := root.sol()
	lo, hi := s.Min(), s.Max()
	valid := validBox(s, d3)
	if !valid {
		c.PropFail("c03:invalid-bounds", fmt.Sprintf("tree %s reports bounds [%v,%v] (mode %s)", root.tok, lo, hi, mode))
	}
	if !finite(lo) || !finite(hi) {
		c.Stat("tree_nonfinite_bounds", 1)
		return
	}
	scale := boxScale(lo, hi, d3)
	var deltas []float64
	if exact {
		deltas = []float64{1.0 / 32, 1.0 / 1024, 1.0 / 4}
	} else {
		deltas = []float64{1e-8 * scale * 1.01, 1e-6 * scale, 1e-3 * scale, 0.3}
	}
	pts := shellPoints(c, lo, hi, d3, deltas, g.snap, 24)
	pts = append(pts, g.sub(root.pts, 20)...)
	var clean []pt
	for _, p := range pts {
		if finite(p) {
			if !d3 {
				p[2] = 0
			}
			clean = append(clean, p)
		}
	}
	pts = clean
	if !exact {
		// rounding-level shell (1 ulp outside): counted, never decisive
		for i := 0; i < dims(d3); i++ {
			p := lo
			for j := 0; j < dims(d3); j++ {
				p[j] = (lo[j] + hi[j]) / 2
			}
			p[i] = math.Nextafter(hi[i], math.Inf(1))
			if s.Contains(p) {
				c.Stat("float_ulp_shell_contained", 1)
			}
			c.Stat("float_ulp_shell_points", 1)
		}
	}
	g.rec.reset()
	var ans strings.Builder
	for _, p := range pts {
		ans.WriteString(b2s(s.Contains(p)))
	}
	checkOutside(c, "c03:contains-outside-box:tree-"+mode, s, d3, pts, exact, root.tok)
	for _, e := range g.rec.ents {
		if math.IsNaN(e.v) || math.IsInf(e.v, 0) {
			c.Stat("tree_skipped_nonfinite_oracle_value", 1)
			return
		}
	}
	if exact && g.rec.inexact {
		c.Stat("tree_dropped_inexact_sphere_arithmetic", 1)
		return
	}
	var sb strings.Builder
	fmt.Fprintf(&sb, "c03 tree %s %s | %s | %d", mode, root.tok, g.rec.String(), len(pts))
	for _, p := range pts {
		sb.WriteString(" " + fpt(p))
	}
	impl := fmt.Sprintf("%d %s %s %s %s", dims(d3), fptD(lo, d3), fptD(hi, d3), b2s(valid), ans.String())
	c.EmitSite(sb.String(), impl, "corr:c03 tree-"+mode)
	c.Stat("trees_"+mode, 1)
	c.Stat(fmt.Sprintf("trees_depth_%d", depth), 1)
	c.Stat("tree_points", len(pts))
	for _, ch := range ans.String() {
		if ch == '1' {
			c.Stat("tree_points_contained", 1)
		}
	}
}
