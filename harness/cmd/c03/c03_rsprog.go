package main

// Kind `rsprog`: programs over several *toolbox3d.RectSet OBJECTS, observed as bounded solids.
//
//	a|r <i> <6 coords>   v_i.Add / v_i.Remove
//	A|R <i> <j>          v_i.AddRectSet(v_j) / v_i.RemoveRectSet(v_j)
//	N <i>                v_i = NewRectSet()
//	S <i>                v_i.Solid()   (the solid is kept and queried after the whole program)
//
// Every object gets a final `S`.  Output per `S`: `<valid>:` + one character per probe point:
// `0` not contained, `1` contained and inside both the box the solid reports and the box
// RectSet.Min()/Max() reported at the time of the call, `x` contained outside one of them.  The
// driver prints the requirement on a store of VALUES (no object shares a slice or a map with
// another): `1:` + "some rect stored in the receiver at that moment contains the point"
// (M3d.C03.rectset_program_bounds / rectset_program_answers).  RectSet code only compares and
// copies coordinates, so every float64 input is exact for the Rat model.
//
// Generator: besides free random programs, a "copy, then edit" family draws on purpose what an
// aliasing defect needs: a source set whose split slices have spare capacity (3, 5, 6, 7 splits on
// an axis: boxes sharing faces on a small integer lattice), a copy into an EMPTY receiver (fresh,
// reset, or emptied by Remove), then edits of either object (Add/Remove/AddRectSet/RemoveRectSet)
// with coordinates strictly between existing splits (quarter lattice), then queries of both.

import (
	"fmt"
	"sort"
	"strings"

	"verif/harness/hlib"

	"github.com/unixpickle/model3d/model3d"
	"github.com/unixpickle/model3d/toolbox3d"
)

type rsStmt struct {
	op   byte
	i, j int
	lo   pt
	hi   pt
}

func (s rsStmt) String() string {
	switch s.op {
	case 'a', 'r':
		return fmt.Sprintf("%c %d %s %s", s.op, s.i, fpt(s.lo), fpt(s.hi))
	case 'A', 'R':
		return fmt.Sprintf("%c %d %d", s.op, s.i, s.j)
	default:
		return fmt.Sprintf("%c %d", s.op, s.i)
	}
}

func runRsProg(c *hlib.Ctx) {
	n := c.N/4 + 10
	for k := 0; k < n; k++ {
		rsProgCase(c, k)
	}
}

// rsBox draws a box on the lattice of step 1/den inside [0, span].
func rsBox(c *hlib.Ctx, span, den int, flatOK bool) (pt, pt) {
	var lo, hi pt
	for i := 0; i < 3; i++ {
		a := c.Rng.Intn(span*den + 1)
		b := c.Rng.Intn(span*den + 1)
		if a > b {
			a, b = b, a
		}
		if a == b && !(flatOK && i == 0 && c.Rng.Intn(8) == 0) {
			if b < span*den {
				b++
			} else {
				a--
			}
		}
		lo[i], hi[i] = float64(a)/float64(den), float64(b)/float64(den)
	}
	return lo, hi
}

func rsProgCase(c *hlib.Ctx, k int) {
	rng := c.Rng
	nobj := 2 + rng.Intn(2)
	var prog []rsStmt
	add := func(op byte, i, j int, lo, hi pt) { prog = append(prog, rsStmt{op, i, j, lo, hi}) }
	other := func(i int) int { return (i + 1 + rng.Intn(nobj-1)) % nobj }
	edit := func(i int, den int) {
		switch x := rng.Intn(10); {
		case x < 5:
			lo, hi := rsBox(c, 4, den, true)
			add('a', i, 0, lo, hi)
		case x < 7:
			lo, hi := rsBox(c, 4, den, false)
			add('r', i, 0, lo, hi)
		case x < 9:
			j := other(i)
			if rng.Intn(12) == 0 {
				j = i // a set added to / removed from itself
			}
			add([]byte{'A', 'R'}[x-7], i, j, pt{}, pt{})
		default:
			add('S', i, 0, pt{}, pt{})
		}
	}
	family := "free"
	if k%5 != 0 {
		family = "copy"
		src := rng.Intn(nobj)
		dst := other(src)
		// the source: a few lattice boxes (shared faces are frequent on a 0..3 lattice)
		for t := 0; t < 1+rng.Intn(4); t++ {
			lo, hi := rsBox(c, 3, 1, false)
			add('a', src, 0, lo, hi)
		}
		if rng.Intn(4) == 0 {
			lo, hi := rsBox(c, 3, 1, false)
			add('r', src, 0, lo, hi)
			if rng.Intn(2) == 0 { // let the rebuilt slices grow again
				lo, hi := rsBox(c, 3, 1, false)
				add('a', src, 0, lo, hi)
			}
		}
		// the receiver: fresh / reset / filled and emptied again
		switch rng.Intn(4) {
		case 0:
			add('N', dst, 0, pt{}, pt{})
		case 1:
			lo, hi := rsBox(c, 3, 1, false)
			add('a', dst, 0, lo, hi)
			add('r', dst, 0, lo, hi)
		}
		add('A', dst, src, pt{}, pt{})
		if rng.Intn(3) == 0 {
			add('S', []int{src, dst}[rng.Intn(2)], 0, pt{}, pt{})
		}
		for t := 0; t < 1+rng.Intn(3); t++ {
			who := []int{src, dst}[rng.Intn(2)]
			if nobj > 2 && rng.Intn(6) == 0 {
				who = rng.Intn(nobj)
			}
			edit(who, []int{4, 4, 2, 1}[rng.Intn(4)])
		}
	} else {
		for t := 0; t < 3+rng.Intn(8); t++ {
			edit(rng.Intn(nobj), []int{1, 1, 2, 4}[rng.Intn(4)])
		}
	}
	for i := 0; i < nobj; i++ {
		add('S', i, 0, pt{}, pt{})
	}

	// probe points: per axis every coordinate of the program, the midpoints between neighbours and
	// one value beyond either end; corners / centres of the boxes of the program and random grid points
	var axes [3][]float64
	for _, s := range prog {
		if s.op == 'a' || s.op == 'r' {
			for i := 0; i < 3; i++ {
				axes[i] = append(axes[i], s.lo[i], s.hi[i])
			}
		}
	}
	for i := range axes {
		if len(axes[i]) == 0 {
			axes[i] = []float64{0, 1}
		}
		sort.Float64s(axes[i])
		u := axes[i][:1]
		for _, v := range axes[i][1:] {
			if v != u[len(u)-1] {
				u = append(u, v)
			}
		}
		g := []float64{u[0] - 0.5}
		for j, v := range u {
			if j > 0 {
				g = append(g, (u[j-1]+v)/2)
			}
			g = append(g, v)
		}
		axes[i] = append(g, u[len(u)-1]+0.5)
	}
	var pts []pt
	for _, s := range prog {
		if s.op != 'a' && s.op != 'r' {
			continue
		}
		for t := 0; t < 3; t++ {
			var p pt
			for i := 0; i < 3; i++ {
				switch rng.Intn(3) {
				case 0:
					p[i] = s.lo[i]
				case 1:
					p[i] = s.hi[i]
				default:
					p[i] = (s.lo[i] + s.hi[i]) / 2
				}
			}
			pts = append(pts, p)
		}
	}
	for t := 0; t < 30; t++ {
		var p pt
		for i := 0; i < 3; i++ {
			p[i] = axes[i][rng.Intn(len(axes[i]))]
		}
		pts = append(pts, p)
	}

	// ---- run the program on the real objects
	type kept struct {
		s        model3d.Solid
		rmin, rmax pt // RectSet.Min()/Max() at the time of the call
		err      string
	}
	var solids []kept
	vars := make([]*toolbox3d.RectSet, nobj)
	for i := range vars {
		vars[i] = toolbox3d.NewRectSet()
	}
	partner := map[int]int{} // object -> object it was copied from / into while empty
	failed := ""
	for _, s := range prog {
		v := vars[s.i]
		msg := hlib.Guard(func() string {
			switch s.op {
			case 'a':
				rsNoteEdit(c, vars, partner, s)
				v.Add(model3d.NewRect(c3(s.lo), c3(s.hi)))
			case 'r':
				rsNoteEdit(c, vars, partner, s)
				v.Remove(model3d.NewRect(c3(s.lo), c3(s.hi)))
			case 'A':
				if len(toolbox3d.VerifRectSetRects(v)) == 0 && len(toolbox3d.VerifRectSetRects(vars[s.j])) > 0 && s.i != s.j {
					c.Stat("rsprog_copy_into_empty_receiver", 1)
					partner[s.i], partner[s.j] = s.j, s.i
					for _, sp := range toolbox3d.VerifRectSetSplits(vars[s.j]) {
						if l := len(sp); l == 3 || (l >= 5 && l <= 7) {
							c.Stat("rsprog_copy_source_axis_with_3_5_6_7_splits", 1)
							break
						}
					}
				}
				v.AddRectSet(vars[s.j])
			case 'R':
				v.RemoveRectSet(vars[s.j])
			case 'N':
				vars[s.i] = toolbox3d.NewRectSet()
				delete(partner, s.i)
			case 'S':
				sol := v.Solid()
				solids = append(solids, kept{s: sol, rmin: p3(v.Min()), rmax: p3(v.Max())})
			}
			return ""
		})
		if msg != "" {
			failed = msg + "@" + s.String()
			break
		}
	}
	c.Stat("rsprog_cases_"+family, 1)

	var sb strings.Builder
	fmt.Fprintf(&sb, "c03 rsprog q %d", len(prog))
	for _, s := range prog {
		sb.WriteString(" " + s.String())
	}
	fmt.Fprintf(&sb, " %d", len(pts))
	for _, p := range pts {
		sb.WriteString(" " + fpt(p))
	}
	var stmts []string
	for _, s := range prog {
		stmts = append(stmts, s.String())
	}
	progStr := "program [" + strings.Join(stmts, "; ") + "]: "
	if failed != "" {
		c.Emit(sb.String(), failed)
		return
	}

	var outs []string
	for si, ks := range solids {
		out := hlib.Guard(func() string {
			mn, mx := p3(ks.s.Min()), p3(ks.s.Max())
			valid := model3d.BoundsValid(ks.s) && finite(ks.rmin) && finite(ks.rmax)
			for i := 0; i < 3; i++ {
				if !(ks.rmin[i] <= ks.rmax[i]) {
					valid = false
				}
			}
			var b strings.Builder
			b.WriteString(b2s(valid) + ":")
			for _, p := range pts {
				switch {
				case !ks.s.Contains(c3(p)):
					b.WriteByte('0')
				case inBox(mn, mx, p, true) && inBox(ks.rmin, ks.rmax, p, true):
					b.WriteByte('1')
				default:
					b.WriteByte('x')
					c.PropFail("c03:contains-outside-box:rectset", fmt.Sprintf(
						"%sSolid() call #%d contains %v outside its box [%v,%v] / RectSet box [%v,%v]", progStr, si, p, mn, mx, ks.rmin, ks.rmax))
				}
			}
			return b.String()
		})
		outs = append(outs, out)
	}
	// evaluated directly on the implementation: the box RectSet.Min()/Max() reports encloses every stored rect
	for i, v := range vars {
		mn, mx := p3(v.Min()), p3(v.Max())
		for _, r := range toolbox3d.VerifRectSetRects(v) {
			if !inBox(mn, mx, p3(r.MinVal), true) || !inBox(mn, mx, p3(r.MaxVal), true) {
				c.PropFail("c03:wrapper-cuts:rectset", fmt.Sprintf(
					"%safterwards v_%d reports bounds [%v,%v] but stores the rect [%v,%v]", progStr, i, mn, mx, r.MinVal, r.MaxVal))
				break
			}
		}
		c.Stat("rsprog_final_objects", 1)
	}
	c.Stat("rsprog_points", len(pts)*len(solids))
	c.Emit(sb.String(), strings.Join(outs, " "))
}

// rsNoteEdit counts the edits that give a split strictly inside the range of the partner of a copy.
func rsNoteEdit(c *hlib.Ctx, vars []*toolbox3d.RectSet, partner map[int]int, s rsStmt) {
	j, ok := partner[s.i]
	if !ok {
		return
	}
	sp := toolbox3d.VerifRectSetSplits(vars[j])
	for ax := 0; ax < 3; ax++ {
		if len(sp[ax]) < 2 {
			continue
		}
		for _, v := range []float64{s.lo[ax], s.hi[ax]} {
			if v > sp[ax][0] && v < sp[ax][len(sp[ax])-1] {
				k := sort.SearchFloat64s(sp[ax], v)
				if k >= len(sp[ax]) || sp[ax][k] != v {
					c.Stat("rsprog_edit_after_copy_with_new_inner_split", 1)
					return
				}
			}
		}
	}
}
