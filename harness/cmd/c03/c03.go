// Command c03 drives the REAL solids of model2d / model3d / toolbox3d for property C03
// ("solids never contain points outside their reported bounding box; wrappers do not cut"):
//
//   - random expression trees (depth <= 6) over primitives and combinators are built with the
//     library's own constructors; Min()/Max()/BoundsValid/Contains of the real object are written
//     next to the serialised expression, which the Lean driver (lean/M3d/Drv/C03.lean) evaluates
//     with the model the theorems of lean/M3d/Props/C03.lean are about (mode q: exact rationals on
//     dyadic inputs, mode f: IEEE doubles, same operations in the same order);
//   - query points concentrate on a thin shell just outside the reported box, on its faces and
//     corners and on the operands' surfaces; "contained outside the reported box", invalid bounds
//     and "wrapper cut the shape" are evaluated directly on the implementation (PropFail);
//   - every 2D/3D constructor and toolbox part also enters as an opaque leaf whose boundedness
//     hypothesis is tested on the shell stream (kind "shell"; the model's answer is the
//     requirement "ok").
package main

import (
	"fmt"
	"math"
	"strings"

	"verif/harness/hlib"

	"github.com/unixpickle/model3d/model2d"
	"github.com/unixpickle/model3d/model3d"
)

func main() { hlib.Main("C03", run) }

func run(c *hlib.Ctx) {
	runTrees(c)
	runPrimBounds(c)
	runPolyCut(c)
	runPolyVerts(c)
	runPolyRect(c)
	runShells(c)
	runRsProg(c) // last: keeps the random streams of the earlier kinds unchanged
	runTriLine(c) // added after rsprog: the streams of all earlier kinds stay as they were
}

// ---------------------------------------------------------------- points and adapters

type pt = [3]float64

// sol is the dimension-independent view of a real Solid.
type sol interface {
	Min() pt
	Max() pt
	Contains(p pt) bool
	Valid() bool
}

type sol3 struct{ s model3d.Solid }

func c3(p pt) model3d.Coord3D  { return model3d.XYZ(p[0], p[1], p[2]) }
func p3(c model3d.Coord3D) pt  { return pt{c.X, c.Y, c.Z} }
func c2(p pt) model2d.Coord    { return model2d.XY(p[0], p[1]) }
func p2(c model2d.Coord) pt    { return pt{c.X, c.Y, 0} }
func (s sol3) Min() pt         { return p3(s.s.Min()) }
func (s sol3) Max() pt         { return p3(s.s.Max()) }
func (s sol3) Contains(p pt) bool { return s.s.Contains(c3(p)) }
func (s sol3) Valid() bool     { return model3d.BoundsValid(s.s) }

type sol2 struct{ s model2d.Solid }

func (s sol2) Min() pt            { return p2(s.s.Min()) }
func (s sol2) Max() pt            { return p2(s.s.Max()) }
func (s sol2) Contains(p pt) bool { return s.s.Contains(c2(p)) }
func (s sol2) Valid() bool        { return model2d.BoundsValid(s.s) }

func b2s(b bool) string {
	if b {
		return "1"
	}
	return "0"
}

func num(x float64) string {
	if math.IsInf(x, 1) {
		return "+inf"
	}
	if math.IsInf(x, -1) {
		return "-inf"
	}
	return hlib.RatStr(x)
}

func fpt(p pt) string { return num(p[0]) + " " + num(p[1]) + " " + num(p[2]) }

func fptD(p pt, d3 bool) string {
	if d3 {
		return fpt(p)
	}
	return num(p[0]) + " " + num(p[1])
}

func finite(p pt) bool {
	for _, x := range p {
		if math.IsNaN(x) || math.IsInf(x, 0) {
			return false
		}
	}
	return true
}

func dims(d3 bool) int {
	if d3 {
		return 3
	}
	return 2
}

func inBox(lo, hi, p pt, d3 bool) bool {
	for i := 0; i < dims(d3); i++ {
		if !(lo[i] <= p[i] && p[i] <= hi[i]) {
			return false
		}
	}
	return true
}

// outsideBy is the largest per-axis distance by which p lies outside the box (0 if inside).
func outsideBy(lo, hi, p pt, d3 bool) float64 {
	res := 0.0
	for i := 0; i < dims(d3); i++ {
		res = math.Max(res, math.Max(lo[i]-p[i], p[i]-hi[i]))
	}
	return res
}

func boxScale(lo, hi pt, d3 bool) float64 {
	s := 1.0
	for i := 0; i < dims(d3); i++ {
		s = math.Max(s, math.Max(math.Abs(lo[i]), math.Abs(hi[i])))
	}
	return s
}

// ---------------------------------------------------------------- recorder for opaque leaves

type entry struct {
	tag  string
	id   int
	p    pt
	r, v float64
}

type recorder struct {
	ents    []entry
	seen    map[string]bool
	inexact bool // an exact-mode leaf was queried outside the range where its arithmetic is exact
}

func newRecorder() *recorder { return &recorder{seen: map[string]bool{}} }

func (r *recorder) add(tag string, id int, p pt, rr, v float64) {
	key := fmt.Sprintf("%s %d %x %x %x %x", tag, id, math.Float64bits(p[0]), math.Float64bits(p[1]),
		math.Float64bits(p[2]), math.Float64bits(rr))
	if r.seen[key] {
		return
	}
	r.seen[key] = true
	r.ents = append(r.ents, entry{tag, id, p, rr, v})
}

func (r *recorder) reset() {
	r.inexact = false
	r.ents = nil
	r.seen = map[string]bool{}
}

func (r *recorder) String() string {
	var sb strings.Builder
	fmt.Fprintf(&sb, "%d", len(r.ents))
	for _, e := range r.ents {
		fmt.Fprintf(&sb, " %s %d %s %s %s", e.tag, e.id, fpt(e.p), num(e.r), num(e.v))
	}
	return sb.String()
}

func f01(b bool) float64 {
	if b {
		return 1
	}
	return 0
}

type orc3 struct {
	id  int
	s   model3d.Solid
	rec *recorder
}

func (o *orc3) Min() model3d.Coord3D { return o.s.Min() }
func (o *orc3) Max() model3d.Coord3D { return o.s.Max() }
func (o *orc3) Contains(c model3d.Coord3D) bool {
	v := o.s.Contains(c)
	o.rec.add("b", o.id, p3(c), 0, f01(v))
	return v
}

type orc2 struct {
	id  int
	s   model2d.Solid
	rec *recorder
}

func (o *orc2) Min() model2d.Coord { return o.s.Min() }
func (o *orc2) Max() model2d.Coord { return o.s.Max() }
func (o *orc2) Contains(c model2d.Coord) bool {
	v := o.s.Contains(c)
	o.rec.add("b", o.id, p2(c), 0, f01(v))
	return v
}

type orcSDF3 struct {
	id  int
	s   model3d.SDF
	rec *recorder
}

func (o *orcSDF3) Min() model3d.Coord3D { return o.s.Min() }
func (o *orcSDF3) Max() model3d.Coord3D { return o.s.Max() }
func (o *orcSDF3) SDF(c model3d.Coord3D) float64 {
	v := o.s.SDF(c)
	o.rec.add("v", o.id, p3(c), 0, v)
	return v
}

type orcSDF2 struct {
	id  int
	s   model2d.SDF
	rec *recorder
}

func (o *orcSDF2) Min() model2d.Coord { return o.s.Min() }
func (o *orcSDF2) Max() model2d.Coord { return o.s.Max() }
func (o *orcSDF2) SDF(c model2d.Coord) float64 {
	v := o.s.SDF(c)
	o.rec.add("v", o.id, p2(c), 0, v)
	return v
}

type orcColl3 struct {
	model3d.Collider
	id  int
	rec *recorder
}

func (o *orcColl3) RayCollisions(r *model3d.Ray, f func(model3d.RayCollision)) int {
	n := o.Collider.RayCollisions(r, f)
	// ColliderContains only looks at the parity; report an even count with the same parity
	o.rec.add("i", o.id, p3(r.Origin), 0, f01(n%2 == 1))
	return n
}

func (o *orcColl3) SphereCollision(c model3d.Coord3D, r float64) bool {
	v := o.Collider.SphereCollision(c, r)
	o.rec.add("s", o.id, p3(c), r, f01(v))
	return v
}

type orcMB3 struct {
	model3d.Metaball
	id  int
	rec *recorder
}

func (o *orcMB3) MetaballField(c model3d.Coord3D) float64 {
	v := o.Metaball.MetaballField(c)
	o.rec.add("v", o.id, p3(c), 0, v)
	return v
}

// exact-mode sphere / circle: flags queries whose squared distance is not exactly representable
type sph3 struct {
	model3d.Sphere
	rec *recorder
}

func exactSq(d float64) bool {
	if d == 0 {
		return true
	}
	m, _ := math.Frexp(d)
	// number of significant bits of the mantissa
	mi := int64(m * (1 << 53))
	tz := 0
	for mi&1 == 0 && tz < 53 {
		mi >>= 1
		tz++
	}
	return 53-tz <= 24
}

func (s *sph3) Contains(c model3d.Coord3D) bool {
	d := c.Sub(s.Center)
	if !exactSq(d.X) || !exactSq(d.Y) || !exactSq(d.Z) || math.Abs(d.X)+math.Abs(d.Y)+math.Abs(d.Z) > 1<<20 {
		s.rec.inexact = true
	}
	return s.Sphere.Contains(c)
}

type circ2 struct {
	model2d.Circle
	rec *recorder
}

func (s *circ2) Contains(c model2d.Coord) bool {
	d := c.Sub(s.Center)
	if !exactSq(d.X) || !exactSq(d.Y) || math.Abs(d.X)+math.Abs(d.Y) > 1<<20 {
		s.rec.inexact = true
	}
	return s.Circle.Contains(c)
}

// ---------------------------------------------------------------- point streams

// shellPoints returns points just outside each face of the box (offset delta), on the faces and
// corners, and a few inside; other coordinates are drawn from a small palette around the box.
func shellPoints(c *hlib.Ctx, lo, hi pt, d3 bool, deltas []float64, snap func(float64) float64, n int) []pt {
	nd := dims(d3)
	var res []pt
	pick := func(i int) float64 {
		switch c.Rng.Intn(6) {
		case 0:
			return lo[i]
		case 1:
			return hi[i]
		case 2:
			return snap((lo[i] + hi[i]) / 2)
		default:
			return snap(lo[i] + (hi[i]-lo[i])*c.Rng.Float64())
		}
	}
	for k := 0; k < n; k++ {
		var p pt
		for i := 0; i < nd; i++ {
			p[i] = pick(i)
		}
		switch k % 4 {
		case 0, 1: // just outside one face
			i := c.Rng.Intn(nd)
			d := deltas[c.Rng.Intn(len(deltas))]
			if c.Rng.Intn(2) == 0 {
				p[i] = lo[i] - d
			} else {
				p[i] = hi[i] + d
			}
		case 2: // on a face / edge / corner
			for i := 0; i < nd; i++ {
				if c.Rng.Intn(2) == 0 {
					if c.Rng.Intn(2) == 0 {
						p[i] = lo[i]
					} else {
						p[i] = hi[i]
					}
				}
			}
		}
		res = append(res, p)
	}
	return res
}

// checkOutside evaluates the property predicate on the implementation: a contained point must be
// inside the reported box.  In exact mode (and for distances above slack) this is a failure; in
// float mode leaks within slack = 1e-8*scale (the code's own epsilon) are only counted.
func checkOutside(c *hlib.Ctx, site string, s sol, d3 bool, pts []pt, exact bool, desc string) (fail bool) {
	lo, hi := s.Min(), s.Max()
	scale := boxScale(lo, hi, d3)
	for _, p := range pts {
		if !finite(p) {
			continue
		}
		if inBox(lo, hi, p, d3) || !s.Contains(p) {
			continue
		}
		d := outsideBy(lo, hi, p, d3)
		if !exact && d <= 1e-8*scale {
			c.Stat("float_leak_within_1e-8_slack", 1)
			continue
		}
		c.PropFail(site, fmt.Sprintf("contains point %v outside reported box [%v,%v] by %g: %s", p, lo, hi, d, desc))
		fail = true
		break
	}
	return
}

func validBox(s sol, d3 bool) bool {
	lo, hi := s.Min(), s.Max()
	if !finite(lo) || !finite(hi) {
		return false
	}
	for i := 0; i < dims(d3); i++ {
		if hi[i] < lo[i] {
			return false
		}
	}
	return s.Valid()
}
