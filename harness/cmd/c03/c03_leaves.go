package main

import (
	"fmt"
	"math"

	"verif/harness/hlib"

	"github.com/unixpickle/model3d/model2d"
	"github.com/unixpickle/model3d/model3d"
	"github.com/unixpickle/model3d/toolbox3d"
)

func rnd(c *hlib.Ctx, span float64) float64 { return (c.Rng.Float64()*2 - 1) * span }

func rndPt3(c *hlib.Ctx, span float64) model3d.Coord3D {
	return model3d.XYZ(rnd(c, span), rnd(c, span), rnd(c, span))
}

// rndDir3: arbitrary orientations, including axis-aligned and nearly axis-aligned ones
func rndDir3(c *hlib.Ctx) model3d.Coord3D {
	switch c.Rng.Intn(6) {
	case 0:
		var a [3]float64
		a[c.Rng.Intn(3)] = 1
		if c.Rng.Intn(2) == 0 {
			a[c.Rng.Intn(3)] = -1
		}
		v := model3d.NewCoord3DArray(a)
		if v.Norm() == 0 {
			return model3d.Z(1)
		}
		return v
	case 1:
		var a [3]float64
		a[c.Rng.Intn(3)] = 1
		a[c.Rng.Intn(3)] += rnd(c, 1e-6)
		return model3d.NewCoord3DArray(a)
	default:
		return model3d.XYZ(c.Rng.NormFloat64(), c.Rng.NormFloat64(), c.Rng.NormFloat64())
	}
}

func rndSize(c *hlib.Ctx) float64 {
	switch c.Rng.Intn(8) {
	case 0:
		return 1e-3 * (c.Rng.Float64() + 0.01)
	case 1:
		return 50 * (c.Rng.Float64() + 0.1)
	default:
		return 0.05 + c.Rng.Float64()*3
	}
}

var opaque3Names = []string{"sphere", "cylinder", "cone", "torus", "capsule", "screw", "screwPointed", "teardrop3d",
	"spurGear", "helicalGear", "rectSet", "heightMap", "heightMapBidir", "lineJoin", "l1LineJoin", "radialCurve",
	"triangularLine", "triangularBall", "triangularPolygon", "ramp", "clampAxis", "polytope", "meshSolid", "stackSolids"}

var opaque2Names = []string{"circle", "capsule2", "triangle2", "teardrop2d", "teardrop2dDirected", "gearProfile",
	"gearProfileSizes", "bitmap", "sliceSolid", "polytope2", "meshSolid2"}

// extraProbes: leaf-specific points worth querying (set by makeOpaque3, consumed by shellCase)
var extraProbes []pt

func makeOpaque3(c *hlib.Ctx, name string) model3d.Solid {
	extraProbes = nil
	p1 := rndPt3(c, 4)
	dir := rndDir3(c)
	length := rndSize(c)
	p2 := p1.Add(dir.Normalize().Scale(length))
	r := rndSize(c)
	switch name {
	case "sphere":
		return &model3d.Sphere{Center: p1, Radius: r}
	case "cylinder":
		return &model3d.Cylinder{P1: p1, P2: p2, Radius: r}
	case "cone":
		return &model3d.Cone{Tip: p1, Base: p2, Radius: r}
	case "torus":
		inner := r * (0.05 + 0.9*c.Rng.Float64())
		return &model3d.Torus{Center: p1, Axis: dir.Scale(0.2 + c.Rng.Float64()*3), OuterRadius: r, InnerRadius: inner}
	case "capsule":
		return &model3d.Capsule{P1: p1, P2: p2, Radius: r}
	case "screw", "screwPointed":
		return &toolbox3d.ScrewSolid{P1: p1, P2: p2, Radius: r, GrooveSize: r * (0.05 + 0.4*c.Rng.Float64()), Pointed: name == "screwPointed"}
	case "teardrop3d":
		return toolbox3d.Teardrop3D(p1, p2, r)
	case "spurGear":
		return &toolbox3d.SpurGear{P1: p1, P2: p2, Profile: gearProfile(c, false)}
	case "helicalGear":
		return &toolbox3d.HelicalGear{P1: p1, P2: p2, Profile: gearProfile(c, true), Angle: rnd(c, 0.6)}
	case "rectSet":
		rs := toolbox3d.NewRectSet()
		for i := 0; i < 1+c.Rng.Intn(5); i++ {
			a := rndPt3(c, 3)
			rs.Add(model3d.NewRect(a, a.Add(model3d.XYZ(rndSize(c), rndSize(c), rndSize(c)))))
		}
		if c.Rng.Intn(4) == 0 {
			a := rndPt3(c, 3)
			rs.Remove(model3d.NewRect(a, a.Add(model3d.XYZ(1, 1, 1))))
		}
		return rs.Solid()
	case "heightMap", "heightMapBidir":
		mn := model2d.XY(rnd(c, 3), rnd(c, 3))
		hm := toolbox3d.NewHeightMap(mn, mn.Add(model2d.XY(0.5+c.Rng.Float64()*3, 0.5+c.Rng.Float64()*3)), 8+c.Rng.Intn(24))
		for i := 0; i < 1+c.Rng.Intn(4); i++ {
			hm.AddSphere(mn.Add(model2d.XY(c.Rng.Float64()*3, c.Rng.Float64()*3)), 0.2+c.Rng.Float64()*1.5)
		}
		if name == "heightMap" {
			return toolbox3d.HeightMapToSolid(hm)
		}
		return toolbox3d.HeightMapToSolidBidir(hm)
	case "lineJoin":
		return toolbox3d.LineJoin(r, model3d.NewSegment(p1, p2), model3d.NewSegment(p2, rndPt3(c, 4)))
	case "l1LineJoin":
		return toolbox3d.L1LineJoin(r, model3d.NewSegment(p1, p2), model3d.NewSegment(p2, rndPt3(c, 4)))
	case "radialCurve":
		q := rndPt3(c, 3)
		rr := 0.1 + c.Rng.Float64()
		return toolbox3d.RadialCurve(3+c.Rng.Intn(6), c.Rng.Intn(2) == 0, func(t float64) (model3d.Coord3D, float64) {
			return p1.Add(q.Scale(math.Cos(2*math.Pi*t))).Add(model3d.XYZ(q.Y, -q.X, q.Z*0.3).Scale(math.Sin(2*math.Pi*t))), rr * (1 + 0.5*math.Sin(7*t))
		})
	case "triangularLine":
		return toolbox3d.TriangularLine(r, p1, p2)
	case "triangularBall":
		return toolbox3d.TriangularBall(r, p1)
	case "triangularPolygon":
		return toolbox3d.TriangularPolygon(r, c.Rng.Intn(2) == 0, p1, p2, rndPt3(c, 4), rndPt3(c, 4))
	case "ramp":
		inner := model3d.Solid(&model3d.Sphere{Center: p1, Radius: r})
		if c.Rng.Intn(2) == 0 {
			inner = model3d.NewRect(p1, p1.Add(model3d.XYZ(rndSize(c), rndSize(c), rndSize(c))))
		}
		// the ramp axis: inside the solid's box, partly outside, or entirely elsewhere
		a := inner.Min().Add(inner.Max().Sub(inner.Min()).Mul(model3d.XYZ(c.Rng.Float64(), c.Rng.Float64(), c.Rng.Float64())))
		b := inner.Min().Add(inner.Max().Sub(inner.Min()).Mul(model3d.XYZ(c.Rng.Float64(), c.Rng.Float64(), c.Rng.Float64())))
		switch c.Rng.Intn(4) {
		case 1:
			a = a.Add(rndPt3(c, 2*r+1))
		case 2:
			a = a.Add(rndPt3(c, 2*r+1))
			b = b.Add(rndPt3(c, 2*r+1))
		case 3:
			// tip on a face of the box, base far away in an oblique direction
			arr := a.Array()
			k := c.Rng.Intn(3)
			if c.Rng.Intn(2) == 0 {
				arr[k] = inner.Max().Array()[k]
			} else {
				arr[k] = inner.Min().Array()[k]
			}
			a = model3d.NewCoord3DArray(arr)
			b = a.Add(rndPt3(c, 4*r+2))
		}
		// the points the ramp pulls towards its axis: (1-s)*(a+s*(b-a)) + s*m for m in the solid's box
		for k := 0; k < 300; k++ {
			m := inner.Min().Add(inner.Max().Sub(inner.Min()).Mul(model3d.XYZ(c.Rng.Float64(), c.Rng.Float64(), c.Rng.Float64())))
			// the ramp maps c back to m exactly when m-ax is orthogonal to the axis: take the scale from m
			axis := b.Sub(a)
			sc := axis.Dot(m.Sub(a)) / axis.Dot(axis)
			if !(sc > 0 && sc < 1) {
				sc = c.Rng.Float64()
			}
			ax := a.Add(axis.Scale(sc))
			extraProbes = append(extraProbes, p3(ax.Add(m.Sub(ax).Scale(sc))))
		}
		return &toolbox3d.Ramp{Solid: inner, P1: a, P2: b}
	case "clampAxis":
		inner := &model3d.Cylinder{P1: p1, P2: p2, Radius: r}
		return toolbox3d.ClampAxis(inner, toolbox3d.Axis(c.Rng.Intn(3)), rnd(c, 4), rnd(c, 4))
	case "polytope":
		p := model3d.NewConvexPolytopeRect(p1, p1.Add(model3d.XYZ(rndSize(c)+0.1, rndSize(c)+0.1, rndSize(c)+0.1)))
		mid := p1.Add(model3d.XYZ(0.05, 0.05, 0.05))
		for i := 0; i < c.Rng.Intn(4); i++ {
			n := rndDir3(c)
			p = append(p, &model3d.LinearConstraint{Normal: n, Max: n.Dot(mid) + c.Rng.Float64()*n.Norm()})
		}
		if c.Rng.Intn(2) == 0 {
			// un-normalised constraints: the same half-spaces with normals of length 2^k, k in [-60, 60]
			for _, l := range p {
				f := math.Ldexp(1, c.Rng.Intn(121)-60)
				l.Normal, l.Max = l.Normal.Scale(f), l.Max*f
			}
		}
		return p.Solid()
	case "meshSolid":
		m := model3d.NewMeshIcosphere(p1, r, 2)
		return model3d.NewColliderSolid(model3d.MeshToCollider(m))
	case "stackSolids":
		return model3d.StackSolids(&model3d.Cylinder{P1: p1, P2: p2, Radius: r}, &model3d.Sphere{Center: p2, Radius: r / 2},
			&model3d.Cone{Tip: p1, Base: p2, Radius: r})
	}
	panic("unknown opaque3 " + name)
}

func gearProfile(c *hlib.Ctx, sizes bool) toolbox3d.GearProfile {
	teeth := 6 + c.Rng.Intn(30)
	module := 0.02 + c.Rng.Float64()*0.3
	pa := (15 + c.Rng.Float64()*15) * math.Pi / 180
	if sizes {
		return toolbox3d.InvoluteGearProfileSizes(pa, module, module*(0.5+c.Rng.Float64()), module*(0.5+c.Rng.Float64()), teeth)
	}
	return toolbox3d.InvoluteGearProfile(pa, module, module*c.Rng.Float64()*0.5, teeth)
}

func makeOpaque2(c *hlib.Ctx, name string) model2d.Solid {
	p1 := model2d.XY(rnd(c, 4), rnd(c, 4))
	p2 := model2d.XY(rnd(c, 4), rnd(c, 4))
	r := rndSize(c)
	switch name {
	case "circle":
		return &model2d.Circle{Center: p1, Radius: r}
	case "capsule2":
		return &model2d.Capsule{P1: p1, P2: p2, Radius: r}
	case "triangle2":
		return model2d.NewTriangle(p1, p2, model2d.XY(rnd(c, 4), rnd(c, 4)))
	case "teardrop2d":
		return &toolbox3d.Teardrop2D{Center: p1, Radius: r}
	case "teardrop2dDirected":
		return &toolbox3d.Teardrop2D{Center: p1, Radius: r, Direction: model2d.XY(c.Rng.NormFloat64(), c.Rng.NormFloat64())}
	case "gearProfile":
		return gearProfile(c, false)
	case "gearProfileSizes":
		return gearProfile(c, true)
	case "bitmap":
		bm := model2d.NewBitmap(1+c.Rng.Intn(6), 1+c.Rng.Intn(6))
		for i := range bm.Data {
			bm.Data[i] = c.Rng.Intn(2) == 0
		}
		return model2d.BitmapToSolid(bm)
	case "sliceSolid":
		s3 := makeOpaque3(c, []string{"cylinder", "torus", "cone", "sphere"}[c.Rng.Intn(4)])
		axis := c.Rng.Intn(3)
		mid := s3.Min().Mid(s3.Max()).Array()[axis]
		return toolbox3d.SliceSolid(s3, toolbox3d.Axis(axis), mid)
	case "polytope2":
		p := model2d.NewConvexPolytopeRect(p1, p1.Add(model2d.XY(rndSize(c)+0.1, rndSize(c)+0.1)))
		mid := p1.Add(model2d.XY(0.05, 0.05))
		for i := 0; i < c.Rng.Intn(3); i++ {
			n := model2d.XY(c.Rng.NormFloat64(), c.Rng.NormFloat64())
			p = append(p, &model2d.LinearConstraint{Normal: n, Max: n.Dot(mid) + c.Rng.Float64()*n.Norm()})
		}
		if c.Rng.Intn(2) == 0 {
			for _, l := range p {
				f := math.Ldexp(1, c.Rng.Intn(121)-60)
				l.Normal, l.Max = l.Normal.Scale(f), l.Max*f
			}
		}
		return p.Solid()
	case "meshSolid2":
		m := model2d.NewMeshPolar(func(t float64) float64 { return r * (1 + 0.3*math.Sin(3*t)) }, 30)
		return model2d.NewColliderSolid(model2d.MeshToCollider(m))
	}
	panic("unknown opaque2 " + name)
}

// ---------------------------------------------------------------- opaque leaves on the shell stream

// runShells: the boundedness hypothesis of every opaque leaf type is tested: valid finite bounds,
// and no point of a dense shell outside the reported box (offset >= 1e-8*scale) is contained.
// One correspondence line per leaf; the model's answer is the requirement "ok".
func runShells(c *hlib.Ctx) {
	per := c.N/40 + 2
	for _, name := range opaque3Names {
		k := per
		if name == "ramp" {
			k = 4 * per // the leak region of a ramp (between the box and the axis) is small: more cases
		}
		for i := 0; i < k; i++ {
			shellCase(c, name, true)
		}
	}
	for _, name := range opaque2Names {
		for i := 0; i < per; i++ {
			shellCase(c, name, false)
		}
	}
}

func shellCase(c *hlib.Ctx, name string, d3 bool) {
	var s sol
	res := hlib.Guard(func() string {
		if d3 {
			s = sol3{makeOpaque3(c, name)}
		} else {
			s = sol2{makeOpaque2(c, name)}
		}
		return "ok"
	})
	id := fmt.Sprintf("%s#%d", name, c.Rng.Int63())
	if res != "ok" {
		c.EmitSite("c03 shell "+id, res, "corr:c03 shell-"+name)
		return
	}
	lo, hi := s.Min(), s.Max()
	out := "ok"
	if !validBox(s, d3) {
		out = fmt.Sprintf("invalid-bounds:[%v,%v]", lo, hi)
	} else {
		scale := boxScale(lo, hi, d3)
		deltas := []float64{1.01e-8 * scale, 1e-7 * scale, 1e-5 * scale, 1e-3 * scale, 1e-2 * scale, 0.1 * scale}
		pts := shellPoints(c, lo, hi, d3, deltas, func(x float64) float64 { return x }, 400)
		// plus the outward images of points found inside: radial pushes through each face
		for k := 0; k < 200; k++ {
			var p pt
			for i := 0; i < dims(d3); i++ {
				p[i] = lo[i] + (hi[i]-lo[i])*c.Rng.Float64()
			}
			if s.Contains(p) {
				c.Stat("shell_interior_hits", 1)
				i := c.Rng.Intn(dims(d3))
				q := p
				q[i] = hi[i] + deltas[c.Rng.Intn(len(deltas))]
				pts = append(pts, q)
				q[i] = lo[i] - deltas[c.Rng.Intn(len(deltas))]
				pts = append(pts, q)
			}
		}
		if d3 {
			pts = append(pts, extraProbes...)
		}
		n := 0
		for _, p := range pts {
			if inBox(lo, hi, p, d3) {
				continue
			}
			n++
			if s.Contains(p) {
				d := outsideBy(lo, hi, p, d3)
				out = fmt.Sprintf("leak:point=%v_outside_box=[%v,%v]_by=%g", p, lo, hi, d)
				break
			}
		}
		c.Stat("shell_points_outside_tested", n)
		// 1-ulp shell: counted only (the property allows the code's own epsilon)
		for i := 0; i < dims(d3); i++ {
			var p pt
			for j := 0; j < dims(d3); j++ {
				p[j] = (lo[j] + hi[j]) / 2
			}
			p[i] = math.Nextafter(hi[i], math.Inf(1))
			if s.Contains(p) {
				c.Stat("shell_ulp_contained_"+name, 1)
			}
		}
	}
	out = stripSpaces(out)
	c.Stat("shell_leaf_"+name, 1)
	c.EmitSite("c03 shell "+id, out, "corr:c03 shell-"+name)
}

func stripSpaces(s string) string {
	b := []byte(s)
	for i, ch := range b {
		if ch == ' ' || ch == '\t' {
			b[i] = '_'
		}
	}
	return string(b)
}

// ---------------------------------------------------------------- sqrt-based primitive bounds, bit for bit

func runPrimBounds(c *hlib.Ctx) {
	n := c.N / 4
	for i := 0; i < n; i++ {
		p1 := rndPt3(c, 4)
		dir := rndDir3(c)
		q2 := p1.Add(dir.Scale(rndSize(c)))
		r := rndSize(c)
		switch i % 6 {
		case 0:
			axis := c.Rng.Intn(3)
			sign := float64(1 - 2*c.Rng.Intn(2))
			v := model3d.VerifCircleAxisBound(axis, dir, sign)
			c.Emit(fmt.Sprintf("c03 cab f %d %s %s", axis, fpt(p3(dir)), num(sign)), num(v))
		case 1:
			s := &model3d.Cylinder{P1: p1, P2: q2, Radius: r}
			c.Emit(fmt.Sprintf("c03 cyl f %s %s %s", fpt(p1arr(p1)), fpt(p1arr(q2)), num(r)), fpt(p3(s.Min()))+" "+fpt(p3(s.Max())))
		case 2:
			s := &model3d.Cone{Tip: p1, Base: q2, Radius: r}
			c.Emit(fmt.Sprintf("c03 cone f %s %s %s", fpt(p1arr(p1)), fpt(p1arr(q2)), num(r)), fpt(p3(s.Min()))+" "+fpt(p3(s.Max())))
		case 3:
			inner := r * c.Rng.Float64()
			s := &model3d.Torus{Center: p1, Axis: dir, OuterRadius: r, InnerRadius: inner}
			c.Emit(fmt.Sprintf("c03 torus f %s %s %s %s", fpt(p1arr(p1)), fpt(p3(dir)), num(r), num(inner)), fpt(p3(s.Min()))+" "+fpt(p3(s.Max())))
		case 4:
			s := &model3d.Capsule{P1: p1, P2: q2, Radius: r}
			c.Emit(fmt.Sprintf("c03 capsule f 3 %s %s %s", fpt(p1arr(p1)), fpt(p1arr(q2)), num(r)), fpt(p3(s.Min()))+" "+fpt(p3(s.Max())))
		default:
			s := &model2d.Circle{Center: model2d.XY(p1.X, p1.Y), Radius: r}
			c.Emit(fmt.Sprintf("c03 sphere f 2 %s %s", fpt(pt{p1.X, p1.Y, 0}), num(r)), fptD(p2(s.Min()), false)+" "+fptD(p2(s.Max()), false))
		}
		c.Stat("prim_bounds_cases", 1)
	}
}

func p1arr(c model3d.Coord3D) pt { return pt{c.X, c.Y, c.Z} }
