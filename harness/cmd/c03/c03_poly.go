package main

// Convex polytopes with un-normalised constraints (ConvexPolytope.Solid in 2-D and 3-D).
//
// A constraint system is generated as half-spaces (n, m) plus one positive factor per constraint;
// the REAL polytope is built from &LinearConstraint{Normal: n*s, Max: m*s}.  The point set does not
// depend on the factors (Lean: M3d.C03.polytope_scale_invariant), so the expected membership — and
// the "wrapper does not cut" requirement — are those of the unscaled system:
//
//   - kind `polycut` (q and f): real Solid().Contains / Min / Max against the model's half-space test
//     polyContains on the unscaled system, on points that the half-space test puts robustly inside
//     (they must be inside the reported box and contained) or robustly outside;
//   - the polytope leaves of the expression trees (2-D and 3-D, both modes) use the same systems, with a
//     no-cut evaluation on the implementation (site c03:wrapper-cuts:polytope).
//
// Systems: rect + oblique cuts, intercept-form simplices x/a + y/b + z/c <= 1 with large intercepts,
// intercept-form boxes and octahedra; factors 2^k with k in [-60, 60] (all equal, independent, or
// mixed long/short), and decimal factors in float mode.

import (
	"fmt"
	"math"

	"verif/harness/hlib"

	"github.com/unixpickle/model3d/model2d"
	"github.com/unixpickle/model3d/model3d"
)

// scon: the half-space n.p <= m and the factor s = 2^k (or a decimal factor when k == noExp)
type scon struct {
	s float64
	n pt
	m float64
}

type polySys struct {
	d3   bool
	cs   []scon
	kind string
	scal string
}

func (ps *polySys) real3() model3d.ConvexPolytope {
	var p model3d.ConvexPolytope
	for _, c := range ps.cs {
		p = append(p, &model3d.LinearConstraint{Normal: model3d.XYZ(c.n[0]*c.s, c.n[1]*c.s, c.n[2]*c.s), Max: c.m * c.s})
	}
	return p
}

func (ps *polySys) real2() model2d.ConvexPolytope {
	var p model2d.ConvexPolytope
	for _, c := range ps.cs {
		p = append(p, &model2d.LinearConstraint{Normal: model2d.XY(c.n[0]*c.s, c.n[1]*c.s), Max: c.m * c.s})
	}
	return p
}

// solid builds the real Solid() (guarded).
func (ps *polySys) solid() (sol, string) {
	var s sol
	res := hlib.Guard(func() string {
		if ps.d3 {
			s = sol3{ps.real3().Solid()}
		} else {
			s = sol2{ps.real2().Solid()}
		}
		return "ok"
	})
	return s, res
}

// underlying is the REAL half-space test ConvexPolytope.Contains of the scaled system.
func (ps *polySys) underlying(p pt) bool {
	if ps.d3 {
		return ps.real3().Contains(c3(p))
	}
	return ps.real2().Contains(c2(p))
}

func dot3(a, b pt) float64 { return a[0]*b[0] + a[1]*b[1] + a[2]*b[2] }
func norm3(a pt) float64  { return math.Sqrt(dot3(a, a)) }

// margin: the smallest signed distance of p to a face of the unscaled system (> 0: inside)
func (ps *polySys) margin(p pt) float64 {
	res := math.Inf(1)
	for _, c := range ps.cs {
		res = math.Min(res, (c.m-dot3(c.n, p))/norm3(c.n))
	}
	return res
}

// verts: the vertices of the unscaled system computed by the harness itself (Cramer's rule over all
// index tuples, well-conditioned tuples only) — used only to choose probe points.
func (ps *polySys) verts() []pt {
	var res []pt
	n := len(ps.cs)
	feasible := func(v pt, L float64) bool {
		for _, c := range ps.cs {
			if dot3(c.n, v) > c.m+1e-9*L*norm3(c.n) {
				return false
			}
		}
		return true
	}
	scaleOf := func(v pt) float64 { return math.Max(1, math.Max(math.Abs(v[0]), math.Max(math.Abs(v[1]), math.Abs(v[2])))) }
	if ps.d3 {
		for i := 0; i < n; i++ {
			for j := i + 1; j < n; j++ {
				for k := j + 1; k < n; k++ {
					a, b, c := ps.cs[i], ps.cs[j], ps.cs[k]
					m := model3d.Matrix3{a.n[0], a.n[1], a.n[2], b.n[0], b.n[1], b.n[2], c.n[0], c.n[1], c.n[2]}
					det := m.Det()
					if math.Abs(det) < 1e-6*norm3(a.n)*norm3(b.n)*norm3(c.n) {
						continue
					}
					v := p3(m.Inverse().MulColumn(model3d.XYZ(a.m, b.m, c.m)))
					if finite(v) && feasible(v, scaleOf(v)) {
						res = append(res, v)
					}
				}
			}
		}
	} else {
		for i := 0; i < n; i++ {
			for j := i + 1; j < n; j++ {
				a, b := ps.cs[i], ps.cs[j]
				det := a.n[0]*b.n[1] - a.n[1]*b.n[0]
				if math.Abs(det) < 1e-6*norm3(a.n)*norm3(b.n) {
					continue
				}
				v := pt{(a.m*b.n[1] - b.m*a.n[1]) / det, (a.n[0]*b.m - b.n[0]*a.m) / det, 0}
				if finite(v) && feasible(v, scaleOf(v)) {
					res = append(res, v)
				}
			}
		}
	}
	return res
}

// probes: points robustly inside (margin >= 1e-6*L) near every vertex / edge / the centre, and points
// robustly outside; exact mode snaps to a 2^-10 grid (margins are re-evaluated after snapping).
func (ps *polySys) probes(c *hlib.Ctx, exact bool) (inside, outside []pt, L float64) {
	vs := ps.verts()
	nd := dims(ps.d3)
	if len(vs) <= nd {
		return nil, nil, 1
	}
	var ctr pt
	L = 1
	for _, v := range vs {
		for i := 0; i < nd; i++ {
			ctr[i] += v[i] / float64(len(vs))
			L = math.Max(L, math.Abs(v[i]))
		}
	}
	snap := func(p pt) pt {
		if exact {
			for i := 0; i < nd; i++ {
				p[i] = math.Round(p[i]*1024) / 1024
			}
		}
		return p
	}
	thr := 1e-6 * L
	add := func(p pt) {
		p = snap(p)
		if !finite(p) {
			return
		}
		mg := ps.margin(p)
		if mg >= thr {
			inside = append(inside, p)
		} else if mg <= -thr {
			outside = append(outside, p)
		}
	}
	add(ctr)
	ts := []float64{3e-5, 1e-3, 0.02, 0.2, 0.5}
	if exact {
		ts = []float64{1.0 / 64, 1.0 / 8, 0.5}
	}
	for _, v := range vs {
		for _, t := range ts {
			var p, q pt
			for i := 0; i < nd; i++ {
				p[i] = v[i] + t*(ctr[i]-v[i])
				q[i] = v[i] - t*(ctr[i]-v[i])
			}
			add(p)
			if t >= 0.02 {
				add(q)
			}
		}
	}
	// random convex combinations (faces, edges, interior)
	for k := 0; k < 12; k++ {
		var p pt
		a, b, cc := vs[c.Rng.Intn(len(vs))], vs[c.Rng.Intn(len(vs))], vs[c.Rng.Intn(len(vs))]
		u, w := c.Rng.Float64(), c.Rng.Float64()
		for i := 0; i < nd; i++ {
			p[i] = a[i] + u*(b[i]-a[i])
			p[i] = p[i] + w*0.5*(cc[i]-p[i])
			p[i] = p[i] + 0.05*(ctr[i]-p[i])
		}
		add(p)
	}
	return
}

// ---------------------------------------------------------------- generators of systems

func (g *gen) polyBase(d3 bool) ([]scon, string) {
	c := g.c
	nd := dims(d3)
	var cs []scon
	axis := func(i int, sg float64) pt {
		var n pt
		n[i] = sg
		return n
	}
	switch c.Rng.Intn(5) {
	case 0, 1: // rect + oblique cuts
		lo, hi := g.boxLoHi(d3)
		for i := 0; i < nd; i++ {
			hi[i] += 0.5
			cs = append(cs, scon{1, axis(i, 1), hi[i]}, scon{1, axis(i, -1), -lo[i]})
		}
		var mid pt
		for i := 0; i < nd; i++ {
			mid[i] = g.snap((lo[i] + hi[i]) / 2)
		}
		for k := 0; k < c.Rng.Intn(4); k++ {
			var n pt
			for i := 0; i < nd; i++ {
				if g.exact {
					n[i] = float64(c.Rng.Intn(5) - 2)
				} else {
					n[i] = c.Rng.NormFloat64()
				}
			}
			if norm3(n) < 0.3 {
				continue
			}
			off := 0.05 + c.Rng.Float64()*0.4
			m := dot3(n, mid) + off*norm3(n)
			if g.exact {
				m = math.Round(m*32) / 32
			}
			cs = append(cs, scon{1, n, m})
		}
		return cs, "rectcuts"
	case 2: // intercept form: sum x_i/a_i <= 1 (orthant simplex), large intercepts, translated
		var n, o pt
		var m float64 = 1
		for i := 0; i < nd; i++ {
			a := g.intercept()
			sg := float64(1 - 2*c.Rng.Intn(2))
			n[i] = sg / a
			if c.Rng.Intn(3) == 0 {
				o[i] = g.num(6)
			}
		}
		m = 1 + dot3(n, o)
		cs = append(cs, scon{1, n, m})
		for i := 0; i < nd; i++ {
			sg := -1.0
			if n[i] < 0 {
				sg = 1
			}
			cs = append(cs, scon{1, axis(i, sg), sg * o[i]})
		}
		return cs, "intercept-simplex"
	case 3: // intercept-form box: +-x_i/a_i <= 1
		for i := 0; i < nd; i++ {
			a, b := g.intercept(), g.intercept()
			cs = append(cs, scon{1, axis(i, 1/a), 1}, scon{1, axis(i, -1/b), 1})
		}
		return cs, "intercept-box"
	default: // intercept-form cross polytope: sum +-x_i/a_i <= 1 (2^d constraints, 2d vertices of high degree)
		var a pt
		for i := 0; i < nd; i++ {
			a[i] = g.intercept()
		}
		for mask := 0; mask < 1<<uint(nd); mask++ {
			var n pt
			for i := 0; i < nd; i++ {
				n[i] = 1 / a[i]
				if mask>>uint(i)&1 == 1 {
					n[i] = -n[i]
				}
			}
			cs = append(cs, scon{1, n, 1})
		}
		return cs, "intercept-cross"
	}
}

// intercept: a large (or moderate) intercept; aspect ratios up to ~1e4 between axes.
func (g *gen) intercept() float64 {
	c := g.c
	if g.exact {
		// powers of two so that 1/a is a dyadic: 2^1 .. 2^17 (trees: .. 2^6, to keep the other leaves' arithmetic exact)
		if g.inTree {
			return math.Ldexp(1, 1+c.Rng.Intn(6))
		}
		return math.Ldexp(1, 1+c.Rng.Intn(17))
	}
	switch c.Rng.Intn(4) {
	case 0:
		return 0.5 + c.Rng.Float64()*20
	default:
		return math.Pow(10, 1+4*c.Rng.Float64()) * (1 + c.Rng.Float64())
	}
}

// polyScales assigns the positive factors.
func (g *gen) polyScales(cs []scon) string {
	c := g.c
	k := func(lo, hi int) float64 { return math.Ldexp(1, lo+c.Rng.Intn(hi-lo+1)) }
	mode := c.Rng.Intn(7)
	if mode == 6 && g.exact {
		mode = 3
	}
	switch mode {
	case 0:
		return "unit"
	case 1:
		s := k(-60, 60)
		for i := range cs {
			cs[i].s = s
		}
		return "uniform"
	case 2:
		s := k(-60, -14)
		for i := range cs {
			cs[i].s = s
		}
		return "uniform-short"
	case 3:
		for i := range cs {
			cs[i].s = k(-60, 60)
		}
		return "independent"
	case 4:
		for i := range cs {
			if c.Rng.Intn(2) == 0 {
				cs[i].s = k(-60, -35)
			} else {
				cs[i].s = k(35, 60)
			}
		}
		return "mixed-long-short"
	case 5:
		for i := range cs {
			if c.Rng.Intn(3) == 0 {
				cs[i].s = k(-40, -12)
			}
		}
		return "some-short"
	default:
		for i := range cs {
			cs[i].s = math.Pow(10, -float64(c.Rng.Intn(12))) * (0.5 + c.Rng.Float64())
		}
		return "decimal"
	}
}

// polyDegenerate adds redundant constraints that touch the polytope: a duplicate of a constraint (which
// gets its own factor), or a supporting half-space through a vertex of the rect (a vertex of degree d+1).
func (g *gen) polyDegenerate(cs []scon, kind string, d3 bool) ([]scon, string) {
	c := g.c
	nd := dims(d3)
	switch c.Rng.Intn(6) {
	case 0:
		k := cs[c.Rng.Intn(len(cs))]
		cs = append(cs, k)
		return cs, kind + "+dup"
	case 1:
		if kind != "rectcuts" || len(cs) < 2*nd {
			return cs, kind
		}
		// cs[2i] = (e_i, hi_i), cs[2i+1] = (-e_i, -lo_i): the corner chosen by sg, and n with matching signs
		var n, corner pt
		for i := 0; i < nd; i++ {
			w := float64(1 + c.Rng.Intn(3))
			if c.Rng.Intn(2) == 0 {
				n[i], corner[i] = w, cs[2*i].m
			} else {
				n[i], corner[i] = -w, -cs[2*i+1].m
			}
		}
		cs = append(cs, scon{1, n, dot3(n, corner)})
		return cs, kind + "+touch"
	}
	return cs, kind
}

func (g *gen) polySystem(d3 bool) *polySys {
	cs, kind := g.polyBase(d3)
	cs, kind = g.polyDegenerate(cs, kind, d3)
	scal := g.polyScales(cs)
	if g.c.Rng.Intn(3) == 0 {
		g.c.Rng.Shuffle(len(cs), func(i, j int) { cs[i], cs[j] = cs[j], cs[i] })
	}
	return &polySys{d3: d3, cs: cs, kind: kind, scal: scal}
}

func (ps *polySys) minNormal() float64 {
	mn := math.Inf(1)
	for _, c := range ps.cs {
		mn = math.Min(mn, norm3(c.n)*c.s)
	}
	return mn
}

func (ps *polySys) statKey() string {
	mn := ps.minNormal()
	switch {
	case mn < 1e-12:
		return "poly_min_normal_below_1e-12"
	case mn < 1e-6:
		return "poly_min_normal_1e-12..1e-6"
	case mn < 1e-3:
		return "poly_min_normal_1e-6..1e-3"
	}
	return "poly_min_normal_above_1e-3"
}

// ---------------------------------------------------------------- kind polycut

func runPolyCut(c *hlib.Ctx) {
	n := c.N/3 + 8
	for i := 0; i < n; i++ {
		polyCutCase(c, i%2 == 0, i%3 != 2)
	}
}

func polyCutCase(c *hlib.Ctx, exact, d3 bool) {
	mode := "f"
	if exact {
		mode = "q"
	}
	g := &gen{c: c, exact: exact, rec: newRecorder()}
	ps := g.polySystem(d3)
	inside, outside, _ := ps.probes(c, exact)
	if len(inside) == 0 {
		c.Stat("polycut_skipped_no_robust_interior", 1)
		return
	}
	s, res := ps.solid()
	site := "corr:c03 polycut-" + mode
	op := fmt.Sprintf("c03 polycut %s %d %d", mode, dims(d3), len(ps.cs))
	for _, k := range ps.cs {
		op += " " + num(k.s) + " " + fpt(k.n) + " " + num(k.m)
	}
	pts := append(append([]pt{}, inside...), g.sub(outside, 10)...)
	op += fmt.Sprintf(" %d", len(pts))
	for _, p := range pts {
		op += " " + fpt(p)
	}
	if res != "ok" {
		c.EmitSite(op, res, site)
		return
	}
	lo, hi := s.Min(), s.Max()
	ans := ""
	for i, p := range pts {
		in := inBox(lo, hi, p, d3)
		ct := s.Contains(p)
		// the REAL half-space test of the scaled system agrees with the choice of the point
		if und := ps.underlying(p); und != (i < len(inside)) {
			c.Stat("polycut_underlying_disagrees_with_margin", 1)
			return
		}
		switch {
		case ct && in:
			ans += "1"
		case ct && !in:
			ans += "x" // contained outside the reported box
		default:
			ans += "0"
		}
	}
	c.EmitSite(op, b2s(validBox(s, d3))+" "+ans, site)
	c.Stat("polycut_cases_"+mode, 1)
	c.Stat("polycut_kind_"+ps.kind, 1)
	c.Stat("polycut_scaling_"+ps.scal, 1)
	c.Stat(ps.statKey(), 1)
	c.Stat("polycut_points_inside", len(inside))
	c.Stat("polycut_points_outside", len(pts)-len(inside))
}

// ---------------------------------------------------------------- kind prect

// runPolyRect: the REAL NewConvexPolytopeRect(min, max) (2-D and 3-D, q and f): its constraints, its half-space
// test, the box Solid() reports and Solid().Contains, against the requirement: the constraints are
// rectCons3/rectCons2 (tie theorem M3d.KernelsTie.Polytope.newConvexPolytopeRect on the regenerated source), the
// half-space test IS the box test of [min, max] (M3d.C03.rect_polytope_contains), Solid() reports [min, max]
// (M3d.C03.rect_polytope_mesh_box, min <= max) and contains exactly the points of [min, max]
// (M3d.C03.wrapper_does_not_cut_polytope_rect) — nothing leaks, nothing is cut.  All arithmetic of the real code
// is exact on these systems (normals are signed unit vectors, |det| = 1), so f mode is compared exactly as well.
// Thickness: positive and at least 1e-4*scale per axis (Mesh()'s Repair(epsilon) merges vertices closer than
// 1e-8*scale — not modelled), sometimes exactly 0 on ONE axis (a flat rect), sometimes inverted on one axis (empty).
func runPolyRect(c *hlib.Ctx) {
	n := c.N/6 + 8
	for i := 0; i < n; i++ {
		polyRectCase(c, i%2 == 0, i%3 != 2)
	}
}

func polyRectCase(c *hlib.Ctx, exact, d3 bool) {
	mode := "f"
	if exact {
		mode = "q"
	}
	g := &gen{c: c, exact: exact, rec: newRecorder()}
	nd := dims(d3)
	var lo, hi pt
	scale := 1.0
	if !exact {
		scale = []float64{1, 1, 1e3, 1e-3, 1e6}[c.Rng.Intn(5)]
	}
	for i := 0; i < nd; i++ {
		if exact {
			lo[i] = g.num(6)
			hi[i] = lo[i] + float64(c.Rng.Intn(6*32)+1)/32
		} else {
			lo[i] = g.num(6) * scale
			hi[i] = lo[i] + math.Max(c.Rng.Float64()*6, 1e-3)*scale
		}
	}
	shape := "box"
	switch c.Rng.Intn(12) {
	case 0: // flat on one axis
		i := c.Rng.Intn(nd)
		hi[i] = lo[i]
		shape = "flat"
	case 1: // inverted on one axis: the empty polytope
		i := c.Rng.Intn(nd)
		lo[i], hi[i] = hi[i], lo[i]
		shape = "inverted"
	}
	deltas := []float64{1.0 / 1024, 1.0 / 32, 0.25}
	if !exact {
		deltas = []float64{1e-12 * scale, 1e-9 * scale, 1e-6 * scale, 1e-3 * scale, 0.3 * scale}
	}
	pts := shellPoints(c, lo, hi, d3, deltas, g.snap, 28)
	pts = append(pts, boxPts(lo, hi, d3, g.inward()*scale)...)
	if !exact {
		// one ulp outside / inside each face
		for i := 0; i < nd; i++ {
			p := pt{(lo[0] + hi[0]) / 2, (lo[1] + hi[1]) / 2, (lo[2] + hi[2]) / 2}
			q, r, t := p, p, p
			p[i] = math.Nextafter(hi[i], math.Inf(1))
			q[i] = math.Nextafter(lo[i], math.Inf(-1))
			r[i] = math.Nextafter(hi[i], math.Inf(-1))
			t[i] = math.Nextafter(lo[i], math.Inf(1))
			for _, u := range []pt{p, q, r, t} {
				// the driver's rational -> double conversion does not produce subnormals: keep them out
				if u[i] == 0 || math.Abs(u[i]) > 1e-290 {
					pts = append(pts, u)
				}
			}
		}
	}
	site := "corr:c03 prect-" + mode
	op := fmt.Sprintf("c03 prect %s %d %s %s %d", mode, nd, fpt(lo), fpt(hi), len(pts))
	for _, p := range pts {
		op += " " + fpt(p)
	}
	var out string
	res := hlib.Guard(func() string {
		var s sol
		var und func(p pt) bool
		if d3 {
			P := model3d.NewConvexPolytopeRect(c3(lo), c3(hi))
			out = fmt.Sprintf("%d", len(P))
			for _, l := range P {
				out += " " + fpt(p3(l.Normal)) + " " + num(l.Max)
			}
			und = func(p pt) bool { return P.Contains(c3(p)) }
			s = sol3{P.Solid()}
		} else {
			P := model2d.NewConvexPolytopeRect(c2(lo), c2(hi))
			out = fmt.Sprintf("%d", len(P))
			for _, l := range P {
				out += " " + fptD(p2(l.Normal), false) + " " + num(l.Max)
			}
			und = func(p pt) bool { return P.Contains(c2(p)) }
			s = sol2{P.Solid()}
		}
		out += " | "
		for _, p := range pts {
			out += b2s(und(p))
		}
		if shape == "inverted" {
			out += " | inv"
		} else {
			out += " | " + fptD(s.Min(), d3) + " " + fptD(s.Max(), d3) + " " + b2s(validBox(s, d3))
		}
		out += " | "
		mn, mx := s.Min(), s.Max()
		for _, p := range pts {
			ct := s.Contains(p)
			switch {
			case ct && !inBox(mn, mx, p, d3):
				out += "x" // contained outside the reported box
			case ct:
				out += "1"
			default:
				out += "0"
			}
		}
		return "ok"
	})
	if res != "ok" {
		c.EmitSite(op, res, site)
		return
	}
	c.EmitSite(op, out, site)
	c.Stat("prect_cases_"+mode, 1)
	c.Stat("prect_shape_"+shape, 1)
	c.Stat("prect_points", len(pts))
}

// ---------------------------------------------------------------- polytope leaves of the trees

// polyLeaf: a polytope-derived solid as a MODELLED leaf (`poly` token: the model evaluates
// InBounds(reported box) && half-space test of the scaled constraints), with the no-cut requirement
// evaluated on the implementation.
func (g *gen) polyLeaf(d3 bool) *node {
	ps := g.polySystem(d3)
	s, res := ps.solid()
	if res != "ok" {
		g.c.PropFail("c03:constructor-panic", "ConvexPolytope.Solid: "+res)
		return nil
	}
	mn, mx := s.Min(), s.Max()
	if !finite(mn) || !finite(mx) {
		return nil
	}
	inside, outside, _ := ps.probes(g.c, g.exact)
	for _, p := range inside {
		g.cut++
		g.c.Stat("nocut_evaluations_polytope", 1)
		if !ps.underlying(p) {
			continue
		}
		if !inBox(mn, mx, p, d3) || !s.Contains(p) {
			g.c.PropFail("c03:wrapper-cuts:polytope", fmt.Sprintf("every constraint of the %s system (%s factors, %d constraints, shortest normal %g) holds at %v with margin %g, but ConvexPolytope.Solid() reports the box [%v,%v] and Contains=%v",
				ps.kind, ps.scal, len(ps.cs), ps.minNormal(), p, ps.margin(p), mn, mx, s.Contains(p)))
			break
		}
	}
	if g.exact {
		for i := 0; i < dims(d3); i++ {
			// the mesh vertices come out of a linear solve: keep the case only if they are short dyadics
			if mn[i]*1024 != math.Round(mn[i]*1024) || mx[i]*1024 != math.Round(mx[i]*1024) || math.Abs(mn[i]) > 1<<20 || math.Abs(mx[i]) > 1<<20 {
				g.c.Stat("polytope_box_not_dyadic_skipped", 1)
				return nil
			}
		}
	}
	tok := fmt.Sprintf("poly %d %s %s %d", dims(d3), fpt(mn), fpt(mx), len(ps.cs))
	for _, k := range ps.cs {
		nn := pt{k.n[0] * k.s, k.n[1] * k.s, k.n[2] * k.s}
		tok += " " + fpt(nn) + " " + num(k.m*k.s)
	}
	g.c.Stat("node_polytope", 1)
	g.c.Stat("node_polytope_"+ps.kind, 1)
	g.c.Stat("node_polytope_scaling_"+ps.scal, 1)
	g.c.Stat(ps.statKey(), 1)
	pts := boxPts(mn, mx, d3, g.inward())
	pts = append(pts, g.sub(inside, 12)...)
	pts = append(pts, g.sub(outside, 4)...)
	nd := &node{d3: d3, tok: tok, pts: pts}
	if d3 {
		nd.s3 = s.(sol3).s
	} else {
		nd.s2 = s.(sol2).s
	}
	return nd
}

// ---------------------------------------------------------------- kind pvert

// runPolyVerts validates the faithful model of ConvexPolytope.vertex / spatialEpsilon (an internal
// step): the vertices Mesh() enumerates for the SCALED system, bit for bit against
// M3d.Bd.meshVerts3 / meshVerts2 at Float (the model M3d.C03.mesh_vertices_scale_invariant is about).
func runPolyVerts(c *hlib.Ctx) {
	n := c.N/4 + 6
	for i := 0; i < n; i++ {
		d3 := i%3 != 2
		g := &gen{c: c, exact: i%4 == 0, rec: newRecorder()}
		ps := g.polySystem(d3)
		op := fmt.Sprintf("c03 pvert f %d %d", dims(d3), len(ps.cs))
		for _, k := range ps.cs {
			nn := pt{k.n[0] * k.s, k.n[1] * k.s, k.n[2] * k.s}
			op += " " + fpt(nn) + " " + num(k.m*k.s)
		}
		var vs []pt
		res := hlib.Guard(func() string {
			if d3 {
				for _, v := range model3d.VerifPolytopeVertices(ps.real3()) {
					vs = append(vs, p3(v))
				}
			} else {
				for _, v := range model2d.VerifPolytopeVertices(ps.real2()) {
					vs = append(vs, p2(v))
				}
			}
			return "ok"
		})
		if res != "ok" {
			c.EmitSite(op, res, "corr:c03 pvert")
			continue
		}
		out := fmt.Sprintf("%d", len(vs))
		bad := false
		for _, v := range vs {
			if !finite(v) {
				bad = true
			}
			out += " " + fptD(v, d3)
		}
		if bad {
			c.Stat("pvert_skipped_nonfinite", 1)
			continue
		}
		c.EmitSite(op, out, "corr:c03 pvert")
		c.Stat("pvert_cases", 1)
		c.Stat("pvert_vertices", len(vs))
	}
}
