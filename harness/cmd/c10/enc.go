package main

import (
	"fmt"
	"os"
	"sort"
	"strconv"
	"strings"
	"time"

	"verif/harness/hlib"

	"github.com/unixpickle/model3d/model2d"
	"github.com/unixpickle/model3d/model3d"
)

// opTimeout bounds every call into the library: a call that does not return in time is
// reported as `timeout` (the property demands termination).
var opTimeout = func() time.Duration {
	if s := os.Getenv("C10_TIMEOUT_SECONDS"); s != "" {
		if n, err := strconv.Atoi(s); err == nil {
			return time.Duration(n) * time.Second
		}
	}
	return 10 * time.Second
}()

// watchdog runs f in a goroutine; status is "ok", "timeout" or "panic:<msg>".
func watchdog(f func()) string {
	done := make(chan string, 1)
	go func() {
		done <- hlib.Guard(func() string { f(); return "ok" })
	}()
	select {
	case s := <-done:
		return s
	case <-time.After(opTimeout):
		return "timeout"
	}
}

// ---------------------------------------------------------------- 3-D id tables

type ids3 struct {
	m      map[model3d.Coord3D]int
	coords []model3d.Coord3D
}

func newIDs3() *ids3 { return &ids3{m: map[model3d.Coord3D]int{}} }

func less3(a, b model3d.Coord3D) bool {
	if a.X != b.X {
		return a.X < b.X
	}
	if a.Y != b.Y {
		return a.Y < b.Y
	}
	return a.Z < b.Z
}

// assign gives ids to the not yet known vertices of m in sorted coordinate order
// (canonical: independent of Go's map iteration order).
func (t *ids3) assign(m *model3d.Mesh) {
	var fresh []model3d.Coord3D
	seen := map[model3d.Coord3D]bool{}
	m.Iterate(func(tr *model3d.Triangle) {
		for _, c := range tr {
			if _, ok := t.m[c]; !ok && !seen[c] {
				seen[c] = true
				fresh = append(fresh, c)
			}
		}
	})
	sort.Slice(fresh, func(i, j int) bool { return less3(fresh[i], fresh[j]) })
	for _, c := range fresh {
		t.m[c] = len(t.coords)
		t.coords = append(t.coords, c)
	}
}

// soup renders the mesh as canonical id triangles (rotated so that the smallest id comes
// first, then sorted).
func (t *ids3) soup(m *model3d.Mesh) [][3]int {
	t.assign(m)
	var res [][3]int
	m.Iterate(func(tr *model3d.Triangle) {
		a, b, c := t.m[tr[0]], t.m[tr[1]], t.m[tr[2]]
		if b < a && b <= c {
			a, b, c = b, c, a
		} else if c < a && c < b {
			a, b, c = c, a, b
		}
		res = append(res, [3]int{a, b, c})
	})
	sort.Slice(res, func(i, j int) bool {
		x, y := res[i], res[j]
		if x[0] != y[0] {
			return x[0] < y[0]
		}
		if x[1] != y[1] {
			return x[1] < y[1]
		}
		return x[2] < y[2]
	})
	return res
}

func soupStr3(s [][3]int) string {
	var b strings.Builder
	b.WriteString(strconv.Itoa(len(s)))
	for _, t := range s {
		fmt.Fprintf(&b, " %d,%d,%d", t[0], t[1], t[2])
	}
	return b.String()
}

func usedIDs3(soups ...[][3]int) []int {
	set := map[int]bool{}
	for _, s := range soups {
		for _, t := range s {
			set[t[0]], set[t[1]], set[t[2]] = true, true, true
		}
	}
	res := make([]int, 0, len(set))
	for k := range set {
		res = append(res, k)
	}
	sort.Ints(res)
	return res
}

func (t *ids3) coordSection(used []int) string {
	var b strings.Builder
	fmt.Fprintf(&b, "C %d", len(used))
	for _, id := range used {
		c := t.coords[id]
		fmt.Fprintf(&b, " %d %s %s %s", id, hlib.RatStr(c.X), hlib.RatStr(c.Y), hlib.RatStr(c.Z))
	}
	return b.String()
}

// meshFromSoup rebuilds a mesh from the canonical soup (so that the next operation of a chain
// starts from exactly what was sent to the model).
func (t *ids3) meshFromSoup(s [][3]int) *model3d.Mesh {
	m := model3d.NewMesh()
	for _, tr := range s {
		m.Add(&model3d.Triangle{t.coords[tr[0]], t.coords[tr[1]], t.coords[tr[2]]})
	}
	return m
}

// ---------------------------------------------------------------- 2-D id tables

type ids2 struct {
	m      map[model2d.Coord]int
	coords []model2d.Coord
}

func newIDs2() *ids2 { return &ids2{m: map[model2d.Coord]int{}} }

func (t *ids2) assign(m *model2d.Mesh) {
	var fresh []model2d.Coord
	seen := map[model2d.Coord]bool{}
	m.Iterate(func(s *model2d.Segment) {
		for _, c := range s {
			if _, ok := t.m[c]; !ok && !seen[c] {
				seen[c] = true
				fresh = append(fresh, c)
			}
		}
	})
	sort.Slice(fresh, func(i, j int) bool {
		if fresh[i].X != fresh[j].X {
			return fresh[i].X < fresh[j].X
		}
		return fresh[i].Y < fresh[j].Y
	})
	for _, c := range fresh {
		t.m[c] = len(t.coords)
		t.coords = append(t.coords, c)
	}
}

func (t *ids2) soup(m *model2d.Mesh) [][2]int {
	t.assign(m)
	var res [][2]int
	m.Iterate(func(s *model2d.Segment) {
		res = append(res, [2]int{t.m[s[0]], t.m[s[1]]})
	})
	sort.Slice(res, func(i, j int) bool {
		if res[i][0] != res[j][0] {
			return res[i][0] < res[j][0]
		}
		return res[i][1] < res[j][1]
	})
	return res
}

func soupStr2(s [][2]int) string {
	var b strings.Builder
	b.WriteString(strconv.Itoa(len(s)))
	for _, t := range s {
		fmt.Fprintf(&b, " %d,%d", t[0], t[1])
	}
	return b.String()
}

func usedIDs2(soups ...[][2]int) []int {
	set := map[int]bool{}
	for _, s := range soups {
		for _, t := range s {
			set[t[0]], set[t[1]] = true, true
		}
	}
	res := make([]int, 0, len(set))
	for k := range set {
		res = append(res, k)
	}
	sort.Ints(res)
	return res
}

func (t *ids2) coordSection(used []int) string {
	var b strings.Builder
	fmt.Fprintf(&b, "C %d", len(used))
	for _, id := range used {
		c := t.coords[id]
		fmt.Fprintf(&b, " %d %s %s", id, hlib.RatStr(c.X), hlib.RatStr(c.Y))
	}
	return b.String()
}

func (t *ids2) meshFromSoup(s [][2]int) *model2d.Mesh {
	m := model2d.NewMesh()
	for _, sg := range s {
		m.Add(&model2d.Segment{t.coords[sg[0]], t.coords[sg[1]]})
	}
	return m
}

func intsStr(xs []int) string {
	var b strings.Builder
	b.WriteString(strconv.Itoa(len(xs)))
	for _, x := range xs {
		b.WriteString(" " + strconv.Itoa(x))
	}
	return b.String()
}
