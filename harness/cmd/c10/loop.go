package main

// The control loop of ARAP ("reproduces a rigid motion when the constraints are one", at EVERY scale).
//
// ARAP.deformMap alternates  targets := Targets(rot); x := LinSolve(targets); rot := rotations(x);
// E := energy(x, rot)  and stops early when  iter+1 >= MinIterations && 1 - E/lastE < Tolerance.  The
// rule is relative, hence independent of the size of the model (the energy is quadratic in it):
// M3d.C10.arap_stop_rule_is_scale_free.  With handles that follow ONE rigid motion the energy
// falls geometrically towards 0 (its value at the rigid image, arap_energy_zero_at_rigid_image), the
// relative decrease stays above the tolerance, and the iteration uses its whole budget - at any
// scale (arap_runs_its_budget_while_energy_drops).
//
// `araploop3` observes the REAL loop without touching it: the hook VerifARAPOperator.DeformMap runs
// the real deformMap on an operator the harness holds, and the harness repeats the very same calls
// (Laplace guess, Unsqueeze(Squeeze), Targets, LinSolve, rotations, energy - the real functions, the
// same operator and therefore the same Cholesky factor) for MaxIterations steps, recording every
// iterate and every energy.  The output of the real loop must be one of the iterates, bit for bit;
// the line carries the energies E_0..E_max (bits) and the iterate numbers n whose coordinates equal
// the real output.  The driver decides whether stopping after n iterations is allowed:
// n = MaxIterations, or n >= MinIterations and (1 - E_n/E_{n-1} < Tolerance, or E_n is 0 / NaN:
// nothing left to gain) - and reports a stop that is not allowed when the real energies were still
// dropping by at least the tolerance fraction per iteration there (into n and after n, exactly, and
// above `guard`, far above rounding noise).
//
//   araploop3 P <np> n=<vertices> scale=2^-<k> min=<MinIterations> max=<MaxIterations> tol=<hex>
//             cons=<rigid|rigid-float|moved|pinned> start=<laplace|warm> schemes=<lin>/<rot>
//             guard=<hex> h:<index=x,y,z;…> E:<hex,…> match:<n,…>  I <soup> O <soup> K 0

import (
	"fmt"
	"math"
	"sort"
	"strings"

	"verif/harness/hlib"

	"github.com/unixpickle/model3d/model3d"
)

func sameBits3(a, b []model3d.Coord3D) bool {
	if len(a) != len(b) {
		return false
	}
	for i := range a {
		x, y := a[i].Array(), b[i].Array()
		for j := 0; j < 3; j++ {
			if math.Float64bits(x[j]) != math.Float64bits(y[j]) && !(math.IsNaN(x[j]) && math.IsNaN(y[j])) {
				return false
			}
		}
	}
	return true
}

// loopRigidSmall: the next araploop3 case has handles moved by ONE rigid motion on a small model
// (set by the dedicated loop of run for every other case, so that the clause of the property - a
// rigid motion of the constraints, at every model size - is met by many cases of every run).
var loopRigidSmall bool

// emitArapLoop: see the header.  m is a connected closed manifold with at most 120 vertices.
func emitArapLoop(c *hlib.Ctx, st *state3, m *model3d.Mesh) {
	if timeouts["araploop3"] >= 1 {
		c.Stat("not-run-after-a-timeout:araploop3", 1)
		return
	}
	// the size of the model: 2^-k, small k and very small models both in every run
	k := []int{0, 0, 3, 7, 10, 13, 17, 20, 24, 27, 30, 34, 40}[c.Rng.Intn(13)]
	s := math.Ldexp(1, -k)
	scaled := m.Scale(s) // exact (a power of two)
	lin := []int{2, 1}[c.Rng.Intn(2)]
	rot := lin
	if c.Rng.Intn(4) == 0 {
		rot = 1 + c.Rng.Intn(2)
	}
	minIters := []int{0, 1, 2, 2, 2, 5}[c.Rng.Intn(6)]
	maxIters := []int{0, 1, 3, 8, 15, 15, 30, 30, 60}[c.Rng.Intn(9)]
	tol := []float64{1e-3, 1e-3, 1e-3, 1e-2, 1e-5, 0.2}[c.Rng.Intn(6)]
	consKind := []string{"rigid", "rigid", "rigid-float", "rigid-float", "moved", "pinned"}[c.Rng.Intn(6)]
	warm := c.Rng.Intn(4) == 0
	if loopRigidSmall {
		k = []int{10, 13, 17, 20, 24, 30, 40}[c.Rng.Intn(7)]
		consKind = []string{"rigid", "rigid-float"}[c.Rng.Intn(2)]
		warm = false
		if maxIters < 8 {
			maxIters = 15
		}
	}

	var a *model3d.ARAP
	var coords []model3d.Coord3D
	var energies []float64
	var match []int
	var hs []string
	size := 0.0
	status := watchdog(func() {
		a = model3d.NewARAPWeighted(scaled, arapSchemes[lin], arapSchemes[rot])
		a.SetMinIterations(minIters)
		a.SetMaxIterations(maxIters)
		a.SetTolerance(tol)
		coords = a.VerifCoords()
		n := len(coords)
		for _, p := range coords {
			for _, x := range p.Array() {
				size = math.Max(size, math.Abs(x))
			}
		}
		// the handles and their targets
		nh := 1 + c.Rng.Intn(3)
		if c.Rng.Intn(2) == 0 {
			nh = 1 + c.Rng.Intn(1+n/4)
		}
		perm := c.Rng.Perm(n)
		hidx := append([]int{}, perm[:nh]...)
		sort.Ints(hidx)
		var centre model3d.Coord3D
		for _, p := range coords {
			centre = centre.Add(p.Scale(1 / float64(n)))
		}
		R := model3d.Matrix3{1, 0, 0, 0, 1, 0, 0, 0, 1}
		tr := model3d.XYZ(dy(c, 2, 3), dy(c, 2, 3), dy(c, 2, 3)).Scale(s)
		switch consKind {
		case "rigid":
			R = cubeRotation(c)
		case "rigid-float":
			axis := model3d.XYZ(c.Rng.NormFloat64(), c.Rng.NormFloat64(), c.Rng.NormFloat64()).Normalize()
			R = *model3d.NewMatrix3Rotation(axis, c.Rng.Float64()*2*math.Pi)
		}
		cons := model3d.ARAPConstraints{}
		for _, i := range hidx {
			p := coords[i]
			var t model3d.Coord3D
			switch consKind {
			case "pinned":
				t = p
			case "moved":
				t = p.Add(model3d.XYZ(dy(c, 1, 3), dy(c, 1, 3), dy(c, 1, 3)).Scale(0.25 * s))
			default:
				t = R.MulColumn(p.Sub(centre)).Add(centre).Add(tr)
			}
			cons[p] = t
			hs = append(hs, fmt.Sprintf("%d=%s", i, hex3(t)))
		}
		op := model3d.VerifNewARAPOperator(a, cons)
		var guess []model3d.Coord3D
		if warm {
			// what a sequential deformer with a previous frame passes in: some earlier positions
			guess = make([]model3d.Coord3D, n)
			for i, p := range coords {
				guess[i] = p.Add(model3d.XYZ(c.Rng.NormFloat64(), c.Rng.NormFloat64(), c.Rng.NormFloat64()).Scale(0.05 * s))
			}
		}
		// the real loop
		var realGuess []model3d.Coord3D
		if guess != nil {
			realGuess = append([]model3d.Coord3D{}, guess...)
		}
		out := op.DeformMap(realGuess)
		// the same calls, step by step (same operator, same factorisation)
		if guess == nil {
			full := model3d.VerifNewARAPOperator(a, model3d.ARAPConstraints{})
			guess = op.LinSolve(full.Apply(a.VerifCoords()))
		}
		cur := op.Unsqueeze(op.Squeeze(guess))
		rots := a.VerifRotations(cur)
		energies = []float64{a.VerifEnergy(cur, rots)}
		if sameBits3(cur, out) {
			match = append(match, 0)
		}
		for iter := 0; iter < maxIters; iter++ {
			cur = op.LinSolve(op.Targets(rots))
			rots = a.VerifRotations(cur)
			energies = append(energies, a.VerifEnergy(cur, rots))
			if sameBits3(cur, out) {
				match = append(match, iter+1)
			}
		}
	})
	params := []string{fmt.Sprintf("n=%d", len(coords)), fmt.Sprintf("scale=2^-%d", k), fmt.Sprintf("min=%d", minIters),
		fmt.Sprintf("max=%d", maxIters), "tol=" + hlib.Hex(tol), "cons=" + consKind,
		"start=" + map[bool]string{false: "laplace", true: "warm"}[warm],
		"schemes=" + arapSchemeNames[lin] + "/" + arapSchemeNames[rot]}
	c.Stat("op:araploop3", 1)
	line := []string{"araploop3"}
	if status == "ok" {
		var es []string
		for _, e := range energies {
			es = append(es, hlib.Hex(e))
		}
		// guard: energies below 2^-60 * size^2 are not judged (rounding noise of the energy is about
		// 2^-100 * size^2; the energy of a visibly unconverged iterate is about 2^-10 * size^2 and more)
		params = append(params, "guard="+hlib.Hex(math.Ldexp(size*size, -60)), "h:"+strings.Join(hs, ";"), "E:"+strings.Join(es, ","), "match:"+joinInts(match))
		c.Stat("araploop-constraints:"+consKind, 1)
		if k >= 10 {
			c.Stat("araploop-on-a-small-model(scale<=2^-10)", 1)
			if consKind == "rigid" || consKind == "rigid-float" {
				c.Stat("araploop-on-a-small-model-with-handles-moved-rigidly", 1)
			}
		}
		// validation only: where the faithful model of the loop stops (the driver judges `allowed`, not `equal`)
		want := maxIters
		for n := 1; n <= maxIters; n++ {
			if n >= minIters && 1-energies[n]/energies[n-1] < tol {
				want = n
				break
			}
		}
		hit := false
		for _, n := range match {
			if n == want {
				hit = true
			}
		}
		if hit {
			c.Stat("araploop-stops-where-the-model-of-the-loop-stops(validation-only)", 1)
		} else {
			c.Stat("araploop-does-NOT-stop-where-the-model-of-the-loop-stops(validation-only)", 1)
		}
		// in how many cases would a premature stop be judged (energies still dropping, exactly as the
		// driver evaluates it up to rounding of this float replica; validation only)
		drop := func(n int) bool {
			return n+1 < len(energies) && energies[n+1] > math.Ldexp(size*size, -60) && energies[n+1] <= (1-tol)*energies[n] &&
				(n == 0 || energies[n] <= (1-tol)*energies[n-1])
		}
		n0 := minIters
		if n0 < 1 {
			n0 = 1
		}
		if drop(n0) {
			c.Stat("araploop-energy-still-dropping-at-the-first-permitted-stop", 1)
			if k >= 10 {
				c.Stat("araploop-energy-still-dropping-at-the-first-permitted-stop(small-model)", 1)
			}
		}
		if want == maxIters && maxIters > 0 {
			c.Stat("araploop-uses-its-whole-budget", 1)
		} else if maxIters > 0 {
			c.Stat("araploop-stops-early-by-the-tolerance", 1)
		}
	} else {
		if status == "timeout" {
			timeouts["araploop3"]++
		}
		c.Stat("status:araploop3:"+strings.SplitN(status, ":", 2)[0], 1)
	}
	line = append(line, "P", fmt.Sprint(len(params)))
	line = append(line, params...)
	line = append(line, "I", soupStr3(st.soup), "O")
	if status == "ok" {
		line = append(line, soupStr3(st.soup))
	} else {
		line = append(line, status)
	}
	line = append(line, "K 0", st.ids.coordSection(usedIDs3(st.soup)))
	emitLine(c, line...)
}
