package main

// The linear step of ARAP ("reproduces a rigid motion when the constraints are one").
//
// Every iteration of ARAP.deformMap solves  squeezedMatrix · x = Squeeze(Targets(rot)) + SqueezeDelta()
// and re-fits the rotations.  For a rigid motion y = R p + t of the whole mesh, with the handles
// constrained to their images and all rotations R, the image y solves that system EXACTLY - for
// every weight table, as long as the matrix and the right-hand side use the SAME one
// (M3d.C10.arap_rigid_motion_solves_linear_step) - and has zero energy.  ARAP keeps two tables
// (NewARAPWeighted(mesh, linear, rotation)); `araplin3` runs the REAL Targets / Apply / SqueezeDelta /
// squeezedMatrix / energy (verif hooks) of one ARAP instance on 2-3 probes and sends the tables
// and the real results:
//
//   araplin3 P <np> n=<n> lin=<s> rot=<s> wexact=<0|1> x:<soup id per ARAP index> p:<x,y,z;…>
//            nb:<a,b;…> w:<hex,…;…> rw:<hex,…;…>
//            then per probe  mo:<rigid|rigidexact|free|freeexact> h:<index=x,y,z;…> rots:<9 hex;…> (one matrix = all vertices)
//            tr:<3 hex> y:<x,y,z;…> m:<fullToSqueezed> s:<squeezedToFull> T:<x,y,z;…> D:<…> A:<…> M:<col=hex,…;…> E:<hex>
//            I <soup> O <soup> K 0
//
// all floats as 16 hex digits.  The driver recomputes Targets, SqueezeDelta, the matrix rows, Apply
// and the energy with the model M3d.ArapLin at Float from the LINEAR table (same operations in the
// same order: bit for bit), and in exact mode (`rigidexact` + `wexact`: small dyadic coordinates
// and weights, R one of the 24 rotations of the cube, t dyadic - every float operation exact)
// checks at Rat, on the REAL outputs only, that the rigid image solves the real system.

import (
	"fmt"
	"math"
	"sort"
	"strings"

	"verif/harness/hlib"

	"github.com/unixpickle/model3d/model3d"
)

func hex3(p model3d.Coord3D) string {
	return hlib.Hex(p.X) + "," + hlib.Hex(p.Y) + "," + hlib.Hex(p.Z)
}

func hexVec(ps []model3d.Coord3D) string {
	ss := make([]string, len(ps))
	for i, p := range ps {
		ss[i] = hex3(p)
	}
	return strings.Join(ss, ";")
}

func hexMat(m model3d.Matrix3) string {
	ss := make([]string, 9)
	for i, x := range m {
		ss[i] = hlib.Hex(x)
	}
	return strings.Join(ss, ",")
}

func finite3(ps []model3d.Coord3D) bool {
	for _, p := range ps {
		for _, x := range p.Array() {
			if math.IsNaN(x) || math.IsInf(x, 0) {
				return false
			}
		}
	}
	return true
}

// cubeRotation: one of the 24 rotations of the cube (a signed permutation matrix of determinant 1).
func cubeRotation(c *hlib.Ctx) model3d.Matrix3 {
	for {
		perm := c.Rng.Perm(3)
		var m model3d.Matrix3
		for r := 0; r < 3; r++ {
			m[3*r+perm[r]] = float64(1 - 2*c.Rng.Intn(2))
		}
		if m.Det() == 1 {
			return m
		}
	}
}

var arapSchemes = []model3d.ARAPWeightingScheme{model3d.ARAPWeightingCotangent, model3d.ARAPWeightingAbsCotangent, model3d.ARAPWeightingUniform}
var arapSchemeNames = []string{"cot", "abscot", "uniform"}

// linPair: the next (linear, rotation) scheme pair; the dedicated loop walks through all nine.
var linPair = -1

// emitArapLin: see the header.  exactCoords = the mesh has small dyadic coordinates.
func emitArapLin(c *hlib.Ctx, st *state3, m *model3d.Mesh, exactCoords bool) {
	pair := c.Rng.Intn(9)
	if linPair >= 0 {
		pair = linPair % 9
	}
	lin, rot := pair/3, pair%3
	var a *model3d.ARAP
	var coords []model3d.Coord3D
	var nb [][]int
	var w, rw [][]float64
	status := watchdog(func() {
		a = model3d.NewARAPWeighted(m, arapSchemes[lin], arapSchemes[rot])
		coords = a.VerifCoords()
		nb, w, rw = a.VerifTables()
	})
	if status != "ok" {
		emitLine(c, "araplin3", "P 0", "I", soupStr3(st.soup), "O", status, "K 0", st.ids.coordSection(usedIDs3(st.soup)))
		return
	}
	n := len(coords)
	// weights must be finite numbers (a degenerate triangle has an infinite cotangent: not an input)
	wexact := true
	for i := range w {
		for j := range w[i] {
			for _, x := range []float64{w[i][j], rw[i][j]} {
				if math.IsNaN(x) || math.IsInf(x, 0) {
					c.Stat("araplin-skipped(non-finite-cotangent)", 1)
					return
				}
			}
			// exact mode: |w| <= 4 with <= 8 fractional bits, coordinates < 2^8 with <= 20 fractional bits:
			// a term of Targets / Apply has <= 42 bits, a sum over <= 120 neighbours <= 49
			if fracBits1(w[i][j]) > 8 || math.Abs(w[i][j]) > 4 {
				wexact = false
			}
		}
	}
	bits := 60
	if exactCoords {
		bits = fracBits3(m)
	}
	exactCoords = exactCoords && bits <= 20
	xs := make([]int, n)
	for i, p := range coords {
		xs[i] = st.ids.m[p]
	}
	var nbs, ws, rws []string
	for i := range nb {
		nbs = append(nbs, joinInts(nb[i]))
		var a1, a2 []string
		for j := range w[i] {
			a1 = append(a1, hlib.Hex(w[i][j]))
			a2 = append(a2, hlib.Hex(rw[i][j]))
		}
		ws = append(ws, strings.Join(a1, ","))
		rws = append(rws, strings.Join(a2, ","))
	}
	params := []string{fmt.Sprintf("n=%d", n), fmt.Sprintf("lin=%d", lin), fmt.Sprintf("rot=%d", rot),
		fmt.Sprintf("wexact=%d", map[bool]int{false: 0, true: 1}[wexact]),
		"schemes=" + arapSchemeNames[lin] + "/" + arapSchemeNames[rot],
		"x:" + joinInts(xs), "p:" + hexVec(coords), "nb:" + strings.Join(nbs, ";"), "w:" + strings.Join(ws, ";"), "rw:" + strings.Join(rws, ";")}
	c.Stat("op:araplin3", 1)
	c.Stat("araplin-schemes:"+arapSchemeNames[lin]+"/"+arapSchemeNames[rot], 1)
	differ := false
	for i := range w {
		for j := range w[i] {
			if w[i][j] != rw[i][j] {
				differ = true
			}
		}
	}
	if differ {
		c.Stat("araplin-instance-whose-two-weight-tables-differ", 1)
	}

	nprobes := 2 + c.Rng.Intn(2)
	var probeParams []string
	status = watchdog(func() {
		var params []string // handed over only when all probes are done (no sharing with a timed-out call)
		defer func() { probeParams = params }()
		for k := 0; k < nprobes; k++ {
			// the motion
			mode := []string{"rigid", "rigidexact", "free", "freeexact"}[c.Rng.Intn(4)]
			if k == 0 {
				mode = "rigidexact"
			}
			if mode == "rigidexact" && !exactCoords {
				mode = "rigid"
			}
			if mode == "freeexact" && !(exactCoords && bits <= 14) {
				// the energy squares the differences: 2*(14+4) bits + 10 bits for the sum stay below 53
				mode = "free"
			}
			var rots []model3d.Matrix3
			var tr model3d.Coord3D
			y := make([]model3d.Coord3D, n)
			switch mode {
			case "rigidexact":
				R := cubeRotation(c)
				if c.Rng.Intn(4) == 0 {
					R = model3d.Matrix3{1, 0, 0, 0, 1, 0, 0, 0, 1}
				}
				if c.Rng.Intn(4) != 0 {
					tr = model3d.XYZ(dy(c, 2, 3), dy(c, 2, 3), dy(c, 2, 3))
				}
				rots = []model3d.Matrix3{R}
				for i, p := range coords {
					y[i] = R.MulColumn(p).Add(tr)
				}
			case "rigid":
				axis := model3d.XYZ(c.Rng.NormFloat64(), c.Rng.NormFloat64(), c.Rng.NormFloat64()).Normalize()
				R := *model3d.NewMatrix3Rotation(axis, c.Rng.Float64()*2*math.Pi)
				tr = model3d.XYZ(c.Rng.NormFloat64(), c.Rng.NormFloat64(), c.Rng.NormFloat64())
				rots = []model3d.Matrix3{R}
				for i, p := range coords {
					y[i] = R.MulColumn(p).Add(tr)
				}
			case "freeexact":
				// another cube rotation at every vertex, a dyadic perturbation of the mesh: with dyadic
				// weights every float operation of the real calls is exact (no dependence on their order)
				rots = make([]model3d.Matrix3, n)
				for i, p := range coords {
					rots[i] = cubeRotation(c)
					y[i] = p.Add(model3d.XYZ(dy(c, 1, 3), dy(c, 1, 3), dy(c, 1, 3)))
				}
			default:
				// a perturbed mesh and ITS best-fit rotations (the real ARAP.rotations): what an
				// iteration in the middle of a deformation sees
				for i, p := range coords {
					y[i] = p.Add(model3d.XYZ(c.Rng.NormFloat64(), c.Rng.NormFloat64(), c.Rng.NormFloat64()).Scale(0.1))
				}
				rots = a.VerifRotations(y)
				for _, r := range rots {
					for _, x := range r {
						if math.IsNaN(x) || math.IsInf(x, 0) {
							// SVD of a degenerate covariance: replace by a fixed rotation (any matrix will do)
							rots = nil
						}
					}
				}
				if rots == nil {
					rots = make([]model3d.Matrix3, n)
					for i := range rots {
						rots[i] = cubeRotation(c)
					}
				}
			}
			full := rots
			if len(rots) == 1 {
				full = make([]model3d.Matrix3, n)
				for i := range full {
					full[i] = rots[0]
				}
			}
			// the handles: 0..4 vertices, constrained to their positions in y
			nh := c.Rng.Intn(5)
			if k == 0 && nh == 0 {
				nh = 2
			}
			if nh > n {
				nh = n
			}
			perm := c.Rng.Perm(n)
			cons := model3d.ARAPConstraints{}
			var hs []string
			hidx := append([]int{}, perm[:nh]...)
			sort.Ints(hidx)
			for _, i := range hidx {
				cons[coords[i]] = y[i]
				hs = append(hs, fmt.Sprintf("%d=%s", i, hex3(y[i])))
			}
			op := model3d.VerifNewARAPOperator(a, cons)
			s2f, f2s := op.IndexMaps()
			T := op.Targets(full)
			D := op.SqueezeDelta()
			A := op.Apply(op.Squeeze(y))
			cols, vals := op.SqueezedMatrix()
			E := a.VerifEnergy(y, full)
			var ms []string
			for r := range cols {
				var es []string
				for j := range cols[r] {
					es = append(es, fmt.Sprintf("%d=%s", cols[r][j], hlib.Hex(vals[r][j])))
				}
				ms = append(ms, strings.Join(es, ","))
			}
			var rs []string
			for _, r := range rots {
				rs = append(rs, hexMat(r))
			}
			params = append(params, "mo:"+mode, "h:"+strings.Join(hs, ";"), "rots:"+strings.Join(rs, ";"), "tr:"+hex3(tr), "y:"+hexVec(y),
				"m:"+joinInts(f2s), "s:"+joinInts(s2f), "T:"+hexVec(T), "D:"+hexVec(D), "A:"+hexVec(A), "M:"+strings.Join(ms, ";"), "E:"+hlib.Hex(E))
			c.Stat("araplin-probe:"+mode, 1)
			if mode == "freeexact" && wexact {
				c.Stat("araplin-probe-in-exact-mode(per-vertex-rotations)", 1)
			}
			if mode == "rigidexact" && wexact {
				c.Stat("araplin-probe-in-exact-mode(rigid-image-must-solve-the-real-system)", 1)
				if differ {
					c.Stat("araplin-probe-in-exact-mode-with-differing-weight-tables", 1)
				}
			}
			// validation only (sparse Cholesky and SVD are float algorithms): the solve returns the
			// rigid image and the best-fit rotations of the rigid image are R
			if (mode == "rigid" || mode == "rigidexact") && nh > 0 && lin != 0 && finite3(T) {
				sol := op.LinSolve(T)
				worst := 0.0
				for i := range sol {
					if d := sol[i].Dist(y[i]); d > worst || math.IsNaN(d) {
						worst = d
					}
				}
				if worst < 1e-6 {
					c.Stat("araplin-linsolve-returns-rigid-image(1e-6,validation-only)", 1)
				} else {
					c.Stat("araplin-linsolve-does-NOT-return-rigid-image(1e-6,validation-only)", 1)
				}
				if rot != 0 {
					fit := a.VerifRotations(y)
					wr := 0.0
					for i := range fit {
						for j := range fit[i] {
							if d := math.Abs(fit[i][j] - rots[0][j]); d > wr || math.IsNaN(d) {
								wr = d
							}
						}
					}
					if wr < 1e-6 {
						c.Stat("araplin-rotations-of-rigid-image-are-R(1e-6,validation-only)", 1)
					} else {
						c.Stat("araplin-rotations-of-rigid-image-are-NOT-R(1e-6,validation-only)", 1)
					}
				}
			}
		}
	})
	if status == "ok" {
		params = append(params, probeParams...)
	}
	line := []string{"araplin3", "P", fmt.Sprint(len(params))}
	line = append(line, params...)
	line = append(line, "I", soupStr3(st.soup), "O")
	if status == "ok" {
		line = append(line, soupStr3(st.soup))
	} else {
		line = append(line, status)
	}
	line = append(line, "K 0")
	emitLine(c, line...)
}
