package main

// Inputs and operations for the two multi-step clauses of C10:
//
//   * Blur / BlurFiltered with SEVERAL rates ("multiple iterations performed in succession",
//     M3d.C10.blur_rates_are_successive_iterations): the model recomputes every iteration in exact
//     rational arithmetic, so the real call must be exact too - dyadic coordinates, dyadic rates and
//     a power-of-two number of neighbours at every vertex (rate -1: one less than a power of two).
//     `Blur` meets this on meshes whose valences are all powers of two (bipyramids over 4/8/16-gons,
//     union-jack tori with valences 4 and 8, octahedra); `BlurFiltered` meets it on EVERY dyadic
//     mesh with a symmetric neighbour filter that keeps 0, 1, 2, 4 or 8 neighbours per vertex.
//   * ARAP.SeqDeformer called several times with changing constraint sets (same handles / same
//     number of other handles / another number), M3d.C10.arap_seq_deformer_meets_constraints.

import (
	"fmt"
	"math"
	"os"
	"sort"
	"strings"

	"verif/harness/hlib"

	"github.com/unixpickle/model3d/model2d"
	"github.com/unixpickle/model3d/model3d"
)

// ---------------------------------------------------------------- generators: all valences 2^k

// bipyramid over a polygon that is star-shaped around the origin (n = 4, 8, 16 rim points, multiples
// of 1/4): rim vertices have valence 4, the two apexes valence n.
func bipyramid(c *hlib.Ctx, org model3d.Coord3D) *model3d.Mesh {
	n := []int{4, 8, 8, 16}[c.Rng.Intn(4)]
	var rim []model2d.Coord
	for tries := 0; rim == nil && tries < 50; tries++ {
		rim = starPolygon(c, model2d.XY(0, 0), n)
		if len(rim) != n {
			rim = nil
		}
	}
	if rim == nil {
		rim = []model2d.Coord{model2d.XY(1, 0), model2d.XY(0, 1), model2d.XY(-1, 0), model2d.XY(0, -1)}
		n = 4
	}
	h1, h2 := float64(1+c.Rng.Intn(8))/4, float64(1+c.Rng.Intn(8))/4
	top, bot := org.Add(model3d.Z(h1)), org.Add(model3d.Z(-h2))
	m := model3d.NewMesh()
	for i := 0; i < n; i++ {
		a := org.Add(model3d.XYZ(rim[i].X, rim[i].Y, 0))
		b := org.Add(model3d.XYZ(rim[(i+1)%n].X, rim[(i+1)%n].Y, 0))
		m.Add(&model3d.Triangle{a, b, top})
		m.Add(&model3d.Triangle{b, a, bot})
	}
	return m
}

// unionJackTorus: the product of a ring polygon (2a points, star-shaped around the axis) and a
// profile polygon (2b points in the half plane rho > 0), every quad split so that the diagonals
// meet at the vertices with i+j even: valences 8 and 4.  All faces are planar trapezoids.
func unionJackTorus(c *hlib.Ctx, org model3d.Coord3D) *model3d.Mesh {
	na := []int{4, 6, 8}[c.Rng.Intn(3)]
	var ring []model2d.Coord
	for tries := 0; ring == nil && tries < 50; tries++ {
		ring = starPolygon(c, model2d.XY(0, 0), na)
		if len(ring) != na {
			ring = nil
		}
	}
	if ring == nil {
		ring = []model2d.Coord{model2d.XY(1, 0), model2d.XY(0, 1), model2d.XY(-1, 0), model2d.XY(0, -1)}
		na = 4
	}
	// profile: (rho, z), counter-clockwise in the (rho, z) plane
	var prof [][2]float64
	r0, r1 := float64(1+c.Rng.Intn(2)), float64(3+c.Rng.Intn(2))
	z0, z1 := -float64(1+c.Rng.Intn(3))/2, float64(1+c.Rng.Intn(3))/2
	if c.Rng.Intn(2) == 0 {
		prof = [][2]float64{{r0, z0}, {r1, z0}, {r1, z1}, {r0, z1}}
	} else {
		// an octagon: the rectangle with cut corners (still all rho > 0)
		d := 0.25
		prof = [][2]float64{{r0 + d, z0}, {r1 - d, z0}, {r1, z0 + d}, {r1, z1 - d}, {r1 - d, z1}, {r0 + d, z1}, {r0, z1 - d}, {r0, z0 + d}}
	}
	nb := len(prof)
	p := func(i, j int) model3d.Coord3D {
		i, j = ((i%na)+na)%na, ((j%nb)+nb)%nb
		return org.Add(model3d.XYZ(ring[i].X*prof[j][0], ring[i].Y*prof[j][0], prof[j][1]))
	}
	m := model3d.NewMesh()
	for i := 0; i < na; i++ {
		for j := 0; j < nb; j++ {
			a, b, cc, d := p(i, j), p(i+1, j), p(i+1, j+1), p(i, j+1)
			if (i+j)%2 == 0 {
				// diagonal a - cc (a has i+j even, cc has i+j+2 even)
				m.Add(&model3d.Triangle{a, b, cc})
				m.Add(&model3d.Triangle{a, cc, d})
			} else {
				// diagonal b - d
				m.Add(&model3d.Triangle{a, b, d})
				m.Add(&model3d.Triangle{b, cc, d})
			}
		}
	}
	return m
}

// pow2Mesh: a dyadic closed manifold all of whose valences are powers of two.
func pow2Mesh(c *hlib.Ctx) mesh3 {
	org := model3d.XYZ(dy(c, 2, 2), dy(c, 2, 2), dy(c, 2, 2))
	switch c.Rng.Intn(5) {
	case 0:
		return mesh3{octahedron(org, float64(1+c.Rng.Intn(4))/2), "octa", true}
	case 1, 2:
		return mesh3{bipyramid(c, org), "bipyramid", true}
	default:
		return mesh3{unionJackTorus(c, org), "unionjack-torus", true}
	}
}

// ---------------------------------------------------------------- Blur with several rates

func ceilLog2(k int) int {
	b := 0
	for (1 << uint(b)) < k {
		b++
	}
	return b
}

// pickRates chooses 1..4 dyadic rates such that every float operation of the real call stays
// exact: `bits` fractional bits at the start, at most kmax neighbours, coordinates below 2^9.
// mean = all rates are -1 (neighbour counts are 2^k - 1).  Returns nil when not even one fits.
func pickRates(c *hlib.Ctx, bits, kmax int, mean bool) []float64 {
	n := []int{1, 2, 2, 3, 3, 4}[c.Rng.Intn(6)]
	var rates []float64
	intBits := 9
	for i := 0; i < n; i++ {
		r := -1.0
		cost := ceilLog2(kmax + 1)
		if !mean {
			r = []float64{0, 1, 0.5, 0.25, 0.75, 1.5, -0.5, 1, 0.5}[c.Rng.Intn(9)]
			cost = ceilLog2(kmax) + fracBits1(r)
			if r > 1 || r < 0 {
				intBits++ // |rate| + |1 - rate| = 2
			}
		}
		// the sum of up to kmax (+1) neighbours needs ceilLog2(kmax+1) more integer bits
		if bits+cost+intBits+ceilLog2(kmax+1) > 52 {
			break
		}
		bits += cost
		rates = append(rates, r)
	}
	return rates
}

func ratesParams(rates []float64) []string {
	ps := []string{"geom"}
	for _, r := range rates {
		ps = append(ps, hlib.RatStr(r))
	}
	return ps
}

// symmetricPow2Filter selects a symmetric sub-relation of the mesh's adjacency in which every
// vertex keeps 0 or 2^k neighbours (mean: 0 or 2^k - 1).  Returns the selected neighbour lists
// by vertex id and the largest count.
func symmetricPow2Filter(c *hlib.Ctx, soup [][3]int, mean bool) (map[int][]int, int) {
	type edge [2]int
	seen := map[edge]bool{}
	var edges []edge
	for _, t := range soup {
		for i := 0; i < 3; i++ {
			a, b := t[i], t[(i+1)%3]
			if a > b {
				a, b = b, a
			}
			if !seen[edge{a, b}] {
				seen[edge{a, b}] = true
				edges = append(edges, edge{a, b})
			}
		}
	}
	sort.Slice(edges, func(i, j int) bool {
		if edges[i][0] != edges[j][0] {
			return edges[i][0] < edges[j][0]
		}
		return edges[i][1] < edges[j][1]
	})
	c.Rng.Shuffle(len(edges), func(i, j int) { edges[i], edges[j] = edges[j], edges[i] })
	caps := map[int]int{}
	capOf := func(v int) int {
		if k, ok := caps[v]; ok {
			return k
		}
		k := []int{0, 1, 2, 2, 4, 4, 8}[c.Rng.Intn(7)]
		if mean {
			k = []int{0, 1, 1, 3, 3, 7}[c.Rng.Intn(6)]
		}
		caps[v] = k
		return k
	}
	for _, v := range usedIDs3(soup) {
		capOf(v)
	}
	deg := map[int]int{}
	sel := map[edge]bool{}
	for _, e := range edges {
		if deg[e[0]] < caps[e[0]] && deg[e[1]] < caps[e[1]] {
			sel[e] = true
			deg[e[0]]++
			deg[e[1]]++
		}
	}
	good := func(d int) bool {
		if d == 0 {
			return true
		}
		if mean {
			return pow2(d + 1)
		}
		return pow2(d)
	}
	for changed := true; changed; {
		changed = false
		for _, e := range edges {
			if sel[e] && (!good(deg[e[0]]) || !good(deg[e[1]])) {
				delete(sel, e)
				deg[e[0]]--
				deg[e[1]]--
				changed = true
			}
		}
	}
	nb := map[int][]int{}
	kmax := 0
	for e := range sel {
		nb[e[0]] = append(nb[e[0]], e[1])
		nb[e[1]] = append(nb[e[1]], e[0])
	}
	for v := range nb {
		sort.Ints(nb[v])
		if len(nb[v]) > kmax {
			kmax = len(nb[v])
		}
	}
	return nb, kmax
}

func neighbourTokens(nb map[int][]int) []string {
	var vs []int
	for v := range nb {
		vs = append(vs, v)
	}
	sort.Ints(vs)
	ps := []string{"N"}
	for _, v := range vs {
		var xs []string
		for _, n := range nb[v] {
			xs = append(xs, fmt.Sprint(n))
		}
		ps = append(ps, fmt.Sprintf("%d>%s", v, strings.Join(xs, ",")))
	}
	return ps
}

// runBlurFiltered: one real BlurFiltered call with a symmetric neighbour filter.
func runBlurFiltered(c *hlib.Ctx, st *state3, m *model3d.Mesh, bits int, r *result3) {
	r.kind = "blurf3"
	mean := c.Rng.Intn(4) == 0
	nb, kmax := symmetricPow2Filter(c, st.soup, mean)
	sel := map[[2]int]bool{}
	for v, ns := range nb {
		for _, n := range ns {
			sel[[2]int{v, n}] = true
		}
	}
	filter := func(c1, c2 model3d.Coord3D) bool {
		return sel[[2]int{st.ids.m[c1], st.ids.m[c2]}]
	}
	var rates []float64
	if st.exact && bits < 40 && kmax > 0 {
		rates = pickRates(c, bits, kmax, mean)
	}
	if rates != nil {
		r.params = append(ratesParams(rates), neighbourTokens(nb)...)
		r.coords, r.exact = true, true
		if len(rates) > 1 {
			c.Stat("exact-multi-rate-blur:blurf3", 1)
		}
	} else if c.Rng.Intn(2) == 0 {
		// rate 0 iterations are the identity on every mesh, exactly
		rates = make([]float64, 1+c.Rng.Intn(3))
		r.params = append(ratesParams(rates), neighbourTokens(nb)...)
		r.coords, r.exact, r.flat = true, st.exact, st.flat
	} else {
		n := 1 + c.Rng.Intn(3)
		for i := 0; i < n; i++ {
			rates = append(rates, []float64{0.1, 0.3, 0.5, 0.9, -1, 1}[c.Rng.Intn(6)])
		}
	}
	r.status = watchdog(func() { r.out = m.BlurFiltered(filter, rates...) })
}

// ---------------------------------------------------------------- ARAP

type arapCons struct {
	key, target model3d.Coord3D
}

func sortedCons(cons model3d.ARAPConstraints) []arapCons {
	res := make([]arapCons, 0, len(cons))
	for k, v := range cons {
		res = append(res, arapCons{k, v})
	}
	sort.Slice(res, func(i, j int) bool { return less3(res[i].key, res[j].key) })
	return res
}

// idOf: the id of a coordinate (a fresh one if no mesh of the chain has had a vertex there).
func (t *ids3) idOf(p model3d.Coord3D) int {
	if id, ok := t.m[p]; ok {
		return id
	}
	t.m[p] = len(t.coords)
	t.coords = append(t.coords, p)
	return len(t.coords) - 1
}

// consTokens renders the constraints as `<vertex id>><id of the target coordinate>` (after the
// output has been encoded, so that a target that IS an output vertex has that vertex's id).
func consTokens(ids *ids3, cons []arapCons) []string {
	var ps []string
	for _, kv := range cons {
		ps = append(ps, fmt.Sprintf("%d>%d", ids.m[kv.key], ids.idOf(kv.target)))
	}
	return ps
}

// arapTargets fills in targets for the handles: a common translation (rigid), or the first handle
// fixed and the others moved a little.
func arapTargets(c *hlib.Ctx, handles []model3d.Coord3D) (model3d.ARAPConstraints, bool, model3d.Coord3D) {
	for tries := 0; ; tries++ {
		cons := model3d.ARAPConstraints{}
		off := model3d.XYZ(dy(c, 1, 3), dy(c, 1, 3), dy(c, 1, 3))
		rigid := c.Rng.Intn(3) == 0
		for i, v := range handles {
			if rigid || tries >= 10 {
				cons[v] = v.Add(off)
			} else if i == 0 && c.Rng.Intn(2) == 0 {
				cons[v] = v
			} else {
				cons[v] = v.Add(model3d.XYZ(dy(c, 1, 3), dy(c, 1, 3), dy(c, 1, 3)).Scale(0.25))
			}
		}
		// the targets must be pairwise distinct points (two handles sent to one point would merge
		// two vertices by the caller's choice); a common translation always is
		seen := map[model3d.Coord3D]bool{}
		for _, t := range cons {
			seen[t] = true
		}
		if len(seen) == len(cons) {
			return cons, rigid || tries >= 10, off
		}
	}
}

// nextHandles: the handle set of the next frame of a sequential deformer.
//   0: the same handles (new targets)          1: as many handles, at least one other vertex
//   2: another number of handles
func nextHandles(c *hlib.Ctx, vs, prev []model3d.Coord3D, mode int) []model3d.Coord3D {
	isPrev := map[model3d.Coord3D]bool{}
	for _, p := range prev {
		isPrev[p] = true
	}
	var others []model3d.Coord3D
	for _, v := range vs {
		if !isPrev[v] {
			others = append(others, v)
		}
	}
	c.Rng.Shuffle(len(others), func(i, j int) { others[i], others[j] = others[j], others[i] })
	switch mode {
	case 0:
		return append([]model3d.Coord3D{}, prev...)
	case 1:
		// replace 1..len(prev) handles by vertices that were free
		res := append([]model3d.Coord3D{}, prev...)
		k := 1 + c.Rng.Intn(len(prev))
		if k > len(others) {
			k = len(others)
		}
		perm := c.Rng.Perm(len(prev))
		for i := 0; i < k; i++ {
			res[perm[i]] = others[i]
		}
		return res
	default:
		n := 1 + c.Rng.Intn(4)
		if n == len(prev) {
			n++
		}
		all := append(append([]model3d.Coord3D{}, prev...), others...)
		c.Rng.Shuffle(len(all), func(i, j int) { all[i], all[j] = all[j], all[i] })
		if n > len(all) {
			n = len(all)
		}
		return all[:n]
	}
}

func rigidStat(c *hlib.Ctx, m, out *model3d.Mesh, off model3d.Coord3D, tag string) {
	// validation only (ARAP is an iterative float solve): every output vertex within 1e-3 of a
	// translated input vertex
	want := m.Translate(off).VertexSlice()
	worst := 0.0
	for _, v := range out.VertexSlice() {
		best := math.Inf(1)
		for _, w := range want {
			best = math.Min(best, v.Dist(w))
		}
		if best > worst || math.IsNaN(best) {
			worst = best
		}
	}
	if os.Getenv("C10_VERBOSE") != "" {
		fmt.Fprintln(os.Stderr, "rigid", tag, "worst", worst, "verts", len(want))
	}
	if worst < 1e-3 {
		c.Stat("arap-rigid-translation-reproduced(near,validation-only)"+tag, 1)
	} else {
		c.Stat("arap-rigid-translation-NOT-reproduced(near,validation-only)"+tag, 1)
	}
}

// arapLine renders one ARAP frame: head (kind, params incl. constraint tokens), output soup.
func arapLine(c *hlib.Ctx, st *state3, params []string, cons []arapCons, outMesh *model3d.Mesh) ([]string, [][3]int) {
	out := st.ids.soup(outMesh)
	params = append(append([]string{}, params...), consTokens(st.ids, cons)...)
	// no `noninj` escape here: the targets are pairwise distinct, so a deformation that puts two
	// vertices on one point has not returned the manifold the property demands
	line := []string{"arap3", "P", fmt.Sprint(len(params))}
	line = append(line, params...)
	line = append(line, "I", soupStr3(st.soup), "O", soupStr3(out), "K 0")
	// coordinates only make the replay self-contained (the model works on the ids)
	set := map[int]bool{}
	for _, id := range usedIDs3(st.soup, out) {
		set[id] = true
	}
	for _, kv := range cons {
		set[st.ids.m[kv.target]] = true
	}
	var used []int
	finite := true
	for id := range set {
		used = append(used, id)
		for _, x := range st.ids.coords[id].Array() {
			if math.IsNaN(x) || math.IsInf(x, 0) {
				finite = false
			}
		}
	}
	sort.Ints(used)
	if finite {
		line = append(line, st.ids.coordSection(used))
	}
	c.Stat("arap-constraints-judged-on-output-mesh", len(cons))
	return line, out
}

// forceSeq: the next arap3 operation uses SeqDeformer (set by run for the dedicated loop).
var forceSeq bool

// runArapSeq: ARAP.SeqDeformer over 2..4 frames.  Lines of all frames but the last are emitted
// here; the last frame is returned through r (chain3With emits it and continues from it).
func runArapSeq(c *hlib.Ctx, st *state3, m *model3d.Mesh, vs []model3d.Coord3D, r *result3) {
	cold := c.Rng.Intn(2) == 0
	uniform := c.Rng.Intn(2) == 0
	nframes := 2 + c.Rng.Intn(3)
	var deformer func(model3d.ARAPConstraints) *model3d.Mesh
	var handles []model3d.Coord3D
	for f := 0; f < nframes; f++ {
		mode := -1
		if f == 0 {
			n := 1 + c.Rng.Intn(3)
			perm := c.Rng.Perm(len(vs))
			for i := 0; i < n; i++ {
				handles = append(handles, vs[perm[i]])
			}
		} else {
			mode = []int{0, 1, 1, 1, 2}[c.Rng.Intn(5)]
			handles = nextHandles(c, vs, handles, mode)
		}
		cons, rigid, off := arapTargets(c, handles)
		params := []string{fmt.Sprintf("seq,frame=%d/%d,cold=%v,uniform=%v,handles=%s,rigid=%v", f+1, nframes, cold, uniform,
			[]string{"first", "same", "same-number-other-vertices", "other-number"}[mode+1], rigid)}
		var out *model3d.Mesh
		status := watchdog(func() {
			if deformer == nil {
				w := model3d.ARAPWeightingAbsCotangent
				if uniform {
					w = model3d.ARAPWeightingUniform
				}
				a := model3d.NewARAPWeighted(m, w, w)
				a.SetMaxIterations(30)
				deformer = a.SeqDeformer(cold)
			}
			out = deformer(cons)
		})
		c.Stat("arap-seq-frame:"+[]string{"first", "same-handles", "same-number-other-vertices", "other-number"}[mode+1], 1)
		r.params = params
		r.cons = sortedCons(cons)
		r.status = status
		if status != "ok" {
			return
		}
		if rigid {
			rigidStat(c, m, out, off, fmt.Sprintf(":seq(cold=%v)", cold))
		}
		r.out = out
		if f+1 < nframes {
			line, _ := arapLine(c, st, params, r.cons, out)
			emitLine(c, line...)
			c.Stat("op:arap3", 1)
		}
	}
}

// ---------------------------------------------------------------- ARAP operator bookkeeping

func joinInts(xs []int) string {
	ss := make([]string, len(xs))
	for i, x := range xs {
		ss[i] = fmt.Sprint(x)
	}
	return strings.Join(ss, ",")
}

// emitArapOp: the REAL newARAPOperator / arapOperator.Update (through the verif hooks) over a
// sequence of constraint sets, compared with the model M3d.ArapOp: after every call the index maps
// squeezedToFull / fullToSqueezed and Unsqueeze(Squeeze(x)) for the vector x of original positions
// (only copies, no arithmetic: exact).  One line per sequence:
//   n=<vertices> z=<id of the origin> x:<ids of x> then per frame  c:<index>=<target id>,…  m:<fullToSqueezed>  s:<squeezedToFull>  u:<ids of the result>
func emitArapOp(c *hlib.Ctx, st *state3, m *model3d.Mesh) {
	a := model3d.NewARAPWeighted(m, model3d.ARAPWeightingUniform, model3d.ARAPWeightingUniform)
	coords := a.VerifCoords()
	index := map[model3d.Coord3D]int{}
	for i, p := range coords {
		index[p] = i
	}
	xs := make([]int, len(coords))
	for i, p := range coords {
		xs[i] = st.ids.m[p]
	}
	params := []string{fmt.Sprintf("n=%d", len(coords)), fmt.Sprintf("z=%d", st.ids.idOf(model3d.Coord3D{})), "x:" + joinInts(xs)}
	nframes := 2 + c.Rng.Intn(4)
	var op *model3d.VerifARAPOperator
	var handles []model3d.Coord3D
	status := hlib.Guard(func() string {
		for f := 0; f < nframes; f++ {
			if f == 0 {
				n := 1 + c.Rng.Intn(4)
				if n > len(coords) {
					n = len(coords)
				}
				perm := c.Rng.Perm(len(coords))
				for i := 0; i < n; i++ {
					handles = append(handles, coords[perm[i]])
				}
			} else {
				mode := []int{0, 1, 1, 1, 2, 3}[c.Rng.Intn(6)]
				if mode == 3 {
					// a proper subset / superset by one vertex
					if len(handles) > 1 && c.Rng.Intn(2) == 0 {
						handles = append([]model3d.Coord3D{}, handles[1:]...)
					} else {
						handles = append([]model3d.Coord3D{}, handles...)
						for _, v := range coords {
							isH := false
							for _, h := range handles {
								if h == v {
									isH = true
								}
							}
							if !isH {
								handles = append(handles, v)
								break
							}
						}
					}
					c.Stat("arapop-frame:subset-or-superset", 1)
				} else {
					handles = nextHandles(c, coords, handles, mode)
					c.Stat("arapop-frame:"+[]string{"same-handles", "same-number-other-vertices", "other-number"}[mode], 1)
				}
			}
			cons, _, _ := arapTargets(c, handles)
			if op == nil {
				op = model3d.VerifNewARAPOperator(a, cons)
			} else {
				op.Update(cons)
			}
			s2f, f2s := op.IndexMaps()
			u := op.Unsqueeze(op.Squeeze(coords))
			var cs []string
			for _, kv := range sortedCons(cons) {
				cs = append(cs, fmt.Sprintf("%d=%d", index[kv.key], st.ids.idOf(kv.target)))
			}
			sort.Strings(cs)
			us := make([]int, len(u))
			for i, p := range u {
				us[i] = st.ids.idOf(p)
			}
			params = append(params, "c:"+strings.Join(cs, ","), "m:"+joinInts(f2s), "s:"+joinInts(s2f), "u:"+joinInts(us))
		}
		return "ok"
	})
	c.Stat("op:arapop3", 1)
	line := []string{"arapop3", "P", fmt.Sprint(len(params))}
	line = append(line, params...)
	line = append(line, "I", soupStr3(st.soup), "O")
	if status == "ok" {
		line = append(line, soupStr3(st.soup))
	} else {
		line = append(line, status)
	}
	line = append(line, "K 0")
	emitLine(c, line...)
}
