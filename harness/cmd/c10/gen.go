package main

import (
	"math"
	"sort"

	"verif/harness/hlib"

	"github.com/unixpickle/model3d/model2d"
	"github.com/unixpickle/model3d/model3d"
)

// A gen3 result: the mesh, a label, and whether all coordinates are small dyadic rationals
// (so that +,-,* on them and on midpoints/quarter points is exact in float64).
type mesh3 struct {
	m     *model3d.Mesh
	label string
	exact bool
}

func dy(c *hlib.Ctx, span int, bits uint) float64 { return c.Dyadic(span, bits) }

// gridBox builds the surface of the box [0,nx*dx]x[0,ny*dy]x[0,nz*dz]+origin with every face cut
// into a grid of quads, each split in two triangles: long coplanar runs and colinear edge runs.
func gridBox(o model3d.Coord3D, nx, ny, nz int, d model3d.Coord3D) *model3d.Mesh {
	m := model3d.NewMesh()
	p := func(i, j, k int) model3d.Coord3D {
		return model3d.XYZ(o.X+float64(i)*d.X, o.Y+float64(j)*d.Y, o.Z+float64(k)*d.Z)
	}
	quad := func(a, b, c, e model3d.Coord3D, alt bool) {
		if alt {
			m.Add(&model3d.Triangle{a, b, e})
			m.Add(&model3d.Triangle{b, c, e})
		} else {
			m.Add(&model3d.Triangle{a, b, c})
			m.Add(&model3d.Triangle{a, c, e})
		}
	}
	for i := 0; i < nx; i++ {
		for j := 0; j < ny; j++ {
			// bottom (normal -z) and top (+z)
			quad(p(i, j, 0), p(i, j+1, 0), p(i+1, j+1, 0), p(i+1, j, 0), (i+j)%2 == 0)
			quad(p(i, j, nz), p(i+1, j, nz), p(i+1, j+1, nz), p(i, j+1, nz), (i+j)%2 == 1)
		}
	}
	for i := 0; i < nx; i++ {
		for k := 0; k < nz; k++ {
			quad(p(i, 0, k), p(i+1, 0, k), p(i+1, 0, k+1), p(i, 0, k+1), (i+k)%2 == 0)
			quad(p(i, ny, k), p(i, ny, k+1), p(i+1, ny, k+1), p(i+1, ny, k), false)
		}
	}
	for j := 0; j < ny; j++ {
		for k := 0; k < nz; k++ {
			quad(p(0, j, k), p(0, j, k+1), p(0, j+1, k+1), p(0, j+1, k), (j+k)%3 == 0)
			quad(p(nx, j, k), p(nx, j+1, k), p(nx, j+1, k+1), p(nx, j, k+1), false)
		}
	}
	return m
}

func octahedron(o model3d.Coord3D, r float64) *model3d.Mesh {
	m := model3d.NewMesh()
	px, nx := o.Add(model3d.X(r)), o.Add(model3d.X(-r))
	py, ny := o.Add(model3d.Y(r)), o.Add(model3d.Y(-r))
	pz, nz := o.Add(model3d.Z(r)), o.Add(model3d.Z(-r))
	for _, t := range [][3]model3d.Coord3D{
		{px, py, pz}, {py, nx, pz}, {nx, ny, pz}, {ny, px, pz},
		{py, px, nz}, {nx, py, nz}, {ny, nx, nz}, {px, ny, nz},
	} {
		m.Add(&model3d.Triangle{t[0], t[1], t[2]})
	}
	return m
}

func tetrahedron(o model3d.Coord3D, r float64) *model3d.Mesh {
	a := o.Add(model3d.XYZ(r, r, r))
	b := o.Add(model3d.XYZ(r, -r, -r))
	c := o.Add(model3d.XYZ(-r, r, -r))
	d := o.Add(model3d.XYZ(-r, -r, r))
	m := model3d.NewMesh()
	m.Add(&model3d.Triangle{a, b, c})
	m.Add(&model3d.Triangle{a, c, d})
	m.Add(&model3d.Triangle{a, d, b})
	m.Add(&model3d.Triangle{b, d, c})
	return m
}

// boxFrame is a union of axis-aligned boxes on the integer grid forming a slab with `holes`
// through holes (genus = holes), meshed by the real marching cubes at a dyadic resolution.
func boxFrame(holes int, delta float64) *model3d.Mesh {
	var solids model3d.JoinedSolid
	w := float64(2*holes + 1)
	// two long bars
	solids = append(solids, model3d.NewRect(model3d.XYZ(0, 0, 0), model3d.XYZ(w, 1, 1)))
	solids = append(solids, model3d.NewRect(model3d.XYZ(0, 2, 0), model3d.XYZ(w, 3, 1)))
	for i := 0; i <= holes; i++ {
		x := float64(2 * i)
		solids = append(solids, model3d.NewRect(model3d.XYZ(x, 0, 0), model3d.XYZ(x+1, 3, 1)))
	}
	// shift off the sampling grid so that no sample lies on a box face
	sh := model3d.XYZ(delta/2, delta/2, delta/2)
	return model3d.MarchingCubes(model3d.TranslateSolid(solids, sh), delta)
}

func pickGen3(c *hlib.Ctx) mesh3 {
	org := model3d.XYZ(dy(c, 2, 2), dy(c, 2, 2), dy(c, 2, 2))
	switch c.Rng.Intn(15) {
	case 13:
		return cyclicPrism(c)
	case 14:
		return pow2Mesh(c)
	case 0:
		return mesh3{tetrahedron(org, float64(1+c.Rng.Intn(3))/2), "tetra", true}
	case 1:
		return mesh3{octahedron(org, float64(1+c.Rng.Intn(4))/2), "octa", true}
	case 2:
		a := org
		b := org.Add(model3d.XYZ(float64(1+c.Rng.Intn(8))/4, float64(1+c.Rng.Intn(8))/4, float64(1+c.Rng.Intn(8))/4))
		return mesh3{model3d.NewMeshRect(a, b), "rect", true}
	case 3, 4:
		nx, ny, nz := 1+c.Rng.Intn(4), 1+c.Rng.Intn(3), 1+c.Rng.Intn(3)
		d := model3d.XYZ(float64(1+c.Rng.Intn(4))/4, float64(1+c.Rng.Intn(4))/4, float64(1+c.Rng.Intn(4))/4)
		return mesh3{gridBox(org, nx, ny, nz, d), "gridbox", true}
	case 5:
		return mesh3{model3d.NewMeshIcosphere(org, 1, 1+c.Rng.Intn(3)), "icosphere", false}
	case 6:
		in, out := 3+c.Rng.Intn(5), 3+c.Rng.Intn(7)
		return mesh3{model3d.NewMeshTorus(org, model3d.Z(1), 0.4, 1, in, out), "torus", false}
	case 7:
		holes := 1 + c.Rng.Intn(2)
		delta := 0.5
		if c.Rng.Intn(3) == 0 {
			delta = 1
		}
		return mesh3{boxFrame(holes, delta), "boxframe-genus" + string(rune('0'+holes)), true}
	case 8:
		// two components far apart
		a := pickGen3(c)
		b := pickGen3(c)
		m := model3d.NewMesh()
		m.AddMesh(a.m)
		m.AddMesh(b.m.Translate(model3d.X(math.Ceil(a.m.Max().X-b.m.Min().X) + 2)))
		return mesh3{m, "multi(" + a.label + "+" + b.label + ")", a.exact && b.exact}
	case 9:
		// thin triangles: squash one axis by a power of two
		a := pickGen3(c)
		s := model3d.XYZ(1, 1, 1.0/64)
		if c.Rng.Intn(2) == 0 {
			s = model3d.XYZ(1.0/32, 1, 1)
		}
		return mesh3{a.m.MapCoords(func(p model3d.Coord3D) model3d.Coord3D { return p.Mul(s) }), "thin(" + a.label + ")", a.exact}
	case 10:
		// chamfered base: a candidate for FlattenBase
		nx, ny := 2+c.Rng.Intn(3), 2+c.Rng.Intn(3)
		d := model3d.XYZ(0.5, 0.5, 0.5)
		b := gridBox(org, nx, ny, 2, d)
		mx := org.Add(model3d.XYZ(float64(nx)*0.5, float64(ny)*0.5, 1))
		m := b.MapCoords(func(p model3d.Coord3D) model3d.Coord3D {
			if p.Z == org.Z && (p.X == org.X || p.Y == org.Y || p.X == mx.X || p.Y == mx.Y) {
				p.Z += 0.125
			}
			return p
		})
		return mesh3{m, "chamfer", true}
	case 11:
		return mesh3{model3d.NewMeshCylinder(org, org.Add(model3d.Z(1)), 0.5, 3+c.Rng.Intn(8)), "cylinder", false}
	default:
		m := model3d.NewMeshIcosahedron()
		return mesh3{m, "icosahedron", false}
	}
}

// ---------------------------------------------------------------- 2-D

type mesh2 struct {
	m     *model2d.Mesh
	label string
	exact bool
}

func polyMesh(pts []model2d.Coord) *model2d.Mesh {
	m := model2d.NewMesh()
	for i := range pts {
		m.Add(&model2d.Segment{pts[i], pts[(i+1)%len(pts)]})
	}
	return m
}

// rectExtra is a rectangle with extra colinear vertices on its sides (k[i] on side i).
func rectExtra(o model2d.Coord, w, h float64, k [4]int, cw bool) []model2d.Coord {
	corners := []model2d.Coord{o, o.Add(model2d.X(w)), o.Add(model2d.XY(w, h)), o.Add(model2d.Y(h))}
	var pts []model2d.Coord
	for i := 0; i < 4; i++ {
		a, b := corners[i], corners[(i+1)%4]
		pts = append(pts, a)
		n := k[i] + 1
		// extra points at multiples of 1/8 of the side (dyadic), distinct
		for j := 1; j < n; j++ {
			t := float64(j) / 8
			pts = append(pts, a.Scale(1-t).Add(b.Scale(t)))
		}
	}
	if cw {
		for i, j := 0, len(pts)-1; i < j; i, j = i+1, j-1 {
			pts[i], pts[j] = pts[j], pts[i]
		}
	}
	return pts
}

// starPolygon: distinct grid points sorted by angle around a centre, one per direction.
func starPolygon(c *hlib.Ctx, o model2d.Coord, n int) []model2d.Coord {
	type pt struct {
		x, y int
	}
	seenDir := map[[2]int]bool{}
	var ps []pt
	gcd := func(a, b int) int {
		if a < 0 {
			a = -a
		}
		if b < 0 {
			b = -b
		}
		for b != 0 {
			a, b = b, a%b
		}
		return a
	}
	for tries := 0; len(ps) < n && tries < 200; tries++ {
		x, y := c.Rng.Intn(17)-8, c.Rng.Intn(17)-8
		if x == 0 && y == 0 {
			continue
		}
		g := gcd(x, y)
		d := [2]int{x / g, y / g}
		if seenDir[d] {
			continue
		}
		seenDir[d] = true
		ps = append(ps, pt{x, y})
	}
	sort.Slice(ps, func(i, j int) bool {
		return math.Atan2(float64(ps[i].y), float64(ps[i].x)) < math.Atan2(float64(ps[j].y), float64(ps[j].x))
	})
	// the polygon must wind around the centre: largest angular gap < pi
	for i := range ps {
		a, b := ps[i], ps[(i+1)%len(ps)]
		if a.x*b.y-a.y*b.x <= 0 {
			return nil
		}
	}
	res := make([]model2d.Coord, len(ps))
	for i, p := range ps {
		res[i] = o.Add(model2d.XY(float64(p.x)/4, float64(p.y)/4))
	}
	return res
}

func pickGen2(c *hlib.Ctx) mesh2 {
	o := model2d.XY(dy(c, 2, 2), dy(c, 2, 2))
	switch c.Rng.Intn(10) {
	case 9:
		g, _ := arcOutline(c)
		return g
	case 0, 1, 2:
		var k [4]int
		for i := range k {
			if c.Rng.Intn(2) == 0 {
				k[i] = c.Rng.Intn(5)
			}
		}
		w, h := float64(1+c.Rng.Intn(4)), float64(1+c.Rng.Intn(4))
		return mesh2{polyMesh(rectExtra(o, w, h, k, c.Rng.Intn(3) == 0)), "rect+colinear", true}
	case 3:
		for {
			if p := starPolygon(c, o, 3+c.Rng.Intn(10)); p != nil {
				return mesh2{polyMesh(p), "star", true}
			}
		}
	case 4:
		// nested outlines: outer counter-clockwise, hole clockwise, both with colinear extras
		m := model2d.NewMesh()
		m.AddMesh(polyMesh(rectExtra(o, 8, 8, [4]int{c.Rng.Intn(4), 0, c.Rng.Intn(3), 0}, false)))
		m.AddMesh(polyMesh(rectExtra(o.Add(model2d.XY(2, 2)), 4, 4, [4]int{0, c.Rng.Intn(4), 0, c.Rng.Intn(3)}, true)))
		return mesh2{m, "nested", true}
	case 5:
		a, b := pickGen2(c), pickGen2(c)
		m := model2d.NewMesh()
		m.AddMesh(a.m)
		m.AddMesh(b.m.Translate(model2d.X(math.Ceil(a.m.Max().X-b.m.Min().X) + 2)))
		return mesh2{m, "multi(" + a.label + "+" + b.label + ")", a.exact && b.exact}
	case 6:
		p := []model2d.Coord{o, o.Add(model2d.XY(float64(1+c.Rng.Intn(4)), 0)), o.Add(model2d.XY(dy(c, 2, 1), float64(1+c.Rng.Intn(3))))}
		return mesh2{polyMesh(p), "triangle", true}
	case 7:
		n := 3 + c.Rng.Intn(14)
		return mesh2{model2d.NewMeshPolar(func(t float64) float64 { return 1 + 0.3*math.Cos(3*t) }, n), "polar", false}
	default:
		// a long thin sliver with many colinear points
		k := [4]int{c.Rng.Intn(7), 0, c.Rng.Intn(7), 0}
		return mesh2{polyMesh(rectExtra(o, 8, 0.125, k, false)), "sliver", true}
	}
}
