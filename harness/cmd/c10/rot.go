package main

// The best-fit rotations of ARAP ("reproduces a rigid motion when the constraints are one").
//
// After every linear solve ARAP.rotations fits one rotation per vertex: covariance of the one-ring
// (rotation weight table), Matrix3.SVD, rot = v u^T, and when that is a reflection (determinant < 0)
// the left singular vector of the SMALLEST singular value is negated.  A flat one-ring (interior of a
// planar face) has a covariance of rank 2: the third singular vectors are arbitrary in sign and about
// half of those vertices take the repair branch.  `araprot3` runs the REAL ARAP.rotations (verif hook)
// on one probe vector y and sends, per vertex, the covariance (formed here with the operations of
// ARAP.rotations; the driver recomputes it with the model), the u s v the real Matrix3.SVD returns for
// it, and the real rotation:
//
//   araprot3 P <np> n=<n> schemes=<lin>/<rot> gen=<label> mo:<rigid|rigidexact|free|mirror> p:<x,y,z;…>
//            nb:<a,b;…> rw:<hex,…;…> y:<x,y,z;…> R:<9 hex> C:<9 hex;…> U:<…> S:<…> V:<…> rot:<…> I 0 O 0 K 0
//
// The driver (lean/M3d/Drv/C10Rot.lean) compares the real rotation bit for bit with M3d.ArapRot.rotOf u v
// and decides exactly (Rat) that it is proper, maps the major singular vectors u_0, u_1 to v_0, v_1
// (M3d.C10.arap_rotation_repair_maps_major_singular_vectors) and - for a rigid image - is R
// (M3d.C10.arap_best_fit_rotation_of_rigid_image).

import (
	"fmt"
	"math"
	"strings"

	"verif/harness/hlib"

	"github.com/unixpickle/model3d/model3d"
)

// flatMesh3: meshes with subdivided planar faces (interior face vertices: flat one-rings).
func flatMesh3(c *hlib.Ctx) mesh3 {
	org := model3d.XYZ(dy(c, 2, 2), dy(c, 2, 2), dy(c, 2, 2))
	switch c.Rng.Intn(5) {
	case 0:
		// the box of the report: 1 x 1 x 2, every edge cut in 2..4
		k := 2 + c.Rng.Intn(3)
		b := model3d.NewMeshRect(org, org.Add(model3d.XYZ(1, 1, 2)))
		return mesh3{model3d.SubdivideEdges(b, k), fmt.Sprintf("rect-subdivide-edges-%d", k), true}
	case 1:
		k := 2 + c.Rng.Intn(2)
		d := model3d.XYZ(float64(1+c.Rng.Intn(8))/4, float64(1+c.Rng.Intn(8))/4, float64(1+c.Rng.Intn(8))/4)
		b := model3d.NewMeshRect(org, org.Add(d))
		return mesh3{model3d.SubdivideEdges(b, k), fmt.Sprintf("rect-subdivide-edges-%d", k), true}
	case 2:
		nx, ny, nz := 2+c.Rng.Intn(3), 2+c.Rng.Intn(2), 1+c.Rng.Intn(3)
		d := model3d.XYZ(float64(1+c.Rng.Intn(4))/4, float64(1+c.Rng.Intn(4))/4, float64(1+c.Rng.Intn(4))/4)
		return mesh3{gridBox(org, nx, ny, nz, d), "gridbox", true}
	case 3:
		t := tetrahedron(org, float64(1+c.Rng.Intn(3))/2)
		if c.Rng.Intn(2) == 0 {
			t = octahedron(org, float64(1+c.Rng.Intn(4))/2)
		}
		k := 3 + c.Rng.Intn(2)
		return mesh3{model3d.SubdivideEdges(t, k), fmt.Sprintf("tetra/octa-subdivide-edges-%d", k), false}
	default:
		return pickGen3(c)
	}
}

func hexMats(ms []model3d.Matrix3) string {
	ss := make([]string, len(ms))
	for i, m := range ms {
		ss[i] = hexMat(m)
	}
	return strings.Join(ss, ";")
}

func emitArapRot(c *hlib.Ctx, g mesh3) {
	m := g.m
	rot := 1 + c.Rng.Intn(2)
	if c.Rng.Intn(5) == 0 {
		rot = 0
	}
	lin := c.Rng.Intn(3)
	var a *model3d.ARAP
	var coords []model3d.Coord3D
	var nb [][]int
	var rw [][]float64
	status := watchdog(func() {
		a = model3d.NewARAPWeighted(m, arapSchemes[lin], arapSchemes[rot])
		coords = a.VerifCoords()
		nb, _, rw = a.VerifTables()
	})
	if status != "ok" {
		emitLine(c, "araprot3", "P 0", "I 0", "O", status, "K 0")
		return
	}
	n := len(coords)
	for i := range rw {
		for _, x := range rw[i] {
			if math.IsNaN(x) || math.IsInf(x, 0) {
				c.Stat("araprot-skipped(non-finite-cotangent)", 1)
				return
			}
		}
	}
	mode := []string{"rigid", "rigid", "rigidexact", "free", "mirror"}[c.Rng.Intn(5)]
	if mode == "rigidexact" && !(g.exact && fracBits3(m) <= 20) {
		mode = "rigid"
	}
	R := model3d.Matrix3{1, 0, 0, 0, 1, 0, 0, 0, 1}
	y := make([]model3d.Coord3D, n)
	switch mode {
	case "rigidexact":
		R = cubeRotation(c)
		tr := model3d.XYZ(dy(c, 2, 3), dy(c, 2, 3), dy(c, 2, 3))
		for i, p := range coords {
			y[i] = R.MulColumn(p).Add(tr)
		}
	case "rigid":
		axis := model3d.XYZ(c.Rng.NormFloat64(), c.Rng.NormFloat64(), c.Rng.NormFloat64()).Normalize()
		R = *model3d.NewMatrix3Rotation(axis, c.Rng.Float64()*2*math.Pi)
		tr := model3d.XYZ(c.Rng.NormFloat64(), c.Rng.NormFloat64(), c.Rng.NormFloat64())
		for i, p := range coords {
			y[i] = R.MulColumn(p).Add(tr)
		}
	case "mirror":
		// a rotated MIRROR image plus noise: every covariance has a negative determinant, every vertex
		// takes the repair branch with three well separated singular values
		axis := model3d.XYZ(c.Rng.NormFloat64(), c.Rng.NormFloat64(), c.Rng.NormFloat64()).Normalize()
		R = *model3d.NewMatrix3Rotation(axis, c.Rng.Float64()*2*math.Pi)
		for i, p := range coords {
			q := R.MulColumn(model3d.XYZ(-p.X, p.Y, p.Z))
			y[i] = q.Add(model3d.XYZ(c.Rng.NormFloat64(), c.Rng.NormFloat64(), c.Rng.NormFloat64()).Scale(0.05))
		}
	default:
		// what an iteration in the middle of a deformation sees
		for i, p := range coords {
			y[i] = p.Add(model3d.XYZ(c.Rng.NormFloat64(), c.Rng.NormFloat64(), c.Rng.NormFloat64()).Scale(0.1))
		}
	}
	var real []model3d.Matrix3
	covs := make([]model3d.Matrix3, n)
	us := make([]model3d.Matrix3, n)
	ss := make([]model3d.Matrix3, n)
	vs := make([]model3d.Matrix3, n)
	status = watchdog(func() {
		real = a.VerifRotations(y)
		for i := range coords {
			// the accumulation of ARAP.rotations (the driver recomputes it with M3d.ArapRot.covRow)
			var cov model3d.Matrix3
			for j, nn := range nb[i] {
				weight := rw[i][j]
				od := coords[nn].Sub(coords[i])
				nd := y[nn].Sub(y[i])
				piece := model3d.NewMatrix3Columns(od.Scale(nd.X), od.Scale(nd.Y), od.Scale(nd.Z))
				for k, x := range piece {
					cov[k] += x * weight
				}
			}
			covs[i] = cov
			cov.SVD(&us[i], &ss[i], &vs[i])
		}
	})
	if status != "ok" || len(real) != n {
		if status == "ok" {
			status = "panic:rotations-returned-another-length"
		}
		emitLine(c, "araprot3", "P 0", "I 0", "O", status, "K 0")
		return
	}
	reflected, flat, flatReflected := 0, 0, 0
	for i := range coords {
		neg := vs[i].Mul(us[i].Transpose()).Det() < 0
		isFlat := ss[i][8] <= 1e-9*ss[i][0] && ss[i][4] > 1e-3*ss[i][0]
		if neg {
			reflected++
		}
		if isFlat {
			flat++
		}
		if neg && isFlat {
			flatReflected++
		}
	}
	c.Stat("op:araprot3", 1)
	c.Stat("araprot-probe:"+mode, 1)
	c.Stat("araprot-vertices", n)
	c.Stat("araprot-vertices-taking-the-reflection-repair", reflected)
	c.Stat("araprot-vertices-with-a-flat-one-ring", flat)
	c.Stat("araprot-vertices-with-a-flat-one-ring-taking-the-reflection-repair", flatReflected)
	if flatReflected > 0 && (mode == "rigid" || mode == "rigidexact") {
		c.Stat("araprot-rigid-image-with-a-reflected-flat-one-ring", 1)
	}
	var nbs, rws []string
	for i := range nb {
		nbs = append(nbs, joinInts(nb[i]))
		var a2 []string
		for j := range rw[i] {
			a2 = append(a2, hlib.Hex(rw[i][j]))
		}
		rws = append(rws, strings.Join(a2, ","))
	}
	params := []string{fmt.Sprintf("n=%d", n), "schemes=" + arapSchemeNames[lin] + "/" + arapSchemeNames[rot],
		"gen=" + strings.SplitN(g.label, "(", 2)[0], "mo:" + mode, "p:" + hexVec(coords), "nb:" + strings.Join(nbs, ";"),
		"rw:" + strings.Join(rws, ";"), "y:" + hexVec(y), "R:" + hexMat(R), "C:" + hexMats(covs), "U:" + hexMats(us),
		"S:" + hexMats(ss), "V:" + hexMats(vs), "rot:" + hexMats(real)}
	line := []string{"araprot3", "P", fmt.Sprint(len(params))}
	line = append(line, params...)
	line = append(line, "I 0", "O 0", "K 0")
	emitLine(c, line...)
}
