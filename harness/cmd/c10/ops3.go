package main

import (
	"fmt"
	"math"
	"sort"

	"verif/harness/hlib"

	"github.com/unixpickle/model3d/model3d"
)

// fracBits: the largest number of fractional bits of any coordinate (60 if not a small dyadic).
func fracBits1(x float64) int {
	if math.IsNaN(x) || math.IsInf(x, 0) || math.Abs(x) > 256 {
		return 60
	}
	k := 0
	for x != math.Floor(x) && k < 60 {
		x *= 2
		k++
	}
	return k
}

func fracBits3(m *model3d.Mesh) int {
	b := 0
	m.Iterate(func(t *model3d.Triangle) {
		for _, c := range t {
			for _, x := range c.Array() {
				if k := fracBits1(x); k > b {
					b = k
				}
			}
		}
	})
	return b
}

func valences3(m *model3d.Mesh) map[int]bool {
	nb := m.AllVertexNeighbors()
	res := map[int]bool{}
	nb.Range(func(_ model3d.Coord3D, ns []model3d.Coord3D) bool {
		res[len(ns)] = true
		return true
	})
	return res
}

type state3 struct {
	ids   *ids3
	soup  [][3]int
	exact bool // small dyadic coordinates
	flat  bool // piecewise planar with exactly coplanar subdivision vertices only
}

// step3 is one real operation: it returns the op-line head (kind + params), the output mesh,
// extra sections, and the new exact/flat flags.
type result3 struct {
	kind    string
	params  []string
	out     *model3d.Mesh
	keep    []int
	coords  bool // send coordinates (exact geometric checks requested)
	exact   bool
	flat    bool
	status  string
	skipped bool
	cons    []arapCons // arap3: the positional constraints of this frame (sorted by vertex)
}

func pow2(k int) bool { return k > 0 && k&(k-1) == 0 }

func runOp3(c *hlib.Ctx, st *state3, m *model3d.Mesh, forced int) result3 {
	nf := len(st.soup)
	bits := 60
	if st.exact {
		bits = fracBits3(m)
	}
	r := result3{exact: false, flat: false}
	sortedVerts := func() []model3d.Coord3D {
		used := usedIDs3(st.soup)
		vs := make([]model3d.Coord3D, len(used))
		for i, id := range used {
			vs[i] = st.ids.coords[id]
		}
		return vs
	}
	pickKeep := func() (map[model3d.Coord3D]bool, []int) {
		keep := map[model3d.Coord3D]bool{}
		var ids []int
		if c.Rng.Intn(2) == 0 {
			return keep, nil
		}
		p := c.Rng.Float64()
		for _, id := range usedIDs3(st.soup) {
			if c.Rng.Float64() < p {
				keep[st.ids.coords[id]] = true
				ids = append(ids, id)
			}
		}
		return keep, ids
	}
	op := c.Rng.Intn(17)
	if forced >= 0 {
		op = forced
	}
	// a kind that has timed out once is not run again (every timeout leaves a spinning goroutine)
	kindOf := []string{"decimate3", "decimate3", "elimcoplanar3", "elimcoplanar3", "elimedges3", "flip3", "subdivedges3",
		"subdivedges3", "loop3", "subdivider3", "blur3", "blur3", "smooth3", "arap3", "flatten3", "flatten3", "blurf3"}
	if timeouts[kindOf[op]] >= 1 {
		c.Stat("not-run-after-a-timeout:"+kindOf[op], 1)
		r.skipped = true
		return r
	}
	if (op >= 6 && op <= 9) && overlapping3(m) {
		// points created on distinct edges/faces would coincide (folded or flattened geometry):
		// the id soup of the output would not be the combinatorial subdivision; not an input
		c.Stat("growth-op-skipped-on-overlapping-geometry", 1)
		r.skipped = true
		return r
	}
	switch op {
	case 0, 1: // Decimator.Decimate / DecimateSimple
		r.kind = "decimate3"
		keep, ids := pickKeep()
		r.keep = ids
		d := &model3d.Decimator{
			PlaneDistance:      []float64{0.01, 0.1, 0.5, 2}[c.Rng.Intn(4)],
			BoundaryDistance:   []float64{0.01, 0.1, 0.5}[c.Rng.Intn(3)],
			NoEdgePreservation: c.Rng.Intn(3) == 0,
			EliminateCorners:   c.Rng.Intn(3) == 0,
			SplitAttempts:      []int{0, 2, 3}[c.Rng.Intn(3)],
			MinimumAspectRatio: []float64{0, 0, 0.01, 0.3}[c.Rng.Intn(4)],
		}
		if ids != nil {
			d.FilterFunc = func(p model3d.Coord3D) bool { return !keep[p] }
		}
		if len(usedIDs3(st.soup)) > 12 {
			// the valences GROW while vertices are removed (flat regions), so a bound on the input
			// valences is not enough: with more than 12 vertices a hole can have more than 11 corners
			// (one thorough run in ~20 spent > 10 s in a 180-face twice-squashed icosphere, depending
			// on Go's map order)
			d.SplitAttempts = 0
		}
		for k := range valences3(m) {
			if k > 7 {
				// SplitAttempts >= 2 tries every chord recursively: finite but exponential in the loop
				// length (82 s on a 184-face mesh with a valence-12 vertex) - not a termination defect
				d.SplitAttempts = 0
			}
		}
		simple := ids == nil && c.Rng.Intn(4) == 0
		// parameters are recorded for the replay only (the model's answer does not depend on them)
		r.params = []string{fmt.Sprintf("plane=%g,boundary=%g,noedge=%v,corners=%v,splits=%d,aspect=%g,simple=%v",
			d.PlaneDistance, d.BoundaryDistance, d.NoEdgePreservation, d.EliminateCorners, d.SplitAttempts, d.MinimumAspectRatio, simple)}
		r.status = watchdog(func() {
			if simple {
				r.out = model3d.DecimateSimple(m, d.PlaneDistance)
			} else {
				r.out = d.Decimate(m)
			}
		})
		r.exact = st.exact
	case 2, 3: // EliminateCoplanar(Filtered)
		r.kind = "elimcoplanar3"
		keep, ids := pickKeep()
		r.keep = ids
		eps := []float64{1e-8, 1e-10, 1e-12}[c.Rng.Intn(3)]
		r.status = watchdog(func() {
			if ids != nil {
				r.out = m.EliminateCoplanarFiltered(eps, func(p model3d.Coord3D) bool { return !keep[p] })
			} else {
				r.out = m.EliminateCoplanar(eps)
			}
		})
		r.exact, r.flat = st.exact, st.flat
		r.coords = st.exact && st.flat
		r.params = []string{fmt.Sprintf("eps=%g", eps)}
		if r.coords {
			r.params = append(r.params, "vol")
		}
	case 4: // EliminateEdges
		r.kind = "elimedges3"
		mode := c.Rng.Intn(3)
		budget := 1 + c.Rng.Intn(12)
		thr := []float64{0.3, 0.6, 1.5}[c.Rng.Intn(3)]
		r.status = watchdog(func() {
			r.out = m.EliminateEdges(func(tmp *model3d.Mesh, s model3d.Segment) bool {
				switch mode {
				case 0:
					budget--
					return budget >= 0
				case 1:
					return s[0].Dist(s[1]) < thr
				default:
					budget--
					return budget >= 0 && s[0].Dist(s[1]) < 2*thr
				}
			})
		})
		r.exact = st.exact && bits < 40
	case 5: // FlipDelaunay
		r.kind = "flip3"
		r.status = watchdog(func() { r.out = m.FlipDelaunay() })
		r.exact = st.exact
	case 6, 7: // SubdivideEdges
		n := 1 + c.Rng.Intn(4)
		if nf*n*n > 900 {
			n = 1 + c.Rng.Intn(2)
		}
		if nf*n*n > 900 {
			r.skipped = true
			return r
		}
		r.kind = "subdivedges3"
		r.params = []string{fmt.Sprint(n)}
		r.status = watchdog(func() { r.out = model3d.SubdivideEdges(m, n) })
		// rows of length 3 divide by 3: only n <= 2 keeps every float operation exact
		r.exact = st.exact && (n == 1 || n == 2) && bits < 40
		r.flat = st.flat && r.exact
		r.coords = r.exact
		if r.coords {
			r.params = append(r.params, "geom")
		}
	case 8: // LoopSubdivision
		if nf*4 > 900 {
			r.skipped = true
			return r
		}
		r.kind = "loop3"
		iters := 1
		if nf*16 <= 900 && c.Rng.Intn(2) == 0 {
			iters = 2
		}
		r.status = watchdog(func() { r.out = model3d.LoopSubdivision(m, iters) })
		// every mask weight is a dyadic with at most 7 fractional bits (valences 3,4,6,8,12,16; new
		// vertices have valence 6), so `iters` iterations stay exact when bits + 7*iters < 43
		ok := st.exact && bits+7*iters < 43
		for k := range valences3(m) {
			if !(k == 3 || k == 4 || k == 6 || k == 8 || k == 12 || k == 16) {
				ok = false
			}
		}
		r.exact = ok
		r.coords = ok
		if ok {
			r.params = []string{"geom"}
		}
		r.params = append(r.params, fmt.Sprintf("iters=%d", iters))
		if iters > 1 {
			c.Stat("loop3-iterations>1", 1)
			if ok {
				c.Stat("loop3-iterations>1(exact)", 1)
			}
		}
	case 9: // Subdivider
		r.kind = "subdivider3"
		if nf > 500 {
			r.skipped = true
			return r
		}
		sub := model3d.NewSubdivider()
		p := c.Rng.Float64()
		seen := map[[2]int]bool{}
		lines := 0
		for _, t := range st.soup {
			for i := 0; i < 3; i++ {
				a, b := t[i], t[(i+1)%3]
				if a > b {
					a, b = b, a
				}
				if seen[[2]int{a, b}] {
					continue
				}
				seen[[2]int{a, b}] = true
				if c.Rng.Float64() < p {
					sub.Add(st.ids.coords[a], st.ids.coords[b])
					lines++
				}
			}
		}
		pure := c.Rng.Intn(2) == 0
		r.params = []string{fmt.Sprint(lines)}
		mids := map[model3d.Coord3D]bool{}
		for _, id := range usedIDs3(st.soup) {
			mids[st.ids.coords[id]] = true
		}
		clash := false
		r.status = watchdog(func() {
			cp := m.Copy()
			sub.Subdivide(cp, func(p1, p2 model3d.Coord3D) model3d.Coord3D {
				mid := p1.Mid(p2)
				if !pure {
					d := p2.Sub(p1)
					mid = mid.Add(d.Cross(model3d.XYZ(1, 2, 3)).Scale(1.0 / 64))
				}
				if mids[mid] {
					clash = true // the caller-supplied midpoints must be new, distinct points
				}
				mids[mid] = true
				return mid
			})
			r.out = cp
		})
		if clash {
			c.Stat("hypothesis-failed(midpoints-not-distinct):subdivider3", 1)
			r.params = append(r.params, "noninj")
		}
		r.exact = st.exact && pure && bits < 40
		r.flat = st.flat && r.exact
	case 10, 11: // Blur
		r.kind = "blur3"
		vals := valences3(m)
		allPow2, allPow2m1 := true, true
		for k := range vals {
			if !pow2(k) {
				allPow2 = false
			}
			if !pow2(k + 1) {
				allPow2m1 = false
			}
		}
		var rates []float64
		kmax := 0
		for k := range vals {
			if k > kmax {
				kmax = k
			}
		}
		if st.exact && bits < 40 && (allPow2 || allPow2m1) && c.Rng.Intn(4) != 0 {
			// 1..4 dyadic rates within the exactness budget: the model recomputes every iteration
			rates = pickRates(c, bits, kmax, !allPow2)
		}
		if rates != nil {
			r.params = ratesParams(rates)
			r.coords = true
			r.exact = true
			if len(rates) > 1 {
				c.Stat("exact-multi-rate-blur:blur3", 1)
			}
		} else if c.Rng.Intn(3) == 0 {
			// rate 0 iterations are the identity on every mesh, exactly
			rates = make([]float64, 1+c.Rng.Intn(3))
			r.params = ratesParams(rates)
			r.coords = true
			r.exact = st.exact
			r.flat = st.flat
		} else {
			n := 1 + c.Rng.Intn(3)
			for i := 0; i < n; i++ {
				rates = append(rates, []float64{0.1, 0.3, 0.5, 0.9, -1, 1}[c.Rng.Intn(6)])
			}
		}
		r.status = watchdog(func() { r.out = m.Blur(rates...) })
	case 12: // SmoothAreas / MeshSmoother / VoxelSmoother
		r.kind = "smooth3"
		which := c.Rng.Intn(3)
		iters := 1 + c.Rng.Intn(4)
		hard := sortedVerts()
		hardSet := map[model3d.Coord3D]bool{}
		for _, v := range hard {
			if c.Rng.Intn(4) == 0 {
				hardSet[v] = true
			}
		}
		r.status = watchdog(func() {
			switch which {
			case 0:
				r.out = m.SmoothAreas(0.02, iters)
			case 1:
				s := &model3d.MeshSmoother{StepSize: 0.02, Iterations: iters, ConstraintWeight: 0.5, ConstraintDistance: 0.01,
					HardConstraintFunc: func(p model3d.Coord3D) bool { return hardSet[p] }}
				r.out = s.Smooth(m)
			default:
				s := &model3d.VoxelSmoother{StepSize: 0.02, Iterations: iters, MaxDistance: 0.05}
				r.out = s.Smooth(m)
			}
		})
	case 13: // ARAP
		r.kind = "arap3"
		vs := sortedVerts()
		if len(vs) > 120 || len(vs) < 4 || components3(st.soup) != 1 {
			// ARAP's linear system is singular for a component without any constraint
			r.skipped = true
			return r
		}
		emitArapOp(c, st, m)
		emitArapLin(c, st, m, st.exact)
		emitArapLoop(c, st, m)
		if forceSeq || c.Rng.Intn(2) == 0 {
			runArapSeq(c, st, m, vs, &r)
			return r
		}
		nc := 1 + c.Rng.Intn(3)
		var handles []model3d.Coord3D
		perm := c.Rng.Perm(len(vs))
		for i := 0; i < nc; i++ {
			handles = append(handles, vs[perm[i]])
		}
		cons, rigid, off := arapTargets(c, handles)
		var mapping map[model3d.Coord3D]model3d.Coord3D
		// linear scheme: uniform or |cot| (a positive definite system); rotation scheme: the same, or
		// (one call in three) any of the three - NewARAPWeighted(mesh, linear, rotation)
		lin := []int{2, 1}[c.Rng.Intn(2)]
		rot := lin
		if c.Rng.Intn(3) == 0 {
			rot = c.Rng.Intn(3)
		}
		schemeTag := ""
		if rot != lin {
			schemeTag = ":deform(" + arapSchemeNames[lin] + "/" + arapSchemeNames[rot] + ")"
			c.Stat("arap-deform-with-mixed-schemes", 1)
		}
		r.status = watchdog(func() {
			a := model3d.NewARAPWeighted(m, arapSchemes[lin], arapSchemes[rot])
			a.SetMaxIterations(30)
			r.out = a.Deform(cons)
			mapping = a.DeformMap(cons, nil)
		})
		r.cons = sortedCons(cons)
		r.params = []string{fmt.Sprintf("deform,rigid=%v,schemes=%s/%s", rigid, arapSchemeNames[lin], arapSchemeNames[rot])}
		if r.status == "ok" {
			// positional constraints must be met exactly
			keys := make([]model3d.Coord3D, 0, len(cons))
			for k := range cons {
				keys = append(keys, k)
			}
			sort.Slice(keys, func(i, j int) bool { return less3(keys[i], keys[j]) })
			for _, k := range keys {
				if mapping[k] != cons[k] {
					c.PropFail("arap3/constraint-not-met", fmt.Sprintf("vertex %v constrained to %v but deformed to %v", k, cons[k], mapping[k]))
				}
				c.Stat("arap-constraints-checked", 1)
			}
			if rigid {
				worst := 0.0
				for k, v := range mapping {
					if d := v.Dist(k.Add(off)); d > worst || math.IsNaN(d) {
						worst = d
					}
				}
				if worst < 1e-3 {
					c.Stat("arap-rigid-translation-reproduced(near,validation-only)"+schemeTag, 1)
				} else {
					c.Stat("arap-rigid-translation-NOT-reproduced(near,validation-only)"+schemeTag, 1)
				}
			}
		}
	case 16: // BlurFiltered with a symmetric neighbour filter
		runBlurFiltered(c, st, m, bits, &r)
	default: // FlattenBase
		r.kind = "flatten3"
		ang := []float64{0, 0, math.Pi/2 - 0.01, 0.3}[c.Rng.Intn(4)]
		r.status = watchdog(func() { r.out = m.FlattenBase(ang) })
		r.exact = st.exact
	}
	return r
}

// overlapping3 reports whether points that a subdivision creates on distinct edges or faces
// coincide (or hit an existing vertex): edge points at 1/4, 1/3, 1/2, 2/3, 3/4 and face centroids.
func overlapping3(m *model3d.Mesh) bool {
	seen := map[model3d.Coord3D]bool{}
	for _, v := range m.VertexSlice() {
		seen[v] = true
	}
	segs := map[model3d.Segment]bool{}
	clash := false
	add := func(p model3d.Coord3D) {
		if seen[p] {
			clash = true
		}
		seen[p] = true
	}
	m.Iterate(func(t *model3d.Triangle) {
		add(t[0].Add(t[1]).Add(t[2]).Scale(1.0 / 3))
		for _, s := range t.Segments() {
			if !segs[s] {
				segs[s] = true
				for _, f := range []float64{0.25, 1.0 / 3, 0.5, 2.0 / 3, 0.75} {
					add(s[0].Scale(1 - f).Add(s[1].Scale(f)))
				}
			}
		}
	})
	return clash
}

func components3(soup [][3]int) int {
	parent := map[int]int{}
	var find func(int) int
	find = func(x int) int {
		if p, ok := parent[x]; ok && p != x {
			r := find(p)
			parent[x] = r
			return r
		}
		parent[x] = x
		return x
	}
	for _, t := range soup {
		a, b, c := find(t[0]), find(t[1]), find(t[2])
		parent[b] = a
		parent[find(c)] = a
		_ = c
	}
	n := 0
	for x := range parent {
		if find(x) == x {
			n++
		}
	}
	return n
}

// folded3: some edge whose two faces fold back onto each other (opposite normals), or a face of
// zero area: the surface is not embedded, points created on distinct faces/edges may coincide.
func folded3(m *model3d.Mesh) bool {
	bad := false
	m.Iterate(func(t *model3d.Triangle) {
		if bad {
			return
		}
		if !(t.Area() > 0) {
			bad = true
			return
		}
		n := t.Normal()
		for _, s := range t.Segments() {
			for _, t2 := range m.Find(s[0], s[1]) {
				if t2 != t && n.Dot(t2.Normal()) < -1+1e-9 {
					bad = true
				}
			}
		}
	})
	return bad
}
