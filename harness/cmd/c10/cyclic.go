package main

// Generators aimed at the two decisions of C10 that depend on a tolerance:
//
//   * FlipDelaunay's "already locally Delaunay" test (sum of the two angles opposite an edge
//     against pi + 1e-8): prisms whose caps are EXACTLY co-circular polygons (integer points of
//     a circle x^2+y^2 = N, isosceles trapezoids, rotated rectangles, regular polygons), fan- or
//     TriangulateMesh-triangulated, in many positions, scales and orientations.  For such a quad
//     both diagonals have opposite-angle sum pi mathematically; in float64 either sum may come out
//     just above pi.  (M3d.C10.flip_no_pingpong / flip_pingpong_without_tolerance.)
//   * 2-D EliminateColinear's per-vertex criterion (1 - n1.n2 < epsilon evaluated on the mesh
//     being edited): gently curved outlines (circles, ellipses, stadiums, D shapes, rounded
//     rectangles) whose individual turn is below epsilon while the accumulated turn is not.
//     (M3d.C10.eliminate_colinear_bridges_meet_criterion.)

import (
	"fmt"
	"math"
	"sort"

	"verif/harness/hlib"

	"github.com/unixpickle/model3d/model2d"
	"github.com/unixpickle/model3d/model3d"
)

// numbers with many representations as a sum of two squares
var circleNs = []int{25, 50, 65, 85, 125, 130, 169, 170, 289, 325, 425, 625, 650, 845, 1105, 2210,
	4225, 5525, 7225, 27625, 32045}

var circleCache = map[int][][2]int{}

// circlePoints: all integer points with x^2+y^2 = n, counter-clockwise.
func circlePoints(n int) [][2]int {
	if ps, ok := circleCache[n]; ok {
		return ps
	}
	var ps [][2]int
	r := int(math.Sqrt(float64(n))) + 1
	for x := -r; x <= r; x++ {
		for y := -r; y <= r; y++ {
			if x*x+y*y == n {
				ps = append(ps, [2]int{x, y})
			}
		}
	}
	sort.Slice(ps, func(i, j int) bool {
		return math.Atan2(float64(ps[i][1]), float64(ps[i][0])) < math.Atan2(float64(ps[j][1]), float64(ps[j][0]))
	})
	circleCache[n] = ps
	return ps
}

// oppositeAngleSum evaluates the quantity FlipDelaunay compares with pi, with the same float
// operations: the sum of the angles at o1 and o2 opposite the edge p1 p2.  Only used to choose
// inputs and to count how many of them sit on the rounding boundary (never to judge an output).
func oppositeAngleSum(p1, p2, o1, o2 model3d.Coord3D) float64 {
	sum := 0.0
	for _, o := range []model3d.Coord3D{o1, o2} {
		v1 := p1.Sub(o)
		v2 := p2.Sub(o)
		// the expression of /repo since 9d5c866 (before: math.Acos(v1.Normalize().Dot(v2.Normalize())))
		sum += math.Atan2(v1.Cross(v2).Norm(), v1.Dot(v2))
	}
	return sum
}

// prismMesh: the prism over the convex polygon `poly` (counter-clockwise in the plane), both caps
// fan-triangulated from vertex `s`, between heights z0 < z1; `axis` permutes the coordinate axes
// (cyclically, so the orientation is kept).
func prismMesh(poly [][2]float64, s int, z0, z1 float64, axis int) *model3d.Mesh {
	place := func(x, y, z float64) model3d.Coord3D {
		switch axis {
		case 0:
			return model3d.XYZ(x, y, z)
		case 1:
			return model3d.XYZ(z, x, y)
		default:
			return model3d.XYZ(y, z, x)
		}
	}
	m := model3d.NewMesh()
	n := len(poly)
	p := func(i int, z float64) model3d.Coord3D {
		i = ((i % n) + n) % n
		return place(poly[i][0], poly[i][1], z)
	}
	for k := 1; k+1 < n; k++ {
		m.Add(&model3d.Triangle{p(s, z1), p(s+k, z1), p(s+k+1, z1)})
		m.Add(&model3d.Triangle{p(s, z0), p(s+k+1, z0), p(s+k, z0)})
	}
	for i := 0; i < n; i++ {
		a, b, c, d := p(i, z0), p(i+1, z0), p(i+1, z1), p(i, z1)
		if i%2 == 0 {
			m.Add(&model3d.Triangle{a, b, c})
			m.Add(&model3d.Triangle{a, c, d})
		} else {
			m.Add(&model3d.Triangle{a, b, d})
			m.Add(&model3d.Triangle{b, c, d})
		}
	}
	return m
}

// boundaryQuads counts, over the interior edges of a fan triangulation of `poly`, the quads for
// which BOTH diagonals have a computed opposite-angle sum above pi (the inputs on which a flip
// rule without tolerance would flip back and forth).
func bothAbovePi(poly [][2]float64, s int) int {
	n := len(poly)
	q := func(i int) model3d.Coord3D {
		i = ((i % n) + n) % n
		return model3d.XYZ(poly[i][0], poly[i][1], 0)
	}
	cnt := 0
	for k := 2; k+1 < n; k++ {
		// triangles (s, s+k-1, s+k) and (s, s+k, s+k+1) share the edge s -- s+k
		p1, p2, o1, o2 := q(s), q(s+k), q(s+k-1), q(s+k+1)
		if oppositeAngleSum(p1, p2, o1, o2) > math.Pi && oppositeAngleSum(o1, o2, p1, p2) > math.Pi {
			cnt++
		}
	}
	return cnt
}

func maxAbs3(m *model3d.Mesh) float64 {
	mx := 0.0
	for _, v := range m.VertexSlice() {
		for _, x := range v.Array() {
			if math.Abs(x) > mx {
				mx = math.Abs(x)
			}
		}
	}
	return mx
}

// cyclicPrism: a prism whose caps are exactly co-circular polygons (or, for the regular
// polygons, co-circular up to rounding of the coordinates).
func cyclicPrism(c *hlib.Ctx) mesh3 {
	var poly [][2]float64
	label := ""
	exactPts := true
	kind := c.Rng.Intn(10)
	switch {
	case kind <= 5:
		// k integer points of a circle x^2+y^2 = N.  kinds 3..5: search for a polygon whose first
		// fan quad has both computed sums above pi (directed at the rounding boundary).
		N := circleNs[c.Rng.Intn(len(circleNs))]
		if kind >= 3 {
			N = circleNs[8+c.Rng.Intn(len(circleNs)-8)]
		}
		ps := circlePoints(N)
		ox, oy := float64(c.Rng.Intn(41)-20), float64(c.Rng.Intn(41)-20)
		if c.Rng.Intn(3) == 0 {
			ox, oy = 0, 0
		}
		pick := func() [][2]float64 {
			k := 4 + c.Rng.Intn(25)
			if k > len(ps) {
				k = len(ps)
			}
			idx := c.Rng.Perm(len(ps))[:k]
			sort.Ints(idx)
			res := make([][2]float64, k)
			for i, j := range idx {
				res[i] = [2]float64{float64(ps[j][0]) + ox, float64(ps[j][1]) + oy}
			}
			return res
		}
		poly = pick()
		label = fmt.Sprintf("cyclic(circle,N=%d,k=%d)", N, len(poly))
		if kind >= 3 {
			// Since /repo 9d5c866 (Atan2) both computed sums of a co-circular quad with INTEGER corners
			// are exactly math.Pi (all 194 580 quads of the 48 points of x^2+y^2 = 5525, and of six more
			// circles).  Corners divided by 3, 5, 7, 9, 10 or 11 (what SubdivideEdges(m, 3) makes of
			// such a cap) are still co-circular up to rounding, and about one quad in a thousand has
			// BOTH sums at pi + 4.4e-16: search for one (the code's own float expression) and make it
			// the first fan quad; further points of the circle may follow.
			q := []float64{3, 3, 5, 7, 9, 10, 11}[c.Rng.Intn(7)]
			sp := make([][2]float64, len(ps))
			for i, p := range ps {
				sp[i] = [2]float64{(float64(p[0]) + ox) / q, (float64(p[1]) + oy) / q}
			}
			at := func(i int) model3d.Coord3D { return model3d.XYZ(sp[i][0], sp[i][1], 0) }
			found := false
			for tries := 0; tries < 40000 && !found && len(sp) >= 4; tries++ {
				idx := c.Rng.Perm(len(sp))[:4]
				sort.Ints(idx)
				a, b, cc, d := at(idx[0]), at(idx[1]), at(idx[2]), at(idx[3])
				if oppositeAngleSum(a, cc, b, d) > math.Pi && oppositeAngleSum(b, d, a, cc) > math.Pi {
					found = true
					poly = [][2]float64{sp[idx[0]], sp[idx[1]], sp[idx[2]], sp[idx[3]]}
					for j := idx[3] + 1; j < len(sp); j++ {
						if c.Rng.Intn(3) == 0 {
							poly = append(poly, sp[j])
						}
					}
				}
			}
			if found {
				exactPts = false
				label = fmt.Sprintf("cyclic(circle-directed,N=%d/%g,k=%d)", N, q, len(poly))
			} else {
				for tries := 0; tries < 60 && bothAbovePi(poly, 0) == 0; tries++ {
					poly = pick()
				}
				label = fmt.Sprintf("cyclic(circle-directed,N=%d,k=%d)", N, len(poly))
			}
		}
	case kind == 6:
		// isosceles trapezoid / stack of trapezoids symmetric about the y axis: (+-a_i, h_i) all on one
		// circle is not needed for a single trapezoid (every isosceles trapezoid is cyclic)
		a, b := 2+c.Rng.Intn(40), 1+c.Rng.Intn(40)
		if a == b {
			a++
		}
		h := 1 + c.Rng.Intn(40)
		ox, oy := float64(c.Rng.Intn(21)-10), float64(c.Rng.Intn(21)-10)
		poly = [][2]float64{{-float64(a) + ox, oy}, {float64(a) + ox, oy}, {float64(b) + ox, float64(h) + oy}, {-float64(b) + ox, float64(h) + oy}}
		label = "cyclic(trapezoid)"
	case kind == 7:
		// rectangle rotated by a Pythagorean rotation (integer coordinates, right angles that are
		// not axis-aligned)
		rots := [][2]int{{3, 4}, {5, 12}, {8, 15}, {7, 24}, {20, 21}, {4, 3}, {12, 5}}
		r := rots[c.Rng.Intn(len(rots))]
		w, h := 1+c.Rng.Intn(9), 1+c.Rng.Intn(9)
		ox, oy := c.Rng.Intn(21)-10, c.Rng.Intn(21)-10
		for _, p := range [][2]int{{0, 0}, {w, 0}, {w, h}, {0, h}} {
			x, y := p[0]+ox, p[1]+oy
			poly = append(poly, [2]float64{float64(r[0]*x - r[1]*y), float64(r[1]*x + r[0]*y)})
		}
		label = "cyclic(rotated-rect)"
	default:
		// regular polygon (coordinates rounded: co-circular up to 1 ulp)
		n := 4 + c.Rng.Intn(20)
		rad := float64(1+c.Rng.Intn(16)) / 4
		cx, cy := dy(c, 4, 2), dy(c, 4, 2)
		ph := c.Rng.Float64()
		for i := 0; i < n; i++ {
			t := ph + 2*math.Pi*float64(i)/float64(n)
			poly = append(poly, [2]float64{cx + rad*math.Cos(t), cy + rad*math.Sin(t)})
		}
		exactPts = false
		label = fmt.Sprintf("cyclic(regular,n=%d)", n)
	}
	// scale by a power of two (exact), choose the height, the fan apex and the axis
	sc := math.Ldexp(1, c.Rng.Intn(9)-6)
	ext := 0.0
	for i := range poly {
		poly[i][0] *= sc
		poly[i][1] *= sc
		ext = math.Max(ext, math.Max(math.Abs(poly[i][0]), math.Abs(poly[i][1])))
	}
	h := math.Ldexp(1, int(math.Round(math.Log2(ext*[]float64{0.25, 1, 4}[c.Rng.Intn(3)]+1e-9))))
	s := c.Rng.Intn(len(poly))
	if kind >= 3 && kind <= 5 {
		s = 0
	}
	if n := bothAbovePi(poly, s); n > 0 {
		c.Stat("cyclic-input-with-a-quad-whose-both-angle-sums-round-above-pi", 1)
	}
	var m *model3d.Mesh
	if c.Rng.Intn(5) == 0 {
		// through the real triangulation: ProfileMesh wants a clockwise outline
		pm := model2d.NewMesh()
		for i := range poly {
			j := (i + 1) % len(poly)
			pm.Add(&model2d.Segment{model2d.XY(poly[j][0], poly[j][1]), model2d.XY(poly[i][0], poly[i][1])})
		}
		st := hlib.Guard(func() string { m = model3d.ProfileMesh(pm, 0, h); return "ok" })
		if st != "ok" || m == nil {
			m = prismMesh(poly, s, 0, h, 0)
		} else {
			label += "+profile"
		}
	} else {
		m = prismMesh(poly, s, 0, h, c.Rng.Intn(3))
	}
	exact := exactPts && maxAbs3(m) <= 256
	return mesh3{m, label, exact}
}

// ---------------------------------------------------------------- 2-D gentle curves

// arcOutline: a closed counter-clockwise outline made of finely sampled arcs (and possibly straight
// sides); eps is an epsilon for EliminateColinear chosen relative to the turn per vertex.
func arcOutline(c *hlib.Ctx) (mesh2, float64) {
	n := 40 + c.Rng.Intn(260)
	cx, cy := dy(c, 4, 2), dy(c, 4, 2)
	r := float64(1+c.Rng.Intn(8)) / 2
	var pts []model2d.Coord
	label := ""
	turn := 2 * math.Pi / float64(n)
	arc := func(ox, oy, rx, ry, t0, t1 float64, k int, last bool) {
		m := k
		if last {
			m = k + 1
		}
		for i := 0; i < m; i++ {
			t := t0 + (t1-t0)*float64(i)/float64(k)
			pts = append(pts, model2d.XY(ox+rx*math.Cos(t), oy+ry*math.Sin(t)))
		}
	}
	switch c.Rng.Intn(5) {
	case 0:
		label = "arc(circle)"
		arc(cx, cy, r, r, 0, 2*math.Pi, n, false)
	case 1:
		label = "arc(ellipse)"
		arc(cx, cy, r, r*[]float64{0.5, 0.75, 2}[c.Rng.Intn(3)], 0, 2*math.Pi, n, false)
	case 2:
		// D shape: half circle closed by its diameter (two sharp corners)
		label = "arc(D)"
		turn = math.Pi / float64(n)
		arc(cx, cy, r, r, 0, math.Pi, n, true)
	case 3:
		// stadium: two half circles joined by straight sides carrying extra colinear points
		label = "arc(stadium)"
		turn = math.Pi / float64(n/2)
		w := float64(1 + c.Rng.Intn(4))
		arc(cx+w, cy, r, r, -math.Pi/2, math.Pi/2, n/2, true)
		for i := 1; i < 4; i++ {
			pts = append(pts, model2d.XY(cx+w-2*w*float64(i)/4, cy+r))
		}
		arc(cx-w, cy, r, r, math.Pi/2, 3*math.Pi/2, n/2, true)
		for i := 1; i < 4; i++ {
			pts = append(pts, model2d.XY(cx-w+2*w*float64(i)/4, cy-r))
		}
	default:
		// rounded rectangle: four quarter arcs
		label = "arc(rounded-rect)"
		k := n / 4
		turn = (math.Pi / 2) / float64(k)
		w, h := float64(1+c.Rng.Intn(4)), float64(1+c.Rng.Intn(3))
		arc(cx+w, cy+h, r, r, 0, math.Pi/2, k, true)
		arc(cx-w, cy+h, r, r, math.Pi/2, math.Pi, k, true)
		arc(cx-w, cy-h, r, r, math.Pi, 3*math.Pi/2, k, true)
		arc(cx+w, cy-h, r, r, 3*math.Pi/2, 2*math.Pi, k, true)
	}
	// de-duplicate consecutive equal points (rounding) just in case
	var q []model2d.Coord
	for i, p := range pts {
		if i > 0 && p == pts[i-1] {
			continue
		}
		q = append(q, p)
	}
	if len(q) > 1 && q[0] == q[len(q)-1] {
		q = q[:len(q)-1]
	}
	per := 1 - math.Cos(turn)
	eps := per * []float64{0.5, 1.5, 3, 10, 40}[c.Rng.Intn(5)]
	if c.Rng.Intn(4) == 0 {
		eps = []float64{1e-3, 1e-4, 1e-5}[c.Rng.Intn(3)]
	}
	return mesh2{polyMesh(q), label, false}, eps
}

// needleMesh: a thin surface whose flips run through needle triangles.  Two families:
//   * a torus with a TRIANGULAR cross-section (3 rings) and a small minor radius, 7..9 segments,
//     squashed to 2^-2 .. 2^-7 along its axis, blurred once or twice, then edge-subdivided by 3 or 4
//     (rows of exactly colinear vertices on every old edge).  On these FlipDelaunay makes triangles
//     with three colinear corners, and pairs of them on four colinear points.  Three defects of
//     /repo were found here (first seen as `flip3 terminates=0` on an 864-face mesh of this kind):
//     the cosine of a degenerate angle rounded to 1.0000000000000002, Acos = NaN, a NaN sum fails
//     `sum < pi+1e-8`: endless flip/flip-back, about every second mesh (078e20f); Acos is only
//     accurate to 1.5e-8 near 0 and pi, both diagonals of a degenerate pair got pi+1.49e-8:
//     endless, ~3% of the map orders (9d5c866: Atan2); the orientation of the new triangles was
//     taken from the NaN normal of a degenerate triangle: one face reversed, about half of the map
//     orders (48d8902: winding);
//   * any torus / icosphere / cylinder / icosahedron squashed to 1/16 .. 1/256 and edge-subdivided.
func needleMesh(c *hlib.Ctx) mesh3 {
	org := model3d.XYZ(dy(c, 2, 2), dy(c, 2, 2), dy(c, 2, 2))
	if c.Rng.Intn(3) == 0 {
		return capMesh(c, org)
	}
	if c.Rng.Intn(3) != 0 {
		out := 7 + c.Rng.Intn(3)
		r := []float64{0.05, 0.1, 0.1, 0.2}[c.Rng.Intn(4)]
		m := model3d.NewMeshTorus(org, model3d.Z(1), r, 1, 3, out)
		k := 2 + c.Rng.Intn(6)
		f := math.Ldexp(1, -k)
		m = m.MapCoords(func(p model3d.Coord3D) model3d.Coord3D { return p.Mul(model3d.XYZ(1, 1, f)) })
		nb := 1 + c.Rng.Intn(2)
		for i := 0; i < nb; i++ {
			m = m.Blur(0.3)
		}
		n := 4
		if c.Rng.Intn(4) == 0 {
			n = 3
		}
		m = model3d.SubdivideEdges(m, n)
		return mesh3{m, fmt.Sprintf("needle(torus3x%d,r=%g,squash=2^-%d,blur=%d,subdiv=%d)", out, r, k, nb, n), false}
	}
	var m *model3d.Mesh
	label := ""
	switch c.Rng.Intn(6) {
	case 0, 1, 2:
		in, out := 3+c.Rng.Intn(4), 3+c.Rng.Intn(8)
		m = model3d.NewMeshTorus(org, model3d.Z(1), 0.4, 1, in, out)
		label = "torus"
	case 3:
		m = model3d.NewMeshIcosphere(org, 1, 1+c.Rng.Intn(2))
		label = "icosphere"
	case 4:
		m = model3d.NewMeshCylinder(org, org.Add(model3d.Z(1)), 0.5, 3+c.Rng.Intn(8))
		label = "cylinder"
	default:
		m = model3d.NewMeshIcosahedron()
		label = "icosahedron"
	}
	f := math.Ldexp(1, -(4 + c.Rng.Intn(5)))
	s := model3d.XYZ(1, 1, f)
	if c.Rng.Intn(3) == 0 {
		s = model3d.XYZ(f, 1, 1)
	}
	m = m.MapCoords(func(p model3d.Coord3D) model3d.Coord3D { return p.Mul(s) })
	n := 1 + c.Rng.Intn(4)
	for m.NumTriangles()*n*n > 900 && n > 1 {
		n--
	}
	if n > 1 {
		m = model3d.SubdivideEdges(m, n)
	}
	return mesh3{m, fmt.Sprintf("needle(%s,squash=%g,subdiv=%d)", label, f, n), false}
}

// capMesh: a closed manifold with a few CAP triangles: on 2..12 edges x0 x1 the face (x0, x1, x2) is
// replaced by (x0, x1, m), (x1, x2, m), (x2, x0, m) with m the midpoint of the edge moved towards x2 by
// 0 (three colinear corners, area 0 - what FlipDelaunay itself makes of edge-subdivided meshes), by a
// few ulps, or by 1e-12 of the edge.  The angle at m is pi (to rounding), so FlipDelaunay flips the
// long edge x0 x1 away; the normal of the cap is NaN or arbitrary, so the orientation of the two new
// triangles must not be read from it (/repo fix 48d8902; before it, about half of such flips
// reversed a face).
func capMesh(c *hlib.Ctx, org model3d.Coord3D) mesh3 {
	var m *model3d.Mesh
	label := ""
	switch c.Rng.Intn(4) {
	case 0:
		m = model3d.NewMeshIcosphere(org, 1, 1+c.Rng.Intn(2))
		label = "icosphere"
	case 1:
		m = model3d.NewMeshTorus(org, model3d.Z(1), 0.4, 1, 3+c.Rng.Intn(4), 3+c.Rng.Intn(6))
		label = "torus"
	case 2:
		m = gridBox(org, 1+c.Rng.Intn(3), 1+c.Rng.Intn(3), 1+c.Rng.Intn(2), model3d.XYZ(0.5, 0.75, 1))
		label = "gridbox"
	default:
		m = model3d.NewMeshIcosahedron()
		label = "icosahedron"
	}
	tris := m.TriangleSlice()
	sort.Slice(tris, func(i, j int) bool {
		for k := 0; k < 3; k++ {
			if tris[i][k] != tris[j][k] {
				return less3(tris[i][k], tris[j][k])
			}
		}
		return false
	})
	caps := 2 + c.Rng.Intn(11)
	used := map[*model3d.Triangle]bool{}
	made := 0
	for _, idx := range c.Rng.Perm(len(tris)) {
		if made >= caps {
			break
		}
		t := tris[idx]
		// keep the caps apart: neither this face nor a neighbour across an edge was touched
		free := !used[t]
		for _, sg := range t.Segments() {
			for _, t2 := range m.Find(sg[0], sg[1]) {
				if used[t2] {
					free = false
				}
			}
		}
		if !free {
			continue
		}
		r := c.Rng.Intn(3)
		x0, x1, x2 := t[r], t[(r+1)%3], t[(r+2)%3]
		mid := x0.Mid(x1)
		var delta float64
		switch c.Rng.Intn(3) {
		case 0:
			delta = 0
		case 1:
			delta = math.Ldexp(1, -50-c.Rng.Intn(4))
		default:
			delta = 1e-12
		}
		p := mid.Add(x2.Sub(mid).Scale(delta))
		if len(m.Find(p)) > 0 || p == x0 || p == x1 {
			continue
		}
		for _, sg := range t.Segments() {
			for _, t2 := range m.Find(sg[0], sg[1]) {
				used[t2] = true
			}
		}
		m.Remove(t)
		m.Add(&model3d.Triangle{x0, x1, p})
		m.Add(&model3d.Triangle{x1, x2, p})
		m.Add(&model3d.Triangle{x2, x0, p})
		made++
	}
	return mesh3{m, fmt.Sprintf("needle(caps=%d,%s)", made, label), false}
}
