package main

import (
	"fmt"
	"os"
	"time"
	"strings"

	"verif/harness/hlib"

	"github.com/unixpickle/model3d/model2d"
	"github.com/unixpickle/model3d/model3d"
)

func main() { hlib.Main("C10", run) }

// timeouts per kind: after a few, the kind is no longer generated (each leaves a spinning goroutine).
var timeouts = map[string]int{}

func run(c *hlib.Ctx) {
	fixed2(c)
	// exactly co-circular caps: FlipDelaunay first (termination at the angle tolerance), then a chain
	for i := 0; i < 40+c.N/5; i++ {
		g := cyclicPrism(c)
		chain3With(c, g, 5)
	}
	// thin, edge-subdivided surfaces: FlipDelaunay runs through needle triangles (cosines that round
	// outside [-1, 1]); then a chain
	for i := 0; i < 24+c.N/15; i++ {
		chain3With(c, needleMesh(c), 5)
	}
	// gently curved outlines: EliminateColinear with an epsilon just above / below the turn per vertex
	for i := 0; i < 20+c.N/10; i++ {
		g, eps := arcOutline(c)
		if !manifold2(g.m) {
			c.Stat("gen2-rejected:"+g.label, 1)
			continue
		}
		c.Stat("gen2:"+strings.SplitN(g.label, "(", 2)[0], 1)
		arcEps = eps
		runChain2(c, g, 1+c.Rng.Intn(2), []int{1, 1})
		arcEps = 0
	}
	// several blur rates in one call, on inputs where every float operation is exact: Blur on meshes
	// whose valences are powers of two, BlurFiltered (symmetric filter) on every dyadic generator
	for i := 0; i < 20+c.N/10; i++ {
		if i%2 == 0 {
			chain3With(c, pow2Mesh(c), 10)
		} else {
			g := pickGen3(c)
			for tries := 0; !g.exact && tries < 20; tries++ {
				g = pickGen3(c)
			}
			chain3With(c, g, 16)
		}
	}
	// sequential ARAP deformer with changing handle sets
	for i := 0; i < 12+c.N/15; i++ {
		g := pickGen3(c)
		for tries := 0; (g.m.NumTriangles() > 236 || strings.HasPrefix(g.label, "multi")) && tries < 20; tries++ {
			g = pickGen3(c)
		}
		forceSeq = true
		chain3With(c, g, 13)
		forceSeq = false
	}
	// the linear step of ARAP on every (linear, rotation) scheme pair, half of them on dyadic meshes
	// (exact mode: the rigid image must solve the real system exactly)
	for i := 0; i < 18+c.N/10; i++ {
		g := pickGen3(c)
		for tries := 0; (g.m.NumTriangles() > 236 || strings.HasPrefix(g.label, "multi") || (i%2 == 0 && !g.exact)) && tries < 40; tries++ {
			g = pickGen3(c)
		}
		if g.m.NeedsRepair() || len(g.m.SingularVertices()) > 0 || g.m.NumTriangles() > 236 {
			c.Stat("gen3-rejected:"+g.label, 1)
			continue
		}
		st := &state3{ids: newIDs3(), exact: g.exact}
		st.soup = st.ids.soup(g.m)
		nv := len(usedIDs3(st.soup))
		if nv > 120 || nv < 4 || components3(st.soup) != 1 {
			continue
		}
		c.Stat("gen3:"+strings.SplitN(g.label, "(", 2)[0], 1)
		linPair = i
		emitArapLin(c, st, st.ids.meshFromSoup(st.soup), st.exact)
		linPair = -1
	}
	// the control loop of ARAP on models of every size (2^0 .. 2^-40), handles moved by one rigid
	// motion / moved freely / pinned; Laplace or warm start
	for i := 0; i < 30+c.N/6; i++ {
		g := pickGen3(c)
		for tries := 0; (g.m.NumTriangles() > 236 || strings.HasPrefix(g.label, "multi")) && tries < 40; tries++ {
			g = pickGen3(c)
		}
		if g.m.NeedsRepair() || len(g.m.SingularVertices()) > 0 || g.m.NumTriangles() > 236 {
			c.Stat("gen3-rejected:"+g.label, 1)
			continue
		}
		st := &state3{ids: newIDs3(), exact: g.exact}
		st.soup = st.ids.soup(g.m)
		nv := len(usedIDs3(st.soup))
		if nv > 120 || nv < 4 || components3(st.soup) != 1 {
			continue
		}
		c.Stat("gen3:"+strings.SplitN(g.label, "(", 2)[0], 1)
		loopRigidSmall = i%2 == 0
		emitArapLoop(c, st, st.ids.meshFromSoup(st.soup))
		loopRigidSmall = false
	}
	n3 := c.N * 2 / 3
	for i := 0; i < n3; i++ {
		chain3(c)
	}
	for i := 0; i < c.N-n3+c.N/2; i++ {
		chain2(c)
	}
	// the best-fit rotations of ARAP on meshes with subdivided planar faces (flat one-rings: the SVD
	// leaves the sign of the third singular vectors open, half of the vertices take the reflection
	// repair), on rigid images, mirror images and perturbed meshes.  (Last, so that the random streams
	// of the loops above stay what they were.)
	for i := 0; i < 24+c.N/10; i++ {
		g := flatMesh3(c)
		if g.m.NeedsRepair() || len(g.m.SingularVertices()) > 0 || g.m.NumTriangles() > 400 || strings.HasPrefix(g.label, "multi") {
			c.Stat("gen3-rejected:"+g.label, 1)
			continue
		}
		if nv := len(g.m.VertexSlice()); nv > 160 || nv < 4 {
			continue
		}
		c.Stat("gen3:"+strings.SplitN(g.label, "(", 2)[0], 1)
		emitArapRot(c, g)
	}
}

// arcEps != 0: the epsilon the next forced EliminateColinear calls use (set by run for arc outlines).
var arcEps float64

func emitLine(c *hlib.Ctx, parts ...string) {
	c.Emit("c10 "+strings.Join(parts, " "), "ok")
}

func chain3(c *hlib.Ctx) { chain3With(c, pickGen3(c), -1) }

// chain3With runs a chain on g; firstOp >= 0 forces the first operation.
func chain3With(c *hlib.Ctx, g mesh3, firstOp int) {
	if g.m.NeedsRepair() || len(g.m.SingularVertices()) > 0 || g.m.NumTriangles() > 900 {
		c.Stat("gen3-rejected:"+g.label, 1)
		return
	}
	c.Stat("gen3:"+strings.SplitN(g.label, "(", 2)[0], 1)
	st := &state3{ids: newIDs3(), exact: g.exact, flat: g.exact && !strings.Contains(g.label, "tetra") && !strings.Contains(g.label, "octa")}
	// tetra/octa are flat too (every face is a plane), keep it simple: all exact generators are polyhedra
	st.flat = g.exact
	st.soup = st.ids.soup(g.m)
	emitLine(c, "init3", "P 0", "I", soupStr3(st.soup), "O", soupStr3(st.soup), "K 0")
	nops := 1 + c.Rng.Intn(6)
	if strings.HasPrefix(g.label, "needle(caps") {
		// a cap's apex lies within rounding of the opposite edge: an input for FlipDelaunay (which makes
		// such faces itself), not for operations that divide by the area (cotangents, normals)
		nops = 1
	}
	// A chain is a Go program `m1 := op(m0); m2 := op(m1); m3 := op(m1); m4 := op(m0) ...` over REAL mesh
	// objects: vars are the variables of the program (the object, and the mesh value it denoted when it
	// was created).  Every instruction takes the newest variable or (one step in three) ANY earlier
	// variable as its source - a mesh is used again after it was handed to an operation.  In one step
	// of three the object is rebuilt from the soup instead of being the object the program holds.
	vars := []var3{{nil, st.soup, st.exact, st.flat, 0}}
	for i := 0; i < nops; i++ {
		src := len(vars) - 1
		if len(vars) > 1 && c.Rng.Intn(3) == 0 {
			src = c.Rng.Intn(len(vars) - 1)
		}
		v := &vars[src]
		st.soup, st.exact, st.flat = v.soup, v.exact, v.flat
		m := v.obj
		if m == nil || c.Rng.Intn(3) == 0 {
			m = st.ids.meshFromSoup(v.soup)
		} else {
			c.Stat("program-step-on-a-real-object-of-the-program", 1)
		}
		v.obj = m
		v.uses++
		if v.uses > 1 {
			c.Stat("program-uses-a-mesh-again-after-handing-it-to-an-operation", 1)
		}
		forced := -1
		if i == 0 && firstOp >= 0 {
			forced = firstOp
		} else if i == 0 && (g.label == "tetra" || g.label == "octa") && c.Rng.Intn(2) == 0 {
			forced = []int{8, 10, 6}[c.Rng.Intn(3)] // exact Loop / Blur / SubdivideEdges on the regular solids
		}
		t0 := time.Now()
		r := runOp3(c, st, m, forced)
		if el := time.Since(t0); el > time.Second {
			c.Stat(fmt.Sprintf("slow-op(>1s):%s", r.kind), 1)
			if os.Getenv("C10_VERBOSE") != "" {
				fmt.Fprintln(os.Stderr, "slow", r.kind, r.params, el, "faces", len(st.soup), g.label)
			}
		}
		if r.skipped {
			continue
		}
		if timeouts[r.kind] >= 1 {
			c.Stat("not-run-after-a-timeout:"+r.kind, 1)
			continue
		}
		c.Stat("op:"+r.kind, 1)
		head := []string{r.kind, "P", fmt.Sprint(len(r.params))}
		head = append(head, r.params...)
		head = append(head, "I", soupStr3(st.soup))
		if r.status != "ok" {
			if r.status == "timeout" {
				timeouts[r.kind]++
			}
			c.Stat("status:"+r.kind+":"+strings.SplitN(r.status, ":", 2)[0], 1)
			emitLine(c, append(head, "O", r.status, "K 0", st.ids.coordSection(usedIDs3(st.soup)))...)
			return
		}
		// the input object re-encoded AFTER the call: every operation here is documented to create a
		// new mesh, so the variable the program passed in still denotes the same mesh (section A)
		inputAfter := "A " + soupStr3(st.ids.soup(m))
		c.Stat("input-object-re-encoded-after-the-call", 1)
		if r.kind == "arap3" {
			line, out := arapLine(c, st, r.params, r.cons, r.out)
			line = insertBeforeCoords(line, inputAfter)
			emitLine(c, line...)
			if len(usedIDs3(out)) != len(usedIDs3(st.soup)) {
				return
			}
			if r.out.NeedsRepair() || len(r.out.SingularVertices()) > 0 {
				c.Stat("chain-ended-on-broken-output:"+r.kind, 1)
				return
			}
			if tooSmall3(r.out) || folded3(r.out) || (r.out.NumTriangles() <= 400 && r.out.SelfIntersections() > 0) {
				c.Stat("chain-ended-numerically-collapsed:"+r.kind, 1)
				return
			}
			vars = append(vars, var3{r.out, out, false, false, 0})
			continue
		}
		out := st.ids.soup(r.out)
		moveOnly := r.kind == "blur3" || r.kind == "blurf3" || r.kind == "smooth3" || r.kind == "flatten3"
		loopVerts := len(usedIDs3(st.soup)) + numEdges3(st.soup)
		if r.kind == "loop3" && strings.Contains(strings.Join(r.params, " "), "iters=2") {
			// (V, E, F) -> (V+E, 2E+3F, 4F), twice
			loopVerts += 2*numEdges3(st.soup) + 3*len(st.soup)
		}
		if r.kind == "loop3" && r.coords && len(usedIDs3(out)) < loopVerts {
			// the published masks put two new vertices on the same point (exact arithmetic, checked by
			// the model): the placement is not injective on this input - a hypothesis, not the code
			c.Stat("hypothesis-failed(loop-placement-not-injective):loop3", 1)
			r.params = append(r.params, "noninj")
			head = []string{r.kind, "P", fmt.Sprint(len(r.params))}
			head = append(head, r.params...)
			head = append(head, "I", soupStr3(st.soup))
			r.exact = false
		}
		if moveOnly && len(usedIDs3(out)) != len(usedIDs3(st.soup)) {
			// the vertex map of a move-only operation is not injective on this input (e.g. a regular
			// solid blurred onto its centre): the hypothesis of relabel_preserves fails, not the code
			c.Stat("hypothesis-failed(vertex-map-not-injective):"+r.kind, 1)
			r.params = append(r.params, "noninj")
			head = []string{r.kind, "P", fmt.Sprint(len(r.params))}
			head = append(head, r.params...)
			head = append(head, "I", soupStr3(st.soup))
		}
		line := append(head, "O", soupStr3(out), "K", intsStr(r.keep), inputAfter)
		if r.coords {
			line = append(line, st.ids.coordSection(usedIDs3(st.soup, out)))
			c.Stat("exact-geometry-checked:"+r.kind, 1)
		} else if r.kind == "flip3" || r.kind == "elimedges3" || r.kind == "decimate3" || r.kind == "elimcoplanar3" || r.kind == "flatten3" {
			// coordinates only make the replay self-contained (the model ignores them here)
			line = append(line, st.ids.coordSection(usedIDs3(st.soup, out)))
		}
		emitLine(c, line...)
		if len(out) != len(st.soup) {
			c.Stat("changed-face-count:"+r.kind, 1)
		}
		if len(out) == 0 || len(out) > 900 {
			return
		}
		// a broken output ends the chain (the violation is already on the line above)
		if moveOnly && len(usedIDs3(out)) != len(usedIDs3(st.soup)) {
			return
		}
		if r.out.NeedsRepair() || len(r.out.SingularVertices()) > 0 {
			c.Stat("chain-ended-on-broken-output:"+r.kind, 1)
			return
		}
		if tooSmall3(r.out) || folded3(r.out) || (r.out.NumTriangles() <= 400 && r.out.SelfIntersections() > 0) {
			c.Stat("chain-ended-numerically-collapsed:"+r.kind, 1)
			return
		}
		if moveOnly && len(usedIDs3(out)) != len(usedIDs3(st.soup)) {
			return
		}
		vars = append(vars, var3{r.out, out, r.exact, r.flat, 0})
	}
}

// var3 / var2: a variable of the generated program - the real object, the mesh value it denoted when
// it was created (what every later use is judged against), and how often it was a source.
type var3 struct {
	obj         *model3d.Mesh
	soup        [][3]int
	exact, flat bool
	uses        int
}

type var2 struct {
	obj         *model2d.Mesh
	soup        [][2]int
	exact, flat bool
	uses        int
}

// insertBeforeCoords puts a section before the trailing `C …` section of a line (or at the end).
func insertBeforeCoords(line []string, sec string) []string {
	for i, tok := range line {
		if strings.HasPrefix(tok, "C ") {
			res := append([]string{}, line[:i]...)
			res = append(res, sec)
			return append(res, line[i:]...)
		}
	}
	return append(line, sec)
}

// ---------------------------------------------------------------- 2-D

func fracBits2(m *model2d.Mesh) int {
	b := 0
	m.Iterate(func(s *model2d.Segment) {
		for _, p := range s {
			for _, x := range p.Array() {
				if k := fracBits1(x); k > b {
					b = k
				}
			}
		}
	})
	return b
}

type state2 struct {
	ids   *ids2
	soup  [][2]int
	exact bool
	flat  bool
}

func manifold2(m *model2d.Mesh) bool {
	return m.Manifold() && len(m.InconsistentVertices()) == 0
}

func chain2(c *hlib.Ctx) {
	g := pickGen2(c)
	if !manifold2(g.m) {
		c.Stat("gen2-rejected:"+g.label, 1)
		return
	}
	c.Stat("gen2:"+strings.SplitN(g.label, "(", 2)[0], 1)
	runChain2(c, g, 1+c.Rng.Intn(6), nil)
}

// fixed2: a few small deterministic cases (every run): rectangles whose sides carry 0..3 extra
// colinear vertices, through each 2-D operation.
func fixed2(c *hlib.Ctx) {
	for k := 0; k <= 3; k++ {
		for op := 0; op < 6; op++ {
			pts := rectExtra(model2d.XY(0, 0), 2, 1, [4]int{k, 0, 0, 0}, false)
			runChain2(c, mesh2{polyMesh(pts), "fixed", true}, 1, []int{op})
		}
	}
}

func runChain2(c *hlib.Ctx, g mesh2, nops int, forced []int) {
	st := &state2{ids: newIDs2(), exact: g.exact, flat: g.exact}
	st.soup = st.ids.soup(g.m)
	emitLine(c, "init2", "P 0", "I", soupStr2(st.soup), "O", soupStr2(st.soup), "K 0")
	vars := []var2{{nil, st.soup, st.exact, st.flat, 0}} // the variables of the program (see chain3With)
	for i := 0; i < nops; i++ {
		src := len(vars) - 1
		if forced == nil && len(vars) > 1 && c.Rng.Intn(3) == 0 {
			src = c.Rng.Intn(len(vars) - 1)
		}
		v := &vars[src]
		st.soup, st.exact, st.flat = v.soup, v.exact, v.flat
		m := v.obj
		if m == nil || c.Rng.Intn(3) == 0 {
			m = st.ids.meshFromSoup(v.soup)
		} else {
			c.Stat("program-step-on-a-real-object-of-the-program", 1)
		}
		v.obj = m
		v.uses++
		if v.uses > 1 {
			c.Stat("program-uses-a-mesh-again-after-handing-it-to-an-operation", 1)
		}
		bits := 60
		if st.exact {
			bits = fracBits2(m)
		}
		var kind string
		var params []string
		var out *model2d.Mesh
		var f func()
		coords, exact, flat := false, false, false
		op := c.Rng.Intn(6)
		if forced != nil {
			op = forced[i]
		}
		switch op {
		case 0:
			kind = "decimate2"
			nv := len(usedIDs2(st.soup))
			maxV := c.Rng.Intn(nv + 2)
			if forced != nil {
				maxV = 4
			}
			params = []string{fmt.Sprint(maxV)}
			f = func() { out = m.Decimate(maxV) }
			exact = st.exact
		case 1:
			kind = "elimcolinear2"
			eps := []float64{1e-8, 1e-10}[c.Rng.Intn(2)]
			if arcEps != 0 {
				eps = arcEps
			} else if !st.exact && c.Rng.Intn(3) == 0 {
				eps = []float64{1e-2, 1e-3, 1e-4, 1e-6}[c.Rng.Intn(4)]
			}
			f = func() { out = m.EliminateColinear(eps) }
			exact, flat = st.exact, st.flat
			// "crit <eps bits>": the coordinates are sent and the model evaluates the documented
			// per-vertex criterion (same float operations) on every bridge of the real output
			coords = true
			params = []string{"crit", hlib.Hex(eps)}
			if st.exact && st.flat {
				params = append(params, "area")
			}
		case 2:
			kind = "subdivide2"
			iters := 1 + c.Rng.Intn(2)
			if len(st.soup) > 200 {
				iters = 1
			}
			params = []string{fmt.Sprint(iters)}
			f = func() { out = m.Subdivide(iters) }
			exact = st.exact && bits < 36
			coords = exact
			if coords {
				params = append(params, "geom")
			}
		case 3:
			kind = "smooth2"
			iters := 1 + c.Rng.Intn(4)
			f = func() { out = m.Smooth(iters) }
		case 4:
			kind = "smoothsq2"
			iters := 1 + c.Rng.Intn(4)
			f = func() { out = m.SmoothSq(iters) }
		default:
			kind = "blur2"
			rate := []float64{0, 1, 0.5, 0.25, 0.3, 0.9}[c.Rng.Intn(6)]
			dyadic := fracBits1(rate) < 8
			f = func() { out = m.Blur(rate) }
			if st.exact && bits < 36 && dyadic {
				params = []string{"geom", hlib.RatStr(rate)}
				coords, exact = true, true
			} else if rate == 0 {
				params = []string{"geom", "0/1"}
				coords, exact, flat = true, st.exact, st.flat
			}
		}
		if timeouts[kind] >= 1 {
			c.Stat("not-run-after-a-timeout:"+kind, 1)
			continue
		}
		c.Stat("op:"+kind, 1)
		status := watchdog(f)
		head := []string{kind, "P", fmt.Sprint(len(params))}
		head = append(head, params...)
		head = append(head, "I", soupStr2(st.soup))
		if status != "ok" {
			if status == "timeout" {
				timeouts[kind]++
			}
			c.Stat("status:"+kind+":"+strings.SplitN(status, ":", 2)[0], 1)
			emitLine(c, append(head, "O", status, "K 0", st.ids.coordSection(usedIDs2(st.soup)))...)
			return
		}
		o := st.ids.soup(out)
		moveOnly := kind == "blur2" || kind == "smooth2" || kind == "smoothsq2"
		if moveOnly && len(usedIDs2(o)) != len(usedIDs2(st.soup)) {
			c.Stat("hypothesis-failed(vertex-map-not-injective):"+kind, 1)
			params = append(params, "noninj")
			head = []string{kind, "P", fmt.Sprint(len(params))}
			head = append(head, params...)
			head = append(head, "I", soupStr2(st.soup))
		}
		line := append(head, "O", soupStr2(o), "K 0", "A "+soupStr2(st.ids.soup(m)))
		c.Stat("input-object-re-encoded-after-the-call", 1)
		if coords {
			line = append(line, st.ids.coordSection(usedIDs2(st.soup, o)))
			if kind != "elimcolinear2" || (st.exact && st.flat) {
				c.Stat("exact-geometry-checked:"+kind, 1)
			}
			if kind == "elimcolinear2" {
				c.Stat("criterion-checked-on-bridges:"+kind, 1)
				if len(o) != len(st.soup) && !(st.exact && st.flat) {
					c.Stat("criterion-checked-on-bridges(nearly-colinear-removed):"+kind, 1)
				}
			}
		}
		emitLine(c, line...)
		if len(o) != len(st.soup) {
			c.Stat("changed-segment-count:"+kind, 1)
		}
		if moveOnly && len(usedIDs2(o)) != len(usedIDs2(st.soup)) {
			return
		}
		if len(o) == 0 || len(o) > 600 || !manifold2(out) {
			return
		}
		if tooSmall2(out) || folded2(out) || selfTouch2(out) {
			// vertices closer than float resolution allows new vertices to stay distinct: not an input
			c.Stat("chain-ended-numerically-collapsed:"+kind, 1)
			return
		}
		vars = append(vars, var2{out, o, exact, flat, 0})
	}
}


// tooSmall: some edge is shorter than 1e-6 of the largest coordinate magnitude, i.e. the mesh has
// (nearly) collapsed numerically and points interpolated on that edge are no longer distinct floats.
func tooSmall2(m *model2d.Mesh) bool {
	scale := 0.0
	mn, mx := m.Min().Array(), m.Max().Array()
	for _, x := range append(mn[:], mx[:]...) {
		if x < 0 {
			x = -x
		}
		if x > scale {
			scale = x
		}
	}
	small := false
	m.Iterate(func(s *model2d.Segment) {
		if !(s[0].Dist(s[1]) > 1e-6*scale) {
			small = true
		}
	})
	return small
}

func tooSmall3(m *model3d.Mesh) bool {
	scale := 0.0
	mn, mx := m.Min().Array(), m.Max().Array()
	for _, x := range append(mn[:], mx[:]...) {
		if x < 0 {
			x = -x
		}
		if x > scale {
			scale = x
		}
	}
	small := false
	m.Iterate(func(t *model3d.Triangle) {
		for _, s := range t.Segments() {
			if !(s[0].Dist(s[1]) > 1e-6*scale) {
				small = true
			}
		}
	})
	return small
}

func numEdges3(soup [][3]int) int {
	set := map[[2]int]bool{}
	for _, t := range soup {
		for i := 0; i < 3; i++ {
			a, b := t[i], t[(i+1)%3]
			if a > b {
				a, b = b, a
			}
			set[[2]int{a, b}] = true
		}
	}
	return len(set)
}

// folded2: a spike (the two segments at a vertex are anti-parallel) or two segments of different
// vertices overlapping is not an embedded curve; only spikes are tested.
func folded2(m *model2d.Mesh) bool {
	bad := false
	m.Iterate(func(s *model2d.Segment) {
		for _, s2 := range m.Find(s[1]) {
			if s2 != s {
				d1 := s[1].Sub(s[0]).Normalize()
				var d2 model2d.Coord
				if s2[0] == s[1] {
					d2 = s2[1].Sub(s2[0]).Normalize()
				} else {
					d2 = s2[0].Sub(s2[1]).Normalize()
				}
				if d1.Dot(d2) < -1+1e-9 {
					bad = true
				}
			}
		}
	})
	return bad
}

// selfTouch2: two segments without a common end point intersect or touch: the curve set is not
// embedded (e.g. a sliver smoothed onto its centre line) and corner-cutting points may coincide.
func selfTouch2(m *model2d.Mesh) bool {
	segs := m.SegmentSlice()
	orient := func(a, b, c model2d.Coord) float64 {
		return (b.X-a.X)*(c.Y-a.Y) - (b.Y-a.Y)*(c.X-a.X)
	}
	sign := func(x float64) int {
		if x > 0 {
			return 1
		} else if x < 0 {
			return -1
		}
		return 0
	}
	within := func(a, b, p model2d.Coord) bool {
		return p.X >= a.Min(b).X && p.X <= a.Max(b).X && p.Y >= a.Min(b).Y && p.Y <= a.Max(b).Y
	}
	for i, s := range segs {
		for _, t := range segs[:i] {
			if s[0] == t[0] || s[0] == t[1] || s[1] == t[0] || s[1] == t[1] {
				continue
			}
			o1, o2 := sign(orient(s[0], s[1], t[0])), sign(orient(s[0], s[1], t[1]))
			o3, o4 := sign(orient(t[0], t[1], s[0])), sign(orient(t[0], t[1], s[1]))
			if o1 != o2 && o3 != o4 {
				return true
			}
			if (o1 == 0 && within(s[0], s[1], t[0])) || (o2 == 0 && within(s[0], s[1], t[1])) ||
				(o3 == 0 && within(t[0], t[1], s[0])) || (o4 == 0 && within(t[0], t[1], s[1])) {
				return true
			}
		}
	}
	return false
}
