package main

import (
	"fmt"
	"math"
	"math/rand"
	"os"
	"os/exec"
	"path/filepath"
	"sort"
	"strconv"
	"strings"
	"time"

	"verif/harness/hlib"

	"github.com/unixpickle/model3d/model3d"
	"github.com/unixpickle/model3d/toolbox3d"
)

// ---------------------------------------------------------------------------
// StackSolids / StackedSolid.  Operand i reports the bounds B_i and contains
// exactly the points of an inner box C_i ⊆ B_i (so the translated point the
// combinator hands to the operand is observable).

func ratsOf(v [3]float64) string {
	return hlib.RatStr(v[0]) + " " + hlib.RatStr(v[1]) + " " + hlib.RatStr(v[2])
}

func runStack(c *hlib.Ctx) {
	for k := 0; k < c.N/2+1; k++ {
		n := 1 + c.Rng.Intn(5)
		var parts []string
		solids := make([]model3d.Solid, n)
		inners := make([][2][3]float64, n)
		for i := 0; i < n; i++ {
			var lo, hi, ilo, ihi [3]float64
			for a := 0; a < 3; a++ {
				lo[a] = float64(c.Rng.Intn(9)-4) / 2
				hi[a] = lo[a] + float64(c.Rng.Intn(7))/2
				w := int((hi[a] - lo[a]) * 2)
				ilo[a] = lo[a] + float64(c.Rng.Intn(w+1))/2
				ihi[a] = ilo[a] + float64(c.Rng.Intn(int((hi[a]-ilo[a])*2)+1))/2
				if c.Rng.Intn(3) == 0 {
					ilo[a], ihi[a] = lo[a], hi[a]
				}
			}
			inners[i] = [2][3]float64{ilo, ihi}
			inner := model3d.NewRect(model3d.NewCoord3DArray(ilo), model3d.NewCoord3DArray(ihi))
			solids[i] = model3d.FuncSolid(model3d.NewCoord3DArray(lo), model3d.NewCoord3DArray(hi), inner.Contains)
			parts = append(parts, ratsOf(lo), ratsOf(hi), ratsOf(ilo), ratsOf(ihi))
		}
		var st, sd model3d.Solid
		if msg := hlib.Guard(func() string {
			st = model3d.StackSolids(solids...)
			sd = model3d.StackedSolid(solids)
			return ""
		}); msg != "" {
			c.Emit(fmt.Sprintf("c04 stk %d %s 0", n, strings.Join(parts, " ")), msg)
			continue
		}
		nq := 10 + c.Rng.Intn(10)
		var qs, outs []string
		zmax := st.Max().Z
		zmin := st.Min().Z
		for q := 0; q < nq; q++ {
			var p [3]float64
			for a := 0; a < 2; a++ {
				p[a] = float64(c.Rng.Intn(17)-8) / 4
			}
			span := int((zmax-zmin)*4) + 5
			p[2] = zmin - 0.5 + float64(c.Rng.Intn(span))/4
			if c.Rng.Intn(3) != 0 {
				// x, y taken from the contents of one operand (corner, edge or interior),
				// so that the answer depends on where along z that operand was moved to
				in := inners[c.Rng.Intn(n)]
				for a := 0; a < 2; a++ {
					p[a] = []float64{in[0][a], in[1][a], (in[0][a] + in[1][a]) / 2}[c.Rng.Intn(3)]
				}
			}
			qs = append(qs, ratsOf(p))
			outs = append(outs, hlib.Guard(func() string {
				a := st.Contains(model3d.NewCoord3DArray(p))
				b := sd.Contains(model3d.NewCoord3DArray(p))
				if a {
					c.Stat("c04.stack.query_inside", 1)
				} else {
					c.Stat("c04.stack.query_outside", 1)
				}
				return b2s(a) + b2s(b)
			}))
		}
		c.Emit(fmt.Sprintf("c04 stk %d %s %d %s", n, strings.Join(parts, " "), nq, strings.Join(qs, " ")), strings.Join(outs, " "))
		c.Stat("c04.stack.cases", 1)
	}
}

// ---------------------------------------------------------------------------
// RectSet: Add/Remove histories of lattice boxes, then the solid against the
// plain "some stored rect contains the point".

func rectKey(r model3d.Rect) [6]float64 {
	return [6]float64{r.MinVal.X, r.MinVal.Y, r.MinVal.Z, r.MaxVal.X, r.MaxVal.Y, r.MaxVal.Z}
}

// runRectSet runs the RectSet cases in a child process (the same binary): a
// non-terminating newRectSetSolid recursion ends in a Go stack overflow, which
// cannot be recovered in-process and would take every other case down with it.
// The child reports the case it is working on in a progress file; if it dies,
// that case is reported as "crash" and skipped on the next attempt.
func runRectSet(c *hlib.Ctx) {
	sub := c.Rng.Int63()
	if os.Getenv("C04_RS_CHILD") != "" {
		return // (not reached: main dispatches the child before run)
	}
	exe, err := os.Executable()
	if err != nil {
		c.Emit("c04 rs 0 0", "cannot-locate-harness-binary")
		return
	}
	dir, err := os.MkdirTemp("", "c04rs")
	if err != nil {
		c.Emit("c04 rs 0 0", "cannot-create-temp-dir")
		return
	}
	defer os.RemoveAll(dir)
	var skip []string
	for attempt := 0; attempt < 12; attempt++ {
		outf := filepath.Join(dir, "out.txt")
		prog := filepath.Join(dir, "progress.txt")
		os.Remove(outf)
		os.Remove(prog)
		cmd := exec.Command(exe, "-seed", strconv.FormatInt(c.Seed, 10), "-n", strconv.Itoa(c.N), "-out", outf)
		cmd.Env = append(os.Environ(), "C04_RS_CHILD="+strconv.FormatInt(sub, 10), "C04_RS_SKIP="+strings.Join(skip, ","),
			"C04_RS_PROGRESS="+prog)
		done := make(chan error, 1)
		go func() { done <- cmd.Run() }()
		var runErr error
		select {
		case runErr = <-done:
		case <-time.After(300 * time.Second):
			cmd.Process.Kill()
			runErr = fmt.Errorf("timeout")
		}
		if runErr == nil {
			data, _ := os.ReadFile(outf)
			for _, line := range strings.Split(string(data), "\n") {
				switch {
				case line == "":
				case strings.HasPrefix(line, "#stat "):
					f := strings.Fields(line)
					if len(f) == 3 {
						n, _ := strconv.Atoi(f[2])
						c.Stat(f[1], n)
					}
				case strings.HasPrefix(line, "#propfail "):
					f := strings.SplitN(line, " ", 3)
					if len(f) == 3 {
						c.PropFail(f[1], f[2])
					}
				default:
					parts := strings.SplitN(line, "\t", 2)
					if len(parts) == 2 {
						c.Emit(parts[0], parts[1])
					}
				}
			}
			return
		}
		data, _ := os.ReadFile(prog)
		lines := strings.Split(strings.TrimSpace(string(data)), "\n")
		last := strings.SplitN(lines[len(lines)-1], "\t", 2)
		if last[0] == "" {
			c.Emit("c04 rs 0 0", "rectset-child-failed-before-first-case")
			return
		}
		if len(last) == 2 {
			// the child died inside Solid()/Contains of this history / program prefix
			c.Emit(last[1], "crash:RectSet.Solid()-or-Contains-killed-the-process(stack-overflow?)")
		}
		skip = append(skip, last[0])
		c.Stat("c04.rectset.child_crashes", 1)
	}
	c.Stat("c04.rectset.child_gave_up_after_12_crashes", 1)
}

// rectSetChild is the body of the child process.
func rectSetChild(c *hlib.Ctx) {
	sub, _ := strconv.ParseInt(os.Getenv("C04_RS_CHILD"), 10, 64)
	skip := map[string]bool{}
	for _, s := range strings.Split(os.Getenv("C04_RS_SKIP"), ",") {
		if s != "" {
			skip[s] = true
		}
	}
	// progress(id, "") = case id is being generated; progress(id, line) = the
	// real code is about to be run on this (complete, replayable) op line.
	progressID := func(id string, line string) {
		f, err := os.OpenFile(os.Getenv("C04_RS_PROGRESS"), os.O_APPEND|os.O_CREATE|os.O_WRONLY, 0o644)
		if err == nil {
			if line == "" {
				fmt.Fprintf(f, "%s\n", id)
			} else {
				fmt.Fprintf(f, "%s\t%s\n", id, line)
			}
			f.Close()
		}
	}
	progress := func(k int, head string) {
		if head != "" {
			head += " 0"
		}
		progressID(strconv.Itoa(k), head)
	}
	c.Rng = rand.New(rand.NewSource(sub))
	for k := 0; k < c.N/2+1; k++ {
		progress(k, "")
		crashed := skip[strconv.Itoa(k)]
		nops := 1 + c.Rng.Intn(8)
		if k < 2 {
			nops = 0
		}
		grid := 2 + c.Rng.Intn(4)
		flat := c.Rng.Intn(4) == 0 // this history may contain zero-thickness boxes
		h := genHist(c, nops, grid, flat, 0)
		var rs *toolbox3d.RectSet
		ops := h.tokens()
		failed := hlib.Guard(func() string {
			rs = h.build()
			return ""
		})
		head := fmt.Sprintf("c04 rs %d %s", len(h.ops), strings.Join(ops, " "))
		if failed != "" {
			c.Emit(head+" 0", failed)
			continue
		}
		rects := toolbox3d.VerifRectSetRects(rs)
		sort.Slice(rects, func(i, j int) bool {
			a, b := rectKey(rects[i]), rectKey(rects[j])
			for x := range a {
				if a[x] != b[x] {
					return a[x] < b[x]
				}
			}
			return false
		})
		var rparts []string
		for _, r := range rects {
			kk := rectKey(r)
			ss := make([]string, 6)
			for i, v := range kk {
				ss[i] = hlib.RatStr(v)
			}
			rparts = append(rparts, strings.Join(ss, ","))
		}
		splits := toolbox3d.VerifRectSetSplits(rs)
		var sparts []string
		for _, s := range splits {
			ss := make([]string, len(s))
			for i, v := range s {
				ss[i] = hlib.RatStr(v)
			}
			sparts = append(sparts, strings.Join(ss, ","))
		}
		if len(rects) == 0 {
			c.Stat("c04.rectset.empty_set", 1)
		}
		c.Stat(fmt.Sprintf("c04.rectset.cells_%s", bucket(len(rects))), 1)
		nq := 12
		var qs []string
		var qbits strings.Builder
		if crashed {
			continue // already reported by the parent
		}
		progress(k, head)
		msg := hlib.Guard(func() string {
			solid := rs.Solid()
			plain := make(model3d.JoinedSolid, len(rects))
			for i := range rects {
				plain[i] = &rects[i]
			}
			for q := 0; q < nq; q++ {
				var p [3]float64
				for a := 0; a < 3; a++ {
					// half-integers: on split planes (integers) and strictly between them
					p[a] = float64(c.Rng.Intn(2*grid+3)-1) / 2
				}
				if q == 0 {
					p = [3]float64{}
				} else if q%2 == 1 && len(rects) > 0 {
					// a corner, face centre or interior point of a stored cell (often on a split plane)
					r := rects[c.Rng.Intn(len(rects))]
					lo, hi := r.MinVal.Array(), r.MaxVal.Array()
					for a := 0; a < 3; a++ {
						switch c.Rng.Intn(3) {
						case 0:
							p[a] = lo[a]
						case 1:
							p[a] = hi[a]
						default:
							p[a] = (lo[a] + hi[a]) / 2
						}
					}
				}
				got := solid.Contains(model3d.NewCoord3DArray(p))
				want := len(plain) > 0 && plain.Contains(model3d.NewCoord3DArray(p))
				if isGeneric(p) && got != h.sem(p) {
					c.PropFail("prop:c04/rectset_history_solid_eq_union", fmt.Sprintf("RectSet.Solid().Contains=%v but boxes added minus boxes removed say %v: ops=[%s] point=%v", got, h.sem(p), strings.Join(ops, " "), p))
				}
				if isGeneric(p) {
					c.Stat("c04.rectset.query_generic", 1)
				}
				if got != want {
					c.PropFail("prop:c04/rectset_solid_eq_any", fmt.Sprintf("RectSet.Solid().Contains=%v but the stored rects say %v: ops=[%s] point=%v", got, want, strings.Join(ops, " "), p))
				}
				if got {
					c.Stat("c04.rectset.query_inside", 1)
				} else {
					c.Stat("c04.rectset.query_outside", 1)
				}
				qs = append(qs, ratsOf(p))
				qbits.WriteString(b2s(got))
			}
			return ""
		})
		if msg != "" {
			c.Emit(head+" 0", msg)
			continue
		}
		c.Emit(fmt.Sprintf("%s %d %s", head, nq, strings.Join(qs, " ")),
			fmt.Sprintf("R=%s S=%s Q=%s", strings.Join(rparts, ";"), strings.Join(sparts, "|"), qbits.String()))
		c.Stat("c04.rectset.cases", 1)
	}
	runRectProgs(c, skip, progressID)
}

func bucket(n int) string {
	switch {
	case n == 0:
		return "00"
	case n == 1:
		return "01"
	case n <= 4:
		return "02-04"
	case n <= 16:
		return "05-16"
	default:
		return "17+"
	}
}

// A RectSet history: Add / Remove of a box, AddRectSet / RemoveRectSet of the
// set another history builds.
type histOp struct {
	kind string // a r A R
	rect *model3d.Rect
	sub  *hist
}

type hist struct {
	ops []histOp
}

func genHist(c *hlib.Ctx, nops, grid int, flat bool, depth int) *hist {
	h := &hist{}
	var last *model3d.Rect
	for i := 0; i < nops; i++ {
		if depth < 2 && c.Rng.Intn(7) == 0 {
			sub := genHist(c, 1+c.Rng.Intn(3), grid, flat, depth+1)
			kind := "A"
			if c.Rng.Intn(3) == 0 {
				kind = "R"
			}
			h.ops = append(h.ops, histOp{kind: kind, sub: sub})
			c.Stat("c04.rectset.op_"+kind, 1)
			continue
		}
		var lo, hi [3]float64
		for a := 0; a < 3; a++ {
			lo[a] = float64(c.Rng.Intn(grid))
			hi[a] = lo[a] + 1 + float64(c.Rng.Intn(grid-int(lo[a])))
			if flat && c.Rng.Intn(4) == 0 {
				hi[a] = lo[a]
				c.Stat("c04.rectset.zero_thickness_axis", 1)
			}
		}
		r := model3d.NewRect(model3d.NewCoord3DArray(lo), model3d.NewCoord3DArray(hi))
		kind := "a"
		switch c.Rng.Intn(12) {
		case 0, 1, 2:
			kind = "r"
		case 3:
			if last != nil {
				// remove / re-add exactly an earlier box
				r = last
				if c.Rng.Intn(2) == 0 {
					kind = "r"
				}
			}
		}
		last = r
		h.ops = append(h.ops, histOp{kind: kind, rect: r})
		c.Stat("c04.rectset.op_"+kind, 1)
	}
	return h
}

func (h *hist) tokens() []string {
	var res []string
	for _, o := range h.ops {
		switch o.kind {
		case "a", "r":
			res = append(res, o.kind+" "+ratsOf(o.rect.MinVal.Array())+" "+ratsOf(o.rect.MaxVal.Array()))
		default:
			res = append(res, fmt.Sprintf("%s %d", o.kind, len(o.sub.ops)))
			res = append(res, o.sub.tokens()...)
		}
	}
	return res
}

// build replays the history on the real RectSet.
func (h *hist) build() *toolbox3d.RectSet {
	rs := toolbox3d.NewRectSet()
	for _, o := range h.ops {
		switch o.kind {
		case "a":
			rs.Add(o.rect)
		case "r":
			rs.Remove(o.rect)
		case "A":
			rs.AddRectSet(o.sub.build())
		case "R":
			rs.RemoveRectSet(o.sub.build())
		}
	}
	return rs
}

// sem is the point set the history denotes: boxes added minus boxes removed, in order.
func (h *hist) sem(p [3]float64) bool {
	in := false
	c := model3d.NewCoord3DArray(p)
	for _, o := range h.ops {
		switch o.kind {
		case "a":
			in = in || o.rect.Contains(c)
		case "r":
			in = in && !o.rect.Contains(c)
		case "A":
			in = in || o.sub.sem(p)
		case "R":
			in = in && !o.sub.sem(p)
		}
	}
	return in
}

// isGeneric: box coordinates are integers, so a point with no integer
// coordinate lies on no plane a history can split at.
func isGeneric(p [3]float64) bool {
	for _, v := range p {
		if v == math.Floor(v) {
			return false
		}
	}
	return true
}
