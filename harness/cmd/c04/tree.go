package main

import (
	"fmt"
	"strings"

	"verif/harness/hlib"

	"github.com/unixpickle/model3d/model2d"
	"github.com/unixpickle/model3d/model3d"
)

// ---------------------------------------------------------------------------
// Kind `tree`: NESTS of combinators.  An expression over 1..6 leaf solids
// (lattice boxes; a leaf answers a harness-chosen bit, true only inside its
// bounds) built from
//
//	J k e..   JoinedSolid{e..}
//	O k e..   JoinedSolid{e..}.Optimize()
//	M k e..   NewSolidMux([]Solid{e..})   (the *SolidMux used as a Solid)
//	I k e..   IntersectedSolid{e..}
//	S a b     &SubtractedSolid{Positive: a, Negative: b}
//
// to depth <= 3, the same leaf possibly in several places.  The REAL nest is
// built once per case and asked at 8..14 points; a second nest with the
// operands of every node shuffled has to give the same answers (P).  The Lean
// driver answers with the pointwise boolean formula
// (nested_combinators_eq_formula).

type tnode struct {
	op   byte // L J O M I S
	leaf int
	kids []*tnode
}

func genTree(c *hlib.Ctx, nl, depth int) *tnode {
	if depth == 0 || c.Rng.Intn(4) == 0 {
		return &tnode{op: 'L', leaf: c.Rng.Intn(nl)}
	}
	ops := []byte{'J', 'O', 'O', 'M', 'M', 'I', 'S'}
	n := &tnode{op: ops[c.Rng.Intn(len(ops))]}
	k := 1 + c.Rng.Intn(4)
	if n.op == 'S' {
		k = 2
	}
	for i := 0; i < k; i++ {
		n.kids = append(n.kids, genTree(c, nl, depth-1))
	}
	return n
}

func (n *tnode) tokens() string {
	switch n.op {
	case 'L':
		return fmt.Sprintf("L %d", n.leaf)
	case 'S':
		return "S " + n.kids[0].tokens() + " " + n.kids[1].tokens()
	}
	parts := []string{string(n.op), fmt.Sprint(len(n.kids))}
	for _, k := range n.kids {
		parts = append(parts, k.tokens())
	}
	return strings.Join(parts, " ")
}

// shuffled: the same expression with the operand list of every node in another order
// (Positive / Negative of a difference keep their roles).
func (n *tnode) shuffled(c *hlib.Ctx) *tnode {
	m := &tnode{op: n.op, leaf: n.leaf}
	for _, k := range n.kids {
		m.kids = append(m.kids, k.shuffled(c))
	}
	if n.op != 'S' {
		c.Rng.Shuffle(len(m.kids), func(i, j int) { m.kids[i], m.kids[j] = m.kids[j], m.kids[i] })
	}
	return m
}

func (n *tnode) eval(bits []bool) bool {
	switch n.op {
	case 'L':
		return bits[n.leaf]
	case 'S':
		return n.kids[0].eval(bits) && !n.kids[1].eval(bits)
	case 'I':
		for _, k := range n.kids {
			if !k.eval(bits) {
				return false
			}
		}
		return true
	}
	for _, k := range n.kids {
		if k.eval(bits) {
			return true
		}
	}
	return false
}

func (n *tnode) depth() int {
	d := 0
	for _, k := range n.kids {
		if kd := k.depth(); kd > d {
			d = kd
		}
	}
	if n.op == 'L' {
		return 0
	}
	return d + 1
}

func (n *tnode) build3(leaves []model3d.Solid) model3d.Solid {
	if n.op == 'L' {
		return leaves[n.leaf]
	}
	kids := make([]model3d.Solid, len(n.kids))
	for i, k := range n.kids {
		kids[i] = k.build3(leaves)
	}
	switch n.op {
	case 'J':
		return model3d.JoinedSolid(kids)
	case 'O':
		return model3d.JoinedSolid(kids).Optimize()
	case 'M':
		return model3d.NewSolidMux(kids)
	case 'I':
		return model3d.IntersectedSolid(kids)
	default:
		return &model3d.SubtractedSolid{Positive: kids[0], Negative: kids[1]}
	}
}

func (n *tnode) build2(leaves []model2d.Solid) model2d.Solid {
	if n.op == 'L' {
		return leaves[n.leaf]
	}
	kids := make([]model2d.Solid, len(n.kids))
	for i, k := range n.kids {
		kids[i] = k.build2(leaves)
	}
	switch n.op {
	case 'J':
		return model2d.JoinedSolid(kids)
	case 'O':
		return model2d.JoinedSolid(kids).Optimize()
	case 'M':
		return model2d.NewSolidMux(kids)
	case 'I':
		return model2d.IntersectedSolid(kids)
	default:
		return &model2d.SubtractedSolid{Positive: kids[0], Negative: kids[1]}
	}
}

func runTrees(c *hlib.Ctx) {
	for k := 0; k < c.N/2+1; k++ {
		dim := 3 - k%2
		nl := 1 + c.Rng.Intn(6)
		grid := 2 + c.Rng.Intn(4)
		lo := make([][3]float64, nl)
		hi := make([][3]float64, nl)
		for i := 0; i < nl; i++ {
			for a := 0; a < dim; a++ {
				lo[i][a] = float64(c.Rng.Intn(grid))
				hi[i][a] = lo[i][a] + float64(c.Rng.Intn(grid-int(lo[i][a])+1))
			}
			if i > 0 && c.Rng.Intn(5) == 0 {
				j := c.Rng.Intn(i)
				lo[i], hi[i] = lo[j], hi[j] // coincident bounds
			}
		}
		cur := make([]bool, nl)
		root := genTree(c, nl, 1+c.Rng.Intn(3))
		other := root.shuffled(c)
		var boxParts []string
		for i := 0; i < nl; i++ {
			for a := 0; a < dim; a++ {
				boxParts = append(boxParts, hlib.RatStr(lo[i][a]))
			}
			for a := 0; a < dim; a++ {
				boxParts = append(boxParts, hlib.RatStr(hi[i][a]))
			}
		}
		head := fmt.Sprintf("c04 tree %d %d %s %s", dim, nl, strings.Join(boxParts, " "), root.tokens())
		var f, g func(p [3]float64) bool
		if msg := hlib.Guard(func() string {
			if dim == 3 {
				leaves := make([]model3d.Solid, nl)
				for i := range leaves {
					i := i
					leaves[i] = model3d.FuncSolid(model3d.NewCoord3DArray(lo[i]), model3d.NewCoord3DArray(hi[i]),
						func(model3d.Coord3D) bool { return cur[i] })
				}
				s1, s2 := root.build3(leaves), other.build3(leaves)
				f = func(p [3]float64) bool { return s1.Contains(model3d.NewCoord3DArray(p)) }
				g = func(p [3]float64) bool { return s2.Contains(model3d.NewCoord3DArray(p)) }
			} else {
				leaves := make([]model2d.Solid, nl)
				for i := range leaves {
					i := i
					leaves[i] = model2d.FuncSolid(model2d.XY(lo[i][0], lo[i][1]), model2d.XY(hi[i][0], hi[i][1]),
						func(model2d.Coord) bool { return cur[i] })
				}
				s1, s2 := root.build2(leaves), other.build2(leaves)
				f = func(p [3]float64) bool { return s1.Contains(model2d.XY(p[0], p[1])) }
				g = func(p [3]float64) bool { return s2.Contains(model2d.XY(p[0], p[1])) }
			}
			return ""
		}); msg != "" {
			c.Emit(head+" 0", msg)
			continue
		}
		nq := 8 + c.Rng.Intn(7)
		var qparts []string
		var out strings.Builder
		same := true
		msg := hlib.Guard(func() string {
			for q := 0; q < nq; q++ {
				var p [3]float64
				for a := 0; a < dim; a++ {
					p[a] = float64(c.Rng.Intn(2*grid+3)-1) / 2
				}
				if q%2 == 0 {
					// a corner / face / interior point of a leaf's bounds
					j := c.Rng.Intn(nl)
					for a := 0; a < dim; a++ {
						p[a] = []float64{lo[j][a], hi[j][a], (lo[j][a] + hi[j][a]) / 2}[c.Rng.Intn(3)]
					}
				}
				for i := range cur {
					in := true
					for a := 0; a < dim; a++ {
						if p[a] < lo[i][a] || p[a] > hi[i][a] {
							in = false
						}
					}
					cur[i] = in && c.Rng.Intn(2) == 0
				}
				got := f(p)
				want := root.eval(cur)
				if got != want {
					c.PropFail("prop:c04/nested_eq_formula", fmt.Sprintf(
						"the nest contains=%v but the boolean formula of its leaves says %v: case=[%s] point=%v leaf answers=%s",
						got, want, head, p[:dim], bitsStr(cur)))
				}
				if g(p) != got {
					same = false
					c.PropFail("prop:c04/nested_perm", fmt.Sprintf(
						"the nest with the operands of every node reordered (%s) answers %v, the listed one %v: case=[%s] point=%v leaf answers=%s",
						other.tokens(), !got, got, head, p[:dim], bitsStr(cur)))
				}
				if want {
					c.Stat("c04.tree.query_inside", 1)
				} else {
					c.Stat("c04.tree.query_outside", 1)
				}
				for a := 0; a < dim; a++ {
					qparts = append(qparts, hlib.RatStr(p[a]))
				}
				qparts = append(qparts, bitsStr(cur))
				out.WriteString(b2s(got))
			}
			return ""
		})
		if msg != "" {
			c.Emit(head+" 0", msg)
			continue
		}
		c.Emit(fmt.Sprintf("%s %d %s", head, nq, strings.Join(qparts, " ")), fmt.Sprintf("V=%s P=%s", out.String(), b2s(same)))
		c.Stat("c04.tree.cases", 1)
		c.Stat(fmt.Sprintf("c04.tree.depth_%d", root.depth()), 1)
	}
}
