package main

import (
	"fmt"
	"sort"
	"strconv"
	"strings"

	"verif/harness/hlib"

	"github.com/unixpickle/model3d/model2d"
	"github.com/unixpickle/model3d/model3d"
)

// A scene: a list of operand slots, each referring to a leaf solid (the same
// leaf may appear in several slots = duplicate operands).  A leaf reports the
// bounds box[leaf] and answers cur[leaf] (set by the harness before each
// query); the answer is only ever true for points inside its bounds, which is
// the contract of the Solid interface (property C03).
type scene struct {
	dim   int
	lo    [][3]float64 // per slot
	hi    [][3]float64
	leafs []int // slot -> leaf id
	cur   []bool
}

func (s *scene) inBox(slot int, p [3]float64) bool {
	for a := 0; a < s.dim; a++ {
		if p[a] < s.lo[slot][a] || p[a] > s.hi[slot][a] {
			return false
		}
	}
	return true
}

func genScene(c *hlib.Ctx, dim int) *scene {
	n := 1 + c.Rng.Intn(9)
	if c.Rng.Intn(6) == 0 {
		n = 1 + c.Rng.Intn(3)
	}
	s := &scene{dim: dim}
	grid := 2 + c.Rng.Intn(5) // small lattice => many coincident faces
	for len(s.leafs) < n {
		k := len(s.leafs)
		mode := c.Rng.Intn(10)
		switch {
		case mode == 0 && k > 0:
			// duplicate operand: the very same solid again
			j := c.Rng.Intn(k)
			s.lo = append(s.lo, s.lo[j])
			s.hi = append(s.hi, s.hi[j])
			s.leafs = append(s.leafs, s.leafs[j])
			c.Stat("c04.scene.duplicate_operands", 1)
			continue
		case mode == 1 && k > 0:
			// a different solid with coincident bounds
			j := c.Rng.Intn(k)
			s.lo = append(s.lo, s.lo[j])
			s.hi = append(s.hi, s.hi[j])
			c.Stat("c04.scene.coincident_bounds", 1)
		case mode == 2 && k > 0:
			// nested inside an earlier one
			j := c.Rng.Intn(k)
			var lo, hi [3]float64
			for a := 0; a < dim; a++ {
				w := s.hi[j][a] - s.lo[j][a]
				lo[a] = s.lo[j][a] + float64(c.Rng.Intn(int(w*2)+1))/2
				hi[a] = lo[a] + float64(c.Rng.Intn(int((s.hi[j][a]-lo[a])*2)+1))/2
			}
			s.lo = append(s.lo, lo)
			s.hi = append(s.hi, hi)
			c.Stat("c04.scene.nested", 1)
		default:
			var lo, hi [3]float64
			for a := 0; a < dim; a++ {
				lo[a] = float64(c.Rng.Intn(grid))
				hi[a] = lo[a] + float64(c.Rng.Intn(grid-int(lo[a])+1))
			}
			s.lo = append(s.lo, lo)
			s.hi = append(s.hi, hi)
		}
		s.leafs = append(s.leafs, len(s.cur))
		s.cur = append(s.cur, false)
	}
	return s
}

func (s *scene) boxesStr() string {
	var parts []string
	for i := range s.lo {
		for a := 0; a < s.dim; a++ {
			parts = append(parts, hlib.RatStr(s.lo[i][a]))
		}
		for a := 0; a < s.dim; a++ {
			parts = append(parts, hlib.RatStr(s.hi[i][a]))
		}
	}
	return strings.Join(parts, " ")
}

// sceneImpl is what the harness needs from one package (2D or 3D).
type sceneImpl struct {
	// optimize returns Contains of JoinedSolid(slots).Optimize(), the plain join, and
	// the order GroupBounders puts the slots in.
	build func(s *scene) (optContains, plainContains func(p [3]float64) bool, perm []int,
		muxContains func(p [3]float64) bool, muxAll func(p [3]float64) []bool,
		muxIter func(p [3]float64) ([]int, int, int), muxPerm []int)
}

func impl3() sceneImpl {
	return sceneImpl{build: func(s *scene) (func([3]float64) bool, func([3]float64) bool, []int,
		func([3]float64) bool, func([3]float64) []bool, func([3]float64) ([]int, int, int), []int) {
		leafSolids := map[int]model3d.Solid{}
		slots := make([]model3d.Solid, len(s.leafs))
		for i, l := range s.leafs {
			if _, ok := leafSolids[l]; !ok {
				l := l
				leafSolids[l] = model3d.FuncSolid(model3d.NewCoord3DArray(s.lo[i]), model3d.NewCoord3DArray(s.hi[i]),
					func(model3d.Coord3D) bool { return s.cur[l] })
			}
			slots[i] = leafSolids[s.leafs[i]]
		}
		pt := func(p [3]float64) model3d.Coord3D { return model3d.NewCoord3DArray(p) }
		joined := model3d.JoinedSolid(slots)
		opt := joined.Optimize()
		// the order GroupBounders produces on the same input (deterministic)
		grouped := append([]model3d.Solid{}, slots...)
		model3d.GroupBounders(grouped)
		perm := matchPerm(len(slots), func(i, j int) bool { return grouped[i] == slots[j] })
		mux := model3d.NewSolidMux(slots)
		rects := make([]*model3d.Rect, len(slots))
		idx := map[*model3d.Rect]int{}
		for i, sl := range slots {
			rects[i] = model3d.BoundsRect(sl)
			idx[rects[i]] = i
		}
		model3d.GroupBounders(rects)
		muxPerm := make([]int, len(rects))
		for i, r := range rects {
			muxPerm[i] = idx[r]
		}
		return func(p [3]float64) bool { return opt.Contains(pt(p)) },
			func(p [3]float64) bool { return joined.Contains(pt(p)) },
			perm,
			func(p [3]float64) bool { return mux.Contains(pt(p)) },
			func(p [3]float64) []bool { return mux.AllContains(pt(p)) },
			func(p [3]float64) ([]int, int, int) {
				var calls []int
				cnt := mux.IterContains(pt(p), func(i int) { calls = append(calls, i) })
				cnt2 := mux.IterContains(pt(p), nil)
				return calls, cnt, cnt2
			}, muxPerm
	}}
}

func impl2() sceneImpl {
	return sceneImpl{build: func(s *scene) (func([3]float64) bool, func([3]float64) bool, []int,
		func([3]float64) bool, func([3]float64) []bool, func([3]float64) ([]int, int, int), []int) {
		leafSolids := map[int]model2d.Solid{}
		slots := make([]model2d.Solid, len(s.leafs))
		c2 := func(p [3]float64) model2d.Coord { return model2d.XY(p[0], p[1]) }
		for i, l := range s.leafs {
			if _, ok := leafSolids[l]; !ok {
				l := l
				leafSolids[l] = model2d.FuncSolid(c2(s.lo[i]), c2(s.hi[i]), func(model2d.Coord) bool { return s.cur[l] })
			}
			slots[i] = leafSolids[s.leafs[i]]
		}
		joined := model2d.JoinedSolid(slots)
		opt := joined.Optimize()
		grouped := append([]model2d.Solid{}, slots...)
		model2d.GroupBounders(grouped)
		perm := matchPerm(len(slots), func(i, j int) bool { return grouped[i] == slots[j] })
		mux := model2d.NewSolidMux(slots)
		rects := make([]*model2d.Rect, len(slots))
		idx := map[*model2d.Rect]int{}
		for i, sl := range slots {
			rects[i] = model2d.BoundsRect(sl)
			idx[rects[i]] = i
		}
		model2d.GroupBounders(rects)
		muxPerm := make([]int, len(rects))
		for i, r := range rects {
			muxPerm[i] = idx[r]
		}
		return func(p [3]float64) bool { return opt.Contains(c2(p)) },
			func(p [3]float64) bool { return joined.Contains(c2(p)) },
			perm,
			func(p [3]float64) bool { return mux.Contains(c2(p)) },
			func(p [3]float64) []bool { return mux.AllContains(c2(p)) },
			func(p [3]float64) ([]int, int, int) {
				var calls []int
				cnt := mux.IterContains(c2(p), func(i int) { calls = append(calls, i) })
				cnt2 := mux.IterContains(c2(p), nil)
				return calls, cnt, cnt2
			}, muxPerm
	}}
}

// matchPerm recovers, for a reordered slice, which original slot sits at each
// position (duplicate operands are assigned in ascending slot order).
func matchPerm(n int, same func(groupedPos, slot int) bool) []int {
	used := make([]bool, n)
	perm := make([]int, n)
	for i := 0; i < n; i++ {
		perm[i] = -1
		for j := 0; j < n; j++ {
			if !used[j] && same(i, j) {
				used[j] = true
				perm[i] = j
				break
			}
		}
	}
	return perm
}

func intsJoin(xs []int, sep string) string {
	ss := make([]string, len(xs))
	for i, x := range xs {
		ss[i] = strconv.Itoa(x)
	}
	return strings.Join(ss, sep)
}

func runScenes(c *hlib.Ctx) {
	for k := 0; k < c.N; k++ {
		dim := 3 - k%2
		impl := impl3()
		if dim == 2 {
			impl = impl2()
		}
		s := genScene(c, dim)
		n := len(s.leafs)
		var optC, plainC, muxC func([3]float64) bool
		var muxAll func([3]float64) []bool
		var muxIter func([3]float64) ([]int, int, int)
		var perm, muxPerm []int
		if msg := hlib.Guard(func() string {
			optC, plainC, perm, muxC, muxAll, muxIter, muxPerm = impl.build(s)
			return ""
		}); msg != "" {
			c.Emit(fmt.Sprintf("c04 opt %d %d %s", dim, n, s.boxesStr()), msg)
			continue
		}
		nq := 6 + c.Rng.Intn(8)
		var qparts, optOut, muxOut []string
		for q := 0; q < nq; q++ {
			var p [3]float64
			for a := 0; a < dim; a++ {
				// half-integers from -1/2 .. 6.5: on faces, inside, outside
				p[a] = float64(c.Rng.Intn(15)-1) / 2
			}
			if q%3 == 0 {
				// aim at a corner/face of a random operand
				j := c.Rng.Intn(n)
				for a := 0; a < dim; a++ {
					if c.Rng.Intn(2) == 0 {
						p[a] = s.lo[j][a]
					} else {
						p[a] = s.hi[j][a]
					}
				}
			}
			// answers of the leaves at this point
			for l := range s.cur {
				s.cur[l] = false
			}
			bits := make([]bool, n)
			for i := range bits {
				l := s.leafs[i]
				if s.inBox(i, p) && c.Rng.Intn(3) == 0 {
					s.cur[l] = true
				}
			}
			any := false
			for i := range bits {
				bits[i] = s.cur[s.leafs[i]] && s.inBox(i, p)
				// a duplicate leaf shares its bounds, so inBox agrees across its slots
				any = any || bits[i]
			}
			if any {
				c.Stat("c04.scene.query_inside", 1)
			} else {
				c.Stat("c04.scene.query_outside", 1)
			}
			for a := 0; a < dim; a++ {
				qparts = append(qparts, hlib.RatStr(p[a]))
			}
			qparts = append(qparts, bitsStr(bits))
			optOut = append(optOut, hlib.Guard(func() string {
				o := optC(p)
				if o != plainC(p) {
					c.PropFail("prop:c04/optimize_eq_joined", fmt.Sprintf("Optimize().Contains != JoinedSolid.Contains dim=%d boxes=%s point=%v answers=%s", dim, s.boxesStr(), p, bitsStr(bits)))
				}
				return b2s(o)
			}))
			muxOut = append(muxOut, hlib.Guard(func() string {
				calls, cnt, cnt2 := muxIter(p)
				sort.Ints(calls)
				cs := strconv.Itoa(cnt)
				if cnt != cnt2 {
					cs = "count-differs-with-nil-callback"
				}
				return fmt.Sprintf("%s:%s:[%s]:%s", b2s(muxC(p)), bitsStr(muxAll(p)), intsJoin(calls, ","), cs)
			}))
		}
		head := fmt.Sprintf("%d %d %s", dim, n, s.boxesStr())
		tail := fmt.Sprintf("%d %s", nq, strings.Join(qparts, " "))
		c.Emit(fmt.Sprintf("c04 opt %s %s %s", head, intsJoin(perm, " "), tail), strings.Join(optOut, " "))
		c.Emit(fmt.Sprintf("c04 mux %s %s %s", head, intsJoin(muxPerm, " "), tail), strings.Join(muxOut, " "))
		c.Stat("c04.scene.cases", 1)
		c.Stat(fmt.Sprintf("c04.scene.operands_%02d", n), 1)
	}
}
