package main

import (
	"fmt"
	"math/rand"
	"sort"
	"strings"

	"verif/harness/hlib"

	"github.com/unixpickle/model3d/model3d"
	"github.com/unixpickle/model3d/toolbox3d"
)

// ---------------------------------------------------------------------------
// Programs over several *RectSet OBJECTS (kind `rsp`): the life cycle of a set
// and of the solids obtained from it.  A program is a sequence of statements
//
//	a|r <i> <box>   v_i.Add / v_i.Remove
//	A|R <i> <j>     v_i.AddRectSet(v_j) / v_i.RemoveRectSet(v_j)   (i == j allowed)
//	N <i>           v_i = NewRectSet()
//	S <i>           v_i.Solid(); the result is kept as solid number 0, 1, ...
//	Q <k> <nq> pts  query solid k (just obtained, or obtained many statements ago)
//
// on REAL objects that live for the whole program: Solid() is called again and
// again between mutations, argument sets are reused and changed after they
// were used, earlier solids are queried after later mutations.  The Lean
// driver answers from the value model (Model/RectSetProg.lean): per S the
// stored rects and splits of the receiver at that moment, per Q "some rect
// stored in the receiver when solid k was created contains the point"
// (theorem rectset_program_solid_eq_union).

// rsStateStr renders the stored rects (sorted) and the split lists of a set.
func rsStateStr(rs *toolbox3d.RectSet) ([]model3d.Rect, string) {
	rects := toolbox3d.VerifRectSetRects(rs)
	sort.Slice(rects, func(i, j int) bool {
		a, b := rectKey(rects[i]), rectKey(rects[j])
		for x := range a {
			if a[x] != b[x] {
				return a[x] < b[x]
			}
		}
		return false
	})
	var rparts []string
	for _, r := range rects {
		kk := rectKey(r)
		ss := make([]string, 6)
		for i, v := range kk {
			ss[i] = hlib.RatStr(v)
		}
		rparts = append(rparts, strings.Join(ss, ","))
	}
	splits := toolbox3d.VerifRectSetSplits(rs)
	var sparts []string
	for _, s := range splits {
		ss := make([]string, len(s))
		for i, v := range s {
			ss[i] = hlib.RatStr(v)
		}
		sparts = append(sparts, strings.Join(ss, ","))
	}
	return rects, fmt.Sprintf("R=%s S=%s", strings.Join(rparts, ";"), strings.Join(sparts, "|"))
}

// progVar is one object of the program together with the point set its history denotes.
type progVar struct {
	rs *toolbox3d.RectSet
	h  *hist
	// since the last Solid() call on this object: was a split list changed or
	// rebuilt, were the stored rects changed (only for the statistics)
	solidSeen     bool
	planesTouched bool
	rectsChanged  bool
	lastBox       *model3d.Rect // box of the last Add / Remove on this object
}

func (h *hist) with(op histOp) *hist {
	ops := make([]histOp, len(h.ops), len(h.ops)+1)
	copy(ops, h.ops)
	return &hist{ops: append(ops, op)}
}

// progSolid is a solid a Solid() call returned, with what the receiver was at that moment.
type progSolid struct {
	solid model3d.Solid
	rects []model3d.Rect // the stored rects at the time of the call
	h     *hist          // the receiver's history at the time of the call
	v     int
	born  int // token number (for the message)
	stmt  int // index of the S statement in the statement list
}

func splitsStr(rs *toolbox3d.RectSet) string {
	return fmt.Sprint(toolbox3d.VerifRectSetSplits(rs))
}

// runRectProgs is called in the child process (see runRectSet) after the
// history cases; it shares their progress/skip protocol (ids "p<k>").
func runRectProgs(c *hlib.Ctx, skip map[string]bool, progress func(id string, line string)) {
	for k := 0; k < c.N/2+1; k++ {
		id := fmt.Sprintf("p%d", k)
		progress(id, "")
		rng := rand.New(rand.NewSource(c.Rng.Int63()))
		if skip[id] {
			continue // already reported by the parent as a crash
		}
		runOneProg(c, rng, id, progress)
	}
}

func runOneProg(c *hlib.Ctx, rng *rand.Rand, id string, progress func(id string, line string)) {
	nvars := 1 + rng.Intn(3)
	grid := 2 + rng.Intn(3)
	flat := rng.Intn(5) == 0
	nstmts := 3 + rng.Intn(10)
	vars := make([]*progVar, nvars)
	for i := range vars {
		vars[i] = &progVar{rs: toolbox3d.NewRectSet(), h: &hist{}}
	}
	var toks, outs []string
	var stmts []pstmt
	var solids []*progSolid
	reported := map[string]bool{}
	// boxes touched by the statements so far (query points are biased towards them)
	var touched []*model3d.Rect

	genBox := func(v *progVar) *model3d.Rect {
		if len(touched) > 0 && rng.Intn(6) == 0 {
			return touched[rng.Intn(len(touched))]
		}
		onPlanes := rng.Intn(3) == 0
		if v.solidSeen {
			onPlanes = rng.Intn(2) == 0
		}
		if sp := toolbox3d.VerifRectSetSplits(v.rs); onPlanes && len(sp[0]) > 1 && len(sp[1]) > 1 && len(sp[2]) > 1 {
			// a box between planes the receiver already uses (fills a gap, covers
			// or carves existing cells without bringing a new plane)
			var lo, hi [3]float64
			for a := 0; a < 3; a++ {
				x := rng.Intn(len(sp[a]) - 1)
				y := x + 1 + rng.Intn(len(sp[a])-1-x)
				lo[a], hi[a] = sp[a][x], sp[a][y]
			}
			c.Stat("c04.rectprog.box_on_existing_planes", 1)
			return model3d.NewRect(model3d.NewCoord3DArray(lo), model3d.NewCoord3DArray(hi))
		}
		var lo, hi [3]float64
		for a := 0; a < 3; a++ {
			lo[a] = float64(rng.Intn(grid))
			hi[a] = lo[a] + 1 + float64(rng.Intn(grid-int(lo[a])))
			if flat && rng.Intn(5) == 0 {
				hi[a] = lo[a]
				c.Stat("c04.rectprog.zero_thickness_axis", 1)
			}
		}
		return model3d.NewRect(model3d.NewCoord3DArray(lo), model3d.NewCoord3DArray(hi))
	}

	genPoint := func(s *progSolid, first bool) [3]float64 {
		var p [3]float64
		x := rng.Intn(4)
		if first && vars[s.v].lastBox != nil {
			x = 0
		}
		switch x {
		case 0:
			// strictly inside a box some statement handled (never on a lattice plane);
			// the first question to a fresh solid is about the box its receiver handled last
			if len(touched) > 0 {
				r := touched[len(touched)-1-rng.Intn(minInt(len(touched), 3))]
				if first && vars[s.v].lastBox != nil {
					r = vars[s.v].lastBox
				}
				lo, hi := r.MinVal.Array(), r.MaxVal.Array()
				for a := 0; a < 3; a++ {
					w := int(hi[a] - lo[a])
					p[a] = lo[a] + 0.5
					if w > 1 {
						p[a] += float64(rng.Intn(w))
					}
				}
				return p
			}
			fallthrough
		case 1:
			// a corner, face centre or interior point of a cell stored at the time of the call
			if len(s.rects) > 0 {
				r := s.rects[rng.Intn(len(s.rects))]
				lo, hi := r.MinVal.Array(), r.MaxVal.Array()
				for a := 0; a < 3; a++ {
					switch rng.Intn(3) {
					case 0:
						p[a] = lo[a]
					case 1:
						p[a] = hi[a]
					default:
						p[a] = (lo[a] + hi[a]) / 2
					}
				}
				return p
			}
			fallthrough
		default:
			for a := 0; a < 3; a++ {
				p[a] = float64(rng.Intn(2*grid+3)-1) / 2
			}
		}
		return p
	}

	line := func() string { return "c04 rsp " + strings.Join(append(append([]string{}, toks...), "end"), " ") }

	query := func(k int, nq int, late bool) {
		s := solids[k]
		var qs []string
		var bits strings.Builder
		plain := make(model3d.JoinedSolid, len(s.rects))
		for i := range s.rects {
			plain[i] = &s.rects[i]
		}
		for q := 0; q < nq; q++ {
			p := genPoint(s, q == 0 && !late)
			pc := model3d.NewCoord3DArray(p)
			got := s.solid.Contains(pc)
			want := len(plain) > 0 && plain.Contains(pc)
			when := "right after the call"
			if late {
				when = fmt.Sprintf("%d statements after the call", len(toks))
			}
			if got != want && !reported["any"] {
				reported["any"] = true
				c.PropFail("prop:c04/rectset_program_solid_eq_any", fmt.Sprintf(
					"solid %d = v%d.Solid() (statement %d), queried %s: Contains(%v)=%v but the rects stored in v%d at the time of the call say %v; %s; full program=[%s]",
					k, s.v, s.born, when, p, got, s.v, want, shrunk(stmts, s.stmt, late, p, false), line()))
			}
			if isGeneric(p) {
				c.Stat("c04.rectprog.query_generic", 1)
				if sem := s.h.sem(p); got != sem && !reported["sem"] {
					reported["sem"] = true
					c.PropFail("prop:c04/rectset_program_solid_eq_union", fmt.Sprintf(
						"solid %d = v%d.Solid() (statement %d), queried %s: Contains(%v)=%v but boxes added minus boxes removed say %v; %s; full program=[%s]",
						k, s.v, s.born, when, p, got, sem, shrunk(stmts, s.stmt, late, p, true), line()))
				}
			}
			if got {
				c.Stat("c04.rectprog.query_inside", 1)
			} else {
				c.Stat("c04.rectprog.query_outside", 1)
			}
			qs = append(qs, ratsOf(p))
			bits.WriteString(b2s(got))
		}
		toks = append(toks, fmt.Sprintf("Q %d %d %s", k, nq, strings.Join(qs, " ")))
		outs = append(outs, "Q="+bits.String())
		if late {
			c.Stat("c04.rectprog.late_queries", nq)
		}
	}

	callSolid := func(i int) bool {
		v := vars[i]
		toks = append(toks, fmt.Sprintf("S %d", i))
		stmts = append(stmts, pstmt{kind: "S", i: i})
		progress(id, line())
		var sol model3d.Solid
		if msg := hlib.Guard(func() string { sol = v.rs.Solid(); return "" }); msg != "" {
			c.Emit(line(), msg)
			return false
		}
		rects, st := rsStateStr(v.rs)
		solids = append(solids, &progSolid{solid: sol, rects: rects, h: v.h, v: i, born: len(toks), stmt: len(stmts) - 1})
		outs = append(outs, st)
		c.Stat("c04.rectprog.solid_calls", 1)
		if v.solidSeen {
			c.Stat("c04.rectprog.repeated_solid_calls", 1)
			if v.rectsChanged && !v.planesTouched {
				// the trigger of a stale cache: Solid(), then a change of the
				// rects that changes no split plane, then Solid() again
				c.Stat("c04.rectprog.solid_again_after_plane_preserving_change", 1)
			}
		}
		v.solidSeen = true
		v.planesTouched = false
		v.rectsChanged = false
		return true
	}

	// mutated records, for the statistics, whether the statement changed the
	// stored rects of v_i without changing (or rebuilding) any split list.
	mutated := func(i int, kind string, before, splitsBefore string) {
		v := vars[i]
		if !v.solidSeen {
			return
		}
		_, now := rsStateStr(v.rs)
		if kind == "r" || kind == "R" || splitsStr(v.rs) != splitsBefore {
			v.planesTouched = true
		}
		if now != before {
			v.rectsChanged = true
		}
	}

	ok := true
	lastS := -1 // receiver of the most recent Solid() call
	for s := 0; s < nstmts && ok; s++ {
		i := rng.Intn(nvars)
		if lastS >= 0 && rng.Intn(2) == 0 {
			i = lastS // keep working on the object whose solid was just taken
		}
		v := vars[i]
		_, before := rsStateStr(v.rs)
		splitsBefore := splitsStr(v.rs)
		msg, kind := "", ""
		x := rng.Intn(20)
		if nvars == 1 && x >= 14 && x < 19 && rng.Intn(4) != 0 {
			x = rng.Intn(14) // with one object AddRectSet / RemoveRectSet can only take the receiver itself
		}
		switch {
		case x < 10: // Add
			r := genBox(v)
			touched = append(touched, r)
			stmts = append(stmts, pstmt{kind: "a", i: i, rect: r})
			v.lastBox = r
			toks = append(toks, stmts[len(stmts)-1].tok())
			msg = hlib.Guard(func() string { v.rs.Add(r); return "" })
			v.h = v.h.with(histOp{kind: "a", rect: r})
			c.Stat("c04.rectprog.stmt_a", 1)
			kind = "a"
		case x < 14: // Remove
			r := genBox(v)
			touched = append(touched, r)
			stmts = append(stmts, pstmt{kind: "r", i: i, rect: r})
			v.lastBox = r
			toks = append(toks, stmts[len(stmts)-1].tok())
			msg = hlib.Guard(func() string { v.rs.Remove(r); return "" })
			v.h = v.h.with(histOp{kind: "r", rect: r})
			c.Stat("c04.rectprog.stmt_r", 1)
			kind = "r"
		case x < 17: // AddRectSet
			j := otherVar(rng, nvars, i)
			stmts = append(stmts, pstmt{kind: "A", i: i, j: j})
			toks = append(toks, stmts[len(stmts)-1].tok())
			w := vars[j]
			msg = hlib.Guard(func() string { v.rs.AddRectSet(w.rs); return "" })
			v.h = v.h.with(histOp{kind: "A", sub: w.h})
			c.Stat("c04.rectprog.stmt_A", 1)
			kind = "A"
			if i == j {
				c.Stat("c04.rectprog.stmt_self_argument", 1)
			}
		case x < 19: // RemoveRectSet
			j := otherVar(rng, nvars, i)
			stmts = append(stmts, pstmt{kind: "R", i: i, j: j})
			toks = append(toks, stmts[len(stmts)-1].tok())
			w := vars[j]
			msg = hlib.Guard(func() string { v.rs.RemoveRectSet(w.rs); return "" })
			v.h = v.h.with(histOp{kind: "R", sub: w.h})
			c.Stat("c04.rectprog.stmt_R", 1)
			kind = "R"
			if i == j {
				c.Stat("c04.rectprog.stmt_self_argument", 1)
			}
		default: // v_i = NewRectSet()
			stmts = append(stmts, pstmt{kind: "N", i: i})
			toks = append(toks, stmts[len(stmts)-1].tok())
			vars[i] = &progVar{rs: toolbox3d.NewRectSet(), h: &hist{}}
			v = vars[i]
			c.Stat("c04.rectprog.stmt_N", 1)
			kind = "N"
		}
		if msg != "" {
			c.Emit(line(), msg)
			return
		}
		if kind != "N" {
			mutated(i, kind, before, splitsBefore)
		}
		// Solid() on the object just changed (often), on another one (sometimes)
		switch y := rng.Intn(10); {
		case y < 5:
			lastS = i
		case y < 6:
			lastS = rng.Intn(nvars)
		default:
			continue
		}
		ok = callSolid(lastS)
		if !ok {
			return
		}
		query(len(solids)-1, 3+rng.Intn(4), false)
		if len(solids) > 1 && rng.Intn(3) == 0 {
			// an earlier solid, after the statements that followed its creation
			query(rng.Intn(len(solids)-1), 2+rng.Intn(3), true)
		}
	}
	// every object once more at the end, and the earlier solids again
	for i := range vars {
		if !callSolid(i) {
			return
		}
		query(len(solids)-1, 3+rng.Intn(3), false)
	}
	for k := 0; k+nvars < len(solids); k++ {
		if rng.Intn(2) == 0 {
			query(k, 2, true)
		}
	}
	c.Emit(line(), "ok "+strings.Join(outs, " "))
	c.Stat("c04.rectprog.cases", 1)
	c.Stat(fmt.Sprintf("c04.rectprog.objects_%d", nvars), 1)
}

func minInt(a, b int) int {
	if a < b {
		return a
	}
	return b
}

// otherVar picks the argument object: usually another one, sometimes the receiver itself.
func otherVar(rng *rand.Rand, nvars, i int) int {
	if nvars == 1 || rng.Intn(8) == 0 {
		return i
	}
	j := rng.Intn(nvars - 1)
	if j >= i {
		j++
	}
	return j
}

// ---------------------------------------------------------------------------
// Shrinking a failing program (only used to make the report readable; the op
// line of the case always carries the full program).

type pstmt struct {
	kind string // a r A R N S
	i, j int
	rect *model3d.Rect
}

func (s pstmt) tok() string {
	switch s.kind {
	case "a", "r":
		return fmt.Sprintf("%s %d %s %s", s.kind, s.i, ratsOf(s.rect.MinVal.Array()), ratsOf(s.rect.MaxVal.Array()))
	case "A", "R":
		return fmt.Sprintf("%s %d %d", s.kind, s.i, s.j)
	default:
		return fmt.Sprintf("%s %d", s.kind, s.i)
	}
}

// replayFails runs the statements on fresh objects and tells whether the solid
// returned by statement number mark (an S), queried AFTER all statements, still
// disagrees at p with the rects stored at the time of that call (sem=false) or
// with "boxes added minus boxes removed" of the receiver at that time (sem=true).
func replayFails(stmts []pstmt, mark int, p [3]float64, sem bool) bool {
	res := false
	hlib.Guard(func() string {
		nv := 0
		for _, s := range stmts {
			if s.i >= nv {
				nv = s.i + 1
			}
			if s.j >= nv {
				nv = s.j + 1
			}
		}
		vars := make([]*progVar, nv)
		for i := range vars {
			vars[i] = &progVar{rs: toolbox3d.NewRectSet(), h: &hist{}}
		}
		var marked model3d.Solid
		var rects []model3d.Rect
		var h *hist
		for n, s := range stmts {
			v := vars[s.i]
			switch s.kind {
			case "a":
				v.rs.Add(s.rect)
				v.h = v.h.with(histOp{kind: "a", rect: s.rect})
			case "r":
				v.rs.Remove(s.rect)
				v.h = v.h.with(histOp{kind: "r", rect: s.rect})
			case "A":
				v.rs.AddRectSet(vars[s.j].rs)
				v.h = v.h.with(histOp{kind: "A", sub: vars[s.j].h})
			case "R":
				v.rs.RemoveRectSet(vars[s.j].rs)
				v.h = v.h.with(histOp{kind: "R", sub: vars[s.j].h})
			case "N":
				vars[s.i] = &progVar{rs: toolbox3d.NewRectSet(), h: &hist{}}
			case "S":
				sol := v.rs.Solid()
				if n == mark {
					marked = sol
					rects = toolbox3d.VerifRectSetRects(v.rs)
					h = v.h
				}
			}
		}
		if marked == nil {
			return ""
		}
		pc := model3d.NewCoord3DArray(p)
		got := marked.Contains(pc)
		if sem {
			res = got != h.sem(p)
			return ""
		}
		want := false
		for _, r := range rects {
			want = want || r.Contains(pc)
		}
		res = got != want
		return ""
	})
	return res
}

// shrunk removes statements (never the marked S) as long as the failure stays.
func shrunk(stmts []pstmt, mark int, late bool, p [3]float64, sem bool) string {
	cur := append([]pstmt{}, stmts...)
	if !late {
		cur = cur[:mark+1]
	}
	if !replayFails(cur, mark, p, sem) {
		return "(the failure does not reproduce when the program is replayed on fresh objects)"
	}
	for changed := true; changed; {
		changed = false
		for n := len(cur) - 1; n >= 0; n-- {
			if n == mark {
				continue
			}
			cand := append(append([]pstmt{}, cur[:n]...), cur[n+1:]...)
			m := mark
			if n < mark {
				m--
			}
			if replayFails(cand, m, p, sem) {
				cur, mark, changed = cand, m, true
			}
		}
	}
	var toks []string
	for n, s := range cur {
		t := s.tok()
		if n == mark {
			t += " <- this Solid() call"
		}
		toks = append(toks, t)
	}
	when := "right after the marked call"
	if late {
		when = "after the last statement"
	}
	return fmt.Sprintf("smallest failing program: [%s], Contains(%v) asked %s", strings.Join(toks, "; "), p, when)
}
