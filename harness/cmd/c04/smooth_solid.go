package main

import (
	"fmt"
	"strings"

	"verif/harness/hlib"

	"github.com/unixpickle/model3d/model2d"
	"github.com/unixpickle/model3d/model3d"
)

// ---------------------------------------------------------------------------
// Kinds `sjb` / `sjb2`: SmoothJoin / SmoothJoinV2 as SOLIDS.
//
// The operands are SDFs with their own (different) bounds on a half-integer
// lattice; the field of operand i is a harness-chosen table point -> (distance,
// normal), positive only inside the operand's bounds and at most minus the
// distance to those bounds outside them (what a signed distance of something
// that lies inside its bounds satisfies).  One solid OBJECT per operand order is asked
// at 6..12 points - inside the joint bounds, in the margin of width radius
// around them, exactly on the grown bounds and outside - first in the given
// order and then in reverse order (a solid has to be a function of the point).
// Output: V = the answers of the solid built from the operands as listed,
// P = 1 iff every other listed order and both passes gave the same answers.
// The Lean driver answers V = "inside the grown joint bounds and smoothSpec of
// the distances at that point" (smoothSolid_eq_spec) and P = 1 (smoothSolid_perm).

type sjbOperand struct {
	lo, hi [3]float64
}

type sjbCase struct {
	dim  int
	v2   bool
	r    float64
	ops  []sjbOperand
	pts  [][3]float64
	rows [][]sjOperand // rows[q][i] = what operand i reports at pts[q]
}

type fieldSDF3 struct {
	c *sjbCase
	i int
}

func (f *fieldSDF3) Min() model3d.Coord3D { return model3d.NewCoord3DArray(f.c.ops[f.i].lo) }
func (f *fieldSDF3) Max() model3d.Coord3D { return model3d.NewCoord3DArray(f.c.ops[f.i].hi) }
func (f *fieldSDF3) SDF(p model3d.Coord3D) float64 {
	return f.c.lookup(p.Array(), f.i).d
}
func (f *fieldSDF3) NormalSDF(p model3d.Coord3D) (model3d.Coord3D, float64) {
	o := f.c.lookup(p.Array(), f.i)
	return model3d.NewCoord3DArray(o.n), o.d
}

type fieldSDF2 struct {
	c *sjbCase
	i int
}

func (f *fieldSDF2) Min() model2d.Coord { return model2d.XY(f.c.ops[f.i].lo[0], f.c.ops[f.i].lo[1]) }
func (f *fieldSDF2) Max() model2d.Coord { return model2d.XY(f.c.ops[f.i].hi[0], f.c.ops[f.i].hi[1]) }
func (f *fieldSDF2) SDF(p model2d.Coord) float64 {
	return f.c.lookup([3]float64{p.X, p.Y, 0}, f.i).d
}
func (f *fieldSDF2) NormalSDF(p model2d.Coord) (model2d.Coord, float64) {
	o := f.c.lookup([3]float64{p.X, p.Y, 0}, f.i)
	return model2d.XY(o.n[0], o.n[1]), o.d
}

// lookup: the operands are only ever asked at the query point itself.
func (c *sjbCase) lookup(p [3]float64, i int) sjOperand {
	for q, pt := range c.pts {
		if pt == p {
			return c.rows[q][i]
		}
	}
	panic(fmt.Sprintf("operand %d was asked at %v, which is not a query point", i, p))
}

// solid builds the REAL smooth join of the operands in the given order.
func (c *sjbCase) solid(order []int) func(p [3]float64) bool {
	if c.dim == 3 {
		var s model3d.Solid
		if c.v2 {
			sdfs := make([]model3d.NormalSDF, len(order))
			for k, i := range order {
				sdfs[k] = &fieldSDF3{c, i}
			}
			s = model3d.SmoothJoinV2(c.r, sdfs...)
		} else {
			sdfs := make([]model3d.SDF, len(order))
			for k, i := range order {
				sdfs[k] = &fieldSDF3{c, i}
			}
			s = model3d.SmoothJoin(c.r, sdfs...)
		}
		return func(p [3]float64) bool { return s.Contains(model3d.NewCoord3DArray(p)) }
	}
	var s model2d.Solid
	if c.v2 {
		sdfs := make([]model2d.NormalSDF, len(order))
		for k, i := range order {
			sdfs[k] = &fieldSDF2{c, i}
		}
		s = model2d.SmoothJoinV2(c.r, sdfs...)
	} else {
		sdfs := make([]model2d.SDF, len(order))
		for k, i := range order {
			sdfs[k] = &fieldSDF2{c, i}
		}
		s = model2d.SmoothJoin(c.r, sdfs...)
	}
	return func(p [3]float64) bool { return s.Contains(model2d.XY(p[0], p[1])) }
}

func (o sjbOperand) l1dist(dim int, p [3]float64) float64 {
	t := 0.0
	for a := 0; a < dim; a++ {
		if p[a] < o.lo[a] {
			t += o.lo[a] - p[a]
		} else if p[a] > o.hi[a] {
			t += p[a] - o.hi[a]
		}
	}
	return t
}

func (o sjbOperand) contains(dim int, p [3]float64) bool {
	for a := 0; a < dim; a++ {
		if p[a] < o.lo[a] || p[a] > o.hi[a] {
			return false
		}
	}
	return true
}

func genSJB(c *hlib.Ctx, dim int, v2 bool) *sjbCase {
	cs := &sjbCase{dim: dim, v2: v2}
	switch c.Rng.Intn(6) {
	case 0:
		cs.r = 0
	case 1:
		cs.r = 1
	case 2:
		cs.r = float64(1+c.Rng.Intn(32)) / 16
	default:
		cs.r = float64(1+c.Rng.Intn(6)) / 4
	}
	n := 1 + c.Rng.Intn(5)
	close := c.Rng.Intn(4) != 0
	var jlo, jhi [3]float64
	for i := 0; i < n; i++ {
		var o sjbOperand
		for a := 0; a < dim; a++ {
			o.lo[a] = float64(c.Rng.Intn(9)-4) / 2
			o.hi[a] = o.lo[a] + float64(c.Rng.Intn(5))/2
			if close {
				// operands that overlap or touch: the smoothing region is where they meet
				o.lo[a] = float64(c.Rng.Intn(4)-2) / 2
				o.hi[a] = o.lo[a] + float64(1+c.Rng.Intn(4))/2
			}
			if i == 0 || o.lo[a] < jlo[a] {
				jlo[a] = o.lo[a]
			}
			if i == 0 || o.hi[a] > jhi[a] {
				jhi[a] = o.hi[a]
			}
		}
		cs.ops = append(cs.ops, o)
	}
	nq := 6 + c.Rng.Intn(7)
	for q := 0; q < nq; q++ {
		var p [3]float64
		// most points: every axis inside the grown bounds; some: one axis just outside
		outAxis := -1
		if c.Rng.Intn(4) == 0 {
			outAxis = c.Rng.Intn(dim)
		}
		home := cs.ops[c.Rng.Intn(n)]
		inHome := c.Rng.Intn(3) == 0 // a point of one operand's own bounds (corner, face, interior)
		if inHome {
			outAxis = -1
		}
		for a := 0; a < dim; a++ {
			o := cs.ops[c.Rng.Intn(n)]
			if inHome {
				o = home
			}
			cands := []float64{jlo[a], jhi[a], (jlo[a] + jhi[a]) / 2, o.lo[a], o.hi[a], (o.lo[a] + o.hi[a]) / 2,
				jlo[a] - cs.r, jhi[a] + cs.r, jlo[a] - cs.r/2, jhi[a] + cs.r/2, o.lo[a], o.hi[a],
				jlo[a] - cs.r/4, jhi[a] + cs.r/4, jlo[a] - cs.r/8, jhi[a] + cs.r/8}
			p[a] = cands[c.Rng.Intn(len(cands))]
			if inHome {
				p[a] = []float64{o.lo[a], o.hi[a], (o.lo[a] + o.hi[a]) / 2}[c.Rng.Intn(3)]
			}
			if a == outAxis {
				if c.Rng.Intn(2) == 0 {
					p[a] = jlo[a] - cs.r - float64(1+c.Rng.Intn(2))/4
				} else {
					p[a] = jhi[a] + cs.r + float64(1+c.Rng.Intn(2))/4
				}
			}
		}
		dup := false
		for _, pt := range cs.pts {
			if pt == p {
				dup = true
			}
		}
		if dup {
			continue
		}
		row := make([]sjOperand, n)
		anyPos := c.Rng.Intn(2) == 0
		for i := range row {
			var d float64
			switch c.Rng.Intn(8) {
			case 0:
				d = 0
			case 1:
				d = -cs.r
			case 2:
				d = -float64(c.Rng.Intn(64)) / 16
			default:
				d = -float64(c.Rng.Intn(int(cs.r*16)+1)) / 16
			}
			if anyPos && cs.ops[i].contains(dim, p) && c.Rng.Intn(2) == 0 {
				d = float64(1+c.Rng.Intn(8)) / 16 // positive only inside the operand's own bounds
			}
			if t := cs.ops[i].l1dist(dim, p); t > 0 {
				// outside the operand's bounds a signed distance is at most minus the
				// distance to the bounds (the L1 distance is an upper bound of it, and
				// equals it when only one axis is out): the fields stay consistent with
				// "the operand lies inside its bounds", so that pruning operands by
				// their bounds would not change any answer
				d = -t
				if c.Rng.Intn(2) == 0 {
					d -= float64(c.Rng.Intn(17)) / 16
				}
			}
			row[i].d = d
			ax := c.Rng.Intn(dim)
			row[i].n[ax] = 1
			if c.Rng.Intn(2) == 0 {
				row[i].n[ax] = -1
			}
			for j := 0; j < i; j++ {
				if v2 && row[i].d == row[j].d {
					row[i].n = row[j].n // tied distances report the same normal
				}
			}
		}
		cs.pts = append(cs.pts, p)
		cs.rows = append(cs.rows, row)
	}
	return cs
}

func runSmoothSolid(c *hlib.Ctx) {
	for k := 0; k < c.N/2+1; k++ {
		dim := 3 - k%2
		v2 := (k/2)%2 == 1
		cs := genSJB(c, dim, v2)
		n, nq := len(cs.ops), len(cs.pts)
		ident := make([]int, n)
		for i := range ident {
			ident[i] = i
		}
		orders := [][]int{}
		if n > 1 {
			rev := make([]int, n)
			for i := range rev {
				rev[i] = n - 1 - i
			}
			orders = append(orders, rev)
			for x := 0; x < 2; x++ {
				orders = append(orders, c.Rng.Perm(n))
			}
		}
		kind, name := "sjb", "SmoothJoin"
		if v2 {
			kind, name = "sjb2", "SmoothJoinV2"
		}
		var toks []string
		toks = append(toks, fmt.Sprint(dim), hlib.RatStr(cs.r), fmt.Sprint(n))
		for _, o := range cs.ops {
			for a := 0; a < dim; a++ {
				toks = append(toks, hlib.RatStr(o.lo[a]))
			}
			for a := 0; a < dim; a++ {
				toks = append(toks, hlib.RatStr(o.hi[a]))
			}
		}
		toks = append(toks, fmt.Sprint(len(orders)))
		for _, o := range orders {
			for _, i := range o {
				toks = append(toks, fmt.Sprint(i))
			}
		}
		toks = append(toks, fmt.Sprint(nq))
		for q, p := range cs.pts {
			for a := 0; a < dim; a++ {
				toks = append(toks, hlib.RatStr(p[a]))
			}
			for _, o := range cs.rows[q] {
				toks = append(toks, opStr(dim, v2, o, hlib.RatStr))
			}
		}
		line := "c04 " + kind + " " + strings.Join(toks, " ")

		var base []bool
		same := true
		var diffDesc string
		msg := hlib.Guard(func() string {
			f := cs.solid(ident)
			base = make([]bool, nq)
			for q, p := range cs.pts {
				base[q] = f(p)
			}
			// the same object again, last point first
			for q := nq - 1; q >= 0; q-- {
				if f(cs.pts[q]) != base[q] {
					same = false
					diffDesc = fmt.Sprintf("the same solid answered differently when asked again at %v", cs.pts[q][:dim])
				}
			}
			for _, o := range orders {
				g := cs.solid(o)
				for q := nq - 1; q >= 0; q-- {
					if g(cs.pts[q]) != base[q] {
						same = false
						diffDesc = fmt.Sprintf("operand order %v answers %v at %v, the listed order answers %v", o, !base[q], cs.pts[q][:dim], base[q])
					}
				}
			}
			return ""
		})
		if msg != "" {
			c.Emit(line, msg)
			continue
		}
		c.Emit(line, fmt.Sprintf("V=%s P=%s", bitsStr(base), b2s(same)))
		c.Stat("c04.smoothsolid.cases", 1)
		c.Stat("c04.smoothsolid.orders_evaluated", 1+len(orders))

		// the property's own clauses, evaluated on the implementation's answers
		desc := fmt.Sprintf("%s dim=%d case=[%s]", name, dim, line)
		if !same {
			c.PropFail("prop:c04/smooth_solid_perm/"+name, diffDesc+": "+desc)
		}
		for q, p := range cs.pts {
			plain := false
			near := 0
			for _, o := range cs.rows[q] {
				if o.d > 0 {
					plain = true
				}
				if o.d > -cs.r {
					near++
				}
			}
			inGrown, inJoint := true, true
			for a := 0; a < dim; a++ {
				lo, hi := cs.ops[0].lo[a], cs.ops[0].hi[a]
				for _, o := range cs.ops {
					if o.lo[a] < lo {
						lo = o.lo[a]
					}
					if o.hi[a] > hi {
						hi = o.hi[a]
					}
				}
				if p[a] < lo-cs.r || p[a] > hi+cs.r {
					inGrown = false
				}
				if p[a] < lo || p[a] > hi {
					inJoint = false
				}
			}
			switch {
			case !inGrown:
				c.Stat("c04.smoothsolid.query_outside_grown_bounds", 1)
			case !inJoint:
				c.Stat("c04.smoothsolid.query_in_margin", 1)
			default:
				c.Stat("c04.smoothsolid.query_in_joint_bounds", 1)
			}
			at := fmt.Sprintf(" at %v (distances %s): ", p[:dim], rowStr(dim, v2, cs.rows[q]))
			if plain {
				c.Stat("c04.smoothsolid.query_in_union", 1)
				if !base[q] {
					c.PropFail("prop:c04/smooth_solid_contains_union/"+name, "a point of the plain union is missing"+at+desc)
				}
			}
			if near < 2 {
				c.Stat("c04.smoothsolid.query_fewer_than_two_near", 1)
				if base[q] != plain {
					c.PropFail("prop:c04/smooth_solid_far/"+name, "fewer than two operands within the radius but the answer differs from the plain union"+at+desc)
				}
			} else if base[q] && !plain {
				c.Stat("c04.smoothsolid.added_point", 1)
			}
			if cs.r == 0 && base[q] != plain {
				c.PropFail("prop:c04/smooth_solid_zero_radius/"+name, "radius 0 differs from the plain union"+at+desc)
			}
			if n == 1 && base[q] != plain {
				c.PropFail("prop:c04/smooth_solid_single/"+name, "single operand differs from the operand itself"+at+desc)
			}
		}
	}
}

func rowStr(dim int, v2 bool, row []sjOperand) string {
	parts := make([]string, len(row))
	for i, o := range row {
		parts[i] = opStr(dim, v2, o, hlib.RatStr)
	}
	return strings.Join(parts, " ")
}
