package main

import (
	"fmt"
	"math"
	"strings"

	"verif/harness/hlib"

	"github.com/unixpickle/model3d/model2d"
	"github.com/unixpickle/model3d/model3d"
)

// An operand of a smooth join: the value its SDF returns at the query point and
// (V2) the normal it reports.
type sjOperand struct {
	d float64
	n [3]float64
}

type nsdf3 struct {
	o sjOperand
}

func (s *nsdf3) Min() model3d.Coord3D        { return model3d.XYZ(-1, -1, -1) }
func (s *nsdf3) Max() model3d.Coord3D        { return model3d.XYZ(1, 1, 1) }
func (s *nsdf3) SDF(model3d.Coord3D) float64 { return s.o.d }
func (s *nsdf3) NormalSDF(model3d.Coord3D) (model3d.Coord3D, float64) {
	return model3d.XYZ(s.o.n[0], s.o.n[1], s.o.n[2]), s.o.d
}

type nsdf2 struct {
	o sjOperand
}

func (s *nsdf2) Min() model2d.Coord      { return model2d.XY(-1, -1) }
func (s *nsdf2) Max() model2d.Coord      { return model2d.XY(1, 1) }
func (s *nsdf2) SDF(model2d.Coord) float64 { return s.o.d }
func (s *nsdf2) NormalSDF(model2d.Coord) (model2d.Coord, float64) {
	return model2d.XY(s.o.n[0], s.o.n[1]), s.o.d
}

// evalSmooth runs the REAL closures on the operands in the given order, at the
// origin (inside the bounds for every radius >= 0).
func evalSmooth(dim int, v2 bool, r float64, ops []sjOperand) bool {
	if dim == 3 {
		if v2 {
			sdfs := make([]model3d.NormalSDF, len(ops))
			for i, o := range ops {
				sdfs[i] = &nsdf3{o}
			}
			return model3d.SmoothJoinV2(r, sdfs...).Contains(model3d.Origin)
		}
		sdfs := make([]model3d.SDF, len(ops))
		for i, o := range ops {
			d := o.d
			sdfs[i] = model3d.FuncSDF(model3d.XYZ(-1, -1, -1), model3d.XYZ(1, 1, 1), func(model3d.Coord3D) float64 { return d })
		}
		return model3d.SmoothJoin(r, sdfs...).Contains(model3d.Origin)
	}
	if v2 {
		sdfs := make([]model2d.NormalSDF, len(ops))
		for i, o := range ops {
			sdfs[i] = &nsdf2{o}
		}
		return model2d.SmoothJoinV2(r, sdfs...).Contains(model2d.Origin)
	}
	sdfs := make([]model2d.SDF, len(ops))
	for i, o := range ops {
		d := o.d
		sdfs[i] = model2d.FuncSDF(model2d.XY(-1, -1), model2d.XY(1, 1), func(model2d.Coord) float64 { return d })
	}
	return model2d.SmoothJoin(r, sdfs...).Contains(model2d.Origin)
}

func opStr(dim int, v2 bool, o sjOperand, f func(float64) string) string {
	if !v2 {
		return f(o.d)
	}
	ns := make([]string, dim)
	for i := range ns {
		ns[i] = f(o.n[i])
	}
	return f(o.d) + ":" + strings.Join(ns, ",")
}

// genSmooth draws one operand list: dyadic distances (k/16) concentrated around
// [-r, 0], a few positive; normals are signed axis directions (so that
// 1-cos^2 is 0 or 1 and math.Sqrt is exact).
func genSmooth(c *hlib.Ctx, dim, n int, v2 bool) (float64, []sjOperand) {
	var r float64
	switch c.Rng.Intn(6) {
	case 0:
		r = 0
	case 1:
		r = 1
	default:
		r = float64(1+c.Rng.Intn(32)) / 16
	}
	ops := make([]sjOperand, n)
	allowPos := c.Rng.Intn(5) == 0
	for i := range ops {
		var d float64
		switch c.Rng.Intn(8) {
		case 0:
			d = 0
		case 1:
			d = -r
		case 2:
			d = -float64(c.Rng.Intn(64)) / 16
		default:
			// within the smoothing radius
			d = -float64(c.Rng.Intn(int(r*16)+1)) / 16
		}
		if allowPos && c.Rng.Intn(4) == 0 {
			d = float64(1+c.Rng.Intn(8)) / 16
		}
		ops[i].d = d
		ax := c.Rng.Intn(dim)
		ops[i].n[ax] = 1
		if c.Rng.Intn(2) == 0 {
			ops[i].n[ax] = -1
		}
	}
	if v2 {
		// V2 picks the normals of the two closest operands: when two operands
		// report the same distance the choice between them is only well defined
		// if they also report the same normal.
		for i := range ops {
			for j := 0; j < i; j++ {
				if ops[i].d == ops[j].d {
					ops[i].n = ops[j].n
				}
			}
		}
	}
	return r, ops
}

func runSmooth(c *hlib.Ctx) {
	total := c.N
	for k := 0; k < total; k++ {
		dim := 3 - k%2
		v2 := (k/2)%2 == 1
		n := 1 + (k/4)%6
		r, ops := genSmooth(c, dim, n, v2)
		emitSmooth(c, dim, v2, r, ops)
	}
	// the failing inputs predicted in DESIGN.md §5 (F2, F3), always included
	for _, dim := range []int{3, 2} {
		for _, v2 := range []bool{false, true} {
			mk := func(ds ...float64) []sjOperand {
				ops := make([]sjOperand, len(ds))
				for i, d := range ds {
					ops[i].d = d
					ops[i].n[i%dim] = 1
				}
				return ops
			}
			emitSmooth(c, dim, v2, 1, mk(-0.5, -0.125, -0.25))
			emitSmooth(c, dim, v2, 1, mk(-0.5))
			emitSmooth(c, dim, v2, 0.5, mk(-0.25))
			emitSmooth(c, dim, v2, 1, mk(-0.75, -0.25))
		}
	}
}

func emitSmooth(c *hlib.Ctx, dim int, v2 bool, r float64, ops []sjOperand) {
	n := len(ops)
	perms := permsIdx(n)
	results := make([]bool, len(perms))
	res := hlib.Guard(func() string {
		for pi, p := range perms {
			po := make([]sjOperand, n)
			for k, idx := range p {
				po[k] = ops[idx]
			}
			results[pi] = evalSmooth(dim, v2, r, po)
		}
		return ""
	})
	kind := "sj"
	name := "SmoothJoin"
	if v2 {
		kind = "sj2"
		name = "SmoothJoinV2"
	}
	args := make([]string, n)
	for i, o := range ops {
		args[i] = opStr(dim, v2, o, hlib.RatStr)
	}
	line := fmt.Sprintf("%d %s %s", dim, hlib.RatStr(r), strings.Join(args, " "))
	if res != "" {
		c.Emit("c04 "+kind+" "+line, res)
		return
	}
	same := allSame(results)
	c.Emit("c04 "+kind+" "+line, fmt.Sprintf("V=%s P=%s", b2s(results[0]), b2s(same)))
	c.Emit("c04 "+kind+"m "+line, bitsStr(results))
	c.Stat("c04.smooth.cases", 1)
	c.Stat(fmt.Sprintf("c04.smooth.operands_%d", n), 1)
	c.Stat("c04.smooth.permutations_evaluated", len(perms))

	// the property's own clauses, evaluated on the implementation's answers
	plain := false
	near := 0
	for _, o := range ops {
		if o.d > 0 {
			plain = true
		}
		if o.d > -r {
			near++
		}
	}
	desc := fmt.Sprintf("%s dim=%d r=%v operands=%s", name, dim, r, strings.Join(args, " "))
	if !same {
		c.PropFail("prop:c04/smooth_perm/"+name, "result depends on operand order: "+desc+" results-per-permutation="+bitsStr(results))
		c.Stat("c04.smooth.order_dependent", 1)
	}
	if n == 1 && results[0] != plain {
		c.PropFail("prop:c04/smooth_single/"+name, "single operand differs from the plain solid: "+desc)
	}
	if r == 0 {
		c.Stat("c04.smooth.radius_zero", 1)
		if results[0] != plain {
			c.PropFail("prop:c04/smooth_zero_radius/"+name, "radius 0 differs from the plain union: "+desc)
		}
	}
	if near < 2 {
		c.Stat("c04.smooth.fewer_than_two_near", 1)
		if results[0] != plain {
			c.PropFail("prop:c04/smooth_far/"+name, "fewer than two operands within the radius but result differs from the plain union: "+desc)
		}
	} else if results[0] && !plain {
		c.Stat("c04.smooth.added_point", 1)
	}
}

// runSmoothFloat: arbitrary doubles (no exactness needed): the Lean model is
// executed on IEEE doubles with the same operations in the same order.
func runSmoothFloat(c *hlib.Ctx) {
	for k := 0; k < c.N; k++ {
		dim := 3 - k%2
		v2 := (k/2)%2 == 1
		n := 1 + c.Rng.Intn(6)
		r := math.Abs(c.Rng.NormFloat64())
		if c.Rng.Intn(8) == 0 {
			r = 0
		}
		ops := make([]sjOperand, n)
		for i := range ops {
			ops[i].d = -math.Abs(c.Rng.NormFloat64()) * r * 0.7
			if c.Rng.Intn(20) == 0 {
				ops[i].d = c.Rng.Float64()
			}
			var norm float64
			for a := 0; a < dim; a++ {
				ops[i].n[a] = c.Rng.NormFloat64()
				norm += ops[i].n[a] * ops[i].n[a]
			}
			norm = math.Sqrt(norm)
			for a := 0; a < dim; a++ {
				ops[i].n[a] /= norm
			}
		}
		out := hlib.Guard(func() string { return b2s(evalSmooth(dim, v2, r, ops)) })
		args := make([]string, n)
		for i, o := range ops {
			args[i] = opStr(dim, v2, o, hlib.Hex)
		}
		kind := "sjf"
		if v2 {
			kind = "sj2f"
		}
		c.Emit(fmt.Sprintf("c04 %s %d %s %s", kind, dim, hlib.Hex(r), strings.Join(args, " ")), out)
		c.Stat("c04.smooth.float_cases", 1)
		if out == "1" {
			c.Stat("c04.smooth.float_inside", 1)
		}
	}
}
