// Command c04 drives the REAL solid combinators of model2d / model3d / toolbox3d
// (JoinedSolid, IntersectedSolid, SubtractedSolid, StackSolids, StackedSolid,
// JoinedSolid.Optimize, SolidMux, RectSet.Solid, SmoothJoin, SmoothJoinV2) on
// harness-chosen operands and writes one correspondence line per case; the
// Lean driver (lean/M3d/Drv/C04.lean) answers the same lines from the models
// the theorems of lean/M3d/Props/C04.lean are about.
package main

import (
	"fmt"
	"os"
	"strings"

	"verif/harness/hlib"

	"github.com/unixpickle/model3d/model2d"
	"github.com/unixpickle/model3d/model3d"
)

func main() { hlib.Main("C04", run) }

func run(c *hlib.Ctx) {
	if os.Getenv("C04_RS_CHILD") != "" {
		rectSetChild(c)
		return
	}
	runBool(c)
	runSmooth(c)
	runSmoothFloat(c)
	runSmoothSolid(c)
	runScenes(c)
	runTrees(c)
	runStack(c)
	runRectSet(c)
	// appended last so that the PRNG stream of the kinds above is unchanged
	runSmoothParallel(c)
	runSmoothGeom(c)
}

func b2s(b bool) string {
	if b {
		return "1"
	}
	return "0"
}

func bitsStr(bs []bool) string {
	var sb strings.Builder
	for _, b := range bs {
		sb.WriteString(b2s(b))
	}
	return sb.String()
}

// permsIdx enumerates the permutations of 0..n-1 in lexicographic order of
// positions: first element = l[i] for i ascending, then the permutations of
// the rest (the Lean driver enumerates in exactly the same order).
func permsIdx(n int) [][]int {
	l := make([]int, n)
	for i := range l {
		l[i] = i
	}
	return permsOf(l)
}

func permsOf(l []int) [][]int {
	if len(l) == 0 {
		return [][]int{{}}
	}
	var res [][]int
	for i := range l {
		rest := append(append([]int{}, l[:i]...), l[i+1:]...)
		for _, p := range permsOf(rest) {
			res = append(res, append([]int{l[i]}, p...))
		}
	}
	return res
}

func allSame(bs []bool) bool {
	for _, b := range bs {
		if b != bs[0] {
			return false
		}
	}
	return true
}

// ---------------------------------------------------------------------------
// bool: Joined / Intersected / Subtracted / nested, every permutation

// boolOps abstracts over the 2D and 3D packages: operands are FuncSolid leaves
// that answer the harness-chosen bit.
type boolOps struct {
	dim      int
	joined   func(bits []bool) bool
	inter    func(bits []bool) bool
	subtract func(a, b bool) bool
	nested   func(bits []bool) bool
}

func boolOps3() boolOps {
	leaf := func(b bool) model3d.Solid {
		return model3d.FuncSolid(model3d.XYZ(-1, -1, -1), model3d.XYZ(1, 1, 1), func(model3d.Coord3D) bool { return b })
	}
	leaves := func(bits []bool) []model3d.Solid {
		res := make([]model3d.Solid, len(bits))
		for i, b := range bits {
			res[i] = leaf(b)
		}
		return res
	}
	o := model3d.Origin
	return boolOps{
		dim:    3,
		joined: func(bits []bool) bool { return model3d.JoinedSolid(leaves(bits)).Contains(o) },
		inter:  func(bits []bool) bool { return model3d.IntersectedSolid(leaves(bits)).Contains(o) },
		subtract: func(a, b bool) bool {
			return (&model3d.SubtractedSolid{Positive: leaf(a), Negative: leaf(b)}).Contains(o)
		},
		nested: func(bits []bool) bool {
			l := leaves(bits)
			h := len(l) / 2
			return model3d.JoinedSolid{
				model3d.IntersectedSolid(l[:h]),
				&model3d.SubtractedSolid{Positive: model3d.JoinedSolid(l[h:]), Negative: l[0]},
			}.Contains(o)
		},
	}
}

func boolOps2() boolOps {
	leaf := func(b bool) model2d.Solid {
		return model2d.FuncSolid(model2d.XY(-1, -1), model2d.XY(1, 1), func(model2d.Coord) bool { return b })
	}
	leaves := func(bits []bool) []model2d.Solid {
		res := make([]model2d.Solid, len(bits))
		for i, b := range bits {
			res[i] = leaf(b)
		}
		return res
	}
	o := model2d.Origin
	return boolOps{
		dim:    2,
		joined: func(bits []bool) bool { return model2d.JoinedSolid(leaves(bits)).Contains(o) },
		inter:  func(bits []bool) bool { return model2d.IntersectedSolid(leaves(bits)).Contains(o) },
		subtract: func(a, b bool) bool {
			return (&model2d.SubtractedSolid{Positive: leaf(a), Negative: leaf(b)}).Contains(o)
		},
		nested: func(bits []bool) bool {
			l := leaves(bits)
			h := len(l) / 2
			return model2d.JoinedSolid{
				model2d.IntersectedSolid(l[:h]),
				&model2d.SubtractedSolid{Positive: model2d.JoinedSolid(l[h:]), Negative: l[0]},
			}.Contains(o)
		},
	}
}

func runBool(c *hlib.Ctx) {
	// every bit vector of length 1..6 in both packages (126 vectors x 2): exhaustive
	for _, ops := range []boolOps{boolOps3(), boolOps2()} {
		for n := 1; n <= 6; n++ {
			perms := permsIdx(n)
			for mask := 0; mask < 1<<n; mask++ {
				bits := make([]bool, n)
				for i := range bits {
					bits[i] = mask&(1<<i) != 0
				}
				out := hlib.Guard(func() string {
					j := ops.joined(bits)
					in := ops.inter(bits)
					jp, ip := true, true
					for _, p := range perms {
						pb := make([]bool, n)
						for k, idx := range p {
							pb[k] = bits[idx]
						}
						if ops.joined(pb) != j {
							jp = false
						}
						if ops.inter(pb) != in {
							ip = false
						}
					}
					s, x := "-", "-"
					if n >= 2 {
						s = b2s(ops.subtract(bits[0], bits[1]))
						x = b2s(ops.nested(bits))
					}
					return fmt.Sprintf("J=%s Jp=%s I=%s Ip=%s S=%s X=%s", b2s(j), b2s(jp), b2s(in), b2s(ip), s, x)
				})
				c.Emit(fmt.Sprintf("c04 bool %d %s", ops.dim, bitsStr(bits)), out)
				c.Stat("c04.bool.cases", 1)
				c.Stat("c04.bool.permutations_evaluated", len(perms))
			}
		}
	}
}
