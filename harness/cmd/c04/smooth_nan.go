package main

import (
	"fmt"
	"math"
	"sort"
	"strings"

	"verif/harness/hlib"

	"github.com/unixpickle/model3d/model2d"
	"github.com/unixpickle/model3d/model3d"
)

// ---------------------------------------------------------------------------
// SmoothJoinV2 where the two nearest operands report the SAME unit normal
// (concentric spheres / circles, coaxial cylinders, the same operand twice,
// anti-parallel normals).  In IEEE doubles n.Dot(n) of a normalised vector is
// 1.0000000000000002 for roughly every eighth direction, 1-cos^2 is then
// negative and the fillet radius r = radius*sqrt(1-cos^2) is NaN.  Exact
// arithmetic gives r = 0 there (no fillet: smoothV2_parallel_eq_union), and the
// closure gives the plain union for an unordered r
// (smoothV2_unordered_radius_eq_union), so no point may be added.
//
//  * runSmoothParallel: closure level (kind sj2f: the Lean closure model on the
//    same doubles), operand lists whose top two share a normal (half of the
//    normals drawn until the self-dot exceeds 1), duplicates and different
//    distances, far (fewer than two operands within the radius) and near.
//  * runSmoothGeom: the REAL shapes of model2d / model3d as operands (Sphere,
//    Circle, Rect, Capsule, Cylinder; concentric / duplicated / coaxial /
//    ordinary scenes), the real SmoothJoinV2 and SmoothJoin SOLIDS asked at
//    points of their padded bounds; the operands' (distance, normal) at the
//    point go to the Lean closure model (kinds sj2f / sjf).
//
// Both evaluate the property's own clauses on the implementation's answers
// (order independence, single operand, radius 0, fewer than two operands within
// the radius => plain union).  These clauses hold for the unchanged closure in
// IEEE arithmetic as well: sqrt(x) <= 1 for x <= 1, rounding is monotone, so the
// effective radius never exceeds `radius` (or is NaN, and then nothing is added).

// nanRadius replays, for statistics only, what the V2 closure computes from the
// two largest distances: is the fillet radius NaN?
func nanRadius(dim int, r float64, ops []sjOperand) bool {
	if len(ops) < 2 {
		return false
	}
	idx := make([]int, len(ops))
	for i := range idx {
		idx[i] = i
	}
	sort.SliceStable(idx, func(a, b int) bool { return ops[idx[a]].d > ops[idx[b]].d })
	a, b := ops[idx[0]].n, ops[idx[1]].n
	dot := a[0]*b[0] + a[1]*b[1]
	if dim == 3 {
		dot += a[2] * b[2]
	}
	cos := math.Abs(dot)
	rr := r * math.Sqrt(1-cos*cos)
	return rr != rr
}

// orders returns the operand orders a float case is evaluated in (besides the
// listed one): all permutations for up to 4 operands, otherwise the reverse
// and a few shuffles.
func orders(c *hlib.Ctx, n int) [][]int {
	if n <= 4 {
		return permsIdx(n)
	}
	id := make([]int, n)
	rev := make([]int, n)
	for i := range id {
		id[i] = i
		rev[i] = n - 1 - i
	}
	res := [][]int{id, rev}
	for k := 0; k < 4; k++ {
		res = append(res, c.Rng.Perm(n))
	}
	return res
}

// floatClauses evaluates the clauses of the property on the answers the real
// code gave for one operand list in several orders (results[0] = listed order).
func floatClauses(c *hlib.Ctx, name string, dim int, r float64, ops []sjOperand, v2 bool, results []bool, where string) {
	plain := false
	near := 0
	for _, o := range ops {
		if o.d > 0 {
			plain = true
		}
		if o.d > -r {
			near++
		}
	}
	args := make([]string, len(ops))
	for i, o := range ops {
		if v2 {
			ns := make([]string, dim)
			for a := 0; a < dim; a++ {
				ns[a] = fmt.Sprintf("%v", o.n[a])
			}
			args[i] = fmt.Sprintf("%v:(%s)", o.d, strings.Join(ns, ","))
		} else {
			args[i] = fmt.Sprintf("%v", o.d)
		}
	}
	desc := fmt.Sprintf("%s dim=%d radius=%v %soperands(distance:normal at the point)=%s", name, dim, r, where, strings.Join(args, " "))
	if !allSame(results) {
		c.PropFail("prop:c04/smooth_perm/"+name, "result depends on operand order: "+desc+" results-per-order="+bitsStr(results))
	}
	if len(ops) == 1 && results[0] != plain {
		c.PropFail("prop:c04/smooth_single/"+name, "single operand differs from the plain solid: "+desc)
	}
	if r == 0 && results[0] != plain {
		c.PropFail("prop:c04/smooth_zero_radius/"+name, "radius 0 differs from the plain union: "+desc)
	}
	if near < 2 {
		c.Stat("c04.smoothfloat.fewer_than_two_near", 1)
		if results[0] != plain {
			c.PropFail("prop:c04/smooth_far/"+name, fmt.Sprintf("fewer than two operands within the radius but the result (%v) differs from the plain union (%v): %s", results[0], plain, desc))
		}
	}
	if plain && !results[0] {
		c.PropFail("prop:c04/smooth_contains_union/"+name, "a point of an operand is missing from the smooth join: "+desc)
	}
}

func randUnit(c *hlib.Ctx, dim int) [3]float64 {
	for {
		var v [3]float64
		var norm float64
		for a := 0; a < dim; a++ {
			v[a] = c.Rng.NormFloat64()
			norm += v[a] * v[a]
		}
		norm = math.Sqrt(norm)
		if norm < 1e-3 {
			continue
		}
		// as Coord.Normalize does: Scale(1 / Norm())
		s := 1 / norm
		for a := 0; a < dim; a++ {
			v[a] *= s
		}
		return v
	}
}

func selfDot(dim int, v [3]float64) float64 {
	d := v[0]*v[0] + v[1]*v[1]
	if dim == 3 {
		d += v[2] * v[2]
	}
	return d
}

func runSmoothParallel(c *hlib.Ctx) {
	total := c.N / 2
	for k := 0; k < total; k++ {
		dim := 3 - k%2
		r := math.Abs(c.Rng.NormFloat64()) + 0.05
		if c.Rng.Intn(10) == 0 {
			r = 0
		}
		n := randUnit(c, dim)
		if (k/2)%2 == 0 {
			// a direction whose self-dot rounds above 1 (about 1 in 8 directions)
			for t := 0; t < 400 && selfDot(dim, n) <= 1; t++ {
				n = randUnit(c, dim)
			}
		}
		if selfDot(dim, n) > 1 {
			c.Stat("c04.smoothfloat.shared_normal_selfdot_above_one", 1)
		}
		nOps := 2 + c.Rng.Intn(4)
		far := c.Rng.Intn(2) == 0
		ops := make([]sjOperand, nOps)
		// the two operands with the largest distances share the normal
		var d0 float64
		if far {
			if c.Rng.Intn(2) == 0 {
				d0 = -c.Rng.Float64() * r // one operand within the radius
			} else {
				d0 = -r * (1 + math.Abs(c.Rng.NormFloat64())) - c.Rng.Float64()
			}
		} else {
			d0 = -c.Rng.Float64() * r * 0.9
		}
		d1 := d0
		dup := c.Rng.Intn(2) == 0
		if !dup {
			// concentric: a second surface further away
			d1 = d0 - c.Rng.Float64()*r*0.5 - 1e-3
		}
		if far && d1 > -r {
			d1 = -r*(1+math.Abs(c.Rng.NormFloat64())) - 1e-3
			if dup {
				d0 = d1
			}
		}
		ops[0] = sjOperand{d: d0, n: n}
		ops[1] = sjOperand{d: d1, n: n}
		if !dup && c.Rng.Intn(3) == 0 {
			// the far side of a slab: the opposite normal
			ops[1].n = [3]float64{-n[0], -n[1], -n[2]}
			if dim == 2 {
				ops[1].n[2] = 0
			}
		}
		lowest := math.Min(d0, d1)
		if far {
			lowest = math.Min(lowest, -r)
		}
		for i := 2; i < nOps; i++ {
			ops[i].d = lowest - 1e-3 - math.Abs(c.Rng.NormFloat64())
			ops[i].n = randUnit(c, dim)
			if c.Rng.Intn(3) == 0 {
				ops[i] = ops[1] // one more copy
			}
		}
		c.Rng.Shuffle(nOps, func(i, j int) { ops[i], ops[j] = ops[j], ops[i] })
		if c.Rng.Intn(25) == 0 {
			// an operand that contains the point
			ops[c.Rng.Intn(nOps)].d = c.Rng.Float64() + 1e-3
		}

		ords := orders(c, nOps)
		results := make([]bool, len(ords))
		res := hlib.Guard(func() string {
			for pi, p := range ords {
				po := make([]sjOperand, nOps)
				for q, idx := range p {
					po[q] = ops[idx]
				}
				results[pi] = evalSmooth(dim, true, r, po)
			}
			return ""
		})
		args := make([]string, nOps)
		for i, o := range ops {
			args[i] = opStr(dim, true, o, hlib.Hex)
		}
		line := fmt.Sprintf("c04 sj2f %d %s %s", dim, hlib.Hex(r), strings.Join(args, " "))
		if res != "" {
			c.Emit(line, res)
			continue
		}
		c.Emit(line, b2s(results[0]))
		c.Stat("c04.smoothfloat.parallel_cases", 1)
		if nanRadius(dim, r, ops) {
			c.Stat("c04.smoothfloat.parallel_nan_radius", 1)
			if far {
				c.Stat("c04.smoothfloat.parallel_nan_radius_far", 1)
			}
		}
		floatClauses(c, "SmoothJoinV2", dim, r, ops, true, results, "")
	}
}

// ---------------------------------------------------------------------------
// real shapes

type geomScene struct {
	dim   int
	sdfs3 []model3d.NormalSDF
	sdfs2 []model2d.NormalSDF
	descs []string
}

func (g *geomScene) len() int {
	if g.dim == 3 {
		return len(g.sdfs3)
	}
	return len(g.sdfs2)
}

func rnd(c *hlib.Ctx, span float64) float64 { return (c.Rng.Float64()*2 - 1) * span }

func (g *geomScene) addSphere(ctr [3]float64, rad float64) {
	if g.dim == 3 {
		g.sdfs3 = append(g.sdfs3, &model3d.Sphere{Center: model3d.NewCoord3DArray(ctr), Radius: rad})
		g.descs = append(g.descs, fmt.Sprintf("Sphere{%v,%v}", ctr, rad))
	} else {
		g.sdfs2 = append(g.sdfs2, &model2d.Circle{Center: model2d.XY(ctr[0], ctr[1]), Radius: rad})
		g.descs = append(g.descs, fmt.Sprintf("Circle{%v,%v}", ctr[:2], rad))
	}
}

func (g *geomScene) addRect(lo, hi [3]float64) {
	if g.dim == 3 {
		g.sdfs3 = append(g.sdfs3, model3d.NewRect(model3d.NewCoord3DArray(lo), model3d.NewCoord3DArray(hi)))
		g.descs = append(g.descs, fmt.Sprintf("Rect{%v,%v}", lo, hi))
	} else {
		g.sdfs2 = append(g.sdfs2, model2d.NewRect(model2d.XY(lo[0], lo[1]), model2d.XY(hi[0], hi[1])))
		g.descs = append(g.descs, fmt.Sprintf("Rect{%v,%v}", lo[:2], hi[:2]))
	}
}

func (g *geomScene) addCapsule(p1, p2 [3]float64, rad float64, cyl bool) {
	if g.dim == 3 {
		if cyl {
			g.sdfs3 = append(g.sdfs3, &model3d.Cylinder{P1: model3d.NewCoord3DArray(p1), P2: model3d.NewCoord3DArray(p2), Radius: rad})
			g.descs = append(g.descs, fmt.Sprintf("Cylinder{%v,%v,%v}", p1, p2, rad))
		} else {
			g.sdfs3 = append(g.sdfs3, &model3d.Capsule{P1: model3d.NewCoord3DArray(p1), P2: model3d.NewCoord3DArray(p2), Radius: rad})
			g.descs = append(g.descs, fmt.Sprintf("Capsule{%v,%v,%v}", p1, p2, rad))
		}
	} else {
		g.sdfs2 = append(g.sdfs2, &model2d.Capsule{P1: model2d.XY(p1[0], p1[1]), P2: model2d.XY(p2[0], p2[1]), Radius: rad})
		g.descs = append(g.descs, fmt.Sprintf("Capsule{%v,%v,%v}", p1[:2], p2[:2], rad))
	}
}

func (g *geomScene) dup(i int) {
	if g.dim == 3 {
		g.sdfs3 = append(g.sdfs3, g.sdfs3[i])
	} else {
		g.sdfs2 = append(g.sdfs2, g.sdfs2[i])
	}
	g.descs = append(g.descs, g.descs[i]+"(again)")
}

func (g *geomScene) addRandom(c *hlib.Ctx) {
	pt := func() [3]float64 {
		p := [3]float64{rnd(c, 2), rnd(c, 2), rnd(c, 2)}
		if g.dim == 2 {
			p[2] = 0
		}
		return p
	}
	switch c.Rng.Intn(3) {
	case 0:
		g.addSphere(pt(), 0.3+c.Rng.Float64())
	case 1:
		lo := pt()
		hi := lo
		for a := 0; a < g.dim; a++ {
			hi[a] = lo[a] + 0.3 + c.Rng.Float64()*1.5
		}
		g.addRect(lo, hi)
	default:
		g.addCapsule(pt(), pt(), 0.2+c.Rng.Float64()*0.6, c.Rng.Intn(2) == 0)
	}
}

// bounds of the smooth join: joint bounds of the operands grown by the radius.
func (g *geomScene) bounds(r float64) (lo, hi [3]float64) {
	for a := 0; a < 3; a++ {
		lo[a], hi[a] = math.Inf(1), math.Inf(-1)
	}
	for i := 0; i < g.len(); i++ {
		var mn, mx [3]float64
		if g.dim == 3 {
			mn, mx = g.sdfs3[i].Min().Array(), g.sdfs3[i].Max().Array()
		} else {
			m2, x2 := g.sdfs2[i].Min().Array(), g.sdfs2[i].Max().Array()
			mn, mx = [3]float64{m2[0], m2[1], 0}, [3]float64{x2[0], x2[1], 0}
		}
		for a := 0; a < 3; a++ {
			lo[a] = math.Min(lo[a], mn[a])
			hi[a] = math.Max(hi[a], mx[a])
		}
	}
	for a := 0; a < 3; a++ {
		lo[a] -= r
		hi[a] += r
	}
	return
}

func (g *geomScene) at(i int, p [3]float64) sjOperand {
	if g.dim == 3 {
		n, d := g.sdfs3[i].NormalSDF(model3d.NewCoord3DArray(p))
		return sjOperand{d: d, n: n.Array()}
	}
	n, d := g.sdfs2[i].NormalSDF(model2d.XY(p[0], p[1]))
	return sjOperand{d: d, n: [3]float64{n.X, n.Y, 0}}
}

// solids builds the real SmoothJoinV2 and SmoothJoin solids for one order.
func (g *geomScene) solids(r float64, order []int) (v2, v1 func(p [3]float64) bool) {
	if g.dim == 3 {
		ns := make([]model3d.NormalSDF, len(order))
		ss := make([]model3d.SDF, len(order))
		for k, i := range order {
			ns[k] = g.sdfs3[i]
			ss[k] = g.sdfs3[i]
		}
		s2 := model3d.SmoothJoinV2(r, ns...)
		s1 := model3d.SmoothJoin(r, ss...)
		return func(p [3]float64) bool { return s2.Contains(model3d.NewCoord3DArray(p)) },
			func(p [3]float64) bool { return s1.Contains(model3d.NewCoord3DArray(p)) }
	}
	ns := make([]model2d.NormalSDF, len(order))
	ss := make([]model2d.SDF, len(order))
	for k, i := range order {
		ns[k] = g.sdfs2[i]
		ss[k] = g.sdfs2[i]
	}
	s2 := model2d.SmoothJoinV2(r, ns...)
	s1 := model2d.SmoothJoin(r, ss...)
	return func(p [3]float64) bool { return s2.Contains(model2d.XY(p[0], p[1])) },
		func(p [3]float64) bool { return s1.Contains(model2d.XY(p[0], p[1])) }
}

func runSmoothGeom(c *hlib.Ctx) {
	scenes := c.N / 6
	for k := 0; k < scenes; k++ {
		g := &geomScene{dim: 3 - k%2}
		ctr := [3]float64{rnd(c, 1), rnd(c, 1), rnd(c, 1)}
		if g.dim == 2 {
			ctr[2] = 0
		}
		kind := k / 2 % 4
		switch kind {
		case 0: // concentric spheres / circles
			rad := 0.3 + c.Rng.Float64()
			g.addSphere(ctr, rad)
			g.addSphere(ctr, rad*(0.3+0.6*c.Rng.Float64()))
			if c.Rng.Intn(2) == 0 {
				g.addSphere(ctr, rad*(0.1+0.2*c.Rng.Float64()))
			}
		case 1: // the same operand twice (same object, or an equal copy)
			g.addRandom(c)
			if c.Rng.Intn(2) == 0 {
				g.dup(0)
			} else {
				rad := 0.3 + c.Rng.Float64()
				g.sdfs3, g.sdfs2, g.descs = nil, nil, nil
				g.addSphere(ctr, rad)
				g.addSphere(ctr, rad)
			}
		case 2: // coaxial cylinders / capsules
			p1 := ctr
			p2 := [3]float64{ctr[0] + rnd(c, 1.5), ctr[1] + rnd(c, 1.5), ctr[2] + rnd(c, 1.5)}
			if g.dim == 2 {
				p2[2] = 0
			}
			rad := 0.3 + c.Rng.Float64()*0.7
			cyl := c.Rng.Intn(2) == 0
			g.addCapsule(p1, p2, rad, cyl)
			g.addCapsule(p1, p2, rad*(0.3+0.6*c.Rng.Float64()), cyl)
		default: // ordinary scene: operands that meet at an angle
			g.addRandom(c)
			g.addRandom(c)
		}
		for c.Rng.Intn(3) == 0 && g.len() < 5 {
			g.addRandom(c)
		}
		n := g.len()
		r := 0.05 + c.Rng.Float64()*0.8
		if c.Rng.Intn(12) == 0 {
			r = 0
		}
		lo, hi := g.bounds(r)
		ords := orders(c, n)
		type pair struct{ v2, v1 func(p [3]float64) bool }
		built := make([]pair, len(ords))
		res := hlib.Guard(func() string {
			for i, o := range ords {
				built[i].v2, built[i].v1 = g.solids(r, o)
			}
			return ""
		})
		if res != "" {
			c.Emit(fmt.Sprintf("c04 sj2f %d %s build %s", g.dim, hlib.Hex(r), strings.Join(g.descs, ";")), res)
			continue
		}
		c.Stat("c04.smoothgeom.scenes", 1)
		nq := 8 + c.Rng.Intn(8)
		for q := 0; q < nq; q++ {
			// strictly inside the padded bounds
			var p [3]float64
			for a := 0; a < g.dim; a++ {
				u := 0.01 + 0.98*c.Rng.Float64()
				p[a] = lo[a] + (hi[a]-lo[a])*u
			}
			ops := make([]sjOperand, n)
			bad := false
			for i := range ops {
				ops[i] = g.at(i, p)
				for a := 0; a < 3; a++ {
					if ops[i].n[a] != ops[i].n[a] {
						bad = true
					}
				}
				if ops[i].d != ops[i].d {
					bad = true
				}
			}
			// operands that tie in distance with different normals: "the two nearest" is not defined
			for i := range ops {
				for j := 0; j < i; j++ {
					if ops[i].d == ops[j].d && ops[i].n != ops[j].n {
						bad = true
					}
				}
			}
			if bad {
				c.Stat("c04.smoothgeom.skipped_points", 1)
				continue
			}
			r2 := make([]bool, len(ords))
			r1 := make([]bool, len(ords))
			res := hlib.Guard(func() string {
				for i := range ords {
					r2[i] = built[i].v2(p)
					r1[i] = built[i].v1(p)
				}
				return ""
			})
			a2 := make([]string, n)
			a1 := make([]string, n)
			for i, o := range ops {
				a2[i] = opStr(g.dim, true, o, hlib.Hex)
				a1[i] = hlib.Hex(o.d)
			}
			l2 := fmt.Sprintf("c04 sj2f %d %s %s", g.dim, hlib.Hex(r), strings.Join(a2, " "))
			l1 := fmt.Sprintf("c04 sjf %d %s %s", g.dim, hlib.Hex(r), strings.Join(a1, " "))
			if res != "" {
				c.Emit(l2, res)
				continue
			}
			c.Emit(l2, b2s(r2[0]))
			c.Emit(l1, b2s(r1[0]))
			c.Stat("c04.smoothgeom.points", 1)
			if nanRadius(g.dim, r, ops) {
				c.Stat("c04.smoothgeom.nan_radius", 1)
			}
			if r2[0] {
				c.Stat("c04.smoothgeom.inside_v2", 1)
			}
			where := fmt.Sprintf("shapes=[%s] point=%v ", strings.Join(g.descs, "; "), p[:g.dim])
			floatClauses(c, "SmoothJoinV2", g.dim, r, ops, true, r2, where)
			floatClauses(c, "SmoothJoin", g.dim, r, ops, false, r1, where)
		}
	}
}
