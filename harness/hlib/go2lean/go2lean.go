// Package go2lean translates a pure numeric subset of Go (straight-line code, unrolled and folded loops) into
// Lean 4 definitions, so that part of the formal model is REGENERATED from /repo's current source
// on every check (lean/M3d/Gen/Kernels.lean) and the theorems that tie it to the hand-written
// models are re-proved by the kernel against what the code says now.
//
// The translator is typed (go/types over the real package), closed under calls (a callee that is
// not translatable makes the caller untranslatable) and conservative: anything outside the subset
// is an error, i.e. a broken tie that the check reports, never a guess.
//
// Subset:
//
//	types       float64 -> α, bool -> Bool, int -> Int, named structs / named fixed arrays whose
//	            members are in the subset -> generated `structure`s (array element i = field ei),
//	            slices and named slice types -> List, pointers to those (read, or written only
//	            through a pointer receiver: such a method becomes a function returning the new
//	            receiver value), tuples for multiple results; recursive types are rejected
//	statements  := = op= ++ -- var return if/else (early returns allowed; a continuation is
//	            duplicated into both branches, or the assigned variables are joined when neither
//	            branch jumps), `for i, x := range <fixed array>` and `for i := a; i < b; i++`
//	            with constant bounds (unrolled; break/continue become jumps to the continuation of
//	            the loop / the next iteration when there are at most 4 iterations), every other
//	            `for i, x := range <slice>` and `for i := a; i < b; i++` (b independent of the
//	            body) as the structural recursion loopFrom of GenPrelude with Loop.ret/brk/next
//	            for return/break/continue (loops.go), calls of receiver-mutating methods on a local
//	expressions + - * / unary -, comparisons, && || !, field access, constant index, variable
//	            index into arrays of length <= 4, composite literals, calls to translatable
//	            functions/methods, math.Sqrt/Abs/Min/Max, libm (class HasLibm), math.Inf / IsNaN /
//	            IsInf (class HasInf), float64 constants; on slices: len, s[i] (zero value when out
//	            of range, where Go panics), s[a:b], make, append, literals, nil, and the element
//	            store s[i] = v on locals that are provably unaliased (storableSlices in loops.go)
//
// Float `==`/`!=` become feq (¬a<b ∧ ¬b<a), the same on every non-NaN pair.
package go2lean

import (
	"fmt"
	"go/ast"
	"go/constant"
	"go/importer"
	"go/parser"
	"go/token"
	"go/types"
	"math"
	"math/big"
	"os"
	"path/filepath"
	"sort"
	"strings"
)

// Root names a function (Recv == "") or method of a package directory below the repo root.
type Root struct {
	Dir  string // e.g. "model3d"
	Recv string // e.g. "Coord3D" (pointer-ness is read off the source)
	Name string
}

func (r Root) String() string {
	if r.Recv == "" {
		return r.Dir + "." + r.Name
	}
	return r.Dir + "." + r.Recv + "." + r.Name
}

type pkgInfo struct {
	dir   string
	fset  *token.FileSet
	pkg   *types.Package
	info  *types.Info
	funcs map[string]*ast.FuncDecl // "Recv.Name" or "Name"
}

// T is one translation session.
type T struct {
	repo    string
	fset    *token.FileSet
	imp     types.Importer
	pkgs    map[string]*pkgInfo // by import path
	dirs    map[string]*pkgInfo // by dir
	status  map[string]string   // full name -> "ok" | "busy" | error text
	lean    map[string]string   // full name -> lean name
	mutates map[string]bool     // full name -> method returns updated receiver
	defs    []string            // emitted definitions, dependency order
	structs map[string]string   // lean struct name -> declaration
	sorder  []string
	lits    map[string]bool // integer literals used at type α
	libm    map[string]bool // functions that call libm directly
	calls   map[string][]string
	Errors  map[string]string
	outIdx  map[string][]int // types.Func.FullName -> positions of out-pointer parameters
	hasOuts map[string]bool  // full name -> the Lean definition returns extra Option components
}

func New(repo string) (*T, error) {
	abs, err := filepath.Abs(repo)
	if err != nil {
		return nil, err
	}
	fset := token.NewFileSet()
	return &T{repo: abs, fset: fset, imp: importer.ForCompiler(fset, "source", nil), pkgs: map[string]*pkgInfo{},
		dirs: map[string]*pkgInfo{}, status: map[string]string{}, lean: map[string]string{}, mutates: map[string]bool{},
		structs: map[string]string{}, lits: map[string]bool{"0": true, "1": true}, Errors: map[string]string{},
		libm: map[string]bool{}, calls: map[string][]string{}, outIdx: map[string][]int{}, hasOuts: map[string]bool{}}, nil
}

const modPath = "github.com/unixpickle/model3d/"

func (t *T) load(dir string) (*pkgInfo, error) {
	if p, ok := t.dirs[dir]; ok {
		return p, nil
	}
	cwd, _ := os.Getwd()
	if err := os.Chdir(t.repo); err != nil {
		return nil, err
	}
	defer os.Chdir(cwd)
	full := filepath.Join(t.repo, dir)
	parsed, err := parser.ParseDir(t.fset, full, func(fi os.FileInfo) bool {
		n := fi.Name()
		return !strings.HasSuffix(n, "_test.go") && !strings.HasPrefix(n, "verif_export")
	}, 0)
	if err != nil {
		return nil, err
	}
	for name, p := range parsed {
		if strings.HasSuffix(name, "_test") || name == "main" {
			continue
		}
		var files []*ast.File
		var names []string
		for fn := range p.Files {
			names = append(names, fn)
		}
		sort.Strings(names)
		for _, fn := range names {
			files = append(files, p.Files[fn])
		}
		info := &types.Info{Types: map[ast.Expr]types.TypeAndValue{}, Uses: map[*ast.Ident]types.Object{},
			Defs: map[*ast.Ident]types.Object{}, Selections: map[*ast.SelectorExpr]*types.Selection{}}
		var firstErr error
		conf := types.Config{Importer: t.imp, Error: func(e error) {
			if firstErr == nil {
				firstErr = e
			}
		}}
		pk, _ := conf.Check(modPath+dir, t.fset, files, info)
		if firstErr != nil {
			return nil, fmt.Errorf("type-checking %s: %v", dir, firstErr)
		}
		pi := &pkgInfo{dir: dir, fset: t.fset, pkg: pk, info: info, funcs: map[string]*ast.FuncDecl{}}
		for _, f := range files {
			for _, d := range f.Decls {
				fd, ok := d.(*ast.FuncDecl)
				if !ok || fd.Body == nil {
					continue
				}
				key := fd.Name.Name
				if fd.Recv != nil && len(fd.Recv.List) == 1 {
					key = recvTypeName(fd.Recv.List[0].Type) + "." + key
				}
				pi.funcs[key] = fd
			}
		}
		t.dirs[dir] = pi
		t.pkgs[modPath+dir] = pi
		return pi, nil
	}
	return nil, fmt.Errorf("no package in %s", dir)
}

func recvTypeName(e ast.Expr) string {
	switch e := e.(type) {
	case *ast.StarExpr:
		return recvTypeName(e.X)
	case *ast.Ident:
		return e.Name
	case *ast.IndexExpr:
		return recvTypeName(e.X)
	}
	return "?"
}

var leanKeywords = map[string]bool{"at": true, "from": true, "end": true, "in": true, "then": true, "fun": true, "do": true,
	"open": true, "by": true, "show": true, "have": true, "let": true, "if": true, "else": true, "match": true, "with": true,
	"where": true, "local": true, "def": true, "theorem": true, "instance": true, "structure": true, "class": true,
	"namespace": true, "section": true, "variable": true, "import": true, "return": true, "for": true, "mut": true,
	"Type": true, "Prop": true, "Sort": true, "using": true, "calc": true, "this": true, "deriving": true, "private": true,
	"protected": true, "partial": true, "unsafe": true, "mutual": true, "macro": true, "syntax": true, "notation": true,
	"infix": true, "prefix": true, "postfix": true, "universe": true, "export": true, "inductive": true, "abbrev": true,
	"example": true, "axiom": true, "opaque": true, "extends": true, "nomatch": true, "nofun": true, "suffices": true,
	"obtain": true, "try": true, "catch": true, "finally": true, "unless": true, "break": true, "continue": true}

// names the generated text itself uses: a Go local of the same name would shadow them
var leanReserved = map[string]bool{"List": true, "Int": true, "Nat": true, "Option": true, "Bool": true, "Sum": true, "Loop": true,
	"Unit": true, "Float": true, "Prod": true, "decide": true, "feq": true, "absS": true, "mn": true, "mx": true, "loopFrom": true,
	"some": true, "none": true, "true": false, "false": false, "HasSqrt": true, "HasInf": true, "HasLibm": true, "HasOfInt": true,
	"Arr2": true, "Arr3": true, "Arr4": true, "Arr8": true, "Arr12": true, "Arr16": true}

func ident(n string) string {
	if leanKeywords[n] || n == "α" {
		return "«" + n + "»"
	}
	if leanReserved[n] {
		return n + "_v"
	}
	if n == "_" {
		return "_"
	}
	return n
}

// ---------------------------------------------------------------- types

func (t *T) leanType(ty types.Type) (string, error) {
	ty = types.Unalias(ty)
	switch u := ty.(type) {
	case *types.Basic:
		switch u.Kind() {
		case types.Float64, types.UntypedFloat:
			return "α", nil
		case types.Bool, types.UntypedBool:
			return "Bool", nil
		case types.Int, types.UntypedInt:
			return "Int", nil
		}
		return "", fmt.Errorf("unsupported basic type %s", u)
	case *types.Pointer:
		return t.leanType(u.Elem())
	case *types.Slice:
		// read-only slices (len, index) as lists
		et, err := t.leanType(u.Elem())
		if err != nil {
			return "", err
		}
		return "(List " + et + ")", nil
	case *types.Named:
		if b, ok := u.Underlying().(*types.Basic); ok {
			// named scalar (e.g. `type dcCubeIdx int`): the scalar itself
			return t.leanType(b)
		}
		if sl, ok := u.Underlying().(*types.Slice); ok {
			// named slice type (e.g. numerical.Vec): the list itself
			return t.leanType(sl)
		}
		return t.namedType(u)
	case *types.Array:
		if u.Len() > 16 {
			return "", fmt.Errorf("array type %s too long", ty)
		}
		et, err := t.leanType(u.Elem())
		if err != nil {
			return "", err
		}
		name := fmt.Sprintf("Arr%d", u.Len())
		if _, ok := t.structs[name]; !ok {
			var fields []string
			for i := int64(0); i < u.Len(); i++ {
				fields = append(fields, fmt.Sprintf("  e%d : τ", i))
			}
			t.structs[name] = fmt.Sprintf("structure %s (τ : Type) where\n%s\n", name, strings.Join(fields, "\n"))
			t.sorder = append(t.sorder, name)
		}
		return "(" + name + " " + et + ")", nil
	case *types.Tuple:
		var parts []string
		for i := 0; i < u.Len(); i++ {
			s, err := t.leanType(u.At(i).Type())
			if err != nil {
				return "", err
			}
			parts = append(parts, s)
		}
		if len(parts) == 1 {
			return parts[0], nil
		}
		return "(" + strings.Join(parts, " × ") + ")", nil
	}
	return "", fmt.Errorf("unsupported type %s", ty)
}

func (t *T) structName(n *types.Named) string {
	p := ""
	if n.Obj().Pkg() != nil {
		p = strings.TrimPrefix(n.Obj().Pkg().Path(), modPath)
		p = strings.ReplaceAll(p, "/", "_")
	}
	return p + "." + n.Obj().Name()
}

func (t *T) namedType(n *types.Named) (string, error) {
	name := t.structName(n)
	if decl, ok := t.structs[name]; ok {
		if decl == "" {
			return "", fmt.Errorf("recursive type %s is outside the subset", name)
		}
		return "(" + name + " α)", nil
	}
	if n.Obj().Pkg() == nil || !strings.HasPrefix(n.Obj().Pkg().Path(), modPath) {
		return "", fmt.Errorf("unsupported named type %s", n)
	}
	var fields []string
	switch u := n.Underlying().(type) {
	case *types.Struct:
		t.structs[name] = "" // reserve (recursive types are not in the subset, guarded below)
		for i := 0; i < u.NumFields(); i++ {
			f := u.Field(i)
			ft, err := t.leanType(f.Type())
			if err != nil {
				delete(t.structs, name)
				return "", fmt.Errorf("%s.%s: %v", name, f.Name(), err)
			}
			fields = append(fields, fmt.Sprintf("  %s : %s", ident(f.Name()), ft))
		}
	case *types.Array:
		t.structs[name] = ""
		et, err := t.leanType(u.Elem())
		if err != nil {
			delete(t.structs, name)
			return "", err
		}
		if u.Len() > 16 {
			delete(t.structs, name)
			return "", fmt.Errorf("array %s too long", name)
		}
		for i := int64(0); i < u.Len(); i++ {
			fields = append(fields, fmt.Sprintf("  e%d : %s", i, et))
		}
	default:
		return "", fmt.Errorf("unsupported named type %s (%T)", n, n.Underlying())
	}
	decl := fmt.Sprintf("structure %s (α : Type) where\n%s\n", name, strings.Join(fields, "\n"))
	if len(fields) == 0 {
		decl = fmt.Sprintf("structure %s (α : Type) where\n", name)
	}
	t.structs[name] = decl
	t.sorder = append(t.sorder, name)
	return "(" + name + " α)", nil
}

func (t *T) zeroValue(ty types.Type) (string, error) {
	ty = types.Unalias(ty)
	switch u := ty.(type) {
	case *types.Basic:
		switch u.Kind() {
		case types.Float64:
			return "(0 : α)", nil
		case types.Bool:
			return "false", nil
		case types.Int:
			return "(0 : Int)", nil
		}
	case *types.Pointer:
		// pointers are values in the subset; nil (which Go would panic on when it is dereferenced) is the zero value
		return t.zeroValue(u.Elem())
	case *types.Slice:
		lt, err := t.leanType(u)
		if err != nil {
			return "", err
		}
		return "([] : " + lt + ")", nil
	case *types.Named:
		if b, ok := u.Underlying().(*types.Basic); ok {
			return t.zeroValue(b)
		}
		if sl, ok := u.Underlying().(*types.Slice); ok {
			return t.zeroValue(sl)
		}
		lt, err := t.namedType(u)
		if err != nil {
			return "", err
		}
		var parts []string
		switch s := u.Underlying().(type) {
		case *types.Struct:
			for i := 0; i < s.NumFields(); i++ {
				z, err := t.zeroValue(s.Field(i).Type())
				if err != nil {
					return "", err
				}
				parts = append(parts, fmt.Sprintf("%s := %s", ident(s.Field(i).Name()), z))
			}
		case *types.Array:
			z, err := t.zeroValue(s.Elem())
			if err != nil {
				return "", err
			}
			for i := int64(0); i < s.Len(); i++ {
				parts = append(parts, fmt.Sprintf("e%d := %s", i, z))
			}
		}
		return "({ " + strings.Join(parts, ", ") + " } : " + lt + ")", nil
	}
	if a, ok := ty.(*types.Array); ok {
		lt, err := t.leanType(a)
		if err != nil {
			return "", err
		}
		z, err := t.zeroValue(a.Elem())
		if err != nil {
			return "", err
		}
		var parts []string
		for i := int64(0); i < a.Len(); i++ {
			parts = append(parts, fmt.Sprintf("e%d := %s", i, z))
		}
		return "({ " + strings.Join(parts, ", ") + " } : " + lt + ")", nil
	}
	return "", fmt.Errorf("no zero value for %s", ty)
}

// ---------------------------------------------------------------- functions

func fullName(dir, recv, name string) string {
	if recv == "" {
		return dir + "." + name
	}
	return dir + "." + recv + "." + name
}

// Translate translates a root and everything it calls; the error (if any) is also kept in t.Errors.
func (t *T) Translate(r Root) error {
	_, err := t.ensure(r.Dir, r.Recv, r.Name)
	if err != nil {
		t.Errors[r.String()] = err.Error()
	}
	return err
}

// excluded: functions named in $VERIF_XLATE_EXCLUDE (comma separated full names) are treated as outside the
// subset.  The check sets it when a generated definition does not elaborate (a translator limitation met on
// the current source): the definition and everything that calls it are then left out, so that only the tie
// theorems that need them break instead of the whole generated module.
func excluded(fn string) bool {
	for _, e := range strings.Split(os.Getenv("VERIF_XLATE_EXCLUDE"), ",") {
		if e != "" && e == fn {
			return true
		}
	}
	return false
}

func (t *T) ensure(dir, recv, name string) (string, error) {
	fn := fullName(dir, recv, name)
	if excluded(fn) {
		err := fmt.Errorf("%s: excluded - its generated definition did not elaborate (translator limitation)", fn)
		t.status[fn] = err.Error()
		return "", err
	}
	switch st := t.status[fn]; st {
	case "ok":
		return t.lean[fn], nil
	case "busy":
		return "", fmt.Errorf("%s: recursion is outside the subset", fn)
	case "":
	default:
		return "", fmt.Errorf("%s", st)
	}
	t.status[fn] = "busy"
	pi, err := t.load(dir)
	if err == nil {
		key := name
		if recv != "" {
			key = recv + "." + name
		}
		fd, ok := pi.funcs[key]
		if !ok {
			err = fmt.Errorf("%s: not found", fn)
		} else {
			// translate into scratch state so that a failure leaves nothing half-emitted
			var def string
			def, err = t.function(pi, fd, fn)
			if err == nil {
				t.defs = append(t.defs, def)
			}
		}
	}
	if err != nil {
		if !strings.HasPrefix(err.Error(), fn+":") {
			err = fmt.Errorf("%s: %v", fn, err)
		}
		t.status[fn] = err.Error()
		return "", err
	}
	t.status[fn] = "ok"
	return t.lean[fn], nil
}

type fnCtx struct {
	t        *T
	pi       *pkgInfo
	fn       string
	scope    map[string]types.Type // Go local name -> type (flat; shadowing is rejected)
	consts   map[string]int64      // unrolled loop variables
	recvName string
	recvPtr  bool
	mutating bool
	results  *types.Tuple
	depth    int
	synth    map[*ast.Ident]types.Type // identifiers introduced by loop unrolling (no go/types entry)
	resT     string                    // Lean type of the function's result (ρ of every loop)
	retWrap  func(string) string       // how `return v` is rendered here (inside a loop body: Loop.ret v)
	loopPat  []string                  // state tuples of the enclosing folded loops ("" = an unrolled loop), innermost last
	loopK    []loopConts               // for unrolled loops: what continue / break run next
	storable map[string]bool           // local slices that are provably unaliased (element stores allowed)
	body     *ast.BlockStmt
	outParam map[string]bool // out-pointer parameters (Option-valued)
	outOrder []string
	freshPtr map[string]bool // local pointers to fresh composite literals, never copied
}

type loopConts struct{ cont, brk func() (string, error) }

func (fx *fnCtx) ret(v string) string {
	if fx.retWrap != nil {
		return fx.retWrap(v)
	}
	return v
}

// receiverMutated reports whether the body writes through the pointer receiver.
func receiverMutated(pi *pkgInfo, fd *ast.FuncDecl, t *T) bool {
	if fd.Recv == nil || len(fd.Recv.List) != 1 || len(fd.Recv.List[0].Names) != 1 {
		return false
	}
	if _, ok := fd.Recv.List[0].Type.(*ast.StarExpr); !ok {
		return false
	}
	rn := fd.Recv.List[0].Names[0].Name
	found := false
	isRecv := func(e ast.Expr) bool {
		for {
			switch x := e.(type) {
			case *ast.ParenExpr:
				e = x.X
				continue
			case *ast.StarExpr:
				e = x.X
				continue
			case *ast.IndexExpr:
				e = x.X
				continue
			case *ast.SelectorExpr:
				e = x.X
				continue
			case *ast.Ident:
				return x.Name == rn
			}
			return false
		}
	}
	ast.Inspect(fd.Body, func(n ast.Node) bool {
		switch s := n.(type) {
		case *ast.AssignStmt:
			for _, l := range s.Lhs {
				if _, plain := l.(*ast.Ident); !plain && isRecv(l) {
					found = true
				}
			}
		case *ast.IncDecStmt:
			if _, plain := s.X.(*ast.Ident); !plain && isRecv(s.X) {
				found = true
			}
		case *ast.ExprStmt:
			if call, ok := s.X.(*ast.CallExpr); ok {
				if sel, ok := call.Fun.(*ast.SelectorExpr); ok {
					if id, ok := sel.X.(*ast.Ident); ok && id.Name == rn {
						if f, ok := pi.info.Uses[sel.Sel].(*types.Func); ok {
							if sig := f.Type().(*types.Signature); sig.Results().Len() == 0 && sig.Recv() != nil {
								if _, isPtr := sig.Recv().Type().(*types.Pointer); isPtr {
									found = true
								}
							}
						}
					}
				}
			}
		}
		return true
	})
	return found
}

// uniquify renames the local variables of fd (in place) so that distinct objects have distinct
// names: Go shadowing (`min := min.Array()[axis]`) then needs no special treatment downstream.
func uniquify(pi *pkgInfo, fd *ast.FuncDecl) {
	taken := map[string]types.Object{}
	rename := map[types.Object]string{}
	var order []*ast.Ident
	ast.Inspect(fd, func(n ast.Node) bool {
		if id, ok := n.(*ast.Ident); ok {
			order = append(order, id)
		}
		return true
	})
	for _, id := range order {
		obj := pi.info.Defs[id]
		v, ok := obj.(*types.Var)
		if !ok || v.IsField() || id.Name == "_" {
			continue
		}
		if _, done := rename[obj]; done {
			continue
		}
		name := id.Name
		if prev, clash := taken[name]; clash && prev != obj {
			for i := 1; ; i++ {
				cand := fmt.Sprintf("%s_%d", id.Name, i)
				if _, c := taken[cand]; !c {
					name = cand
					break
				}
			}
		}
		taken[name] = obj
		rename[obj] = name
	}
	for _, id := range order {
		if obj := pi.info.Defs[id]; obj != nil {
			if nn, ok := rename[obj]; ok {
				id.Name = nn
			}
		} else if obj := pi.info.Uses[id]; obj != nil {
			if nn, ok := rename[obj]; ok {
				id.Name = nn
			}
		}
	}
}

func (t *T) function(pi *pkgInfo, fd *ast.FuncDecl, fn string) (string, error) {
	uniquify(pi, fd)
	obj, _ := pi.info.Defs[fd.Name].(*types.Func)
	if obj == nil {
		return "", fmt.Errorf("no type information")
	}
	sig := obj.Type().(*types.Signature)
	if sig.TypeParams() != nil || sig.Variadic() {
		return "", fmt.Errorf("generic/variadic functions are outside the subset")
	}
	fx := &fnCtx{t: t, pi: pi, fn: fn, scope: map[string]types.Type{}, consts: map[string]int64{}, results: sig.Results()}
	var params []string
	leanName := ""
	if sig.Recv() != nil {
		rt := sig.Recv().Type()
		if p, ok := rt.(*types.Pointer); ok {
			fx.recvPtr = true
			rt = p.Elem()
		}
		named, ok := types.Unalias(rt).(*types.Named)
		if !ok {
			return "", fmt.Errorf("unsupported receiver")
		}
		lt, err := t.leanType(named)
		if err != nil {
			return "", err
		}
		rn := "_recv"
		if len(fd.Recv.List[0].Names) == 1 {
			rn = fd.Recv.List[0].Names[0].Name
		}
		fx.recvName = rn
		fx.scope[rn] = sig.Recv().Type()
		params = append(params, fmt.Sprintf("(%s : %s)", ident(rn), lt))
		leanName = t.structName(named) + "_" + fd.Name.Name
		fx.mutating = fx.recvPtr && receiverMutated(pi, fd, t)
	} else {
		leanName = pi.dir + "." + fd.Name.Name
		leanName = strings.ReplaceAll(leanName, "/", "_")
	}
	if fx.mutating && sig.Results().Len() != 0 {
		return "", fmt.Errorf("receiver-mutating method with results is outside the subset")
	}
	t.lean[fn] = leanName
	t.mutates[fn] = fx.mutating
	outSet := map[int]bool{}
	for _, i := range t.outParamIdx(obj) {
		outSet[i] = true
	}
	fx.outParam = map[string]bool{}
	var outTypes []string
	if fx.mutating && len(outSet) > 0 {
		return "", fmt.Errorf("receiver-mutating method with out-pointer parameters is outside the subset")
	}
	for i := 0; i < sig.Params().Len(); i++ {
		p := sig.Params().At(i)
		lt, err := t.leanType(p.Type())
		if err != nil {
			return "", fmt.Errorf("parameter %s: %v", p.Name(), err)
		}
		if outSet[i] {
			lt = "(Option " + lt + ")"
			outTypes = append(outTypes, lt)
		}
		if _, isPtr := types.Unalias(p.Type()).(*types.Pointer); isPtr {
			// pointer parameters are read-only in the subset; writes through them are rejected in assign()
		}
		nm := p.Name()
		if astNames := paramNames(fd); i < len(astNames) && astNames[i] != "" {
			nm = astNames[i]
		}
		if nm == "" || nm == "_" {
			nm = fmt.Sprintf("_p%d", i)
		}
		if _, dup := fx.scope[nm]; dup {
			return "", fmt.Errorf("duplicate parameter name")
		}
		fx.scope[nm] = p.Type()
		if outSet[i] {
			fx.outParam[nm] = true
			fx.outOrder = append(fx.outOrder, nm)
		}
		params = append(params, fmt.Sprintf("(%s : %s)", ident(nm), lt))
	}
	var resT string
	var err error
	if fx.mutating {
		resT, err = t.leanType(sig.Recv().Type())
	} else if sig.Results().Len() == 0 {
		if len(outTypes) == 0 {
			return "", fmt.Errorf("function without results is outside the subset")
		}
	} else {
		resT, err = t.leanType(sig.Results())
	}
	if err != nil {
		return "", fmt.Errorf("result: %v", err)
	}
	if len(outTypes) > 0 {
		parts := outTypes
		if resT != "" {
			parts = append([]string{resT}, outTypes...)
		}
		resT = strings.Join(parts, " × ")
		if len(parts) > 1 {
			resT = "(" + resT + ")"
		}
		t.hasOuts[fn] = true
	}
	fx.resT = resT
	fx.body = fd.Body
	fx.storable = storableSlices(pi, fd)
	fx.freshPtr = freshPtrLocals(pi, fd)
	// named results are locals initialised to zero
	pre := ""
	var namedResults []string
	for i := 0; i < sig.Results().Len(); i++ {
		r := sig.Results().At(i)
		if r.Name() != "" && r.Name() != "_" {
			z, err := t.zeroValue(r.Type())
			if err != nil {
				return "", err
			}
			fx.scope[r.Name()] = r.Type()
			pre += fmt.Sprintf("  let %s := %s\n", ident(r.Name()), z)
			namedResults = append(namedResults, ident(r.Name()))
		}
	}
	fallOff := func() (string, error) {
		if fx.mutating {
			return ident(fx.recvName), nil
		}
		if fx.results.Len() == 0 && len(fx.outOrder) > 0 {
			return fx.withOuts("", false), nil
		}
		return "", fmt.Errorf("control reaches the end of the function")
	}
	_ = namedResults
	body, err := fx.block(fd.Body.List, fallOff)
	if err != nil {
		return "", err
	}
	pos := t.fset.Position(fd.Pos())
	rel, _ := filepath.Rel(t.repo, pos.Filename)
	doc := fmt.Sprintf("/-- `%s` (%s) -/\n", fn, rel)
	return fmt.Sprintf("%sdef %s %s : %s :=\n%s%s\n", doc, leanName, strings.Join(params, " "), resT, pre, indent(body, "  ")), nil
}

func paramNames(fd *ast.FuncDecl) []string {
	var out []string
	for _, f := range fd.Type.Params.List {
		if len(f.Names) == 0 {
			out = append(out, "")
		}
		for _, n := range f.Names {
			out = append(out, n.Name)
		}
	}
	return out
}

func indent(s, pre string) string {
	lines := strings.Split(s, "\n")
	for i, l := range lines {
		if l != "" {
			lines[i] = pre + l
		}
	}
	return strings.Join(lines, "\n")
}

// ---------------------------------------------------------------- statements

func containsReturn(n ast.Node) bool {
	found := false
	ast.Inspect(n, func(m ast.Node) bool {
		switch m.(type) {
		case *ast.ReturnStmt, *ast.BranchStmt:
			found = true
		case *ast.FuncLit:
			return false
		}
		return !found
	})
	return found
}

// assignedOuter lists (sorted) the variables already in scope that the statements assign to.
func (fx *fnCtx) assignedOuter(stmts []ast.Stmt) ([]string, error) {
	set := map[string]bool{}
	var err error
	base := func(e ast.Expr) string {
		for {
			switch x := e.(type) {
			case *ast.ParenExpr:
				e = x.X
			case *ast.StarExpr:
				e = x.X
			case *ast.IndexExpr:
				e = x.X
			case *ast.SelectorExpr:
				e = x.X
			case *ast.Ident:
				return x.Name
			default:
				return ""
			}
		}
	}
	for _, s := range stmts {
		ast.Inspect(s, func(n ast.Node) bool {
			switch a := n.(type) {
			case *ast.AssignStmt:
				for _, l := range a.Lhs {
					b := base(l)
					if b == "" {
						err = fmt.Errorf("unsupported assignment target")
					}
					if _, ok := fx.scope[b]; ok {
						if a.Tok == token.DEFINE {
							if id, isId := l.(*ast.Ident); isId && id.Name != "_" {
								// `:=` that redeclares an outer name inside a nested block
								if fx.pi.info.Defs[id] != nil {
									err = fmt.Errorf("shadowing of %s is outside the subset", b)
								}
							}
						}
						set[b] = true
					}
				}
			case *ast.IncDecStmt:
				if b := base(a.X); b != "" {
					if _, ok := fx.scope[b]; ok {
						set[b] = true
					}
				}
			case *ast.ExprStmt:
				if call, ok := a.X.(*ast.CallExpr); ok {
					if sel, ok := call.Fun.(*ast.SelectorExpr); ok {
						if b := base(sel.X); b != "" {
							if _, ok := fx.scope[b]; ok {
								set[b] = true // conservatively: a method call statement may update its receiver
							}
						}
					}
				}
			case *ast.FuncLit:
				return false
			}
			return true
		})
	}
	var out []string
	for k := range set {
		out = append(out, k)
	}
	sort.Strings(out)
	return out, err
}

func (fx *fnCtx) block(stmts []ast.Stmt, k func() (string, error)) (string, error) {
	if len(stmts) == 0 {
		return k()
	}
	s := stmts[0]
	rest := func() (string, error) { return fx.block(stmts[1:], k) }
	switch s := s.(type) {
	case *ast.ReturnStmt:
		if fx.mutating {
			if len(s.Results) != 0 {
				return "", fmt.Errorf("return with values in a mutating method")
			}
			return fx.ret(ident(fx.recvName)), nil
		}
		if len(s.Results) == 0 && fx.results.Len() == 0 && len(fx.outOrder) > 0 {
			return fx.ret(fx.withOuts("", false)), nil
		}
		if len(s.Results) == 0 {
			// naked return with named results
			var parts []string
			for i := 0; i < fx.results.Len(); i++ {
				n := fx.results.At(i).Name()
				if n == "" {
					return "", fmt.Errorf("naked return without named results")
				}
				parts = append(parts, ident(n))
			}
			return fx.ret(fx.withOuts(tuple(parts), true)), nil
		}
		var parts []string
		for i, r := range s.Results {
			var want types.Type
			if len(s.Results) == fx.results.Len() {
				want = fx.results.At(i).Type()
			}
			e, err := fx.exprAs(r, want)
			if err != nil {
				return "", err
			}
			parts = append(parts, e)
		}
		return fx.ret(fx.withOuts(tuple(parts), true)), nil
	case *ast.BranchStmt:
		if s.Label != nil || len(fx.loopPat) == 0 {
			return "", fmt.Errorf("%s outside a folded loop (or labelled) is outside the subset", s.Tok)
		}
		if fx.loopPat[len(fx.loopPat)-1] == "" {
			// unrolled loop: jump to the next iteration / past the loop
			lk := fx.loopK[len(fx.loopK)-1]
			switch s.Tok {
			case token.CONTINUE:
				return lk.cont()
			case token.BREAK:
				return lk.brk()
			}
			return "", fmt.Errorf("%s is outside the subset", s.Tok)
		}
		switch s.Tok {
		case token.CONTINUE:
			return "(Loop.next " + fx.loopPat[len(fx.loopPat)-1] + ")", nil
		case token.BREAK:
			return "(Loop.brk " + fx.loopPat[len(fx.loopPat)-1] + ")", nil
		}
		return "", fmt.Errorf("%s is outside the subset", s.Tok)
	case *ast.AssignStmt:
		line, err := fx.assign(s)
		if err != nil {
			return "", err
		}
		r, err := rest()
		if err != nil {
			return "", err
		}
		return line + "\n" + r, nil
	case *ast.IncDecStmt:
		op := token.ADD_ASSIGN
		if s.Tok == token.DEC {
			op = token.SUB_ASSIGN
		}
		line, err := fx.assign(&ast.AssignStmt{Lhs: []ast.Expr{s.X}, Tok: op, Rhs: []ast.Expr{&ast.BasicLit{Kind: token.INT, Value: "1"}}})
		if err != nil {
			return "", err
		}
		r, err := rest()
		if err != nil {
			return "", err
		}
		return line + "\n" + r, nil
	case *ast.DeclStmt:
		gd, ok := s.Decl.(*ast.GenDecl)
		if !ok || gd.Tok != token.VAR {
			return "", fmt.Errorf("unsupported declaration")
		}
		var lines []string
		for _, sp := range gd.Specs {
			vs := sp.(*ast.ValueSpec)
			for i, n := range vs.Names {
				obj := fx.pi.info.Defs[n]
				if obj == nil {
					return "", fmt.Errorf("no type for %s", n.Name)
				}
				if _, dup := fx.scope[n.Name]; dup {
					return "", fmt.Errorf("shadowing of %s is outside the subset", n.Name)
				}
				var val string
				var err error
				if i < len(vs.Values) {
					val, err = fx.exprAs(vs.Values[i], obj.Type())
				} else {
					val, err = fx.t.zeroValue(obj.Type())
				}
				if err != nil {
					return "", err
				}
				lt, err := fx.t.leanType(obj.Type())
				if err != nil {
					return "", err
				}
				fx.scope[n.Name] = obj.Type()
				lines = append(lines, fmt.Sprintf("let %s : %s := %s", ident(n.Name), lt, val))
			}
		}
		r, err := rest()
		if err != nil {
			return "", err
		}
		return strings.Join(lines, "\n") + "\n" + r, nil
	case *ast.ExprStmt:
		// only: local.MutatingMethod(args)
		call, ok := s.X.(*ast.CallExpr)
		if !ok {
			return "", fmt.Errorf("unsupported expression statement")
		}
		if callee, _ := fx.calleeOf(call); callee != nil && callee.Pkg() != nil && hasPrefix(callee.Pkg().Path()) && len(fx.t.outParamIdx(callee)) > 0 {
			pat := ""
			if callee.Type().(*types.Signature).Results().Len() > 0 {
				pat = "_"
			}
			line, _, err := fx.outCall(call, pat)
			if err != nil {
				return "", err
			}
			r, err := rest()
			if err != nil {
				return "", err
			}
			return line + "\n" + r, nil
		}
		sel, ok := call.Fun.(*ast.SelectorExpr)
		if !ok {
			return "", fmt.Errorf("unsupported call statement")
		}
		id, ok := sel.X.(*ast.Ident)
		if !ok {
			return "", fmt.Errorf("unsupported call statement receiver")
		}
		if _, inScope := fx.scope[id.Name]; !inScope {
			return "", fmt.Errorf("call statement on non-local %s", id.Name)
		}
		callee, ok := fx.pi.info.Uses[sel.Sel].(*types.Func)
		if !ok {
			return "", fmt.Errorf("unsupported call statement")
		}
		ln, mut, err := fx.ensureCallee(callee)
		if err != nil {
			return "", err
		}
		if !mut {
			return "", fmt.Errorf("call statement of a non-mutating method %s", callee.Name())
		}
		if id.Name != fx.recvName || !fx.mutating {
			// must be a local value (addressable variable), not a pointer parameter
			if _, isPtr := types.Unalias(fx.scope[id.Name]).(*types.Pointer); isPtr && id.Name != fx.recvName && !fx.freshPtr[id.Name] {
				return "", fmt.Errorf("mutation through pointer parameter %s", id.Name)
			}
		}
		args, err := fx.callArgs(callee, call.Args)
		if err != nil {
			return "", err
		}
		line := fmt.Sprintf("let %s := %s %s%s", ident(id.Name), ln, ident(id.Name), args)
		r, err := rest()
		if err != nil {
			return "", err
		}
		return line + "\n" + r, nil
	case *ast.IfStmt:
		return fx.ifStmt(s, rest)
	case *ast.BlockStmt:
		// nested block: variables declared inside must not leak names already used
		return fx.block(append(append([]ast.Stmt{}, s.List...), stmts[1:]...), k)
	case *ast.RangeStmt:
		un, err := fx.unrollRange(s)
		if err != nil {
			if out, err2 := fx.foldRange(s, rest); err2 == nil {
				return out, nil
			} else if !strings.Contains(err2.Error(), "not a foldable loop") {
				return "", err2
			}
			return "", err
		}
		if jumps(s.Body) && len(un) > 4 {
			return fx.foldRange(s, rest)
		}
		return fx.unrolled(un, rest)
	case *ast.ForStmt:
		un, err := fx.unrollFor(s)
		if err != nil {
			if out, err2 := fx.foldFor(s, rest); err2 == nil {
				return out, nil
			} else if !strings.Contains(err2.Error(), "not a foldable loop") {
				return "", err2
			}
			return "", err
		}
		if jumps(s.Body) && len(un) > 4 {
			return fx.foldFor(s, rest)
		}
		return fx.unrolled(un, rest)
	}
	return "", fmt.Errorf("unsupported statement %T", s)
}

func tuple(parts []string) string {
	if len(parts) == 1 {
		return parts[0]
	}
	return "(" + strings.Join(parts, ", ") + ")"
}

type unrollStep struct {
	consts map[string]int64
	pre    []ast.Stmt
	body   []ast.Stmt
}

func (fx *fnCtx) unrolled(steps []unrollStep, rest func() (string, error)) (string, error) {
	if len(steps) == 0 {
		return rest()
	}
	st := steps[0]
	saved := map[string]int64{}
	for k, v := range fx.consts {
		saved[k] = v
	}
	for k, v := range st.consts {
		fx.consts[k] = v
	}
	// loop-body locals are re-declared on every iteration: forget them afterwards
	before := map[string]types.Type{}
	for k, v := range fx.scope {
		before[k] = v
	}
	// the loop context as it is here; a continuation first puts it back (it may run from deep inside the body,
	// also from inside inner loops, whose own contexts are then dropped - exactly what the jump does)
	depthPat, depthK := len(fx.loopPat), len(fx.loopK)
	wrap := fx.retWrap
	leave := func() {
		fx.consts = saved
		fx.scope = map[string]types.Type{}
		for k, v := range before {
			fx.scope[k] = v
		}
		fx.loopPat = fx.loopPat[:depthPat]
		fx.loopK = fx.loopK[:depthK]
		fx.retWrap = wrap
	}
	next := func() (string, error) {
		leave()
		return fx.unrolled(steps[1:], rest)
	}
	after := func() (string, error) {
		leave()
		return rest()
	}
	fx.loopPat = append(fx.loopPat, "")
	fx.loopK = append(fx.loopK, loopConts{cont: next, brk: after})
	out, err := fx.block(append(append([]ast.Stmt{}, st.pre...), st.body...), next)
	return out, err
}

func (fx *fnCtx) constInt(e ast.Expr) (int64, bool) {
	if tv, ok := fx.pi.info.Types[e]; ok && tv.Value != nil {
		if v, ok := constant.Int64Val(constant.ToInt(tv.Value)); ok {
			return v, true
		}
	}
	switch x := e.(type) {
	case *ast.ParenExpr:
		return fx.constInt(x.X)
	case *ast.BasicLit:
		if x.Kind == token.INT {
			var v int64
			if _, err := fmt.Sscan(x.Value, &v); err == nil {
				return v, true
			}
		}
		return 0, false
	case *ast.Ident:
		v, ok := fx.consts[x.Name]
		return v, ok
	case *ast.BinaryExpr:
		a, ok1 := fx.constInt(x.X)
		b, ok2 := fx.constInt(x.Y)
		if ok1 && ok2 {
			switch x.Op {
			case token.ADD:
				return a + b, true
			case token.SUB:
				return a - b, true
			case token.MUL:
				return a * b, true
			case token.QUO:
				if b != 0 {
					return a / b, true
				}
			case token.REM:
				if b != 0 {
					return a % b, true
				}
			}
		}
	}
	return 0, false
}

func (fx *fnCtx) arrayLen(ty types.Type) (int64, bool) {
	ty = types.Unalias(ty)
	if p, ok := ty.(*types.Pointer); ok {
		ty = types.Unalias(p.Elem())
	}
	if a, ok := ty.Underlying().(*types.Array); ok {
		return a.Len(), true
	}
	return 0, false
}

func (fx *fnCtx) unrollRange(s *ast.RangeStmt) ([]unrollStep, error) {
	tv, ok := fx.pi.info.Types[s.X]
	if !ok {
		return nil, fmt.Errorf("range: no type")
	}
	if cl, isLit := s.X.(*ast.CompositeLit); isLit {
		if sl, isSlice := types.Unalias(tv.Type).Underlying().(*types.Slice); isSlice && len(cl.Elts) <= 16 {
			// `for i, x := range []T{a, b, …}`: unrolled over the literal's elements
			if s.Tok != token.DEFINE && (s.Key != nil || s.Value != nil) {
				return nil, fmt.Errorf("range with = is outside the subset")
			}
			var steps []unrollStep
			for i, el := range cl.Elts {
				if _, kv := el.(*ast.KeyValueExpr); kv {
					return nil, fmt.Errorf("keyed slice literal in range")
				}
				st := unrollStep{consts: map[string]int64{}, body: s.Body.List}
				if id, ok := s.Key.(*ast.Ident); ok && id.Name != "_" {
					st.consts[id.Name] = int64(i)
				}
				if id, ok := s.Value.(*ast.Ident); ok && id.Name != "_" {
					nid := ast.NewIdent(id.Name)
					if fx.synth == nil {
						fx.synth = map[*ast.Ident]types.Type{}
					}
					fx.synth[nid] = sl.Elem()
					st.pre = append(st.pre, &ast.AssignStmt{Lhs: []ast.Expr{nid}, Tok: token.DEFINE, Rhs: []ast.Expr{el}})
				}
				steps = append(steps, st)
			}
			return steps, nil
		}
	}
	n, ok := fx.arrayLen(tv.Type)
	if !ok {
		return nil, fmt.Errorf("range over %s is outside the subset", tv.Type)
	}
	if s.Tok != token.DEFINE && (s.Key != nil || s.Value != nil) {
		return nil, fmt.Errorf("range with = is outside the subset")
	}
	var steps []unrollStep
	for i := int64(0); i < n; i++ {
		st := unrollStep{consts: map[string]int64{}, body: s.Body.List}
		if id, ok := s.Key.(*ast.Ident); ok && id.Name != "_" {
			st.consts[id.Name] = i
		}
		if id, ok := s.Value.(*ast.Ident); ok && id.Name != "_" {
			nid := ast.NewIdent(id.Name)
			if fx.synth == nil {
				fx.synth = map[*ast.Ident]types.Type{}
			}
			if obj := fx.pi.info.Defs[id]; obj != nil {
				fx.synth[nid] = obj.Type()
			}
			st.pre = append(st.pre, &ast.AssignStmt{Lhs: []ast.Expr{nid}, Tok: token.DEFINE,
				Rhs: []ast.Expr{&ast.IndexExpr{X: s.X, Index: &ast.BasicLit{Kind: token.INT, Value: fmt.Sprint(i)}}}})
		}
		steps = append(steps, st)
	}
	return steps, nil
}

func (fx *fnCtx) unrollFor(s *ast.ForStmt) ([]unrollStep, error) {
	init, ok := s.Init.(*ast.AssignStmt)
	if !ok || init.Tok != token.DEFINE || len(init.Lhs) != 1 || len(init.Rhs) != 1 {
		return nil, fmt.Errorf("for loop without `i := const` is outside the subset")
	}
	iv, ok := init.Lhs[0].(*ast.Ident)
	if !ok {
		return nil, fmt.Errorf("for: unsupported init")
	}
	lo, ok := fx.constInt(init.Rhs[0])
	if !ok {
		return nil, fmt.Errorf("for: non-constant lower bound")
	}
	cond, ok := s.Cond.(*ast.BinaryExpr)
	if !ok {
		return nil, fmt.Errorf("for: unsupported condition")
	}
	ci, ok := cond.X.(*ast.Ident)
	if !ok || ci.Name != iv.Name {
		return nil, fmt.Errorf("for: unsupported condition")
	}
	hi, ok := fx.constInt(cond.Y)
	if !ok {
		return nil, fmt.Errorf("for: non-constant upper bound")
	}
	switch cond.Op {
	case token.LSS:
	case token.LEQ:
		hi++
	default:
		return nil, fmt.Errorf("for: unsupported comparison")
	}
	post, ok := s.Post.(*ast.IncDecStmt)
	if !ok || post.Tok != token.INC {
		return nil, fmt.Errorf("for: only i++ is supported")
	}
	if pi, ok := post.X.(*ast.Ident); !ok || pi.Name != iv.Name {
		return nil, fmt.Errorf("for: only i++ is supported")
	}
	if hi-lo > 64 {
		return nil, fmt.Errorf("for: too many iterations to unroll")
	}
	// the loop variable must not be assigned in the body
	bad := false
	ast.Inspect(s.Body, func(n ast.Node) bool {
		if a, ok := n.(*ast.AssignStmt); ok {
			for _, l := range a.Lhs {
				if id, ok := l.(*ast.Ident); ok && id.Name == iv.Name {
					bad = true
				}
			}
		}
		if a, ok := n.(*ast.IncDecStmt); ok {
			if id, ok := a.X.(*ast.Ident); ok && id.Name == iv.Name {
				bad = true
			}
		}
		return true
	})
	if bad {
		return nil, fmt.Errorf("for: loop variable assigned in the body")
	}
	var steps []unrollStep
	for i := lo; i < hi; i++ {
		steps = append(steps, unrollStep{consts: map[string]int64{iv.Name: i}, body: s.Body.List})
	}
	return steps, nil
}

func (fx *fnCtx) ifStmt(s *ast.IfStmt, rest func() (string, error)) (string, error) {
	pre := ""
	if s.Init != nil {
		a, ok := s.Init.(*ast.AssignStmt)
		if !ok || a.Tok != token.DEFINE {
			return "", fmt.Errorf("unsupported if-init")
		}
		line, err := fx.assign(a)
		if err != nil {
			return "", err
		}
		pre = line + "\n"
	}
	cond, err := fx.exprAs(s.Cond, nil)
	if err != nil {
		return "", err
	}
	var elseStmts []ast.Stmt
	switch e := s.Else.(type) {
	case nil:
	case *ast.BlockStmt:
		elseStmts = e.List
	case *ast.IfStmt:
		elseStmts = []ast.Stmt{e}
	default:
		return "", fmt.Errorf("unsupported else")
	}
	hasRet := containsReturn(s.Body)
	for _, e := range elseStmts {
		if containsReturn(e) {
			hasRet = true
		}
	}
	outer := map[string]types.Type{}
	for k, v := range fx.scope {
		outer[k] = v
	}
	outerConsts := map[string]int64{}
	for k, v := range fx.consts {
		outerConsts[k] = v
	}
	outerPat := append([]string{}, fx.loopPat...)
	outerK := append([]loopConts{}, fx.loopK...)
	outerWrap := fx.retWrap
	restore := func() {
		// names declared inside a branch go out of scope (and may be re-declared later); the loop context is
		// the one of this statement again (translating a branch runs the continuation, which may leave loops)
		fx.scope = map[string]types.Type{}
		for k, v := range outer {
			fx.scope[k] = v
		}
		fx.consts = map[string]int64{}
		for k, v := range outerConsts {
			fx.consts[k] = v
		}
		fx.loopPat = append([]string{}, outerPat...)
		fx.loopK = append([]loopConts{}, outerK...)
		fx.retWrap = outerWrap
	}
	if hasRet {
		// duplicate the continuation into both branches
		k2 := func() (string, error) { restore(); return rest() }
		th, err := fx.block(s.Body.List, k2)
		if err != nil {
			return "", err
		}
		restore()
		el, err := fx.block(elseStmts, k2)
		if err != nil {
			return "", err
		}
		restore()
		return fmt.Sprintf("%sif %s then\n%s\nelse\n%s", pre, cond, indent(th, "  "), indent(el, "  ")), nil
	}
	// join form
	vars, err := fx.assignedOuter(append(append([]ast.Stmt{}, s.Body.List...), elseStmts...))
	if err != nil {
		return "", err
	}
	if len(vars) == 0 {
		return "", fmt.Errorf("if statement without effect")
	}
	var ids []string
	for _, v := range vars {
		ids = append(ids, ident(v))
	}
	k2 := func() (string, error) { return tuple(ids), nil }
	th, err := fx.block(s.Body.List, k2)
	if err != nil {
		return "", err
	}
	restore()
	el, err := fx.block(elseStmts, k2)
	if err != nil {
		return "", err
	}
	restore()
	r, err := rest()
	if err != nil {
		return "", err
	}
	pat := tuple(ids)
	return fmt.Sprintf("%slet %s :=\n  if %s then\n%s\n  else\n%s\n%s", pre, pat, cond, indent(th, "    "), indent(el, "    "), r), nil
}

// assign translates one assignment into a `let` line.
func (fx *fnCtx) assign(a *ast.AssignStmt) (string, error) {
	binop := map[token.Token]token.Token{token.ADD_ASSIGN: token.ADD, token.SUB_ASSIGN: token.SUB, token.MUL_ASSIGN: token.MUL, token.QUO_ASSIGN: token.QUO, token.REM_ASSIGN: token.REM}
	if op, ok := binop[a.Tok]; ok {
		if len(a.Lhs) != 1 || len(a.Rhs) != 1 {
			return "", fmt.Errorf("unsupported compound assignment")
		}
		return fx.assign(&ast.AssignStmt{Lhs: a.Lhs, Tok: token.ASSIGN, Rhs: []ast.Expr{&ast.BinaryExpr{X: a.Lhs[0], Op: op, Y: a.Rhs[0]}}})
	}
	if a.Tok != token.DEFINE && a.Tok != token.ASSIGN {
		return "", fmt.Errorf("unsupported assignment operator %s", a.Tok)
	}
	if len(a.Rhs) == 1 {
		if call, isCall := a.Rhs[0].(*ast.CallExpr); isCall {
			if callee, _ := fx.calleeOf(call); callee != nil && callee.Pkg() != nil && hasPrefix(callee.Pkg().Path()) && len(fx.t.outParamIdx(callee)) > 0 {
				nonNil := false
				for _, j := range fx.t.outParamIdx(callee) {
					if j < len(call.Args) && !isNilIdent(call.Args[j]) {
						nonNil = true
					}
				}
				if nonNil {
					// v := f(x, &u): the ordinary results go to the left-hand side, the out values are re-bound
					tup, _ := fx.pi.info.Types[call].Type.(*types.Tuple)
					var ids []string
					for i, l := range a.Lhs {
						id, ok := l.(*ast.Ident)
						if !ok {
							return "", fmt.Errorf("unsupported target for a call with out-pointer arguments")
						}
						if id.Name != "_" {
							var ty types.Type
							if tup != nil && i < tup.Len() {
								ty = tup.At(i).Type()
							} else {
								ty = fx.pi.info.Types[call].Type
							}
							if err := fx.declare(id, a.Tok, ty); err != nil {
								return "", err
							}
						}
						ids = append(ids, ident(id.Name))
					}
					line, _, err := fx.outCall(call, tuple(ids))
					return line, err
				}
			}
		}
	}
	if len(a.Lhs) > 1 && len(a.Rhs) == 1 {
		// a, b := f()
		val, err := fx.exprAs(a.Rhs[0], nil)
		if err != nil {
			return "", err
		}
		var ids []string
		var after []string
		tv := fx.pi.info.Types[a.Rhs[0]]
		tup, _ := tv.Type.(*types.Tuple)
		for i, l := range a.Lhs {
			if st, isStar := l.(*ast.StarExpr); isStar {
				// *out, _ = f(): store through an out-pointer parameter
				if pid, ok := st.X.(*ast.Ident); ok && fx.outParam[pid.Name] {
					tmp := fmt.Sprintf("_t%d", i)
					ids = append(ids, tmp)
					after = append(after, fmt.Sprintf("let %s := Option.map (fun _ => %s) %s", ident(pid.Name), tmp, ident(pid.Name)))
					continue
				}
			}
			id, ok := l.(*ast.Ident)
			if !ok {
				return "", fmt.Errorf("unsupported multi-assignment target")
			}
			if id.Name != "_" {
				if err := fx.declare(id, a.Tok, func() types.Type {
					if tup != nil && i < tup.Len() {
						return tup.At(i).Type()
					}
					return nil
				}()); err != nil {
					return "", err
				}
			}
			ids = append(ids, ident(id.Name))
		}
		line := fmt.Sprintf("let %s := %s", tuple(ids), val)
		for _, l := range after {
			line += "\n" + l
		}
		return line, nil
	}
	if len(a.Lhs) != len(a.Rhs) {
		return "", fmt.Errorf("unsupported assignment shape")
	}
	if len(a.Lhs) > 1 {
		// parallel assignment: evaluate all right-hand sides first
		var vals, ids []string
		for i, l := range a.Lhs {
			id, ok := l.(*ast.Ident)
			if !ok {
				return "", fmt.Errorf("unsupported parallel assignment target")
			}
			var want types.Type
			if t0, ok := fx.scope[id.Name]; ok {
				want = t0
			}
			v, err := fx.exprAs(a.Rhs[i], want)
			if err != nil {
				return "", err
			}
			vals = append(vals, v)
			ids = append(ids, ident(id.Name))
		}
		for i, l := range a.Lhs {
			id := l.(*ast.Ident)
			if id.Name != "_" {
				if err := fx.declare(id, a.Tok, fx.pi.info.Types[a.Rhs[i]].Type); err != nil {
					return "", err
				}
			}
		}
		return fmt.Sprintf("let %s := %s", tuple(ids), tuple(vals)), nil
	}
	lhs, rhs := a.Lhs[0], a.Rhs[0]
	switch l := lhs.(type) {
	case *ast.Ident:
		var want types.Type
		if t0, ok := fx.scope[l.Name]; ok && a.Tok == token.ASSIGN {
			want = t0
		} else if obj := fx.pi.info.Defs[l]; obj != nil {
			want = obj.Type()
		} else if sty, ok := fx.synth[l]; ok {
			want = sty
		}
		v, err := fx.exprAs(rhs, want)
		if err != nil {
			return "", err
		}
		if l.Name == "_" {
			return "let _ := " + v, nil
		}
		ty := want
		if ty == nil {
			ty = fx.pi.info.Types[rhs].Type
		}
		if err := fx.declare(l, a.Tok, ty); err != nil {
			return "", err
		}
		lt, err := fx.t.leanType(fx.scope[l.Name])
		if err != nil {
			return "", err
		}
		return fmt.Sprintf("let %s : %s := %s", ident(l.Name), lt, v), nil
	case *ast.StarExpr:
		// *m = value (pointer receiver of a mutating method)
		id, ok := l.X.(*ast.Ident)
		if ok && fx.outParam[id.Name] {
			pt := types.Unalias(fx.scope[id.Name]).(*types.Pointer)
			v, err := fx.exprAs(rhs, pt.Elem())
			if err != nil {
				return "", err
			}
			return fmt.Sprintf("let %s := Option.map (fun _ => %s) %s", ident(id.Name), v, ident(id.Name)), nil
		}
		if !ok || id.Name != fx.recvName || !fx.mutating {
			return "", fmt.Errorf("store through a pointer other than the receiver")
		}
		pt := types.Unalias(fx.scope[id.Name]).(*types.Pointer)
		v, err := fx.exprAs(rhs, pt.Elem())
		if err != nil {
			return "", err
		}
		return fmt.Sprintf("let %s := %s", ident(id.Name), v), nil
	case *ast.SelectorExpr, *ast.IndexExpr:
		// x.F = v  /  x[i] = v  /  x.F[i] = v ... : functional update of the root variable
		return fx.update(lhs, rhs)
	}
	return "", fmt.Errorf("unsupported assignment target %T", lhs)
}

func (fx *fnCtx) declare(id *ast.Ident, tok token.Token, ty types.Type) error {
	_, exists := fx.scope[id.Name]
	if tok == token.DEFINE {
		if sty, ok := fx.synth[id]; ok {
			if exists {
				return fmt.Errorf("shadowing of %s is outside the subset", id.Name)
			}
			fx.scope[id.Name] = sty
			return nil
		}
		if obj := fx.pi.info.Defs[id]; obj != nil {
			// genuinely new variable
			if exists {
				return fmt.Errorf("shadowing of %s is outside the subset", id.Name)
			}
			if _, isConst := fx.consts[id.Name]; isConst {
				return fmt.Errorf("shadowing of loop variable %s", id.Name)
			}
			fx.scope[id.Name] = obj.Type()
			return nil
		}
		// := re-using an existing variable of the same scope
		if !exists {
			return fmt.Errorf("re-declared variable %s not in scope", id.Name)
		}
		return nil
	}
	if !exists {
		return fmt.Errorf("assignment to unknown variable %s", id.Name)
	}
	if id.Name != fx.recvName {
		if _, isPtr := types.Unalias(fx.scope[id.Name]).(*types.Pointer); isPtr {
			return fmt.Errorf("re-assignment of pointer variable %s", id.Name)
		}
	}
	return nil
}

// update builds `let root := { root with path := v }` for nested field / constant-index targets.
func (fx *fnCtx) update(lhs, rhs ast.Expr) (string, error) {
	if ie, ok := lhs.(*ast.IndexExpr); ok {
		if sl, isSlice := types.Unalias(fx.pi.info.Types[ie.X].Type).Underlying().(*types.Slice); isSlice {
			id, isId := ie.X.(*ast.Ident)
			if !isId || !fx.storable[id.Name] {
				return "", fmt.Errorf("store into a slice that may be aliased is outside the subset")
			}
			if _, inScope := fx.scope[id.Name]; !inScope {
				return "", fmt.Errorf("assignment through unknown variable %s", id.Name)
			}
			v, err := fx.exprAs(rhs, sl.Elem())
			if err != nil {
				return "", err
			}
			ix, err := fx.exprAs(ie.Index, types.Typ[types.Int])
			if err != nil {
				return "", err
			}
			return fmt.Sprintf("let %s := List.set %s (Int.toNat %s) %s", ident(id.Name), ident(id.Name), ix, v), nil
		}
		if _, isConst := fx.constInt(ie.Index); !isConst {
			id, isId := ie.X.(*ast.Ident)
			n, isArr := fx.arrayLen(fx.pi.info.Types[ie.X].Type)
			if !isId || !isArr || n > 4 || n < 1 || !isInt(fx.pi.info.Types[ie.Index].Type) {
				return "", fmt.Errorf("non-constant index in assignment")
			}
			ty, inScope := fx.scope[id.Name]
			if !inScope {
				return "", fmt.Errorf("assignment through unknown variable %s", id.Name)
			}
			if _, isPtr := types.Unalias(ty).(*types.Pointer); isPtr && !(id.Name == fx.recvName && fx.mutating) && !fx.freshPtr[id.Name] {
				return "", fmt.Errorf("store through pointer %s is outside the subset", id.Name)
			}
			v, err := fx.exprAs(rhs, fx.pi.info.Types[lhs].Type)
			if err != nil {
				return "", err
			}
			ix, err := fx.exprAs(ie.Index, nil)
			if err != nil {
				return "", err
			}
			nm := ident(id.Name)
			out := fmt.Sprintf("{ %s with e%d := _v }", nm, n-1)
			for k := n - 2; k >= 0; k-- {
				out = fmt.Sprintf("if _ix = %d then { %s with e%d := _v } else %s", k, nm, k, out)
			}
			return fmt.Sprintf("let %s := (let _v := %s; let _ix : Int := %s; %s)", nm, v, ix, out), nil
		}
	}
	type step struct{ field string }
	var path []string
	e := lhs
	for {
		switch x := e.(type) {
		case *ast.ParenExpr:
			e = x.X
			continue
		case *ast.SelectorExpr:
			if _, ok := fx.pi.info.Selections[x]; !ok {
				return "", fmt.Errorf("unsupported selector in assignment")
			}
			path = append([]string{ident(x.Sel.Name)}, path...)
			e = x.X
			continue
		case *ast.IndexExpr:
			i, ok := fx.constInt(x.Index)
			if !ok {
				return "", fmt.Errorf("non-constant index in assignment")
			}
			tv := fx.pi.info.Types[x.X]
			n, isArr := fx.arrayLen(tv.Type)
			if !isArr || i < 0 || i >= n {
				return "", fmt.Errorf("index assignment on a non-array or out of range")
			}
			path = append([]string{fmt.Sprintf("e%d", i)}, path...)
			e = x.X
			continue
		case *ast.StarExpr:
			e = x.X
			continue
		case *ast.Ident:
			ty, ok := fx.scope[x.Name]
			if !ok {
				return "", fmt.Errorf("assignment through unknown variable %s", x.Name)
			}
			if _, isPtr := types.Unalias(ty).(*types.Pointer); isPtr && !(x.Name == fx.recvName && fx.mutating) && !fx.freshPtr[x.Name] && !fx.outParam[x.Name] {
				return "", fmt.Errorf("store through pointer %s is outside the subset", x.Name)
			}
			want := fx.pi.info.Types[lhs].Type
			v, err := fx.exprAs(rhs, want)
			if err != nil {
				return "", err
			}
			if fx.outParam[x.Name] {
				// p.F = v through an out-pointer parameter
				var buildO func(prefix string, p []string) string
				buildO = func(prefix string, p []string) string {
					if len(p) == 1 {
						return fmt.Sprintf("{ %s with %s := %s }", prefix, p[0], v)
					}
					return fmt.Sprintf("{ %s with %s := %s }", prefix, p[0], buildO(prefix+"."+p[0], p[1:]))
				}
				return fmt.Sprintf("let %s := Option.map (fun _o => %s) %s", ident(x.Name), buildO("_o", path), ident(x.Name)), nil
			}
			// nested `with`: { r with a := { r.a with b := v } }
			var build func(prefix string, p []string) string
			build = func(prefix string, p []string) string {
				if len(p) == 1 {
					return fmt.Sprintf("{ %s with %s := %s }", prefix, p[0], v)
				}
				return fmt.Sprintf("{ %s with %s := %s }", prefix, p[0], build(prefix+"."+p[0], p[1:]))
			}
			return fmt.Sprintf("let %s := %s", ident(x.Name), build(ident(x.Name), path)), nil
		}
		return "", fmt.Errorf("unsupported assignment target")
	}
}

// ---------------------------------------------------------------- expressions

func isFloat(ty types.Type) bool {
	if ty == nil {
		return false
	}
	b, ok := types.Unalias(ty).Underlying().(*types.Basic)
	return ok && (b.Kind() == types.Float64 || b.Kind() == types.UntypedFloat)
}

func isInt(ty types.Type) bool {
	if ty == nil {
		return false
	}
	b, ok := types.Unalias(ty).Underlying().(*types.Basic)
	return ok && (b.Kind() == types.Int || b.Kind() == types.UntypedInt)
}

func (fx *fnCtx) floatConst(v constant.Value, src string) (string, error) {
	if v.Kind() == constant.Int || (v.Kind() == constant.Float && constant.ToInt(v).Kind() == constant.Int) {
		iv := constant.ToInt(v)
		if i, ok := constant.Int64Val(iv); ok {
			neg := i < 0
			if neg {
				i = -i
			}
			fx.t.lits[fmt.Sprint(i)] = true
			if neg {
				return fmt.Sprintf("(-(%d : α))", i), nil
			}
			return fmt.Sprintf("(%d : α)", i), nil
		}
	}
	// decimal literal exactly as written in the source (OfScientific)
	if src != "" {
		s := strings.ToLower(src)
		okc := true
		for _, c := range s {
			if !(c >= '0' && c <= '9') && c != '.' && c != 'e' && c != '-' && c != '+' {
				okc = false
			}
		}
		if okc && !strings.HasPrefix(s, ".") && !strings.HasSuffix(s, ".") && !strings.Contains(s, ".e") {
			s = strings.ReplaceAll(s, "e+", "e")
			if !strings.Contains(s, ".") && strings.Contains(s, "e") {
				s = strings.Replace(s, "e", ".0e", 1)
			}
			return fmt.Sprintf("(%s : α)", s), nil
		}
	}
	// any other constant expression: the float64 Go materialises (exactly rounded once from the exact
	// constant), written as an exact dyadic rational m / 2^k or m * 2^k
	if f, _ := constant.Float64Val(v); !math.IsInf(f, 0) && !math.IsNaN(f) {
		if f == 0 {
			return "(0 : α)", nil
		}
		neg := f < 0
		if neg {
			f = -f
		}
		fr, e := math.Frexp(f) // f = fr * 2^e, fr in [0.5,1)
		m := new(big.Int)
		big.NewFloat(fr).SetMantExp(big.NewFloat(fr), 53).Int(m) // m = fr * 2^53 (exact)
		e -= 53
		for m.Bit(0) == 0 && m.Sign() != 0 {
			m.Rsh(m, 1)
			e++
		}
		var lit string
		if e >= 0 {
			mm := new(big.Int).Lsh(m, uint(e))
			fx.t.lits[mm.String()] = true
			lit = fmt.Sprintf("(%s : α)", mm.String())
		} else {
			d := new(big.Int).Lsh(big.NewInt(1), uint(-e))
			fx.t.lits[m.String()] = true
			fx.t.lits[d.String()] = true
			lit = fmt.Sprintf("((%s : α) / (%s : α))", m.String(), d.String())
		}
		if neg {
			return "(-" + lit + ")", nil
		}
		return lit, nil
	}
	return "", fmt.Errorf("float constant %s is outside the subset", v.ExactString())
}

// exprAs translates e; `want` (may be nil) is the type the context converts an untyped constant to.
func (fx *fnCtx) exprAs(e ast.Expr, want types.Type) (string, error) {
	tv, hasTV := fx.pi.info.Types[e]
	ety := tv.Type
	if hasTV {
		if b, ok := ety.(*types.Basic); ok && b.Info()&types.IsUntyped != 0 && want != nil {
			ety = want
		}
	}
	// constants
	if hasTV && tv.Value != nil {
		switch {
		case isFloat(ety):
			src := ""
			neg := false
			x := e
			for {
				if p, ok := x.(*ast.ParenExpr); ok {
					x = p.X
					continue
				}
				if u, ok := x.(*ast.UnaryExpr); ok && u.Op == token.SUB {
					neg = !neg
					x = u.X
					continue
				}
				break
			}
			if bl, ok := x.(*ast.BasicLit); ok && (bl.Kind == token.FLOAT || bl.Kind == token.INT) {
				src = bl.Value
			}
			if src != "" && neg {
				s, err := fx.floatConst(constant.UnaryOp(token.SUB, tv.Value, 0), src)
				if err != nil {
					return "", err
				}
				if strings.HasPrefix(s, "(-") {
					return s, nil
				}
				return "(-" + s + ")", nil
			}
			return fx.floatConst(tv.Value, src)
		case isInt(ety):
			if i, ok := constant.Int64Val(constant.ToInt(tv.Value)); ok {
				return fmt.Sprintf("(%d : Int)", i), nil
			}
		case tv.Value.Kind() == constant.Bool:
			if constant.BoolVal(tv.Value) {
				return "true", nil
			}
			return "false", nil
		}
		return "", fmt.Errorf("unsupported constant %s", tv.Value.ExactString())
	}
	switch x := e.(type) {
	case *ast.ParenExpr:
		return fx.exprAs(x.X, want)
	case *ast.Ident:
		if c, ok := fx.consts[x.Name]; ok {
			if isFloat(want) {
				return "", fmt.Errorf("loop variable used as float")
			}
			return fmt.Sprintf("(%d : Int)", c), nil
		}
		if ty, ok := fx.scope[x.Name]; ok {
			if fx.outParam[x.Name] {
				// the value an out-pointer parameter points to (Go panics when it is nil)
				z, err := fx.t.zeroValue(types.Unalias(ty).(*types.Pointer).Elem())
				if err != nil {
					return "", err
				}
				return "(Option.getD " + ident(x.Name) + " " + z + ")", nil
			}
			return ident(x.Name), nil
		}
		if x.Name == "true" || x.Name == "false" {
			return x.Name, nil
		}
		if x.Name == "nil" && want != nil {
			if sl, isSlice := types.Unalias(want).Underlying().(*types.Slice); isSlice {
				return fx.t.zeroValue(sl)
			}
		}
		return "", fmt.Errorf("identifier %s is outside the subset (global or unknown)", x.Name)
	case *ast.UnaryExpr:
		switch x.Op {
		case token.SUB:
			a, err := fx.exprAs(x.X, want)
			if err != nil {
				return "", err
			}
			return "(-" + a + ")", nil
		case token.NOT:
			a, err := fx.exprAs(x.X, nil)
			if err != nil {
				return "", err
			}
			return "(!" + a + ")", nil
		case token.AND:
			// &T{...} / &local : pointers are values in the subset
			return fx.exprAs(x.X, want)
		case token.ADD:
			return fx.exprAs(x.X, want)
		}
		return "", fmt.Errorf("unsupported unary operator %s", x.Op)
	case *ast.StarExpr:
		return fx.exprAs(x.X, want)
	case *ast.BinaryExpr:
		return fx.binary(x, want)
	case *ast.SelectorExpr:
		if sel, ok := fx.pi.info.Selections[x]; ok && sel.Kind() == types.FieldVal {
			if len(sel.Index()) != 1 {
				return "", fmt.Errorf("embedded field access is outside the subset")
			}
			a, err := fx.exprAs(x.X, nil)
			if err != nil {
				return "", err
			}
			if _, err := fx.t.leanType(fx.pi.info.Types[x.X].Type); err != nil {
				return "", err
			}
			return a + "." + ident(x.Sel.Name), nil
		}
		return "", fmt.Errorf("unsupported selector %s", x.Sel.Name)
	case *ast.IndexExpr:
		if sl, isSlice := types.Unalias(fx.pi.info.Types[x.X].Type).Underlying().(*types.Slice); isSlice {
			// read of a slice element; Go panics when out of range, the model yields the zero value
			if _, err := fx.t.leanType(sl); err != nil {
				return "", err
			}
			z, err := fx.t.zeroValue(sl.Elem())
			if err != nil {
				return "", err
			}
			a, err := fx.exprAs(x.X, nil)
			if err != nil {
				return "", err
			}
			ix, err := fx.exprAs(x.Index, types.Typ[types.Int])
			if err != nil {
				return "", err
			}
			return "(List.getD " + a + " (Int.toNat " + ix + ") " + z + ")", nil
		}
		i, ok := fx.constInt(x.Index)
		if !ok {
			// variable index into a small fixed array: an if-chain over the positions (Go panics when the
			// index is out of range; the chain then yields the last element - callers are in range)
			n, isArr := fx.arrayLen(fx.pi.info.Types[x.X].Type)
			if !isArr || n > 4 || n < 1 || !isInt(fx.pi.info.Types[x.Index].Type) {
				return "", fmt.Errorf("non-constant index")
			}
			if _, err := fx.t.leanType(fx.pi.info.Types[x.X].Type); err != nil {
				return "", err
			}
			a, err := fx.exprAs(x.X, nil)
			if err != nil {
				return "", err
			}
			ix, err := fx.exprAs(x.Index, nil)
			if err != nil {
				return "", err
			}
			out := fmt.Sprintf("_arr.e%d", n-1)
			for k := n - 2; k >= 0; k-- {
				out = fmt.Sprintf("if _ix = %d then _arr.e%d else %s", k, k, out)
			}
			return fmt.Sprintf("(let _arr := %s; let _ix : Int := %s; %s)", a, ix, out), nil
		}
		n, isArr := fx.arrayLen(fx.pi.info.Types[x.X].Type)
		if !isArr {
			return "", fmt.Errorf("indexing a non-array")
		}
		if i < 0 || i >= n {
			return "", fmt.Errorf("constant index out of range")
		}
		if _, err := fx.t.leanType(fx.pi.info.Types[x.X].Type); err != nil {
			return "", err
		}
		a, err := fx.exprAs(x.X, nil)
		if err != nil {
			return "", err
		}
		return fmt.Sprintf("%s.e%d", a, i), nil
	case *ast.CompositeLit:
		return fx.composite(x)
	case *ast.CallExpr:
		return fx.call(x, want)
	case *ast.SliceExpr:
		// s[a:b] as a value (reads only; element stores are restricted to unaliased locals, see storableSlices)
		sl, isSlice := types.Unalias(fx.pi.info.Types[x.X].Type).Underlying().(*types.Slice)
		if !isSlice || x.Slice3 {
			return "", fmt.Errorf("slice expression on a non-slice is outside the subset")
		}
		if _, err := fx.t.leanType(sl); err != nil {
			return "", err
		}
		a, err := fx.exprAs(x.X, nil)
		if err != nil {
			return "", err
		}
		lo := "(0 : Int)"
		if x.Low != nil {
			if lo, err = fx.exprAs(x.Low, types.Typ[types.Int]); err != nil {
				return "", err
			}
		}
		if x.High == nil {
			return "(List.drop (Int.toNat " + lo + ") " + a + ")", nil
		}
		hi, err := fx.exprAs(x.High, types.Typ[types.Int])
		if err != nil {
			return "", err
		}
		return "(List.take (Int.toNat (" + hi + " - " + lo + ")) (List.drop (Int.toNat " + lo + ") " + a + "))", nil
	}
	return "", fmt.Errorf("unsupported expression %T", e)
}

func (fx *fnCtx) binary(x *ast.BinaryExpr, want types.Type) (string, error) {
	lt := fx.pi.info.Types[x.X].Type
	rt := fx.pi.info.Types[x.Y].Type
	opd := lt
	if b, ok := lt.(*types.Basic); ok && b.Info()&types.IsUntyped != 0 {
		opd = rt
	}
	if b, ok := opd.(*types.Basic); ok && b.Info()&types.IsUntyped != 0 && want != nil {
		opd = want
	}
	if x.Op == token.EQL || x.Op == token.NEQ {
		var pid *ast.Ident
		if id, ok := x.X.(*ast.Ident); ok && isNilIdent(x.Y) {
			pid = id
		} else if id, ok := x.Y.(*ast.Ident); ok && isNilIdent(x.X) {
			pid = id
		}
		if pid != nil {
			if !fx.outParam[pid.Name] {
				return "", fmt.Errorf("comparison of %s with nil is outside the subset", pid.Name)
			}
			if x.Op == token.NEQ {
				return "(Option.isSome " + ident(pid.Name) + ")", nil
			}
			return "(!(Option.isSome " + ident(pid.Name) + "))", nil
		}
	}
	switch x.Op {
	case token.LAND, token.LOR:
		a, err := fx.exprAs(x.X, nil)
		if err != nil {
			return "", err
		}
		b, err := fx.exprAs(x.Y, nil)
		if err != nil {
			return "", err
		}
		op := "&&"
		if x.Op == token.LOR {
			op = "||"
		}
		return "(" + a + " " + op + " " + b + ")", nil
	}
	a, err := fx.exprAs(x.X, opd)
	if err != nil {
		return "", err
	}
	b, err := fx.exprAs(x.Y, opd)
	if err != nil {
		return "", err
	}
	switch x.Op {
	case token.ADD, token.SUB, token.MUL, token.QUO, token.REM:
		if !isFloat(opd) {
			if isInt(opd) {
				switch x.Op {
				case token.QUO:
					return "(Int.tdiv " + a + " " + b + ")", nil // Go's integer division truncates toward zero
				case token.REM:
					return "(Int.tmod " + a + " " + b + ")", nil
				}
				return "(" + a + " " + x.Op.String() + " " + b + ")", nil
			}
			return "", fmt.Errorf("arithmetic on %s is outside the subset", opd)
		}
		if x.Op == token.REM {
			return "", fmt.Errorf("%% on floats")
		}
		return "(" + a + " " + x.Op.String() + " " + b + ")", nil
	case token.LSS, token.LEQ, token.GTR, token.GEQ:
		if !isFloat(opd) && !isInt(opd) {
			return "", fmt.Errorf("comparison on %s", opd)
		}
		op := map[token.Token]string{token.LSS: "<", token.LEQ: "≤", token.GTR: ">", token.GEQ: "≥"}[x.Op]
		return "(decide (" + a + " " + op + " " + b + "))", nil
	case token.EQL, token.NEQ:
		var s string
		switch {
		case isFloat(opd):
			s = "(feq " + a + " " + b + ")"
		case isInt(opd):
			s = "(decide (" + a + " = " + b + "))"
		default:
			if bt, ok := types.Unalias(opd).Underlying().(*types.Basic); ok && bt.Kind() == types.Bool {
				s = "(" + a + " == " + b + ")"
			} else {
				eq, err := fx.structEq(opd, a, b)
				if err != nil {
					return "", err
				}
				s = eq
			}
		}
		if x.Op == token.NEQ {
			return "(!" + s + ")", nil
		}
		return s, nil
	}
	return "", fmt.Errorf("unsupported operator %s", x.Op)
}

// structEq: Go == on structs/arrays of floats = conjunction of feq on the leaves.
func (fx *fnCtx) structEq(ty types.Type, a, b string) (string, error) {
	ty = types.Unalias(ty)
	n, ok := ty.(*types.Named)
	if !ok {
		return "", fmt.Errorf("== on %s is outside the subset", ty)
	}
	if _, err := fx.t.namedType(n); err != nil {
		return "", err
	}
	var leaves func(t types.Type, pa, pb string) ([]string, error)
	leaves = func(t types.Type, pa, pb string) ([]string, error) {
		t = types.Unalias(t)
		if isFloat(t) {
			return []string{"(feq " + pa + " " + pb + ")"}, nil
		}
		var out []string
		switch u := t.Underlying().(type) {
		case *types.Struct:
			for i := 0; i < u.NumFields(); i++ {
				f := ident(u.Field(i).Name())
				l, err := leaves(u.Field(i).Type(), pa+"."+f, pb+"."+f)
				if err != nil {
					return nil, err
				}
				out = append(out, l...)
			}
			return out, nil
		case *types.Array:
			for i := int64(0); i < u.Len(); i++ {
				l, err := leaves(u.Elem(), fmt.Sprintf("%s.e%d", pa, i), fmt.Sprintf("%s.e%d", pb, i))
				if err != nil {
					return nil, err
				}
				out = append(out, l...)
			}
			return out, nil
		}
		return nil, fmt.Errorf("== on %s is outside the subset", t)
	}
	// bind both sides once
	ls, err := leaves(ty, "_a", "_b")
	if err != nil {
		return "", err
	}
	if len(ls) == 0 {
		return "true", nil
	}
	return fmt.Sprintf("(let _a := %s; let _b := %s; %s)", a, b, strings.Join(ls, " && ")), nil
}

func (fx *fnCtx) composite(x *ast.CompositeLit) (string, error) {
	tv := fx.pi.info.Types[x]
	if arr, isArr := types.Unalias(tv.Type).(*types.Array); isArr {
		lt, err := fx.t.leanType(arr)
		if err != nil {
			return "", err
		}
		vals := map[int64]string{}
		next := int64(0)
		for _, el := range x.Elts {
			val := el
			if kv, ok := el.(*ast.KeyValueExpr); ok {
				i, ok := fx.constInt(kv.Key)
				if !ok {
					return "", fmt.Errorf("non-constant array literal key")
				}
				next = i
				val = kv.Value
			}
			v, err := fx.exprAs(val, arr.Elem())
			if err != nil {
				return "", err
			}
			vals[next] = v
			next++
		}
		var parts []string
		for i := int64(0); i < arr.Len(); i++ {
			v, ok := vals[i]
			if !ok {
				v, err = fx.t.zeroValue(arr.Elem())
				if err != nil {
					return "", err
				}
			}
			parts = append(parts, fmt.Sprintf("e%d := %s", i, v))
		}
		return "({ " + strings.Join(parts, ", ") + " } : " + lt + ")", nil
	}
	if sl, isSlice := types.Unalias(tv.Type).Underlying().(*types.Slice); isSlice {
		lt, err := fx.t.leanType(sl)
		if err != nil {
			return "", err
		}
		var parts []string
		for _, el := range x.Elts {
			if _, kv := el.(*ast.KeyValueExpr); kv {
				return "", fmt.Errorf("keyed slice literal is outside the subset")
			}
			v, err := fx.exprAs(el, sl.Elem())
			if err != nil {
				return "", err
			}
			parts = append(parts, v)
		}
		return "([" + strings.Join(parts, ", ") + "] : " + lt + ")", nil
	}
	named, ok := types.Unalias(tv.Type).(*types.Named)
	if !ok {
		return "", fmt.Errorf("composite literal of %s is outside the subset", tv.Type)
	}
	lt, err := fx.t.namedType(named)
	if err != nil {
		return "", err
	}
	var parts []string
	switch u := named.Underlying().(type) {
	case *types.Struct:
		vals := map[string]string{}
		for i, el := range x.Elts {
			if kv, ok := el.(*ast.KeyValueExpr); ok {
				k := kv.Key.(*ast.Ident).Name
				var ft types.Type
				for j := 0; j < u.NumFields(); j++ {
					if u.Field(j).Name() == k {
						ft = u.Field(j).Type()
					}
				}
				v, err := fx.exprAs(kv.Value, ft)
				if err != nil {
					return "", err
				}
				vals[k] = v
			} else {
				v, err := fx.exprAs(el, u.Field(i).Type())
				if err != nil {
					return "", err
				}
				vals[u.Field(i).Name()] = v
			}
		}
		for j := 0; j < u.NumFields(); j++ {
			f := u.Field(j)
			v, ok := vals[f.Name()]
			if !ok {
				v, err = fx.t.zeroValue(f.Type())
				if err != nil {
					return "", err
				}
			}
			parts = append(parts, fmt.Sprintf("%s := %s", ident(f.Name()), v))
		}
	case *types.Array:
		vals := map[int64]string{}
		next := int64(0)
		for _, el := range x.Elts {
			val := el
			if kv, ok := el.(*ast.KeyValueExpr); ok {
				i, ok := fx.constInt(kv.Key)
				if !ok {
					return "", fmt.Errorf("non-constant array literal key")
				}
				next = i
				val = kv.Value
			}
			v, err := fx.exprAs(val, u.Elem())
			if err != nil {
				return "", err
			}
			vals[next] = v
			next++
		}
		for i := int64(0); i < u.Len(); i++ {
			v, ok := vals[i]
			if !ok {
				v, err = fx.t.zeroValue(u.Elem())
				if err != nil {
					return "", err
				}
			}
			parts = append(parts, fmt.Sprintf("e%d := %s", i, v))
		}
	default:
		return "", fmt.Errorf("composite literal of %s", named)
	}
	return "({ " + strings.Join(parts, ", ") + " } : " + lt + ")", nil
}

// ensureFunc makes sure the callee (a function of one of this module's packages) is translated.
func (fx *fnCtx) ensureCallee(f *types.Func) (string, bool, error) {
	ln, mut, err := fx.t.ensureFunc(f)
	if err == nil {
		fx.t.calls[fx.fn] = append(fx.t.calls[fx.fn], calleeName(f))
	}
	return ln, mut, err
}

func calleeName(f *types.Func) string {
	dir := strings.TrimPrefix(f.Pkg().Path(), modPath)
	recv := ""
	if sig := f.Type().(*types.Signature); sig.Recv() != nil {
		rt := sig.Recv().Type()
		if p, ok := rt.(*types.Pointer); ok {
			rt = p.Elem()
		}
		if n, ok := types.Unalias(rt).(*types.Named); ok {
			recv = n.Obj().Name()
			dir = strings.TrimPrefix(n.Obj().Pkg().Path(), modPath)
		}
	}
	return fullName(dir, recv, f.Name())
}

// usesLibm: the function or anything it calls uses a libm function.
func (t *T) usesLibm(fn string, seen map[string]bool) bool {
	if seen[fn] {
		return false
	}
	seen[fn] = true
	if t.libm[fn] {
		return true
	}
	for _, c := range t.calls[fn] {
		if t.usesLibm(c, seen) {
			return true
		}
	}
	return false
}

func (t *T) ensureFunc(f *types.Func) (lean string, mutates bool, err error) {
	if f.Pkg() == nil || !strings.HasPrefix(f.Pkg().Path(), modPath) {
		return "", false, fmt.Errorf("call of %s is outside the subset", f.FullName())
	}
	dir := strings.TrimPrefix(f.Pkg().Path(), modPath)
	recv := ""
	sig := f.Type().(*types.Signature)
	if sig.Recv() != nil {
		rt := sig.Recv().Type()
		if p, ok := rt.(*types.Pointer); ok {
			rt = p.Elem()
		}
		n, ok := types.Unalias(rt).(*types.Named)
		if !ok {
			return "", false, fmt.Errorf("call of method %s on an unnamed/interface type", f.FullName())
		}
		if _, isIface := n.Underlying().(*types.Interface); isIface {
			return "", false, fmt.Errorf("dynamic call %s is outside the subset", f.FullName())
		}
		recv = n.Obj().Name()
		dir = strings.TrimPrefix(n.Obj().Pkg().Path(), modPath)
	}
	ln, err := t.ensure(dir, recv, f.Name())
	if err != nil {
		return "", false, err
	}
	return ln, t.mutates[fullName(dir, recv, f.Name())], nil
}

func (fx *fnCtx) callArgs(callee *types.Func, args []ast.Expr) (string, error) {
	if outIdx := fx.t.outParamIdx(callee); len(outIdx) > 0 {
		// expression position: only `nil` may be passed for the out-pointer parameters; the value is the first component
		text, binds, err := fx.outArgs(callee, args, outIdx)
		if err != nil {
			return "", err
		}
		for _, b := range binds {
			if b.kind != "nil" {
				return "", fmt.Errorf("call with a non-nil out-pointer argument in expression position")
			}
		}
		if callee.Type().(*types.Signature).Results().Len() == 0 {
			return "", fmt.Errorf("call without results in expression position")
		}
		return text + "\x00", nil // marker: callText projects the first component
	}
	sig := callee.Type().(*types.Signature)
	if sig.Variadic() {
		return "", fmt.Errorf("variadic call")
	}
	if len(args) != sig.Params().Len() {
		return "", fmt.Errorf("argument count mismatch (multi-value argument?)")
	}
	out := ""
	for i, a := range args {
		s, err := fx.exprAs(a, sig.Params().At(i).Type())
		if err != nil {
			return "", err
		}
		out += " " + s
	}
	return out, nil
}

func (fx *fnCtx) call(x *ast.CallExpr, want types.Type) (string, error) {
	// conversions
	if tv, ok := fx.pi.info.Types[x.Fun]; ok && tv.IsType() {
		if len(x.Args) != 1 {
			return "", fmt.Errorf("bad conversion")
		}
		from := fx.pi.info.Types[x.Args[0]].Type
		if isFloat(tv.Type) && (isFloat(from)) {
			return fx.exprAs(x.Args[0], tv.Type)
		}
		if isInt(tv.Type) && isInt(from) {
			return fx.exprAs(x.Args[0], nil)
		}
		if isFloat(tv.Type) && isInt(from) {
			a, err := fx.exprAs(x.Args[0], nil)
			if err != nil {
				return "", err
			}
			return "(HasOfInt.ofInt " + a + ")", nil
		}
		if types.Identical(types.Unalias(tv.Type), types.Unalias(from)) {
			return fx.exprAs(x.Args[0], tv.Type)
		}
		return "", fmt.Errorf("conversion %s -> %s is outside the subset", from, tv.Type)
	}
	switch f := x.Fun.(type) {
	case *ast.SelectorExpr:
		// package-qualified function?
		if id, ok := f.X.(*ast.Ident); ok {
			if pn, ok := fx.pi.info.Uses[id].(*types.PkgName); ok {
				if pn.Imported().Path() == "math" {
					return fx.mathCall(f.Sel.Name, x.Args)
				}
				callee, ok := fx.pi.info.Uses[f.Sel].(*types.Func)
				if !ok {
					return "", fmt.Errorf("unsupported qualified call %s.%s", id.Name, f.Sel.Name)
				}
				ln, mut, err := fx.ensureCallee(callee)
				if err != nil {
					return "", err
				}
				if mut {
					return "", fmt.Errorf("mutating call in expression position")
				}
				args, err := fx.callArgs(callee, x.Args)
				if err != nil {
					return "", err
				}
				return callText(ln + args), nil
			}
		}
		sel, ok := fx.pi.info.Selections[f]
		if !ok || sel.Kind() != types.MethodVal {
			return "", fmt.Errorf("unsupported call %s", f.Sel.Name)
		}
		callee := sel.Obj().(*types.Func)
		if len(sel.Index()) != 1 {
			return "", fmt.Errorf("promoted method call is outside the subset")
		}
		ln, mut, err := fx.ensureCallee(callee)
		if err != nil {
			return "", err
		}
		if mut {
			return "", fmt.Errorf("mutating method %s used as an expression", callee.Name())
		}
		recv, err := fx.exprAs(f.X, nil)
		if err != nil {
			return "", err
		}
		args, err := fx.callArgs(callee, x.Args)
		if err != nil {
			return "", err
		}
		return callText(ln + " " + recv + args), nil
	case *ast.Ident:
		if b, isBuiltin := fx.pi.info.Uses[f].(*types.Builtin); isBuiltin && b.Name() == "len" && len(x.Args) == 1 {
			at := types.Unalias(fx.pi.info.Types[x.Args[0]].Type)
			if p, ok := at.(*types.Pointer); ok {
				at = types.Unalias(p.Elem())
			}
			switch u := at.Underlying().(type) {
			case *types.Array:
				return fmt.Sprintf("(%d : Int)", u.Len()), nil
			case *types.Slice:
				if _, err := fx.t.leanType(u); err != nil {
					return "", err
				}
				a, err := fx.exprAs(x.Args[0], nil)
				if err != nil {
					return "", err
				}
				return "(Int.ofNat (List.length " + a + "))", nil
			}
			return "", fmt.Errorf("len of %s is outside the subset", at)
		}
		if b, isBuiltin := fx.pi.info.Uses[f].(*types.Builtin); isBuiltin && b.Name() == "make" && (len(x.Args) == 2 || len(x.Args) == 3) {
			sl, isSlice := types.Unalias(fx.pi.info.Types[x].Type).Underlying().(*types.Slice)
			if !isSlice {
				return "", fmt.Errorf("make of a non-slice is outside the subset")
			}
			if _, err := fx.t.leanType(sl); err != nil {
				return "", err
			}
			z, err := fx.t.zeroValue(sl.Elem())
			if err != nil {
				return "", err
			}
			n, err := fx.exprAs(x.Args[1], types.Typ[types.Int])
			if err != nil {
				return "", err
			}
			return "(List.replicate (Int.toNat " + n + ") " + z + ")", nil
		}
		if b, isBuiltin := fx.pi.info.Uses[f].(*types.Builtin); isBuiltin && b.Name() == "append" && len(x.Args) >= 1 {
			sl, isSlice := types.Unalias(fx.pi.info.Types[x].Type).Underlying().(*types.Slice)
			if !isSlice {
				return "", fmt.Errorf("append to a non-slice")
			}
			if _, err := fx.t.leanType(sl); err != nil {
				return "", err
			}
			a, err := fx.exprAs(x.Args[0], fx.pi.info.Types[x].Type)
			if err != nil {
				return "", err
			}
			if x.Ellipsis.IsValid() {
				if len(x.Args) != 2 {
					return "", fmt.Errorf("unsupported append form")
				}
				b, err := fx.exprAs(x.Args[1], fx.pi.info.Types[x].Type)
				if err != nil {
					return "", err
				}
				return "(" + a + " ++ " + b + ")", nil
			}
			var parts []string
			for _, e := range x.Args[1:] {
				v, err := fx.exprAs(e, sl.Elem())
				if err != nil {
					return "", err
				}
				parts = append(parts, v)
			}
			return "(" + a + " ++ [" + strings.Join(parts, ", ") + "])", nil
		}
		callee, ok := fx.pi.info.Uses[f].(*types.Func)
		if !ok {
			return "", fmt.Errorf("call of %s is outside the subset (builtin, closure or variable)", f.Name)
		}
		ln, mut, err := fx.ensureCallee(callee)
		if err != nil {
			return "", err
		}
		if mut {
			return "", fmt.Errorf("mutating call in expression position")
		}
		args, err := fx.callArgs(callee, x.Args)
		if err != nil {
			return "", err
		}
		return callText(ln + args), nil
	}
	return "", fmt.Errorf("unsupported call form %T", x.Fun)
}

// callText renders an application; a trailing marker (set by callArgs for callees with out-pointer
// parameters that all receive nil) selects the ordinary result.
func callText(app string) string {
	if strings.HasSuffix(app, "\x00") {
		return "(" + strings.TrimSuffix(app, "\x00") + ").1"
	}
	return "(" + app + ")"
}

func (fx *fnCtx) mathCall(name string, args []ast.Expr) (string, error) {
	f64 := types.Typ[types.Float64]
	switch name {
	case "Inf":
		if len(args) == 1 {
			if sgn, ok := fx.constInt(args[0]); ok {
				if sgn >= 0 {
					return "(HasInf.posInf : α)", nil
				}
				return "(HasInf.negInf : α)", nil
			}
		}
		return "", fmt.Errorf("math.Inf with a non-constant sign is outside the subset")
	case "IsNaN":
		if len(args) == 1 {
			a, err := fx.exprAs(args[0], f64)
			if err != nil {
				return "", err
			}
			return "(HasInf.isNaN " + a + ")", nil
		}
	case "IsInf":
		if len(args) == 2 {
			if sgn, ok := fx.constInt(args[1]); ok {
				a, err := fx.exprAs(args[0], f64)
				if err != nil {
					return "", err
				}
				switch {
				case sgn > 0:
					return "(feq " + a + " (HasInf.posInf : α))", nil
				case sgn < 0:
					return "(feq " + a + " (HasInf.negInf : α))", nil
				}
				return "(let _x := " + a + "; (feq _x (HasInf.posInf : α) || feq _x (HasInf.negInf : α)))", nil
			}
		}
		return "", fmt.Errorf("math.IsInf with a non-constant sign is outside the subset")
	}
	un := map[string]string{"Sqrt": "HasSqrt.sqrt", "Abs": "absS",
		// libm functions: uninterpreted in theorems (class HasLibm), Float's own at run time (not bit-compatible
		// with Go's pure-Go implementations, so entries that use them are excluded from the bit-exact validation)
		"Cos": "HasLibm.cos", "Sin": "HasLibm.sin", "Tan": "HasLibm.tan", "Acos": "HasLibm.acos", "Asin": "HasLibm.asin",
		"Atan": "HasLibm.atan", "Exp": "HasLibm.exp", "Log": "HasLibm.log"}
	bin := map[string]string{"Min": "mn", "Max": "mx", "Pow": "HasLibm.pow", "Atan2": "HasLibm.atan2"}
	if strings.HasPrefix(un[name], "HasLibm") || strings.HasPrefix(bin[name], "HasLibm") {
		fx.t.libm[fx.fn] = true
	}
	if l, ok := un[name]; ok && len(args) == 1 {
		a, err := fx.exprAs(args[0], f64)
		if err != nil {
			return "", err
		}
		return "(" + l + " " + a + ")", nil
	}
	if l, ok := bin[name]; ok && len(args) == 2 {
		a, err := fx.exprAs(args[0], f64)
		if err != nil {
			return "", err
		}
		b, err := fx.exprAs(args[1], f64)
		if err != nil {
			return "", err
		}
		return "(" + l + " " + a + " " + b + ")", nil
	}
	return "", fmt.Errorf("math.%s is outside the subset", name)
}

// ---------------------------------------------------------------- output

// Emit renders the Lean module.
func (t *T) Emit(module string, roots []Root) string {
	var sb strings.Builder
	sb.WriteString("import M3d.GenPrelude\n")
	sb.WriteString("/-! GENERATED by harness/hlib/go2lean from the Go source of /repo (`-gen " + module + "`).\n")
	sb.WriteString("Do not edit: regenerated from the current source on every check; the theorems in\n")
	sb.WriteString("`M3d/Lemmas/KernelsTie*.lean` re-prove, against this text, that the hand-written models compute the same functions.\n\nRoots:\n")
	for _, r := range roots {
		sb.WriteString("  " + r.String() + "\n")
	}
	sb.WriteString("-/\nset_option linter.unusedVariables false\nnamespace M3d.Gen." + module + "\nopen M3d.GenPrelude\n\n")
	for _, n := range t.sorder {
		sb.WriteString(t.structs[n])
		sb.WriteString("\n")
	}
	var lits []string
	for l := range t.lits {
		lits = append(lits, l)
	}
	sort.Slice(lits, func(i, j int) bool {
		if len(lits[i]) != len(lits[j]) {
			return len(lits[i]) < len(lits[j])
		}
		return lits[i] < lits[j]
	})
	sb.WriteString("section\nvariable {α : Type} [_root_.Add α] [_root_.Sub α] [_root_.Mul α] [_root_.Div α] [_root_.Neg α] [_root_.LT α] [DecidableLT α] [_root_.LE α] [DecidableLE α]\n  [_root_.OfScientific α] [HasSqrt α] [HasLibm α] [HasOfInt α] [HasInf α]")
	for _, l := range lits {
		sb.WriteString(" [_root_.OfNat α " + l + "]")
	}
	sb.WriteString("\n\n")
	for _, d := range t.defs {
		sb.WriteString(d)
		sb.WriteString("\n")
	}
	sb.WriteString("end\n\n")
	tab, _ := t.emitTable(roots)
	sb.WriteString(tab)
	sb.WriteString("\nend M3d.Gen." + module + "\n")
	return sb.String()
}

// Generate translates all roots; any untranslatable root is an error (the tie is broken).
func Generate(repo, module string, roots []Root) (string, error) {
	t, err := New(repo)
	if err != nil {
		return "", err
	}
	// A root that is no longer in the subset is LEFT OUT (with its reason in the header) instead of failing
	// the whole module: then exactly the tie theorems that mention it stop compiling, i.e. the broken
	// obligation is reported by the properties that depend on that function and by no other.
	var okRoots []Root
	var errs []string
	for _, r := range roots {
		if err := t.Translate(r); err != nil {
			errs = append(errs, strings.ReplaceAll(err.Error(), "\n", " "))
		} else {
			okRoots = append(okRoots, r)
		}
	}
	text := t.Emit(module, okRoots)
	if len(errs) > 0 {
		note := "/-! NOT TRANSLATED (outside the subset in the current source; tie theorems that need them fail):\n"
		for _, e := range errs {
			note += "  " + strings.ReplaceAll(e, "-/", "- /") + "\n"
		}
		note += "-/\n"
		text = strings.Replace(text, "set_option linter.unusedVariables false\n", note+"set_option linter.unusedVariables false\n", 1)
	}
	return text, nil
}

// Survey tries every function of a package directory and reports which translate (used to choose roots).
func Survey(repo, dir string) (ok []string, bad map[string]string, err error) {
	t, err := New(repo)
	if err != nil {
		return nil, nil, err
	}
	pi, err := t.load(dir)
	if err != nil {
		return nil, nil, err
	}
	var keys []string
	for k := range pi.funcs {
		keys = append(keys, k)
	}
	sort.Strings(keys)
	bad = map[string]string{}
	for _, k := range keys {
		recv, name := "", k
		if i := strings.Index(k, "."); i >= 0 {
			recv, name = k[:i], k[i+1:]
		}
		if e := t.Translate(Root{Dir: dir, Recv: recv, Name: name}); e != nil {
			bad[k] = e.Error()
		} else {
			ok = append(ok, k)
		}
	}
	return ok, bad, nil
}

// ---------------------------------------------------------------- executable table (translation validation)

// leaves returns accessor expressions of the float/bool leaves of a value of type ty held in `v`
// (Go field order), or ok=false when the type has other leaves.
func (t *T) leaves(ty types.Type, v string) (out []string, ok bool) {
	ty = types.Unalias(ty)
	if p, isPtr := ty.(*types.Pointer); isPtr {
		ty = types.Unalias(p.Elem())
	}
	if b, isB := ty.Underlying().(*types.Basic); isB {
		switch b.Kind() {
		case types.Float64:
			return []string{v}, true
		case types.Bool:
			return []string{"(if " + v + " then (1.0 : Float) else 0.0)"}, true
		}
		return nil, false
	}
	switch u := ty.Underlying().(type) {
	case *types.Struct:
		for i := 0; i < u.NumFields(); i++ {
			l, ok := t.leaves(u.Field(i).Type(), v+"."+ident(u.Field(i).Name()))
			if !ok {
				return nil, false
			}
			out = append(out, l...)
		}
		return out, true
	case *types.Array:
		for i := int64(0); i < u.Len(); i++ {
			l, ok := t.leaves(u.Elem(), fmt.Sprintf("%s.e%d", v, i))
			if !ok {
				return nil, false
			}
			out = append(out, l...)
		}
		return out, true
	}
	return nil, false
}

// build returns a constructor expression for a value of type ty read from a[*idx...].
func (t *T) build(ty types.Type, idx *int) (string, bool) {
	ty = types.Unalias(ty)
	if p, isPtr := ty.(*types.Pointer); isPtr {
		ty = types.Unalias(p.Elem())
	}
	if b, isB := ty.Underlying().(*types.Basic); isB {
		if b.Kind() == types.Float64 {
			s := fmt.Sprintf("a[%d]!", *idx)
			*idx++
			return s, true
		}
		return "", false
	}
	lt, err := t.leanType(ty)
	if err != nil {
		return "", false
	}
	lt = strings.ReplaceAll(lt, "α", "Float")
	var parts []string
	switch u := ty.Underlying().(type) {
	case *types.Struct:
		for i := 0; i < u.NumFields(); i++ {
			s, ok := t.build(u.Field(i).Type(), idx)
			if !ok {
				return "", false
			}
			parts = append(parts, ident(u.Field(i).Name())+" := "+s)
		}
	case *types.Array:
		for i := int64(0); i < u.Len(); i++ {
			s, ok := t.build(u.Elem(), idx)
			if !ok {
				return "", false
			}
			parts = append(parts, fmt.Sprintf("e%d := %s", i, s))
		}
	default:
		return "", false
	}
	return "({ " + strings.Join(parts, ", ") + " } : " + lt + ")", true
}

// TableEntry describes one executable entry (also used by the Go harness to call the real function).
type TableEntry struct {
	Root    Root
	NIn     int
	NOut    int
	Mutates bool
	Libm    bool // uses cos/sin/pow...: not bit-comparable with Go's implementations
	Var     bool // variable-shape entry (kernelTableV): slices / ints in the signature
}

// emitTable renders `kernelTable`: every root whose parameters and results flatten to floats
// (booleans as 0/1 in results), instantiated at `Float`, so that the output of the translator is
// EXECUTED against the function it was translated from on every run.
func (t *T) emitTable(roots []Root) (string, []TableEntry) {
	var sb strings.Builder
	var entries []TableEntry
	sb.WriteString("/-- name, number of float inputs, the generated definition at `Float` on flattened arguments. -/\n")
	sb.WriteString("def kernelTable : List (String × Nat × (Array Float → List Float)) := [\n")
	first := true
	var vlines []string
	for _, r := range roots {
		fn := fullName(r.Dir, r.Recv, r.Name)
		pi := t.dirs[r.Dir]
		key := r.Name
		if r.Recv != "" {
			key = r.Recv + "." + r.Name
		}
		fd := pi.funcs[key]
		obj, _ := pi.info.Defs[fd.Name].(*types.Func)
		sig := obj.Type().(*types.Signature)
		if t.hasOuts[fn] {
			continue // Option-valued parameters: validated through their callers
		}
		idx := 0
		var args []string
		ok := true
		if sig.Recv() != nil {
			s, o := t.build(sig.Recv().Type(), &idx)
			ok = ok && o
			args = append(args, s)
		}
		for i := 0; i < sig.Params().Len() && ok; i++ {
			s, o := t.build(sig.Params().At(i).Type(), &idx)
			ok = ok && o
			args = append(args, s)
		}
		if !ok {
			if line, okV := t.entryV(r, sig, fn); okV {
				vlines = append(vlines, line)
				entries = append(entries, TableEntry{Root: r, Mutates: false, Libm: t.usesLibm(fn, map[string]bool{}), Var: true})
			}
			continue
		}
		var outs []string
		if t.mutates[fn] {
			l, o := t.leaves(sig.Recv().Type(), "r")
			ok = o
			outs = l
		} else if sig.Results().Len() == 1 {
			l, o := t.leaves(sig.Results().At(0).Type(), "r")
			ok = o
			outs = l
		} else {
			for i := 0; i < sig.Results().Len() && ok; i++ {
				acc := "r"
				// nested pairs: (a, b, c) = (a, (b, c))
				for j := 0; j < i; j++ {
					acc += ".2"
				}
				if i < sig.Results().Len()-1 {
					acc += ".1"
				}
				l, o := t.leaves(sig.Results().At(i).Type(), acc)
				ok = ok && o
				outs = append(outs, l...)
			}
		}
		if !ok || len(outs) == 0 {
			if line, okV := t.entryV(r, sig, fn); okV {
				vlines = append(vlines, line)
				entries = append(entries, TableEntry{Root: r, Mutates: false, Libm: t.usesLibm(fn, map[string]bool{}), Var: true})
			}
			continue
		}
		if !first {
			sb.WriteString(",\n")
		}
		first = false
		fmt.Fprintf(&sb, "  (%q, %d, fun (a : Array Float) => let r := %s (α := Float) %s; ([%s] : List Float))", r.String(), idx, t.lean[fn], strings.Join(args, " "), strings.Join(outs, ", "))
		entries = append(entries, TableEntry{Root: r, NIn: idx, NOut: len(outs), Mutates: t.mutates[fn], Libm: t.usesLibm(fn, map[string]bool{})})
	}
	sb.WriteString("]\n\n")
	sb.WriteString(tableVPrelude)
	sb.WriteString("/-- name, the generated definition at `Float` on the flat encoding (functions with slices / ints in the signature). -/\n")
	sb.WriteString("def kernelTableV : List (String × (Array Float → List Float)) := [\n")
	sb.WriteString(strings.Join(vlines, ",\n"))
	sb.WriteString("]\n")
	return sb.String(), entries
}

// Table lists the executable entries of the current source (for the Go side of the validation).
func Table(repo string, roots []Root) ([]TableEntry, error) {
	t, err := New(repo)
	if err != nil {
		return nil, err
	}
	var okRoots []Root
	for _, r := range roots {
		if err := t.Translate(r); err == nil {
			okRoots = append(okRoots, r)
		}
	}
	_, e := t.emitTable(okRoots)
	return e, nil
}
