package go2lean

// Loops whose trip count is not a compile-time constant (ranges over slices, `for i := a; i < b; i++`
// with variable bounds) and loops with break/continue are translated into the structural recursion
// `loopFrom` of M3d/GenPrelude.lean:
//
//	loopFrom f xs i s   runs f s i x over the elements x of xs (i = position), threading the tuple s of the
//	                    variables the body assigns; f answers Loop.next s' (go on), Loop.brk s' (break) or
//	                    Loop.ret r (return r from the enclosing function).
//
// The result is Sum.inl r (the function returns r) or Sum.inr s' (the loop is over, the variables hold s').

import (
	"fmt"
	"go/ast"
	"go/token"
	"go/types"
	"strings"
)

// jumps: the statement contains a break or continue (of this or an inner loop).
func jumps(n ast.Node) bool {
	found := false
	ast.Inspect(n, func(m ast.Node) bool {
		switch b := m.(type) {
		case *ast.BranchStmt:
			if b.Tok == token.BREAK || b.Tok == token.CONTINUE {
				found = true
			}
		case *ast.FuncLit:
			return false
		}
		return !found
	})
	return found
}

func mentions(e ast.Node, names map[string]bool) bool {
	found := false
	ast.Inspect(e, func(m ast.Node) bool {
		if id, ok := m.(*ast.Ident); ok && names[id.Name] {
			found = true
		}
		return !found
	})
	return found
}

// onlyLenCalls: the expression calls nothing but len (so it cannot observe state the body changes
// other than through the variables it names).
func onlyLenCalls(e ast.Expr) bool {
	ok := true
	ast.Inspect(e, func(m ast.Node) bool {
		if c, isCall := m.(*ast.CallExpr); isCall {
			if id, isId := c.Fun.(*ast.Ident); !isId || id.Name != "len" {
				ok = false
			}
		}
		return ok
	})
	return ok
}

// foldRange: `for k, v := range xs` over a slice (or a fixed array when the body breaks/continues).
func (fx *fnCtx) foldRange(s *ast.RangeStmt, rest func() (string, error)) (string, error) {
	tv, ok := fx.pi.info.Types[s.X]
	if !ok {
		return "", fmt.Errorf("not a foldable loop: no type")
	}
	if s.Tok != token.DEFINE && (s.Key != nil || s.Value != nil) {
		return "", fmt.Errorf("not a foldable loop: range with =")
	}
	var elemT types.Type
	var dom string
	ty := types.Unalias(tv.Type)
	if p, isPtr := ty.(*types.Pointer); isPtr {
		ty = types.Unalias(p.Elem())
	}
	switch u := ty.Underlying().(type) {
	case *types.Slice:
		elemT = u.Elem()
		if _, err := fx.t.leanType(u); err != nil {
			return "", err
		}
		d, err := fx.exprAs(s.X, nil)
		if err != nil {
			return "", err
		}
		dom = d
	case *types.Array:
		elemT = u.Elem()
		if u.Len() > 16 {
			return "", fmt.Errorf("not a foldable loop: array too long")
		}
		a, err := fx.exprAs(s.X, nil)
		if err != nil {
			return "", err
		}
		var parts []string
		for i := int64(0); i < u.Len(); i++ {
			parts = append(parts, fmt.Sprintf("_arr.e%d", i))
		}
		dom = "(let _arr := " + a + "; [" + strings.Join(parts, ", ") + "])"
	default:
		return "", fmt.Errorf("not a foldable loop: range over %s", tv.Type)
	}
	et, err := fx.t.leanType(elemT)
	if err != nil {
		return "", err
	}
	vars, err := fx.assignedOuter(s.Body.List)
	if err != nil {
		return "", err
	}
	// Go reads xs[i] at iteration time: a body that writes the ranged slice and also uses the value
	// variable could see its own writes, which the fold over the original list would not show
	if id, isVal := s.Value.(*ast.Ident); isVal && id.Name != "_" {
		set := map[string]bool{}
		for _, v := range vars {
			set[v] = true
		}
		if mentions(s.X, set) {
			return "", fmt.Errorf("range over a slice that the body assigns is outside the subset")
		}
	}
	var binds []string
	var declared []*ast.Ident
	if id, ok := s.Key.(*ast.Ident); ok && id.Name != "_" {
		binds = append(binds, fmt.Sprintf("let %s : Int := Int.ofNat _i", ident(id.Name)))
		declared = append(declared, id)
	}
	if id, ok := s.Value.(*ast.Ident); ok && id.Name != "_" {
		binds = append(binds, fmt.Sprintf("let %s : %s := _el", ident(id.Name), et))
		declared = append(declared, id)
	}
	for _, e := range []ast.Expr{s.Key, s.Value} {
		if e != nil {
			if _, isId := e.(*ast.Ident); !isId {
				return "", fmt.Errorf("not a foldable loop: range target is not an identifier")
			}
		}
	}
	return fx.foldLoop(vars, et, dom, binds, declared, s.Body.List, rest)
}

// foldFor: `for i := lo; i < hi; i++` (or <=) where hi does not depend on anything the body assigns.
func (fx *fnCtx) foldFor(s *ast.ForStmt, rest func() (string, error)) (string, error) {
	init, ok := s.Init.(*ast.AssignStmt)
	if !ok || init.Tok != token.DEFINE || len(init.Lhs) != 1 || len(init.Rhs) != 1 {
		return "", fmt.Errorf("not a foldable loop: no `i := lo`")
	}
	iv, ok := init.Lhs[0].(*ast.Ident)
	if !ok {
		return "", fmt.Errorf("not a foldable loop: init")
	}
	if !isInt(fx.pi.info.Types[init.Rhs[0]].Type) {
		return "", fmt.Errorf("not a foldable loop: non-int loop variable")
	}
	cond, ok := s.Cond.(*ast.BinaryExpr)
	if !ok || (cond.Op != token.LSS && cond.Op != token.LEQ) {
		return "", fmt.Errorf("not a foldable loop: condition")
	}
	if ci, ok := cond.X.(*ast.Ident); !ok || ci.Name != iv.Name {
		return "", fmt.Errorf("not a foldable loop: condition")
	}
	post, ok := s.Post.(*ast.IncDecStmt)
	if !ok || post.Tok != token.INC {
		return "", fmt.Errorf("not a foldable loop: only i++")
	}
	if pi, ok := post.X.(*ast.Ident); !ok || pi.Name != iv.Name {
		return "", fmt.Errorf("not a foldable loop: only i++")
	}
	vars, err := fx.assignedOuter(s.Body.List)
	if err != nil {
		return "", err
	}
	set := map[string]bool{iv.Name: true}
	for _, v := range vars {
		set[v] = true
	}
	if mentions(cond.Y, set) || !onlyLenCalls(cond.Y) {
		return "", fmt.Errorf("not a foldable loop: the bound depends on the body")
	}
	// the loop variable must not be assigned in the body
	bad := false
	ast.Inspect(s.Body, func(n ast.Node) bool {
		switch a := n.(type) {
		case *ast.AssignStmt:
			for _, l := range a.Lhs {
				if id, ok := l.(*ast.Ident); ok && id.Name == iv.Name {
					bad = true
				}
			}
		case *ast.IncDecStmt:
			if id, ok := a.X.(*ast.Ident); ok && id.Name == iv.Name {
				bad = true
			}
		case *ast.UnaryExpr:
			if id, ok := a.X.(*ast.Ident); ok && a.Op == token.AND && id.Name == iv.Name {
				bad = true
			}
		}
		return true
	})
	if bad {
		return "", fmt.Errorf("not a foldable loop: loop variable assigned in the body")
	}
	lo, err := fx.exprAs(init.Rhs[0], types.Typ[types.Int])
	if err != nil {
		return "", err
	}
	hi, err := fx.exprAs(cond.Y, types.Typ[types.Int])
	if err != nil {
		return "", err
	}
	n := "(" + hi + " - " + lo + ")"
	if cond.Op == token.LEQ {
		n = "(" + hi + " - " + lo + " + 1)"
	}
	dom := "(List.range (Int.toNat " + n + "))"
	binds := []string{fmt.Sprintf("let %s : Int := %s + Int.ofNat _i", ident(iv.Name), lo)}
	return fx.foldLoop(vars, "Nat", dom, binds, []*ast.Ident{iv}, s.Body.List, rest)
}

func (fx *fnCtx) foldLoop(vars []string, elemT, dom string, binds []string, declared []*ast.Ident, body []ast.Stmt, rest func() (string, error)) (string, error) {
	var ids, tys []string
	for _, v := range vars {
		lt, err := fx.t.leanType(fx.scope[v])
		if err != nil {
			return "", err
		}
		ids = append(ids, ident(v))
		tys = append(tys, lt)
	}
	pat, st := "()", "Unit"
	if len(ids) > 0 {
		pat = tuple(ids)
		st = strings.Join(tys, " × ")
		if len(tys) > 1 {
			st = "(" + st + ")"
		}
	}
	before := map[string]types.Type{}
	for k, v := range fx.scope {
		before[k] = v
	}
	for _, id := range declared {
		if _, dup := fx.scope[id.Name]; dup {
			return "", fmt.Errorf("shadowing of %s is outside the subset", id.Name)
		}
		if obj := fx.pi.info.Defs[id]; obj != nil {
			fx.scope[id.Name] = obj.Type()
		} else {
			fx.scope[id.Name] = types.Typ[types.Int]
		}
	}
	outerWrap := fx.retWrap
	fx.retWrap = func(v string) string { return "(Loop.ret " + v + ")" }
	fx.loopPat = append(fx.loopPat, pat)
	savedConsts := fx.consts
	b, err := fx.block(body, func() (string, error) { return "(Loop.next " + pat + ")", nil })
	fx.consts = savedConsts
	fx.loopPat = fx.loopPat[:len(fx.loopPat)-1]
	fx.retWrap = outerWrap
	fx.scope = before
	if err != nil {
		return "", err
	}
	r, err := rest()
	if err != nil {
		return "", err
	}
	var sb strings.Builder
	fmt.Fprintf(&sb, "(match loopFrom (ρ := %s) (σ := %s) (ε := %s) (fun _st _i _el =>\n", fx.resT, st, elemT)
	if len(ids) > 0 {
		fmt.Fprintf(&sb, "    let %s := _st\n", pat)
	}
	for _, l := range binds {
		sb.WriteString("    " + l + "\n")
	}
	sb.WriteString(indent(b, "    "))
	fmt.Fprintf(&sb, ") %s 0 %s with\n", dom, pat)
	outer := "_r"
	if outerWrap != nil {
		outer = outerWrap("_r")
	}
	fmt.Fprintf(&sb, "| Sum.inl _r => %s\n", outer)
	p2 := pat
	if len(ids) == 0 {
		p2 = "_"
	}
	fmt.Fprintf(&sb, "| Sum.inr %s =>\n%s)", p2, indent(r, "  "))
	return sb.String(), nil
}

// ---------------------------------------------------------------- slices

// sliceFree: values of this type contain no slice or pointer (so a call returning it cannot alias an argument).
func sliceFree(ty types.Type, depth int) bool {
	if depth > 6 {
		return false
	}
	ty = types.Unalias(ty)
	switch u := ty.Underlying().(type) {
	case *types.Basic:
		return true
	case *types.Struct:
		for i := 0; i < u.NumFields(); i++ {
			if !sliceFree(u.Field(i).Type(), depth+1) {
				return false
			}
		}
		return true
	case *types.Array:
		return sliceFree(u.Elem(), depth+1)
	case *types.Tuple:
		for i := 0; i < u.Len(); i++ {
			if !sliceFree(u.At(i).Type(), depth+1) {
				return false
			}
		}
		return true
	}
	return false
}

// storableSlices: the local slice variables of fd whose backing array is provably reachable through no other
// name: created by make / a composite literal / `var s []T`, re-assigned only by `s = append(s, …)` or a fresh
// make/literal, and otherwise used only as s[i], len(s), range s, `return s`, or an argument of a call whose
// results hold no slice or pointer.  Only for these is `s[i] = v` the functional update `List.set`.
func storableSlices(pi *pkgInfo, fd *ast.FuncDecl) map[string]bool {
	isSlice := func(id *ast.Ident) bool {
		var ty types.Type
		if o := pi.info.Defs[id]; o != nil {
			ty = o.Type()
		} else if o := pi.info.Uses[id]; o != nil {
			ty = o.Type()
		}
		if ty == nil {
			return false
		}
		_, ok := types.Unalias(ty).Underlying().(*types.Slice)
		return ok
	}
	fresh := func(e ast.Expr) bool {
		switch x := e.(type) {
		case *ast.CompositeLit:
			return true
		case *ast.CallExpr:
			if id, ok := x.Fun.(*ast.Ident); ok && id.Name == "make" {
				return true
			}
		}
		return false
	}
	cand := map[string]bool{}
	bad := map[string]bool{}
	allowed := map[*ast.Ident]bool{} // identifier occurrences in an allowed context
	params := map[string]bool{}
	for _, f := range fd.Type.Params.List {
		for _, n := range f.Names {
			params[n.Name] = true
		}
	}
	if fd.Recv != nil {
		for _, f := range fd.Recv.List {
			for _, n := range f.Names {
				params[n.Name] = true
			}
		}
	}
	selfAppend := func(lhs *ast.Ident, rhs ast.Expr) bool {
		c, ok := rhs.(*ast.CallExpr)
		if !ok {
			return false
		}
		id, ok := c.Fun.(*ast.Ident)
		if !ok || id.Name != "append" || len(c.Args) == 0 {
			return false
		}
		a0, ok := c.Args[0].(*ast.Ident)
		if !ok || a0.Name != lhs.Name {
			return false
		}
		allowed[a0] = true
		return true
	}
	ast.Inspect(fd.Body, func(n ast.Node) bool {
		switch s := n.(type) {
		case *ast.FuncLit:
			// closures may capture anything: every slice they mention is disqualified
			ast.Inspect(s, func(m ast.Node) bool {
				if id, ok := m.(*ast.Ident); ok {
					bad[id.Name] = true
				}
				return true
			})
			return false
		case *ast.AssignStmt:
			if len(s.Lhs) == len(s.Rhs) {
				for i, l := range s.Lhs {
					id, ok := l.(*ast.Ident)
					if !ok || !isSlice(id) {
						continue
					}
					allowed[id] = true
					if fresh(s.Rhs[i]) {
						cand[id.Name] = true
					} else if s.Tok == token.ASSIGN && selfAppend(id, s.Rhs[i]) {
					} else {
						bad[id.Name] = true
					}
				}
			} else {
				for _, l := range s.Lhs {
					if id, ok := l.(*ast.Ident); ok && isSlice(id) {
						bad[id.Name] = true
					}
				}
			}
		case *ast.ValueSpec:
			for i, id := range s.Names {
				if !isSlice(id) {
					continue
				}
				allowed[id] = true
				if i >= len(s.Values) || fresh(s.Values[i]) {
					cand[id.Name] = true
				} else {
					bad[id.Name] = true
				}
			}
		case *ast.IndexExpr:
			if id, ok := s.X.(*ast.Ident); ok {
				allowed[id] = true
			}
		case *ast.RangeStmt:
			if id, ok := s.X.(*ast.Ident); ok {
				allowed[id] = true
			}
		case *ast.ReturnStmt:
			for _, r := range s.Results {
				if id, ok := r.(*ast.Ident); ok {
					allowed[id] = true
				}
			}
		case *ast.CallExpr:
			if id, ok := s.Fun.(*ast.Ident); ok && id.Name == "len" {
				for _, a := range s.Args {
					if aid, ok := a.(*ast.Ident); ok {
						allowed[aid] = true
					}
				}
				return true
			}
			if tv, ok := pi.info.Types[s]; ok && tv.Type != nil && sliceFree(tv.Type, 0) {
				for _, a := range s.Args {
					if aid, ok := a.(*ast.Ident); ok {
						allowed[aid] = true
					}
				}
				if sel, ok := s.Fun.(*ast.SelectorExpr); ok {
					if rid, ok := sel.X.(*ast.Ident); ok {
						allowed[rid] = true
					}
				}
			}
		}
		return true
	})
	ast.Inspect(fd.Body, func(n ast.Node) bool {
		if _, isLit := n.(*ast.FuncLit); isLit {
			return false
		}
		if id, ok := n.(*ast.Ident); ok && cand[id.Name] && !allowed[id] && isSlice(id) {
			bad[id.Name] = true
		}
		return true
	})
	out := map[string]bool{}
	for k := range cand {
		if !bad[k] && !params[k] {
			out[k] = true
		}
	}
	return out
}
