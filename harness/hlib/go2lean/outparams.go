package go2lean

// Out-pointer parameters: a pointer parameter that the function stores through (`*p = v`, `p.X = v`),
// compares with nil, or hands to another function's out-pointer parameter.  Such a parameter becomes an
// `Option T` argument (none = nil) and its final value an extra component of the result:
//
//	func f(x T, out *U) R        ~>   def f (x : T) (out : Option U) : R × Option U
//	*out = v                     ~>   let out := Option.map (fun _ => v) out      (a store through nil panics in Go)
//	out != nil                   ~>   Option.isSome out
//	r := f(x, &u)                ~>   let (r, _o) := f x (some u); let u := Option.getD _o u
//	f(x, nil) in an expression   ~>   (f x none).1
//
// Local pointer variables initialised from `&T{…}` and never copied are plain values (freshPtrLocals).

import (
	"fmt"
	"go/ast"
	"go/token"
	"go/types"
)

func (t *T) declOf(f *types.Func) (*pkgInfo, *ast.FuncDecl) {
	if f.Pkg() == nil || !hasPrefix(f.Pkg().Path()) {
		return nil, nil
	}
	pi, err := t.load(f.Pkg().Path()[len(modPath):])
	if err != nil || pi == nil {
		return nil, nil
	}
	for _, fd := range pi.funcs {
		if pi.info.Defs[fd.Name] == f {
			return pi, fd
		}
	}
	return nil, nil
}

func rootIdent(e ast.Expr) (*ast.Ident, bool) {
	plain := true
	for {
		switch x := e.(type) {
		case *ast.ParenExpr:
			e = x.X
		case *ast.StarExpr:
			e, plain = x.X, false
		case *ast.IndexExpr:
			e, plain = x.X, false
		case *ast.SelectorExpr:
			e, plain = x.X, false
		case *ast.Ident:
			return x, plain
		default:
			return nil, false
		}
	}
}

func isNilIdent(e ast.Expr) bool {
	id, ok := e.(*ast.Ident)
	return ok && id.Name == "nil"
}

// outParamIdx lists the positions (in the signature's parameter list) of f's out-pointer parameters.
func (t *T) outParamIdx(f *types.Func) []int {
	key := f.FullName()
	if v, ok := t.outIdx[key]; ok {
		return v
	}
	t.outIdx[key] = nil // in progress: recursion counts as "not an out parameter"
	pi, fd := t.declOf(f)
	if fd == nil || fd.Body == nil {
		return nil
	}
	sig := f.Type().(*types.Signature)
	var out []int
	for i := 0; i < sig.Params().Len(); i++ {
		p := sig.Params().At(i)
		if _, isPtr := types.Unalias(p.Type()).(*types.Pointer); !isPtr {
			continue
		}
		is := false
		refers := func(id *ast.Ident) bool {
			return id != nil && (pi.info.Uses[id] == p || pi.info.Defs[id] == p)
		}
		ast.Inspect(fd.Body, func(n ast.Node) bool {
			switch s := n.(type) {
			case *ast.AssignStmt:
				for _, l := range s.Lhs {
					if id, plain := rootIdent(l); id != nil && !plain && refers(id) {
						is = true
					}
				}
			case *ast.IncDecStmt:
				if id, plain := rootIdent(s.X); id != nil && !plain && refers(id) {
					is = true
				}
			case *ast.BinaryExpr:
				if s.Op == token.EQL || s.Op == token.NEQ {
					if id, ok := s.X.(*ast.Ident); ok && refers(id) && isNilIdent(s.Y) {
						is = true
					}
					if id, ok := s.Y.(*ast.Ident); ok && refers(id) && isNilIdent(s.X) {
						is = true
					}
				}
			case *ast.CallExpr:
				var callee *types.Func
				switch fn := s.Fun.(type) {
				case *ast.Ident:
					callee, _ = pi.info.Uses[fn].(*types.Func)
				case *ast.SelectorExpr:
					callee, _ = pi.info.Uses[fn.Sel].(*types.Func)
				}
				if callee != nil && callee.Pkg() != nil && hasPrefix(callee.Pkg().Path()) {
					for _, j := range t.outParamIdx(callee) {
						if j < len(s.Args) {
							if id, ok := s.Args[j].(*ast.Ident); ok && refers(id) {
								is = true
							}
						}
					}
				}
			}
			return !is
		})
		if is {
			out = append(out, i)
		}
	}
	t.outIdx[key] = out
	return out
}

// freshPtrLocals: local pointer variables created by `x := &T{…}` that are never copied, so that stores
// through them are functional updates of a value.
func freshPtrLocals(pi *pkgInfo, fd *ast.FuncDecl) map[string]bool {
	cand := map[string]bool{}
	bad := map[string]bool{}
	allowed := map[*ast.Ident]bool{}
	ast.Inspect(fd.Body, func(n ast.Node) bool {
		switch s := n.(type) {
		case *ast.FuncLit:
			ast.Inspect(s, func(m ast.Node) bool {
				if id, ok := m.(*ast.Ident); ok {
					bad[id.Name] = true
				}
				return true
			})
			return false
		case *ast.AssignStmt:
			if len(s.Lhs) == len(s.Rhs) {
				for i, l := range s.Lhs {
					id, ok := l.(*ast.Ident)
					if !ok {
						continue
					}
					allowed[id] = true
					if u, isAddr := s.Rhs[i].(*ast.UnaryExpr); isAddr && u.Op == token.AND {
						if _, isLit := u.X.(*ast.CompositeLit); isLit && s.Tok == token.DEFINE {
							cand[id.Name] = true
							continue
						}
					}
					if call, isCall := s.Rhs[i].(*ast.CallExpr); isCall && s.Tok == token.DEFINE && freshCall(pi, call) {
						// p := f(values…): the callee is pure in the subset and received no pointer or slice, so
						// the object p points to is reachable through p only
						cand[id.Name] = true
						continue
					}
					if obj := pi.info.Defs[id]; obj != nil {
						if _, isPtr := types.Unalias(obj.Type()).(*types.Pointer); isPtr {
							bad[id.Name] = true
						}
					} else if obj := pi.info.Uses[id]; obj != nil {
						if _, isPtr := types.Unalias(obj.Type()).(*types.Pointer); isPtr {
							bad[id.Name] = true
						}
					}
				}
			}
		case *ast.SelectorExpr:
			if id, ok := s.X.(*ast.Ident); ok {
				allowed[id] = true // field access or method call through the pointer
			}
		case *ast.StarExpr:
			if id, ok := s.X.(*ast.Ident); ok {
				allowed[id] = true
			}
		case *ast.ReturnStmt:
			for _, r := range s.Results {
				if id, ok := r.(*ast.Ident); ok {
					allowed[id] = true
				}
			}
		}
		return true
	})
	ast.Inspect(fd.Body, func(n ast.Node) bool {
		if _, isLit := n.(*ast.FuncLit); isLit {
			return false
		}
		if id, ok := n.(*ast.Ident); ok && cand[id.Name] && !allowed[id] {
			bad[id.Name] = true
		}
		return true
	})
	out := map[string]bool{}
	for k := range cand {
		if !bad[k] {
			out[k] = true
		}
	}
	return out
}

// freshCall: every argument (and the receiver) of the call is a plain value without pointers or slices, so a
// pointer result cannot alias anything the caller can reach (translated callees read no globals).
func freshCall(pi *pkgInfo, call *ast.CallExpr) bool {
	for _, a := range call.Args {
		tv, ok := pi.info.Types[a]
		if !ok || tv.Type == nil || !sliceFree(tv.Type, 0) {
			return false
		}
	}
	if sel, ok := call.Fun.(*ast.SelectorExpr); ok {
		if id, isId := sel.X.(*ast.Ident); isId {
			if _, isPkg := pi.info.Uses[id].(*types.PkgName); isPkg {
				return true
			}
		}
		tv, ok := pi.info.Types[sel.X]
		if !ok || tv.Type == nil || !sliceFree(tv.Type, 0) {
			return false
		}
	}
	return true
}

// withOuts appends the current values of the out-pointer parameters to a returned value.
func (fx *fnCtx) withOuts(val string, hasVal bool) string {
	if len(fx.outOrder) == 0 {
		return val
	}
	var parts []string
	if hasVal {
		parts = append(parts, val)
	}
	for _, n := range fx.outOrder {
		parts = append(parts, ident(n))
	}
	return tuple(parts)
}

type outBind struct {
	kind string // "nil", "local" (&x), "own" (the caller's own out parameter)
	name string
}

// outArgs translates the arguments of a call whose callee has out-pointer parameters.
func (fx *fnCtx) outArgs(callee *types.Func, args []ast.Expr, outIdx []int) (string, []outBind, error) {
	sig := callee.Type().(*types.Signature)
	if sig.Variadic() || len(args) != sig.Params().Len() {
		return "", nil, fmt.Errorf("argument count mismatch (multi-value argument?)")
	}
	isOut := map[int]bool{}
	for _, i := range outIdx {
		isOut[i] = true
	}
	text := ""
	var binds []outBind
	for i, a := range args {
		if !isOut[i] {
			s, err := fx.exprAs(a, sig.Params().At(i).Type())
			if err != nil {
				return "", nil, err
			}
			text += " " + s
			continue
		}
		switch x := a.(type) {
		case *ast.Ident:
			if x.Name == "nil" {
				text += " none"
				binds = append(binds, outBind{kind: "nil"})
				continue
			}
			if fx.outParam[x.Name] {
				text += " " + ident(x.Name)
				binds = append(binds, outBind{kind: "own", name: x.Name})
				continue
			}
		case *ast.UnaryExpr:
			if id, ok := x.X.(*ast.Ident); ok && x.Op == token.AND {
				ty, inScope := fx.scope[id.Name]
				if inScope && !fx.outParam[id.Name] {
					if _, isPtr := types.Unalias(ty).(*types.Pointer); !isPtr || fx.freshPtr[id.Name] {
						text += " (some " + ident(id.Name) + ")"
						binds = append(binds, outBind{kind: "local", name: id.Name})
						continue
					}
				}
			}
		}
		return "", nil, fmt.Errorf("unsupported argument for an out-pointer parameter")
	}
	return text, binds, nil
}

// calleeOf resolves the static callee of a call expression (function, method value), or nil.
func (fx *fnCtx) calleeOf(x *ast.CallExpr) (*types.Func, ast.Expr) {
	switch f := x.Fun.(type) {
	case *ast.Ident:
		c, _ := fx.pi.info.Uses[f].(*types.Func)
		return c, nil
	case *ast.SelectorExpr:
		if id, ok := f.X.(*ast.Ident); ok {
			if _, isPkg := fx.pi.info.Uses[id].(*types.PkgName); isPkg {
				c, _ := fx.pi.info.Uses[f.Sel].(*types.Func)
				return c, nil
			}
		}
		if sel, ok := fx.pi.info.Selections[f]; ok && sel.Kind() == types.MethodVal && len(sel.Index()) == 1 {
			c, _ := sel.Obj().(*types.Func)
			return c, f.X
		}
	}
	return nil, nil
}

// outCall translates a call of a function with out-pointer parameters in STATEMENT position:
// `lhs… := f(args)` / `f(args)`; pattern = Lean pattern for the ordinary results ("" when there are none).
func (fx *fnCtx) outCall(x *ast.CallExpr, pattern string) (string, bool, error) {
	callee, recv := fx.calleeOf(x)
	if callee == nil || callee.Pkg() == nil || !hasPrefix(callee.Pkg().Path()) {
		return "", false, nil
	}
	outIdx := fx.t.outParamIdx(callee)
	if len(outIdx) == 0 {
		return "", false, nil
	}
	ln, mut, err := fx.ensureCallee(callee)
	if err != nil {
		return "", true, err
	}
	if mut {
		return "", true, fmt.Errorf("mutating method with out-pointer parameters")
	}
	args, binds, err := fx.outArgs(callee, x.Args, outIdx)
	if err != nil {
		return "", true, err
	}
	call := ln
	if recv != nil {
		r, err := fx.exprAs(recv, nil)
		if err != nil {
			return "", true, err
		}
		call += " " + r
	}
	call += args
	var pats []string
	if pattern != "" {
		pats = append(pats, pattern)
	}
	var after []string
	for i, b := range binds {
		v := fmt.Sprintf("_o%d", i)
		switch b.kind {
		case "nil":
			pats = append(pats, "_")
		case "own":
			pats = append(pats, v)
			after = append(after, fmt.Sprintf("let %s := %s", ident(b.name), v))
		case "local":
			pats = append(pats, v)
			after = append(after, fmt.Sprintf("let %s := Option.getD %s %s", ident(b.name), v, ident(b.name)))
		}
	}
	out := fmt.Sprintf("let %s := %s", tuple(pats), call)
	for _, l := range after {
		out += "\n" + l
	}
	return out, true, nil
}

func hasPrefix(p string) bool { return len(p) >= len(modPath) && p[:len(modPath)] == modPath }
