package go2lean

// Variable-shape entries of the translation validation (`kernelTableV`): functions whose parameters or
// results contain slices or ints.  Arguments are a flat float vector: a float as itself, an int as the float
// of the same value, a bool as 0/1, a struct/array as its members in order, a slice as its length followed by
// its elements.  Results are flattened the same way.

import (
	"fmt"
	"go/types"
	"strings"
)

const tableVPrelude = `/-- readers / writers of the flat float encoding used by ` + "`kernelTableV`" + ` -/
def rdF (a : Array Float) (p : Nat) : Float × Nat := (a[p]!, p + 1)
def rdI (a : Array Float) (p : Nat) : Int × Nat := ((a[p]!).toInt64.toInt, p + 1)
def rdB (a : Array Float) (p : Nat) : Bool × Nat := (a[p]! != 0, p + 1)
def rdL {τ : Type} (rd : Array Float → Nat → τ × Nat) (a : Array Float) (p : Nat) : List τ × Nat :=
  let n := (a[p]!).toUInt64.toNat
  (List.range n).foldl (fun (acc : List τ × Nat) _ => let (x, q) := rd a acc.2; (acc.1 ++ [x], q)) ([], p + 1)
def wrF (x : Float) : List Float := [x]
def wrI (x : Int) : List Float := [Float.ofInt x]
def wrB (x : Bool) : List Float := [if x then 1.0 else 0.0]
def wrL {τ : Type} (wr : τ → List Float) (xs : List τ) : List Float :=
  Float.ofNat xs.length :: xs.flatMap wr
`

func (t *T) floatType(ty types.Type) (string, bool) {
	lt, err := t.leanType(ty)
	if err != nil {
		return "", false
	}
	return strings.ReplaceAll(lt, "α", "Float"), true
}

// reader returns a Lean term of type `Array Float → Nat → T × Nat`.
func (t *T) reader(ty types.Type, depth int) (string, bool) {
	if depth > 8 {
		return "", false
	}
	ty = types.Unalias(ty)
	if p, isPtr := ty.(*types.Pointer); isPtr {
		ty = types.Unalias(p.Elem())
	}
	switch u := ty.Underlying().(type) {
	case *types.Basic:
		switch u.Kind() {
		case types.Float64:
			return "rdF", true
		case types.Int:
			return "rdI", true
		case types.Bool:
			return "rdB", true
		}
		return "", false
	case *types.Slice:
		r, ok := t.reader(u.Elem(), depth+1)
		if !ok {
			return "", false
		}
		return "(rdL " + r + ")", true
	case *types.Struct, *types.Array:
		lt, ok := t.floatType(ty)
		if !ok {
			return "", false
		}
		var names []string
		var elems []types.Type
		if s, isS := u.(*types.Struct); isS {
			for i := 0; i < s.NumFields(); i++ {
				names = append(names, ident(s.Field(i).Name()))
				elems = append(elems, s.Field(i).Type())
			}
		} else {
			a := u.(*types.Array)
			if a.Len() > 16 {
				return "", false
			}
			for i := int64(0); i < a.Len(); i++ {
				names = append(names, fmt.Sprintf("e%d", i))
				elems = append(elems, a.Elem())
			}
		}
		var sb strings.Builder
		sb.WriteString("(fun a p => ")
		var parts []string
		for i, n := range names {
			r, ok := t.reader(elems[i], depth+1)
			if !ok {
				return "", false
			}
			fmt.Fprintf(&sb, "let (_f%d, p) := %s a p; ", i, r)
			parts = append(parts, fmt.Sprintf("%s := _f%d", n, i))
		}
		fmt.Fprintf(&sb, "(({ %s } : %s), p))", strings.Join(parts, ", "), lt)
		return sb.String(), true
	}
	return "", false
}

// writer returns a Lean term of type `T → List Float`.
func (t *T) writer(ty types.Type, depth int) (string, bool) {
	if depth > 8 {
		return "", false
	}
	ty = types.Unalias(ty)
	if p, isPtr := ty.(*types.Pointer); isPtr {
		ty = types.Unalias(p.Elem())
	}
	switch u := ty.Underlying().(type) {
	case *types.Basic:
		switch u.Kind() {
		case types.Float64:
			return "wrF", true
		case types.Int:
			return "wrI", true
		case types.Bool:
			return "wrB", true
		}
		return "", false
	case *types.Slice:
		w, ok := t.writer(u.Elem(), depth+1)
		if !ok {
			return "", false
		}
		return "(wrL " + w + ")", true
	case *types.Struct:
		lt, ok := t.floatType(ty)
		if !ok {
			return "", false
		}
		var parts []string
		for i := 0; i < u.NumFields(); i++ {
			w, ok := t.writer(u.Field(i).Type(), depth+1)
			if !ok {
				return "", false
			}
			parts = append(parts, fmt.Sprintf("%s v.%s", w, ident(u.Field(i).Name())))
		}
		if len(parts) == 0 {
			return "(fun (_ : " + lt + ") => ([] : List Float))", true
		}
		return "(fun (v : " + lt + ") => " + strings.Join(parts, " ++ ") + ")", true
	case *types.Array:
		lt, ok := t.floatType(ty)
		if !ok || u.Len() > 16 {
			return "", false
		}
		w, ok := t.writer(u.Elem(), depth+1)
		if !ok {
			return "", false
		}
		var parts []string
		for i := int64(0); i < u.Len(); i++ {
			parts = append(parts, fmt.Sprintf("%s v.e%d", w, i))
		}
		if len(parts) == 0 {
			return "(fun (_ : " + lt + ") => ([] : List Float))", true
		}
		return "(fun (v : " + lt + ") => " + strings.Join(parts, " ++ ") + ")", true
	}
	return "", false
}

// entryV renders the kernelTableV entry of a root, or ok=false.
func (t *T) entryV(r Root, sig *types.Signature, fn string) (string, bool) {
	if t.mutates[fn] || sig.Results().Len() == 0 {
		return "", false
	}
	var sb strings.Builder
	fmt.Fprintf(&sb, "  (%q, fun (a : Array Float) => let p : Nat := 0; ", r.String())
	var args []string
	n := 0
	add := func(ty types.Type) bool {
		rd, ok := t.reader(ty, 0)
		if !ok {
			return false
		}
		fmt.Fprintf(&sb, "let (_x%d, p) := %s a p; ", n, rd)
		args = append(args, fmt.Sprintf("_x%d", n))
		n++
		return true
	}
	if sig.Recv() != nil && !add(sig.Recv().Type()) {
		return "", false
	}
	for i := 0; i < sig.Params().Len(); i++ {
		if !add(sig.Params().At(i).Type()) {
			return "", false
		}
	}
	fmt.Fprintf(&sb, "let r := %s (α := Float) %s; ", t.lean[fn], strings.Join(args, " "))
	var outs []string
	for i := 0; i < sig.Results().Len(); i++ {
		w, ok := t.writer(sig.Results().At(i).Type(), 0)
		if !ok {
			return "", false
		}
		acc := "r"
		if sig.Results().Len() > 1 {
			for j := 0; j < i; j++ {
				acc += ".2"
			}
			if i < sig.Results().Len()-1 {
				acc += ".1"
			}
		}
		outs = append(outs, w+" "+acc)
	}
	sb.WriteString("(" + strings.Join(outs, " ++ ") + " : List Float))")
	return sb.String(), true
}
