// Package hlib is the shared part of the correspondence harnesses (one command
// per property under ../cmd/cNN): for one property a harness generates
// cases from a single PRNG seed, runs the REAL model3d code in-process on each,
// and writes one line per case:   <op line> \t <implementation output>
// The op lines are piped to the Lean driver (the executable models the theorems
// are about) and the two output streams are compared by ../check.
//
// Lines beginning with '#' carry metadata: "#stat key value" (distribution of
// what was generated) and "#propfail <id> <description>" (the property's own
// predicate evaluated to false on the implementation's output for that case).
package hlib

import (
	"bufio"
	"flag"
	"fmt"
	"math"
	"math/big"
	"math/rand"
	"os"
	"runtime/debug"
	"sort"
	"strings"
)

type Ctx struct {
	Prop  string
	Seed  int64
	N     int // number of cases (scaled per generator)
	Rng   *rand.Rand
	out   *bufio.Writer
	stats map[string]int
}

// Emit writes one correspondence case.
func (c *Ctx) Emit(op string, impl string) {
	if strings.ContainsAny(op, "\t\n") || strings.ContainsAny(impl, "\t\n") {
		panic("tab/newline in protocol line")
	}
	fmt.Fprintf(c.out, "%s\t%s\n", op, impl)
}

// EmitSite is Emit with an explicit site label: a disagreement on this case is reported (and
// matched against known_findings.jsonl) under that site instead of "corr:<first two op tokens>".
func (c *Ctx) EmitSite(op string, impl string, site string) {
	if strings.ContainsAny(op, "\t\n") || strings.ContainsAny(impl, "\t\n") || strings.ContainsAny(site, "\t\n") {
		panic("tab/newline in protocol line")
	}
	fmt.Fprintf(c.out, "%s\t%s\t%s\n", op, impl, site)
}

// PropFail reports that the property predicate itself failed on the implementation.
func (c *Ctx) PropFail(site string, desc string) {
	fmt.Fprintf(c.out, "#propfail %s %s\n", site, strings.ReplaceAll(desc, "\n", " "))
}

func (c *Ctx) Stat(key string, n int) { c.stats[key] += n }

// Guard runs f, converting a panic into the string "panic:<msg>".
func Guard(f func() string) (res string) {
	defer func() {
		if r := recover(); r != nil {
			msg := fmt.Sprint(r)
			msg = strings.ReplaceAll(msg, "\n", " ")
			msg = strings.ReplaceAll(msg, "\t", " ")
			_ = debug.Stack
			res = "panic:" + strings.ReplaceAll(msg, " ", "_")
		}
	}()
	return f()
}

// Generators maps a Gen module name to a function producing the text of
// lean/M3d/Gen/<name>.lean from the repository at the given root (tables are
// dumped by executing the real code through the verif hooks; structural facts
// are read off the source with go/ast).  A property's command registers its
// generators in an init() function.
var Generators = map[string]func(repoRoot string) (string, error){}

// RatStr renders a finite float64 exactly as "num/den" (big.Rat), the form the
// Lean side parses with parseRat and prints with showRat.
func RatStr(x float64) string {
	if math.IsNaN(x) || math.IsInf(x, 0) {
		return "nan"
	}
	return new(big.Rat).SetFloat64(x).String()
}

// Hex renders a float64 as its 16-hex-digit IEEE bit pattern (floatOfHex / hexOfFloat in Lean).
func Hex(x float64) string { return fmt.Sprintf("%016x", math.Float64bits(x)) }

// Dyadic draws k/2^bits with |k| <= span*2^bits: arithmetic on such values is exact in float64
// as long as the products stay below 2^53, which is what the "exact" comparison mode relies on.
func (c *Ctx) Dyadic(span int, bits uint) float64 {
	d := 1 << bits
	return float64(c.Rng.Intn(2*span*d+1)-span*d) / float64(d)
}

// Main is the body of every cmd/cNN: parse flags, run f, append the #stat lines.
func Main(propID string, f func(*Ctx)) {
	prop := flag.String("prop", propID, "property id (informational)")
	seed := flag.Int64("seed", 1, "PRNG seed")
	n := flag.Int("n", 200, "case budget")
	outPath := flag.String("out", "", "output file")
	gen := flag.String("gen", "", "regenerate lean/M3d/Gen/<name>.lean instead of running cases")
	repo := flag.String("repo", "/repo", "repository root (for go/ast fact extraction)")
	flag.Parse()
	if *gen != "" {
		g, ok := Generators[*gen]
		if !ok {
			fmt.Fprintln(os.Stderr, "unknown generator", *gen)
			os.Exit(2)
		}
		text, err := g(*repo)
		if err != nil {
			fmt.Fprintln(os.Stderr, "generator failed:", err)
			os.Exit(1)
		}
		if *outPath == "" {
			fmt.Print(text)
		} else if err := os.WriteFile(*outPath, []byte(text), 0o644); err != nil {
			panic(err)
		}
		return
	}
	w := os.Stdout
	if *outPath != "" {
		var err error
		w, err = os.Create(*outPath)
		if err != nil {
			panic(err)
		}
		defer w.Close()
	}
	ctx := &Ctx{Prop: *prop, Seed: *seed, N: *n, Rng: rand.New(rand.NewSource(*seed)),
		out: bufio.NewWriterSize(w, 1<<20), stats: map[string]int{}}
	f(ctx)
	keys := make([]string, 0, len(ctx.stats))
	for k := range ctx.stats {
		keys = append(keys, k)
	}
	sort.Strings(keys)
	for _, k := range keys {
		fmt.Fprintf(ctx.out, "#stat %s %d\n", k, ctx.stats[k])
	}
	ctx.out.Flush()
}
