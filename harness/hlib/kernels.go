package hlib

import (
	"fmt"
	"math"
	"os"
	"reflect"
	"strings"

	"github.com/unixpickle/model3d/model2d"
	"github.com/unixpickle/model3d/model3d"
	"github.com/unixpickle/model3d/numerical"
	"github.com/unixpickle/model3d/render3d"
	"github.com/unixpickle/model3d/toolbox3d"
	"verif/harness/hlib/go2lean"
)

// Translation validation of lean/M3d/Gen/Kernels.lean: every exported function that the Go->Lean
// translator (hlib/go2lean) regenerated is CALLED here (through reflection, on flattened float
// arguments) and the same arguments go to the generated definition instantiated at Float in the Lean
// driver (kind "gk").  +,-,*,/ and sqrt are correctly rounded on both sides and the generated code
// performs the same operations in the same order, so the outputs must agree bit for bit.  A
// difference means the translator (part of the trusted base otherwise) mistranslated the function.

func init() {
	Generators["Kernels"] = func(repoRoot string) (string, error) {
		return go2lean.Generate(repoRoot, "Kernels", go2lean.KernelRoots)
	}
}

var kernelRecv = map[string]reflect.Type{
	"model3d.Coord3D":          reflect.TypeOf(model3d.Coord3D{}),
	"model3d.Matrix3":          reflect.TypeOf(model3d.Matrix3{}),
	"model3d.Rect":             reflect.TypeOf(model3d.Rect{}),
	"model3d.Sphere":           reflect.TypeOf(model3d.Sphere{}),
	"model3d.Capsule":          reflect.TypeOf(model3d.Capsule{}),
	"model3d.Cylinder":         reflect.TypeOf(model3d.Cylinder{}),
	"model3d.Cone":             reflect.TypeOf(model3d.Cone{}),
	"model3d.Torus":            reflect.TypeOf(model3d.Torus{}),
	"model3d.Segment":          reflect.TypeOf(model3d.Segment{}),
	"model3d.Triangle":         reflect.TypeOf(model3d.Triangle{}),
	"model3d.Translate":        reflect.TypeOf(model3d.Translate{}),
	"model3d.Scale":            reflect.TypeOf(model3d.Scale{}),
	"model3d.VecScale":         reflect.TypeOf(model3d.VecScale{}),
	"model3d.Matrix3Transform": reflect.TypeOf(model3d.Matrix3Transform{}),
	"model3d.LinearConstraint": reflect.TypeOf(model3d.LinearConstraint{}),
	"model2d.Coord":            reflect.TypeOf(model2d.Coord{}),
	"model2d.Matrix2":          reflect.TypeOf(model2d.Matrix2{}),
	"model2d.Rect":             reflect.TypeOf(model2d.Rect{}),
	"model2d.Circle":           reflect.TypeOf(model2d.Circle{}),
	"model2d.Capsule":          reflect.TypeOf(model2d.Capsule{}),
	"model2d.Segment":          reflect.TypeOf(model2d.Segment{}),
	"model2d.Translate":        reflect.TypeOf(model2d.Translate{}),
	"model2d.Scale":            reflect.TypeOf(model2d.Scale{}),
	"model2d.VecScale":         reflect.TypeOf(model2d.VecScale{}),
	"model2d.Matrix2Transform": reflect.TypeOf(model2d.Matrix2Transform{}),
	"model2d.LinearConstraint": reflect.TypeOf(model2d.LinearConstraint{}),
	"model3d.GeoCoord":         reflect.TypeOf(model3d.GeoCoord{}),
	"render3d.LambertMaterial": reflect.TypeOf(render3d.LambertMaterial{}),
	"render3d.PhongMaterial":   reflect.TypeOf(render3d.PhongMaterial{}),
	"render3d.HGMaterial":      reflect.TypeOf(render3d.HGMaterial{}),
	"render3d.RefractMaterial": reflect.TypeOf(render3d.RefractMaterial{}),
	"render3d.PointLight":      reflect.TypeOf(render3d.PointLight{}),
	"render3d.Camera":          reflect.TypeOf(render3d.Camera{}),
	"numerical.Matrix2":        reflect.TypeOf(numerical.Matrix2{}),
	"numerical.Matrix3":        reflect.TypeOf(numerical.Matrix3{}),
	"numerical.Matrix4":        reflect.TypeOf(numerical.Matrix4{}),
	"numerical.Vec2":           reflect.TypeOf(numerical.Vec2{}),
	"numerical.Vec3":           reflect.TypeOf(numerical.Vec3{}),
	"numerical.Vec4":           reflect.TypeOf(numerical.Vec4{}),
	"numerical.Vec":            reflect.TypeOf(numerical.Vec{}),
	"numerical.Polynomial":     reflect.TypeOf(numerical.Polynomial{}),
	"model3d.ConvexPolytope":   reflect.TypeOf(model3d.ConvexPolytope{}),
	"model2d.ConvexPolytope":   reflect.TypeOf(model2d.ConvexPolytope{}),
	"model2d.BezierCurve":      reflect.TypeOf(model2d.BezierCurve{}),
	"toolbox3d.AxisSqueeze":    reflect.TypeOf(toolbox3d.AxisSqueeze{}),
	"toolbox3d.AxisPinch":      reflect.TypeOf(toolbox3d.AxisPinch{}),
}

var kernelFree = map[string]interface{}{
	"model3d.NewMatrix3Columns":          model3d.NewMatrix3Columns,
	"model3d.NewRect":                    model3d.NewRect,
	"model3d.NewSegment":                 model3d.NewSegment,
	"model3d.Ones":                       model3d.Ones,
	"model3d.X":                          model3d.X,
	"model3d.XY":                         model3d.XY,
	"model3d.XYZ":                        model3d.XYZ,
	"model3d.XZ":                         model3d.XZ,
	"model3d.Y":                          model3d.Y,
	"model3d.YZ":                         model3d.YZ,
	"model3d.Z":                          model3d.Z,
	"model2d.NewCoordArray":              model2d.NewCoordArray,
	"model2d.NewMatrix2Columns":          model2d.NewMatrix2Columns,
	"model2d.NewRect":                    model2d.NewRect,
	"model2d.Ones":                       model2d.Ones,
	"model2d.X":                          model2d.X,
	"model2d.XY":                         model2d.XY,
	"model2d.Y":                          model2d.Y,
	"render3d.NewCameraAt":               render3d.NewCameraAt,
	"render3d.ClampColor":                render3d.ClampColor,
	"render3d.NewColor":                  render3d.NewColor,
	"render3d.NewColorRGB":               render3d.NewColorRGB,
	"numerical.NewMatrix2Columns":        numerical.NewMatrix2Columns,
	"numerical.NewMatrix3Columns":        numerical.NewMatrix3Columns,
	"numerical.NewMatrix4Identity":       numerical.NewMatrix4Identity,
	"model3d.NewConvexPolytopeRect":      model3d.NewConvexPolytopeRect,
	"model2d.NewConvexPolytopeRect":      model2d.NewConvexPolytopeRect,
	"model3d.QuarticMetaballFalloffFunc": model3d.QuarticMetaballFalloffFunc,
	"model2d.QuarticMetaballFalloffFunc": model2d.QuarticMetaballFalloffFunc,
	"model2d.NewSegmentCurve":            model2d.NewSegmentCurve,
}

func kernelHook(name string) (interface{}, bool) {
	for _, m := range []map[string]interface{}{model3d.VerifKernelFuncs, model2d.VerifKernelFuncs, render3d.VerifKernelFuncs} {
		if f, ok := m[name]; ok {
			return f, true
		}
	}
	return nil, false
}

// fill sets the float64 leaves of v (addressable) from xs, in Go field order.
func fill(v reflect.Value, xs *[]float64) bool {
	switch v.Kind() {
	case reflect.Float64:
		if !v.CanSet() || len(*xs) == 0 {
			return false
		}
		v.SetFloat((*xs)[0])
		*xs = (*xs)[1:]
		return true
	case reflect.Ptr:
		if !v.CanSet() {
			return false
		}
		v.Set(reflect.New(v.Type().Elem()))
		return fill(v.Elem(), xs)
	case reflect.Bool:
		return false // boolean inputs are not part of the flattened float interface
	case reflect.Struct:
		for i := 0; i < v.NumField(); i++ {
			if !fill(v.Field(i), xs) {
				return false
			}
		}
		return true
	case reflect.Array:
		for i := 0; i < v.Len(); i++ {
			if !fill(v.Index(i), xs) {
				return false
			}
		}
		return true
	}
	return false
}

func flatten(v reflect.Value, out *[]float64) bool {
	switch v.Kind() {
	case reflect.Ptr:
		if v.IsNil() {
			return false
		}
		return flatten(v.Elem(), out)
	case reflect.Float64:
		*out = append(*out, v.Float())
		return true
	case reflect.Bool:
		if v.Bool() {
			*out = append(*out, 1)
		} else {
			*out = append(*out, 0)
		}
		return true
	case reflect.Struct:
		for i := 0; i < v.NumField(); i++ {
			if !flatten(v.Field(i), out) {
				return false
			}
		}
		return true
	case reflect.Array:
		for i := 0; i < v.Len(); i++ {
			if !flatten(v.Index(i), out) {
				return false
			}
		}
		return true
	}
	return false
}

func mkArg(t reflect.Type, xs *[]float64) (reflect.Value, bool) {
	if t.Kind() == reflect.Ptr {
		p := reflect.New(t.Elem())
		if !fill(p.Elem(), xs) {
			return reflect.Value{}, false
		}
		return p, true
	}
	p := reflect.New(t)
	if !fill(p.Elem(), xs) {
		return reflect.Value{}, false
	}
	return p.Elem(), true
}

// callKernel calls the real function of a table entry on flattened arguments.
func callKernel(e go2lean.TableEntry, xs []float64) (out []float64, ok bool) {
	rest := append([]float64{}, xs...)
	var fn reflect.Value
	var recvPtr reflect.Value
	if hook, isHook := kernelHook(e.Root.String()); isHook && !e.Mutates {
		// unexported function/method exported through the verif hooks (methods as method expressions)
		fn = reflect.ValueOf(hook)
	} else if e.Root.Recv == "" {
		f, found := kernelFree[e.Root.Dir+"."+e.Root.Name]
		if !found {
			return nil, false
		}
		fn = reflect.ValueOf(f)
	} else {
		rt, found := kernelRecv[e.Root.Dir+"."+e.Root.Recv]
		if !found {
			return nil, false
		}
		recvPtr = reflect.New(rt)
		if !fill(recvPtr.Elem(), &rest) {
			return nil, false
		}
		fn = recvPtr.MethodByName(e.Root.Name)
		if !fn.IsValid() {
			return nil, false
		}
	}
	ft := fn.Type()
	var args []reflect.Value
	for i := 0; i < ft.NumIn(); i++ {
		a, ok := mkArg(ft.In(i), &rest)
		if !ok {
			return nil, false
		}
		args = append(args, a)
	}
	if len(rest) != 0 {
		return nil, false
	}
	res := fn.Call(args)
	if e.Mutates {
		if !flatten(recvPtr.Elem(), &out) {
			return nil, false
		}
		return out, true
	}
	for _, r := range res {
		if !flatten(r, &out) {
			return nil, false
		}
	}
	return out, true
}

// ---- variable-shape entries (kernelTableV): slices as length + elements, ints and bools as floats

func genValue(c *Ctx, v reflect.Value, mode int, depth int) bool {
	if depth > 8 || !v.CanSet() {
		return false
	}
	switch v.Kind() {
	case reflect.Float64:
		switch mode {
		case 0:
			v.SetFloat(c.Dyadic(2, 1))
		case 1:
			v.SetFloat(c.Dyadic(8, 4))
		default:
			v.SetFloat(c.Rng.NormFloat64() * math.Pow(2, float64(c.Rng.Intn(7)-3)))
		}
		return true
	case reflect.Int:
		v.SetInt(int64(c.Rng.Intn(5)))
		return true
	case reflect.Bool:
		v.SetBool(c.Rng.Intn(2) == 0)
		return true
	case reflect.Ptr:
		v.Set(reflect.New(v.Type().Elem()))
		return genValue(c, v.Elem(), mode, depth+1)
	case reflect.Struct:
		for i := 0; i < v.NumField(); i++ {
			if !genValue(c, v.Field(i), mode, depth+1) {
				return false
			}
		}
		return true
	case reflect.Array:
		for i := 0; i < v.Len(); i++ {
			if !genValue(c, v.Index(i), mode, depth+1) {
				return false
			}
		}
		return true
	case reflect.Slice:
		n := c.Rng.Intn(8)
		if depth > 0 {
			n = c.Rng.Intn(4)
		}
		sl := reflect.MakeSlice(v.Type(), n, n)
		for i := 0; i < n; i++ {
			if !genValue(c, sl.Index(i), mode, depth+1) {
				return false
			}
		}
		v.Set(sl)
		return true
	}
	return false
}

func encodeV(v reflect.Value, out *[]float64) bool {
	switch v.Kind() {
	case reflect.Float64:
		*out = append(*out, v.Float())
		return true
	case reflect.Int:
		*out = append(*out, float64(v.Int()))
		return true
	case reflect.Bool:
		if v.Bool() {
			*out = append(*out, 1)
		} else {
			*out = append(*out, 0)
		}
		return true
	case reflect.Ptr:
		if v.IsNil() {
			return false
		}
		return encodeV(v.Elem(), out)
	case reflect.Struct:
		for i := 0; i < v.NumField(); i++ {
			if !encodeV(v.Field(i), out) {
				return false
			}
		}
		return true
	case reflect.Array:
		for i := 0; i < v.Len(); i++ {
			if !encodeV(v.Index(i), out) {
				return false
			}
		}
		return true
	case reflect.Slice:
		*out = append(*out, float64(v.Len()))
		for i := 0; i < v.Len(); i++ {
			if !encodeV(v.Index(i), out) {
				return false
			}
		}
		return true
	}
	return false
}

// callKernelV generates type-directed arguments for a variable-shape entry, calls the real function and
// returns the flat encodings of the arguments (taken BEFORE the call) and of the results.
func callKernelV(c *Ctx, e go2lean.TableEntry, mode int) (in, out []float64, ok bool) {
	var fn reflect.Value
	if hook, isHook := kernelHook(e.Root.String()); isHook {
		fn = reflect.ValueOf(hook)
	} else if e.Root.Recv == "" {
		f, found := kernelFree[e.Root.Dir+"."+e.Root.Name]
		if !found {
			return nil, nil, false
		}
		fn = reflect.ValueOf(f)
	} else {
		rt, found := kernelRecv[e.Root.Dir+"."+e.Root.Recv]
		if !found {
			return nil, nil, false
		}
		recv := reflect.New(rt)
		if !genValue(c, recv.Elem(), mode, 0) || !encodeV(recv.Elem(), &in) {
			return nil, nil, false
		}
		fn = recv.MethodByName(e.Root.Name)
		if !fn.IsValid() {
			return nil, nil, false
		}
	}
	ft := fn.Type()
	var args []reflect.Value
	for i := 0; i < ft.NumIn(); i++ {
		p := reflect.New(ft.In(i))
		if !genValue(c, p.Elem(), mode, 0) || !encodeV(p.Elem(), &in) {
			return nil, nil, false
		}
		args = append(args, p.Elem())
	}
	for _, r := range fn.Call(args) {
		if !encodeV(r, &out) {
			return nil, nil, false
		}
	}
	return in, out, true
}

func kernelHex(x float64) string {
	if math.IsNaN(x) {
		return "nan"
	}
	if x == 0 {
		return "0000000000000000"
	}
	return Hex(x)
}

// RunKernels emits `<prefix> gk <root> <hex args…>` cases for every callable entry of the kernel table
// (n random argument vectors per entry).  Arguments mix small dyadics (ties, zeros, equal coordinates)
// with generic doubles.  Outputs that contain NaN/Inf on the Go side are not compared (Go's == and the
// model's feq differ on NaN only) and counted in the statistics instead.
func RunKernels(c *Ctx, prefix string, n int) {
	repo := os.Getenv("VERIF_REPO")
	if repo == "" {
		repo = "/repo"
	}
	entries, err := go2lean.Table(repo, go2lean.KernelRoots)
	if err != nil {
		c.PropFail("kernels:translator-rejects-current-source", strings.ReplaceAll(err.Error(), "\n", " | "))
		return
	}
	for _, e := range entries {
		if e.Libm {
			c.Stat("gk.libm-not-bit-comparable", 1)
			continue
		}
		called := 0
		if e.Var {
			for k := 0; k < n; k++ {
				var in, out []float64
				var ok bool
				res := Guard(func() string {
					in, out, ok = callKernelV(c, e, c.Rng.Intn(3))
					return ""
				})
				if res != "" {
					c.Stat("gk.panic", 1)
					continue
				}
				if !ok {
					c.Stat("gk.not-callable."+e.Root.String(), 1)
					break
				}
				bad := false
				for _, o := range out {
					if math.IsNaN(o) || math.IsInf(o, 0) {
						bad = true
					}
				}
				if bad {
					c.Stat("gk.nan-or-inf-skipped", 1)
					continue
				}
				called++
				ins := make([]string, len(in))
				for i, x := range in {
					ins[i] = Hex(x)
				}
				outs := make([]string, len(out))
				for i, o := range out {
					outs[i] = kernelHex(o)
				}
				c.EmitSite(prefix+" gk "+e.Root.String()+" "+strings.Join(ins, " "), strings.Join(outs, " "), "kernels:generated-definition-differs-from-source/"+e.Root.String())
			}
			if called > 0 {
				c.Stat("gk.functions-executed", 1)
				c.Stat("gk.variable-shape-functions-executed", 1)
			}
			c.Stat("gk.cases", called)
			continue
		}
		for k := 0; k < n; k++ {
			xs := make([]float64, e.NIn)
			mode := c.Rng.Intn(3)
			for i := range xs {
				switch mode {
				case 0:
					xs[i] = c.Dyadic(2, 1)
				case 1:
					xs[i] = c.Dyadic(8, 4)
				default:
					xs[i] = c.Rng.NormFloat64() * math.Pow(2, float64(c.Rng.Intn(7)-3))
				}
			}
			var out []float64
			var ok bool
			res := Guard(func() string {
				out, ok = callKernel(e, xs)
				return ""
			})
			if res != "" {
				c.Stat("gk.panic", 1)
				continue
			}
			if !ok {
				c.Stat("gk.not-callable."+e.Root.String(), 1)
				break
			}
			if len(out) != e.NOut {
				c.PropFail("kernels:arity/"+e.Root.String(), fmt.Sprintf("Go returned %d leaves, table says %d", len(out), e.NOut))
				break
			}
			bad := false
			for _, o := range out {
				if math.IsNaN(o) || math.IsInf(o, 0) {
					bad = true
				}
			}
			if bad {
				c.Stat("gk.nan-or-inf-skipped", 1)
				continue
			}
			called++
			ins := make([]string, len(xs))
			for i, x := range xs {
				ins[i] = Hex(x)
			}
			outs := make([]string, len(out))
			for i, o := range out {
				outs[i] = kernelHex(o)
			}
			c.EmitSite(prefix+" gk "+e.Root.String()+" "+strings.Join(ins, " "), strings.Join(outs, " "), "kernels:generated-definition-differs-from-source/"+e.Root.String())
		}
		if called > 0 {
			c.Stat("gk.functions-executed", 1)
		}
		c.Stat("gk.cases", called)
	}
	c.Stat("gk.table-entries", len(entries))
}
