// Package codec holds what the C15 and C16 harnesses share: canonical rendering of bytes, PLY
// headers/values and float oracle tables for the line protocol, and random generators.
package codec

import (
	"encoding/hex"
	"fmt"
	"math"
	"math/rand"
	"sort"
	"strconv"
	"strings"

	ff "github.com/unixpickle/model3d/fileformats"
)

// HexBytes renders a byte string for the protocol ("-" = empty).
func HexBytes(b []byte) string {
	if len(b) == 0 {
		return "-"
	}
	return hex.EncodeToString(b)
}

func H64(x float64) string { return fmt.Sprintf("%016x", math.Float64bits(x)) }
func H32(x float32) string { return fmt.Sprintf("%08x", math.Float32bits(x)) }

// Tables is the float-text oracle handed to the Lean model: Go's strconv results for exactly the
// numbers/tokens of one case.  a/b/g: bits -> text; p/q: text -> bits (successful parses only).
type Tables struct {
	entries map[string]bool
	// LawFailures collects numbers for which parse(fmt(x)) != x (the hypothesis of the round-trip theorems).
	LawFailures []string
}

func NewTables() *Tables { return &Tables{entries: map[string]bool{}} }

func (t *Tables) add(s string) { t.entries[s] = true }

// AddF32 registers a float32 written with FormatFloat(·,'f',-1,32) and its parse back.
func (t *Tables) AddF32(x float32) {
	s := strconv.FormatFloat(float64(x), 'f', -1, 32)
	t.add(fmt.Sprintf("a:%x:%s", math.Float32bits(x), hex.EncodeToString([]byte(s))))
	if !t.AddTok(s) {
		t.LawFailures = append(t.LawFailures, "f32:"+H32(x))
	} else if y, _ := strconv.ParseFloat(s, 32); math.Float32bits(float32(y)) != math.Float32bits(x) {
		t.LawFailures = append(t.LawFailures, "f32:"+H32(x))
	}
}

// AddF64 registers a float64 written with FormatFloat(·,'f',-1,64).
func (t *Tables) AddF64(x float64) {
	s := strconv.FormatFloat(x, 'f', -1, 64)
	t.add(fmt.Sprintf("b:%x:%s", math.Float64bits(x), hex.EncodeToString([]byte(s))))
	t.AddTok(s)
	if y, err := strconv.ParseFloat(s, 64); err != nil || math.Float64bits(y) != math.Float64bits(x) {
		t.LawFailures = append(t.LawFailures, "f64:"+H64(x))
	}
}

// AddG registers a float64 written with FormatFloat(·,'G',-1,64) (segment CSV).
func (t *Tables) AddG(x float64) {
	s := strconv.FormatFloat(x, 'G', -1, 64)
	t.add(fmt.Sprintf("g:%x:%s", math.Float64bits(x), hex.EncodeToString([]byte(s))))
	t.AddTok(s)
	if y, err := strconv.ParseFloat(s, 64); err != nil || math.Float64bits(y) != math.Float64bits(x) {
		t.LawFailures = append(t.LawFailures, "g64:"+H64(x))
	}
}

// AddTok registers what ParseFloat says about a token at both precisions; reports whether the
// 32-bit parse succeeded.
func (t *Tables) AddTok(s string) bool {
	if s == "" {
		return false
	}
	hx := hex.EncodeToString([]byte(s))
	ok32 := false
	if y, err := strconv.ParseFloat(s, 32); err == nil {
		t.add(fmt.Sprintf("p:%s:%x", hx, math.Float32bits(float32(y))))
		ok32 = true
	}
	if y, err := strconv.ParseFloat(s, 64); err == nil {
		t.add(fmt.Sprintf("q:%s:%x", hx, math.Float64bits(y)))
	}
	return ok32
}

// AddFileTokens registers every token a text decoder could hand to ParseFloat: white-space separated
// fields (Unicode-aware, like strings.Fields) and comma separated pieces of each line (CSV).
func (t *Tables) AddFileTokens(data []byte, csv bool) {
	for _, f := range strings.Fields(string(data)) {
		if len(f) <= 64 {
			t.AddTok(f)
		}
	}
	if csv {
		for _, ln := range strings.Split(string(data), "\n") {
			ln = strings.TrimSuffix(ln, "\r")
			for _, f := range strings.Split(ln, ",") {
				if len(f) <= 64 {
					t.AddTok(f)
				}
			}
		}
	}
}

func (t *Tables) String() string {
	keys := make([]string, 0, len(t.entries))
	for k := range t.entries {
		keys = append(keys, k)
	}
	sort.Strings(keys)
	return "ft " + strconv.Itoa(len(keys)) + sp(keys)
}

func sp(xs []string) string {
	if len(xs) == 0 {
		return ""
	}
	return " " + strings.Join(xs, " ")
}

// ---------------------------------------------------------------------------
// PLY headers and values

var typeNames = []string{"char", "int8", "uchar", "uint8", "short", "int16", "ushort", "uint16",
	"int", "int32", "uint", "uint32", "float", "float32", "double", "float64"}

// TypeCode maps a PLY type name to kind*2+alt (the Lean PType), -1 if unknown.
func TypeCode(t ff.PLYPropertyType) int {
	for i, n := range typeNames {
		if string(t) == n {
			return i
		}
	}
	return -1
}

func TypeOfCode(c int) ff.PLYPropertyType { return ff.PLYPropertyType(typeNames[c]) }

func ShowFormat(f ff.PLYFormat) string {
	switch f {
	case ff.PLYFormatASCII:
		return "ascii"
	case ff.PLYFormatBinaryLittle:
		return "le"
	case ff.PLYFormatBinaryBig:
		return "be"
	}
	return "?"
}

func ShowHeader(h *ff.PLYHeader) string {
	var sb strings.Builder
	fmt.Fprintf(&sb, "%s %d", ShowFormat(h.Format), len(h.Elements))
	for _, e := range h.Elements {
		fmt.Fprintf(&sb, " %s %d %d", HexBytes([]byte(e.Name)), e.Count, len(e.Properties))
		for _, p := range e.Properties {
			lt := "-"
			if p.LenType != ff.PLYPropertyTypeNone {
				lt = strconv.Itoa(TypeCode(p.LenType))
			}
			fmt.Fprintf(&sb, " %s %d %s", lt, TypeCode(p.ElemType), HexBytes([]byte(p.Name)))
		}
	}
	return sb.String()
}

// scalarKB returns (kind, bits) of a scalar PLY value; kind -1 if it is not one of the eight.
func scalarKB(v ff.PLYValue) (int, uint64) {
	switch x := v.(type) {
	case ff.PLYValueInt8:
		return 0, uint64(uint8(x.Value))
	case ff.PLYValueUint8:
		return 1, uint64(x.Value)
	case ff.PLYValueInt16:
		return 2, uint64(uint16(x.Value))
	case ff.PLYValueUint16:
		return 3, uint64(x.Value)
	case ff.PLYValueInt32:
		return 4, uint64(uint32(x.Value))
	case ff.PLYValueUint32:
		return 5, uint64(x.Value)
	case ff.PLYValueFloat32:
		return 6, uint64(math.Float32bits(x.Value))
	case ff.PLYValueFloat64:
		return 7, math.Float64bits(x.Value)
	}
	return -1, 0
}

func ShowVal(v ff.PLYValue) string {
	if l, ok := v.(ff.PLYValueList); ok {
		k, b := scalarKB(l.Length)
		ek := "x"
		parts := make([]string, len(l.Values))
		for i, e := range l.Values {
			kk, bb := scalarKB(e)
			if i == 0 {
				ek = strconv.Itoa(kk)
			}
			parts[i] = strconv.FormatUint(bb, 10)
		}
		return fmt.Sprintf("L%d:%d:%s:%s", k, b, ek, strings.Join(parts, ","))
	}
	k, b := scalarKB(v)
	return fmt.Sprintf("%d:%d", k, b)
}

func ShowRow(vals []ff.PLYValue) string {
	parts := make([]string, len(vals))
	for i, v := range vals {
		parts[i] = ShowVal(v)
	}
	return strconv.Itoa(len(vals)) + sp(parts)
}

// RegisterFloats adds the text of every float in a row to the oracle tables.
func RegisterFloats(t *Tables, vals []ff.PLYValue) {
	for _, v := range vals {
		switch x := v.(type) {
		case ff.PLYValueList:
			RegisterFloats(t, x.Values)
		case ff.PLYValueFloat32:
			t.AddF32(x.Value)
		case ff.PLYValueFloat64:
			t.AddF64(x.Value)
		}
	}
}

// ---------------------------------------------------------------------------
// generators

var interesting64 = []float64{0, math.Copysign(0, -1), 1, -1, 0.1, -2.5, 1e-320, -4.9e-324, math.SmallestNonzeroFloat64,
	math.MaxFloat64, -math.MaxFloat64, math.MaxFloat32, 1e-45, 1.1754942e-38, 3.4028235e38, 3.4028236e38, 16777217,
	0.30000000000000004, 1e21, 1e-7, 123456789.125, math.Inf(1), math.Inf(-1), 1.0000001, 5e-324}

// Float64 draws a coordinate: small lattice values (so vertices are shared), edge cases, or random bits.
func Float64(r *rand.Rand, allowNaN bool) float64 {
	switch r.Intn(10) {
	case 0, 1, 2, 3:
		return float64(r.Intn(5) - 2)
	case 4, 5:
		return interesting64[r.Intn(len(interesting64))]
	case 6:
		return r.NormFloat64()
	case 7:
		return float64(float32(r.NormFloat64() * 100))
	default:
		for {
			x := math.Float64frombits(r.Uint64())
			if allowNaN || !math.IsNaN(x) {
				return x
			}
		}
	}
}

func Float32(r *rand.Rand, allowNaN bool) float32 {
	switch r.Intn(6) {
	case 0:
		return float32(r.Intn(5) - 2)
	case 1:
		return float32(interesting64[r.Intn(len(interesting64))])
	case 2:
		return float32(r.NormFloat64())
	default:
		for {
			x := math.Float32frombits(r.Uint32())
			if allowNaN || x == x {
				return x
			}
		}
	}
}

var namePool = []string{"vertex", "face", "x", "y", "z", "red", "green", "blue", "vertex_index", "edge", "a.b", "list",
	"comment", "property", "element", "end_header", "é", "n\xff", "0", "-1", "Q_q", "material", "format", "ply", "©x", "v\x01"}

func Name(r *rand.Rand) string { return namePool[r.Intn(len(namePool))] }

var intKinds = []int{0, 1, 2, 3, 4, 5}

// RandomScalar draws a value of the type with code c.
func RandomScalar(r *rand.Rand, c int, ascii bool) ff.PLYValue {
	edge := r.Intn(4) == 0
	pick := func(lo, hi int64) int64 {
		if edge {
			return []int64{lo, hi, 0, -1, 1}[r.Intn(5)]
		}
		return lo + r.Int63n(hi-lo+1)
	}
	clamp := func(v, lo, hi int64) int64 {
		if v < lo {
			return lo
		}
		if v > hi {
			return hi
		}
		return v
	}
	switch c / 2 {
	case 0:
		return ff.PLYValueInt8{Value: int8(clamp(pick(-128, 127), -128, 127))}
	case 1:
		return ff.PLYValueUint8{Value: uint8(clamp(pick(0, 255), 0, 255))}
	case 2:
		return ff.PLYValueInt16{Value: int16(clamp(pick(-32768, 32767), -32768, 32767))}
	case 3:
		return ff.PLYValueUint16{Value: uint16(clamp(pick(0, 65535), 0, 65535))}
	case 4:
		return ff.PLYValueInt32{Value: int32(clamp(pick(math.MinInt32, math.MaxInt32), math.MinInt32, math.MaxInt32))}
	case 5:
		return ff.PLYValueUint32{Value: uint32(clamp(pick(0, math.MaxUint32), 0, math.MaxUint32))}
	case 6:
		return ff.PLYValueFloat32{Value: Float32(r, !ascii)}
	default:
		return ff.PLYValueFloat64{Value: Float64(r, !ascii)}
	}
}

// LengthScalar builds a list-length value n (0..100) of the type with code c (an integer type).
func LengthScalar(c int, n int) ff.PLYValue {
	switch c / 2 {
	case 0:
		return ff.PLYValueInt8{Value: int8(n)}
	case 1:
		return ff.PLYValueUint8{Value: uint8(n)}
	case 2:
		return ff.PLYValueInt16{Value: int16(n)}
	case 3:
		return ff.PLYValueUint16{Value: uint16(n)}
	case 4:
		return ff.PLYValueInt32{Value: int32(n)}
	default:
		return ff.PLYValueUint32{Value: uint32(n)}
	}
}

// RandomHeader draws a header: 0-4 elements, counts 0-3 (0 frequent), 0-4 properties, lists.
func RandomHeader(r *rand.Rand) *ff.PLYHeader {
	h := &ff.PLYHeader{Format: ff.PLYFormat(r.Intn(3))}
	ne := r.Intn(5)
	for i := 0; i < ne; i++ {
		e := &ff.PLYElement{Name: Name(r)}
		switch r.Intn(6) {
		case 0, 1:
			e.Count = 0
		case 2:
			e.Count = 1
		default:
			e.Count = int64(r.Intn(4))
		}
		if r.Intn(40) == 0 {
			e.Count = -int64(r.Intn(3)) - 1
		}
		np := r.Intn(5)
		if r.Intn(8) == 0 {
			np = 0
		}
		for j := 0; j < np; j++ {
			p := &ff.PLYProperty{Name: Name(r), ElemType: TypeOfCode(r.Intn(16))}
			if r.Intn(3) == 0 {
				p.LenType = TypeOfCode(intKinds[r.Intn(len(intKinds))]*2 + r.Intn(2))
			}
			e.Properties = append(e.Properties, p)
		}
		h.Elements = append(h.Elements, e)
	}
	return h
}

// RandomRow draws a row conforming to the element's properties.
func RandomRow(r *rand.Rand, e *ff.PLYElement, ascii bool) []ff.PLYValue {
	row := make([]ff.PLYValue, len(e.Properties))
	for i, p := range e.Properties {
		ec := TypeCode(p.ElemType)
		if p.LenType == ff.PLYPropertyTypeNone {
			row[i] = RandomScalar(r, ec, ascii)
			continue
		}
		n := r.Intn(5)
		if r.Intn(3) == 0 {
			n = 0
		}
		vals := make([]ff.PLYValue, n)
		for j := range vals {
			vals[j] = RandomScalar(r, ec, ascii)
		}
		row[i] = ff.PLYValueList{Length: LengthScalar(TypeCode(p.LenType), n), Values: vals}
	}
	return row
}
