#!/bin/sh
# Build the framework from files on disk only (offline).
set -e
cd "$(dirname "$0")"
export GOFLAGS=-mod=mod GOPROXY=off GOSUMDB=off GOTOOLCHAIN=local
mkdir -p harness/bin evidence replays
cp /repo/go.sum harness/go.sum
(cd harness && go build -tags verif -o bin/corr ./cmd/corr && if [ -d cmd/extract ]; then go build -tags verif -o bin/extract ./cmd/extract; fi)
# regenerate Gen/ from /repo before the first lake build
if [ -x harness/bin/extract ]; then
  for g in $(python3 -c "import sys; sys.path.insert(0,'lib'); import props; print(' '.join(sorted({g for p in props.PROPS.values() for g in p.get('gen',[])})))"); do
    harness/bin/extract -gen "$g" -repo /repo -out "lean/M3d/Gen/$g.lean"
  done
fi
(cd lean && lake build M3d driver)
