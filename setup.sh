#!/bin/sh
# Build the framework from files on disk only (offline).
set -e
cd "$(dirname "$0")"
export GOFLAGS=-mod=mod GOPROXY=off GOSUMDB=off GOTOOLCHAIN=local
mkdir -p harness/bin evidence replays
cp /repo/go.sum harness/go.sum
CLAIMED=$(python3 -c "import sys; sys.path.insert(0,'lib'); import props; print(' '.join(sorted(p.lower() for p,c in props.PROPS.items() if not c.get('unclaimed'))))")
GENS=$(python3 -c "import sys; sys.path.insert(0,'lib'); import props; print(' '.join(sorted({g for p in props.PROPS.values() for g in p.get('gen',[])})))")
(cd harness && for p in $CLAIMED; do go build -tags verif -o bin/$p ./cmd/$p; done)
# regenerate lean/M3d/Gen from /repo before the first lake build
if [ -n "$GENS" ]; then
  (cd harness && go build -tags verif -o bin/extract ./cmd/extract)
  for g in $GENS; do
    harness/bin/extract -gen "$g" -repo /repo -out "lean/M3d/Gen/$g.lean"
  done
fi
TARGETS=""
for p in $CLAIMED; do
  P=$(echo "$p" | tr c C)
  TARGETS="$TARGETS M3d.Props.$P drv_$p"
done
(cd lean && lake build M3d $TARGETS)
