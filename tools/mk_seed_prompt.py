#!/usr/bin/env python3
"""usage: mk_seed_prompt.py C07 -> /tmp/seedprompts/C07.prompt, fresh worktree /tmp/seed_C07, empty /tmp/seed_C07.out
The prompt holds only the property text and one-line summaries of earlier seeded changes (nothing from /verif's machinery)."""
import sys, json, os, glob, subprocess, shutil
ID = sys.argv[1]; LID = ID.lower()
prop = [json.loads(l) for l in open('/verif/properties.jsonl') if l.strip() and json.loads(l)['id'] == ID][0]
t = open('/verif/tools/prompts/seed_template.txt').read()
earlier = []
for d in sorted(glob.glob(f'/verif/seeded/{ID}-*'), key=lambda p: int(p.rsplit('-', 1)[1])):
    r = os.path.join(d, 'README.md')
    if os.path.exists(r):
        earlier.append('  - ' + open(r).readline().strip().lstrip('# '))
ptxt = json.dumps(prop, indent=1)
if earlier:
    ptxt += ("\n\nEarlier rounds already produced changes of these kinds — do NOT repeat them, pick different functions/mechanisms of the property "
             "(the statement names many; look also at the 2-D twins, at wrappers and glue code, at rarely used entry points and options):\n" + '\n'.join(earlier))
os.makedirs('/tmp/seedprompts', exist_ok=True)
open(f'/tmp/seedprompts/{ID}.prompt', 'w').write(t.replace('@ID@', ID).replace('@LID@', LID).replace('@PROP@', ptxt))
wt = f'/tmp/seed_{ID}'
subprocess.run(['git', '-C', '/repo', 'worktree', 'remove', '--force', wt], capture_output=True)
shutil.rmtree(wt, ignore_errors=True)
subprocess.run(['git', '-C', '/repo', 'worktree', 'prune'])
subprocess.run(['git', '-C', '/repo', 'worktree', 'add', '--detach', wt, 'HEAD'], check=True, capture_output=True)
shutil.rmtree(wt + '.out', ignore_errors=True); os.makedirs(wt + '.out')
print(f'/tmp/seedprompts/{ID}.prompt', len(earlier), 'earlier')
