#!/usr/bin/env python3
"""Re-run tools/confirm_seed.py for seeds already stored under /verif/seeded (all, only the ones not caught,
or the ids given), reusing the demo command and package list recorded in their meta.json.

  tools/reconfirm.py --missed            # every seed whose meta.json says caught_by_check != true
  tools/reconfirm.py C07-3 C10-2
  tools/reconfirm.py --list              # table of all seeds
"""
import glob, json, os, re, subprocess, sys
ROOT = os.path.dirname(os.path.dirname(os.path.abspath(__file__)))

def metas():
    out = {}
    for m in sorted(glob.glob(os.path.join(ROOT, "seeded", "*", "meta.json"))):
        out[os.path.basename(os.path.dirname(m))] = json.load(open(m))
    return out

def main():
    ms = metas()
    args = sys.argv[1:]
    if "--list" in args:
        for k, m in ms.items():
            print(k, "confirmed" if m.get("confirmed") else "UNCONFIRMED", "caught" if m.get("caught_by_check") else "MISSED",
                  ",".join((m.get("check") or {}).get("sites", [])[:4]))
        return 0
    ids = [a for a in args if not a.startswith("--")]
    if "--missed" in args:
        ids += [k for k, m in ms.items() if not m.get("caught_by_check") or
                any("harness-does-not-build" in s for s in (m.get("check") or {}).get("sites", []))]
    for sid in ids:
        m = ms[sid]
        prop = m["property"]
        demo_cmd, pkgs = None, None
        for r in m.get("ran", []):
            c = r["cmd"]
            if "existing suite" in c:
                pkgs = c.split("-count=1", 1)[1].split("(")[0].strip()
            if "demonstration, change applied" in c:
                demo_cmd = c.split("   (")[0].strip()
        d = os.path.join(ROOT, "seeded", sid)
        mm = re.search(r"\./(\w+)/?\s*$", demo_cmd or "")
        demo_dir = mm.group(1) if mm else prop.lower() + "demo"
        cmd = ["python3", os.path.join(ROOT, "tools", "confirm_seed.py"), "--id", sid, "--prop", prop, "--src", d,
               "--demo", f"demo_test.go:{demo_dir}/demo_test.go", "--demo-cmd", demo_cmd, "--pkgs", pkgs,
               "--needs", m.get("needs_to_manifest", "")]
        print("#", sid, flush=True)
        subprocess.run(cmd, cwd=ROOT)
    return 0

if __name__ == "__main__":
    sys.exit(main())
