#!/bin/sh
# usage: mk_builder_prompt.sh C07 "C07-5, C07-6"  -> /tmp/builderprompts/C07.prompt
ID=$1; LID=$(echo $ID | tr 'A-Z' 'a-z'); MISSED=$2
TASK="1. These seeded breaking changes are NOT caught by ./check $ID: $MISSED. For each, read /verif/seeded/<id>/README.md and patch.diff carefully (what it breaks, what it needs to manifest). For each one decide what the property statement demands there, then strengthen the check so it is caught with a concrete failing input: extend the executable model (lean/M3d/Model/...) where the affected code path is not modelled yet, state and prove the theorem that justifies the expected answer (in lean/M3d/Props/$ID.lean; full strength, \`_partial\` + comment only when unavoidable; non-vacuity examples), add harness kinds / widen generators so the triggering inputs (the README's 'needs to manifest') are produced in every quick run — in general form, not as a copy of the demo — and keep the check sound (it may only report what the property forbids; if the seeded behaviour is arguably allowed by the documentation of the function, say so in notes and do NOT force a detection). 2. Re-run ALL seeds of $ID under /verif/seeded/$ID-* and confirm each is caught (if a stored patch no longer applies to /repo HEAD because of later fix: commits, say so and test the equivalent change). 3. Then deepen what notes/$ID.md lists as partial / not modelled, as time allows, and extend the regenerated-kernel ties if BUILDING.md §10 applies to code of this property (lean/M3d/Gen/Kernels.lean lists what is translated; \`harness/bin/xlate -survey <pkgdir>\` shows what else could be; ask for new roots in your final message rather than editing roots.go)."
mkdir -p /tmp/builderprompts
python3 - "$ID" "$LID" "$TASK" <<'PY'
import sys
ID,LID,TASK=sys.argv[1:4]
t=open('/verif/tools/prompts/builder_template.txt').read()
open(f'/tmp/builderprompts/{ID}.prompt','w').write(t.replace('@ID@',ID).replace('@LID@',LID).replace('@TASK@',TASK))
PY
echo /tmp/builderprompts/$ID.prompt
