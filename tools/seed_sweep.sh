#!/bin/sh
# Unchanged-tree sweep: every claimed quick check under several VERIF_SEED values; prints only non-green lines.
# Usage: tools/seed_sweep.sh "2 3 4 5" [quick|thorough]
cd "$(dirname "$0")/.."
TIER=${2:-quick}
for sd in $1; do
  for p in $(python3 -c "import sys; sys.path.insert(0,'lib'); import props; print(' '.join(sorted(p for p,c in props.PROPS.items() if not c.get('unclaimed'))))"); do
    out=$(VERIF_SEED=$sd ./check "$p" --tier "$TIER" 2>/dev/null); rc=$?
    nv=$(echo "$out" | grep -c '^VIOLATION')
    echo "seed=$sd $p rc=$rc violations=$nv"
    if [ "$rc" != 0 ]; then echo "$out" | grep '^VIOLATION'; for f in $(echo "$out" | grep '^VIOLATION' | sed 's/.*replay=//; s/ .*//'); do head -c 1500 "$f"; echo; done; fi
  done
done
