#!/usr/bin/env python3
"""Regenerate the machine-written blocks of DESIGN.md (between <!-- BEGIN:x --> / <!-- END:x -->):
STATUS (per property: theorems, evidence of the last run), FIXED (repaired defects from
known_findings.jsonl), SEEDED (seeded breaking changes from seeded/*/meta.json)."""
import json, os, re, glob, sys

ROOT = os.path.dirname(os.path.dirname(os.path.abspath(__file__)))
sys.path.insert(0, os.path.join(ROOT, "lib"))
import props  # noqa


def block(text, name, body):
    b, e = f"<!-- BEGIN:{name} -->", f"<!-- END:{name} -->"
    if b not in text:
        return text + f"\n{b}\n{body}\n{e}\n"
    i, j = text.index(b), text.index(e)
    return text[:i] + b + "\n" + body + "\n" + text[j:]


def status():
    rows = ["| prop | theorems (Props/Cxx.lean) | Gen (regenerated) | last quick run: cases / distinct | wall s | notes |",
            "|---|---|---|---|---|---|"]
    for i in range(1, 21):
        pid = f"C{i:02d}"
        cfg = props.PROPS.get(pid)
        pf = os.path.join(ROOT, "lean", "M3d", "Props", pid + ".lean")
        nth = len(re.findall(r"^(?:@\[[^\]]*\]\s*)?theorem ", open(pf).read(), re.M)) if os.path.exists(pf) else 0
        ev = os.path.join(ROOT, "evidence", pid + ".json")
        cases = wall = dist = ""
        if os.path.exists(ev):
            e = json.load(open(ev))
            cases, dist, wall = e["coverage"].get("evaluations", ""), e["coverage"].get("distinct_nontrivial", ""), e.get("wall_s", "")
        claimed = bool(cfg) and not cfg.get("unclaimed")
        gen = ", ".join(cfg.get("gen", [])) if cfg else ""
        note = f"notes/{pid}.md" if os.path.exists(os.path.join(ROOT, "notes", pid + ".md")) else ""
        rows.append(f"| {pid}{'' if claimed else ' (unclaimed)'} | {nth} | {gen or '-'} | {cases} / {dist} | {wall} | {note} |")
    return "\n".join(rows)


def fixed():
    out = []
    for line in open(os.path.join(ROOT, "known_findings.jsonl")):
        line = line.strip()
        if line.startswith("fixed:"):
            m = re.match(r"fixed:\s*property=(\S+)\s+(\S+)\s+(.*)", line)
            if m:
                out.append((m.group(1), m.group(2), m.group(3)))
        elif line.startswith("{"):
            k = json.loads(line)
            out.append((k.get("property"), "KNOWN (not repaired)", f"site `{k.get('site')}` - {k.get('summary')}"))
    out.sort()
    rows = ["| prop | /repo commit | what failed (input) |", "|---|---|---|"]
    for p, c, w in out:
        rows.append(f"| {p} | {c} | {w.replace('|', '/')} |")
    return "\n".join(rows)


def seeded():
    rows = ["| id | prop | needs to manifest | existing tests pass | demo fails/passes | caught by check (sites) |", "|---|---|---|---|---|---|"]
    for d in sorted(glob.glob(os.path.join(ROOT, "seeded", "*", "meta.json"))):
        m = json.load(open(d))
        needs = m.get("needs_to_manifest", "")
        if needs in ("", "see README.md"):
            rd = os.path.join(os.path.dirname(d), "README.md")
            if os.path.exists(rd):
                txt = open(rd).read()
                mm = re.search(r"(?im)^\**\s*(?:condition|needs|trigger|what it needs)[^\n]*\n+([^\n]+)", txt)
                needs = (mm.group(1) if mm else txt.strip().splitlines()[0])[:200]
        sites = ", ".join((m.get("check") or {}).get("sites") or [])[:160]
        rows.append(f"| {m['id']} | {m['property']} | {needs.replace('|','/')[:220]} | {m.get('existing_tests_pass_with_change')} | "
                    f"{m.get('demo_fails_with_change')}/{m.get('demo_passes_without_change')} | {m.get('caught_by_check')} ({sites}) |")
    return "\n".join(rows)


def ties():
    """Tie modules (theorems that relate REGENERATED definitions of Gen/*.lean to the hand-written models)."""
    rows = ["| prop | regenerated (Gen) | tie modules: theorems |", "|---|---|---|"]
    for i in range(1, 21):
        pid = f"C{i:02d}"
        cfg = props.PROPS.get(pid) or {}
        mods = []
        for m in cfg.get("tie_modules", []):
            f = os.path.join(ROOT, "lean", *m.split(".")) + ".lean"
            n = len(re.findall(r"^(?:@\[[^\]]*\]\s*)?theorem ", open(f).read(), re.M)) if os.path.exists(f) else 0
            mods.append(f"`{m.split('.')[-1]}`: {n}")
        rows.append(f"| {pid} | {', '.join(cfg.get('gen', [])) or '-'} | {', '.join(mods) or '-'} |")
    return "\n".join(rows)


def main():
    p = os.path.join(ROOT, "DESIGN.md")
    t = open(p).read()
    if "<!-- BEGIN:TIES -->" not in t:
        anchor = "* **Translation validation** (so that the translator is not simply trusted)"
        i = t.index(anchor)
        t = t[:i] + ("* **Tie modules as built** (rewritten by `tools/mk_design_tables.py`; every theorem below is an obligation of the\n"
                     "  property's check, audited with `#print axioms` like the property theorems):\n\n"
                     "<!-- BEGIN:TIES -->\n<!-- END:TIES -->\n\n") + t[i:]
    t = block(t, "TIES", ties())
    t = block(t, "STATUS", status())
    t = block(t, "FIXED", fixed())
    t = block(t, "SEEDED", seeded())
    open(p, "w").write(t)


if __name__ == "__main__":
    main()
