#!/bin/sh
# Run every claimed check (quick tier by default) on /repo and summarise. Usage: tools/run_all.sh [quick|thorough]
cd "$(dirname "$0")/.."
TIER=${1:-quick}
for p in $(python3 -c "import sys; sys.path.insert(0,'lib'); import props; print(' '.join(sorted(p for p,c in props.PROPS.items() if not c.get('unclaimed'))))"); do
  s=$(date +%s)
  out=$(./check "$p" --tier "$TIER" 2>/dev/null); rc=$?
  e=$(date +%s)
  echo "$p rc=$rc $((e-s))s $(echo "$out" | grep -c '^VIOLATION') violations $(echo "$out" | grep -c '^KNOWN-FINDING') known"
  echo "$out" | grep '^VIOLATION'
done
