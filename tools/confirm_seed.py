#!/usr/bin/env python3
"""Confirm a seeded breaking change and record it under /verif/seeded/<id>/.

  tools/confirm_seed.py --id C09-1 --prop C09 --src /tmp/seed_C09/out/1 \
      --demo demo_test.go:model3d/demo_test.go --demo-cmd "go test -vet=off -count=1 -run TestC09Demo ./model3d/" \
      --pkgs "./model3d/ ./model2d/" --needs "two hash-colliding keys, second arrives through Append"

In a scratch worktree of /repo's HEAD (outside /repo and /verif, removed afterwards) it checks that the
patch applies, the tree compiles, the EXISTING tests of the touched packages still pass, the demonstration
FAILS with the change and PASSES without it, and runs `VERIF_REPO=<worktree> ./check <prop>` to record
whether (and under which site) the property's check reports the change.  Nothing is ever applied to /repo.
"""
import argparse, json, os, shutil, subprocess, sys, time

ENV = dict(os.environ, GOFLAGS="-mod=mod", GOPROXY="off", GOSUMDB="off", GOTOOLCHAIN="local")
ROOT = os.path.dirname(os.path.dirname(os.path.abspath(__file__)))


def sh(cmd, cwd, timeout=3000, env=ENV):
    p = subprocess.run(cmd, cwd=cwd, shell=True, env=env, stdout=subprocess.PIPE, stderr=subprocess.STDOUT, text=True, timeout=timeout)
    return p.returncode, p.stdout


def main():
    ap = argparse.ArgumentParser()
    ap.add_argument("--id", required=True)
    ap.add_argument("--prop", required=True)
    ap.add_argument("--src", required=True)
    ap.add_argument("--demo", default="", help="comma list src:dst (dst relative to the worktree)")
    ap.add_argument("--demo-cmd", required=True)
    ap.add_argument("--pkgs", required=True)
    ap.add_argument("--needs", default="")
    ap.add_argument("--skip-check", action="store_true")
    a = ap.parse_args()
    wt = f"/tmp/confirm_{a.id}"
    dst = os.path.join(ROOT, "seeded", a.id)
    os.makedirs(dst, exist_ok=True)
    if os.path.realpath(a.src) != os.path.realpath(dst):
        for f in os.listdir(a.src):
            if os.path.isfile(os.path.join(a.src, f)):
                shutil.copy(os.path.join(a.src, f), os.path.join(dst, f))
    meta = dict(id=a.id, property=a.prop, needs_to_manifest=a.needs, ran=[], confirmed=False)
    subprocess.run(["git", "-C", "/repo", "worktree", "remove", "--force", wt], capture_output=True)
    rc, out = sh(f"git -C /repo worktree add -q {wt} HEAD", "/")
    try:
        head = subprocess.run(["git", "-C", "/repo", "rev-parse", "--short", "HEAD"], capture_output=True, text=True).stdout.strip()
        meta["repo_head"] = head
        rc, out = sh(f"git apply {dst}/patch.diff", wt)
        meta["ran"].append(dict(cmd="git apply patch.diff", rc=rc))
        if rc != 0:
            meta["error"] = "patch does not apply to current HEAD: " + out[-500:]
            return finish(meta, dst, wt)
        rc, out = sh("go build ./... && go vet -tags verif ./model3d ./model2d >/dev/null 2>&1; go build -tags verif ./...", wt)
        meta["ran"].append(dict(cmd="go build ./... (and with -tags verif)", rc=rc))
        if rc != 0:
            meta["error"] = "does not compile: " + out[-500:]
            return finish(meta, dst, wt)
        rc, out = sh(f"timeout 2400 go test -vet=off -count=1 {a.pkgs}", wt)
        for _retry in range(2):
            # the suite has randomised tests that fail now and then on the unchanged tree as well
            # (toolbox3d TestHeigthMapInterp, render3d TestBidirPathTracer): a failure is re-run
            if rc == 0:
                break
            rc, out = sh(f"timeout 2400 go test -vet=off -count=1 {a.pkgs}", wt)
        meta["ran"].append(dict(cmd=f"go test -vet=off -count=1 {a.pkgs}   (existing suite, change applied)", rc=rc, tail=out[-400:]))
        tests_pass = rc == 0
        for pair in [p for p in a.demo.split(",") if p]:
            s, d = pair.split(":")
            os.makedirs(os.path.dirname(os.path.join(wt, d)), exist_ok=True)
            shutil.copy(os.path.join(dst, s), os.path.join(wt, d))
        rc, out = sh(f"timeout 1200 {a.demo_cmd}", wt)
        meta["ran"].append(dict(cmd=a.demo_cmd + "   (demonstration, change applied)", rc=rc, tail=out[-600:]))
        demo_fails = rc != 0
        caught = None
        if not a.skip_check:
            env = dict(ENV, VERIF_REPO=wt)
            rc, out = sh(f"./check {a.prop}", ROOT, env=env, timeout=3000)
            lines = [l for l in out.splitlines() if l.startswith("VIOLATION") or l.startswith("KNOWN-FINDING")]
            sites = []
            for l in lines:
                if "replay=" in l:
                    rp = l.split("replay=")[1].split()[0]
                    try:
                        sites.append(json.load(open(rp)).get("site"))
                    except Exception:
                        pass
            caught = rc == 1 and any(l.startswith("VIOLATION") for l in lines)
            meta["check"] = dict(cmd=f"VERIF_REPO={wt} ./check {a.prop}", rc=rc, violation_lines=lines, sites=sites, caught=caught)
        rc, out = sh(f"git apply -R {dst}/patch.diff", wt)
        rc, out = sh(f"timeout 1200 {a.demo_cmd}", wt)
        meta["ran"].append(dict(cmd=a.demo_cmd + "   (demonstration, change reverted)", rc=rc, tail=out[-300:]))
        demo_passes_without = rc == 0
        meta["existing_tests_pass_with_change"] = tests_pass
        meta["demo_fails_with_change"] = demo_fails
        meta["demo_passes_without_change"] = demo_passes_without
        meta["confirmed"] = bool(tests_pass and demo_fails and demo_passes_without)
        meta["caught_by_check"] = caught
    finally:
        pass
    return finish(meta, dst, wt)


def finish(meta, dst, wt):
    subprocess.run(["git", "-C", "/repo", "worktree", "remove", "--force", wt], capture_output=True)
    shutil.rmtree(wt, ignore_errors=True)
    meta["at"] = time.strftime("%Y-%m-%dT%H:%M:%S")
    json.dump(meta, open(os.path.join(dst, "meta.json"), "w"), indent=1)
    print(json.dumps({k: meta.get(k) for k in ("id", "confirmed", "caught_by_check", "error")}))
    if meta.get("check"):
        print(" sites:", meta["check"]["sites"])
    return 0


if __name__ == "__main__":
    sys.exit(main())
