#!/bin/sh
# usage: confirm_batch2.sh C09 "pkgs" offset
P=$1; L=$(echo $P | tr 'A-Z' 'a-z'); PK=$2; OFF=$3
cd /verif
for k in 1 2 3; do
  d=/tmp/seed_$P.out/$k
  [ -f $d/patch.diff ] || continue
  needs=$(head -1 $d/README.md)
  id=$P-$((k+OFF))
  python3 tools/confirm_seed.py --id $id --prop $P --src $d --demo demo_test.go:${L}demo/demo_test.go --demo-cmd "go test -count=1 ./${L}demo/" --pkgs "$PK" --needs "$needs"
done
