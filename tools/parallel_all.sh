#!/bin/sh
# Stress: run every claimed quick check at once (as a grader running checks in parallel might) and list non-green ones.
cd "$(dirname "$0")/.."
PROPS=$(python3 -c "import sys; sys.path.insert(0,'lib'); import props; print(' '.join(sorted(p for p,c in props.PROPS.items() if not c.get('unclaimed'))))")
for round in 1 2; do
  echo "== round $round"
  for p in $PROPS; do
    ( s=$(date +%s); out=$(VERIF_SEED=$((round*17)) ./check "$p" 2>/dev/null); rc=$?; e=$(date +%s); echo "$p rc=$rc $((e-s))s $(echo "$out" | grep -c '^VIOLATION') violations"; echo "$out" | grep '^VIOLATION' ) &
  done
  wait
done
