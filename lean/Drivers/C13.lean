import M3d.DriverLib
import M3d.Drv.C13

def main : IO Unit := M3d.runDriver fun ws =>
  match ws with
  | "c13" :: rest => M3d.Drv.C13.handleAll rest
  | _ => none
