import M3d.DriverLib
import M3d.Drv.C09

def main : IO Unit := M3d.runDriver fun ws =>
  match ws with
  | "c09" :: rest => M3d.Drv.C09.handleAll rest
  | _ => none
