import M3d.DriverLib
import M3d.Drv.C11

def main : IO Unit := M3d.runDriver fun ws =>
  match ws with
  | "c11" :: rest => M3d.Drv.C11.handleAll rest
  | _ => none
