import M3d.DriverLib
import M3d.Drv.C04

def main : IO Unit := M3d.runDriver fun ws =>
  match ws with
  | "c04" :: rest => M3d.Drv.C04.handleAll rest
  | _ => none
