import M3d.DriverLib
import M3d.Drv.C03

def main : IO Unit := M3d.runDriver fun ws =>
  match ws with
  | "c03" :: rest => M3d.Drv.C03.handleAll rest
  | _ => none
