import M3d.DriverLib
import M3d.Drv.C07

def main : IO Unit := M3d.runDriver fun ws =>
  match ws with
  | "c07" :: rest => M3d.Drv.C07.handleAll rest
  | _ => none
