import M3d.DriverLib
import M3d.Drv.C17

def main : IO Unit := M3d.runDriver fun ws =>
  match ws with
  | "c17" :: rest => M3d.Drv.C17.handleAll rest
  | _ => none
