import M3d.DriverLib
import M3d.Drv.C16

def main : IO Unit := M3d.runDriver fun ws =>
  match ws with
  | "c16" :: rest => M3d.Drv.C16.handleAll rest
  | _ => none
