import M3d.DriverLib
import M3d.Drv.C18

def main : IO Unit := M3d.runDriver fun ws =>
  match ws with
  | "c18" :: rest => M3d.Drv.C18.handleAll rest
  | _ => none
