import M3d.DriverLib
import M3d.Drv.C08

def main : IO Unit := M3d.runDriver fun ws =>
  match ws with
  | "c08" :: rest => M3d.Drv.C08.handleAll rest
  | _ => none
