import M3d.DriverLib
import M3d.Drv.C05

def main : IO Unit := M3d.runDriver fun ws =>
  match ws with
  | "c05" :: rest => M3d.Drv.C05.handleAll rest
  | _ => none
