import M3d.DriverLib
import M3d.Drv.C06

def main : IO Unit := M3d.runDriver fun ws =>
  match ws with
  | "c06" :: rest => M3d.Drv.C06.handleAll rest
  | _ => none
