import M3d.DriverLib
import M3d.Drv.C19

def main : IO Unit := M3d.runDriver fun ws =>
  match ws with
  | "c19" :: rest => M3d.Drv.C19.handleAll rest
  | _ => none
