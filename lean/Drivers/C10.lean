import M3d.DriverLib
import M3d.Drv.C10

def main : IO Unit := M3d.runDriver fun ws =>
  match ws with
  | "c10" :: rest => M3d.Drv.C10.handleAll rest
  | _ => none
