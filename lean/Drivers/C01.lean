import M3d.DriverLib
import M3d.Drv.C01

def main : IO Unit := M3d.runDriver fun ws =>
  match ws with
  | "c01" :: rest => M3d.Drv.C01.handleAll rest
  | _ => none
