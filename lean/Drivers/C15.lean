import M3d.DriverLib
import M3d.Drv.C15

def main : IO Unit := M3d.runDriver fun ws =>
  match ws with
  | "c15" :: rest => M3d.Drv.C15.handleAll rest
  | _ => none
