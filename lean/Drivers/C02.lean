import M3d.DriverLib
import M3d.Drv.C02

def main : IO Unit := M3d.runDriver fun ws =>
  match ws with
  | "c02" :: rest => M3d.Drv.C02.handleAll rest
  | _ => none
