import M3d.DriverLib
import M3d.Drv.C20

def main : IO Unit := M3d.runDriver fun ws =>
  match ws with
  | "c20" :: rest => M3d.Drv.C20.handleAll rest
  | _ => none
