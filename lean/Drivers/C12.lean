import M3d.DriverLib
import M3d.Drv.C12

def main : IO Unit := M3d.runDriver fun ws =>
  match ws with
  | "c12" :: rest => M3d.Drv.C12.handleAll rest
  | _ => none
