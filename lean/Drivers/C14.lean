import M3d.DriverLib
import M3d.Drv.C14

def main : IO Unit := M3d.runDriver fun ws =>
  match ws with
  | "c14" :: rest => M3d.Drv.C14.handleAll rest
  | _ => none
