import M3d.Basic
