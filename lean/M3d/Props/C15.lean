import M3d.Lemmas.CodecStl
import M3d.Lemmas.CodecPly
import M3d.Lemmas.CodecMesh
import M3d.Lemmas.CodecText
import M3d.Lemmas.CodecCsv
import M3d.Model.CodecMesh
/-!
# C15 — mesh files round-trip through the library's writers and readers

Property theorems only.  Models: `M3d/Model/Codec{Bytes,Stl,Ply,Mesh,Spec}.lean` (byte-level, total,
executable — the driver `drv_c15` runs exactly these definitions against the real Go writers and
readers).  Lemmas: `M3d/Lemmas/Codec*.lean`.
-/
namespace M3d.C15
open M3d.Codec

/-! ## integer / float-bit codecs (`encoding/binary`) -/

/-- `binary.LittleEndian.Uint32(PutUint32(x)) = x` (also the float32 bit codec of STL and PLY). -/
theorem le32_roundtrip (x : UInt32) : unle32 (le32 x) = x := unle32_le32 x
/-- `binary.BigEndian.Uint32(PutUint32(x)) = x`. -/
theorem be32_roundtrip (x : UInt32) : unbe32 (be32 x) = x := unbe32_be32 x
/-- 16-bit little endian. -/
theorem le16_roundtrip (x : UInt16) : unle16 (le16 x) = x := unle16_le16 x
/-- 16-bit big endian. -/
theorem be16_roundtrip (x : UInt16) : unbe16 (be16 x) = x := unbe16_be16 x
/-- 64-bit little endian (float64 bit codec). -/
theorem le64_roundtrip (x : UInt64) : unle64 (le64 x) = x := unle64_le64 x
/-- 64-bit big endian. -/
theorem be64_roundtrip (x : UInt64) : unbe64 (be64 x) = x := unbe64_be64 x

/-- Any width, either byte order: `k` bytes are written and the value (`< 256^k`) is read back. -/
theorem uint_roundtrip (e : Endian) (k n : Nat) (h : n < 256 ^ k) :
    (putUint e k n).length = k ∧ getUint e (putUint e k n) = n :=
  ⟨putUint_length e k n, getUint_putUint e h⟩

/-! ## binary STL -/

/-- **Binary STL, record level**: `NewSTLWriter`/`WriteTriangle` followed by `NewSTLReader` (with its
ASCII sniffing) and `ReadTriangle` until `io.EOF` returns exactly the records written — same order,
same orientation, every float32 bit pattern unchanged (NaN payloads, −0, subnormals included) — for
every list of triangles, the empty one included, as long as the count fits the format's uint32. -/
theorem stl_bin_roundtrip (pf32 : Bytes → Option UInt32) (ts : List Rec)
    (hts : ∀ t ∈ ts, t.length = 12) (h : ts.length < 2 ^ 32) :
    stlDecode pf32 (stlEncode ts) = .ok ts :=
  stlDecode_encode pf32 ts hts h

/-- **Binary STL, mesh API**: `ReadSTL(EncodeSTL(ts))` returns the triangles of `ts` in order with every
coordinate replaced by `float64(float32(x))` — whatever `Triangle.Normal()` computes (the reader drops
it) and for whatever rounding function `float32(·)` is. -/
theorem stl_mesh_roundtrip (round32 : UInt64 → UInt32) (widen : UInt32 → UInt64)
    (normalOf : Tri64 → List UInt64) (pf32 : Bytes → Option UInt32) (ts : List Tri64)
    (hn : ∀ t ∈ ts, (normalOf t).length = 3) (h : ts.length < 2 ^ 32) (h9 : ∀ t ∈ ts, t.length = 9) :
    stlDecodeMesh widen pf32 (stlEncodeMesh round32 normalOf ts) =
      .ok (ts.map fun t => t.map fun x => widen (round32 x)) := by
  unfold stlDecodeMesh stlEncodeMesh
  rw [stlDecode_encode pf32 _ (by
        intro r hr
        obtain ⟨t, ht, rfl⟩ := List.mem_map.mp hr
        simp [hn t ht, h9 t ht]) (by simpa using h)]
  simp only [List.map_map, Except.ok.injEq]
  apply List.map_congr_left
  intro t ht
  have : ((normalOf t).map round32).length = 3 := by simp [hn t ht]
  simp [Function.comp, List.drop_left' this]

example : stlDecode noParse32 (stlEncode []) = .ok [] := stl_bin_roundtrip noParse32 [] (by simp) (by decide)

/-! ## PLY values, rows, streams -/

/-- **PLY scalar, binary, both byte orders, all eight types**: the bytes `EncodeBinary` writes are
read back by `DecodeBinary` as the same value, and the rest of the stream is untouched. -/
theorem ply_value_roundtrip (e : Endian) (k : Kind) (bits : Nat) (h : bits < 256 ^ k.size) (rest : Bytes) :
    readScalarBin e k (scalarBytes e ⟨k, bits⟩ ++ rest) = .ok (⟨k, bits⟩, rest) :=
  readScalarBin_bytes e ⟨k, bits⟩ h rest

/-- **PLY row, any format**: a row conforming to its element's property list (scalars of the declared
types, lists whose length field equals their length) written by `PLYWriter.Write` is read back by
`PLYReader.Read` unchanged — ASCII under the `strconv` law `parse (fmt x) = x` (`TextOK`), binary
unconditionally. -/
theorem ply_row_roundtrip {ft : FloatText} (f : Format) (hft : f = .text → TextOK ft) (el : Element)
    (row : List PVal) (h : RowOK el.props row) (rest : Bytes) :
    ∃ a, readRow ft f el (encodeRow ft f row ++ rest) = .ok (row, rest, a) :=
  readRow_row f hft el row h rest

/-- **Decimal integer text** (`strconv.FormatInt` ↔ `ParseInt(s, 10, bits)`, also `Itoa`/`Atoi`): every
value representable at `bits` bits is read back. -/
theorem int_text_roundtrip (bits : Nat) (i : Int) (hlo : -(2 ^ (bits - 1) : Nat) ≤ i) (hhi : i < (2 ^ (bits - 1) : Nat)) :
    parseIntN bits (fmtInt i) = some i :=
  parseIntN_fmtInt bits i hlo hhi

/-- `strconv.FormatUint` ↔ `ParseUint(s, 10, bits)`. -/
theorem uint_text_roundtrip (bits n : Nat) (h : n < 2 ^ bits) : parseUintN bits (fmtNat n) = some n :=
  parseUintN_fmtNat bits n h

/-- **PLY scalar, ASCII, the six integer types**: no hypothesis at all — the text is a token, is not the
word `comment`, and parses back to the same value. -/
theorem ply_int_value_roundtrip_ascii (ft : FloatText) (s : Scalar) (hw : s.WF) (hk : s.kind.isFloat = false) :
    parseScalar ft s.kind (scalarText ft s) = some s ∧ IsToken (scalarText ft s) ∧ scalarText ft s ≠ tokComment :=
  int_text_ok ft s hw hk

/-- The hypothesis `TextOK` of the ASCII theorems is exactly Go's *float* text law (`FloatTextOK`:
`ParseFloat(FormatFloat(x,'f',-1,b), b) = x`, and the text is a token) — which the harness checks on
every float that crosses. -/
theorem ply_text_ok_of_float_law {ft : FloatText} (h : FloatTextOK ft) : TextOK ft :=
  textOK_of_floats h

/-- **PLY stream, writer side**: for every element list — any names, any counts (zero and negative
included), any property lists — and every conforming value sequence, the sequence of `Write` calls
never fails, emits the rows in order and ends flushed (*done*), also when trailing elements are empty. -/
theorem ply_writer_total (ft : FloatText) (f : Format) (els : List Element)
    (rss : List (List (List PVal))) (h : SeqOK els rss) :
    writeRows ft f els 0 rss.flatten = some (rss.flatten.flatMap (encodeRow ft f), true) :=
  writeRows_seq ft f els rss h

/-- **PLY stream round trip (rows)**: reading what the writer produced for a conforming sequence
returns every row, tagged with its element, in file order, then `io.EOF` — for every element list
(counts ≥ 0 **including 0**, lists, all types), every byte order, ASCII under `TextOK`. -/
theorem ply_rows_roundtrip {ft : FloatText} (f : Format) (hft : f = .text → TextOK ft)
    (els : List Element) (rss : List (List (List PVal))) (h : SeqOK els rss) (tail : Bytes) :
    ∃ bytes, writeRows ft f els 0 rss.flatten = some (bytes, true) ∧
      (readElems ft f 0 els (bytes ++ tail)).rows = indexed 0 rss ∧
      (readElems ft f 0 els (bytes ++ tail)).err = none :=
  ⟨_, writeRows_seq ft f els rss h, readElems_seq f hft els rss h 0 tail⟩

/-- **PLY stream round trip (whole file)**: `NewPLYWriter` + `Write`… then `NewPLYReader` + `Read`… gives
back the header and the value sequence, for every header whose text decodes to itself
(`hhdr`; the header grammar round trip is checked by the correspondence on every generated header —
see notes: `ply_header_roundtrip` is not proved in general). -/
theorem ply_stream_roundtrip {ft : FloatText} (h : Header) (hft : h.format = .text → TextOK ft)
    (rss : List (List (List PVal))) (hseq : SeqOK h.elements rss)
    (hhdr : ∀ body, plyOpen (h.encode ++ body) = .ok (h, body)) :
    ∃ bytes, plyWrite ft h rss.flatten = some (bytes, true) ∧
      ∃ r, plyReadAll ft bytes = .ok (h, r) ∧ r.rows = indexed 0 rss ∧ r.err = none := by
  refine ⟨h.encode ++ rss.flatten.flatMap (encodeRow ft h.format), ?_, ?_⟩
  · unfold plyWrite
    rw [writeRows_seq ft h.format h.elements rss hseq]
  · unfold plyReadAll
    rw [hhdr]
    have := readElems_seq h.format hft h.elements rss hseq 0 []
    rw [List.append_nil] at this
    exact ⟨_, rfl, this.1, this.2⟩

/-- Non-vacuity of the stream theorems, and the failing input of the unrepaired reader: the header
`[a : 0 rows (one uchar), b : 1 row (one uchar)]` with the single row `[7]`, little endian.  The
repaired reader returns the row as a row of `b`; the reader as it was attributes it to `a`. -/
example :
    let a : Element := ⟨[97], 0, [⟨none, ⟨.u8, false⟩, [120]⟩]⟩
    let b : Element := ⟨[98], 1, [⟨none, ⟨.u8, false⟩, [120]⟩]⟩
    let ft : FloatText := ⟨fun _ => [], fun _ => [], fun _ => none, fun _ => none⟩
    SeqOK [a, b] [[], [[.one ⟨.u8, 7⟩]]] ∧
    (readElems ft (.bin .little) 0 [a, b] [7]).rows = [(1, [.one ⟨.u8, 7⟩])] ∧
    (readElemsUnrepaired ft (.bin .little) 3 0 [a, b] 0 [7]).rows = [(0, [.one ⟨.u8, 7⟩])] := by
  refine ⟨⟨rfl, by simp, rfl, ?_, trivial⟩, by decide, by decide⟩
  intro r hr
  simp only [List.mem_singleton] at hr
  subst hr
  exact .cons ⟨rfl, rfl, by unfold Scalar.WF; decide⟩ .nil

/-- The unrepaired writer did not reach the flushed state when trailing elements are empty. -/
example :
    let a : Element := ⟨[97], 1, []⟩
    let z : Element := ⟨[122], 0, []⟩
    isDone [a, z] 1 = true ∧ isDoneUnrepaired [a, z] 1 = false := by decide

/-! ## segment CSV -/

/-- **CSV round trip**: `DecodeCSV` (through the modelled subset of `encoding/csv`, 4 fields per record) of
what `SegmentCSVWriter.Write` wrote returns the same segments in the same order, bit for bit — given
Go's `'G', -1` float text law (`CsvTextOK`: parses back, and contains no comma, quote, CR or LF),
checked by the harness on every number. -/
theorem csv_roundtrip {fmtG : UInt64 → Bytes} {pf : Bytes → Option UInt64} (hok : CsvTextOK fmtG pf)
    (segs : List (List UInt64)) (h4 : ∀ s ∈ segs, s.length = 4) :
    csvDecode pf (csvEncode fmtG segs) = .ok segs :=
  csvDecode_encode hok segs h4

/-! ## vertex de-duplication and OBJ/3MF index construction -/

/-- **`WritePLY` / `BuildVertexColorOBJ` / `BuildMaterialOBJ` / `newIndexMesh` de-duplication**: for every
corner `p` visited, the index emitted is in range and the table entry there is `==` to `p`
(same key) — for any key function (Go `==` on coordinates is `key3`). -/
theorem dedup_index_correct {α κ : Type} [DecidableEq κ] (key : α → κ) (ps : List α) (p : α) (hp : p ∈ ps) :
    ∃ h : indexOfKey key (dedupCoords key ps) p < (dedupCoords key ps).length,
      key ((dedupCoords key ps)[indexOfKey key (dedupCoords key ps) p]) = key p :=
  dedup_index key ps p hp

/-- … and the vertex table never holds two `==` coordinates. -/
theorem dedup_no_duplicates {α κ : Type} [DecidableEq κ] (key : α → κ) (ps : List α) :
    ((dedupCoords key ps).map key).Nodup :=
  dedup_nodup key ps

/-- **OBJ: every face referenced exactly once** — `BuildVertexColorOBJ` emits one index triple per
triangle, in order (one group). -/
theorem obj_each_face_once (ts : List Tri3) : (objVertexColor ts).2.length = ts.length := by
  simp [objVertexColor, meshIndex]

/-- **OBJ: indices in range** — every index of every face is 1-based and at most the number of vertices. -/
theorem obj_indices_in_range (ts : List Tri3) :
    ∀ f ∈ (objVertexColor ts).2, ∀ i ∈ f, 1 ≤ i ∧ i ≤ (objVertexColor ts).1.length := by
  intro f hf i hi
  have hf' : f ∈ (ts.map fun t => t.corners.map (indexOfKey key3 (dedupCoords key3 (ts.flatMap Tri3.corners)))).map
      (fun f => f.map (· + 1)) := hf
  obtain ⟨g, hg, rfl⟩ := List.mem_map.mp hf'
  obtain ⟨t, ht, rfl⟩ := List.mem_map.mp hg
  obtain ⟨j, hj, rfl⟩ := List.mem_map.mp hi
  obtain ⟨p, hp, rfl⟩ := List.mem_map.mp hj
  have hmem : p ∈ ts.flatMap Tri3.corners := List.mem_flatMap.mpr ⟨t, ht, hp⟩
  obtain ⟨hlt, _⟩ := dedup_index key3 (ts.flatMap Tri3.corners) p hmem
  have hlen : (objVertexColor ts).1.length = (dedupCoords key3 (ts.flatMap Tri3.corners)).length := rfl
  rw [hlen]
  omega

/-- **MTL groups**: the material group a triangle is put in exists (index in range), so with
`obj_each_face_once` every face lies in exactly one existing group. -/
theorem obj_group_in_range {μ : Type} [DecidableEq μ] (mat : Nat → μ) (ts : List Tri3) :
    ∀ x ∈ (objMaterial mat ts).2.2, x.1 < (objMaterial mat ts).2.1.length := by
  intro x hx
  simp only [objMaterial, List.mem_map] at hx
  obtain ⟨⟨i, f⟩, hif, rfl⟩ := hx
  have hi : i ∈ List.range ts.length := (List.of_mem_zip hif).1
  have hm : mat i ∈ (List.range ts.length).map mat := List.mem_map.mpr ⟨i, hi, rfl⟩
  obtain ⟨hlt, _⟩ := dedup_index id ((List.range ts.length).map mat) (mat i) hm
  simpa [objMaterial] using hlt

/-- **3MF / PLY mesh writer**: the 0-based index triples are in range. -/
theorem threemf_indices_in_range (ts : List Tri3) :
    ∀ f ∈ (meshIndex ts).2, ∀ i ∈ f, i < (meshIndex ts).1.length := by
  intro f hf i hi
  have hf' : f ∈ ts.map fun t => t.corners.map (indexOfKey key3 (dedupCoords key3 (ts.flatMap Tri3.corners))) := hf
  obtain ⟨t, ht, rfl⟩ := List.mem_map.mp hf'
  obtain ⟨p, hp, rfl⟩ := List.mem_map.mp hi
  have hmem : p ∈ ts.flatMap Tri3.corners := List.mem_flatMap.mpr ⟨t, ht, hp⟩
  exact (dedup_index key3 (ts.flatMap Tri3.corners) p hmem).1

end M3d.C15
