import M3d.Lemmas.CodecStl
import M3d.Lemmas.CodecBlank
import M3d.Lemmas.CodecPly
import M3d.Lemmas.CodecMesh
import M3d.Lemmas.CodecText
import M3d.Lemmas.CodecCsv
import M3d.Lemmas.CodecRound
import M3d.Lemmas.CodecStlAscii
import M3d.Lemmas.CodecStlNumbers
import M3d.Lemmas.CodecOff
import M3d.Lemmas.CodecPlyHeader
import M3d.Lemmas.CodecFace
import M3d.Lemmas.CodecIndex
import M3d.Lemmas.CodecDecLit
import M3d.Lemmas.CodecStream
import M3d.Model.CodecMesh
/-!
# C15 — mesh files round-trip through the library's writers and readers

Property theorems only.  Models: `M3d/Model/Codec{Bytes,Stl,Ply,Mesh,Spec}.lean` (byte-level, total,
executable — the driver `drv_c15` runs exactly these definitions against the real Go writers and
readers).  Lemmas: `M3d/Lemmas/Codec*.lean`.
-/
namespace M3d.C15
open M3d.Codec

/-! ## integer / float-bit codecs (`encoding/binary`) -/

/-- `binary.LittleEndian.Uint32(PutUint32(x)) = x` (also the float32 bit codec of STL and PLY). -/
theorem le32_roundtrip (x : UInt32) : unle32 (le32 x) = x := unle32_le32 x
/-- `binary.BigEndian.Uint32(PutUint32(x)) = x`. -/
theorem be32_roundtrip (x : UInt32) : unbe32 (be32 x) = x := unbe32_be32 x
/-- 16-bit little endian. -/
theorem le16_roundtrip (x : UInt16) : unle16 (le16 x) = x := unle16_le16 x
/-- 16-bit big endian. -/
theorem be16_roundtrip (x : UInt16) : unbe16 (be16 x) = x := unbe16_be16 x
/-- 64-bit little endian (float64 bit codec). -/
theorem le64_roundtrip (x : UInt64) : unle64 (le64 x) = x := unle64_le64 x
/-- 64-bit big endian. -/
theorem be64_roundtrip (x : UInt64) : unbe64 (be64 x) = x := unbe64_be64 x

/-- Any width, either byte order: `k` bytes are written and the value (`< 256^k`) is read back. -/
theorem uint_roundtrip (e : Endian) (k n : Nat) (h : n < 256 ^ k) :
    (putUint e k n).length = k ∧ getUint e (putUint e k n) = n :=
  ⟨putUint_length e k n, getUint_putUint e h⟩

/-! ## binary STL -/

/-- **Binary STL, record level**: `NewSTLWriter`/`WriteTriangle` followed by `NewSTLReader` (with its
ASCII sniffing) and `ReadTriangle` until `io.EOF` returns exactly the records written — same order,
same orientation, every float32 bit pattern unchanged (NaN payloads, −0, subnormals included) — for
every list of triangles, the empty one included, as long as the count fits the format's uint32. -/
theorem stl_bin_roundtrip (pf32 : Bytes → Option UInt32) (ts : List Rec)
    (hts : ∀ t ∈ ts, t.length = 12) (h : ts.length < 2 ^ 32) :
    stlDecode pf32 (stlEncode ts) = .ok ts :=
  stlDecode_encode pf32 ts hts h

/-- **Binary STL, mesh API**: `ReadSTL(EncodeSTL(ts))` returns the triangles of `ts` in order with every
coordinate replaced by `float64(float32(x))` — whatever `Triangle.Normal()` computes (the reader drops
it) and for whatever rounding function `float32(·)` is. -/
theorem stl_mesh_roundtrip (round32 : UInt64 → UInt32) (widen : UInt32 → UInt64)
    (normalOf : Tri64 → List UInt64) (pf32 : Bytes → Option UInt32) (ts : List Tri64)
    (hn : ∀ t ∈ ts, (normalOf t).length = 3) (h : ts.length < 2 ^ 32) (h9 : ∀ t ∈ ts, t.length = 9) :
    stlDecodeMesh widen pf32 (stlEncodeMesh round32 normalOf ts) =
      .ok (ts.map fun t => t.map fun x => widen (round32 x)) := by
  unfold stlDecodeMesh stlEncodeMesh
  rw [stlDecode_encode pf32 _ (by
        intro r hr
        obtain ⟨t, ht, rfl⟩ := List.mem_map.mp hr
        simp [hn t ht, h9 t ht]) (by simpa using h)]
  simp only [List.map_map, Except.ok.injEq]
  apply List.map_congr_left
  intro t ht
  have : ((normalOf t).map round32).length = 3 := by simp [hn t ht]
  simp [Function.comp, List.drop_left' this]

example : stlDecode noParse32 (stlEncode []) = .ok [] := stl_bin_roundtrip noParse32 [] (by simp) (by decide)

/-! ## STL from a reader that delivers the file in pieces

`stlDecode` is a function of the bytes of the file.  The real `NewSTLReader` gets them from an
`io.Reader`, whose `Read` may return fewer bytes than asked for although more follow (pipe, socket,
chunked body, `io.MultiReader(header, body)`, `iotest.OneByteReader`; `model3d.ReadSTL` puts a
`bufio.Reader` in front, which passes short reads on).  `Stream.stlDecodeSrc` is the reader over such a
source (`M3d/Model/CodecStream.lean`): `io.ReadFull` for the 512-byte sniffing chunk, the 80-byte
header, the count and every 50-byte record; `io.MultiReader(bytes.NewReader(chunk), r)`;
`bufio.Reader.ReadString` (4096-byte buffer, `fill`, `ReadSlice`, `collectFragments`) for the lines. -/

open M3d.Codec.Stream in
/-- **The STL reader does not depend on how the bytes are delivered.**  For every source `s` — any
list of deliveries, none of them empty (`Read` never returns `0, nil`), `io.EOF` reported together with
the last delivery or after it — `NewSTLReader(s)` followed by `ReadTriangle` until `io.EOF` returns
exactly what the byte-level reader returns on the concatenation of the deliveries: same records or
the same error, binary and ASCII files alike, whatever number parser. -/
theorem stl_reader_delivery_independent (pf32 : Bytes → Option UInt32) (s : Src) (hne : s.NoEmpty) :
    stlDecodeSrc pf32 s = stlDecode pf32 s.bytes :=
  stlDecodeSrc_eq pf32 s hne

open M3d.Codec.Stream in
/-- **Binary STL round trip over any delivery** (kind `stlc b`): the file `NewSTLWriter`/`WriteTriangle`
write for `ts`, delivered in any pieces, is read back as exactly `ts` — same order, orientation and
bit patterns.  In particular a first `Read` shorter than the 512-byte sniffing chunk (seeded C15-7)
must not make the reader take that fragment for the whole file. -/
theorem stl_bin_roundtrip_any_delivery (pf32 : Bytes → Option UInt32) (ts : List Rec)
    (hts : ∀ t ∈ ts, t.length = 12) (h : ts.length < 2 ^ 32)
    (s : Src) (hne : s.NoEmpty) (hs : s.bytes = stlEncode ts) :
    stlDecodeSrc pf32 s = .ok ts := by
  rw [stlDecodeSrc_eq pf32 s hne, hs]
  exact stlDecode_encode pf32 ts hts h

open M3d.Codec.Stream in
/-- **Binary STL, mesh API, any delivery**: `ReadSTL(r)` for a reader `r` delivering `EncodeSTL(ts)` in
any pieces returns the triangles of `ts` in order with every coordinate `float64(float32(x))`. -/
theorem stl_mesh_roundtrip_any_delivery (round32 : UInt64 → UInt32) (widen : UInt32 → UInt64)
    (normalOf : Tri64 → List UInt64) (pf32 : Bytes → Option UInt32) (ts : List Tri64)
    (hn : ∀ t ∈ ts, (normalOf t).length = 3) (h : ts.length < 2 ^ 32) (h9 : ∀ t ∈ ts, t.length = 9)
    (s : Src) (hne : s.NoEmpty) (hs : s.bytes = stlEncodeMesh round32 normalOf ts) :
    stlDecodeMeshSrc widen pf32 s = .ok (ts.map fun t => t.map fun x => widen (round32 x)) := by
  have := stl_mesh_roundtrip round32 widen normalOf pf32 ts hn h h9
  unfold stlDecodeMesh at this
  unfold stlDecodeMeshSrc
  rw [stlDecodeSrc_eq pf32 s hne, hs]
  exact this

open M3d.Codec.Stream in
/-- **ASCII STL to the specification over any delivery** (kind `stlc a`): `stl_ascii_spec` for a reader
that delivers the text in any pieces (lines cut anywhere, also in the middle of a number or of the
`solid` keyword). -/
theorem stl_ascii_spec_any_delivery (fmt32 : Nat → Bytes) (pf32 : Bytes → Option UInt32) (g : UInt32 → UInt32)
    (ts : List Rec) (h12 : ∀ t ∈ ts, t.length = 12) (hw : ∀ t ∈ ts, ∀ w ∈ t, WordOK fmt32 pf32 g w)
    (s : Src) (hne : s.NoEmpty) (hs : s.bytes = stlAsciiSpec fmt32 ts) :
    stlDecodeSrc pf32 s = .ok (ts.map (·.map g)) := by
  rw [stlDecodeSrc_eq pf32 s hne, hs]
  exact stlDecode_asciiSpec fmt32 pf32 g ts h12 hw

open M3d.Codec.Stream in
/-- **Every way of cutting a file into deliveries is covered** (what the driver does for kind `stlc`):
`splitSizes ks bs` cuts `bs` into non-empty pieces of the sizes `ks` (rest in one last piece), and the
reader over them — with either `io.EOF` convention — is the byte-level reader on `bs`. -/
theorem stl_reader_split_any_sizes (pf32 : Bytes → Option UInt32) (ks : List Nat) (eager : Bool) (bs : Bytes) :
    stlDecodeSrc pf32 ⟨splitSizes ks bs, eager⟩ = stlDecode pf32 bs := by
  rw [stlDecodeSrc_eq pf32 ⟨splitSizes ks bs, eager⟩ (splitSizes_noEmpty ks bs)]
  show stlDecode pf32 (splitSizes ks bs).flatten = _
  rw [splitSizes_flatten]

open M3d.Codec.Stream in
/-- Non-vacuity, and the failing input of the seeded reader (C15-7: the sniffing chunk filled by ONE
`Read`, a short delivery taken for the whole file): the binary file of one triangle (134 bytes)
delivered as 50 bytes + the rest, and byte by byte.  The reader as it is returns the triangle; the
one-`Read` variant fails (`unexpected EOF` in the header) on both deliveries, and still reads the file
when it arrives in one piece. -/
example :
    let t : Rec := [1, 2, 3, 4, 5, 6, 7, 8, 9, 10, 11, 0x7fc00001]
    let bs := stlEncode [t]
    let s1 : Src := ⟨splitSizes [50] bs, false⟩
    let s2 : Src := ⟨splitSizes (List.replicate 200 1) bs, true⟩
    s1.NoEmpty ∧ s1.bytes = bs ∧ s2.chunks.length = 134 ∧
    stlDecodeSrc noParse32 s1 = .ok [t] ∧ stlDecodeSrc noParse32 s2 = .ok [t] ∧
    stlDecodeFuelOneRead 300 noParse32 s1 = .error .unexpectedEOF ∧
    stlDecodeFuelOneRead 300 noParse32 s2 = .error .unexpectedEOF ∧
    stlDecodeFuelOneRead 300 noParse32 ⟨[bs], false⟩ = .ok [t] := by
  refine ⟨splitSizes_noEmpty _ _, splitSizes_flatten _ _, by decide +kernel, by decide +kernel,
    by decide +kernel, by decide +kernel, by decide +kernel, by decide +kernel⟩

open M3d.Codec.Stream in
/-- The same for an ASCII file: one facet of specification text (> 100 bytes) delivered in pieces of 7
bytes — the keyword `solid` itself is cut — is read as the facet; the one-`Read` variant sniffs
the 7-byte fragment, and reads nothing from it. -/
example :
    let tok := ascii "1.5"
    let bs := stlAsciiSpec (fun _ => tok) [List.replicate 12 0]
    let s : Src := ⟨splitSizes (List.replicate 40 7) bs, false⟩
    stlDecodeSrc parseF32 s = .ok [List.replicate 12 0x3fc00000] ∧
    stlDecodeFuelOneRead 400 parseF32 s ≠ .ok [List.replicate 12 0x3fc00000] := by
  refine ⟨by decide +kernel, by decide +kernel⟩

/-! ## The primitives through which the PLY and OFF readers consume their input -/

open M3d.Codec.Stream in
/-- **`PLYReader` / `OFFReader`: the input primitives are delivery independent** (`_partial`).
`NewPLYReader` wraps its source in `bufio.NewReader` and touches it in three ways only:
`Read(next[:1])` byte by byte until `end_header\n`, `ReadString('\n')` for every ASCII row, and
`io.ReadFull` for every binary scalar (`DecodeInstanceBinary`); `OFFReader` uses `ReadString` only.
For every state `b` of the `bufio.Reader` that can arise over a source that never returns `0, nil`
(`b.Inv`; whatever is buffered, however the rest will be delivered, either `io.EOF` convention) each of
the three is a function of the bytes not yet consumed, `b.bytes`:

* the one-byte `Read` returns the next byte (nothing iff nothing is left) and leaves `drop 1`;
* `io.ReadFull(·, k)` returns `take k` (shorter only when the stream ends) and leaves `drop k`;
* `ReadString('\n')` returns the next line of `readLine` — including the newline, or everything that
  is left together with `io.EOF` — and leaves the rest;

and the state afterwards again satisfies `Inv`.  These right-hand sides are what the byte-level models
`plyOpen`/`plyReadAll`/`offDecode` are written with.  `_partial`: the composition — a reader-level twin of
those models over `BufRd` and its equality with them, as proved for STL
(`stl_reader_delivery_independent`) — is not mechanised; the harness hands PLY and OFF files to the real
readers in pieces and the correspondence compares with the byte-level model. -/
theorem ply_off_reader_primitives_delivery_independent_partial (F : Nat) (b : BufRd) (hi : b.Inv)
    (hF : b.rd.bytes.length + b.rd.parts + 1 < F) (k : Nat) :
    -- br.Read(next[:1])
    ((b.read 1).1 = b.bytes.take 1 ∧ (b.read 1).2.2.bytes = b.bytes.drop 1 ∧ (b.read 1).2.2.Inv ∧
      ((b.read 1).1 = [] ↔ b.bytes = [])) ∧
    -- io.ReadFull(br, data[:k])
    ((readFullBuf F b k).1 = b.bytes.take k ∧ (readFullBuf F b k).2.bytes = b.bytes.drop k ∧
      (readFullBuf F b k).2.Inv) ∧
    -- br.ReadString('\n')
    ((readString F (b.bytes.length + 1) b []).1 = (readLine b.bytes).1 ∧
      (readString F (b.bytes.length + 1) b []).2.1 =
        (if (readLine b.bytes).2.2 then SliceEnd.found else SliceEnd.failed BErr.eof) ∧
      (readString F (b.bytes.length + 1) b []).2.2.bytes = (readLine b.bytes).2.1 ∧
      (readString F (b.bytes.length + 1) b []).2.2.Inv) := by
  refine ⟨BufRd.read_one b hi, ?_, ?_⟩
  · obtain ⟨h1, h2, h3, _⟩ := readFullBuf_spec F b k hi (by omega)
    exact ⟨h1, h2, h3⟩
  · obtain ⟨h1, h2, h3, h4, _⟩ := readString_spec F (b.bytes.length + 1) b [] hi (by omega) (by omega)
    exact ⟨by simpa using h1, h2, h3, h4⟩

open M3d.Codec.Stream in
/-- Non-vacuity: a fresh `bufio.Reader` over any source without empty deliveries satisfies `Inv`; and by
evaluation on `"ab\ncd"` delivered as `a | b\nc | d`: the byte `a`, `ReadFull 4` = `ab\nc`, the line `ab\n`. -/
example :
    (∀ s : Src, s.NoEmpty → (BufRd.mk [] .none ⟨[], s⟩).Inv) ∧
    (let b : BufRd := ⟨[], .none, ⟨[], ⟨[[97], [98, 10, 99], [100]], true⟩⟩⟩
     (b.read 1).1 = [97] ∧ (readFullBuf 10 b 4).1 = [97, 98, 10, 99] ∧
     (readString 10 10 b []).1 = [97, 98, 10]) :=
  ⟨fun _ h => ⟨(fun e => by cases e), (by simp), h⟩, by decide +kernel⟩

/-! ## PLY values, rows, streams -/

/-- **PLY scalar, binary, both byte orders, all eight types**: the bytes `EncodeBinary` writes are
read back by `DecodeBinary` as the same value, and the rest of the stream is untouched. -/
theorem ply_value_roundtrip (e : Endian) (k : Kind) (bits : Nat) (h : bits < 256 ^ k.size) (rest : Bytes) :
    readScalarBin e k (scalarBytes e ⟨k, bits⟩ ++ rest) = .ok (⟨k, bits⟩, rest) :=
  readScalarBin_bytes e ⟨k, bits⟩ h rest

/-- **PLY row, any format**: a row conforming to its element's property list (scalars of the declared
types, lists whose length field equals their length) written by `PLYWriter.Write` is read back by
`PLYReader.Read` unchanged — ASCII under the `strconv` law `parse (fmt x) = x` (`TextOK`), binary
unconditionally. -/
theorem ply_row_roundtrip {ft : FloatText} (f : Format) (hft : f = .text → TextOK ft) (el : Element)
    (row : List PVal) (h : RowOK el.props row) (rest : Bytes) :
    ∃ a, readRow ft f el (encodeRow ft f row ++ rest) = .ok (row, rest, a) :=
  readRow_row f hft el row h rest

/-- **PLY list properties of ANY length** (binary, both byte orders): a list property whose count
value is `len` (of the declared count type, any of char…uint) followed by `vs.length = len` entries is
read back in full — all `vs.length` entries, there is no bound on the length other than what the
count type can express — and the properties that follow it in the row (`ps`/`row`) and the rest of the
stream are decoded unshifted.  (Instance of `ply_row_roundtrip`, which has no length bound either;
stated separately because the reader pre-allocates only `min(len, 4096)` entries: the number of
entries *read* must still be `len`.  ASCII: `ply_row_roundtrip` with `f = .text`.) -/
theorem ply_list_any_length_roundtrip (e : Endian) (p : PProp) (lt : PType) (hp : p.lenType = some lt)
    (len : Scalar) (vs : List Scalar) (hk : len.kind = lt.kind) (hw : len.WF)
    (hlen : lengthValue len = some (vs.length : Int))
    (hvs : ∀ v ∈ vs, v.kind = p.elemType.kind ∧ v.WF)
    (ps : List PProp) (row : List PVal) (hrow : RowOK ps row) (rest : Bytes) :
    ∃ a, decodeBinary e (p :: ps)
        (scalarBytes e len ++ vs.flatMap (scalarBytes e) ++ rowBinary e row ++ rest) =
      .ok (.list len vs :: row, rest, a) := by
  have h : RowOK (p :: ps) (.list len vs :: row) := .cons ⟨lt, hp, hk, hw, hlen, hvs⟩ hrow
  obtain ⟨a, ha⟩ := decodeBinary_row e (p :: ps) (.list len vs :: row) h rest
  refine ⟨a, ?_⟩
  rw [← ha]
  simp [rowBinary]

/-- Non-vacuity: a `list uint uchar` row of 100 000 entries (far above the reader's pre-allocation
bound 4096 and above 65 535) followed by a `short` satisfies the hypotheses. -/
example (e : Endian) (rest : Bytes) :
    ∃ a, decodeBinary e [⟨some ⟨.u32, false⟩, ⟨.u8, false⟩, [112]⟩, ⟨none, ⟨.i16, false⟩, [107]⟩]
        (scalarBytes e ⟨.u32, 100000⟩ ++ (List.replicate 100000 (⟨.u8, 7⟩ : Scalar)).flatMap (scalarBytes e) ++
          rowBinary e [.one ⟨.i16, 5⟩] ++ rest) =
      .ok ([.list ⟨.u32, 100000⟩ (List.replicate 100000 ⟨.u8, 7⟩), .one ⟨.i16, 5⟩], rest, a) := by
  apply ply_list_any_length_roundtrip e _ ⟨.u32, false⟩ rfl _ _ rfl
  · unfold Scalar.WF; norm_num [Kind.size]
  · rw [List.length_replicate]; rfl
  · intro v hv
    rw [List.eq_of_mem_replicate hv]
    exact ⟨rfl, by unfold Scalar.WF; norm_num [Kind.size]⟩
  · exact .cons ⟨rfl, rfl, by unfold Scalar.WF; norm_num [Kind.size]⟩ .nil

/-- **Decimal integer text** (`strconv.FormatInt` ↔ `ParseInt(s, 10, bits)`, also `Itoa`/`Atoi`): every
value representable at `bits` bits is read back. -/
theorem int_text_roundtrip (bits : Nat) (i : Int) (hlo : -(2 ^ (bits - 1) : Nat) ≤ i) (hhi : i < (2 ^ (bits - 1) : Nat)) :
    parseIntN bits (fmtInt i) = some i :=
  parseIntN_fmtInt bits i hlo hhi

/-- `strconv.FormatUint` ↔ `ParseUint(s, 10, bits)`. -/
theorem uint_text_roundtrip (bits n : Nat) (h : n < 2 ^ bits) : parseUintN bits (fmtNat n) = some n :=
  parseUintN_fmtNat bits n h

/-- **PLY scalar, ASCII, the six integer types**: no hypothesis at all — the text is a token, is not the
word `comment`, and parses back to the same value. -/
theorem ply_int_value_roundtrip_ascii (ft : FloatText) (s : Scalar) (hw : s.WF) (hk : s.kind.isFloat = false) :
    parseScalar ft s.kind (scalarText ft s) = some s ∧ IsToken (scalarText ft s) ∧ scalarText ft s ≠ tokComment :=
  int_text_ok ft s hw hk

/-- The hypothesis `TextOK` of the ASCII theorems is exactly Go's *float* text law (`FloatTextOK`:
`ParseFloat(FormatFloat(x,'f',-1,b), b) = x`, and the text is a token) — which the harness checks on
every float that crosses. -/
theorem ply_text_ok_of_float_law {ft : FloatText} (h : FloatTextOK ft) : TextOK ft :=
  textOK_of_floats h

/-- **PLY stream, writer side**: for every element list — any names, any counts (zero and negative
included), any property lists — and every conforming value sequence, the sequence of `Write` calls
never fails, emits the rows in order and ends flushed (*done*), also when trailing elements are empty. -/
theorem ply_writer_total (ft : FloatText) (f : Format) (els : List Element)
    (rss : List (List (List PVal))) (h : SeqOK els rss) :
    writeRows ft f els 0 rss.flatten = some (rss.flatten.flatMap (encodeRow ft f), true) :=
  writeRows_seq ft f els rss h

/-- **PLY stream round trip (rows)**: reading what the writer produced for a conforming sequence
returns every row, tagged with its element, in file order, then `io.EOF` — for every element list
(counts ≥ 0 **including 0**, lists, all types), every byte order, ASCII under `TextOK`. -/
theorem ply_rows_roundtrip {ft : FloatText} (f : Format) (hft : f = .text → TextOK ft)
    (els : List Element) (rss : List (List (List PVal))) (h : SeqOK els rss) (tail : Bytes) :
    ∃ bytes, writeRows ft f els 0 rss.flatten = some (bytes, true) ∧
      (readElems ft f 0 els (bytes ++ tail)).rows = indexed 0 rss ∧
      (readElems ft f 0 els (bytes ++ tail)).err = none :=
  ⟨_, writeRows_seq ft f els rss h, readElems_seq f hft els rss h 0 tail⟩

/-- **PLY stream round trip (whole file)**: `NewPLYWriter` + `Write`… then `NewPLYReader` + `Read`… gives
back the header and the value sequence, for every header whose text decodes to itself
(`hhdr`; discharged by `ply_header_roundtrip` for every well-named header: see `ply_file_roundtrip`). -/
theorem ply_stream_roundtrip {ft : FloatText} (h : Header) (hft : h.format = .text → TextOK ft)
    (rss : List (List (List PVal))) (hseq : SeqOK h.elements rss)
    (hhdr : ∀ body, plyOpen (h.encode ++ body) = .ok (h, body)) :
    ∃ bytes, plyWrite ft h rss.flatten = some (bytes, true) ∧
      ∃ r, plyReadAll ft bytes = .ok (h, r) ∧ r.rows = indexed 0 rss ∧ r.err = none := by
  refine ⟨h.encode ++ rss.flatten.flatMap (encodeRow ft h.format), ?_, ?_⟩
  · unfold plyWrite
    rw [writeRows_seq ft h.format h.elements rss hseq]
  · unfold plyReadAll
    rw [hhdr]
    have := readElems_seq h.format hft h.elements rss hseq 0 []
    rw [List.append_nil] at this
    exact ⟨_, rfl, this.1, this.2⟩

/-- **PLY header round trip** (`ply_header_roundtrip`, was a hypothesis): `NewPLYReader` applied to
`PLYHeader.Encode()` followed by any body — the byte-by-byte search for the first `end_header\n`
(`NewPLYHeaderRead`), then the line grammar (`NewPLYHeaderDecode`: `ply`, `format … 1.0`, `element name
count`, `property type name`, `property list lentype type name`) — returns exactly the header written
and leaves the body untouched: for every format, every element list (any counts in int64, negative and
zero included), every property list (scalars and lists, all 16 type-name spellings).  `HeaderOK`: element
and property names are tokens (non-empty, no white space) and **no property name ends in the word
`end_header`** (such a name makes the line end in `end_header\n`, which the format's own header
terminator search cannot distinguish — not expressible in the format). -/
theorem ply_header_roundtrip (h : Header) (hh : HeaderOK h) (body : Bytes) :
    plyOpen (h.encode ++ body) = .ok (h, body) :=
  plyOpen_encode h hh body

/-- **PLY stream round trip, whole file, no hypothesis on the header text**: for every well-named
header and every conforming value sequence, `NewPLYWriter` + `Write`… never fails and ends flushed, and
`NewPLYReader` + `Read`… until `io.EOF` gives back the header and exactly the rows written, tagged by
element, in order (ASCII under `TextOK`, binary unconditionally). -/
theorem ply_file_roundtrip {ft : FloatText} (h : Header) (hh : HeaderOK h)
    (hft : h.format = .text → TextOK ft)
    (rss : List (List (List PVal))) (hseq : SeqOK h.elements rss) :
    ∃ bytes, plyWrite ft h rss.flatten = some (bytes, true) ∧
      ∃ r, plyReadAll ft bytes = .ok (h, r) ∧ r.rows = indexed 0 rss ∧ r.err = none :=
  ply_stream_roundtrip h hft rss hseq (fun body => plyOpen_encode h hh body)

/-- Non-vacuity of `HeaderOK`: `element vertex 2 / property float x / property list uchar int idx`,
`element face 0`. -/
example : HeaderOK ⟨.bin .big,
    [⟨ascii "vertex", 2, [⟨none, ⟨.f32, false⟩, ascii "x"⟩, ⟨some ⟨.u8, false⟩, ⟨.i32, false⟩, ascii "idx"⟩]⟩,
     ⟨ascii "face", 0, []⟩]⟩ := by
  have tokx : IsToken (ascii "x") ∧ IsToken (ascii "idx") ∧ IsToken (ascii "vertex") ∧ IsToken (ascii "face") := by
    unfold IsToken; decide
  intro el hel
  simp only [List.mem_cons, List.not_mem_nil, or_false] at hel
  rcases hel with rfl | rfl
  · refine ⟨tokx.2.2.1, by decide, by decide, ?_⟩
    intro p hp
    simp only [List.mem_cons, List.not_mem_nil, or_false] at hp
    rcases hp with rfl | rfl
    · exact ⟨tokx.1, NoEH_of_forall _ (by decide)⟩
    · exact ⟨tokx.2.1, NoEH_of_forall _ (by decide)⟩
  · exact ⟨tokx.2.2.2, by decide, by decide, by simp⟩

/-- Non-vacuity of the stream theorems, and the failing input of the unrepaired reader: the header
`[a : 0 rows (one uchar), b : 1 row (one uchar)]` with the single row `[7]`, little endian.  The
repaired reader returns the row as a row of `b`; the reader as it was attributes it to `a`. -/
example :
    let a : Element := ⟨[97], 0, [⟨none, ⟨.u8, false⟩, [120]⟩]⟩
    let b : Element := ⟨[98], 1, [⟨none, ⟨.u8, false⟩, [120]⟩]⟩
    let ft : FloatText := ⟨fun _ => [], fun _ => [], fun _ => none, fun _ => none⟩
    SeqOK [a, b] [[], [[.one ⟨.u8, 7⟩]]] ∧
    (readElems ft (.bin .little) 0 [a, b] [7]).rows = [(1, [.one ⟨.u8, 7⟩])] ∧
    (readElemsUnrepaired ft (.bin .little) 3 0 [a, b] 0 [7]).rows = [(0, [.one ⟨.u8, 7⟩])] := by
  refine ⟨⟨rfl, by simp, rfl, ?_, trivial⟩, by decide, by decide⟩
  intro r hr
  simp only [List.mem_singleton] at hr
  subst hr
  exact .cons ⟨rfl, rfl, by unfold Scalar.WF; decide⟩ .nil

/-- The unrepaired writer did not reach the flushed state when trailing elements are empty. -/
example :
    let a : Element := ⟨[97], 1, []⟩
    let z : Element := ⟨[122], 0, []⟩
    isDone [a, z] 1 = true ∧ isDoneUnrepaired [a, z] 1 = false := by decide

/-! ## ASCII STL text written to the specification -/

/-- **ASCII STL to the specification is read back** (`stl_ascii_spec`, general form).  `stlAsciiSpec fmt32 ts`
is the text `solid m3d` / per facet `facet normal nx ny nz`, `outer loop`, 3 × `vertex x y z`, `endloop`,
`endfacet` / `endsolid m3d` with the number texts `fmt32 w`.  If every number text is a 7-bit token that
the number parser reads as `g w` (`WordOK`), then `fileformats.NewSTLReader` — the ASCII sniffing on the
first 512 bytes, the header line — and the `ReadTriangle` loop until `endsolid` return exactly the
facets written: same number, same order, normal then the three vertices in the order written
(orientation), every number replaced by the parser's reading `g w` of its text. -/
theorem stl_ascii_spec (fmt32 : Nat → Bytes) (pf32 : Bytes → Option UInt32) (g : UInt32 → UInt32)
    (ts : List Rec) (h12 : ∀ t ∈ ts, t.length = 12) (hw : ∀ t ∈ ts, ∀ w ∈ t, WordOK fmt32 pf32 g w) :
    stlDecode pf32 (stlAsciiSpec fmt32 ts) = .ok (ts.map (·.map g)) :=
  stlDecode_asciiSpec fmt32 pf32 g ts h12 hw

/-- **ASCII STL round trip** (kind `stla`): when the text of every float32 parses back to it
(Go's law `ParseFloat(FormatFloat(x,'f',-1,32),32) = x`, checked by the harness on every number), the
reader returns exactly the records written. -/
theorem stl_ascii_roundtrip (fmt32 : Nat → Bytes) (pf32 : Bytes → Option UInt32)
    (ts : List Rec) (h12 : ∀ t ∈ ts, t.length = 12) (hw : ∀ t ∈ ts, ∀ w ∈ t, WordOK fmt32 pf32 id w) :
    stlDecode pf32 (stlAsciiSpec fmt32 ts) = .ok ts := by
  have := stlDecode_asciiSpec fmt32 pf32 id ts h12 hw
  simpa using this

/-- **ASCII STL with decimal literals of any length** (kind `stlr`, no hypothesis on the texts): if the
model's parser accepts the text of every number (`parseF32 (text w) = some (g w)` — by
`stl_number_correctly_rounded` then `g w` is the written number rounded once to binary32, by
`stl_number_range` acceptance means `|number| < MaxFloat32 + ½ulp`), the reader returns exactly the
facets with those values.  Decimal literals are 7-bit tokens (`parseDec_bytes`), so nothing else is
assumed. -/
theorem stl_ascii_literals_read_rounded_once (text : Nat → Bytes) (g : UInt32 → UInt32)
    (ts : List Rec) (h12 : ∀ t ∈ ts, t.length = 12)
    (hp : ∀ t ∈ ts, ∀ w ∈ t, parseF32 (text w.toNat) = some (g w)) :
    stlDecode parseF32 (stlAsciiSpec text ts) = .ok (ts.map (·.map g)) :=
  stlDecode_asciiSpec text parseF32 g ts h12 (fun t ht w hw => wordOK_parseF32 text g w (hp t ht w hw))

/-- Non-vacuity of `stl_ascii_spec` with the model's own number parser (kind `stlr`): one facet whose
twelve numbers are the literal `1.00000005960464478` (above the midpoint of 1 and its successor) is read
as twelve times `0x3f800001`. -/
example :
    let tok := ascii "1.00000005960464478"
    stlDecode parseF32 (stlAsciiSpec (fun _ => tok) [List.replicate 12 0]) =
      .ok [List.replicate 12 0x3f800001] := by
  intro tok
  have h := stl_ascii_spec (fun _ => tok) parseF32 (fun _ => 0x3f800001) [List.replicate 12 0]
    (by simp) (by
      intro t _ w _
      exact ⟨by unfold IsToken; decide, by decide +kernel, by decide⟩)
  simpa using h

/-! ## ASCII STL numbers: rounded ONCE to the format's precision (binary32) -/

/-- **Correct rounding to binary32** (`strconv.ParseFloat(tok, 32)` as the ASCII STL reader must
behave).  `roundF32 n d` is the bit pattern the model returns for the non-negative number `n/d`
(`f32val b` = the value of pattern `b`, in the format extended to unbounded exponents, so every finite
binary32 is a `b' < 0x7f800000`): **no pattern is strictly closer** to `n/d` than the result, and if a
pattern of a *different value* is equally close (the number is exactly a midpoint), the result is the
**even** one.  There is no second rounding: the comparison is with the exact rational.  The result is a
float32 exactly when `roundF32 n d < 0x7f800000` (`parseF32` returns an error otherwise). -/
theorem f32_round_nearest_even (n d : Nat) (hd : 0 < d) (b' : Nat) :
    |f32val (roundF32 n d) - (n : ℚ) / d| ≤ |f32val b' - (n : ℚ) / d| ∧
    (|f32val b' - (n : ℚ) / d| = |f32val (roundF32 n d) - (n : ℚ) / d| →
      f32val b' ≠ f32val (roundF32 n d) → roundF32 n d % 2 = 0) :=
  roundF32_nearest n d hd b'

/-- `f32val` is the IEEE-754 binary32 value: 1.0, the largest finite number, the smallest subnormal,
the smallest normal. -/
example : f32val 0x3f800000 = 1 ∧ f32val 0x7f7fffff = (2 ^ 24 - 1) * 2 ^ 104 ∧
    f32val 1 = 1 / 2 ^ 149 ∧ f32val 0x00800000 = 1 / 2 ^ 126 := by
  refine ⟨?_, ?_, ?_, ?_⟩ <;> norm_num [f32val, f32nat]

/-- The failing inputs of a reader that rounds twice (through float64): `1.00000005960464478` lies
above the midpoint of 1 and its successor, `16777217.0000000001` above the midpoint of 2^24 and
2^24+2 — both must round *up* (a float64 detour lands on the midpoint and then ties to even, down). -/
example : roundF32 100000005960464478 100000000000000000 = 0x3f800001 ∧
    roundF32 167772170000000001 10000000000 = 0x4b800001 ∧
    roundF32 1 (10 ^ 46) = 0 ∧ roundF32 (10 ^ 39) 1 ≥ f32Inf := by
  refine ⟨?_, ?_, ?_, ?_⟩ <;> decide +kernel

/-- **The model's number parser = the number written, rounded once, sign kept**: when the token is the
decimal literal `x` (`Dec.value x = ± mant·10^exp10`, any number of digits) and `parseF32` returns `w`,
then `w` is a finite binary32 pattern, **no 32-bit pattern has a value closer to the written number**,
and a tie between two different values is resolved to the even significand.  This is the answer the
correspondence kind `stlr` demands from the real reader for every number of a spec-conformant ASCII
STL file ("coordinates equal to the originals rounded to the format's precision"). -/
theorem stl_number_correctly_rounded (tok : Bytes) (x : Dec) (w : UInt32)
    (hx : parseDec tok = some x) (hw : parseF32 tok = some w) :
    w.toNat % 2 ^ 31 < f32Inf ∧
    ∀ w' : Nat, |f32valS w.toNat - x.value| ≤ |f32valS w' - x.value| ∧
      (|f32valS w' - x.value| = |f32valS w.toNat - x.value| → f32valS w' ≠ f32valS w.toNat →
        w.toNat % 2 = 0) :=
  parseF32_correct tok x w hx hw

/-- **Range of the format**: the rounded pattern is a finite binary32 exactly when the number written
is below MaxFloat32 + ½ulp = (2^25 − 1)·2^103 ≈ 3.4028235678e38 (at the threshold itself ties-to-even
would give 2^128); correspondingly the model's parser returns an error for a decimal literal iff its
magnitude is at least that threshold — such a number is not expressible in a single-precision format,
the kind `stlr` accepts an error or a saturated (infinite) reading for it. -/
theorem stl_number_range (tok : Bytes) (x : Dec) (hx : parseDec tok = some x) :
    parseF32 tok = none ↔ (2 ^ 25 - 1) * 2 ^ 103 ≤ |x.value| :=
  parseF32_none_iff tok x hx

/-- … and on fractions: `roundF32 n d < 0x7f800000 ↔ n/d < (2^25 − 1)·2^103`. -/
theorem f32_round_finite_iff (n d : Nat) (hd : 0 < d) :
    roundF32 n d < f32Inf ↔ (n : ℚ) / d < (2 ^ 25 - 1) * 2 ^ 103 :=
  roundF32_finite_iff n d hd

/-- Non-vacuity: the literal `-2.000000119209289550781250000001` (just beyond the midpoint of 2 and its
successor, on the far side from the even neighbour) parses and reads as `0xc0000001`. -/
example : parseF32 (ascii "-2.000000119209289550781250000001") = some 0xc0000001 := by decide +kernel

/-- **`parseDec` reads a decimal literal as the number it denotes** (was: validated by the
correspondence only).  For every literal of the grammar
`[+-]? (digits [. digits*] | . digits+) ([eE] [+-]? digits+)?` given by its parts (`Lit`: optional
sign, integer digits, optional `.` + fraction digits, optional exponent with `e`/`E`, optional sign
and at least one digit; at least one digit before the exponent — `Lit.WF`), `parseDec` accepts the
text and returns a `Dec` whose value is `± (ip.fp) · 10^exp` in base-10 positional notation
(`Lit.value`, written with `digitsVal`: `digitsVal (a ++ b) = digitsVal a · 10^|b| + digitsVal b`),
negative exactly when the sign is `-` (so `-0` keeps its sign). -/
theorem dec_literal_denotes (l : Lit) (h : l.WF) :
    ∃ d : Dec, parseDec l.bytes = some d ∧ d.value = l.value ∧ (d.neg = true ↔ l.sign = some true) :=
  ⟨_, parseDec_lit l h, parseDec_lit_value l, by simp⟩

/-- … hence the number parser of kind `stlr` returns, for every in-range literal of the grammar, a
finite binary32 pattern than which **no pattern is closer to the number the literal denotes**, ties
to the even significand — `stl_number_correctly_rounded` with the value of the literal spelled out
in positional notation instead of through `parseDec`. -/
theorem stl_literal_correctly_rounded (l : Lit) (h : l.WF) (w : UInt32) (hw : parseF32 l.bytes = some w) :
    w.toNat % 2 ^ 31 < f32Inf ∧
    ∀ w' : Nat, |f32valS w.toNat - l.value| ≤ |f32valS w' - l.value| ∧
      (|f32valS w' - l.value| = |f32valS w.toNat - l.value| → f32valS w' ≠ f32valS w.toNat →
        w.toNat % 2 = 0) := by
  have := parseF32_correct l.bytes _ w (parseDec_lit l h) hw
  rwa [parseDec_lit_value l] at this

/-- Non-vacuity: `-.5E+01` (no integer digits, upper-case `E`, signed exponent) is a literal of the
grammar, its text is the seven bytes written, it denotes −5, and the parser reads it as −5.0f. -/
example :
    let l : Lit := ⟨some true, [], some (ascii "5"), some (true, some false, ascii "01")⟩
    l.bytes = ascii "-.5E+01" ∧ l.expVal = 1 ∧ digitsVal l.fp = 5 ∧
      parseF32 l.bytes = some 0xc0a00000 := by decide +kernel

example : (⟨some true, [], some (ascii "5"), some (true, some false, ascii "01")⟩ : Lit).WF :=
  ⟨by decide, by decide, Or.inr (by decide), by
    intro u s d hd
    cases hd
    exact ⟨by decide, by decide⟩⟩

/-! ## OFF text written to the specification -/

/-- **OFF to the specification is read back** (`off_spec`, kind `off`): the text `OFF` / `nv nf 0` / one
line `x y z` per vertex / one line `k i1 … ik` per face (`offSpec`), read with `fileformats.NewOFFReader`
and `ReadFace` × `NumFaces`, gives the faces in the order written, each with its corners in the order
written (orientation), every corner being the vertex the index names, with coordinates equal to the
originals — for every vertex list and every face list (any polygon sizes, the empty file included;
counts below 2^63), under Go's float text law `ParseFloat(FormatFloat(x,'f',-1,64),64) = x` and the
text being a token (`V3OK`, checked by the harness on every number). -/
theorem off_spec (fmt64 : Nat → Bytes) (pf64 : Bytes → Option UInt64) (verts : List V3)
    (faces : List (List Nat)) (hv : ∀ v ∈ verts, V3OK fmt64 pf64 v)
    (hnv : verts.length < 2 ^ 63) (hnf : faces.length < 2 ^ 63)
    (hf : ∀ f ∈ faces, f.length < 2 ^ 63 ∧ ∀ i ∈ f, i < verts.length) :
    offDecode pf64 (offSpec fmt64 verts faces) =
      some (faces.map fun f => f.map fun i => verts.getD i (0, 0, 0)) :=
  offDecode_spec fmt64 pf64 verts faces hv hnv hnf hf

/-- … and through `model3d.ReadOFF` (which rejects polygons with fewer than three corners): the same
faces, when every face has at least three corners. -/
theorem off_mesh_spec (fmt64 : Nat → Bytes) (pf64 : Bytes → Option UInt64) (verts : List V3)
    (faces : List (List Nat)) (hv : ∀ v ∈ verts, V3OK fmt64 pf64 v)
    (hnv : verts.length < 2 ^ 63) (hnf : faces.length < 2 ^ 63)
    (hf : ∀ f ∈ faces, f.length < 2 ^ 63 ∧ ∀ i ∈ f, i < verts.length)
    (h3 : ∀ f ∈ faces, 3 ≤ f.length) :
    offDecodeMesh pf64 (offSpec fmt64 verts faces) =
      some (faces.map fun f => f.map fun i => verts.getD i (0, 0, 0)) := by
  unfold offDecodeMesh
  rw [offDecode_spec fmt64 pf64 verts faces hv hnv hnf hf]
  have : (faces.map fun f => f.map fun i => verts.getD i (0, 0, 0)).all
      (fun p => decide (3 ≤ p.length)) = true := by
    rw [List.all_eq_true]
    intro p hp
    obtain ⟨f, hfm, rfl⟩ := List.mem_map.mp hp
    simpa using h3 f hfm
  simp only [this, if_true]

/-- Non-vacuity: a two-vertex, one-face file with an oracle that satisfies the law. -/
example :
    let fmt : Nat → Bytes := fun n => fmtNat n
    let pf : Bytes → Option UInt64 := fun s => (parseUintN 64 s).map UInt64.ofNat
    offDecode pf (offSpec fmt [(1, 2, 3), (4, 5, 6)] [[0, 1, 1]]) =
      some [[(1, 2, 3), (4, 5, 6), (4, 5, 6)]] := by decide +kernel

/-! ### polygon faces through `model3d.ReadOFF` (kind `offp`)

`ReadOFF` returns triangles: a face with more than three corners comes back as several triangles
(`triangulateFileFace`).  "The same faces, in the same order and orientation" then means: the
triangle list is, face after face in file order, a group of triangles that tile the face with the
face's orientation.  `M3d.Codec.Face.checkFaces` (run by the driver at `Rat` on the exact values of
the float64 coordinates, against the faces `offDecodeMesh` reads from the specification text —
`off_mesh_spec`) decides exactly that; the theorems below say what its `true` means and that it
accepts every correct answer. -/

section OffPolygons
open M3d.Tri M3d.Codec.Face
variable {K : Type} [Field K] [LinearOrder K] [IsStrictOrderedRing K]

/-- **`off_face_tiling_sound`** — what the face certificate establishes, for every planar face `f`
(corner coordinates in file order) and every list `g` of triangles (corner coordinates) over every
linear ordered field: if C14's verified 2-D checker accepts the triangles (as corner ids) in the
coordinate chart along which the face's vector area `N = Σ pᵢ × pᵢ₊₁` does not vanish, for the
boundary `0 → 1 → … → n−1 → 0` oriented like the face, and the face is exactly planar, then
`TilesFace f g`: every triangle corner is a corner of the face; every triangle's `(b−a)×(c−a)` is a
POSITIVE multiple `λ_t·N` of the face's vector area (so no triangle is turned over or degenerate)
with `Σ λ_t = 1` (the triangle areas add up to exactly the face's area) and `Σ (b−a)×(c−a) = N`; and
after splitting edges at face corners lying on them the triangles are glued along interior diagonals
into a region whose boundary is the face's boundary, traversed in the face's direction. -/
theorem off_face_tiling_sound (f : List (P3 K)) (g : List (T3 K))
    (h : faceCertOk (cornerFn f) f.length (g.map (idTri f)) = true) : TilesFace f g :=
  faceCert_tiles f g h

/-- **`off_polygons_tiled`** (kind `offp`) — the verdict the driver prints.  If
`checkFaces faces tris = true` for the faces of the file (in file order) and the triangles
`ReadOFF` returned, then the triangle list splits into consecutive groups, one per face, in the
order of the faces, nothing left over, and every group tiles its face with the face's orientation
(`TilesFace`, see `off_face_tiling_sound`). -/
theorem off_polygons_tiled (faces : List (List (P3 K))) (tris : List (T3 K))
    (h : checkFaces faces tris = true) :
    ∃ groups : List (List (T3 K)), tris = groups.flatten ∧ List.Forall₂ TilesFace faces groups := by
  obtain ⟨groups, e, hall⟩ := checkFaces_sound faces tris h
  exact ⟨groups, e, hall.imp fun {f g} hfg => faceCert_tiles f g hfg⟩

/-- **`off_polygons_grouping_forced`** — the checker never has to guess (and so never rejects a
correct answer because of) the grouping: whenever the triangle list IS a concatenation of groups
that pass the face certificates of the faces in order, `checkFaces` accepts it.  (Every triangle of
a valid group has a chart area of the sign of the face's, so the partial sums are strictly monotone
and the only prefix that reaches the face's area is the group itself — `takeGroup_complete`.) -/
theorem off_polygons_grouping_forced (faces : List (List (P3 K))) (groups : List (List (T3 K)))
    (h : List.Forall₂ (fun f g => faceCertOk (cornerFn f) f.length (g.map (idTri f)) = true) faces groups) :
    checkFaces faces groups.flatten = true :=
  checkFaces_complete faces groups h

/-- **`off_face_cover_partial`** — "the triangles do not overlap, stay inside the face and cover
it", pointwise in the face's chart: under the face certificate, every point of the chart plane that
is not on a triangle edge lies in exactly `±winding(face boundary)` triangles — exactly one where the
boundary of the face winds once in its own direction, none where it does not wind.  `_partial`: it is
stated relative to the winding number of the face's boundary (that a simple polygon winds `±1`
around its interior points and `0` around the others — the polygonal Jordan curve theorem — is not
mechanised; the driver checks simplicity of every generated face exactly). -/
theorem off_face_cover_partial (c3 : Nat → P3 K) (n : Nat) (tris : List M3d.Surface.Tri)
    (h : faceCertOk c3 n tris = true) :
    ∃ k, chartOf (faceNormal c3 n) = some k ∧
      ∀ p : P2 K,
        let c := fun i => chartFn k (c3 i)
        let cw := decide (comp k (faceNormal c3 n) < 0)
        (∀ t ∈ tris, insideTri c cw t p = true ∨ outsideTri c cw t p = true) →
        ((tris.filter fun t => insideTri c cw t p).length : K) = cwSign cw * winding c p (loopEdges [n]) :=
  faceCertOk_cover c3 n tris h

end OffPolygons

/-- Non-vacuity and the failing input of a "split every quad along the 0–2 diagonal" reader: the
arrow-head quadrilateral `(−2,−1) (0,0) (2,−1) (0,3)` (counter-clockwise, notch = second corner, area
6) between two triangles.  Split along the inner diagonal 1–3 it passes; as the fan
`{p0,p1,p2},{p0,p2,p3}` it does not (the first triangle is turned over, the second covers area 8);
the same face in the oblique plane `z = x + 2y`, read from the other side, passes as well; and two
groups in the wrong order do not. -/
example :
    let t0 : List (M3d.Tri.P3 Rat) := [⟨5, 5, 1⟩, ⟨6, 5, 1⟩, ⟨5, 6, 1⟩]
    let q : List (M3d.Tri.P3 Rat) := [⟨-2, -1, 0⟩, ⟨0, 0, 0⟩, ⟨2, -1, 0⟩, ⟨0, 3, 0⟩]
    let tr : M3d.Tri.P3 Rat × M3d.Tri.P3 Rat × M3d.Tri.P3 Rat := (⟨5, 5, 1⟩, ⟨6, 5, 1⟩, ⟨5, 6, 1⟩)
    let p := fun (i : Nat) => q.getD i ⟨0, 0, 0⟩
    let ob := fun (v : M3d.Tri.P3 Rat) => (⟨v.x, v.y, v.x + 2 * v.y⟩ : M3d.Tri.P3 Rat)
    M3d.Codec.Face.checkFaces [t0, q, t0] [tr, (p 0, p 1, p 3), (p 1, p 2, p 3), tr] = true ∧
    M3d.Codec.Face.checkFaces [t0, q, t0] [tr, (p 0, p 1, p 2), (p 0, p 2, p 3), tr] = false ∧
    M3d.Codec.Face.checkFaces [q, t0] [tr, (p 0, p 1, p 3), (p 1, p 2, p 3)] = false ∧
    M3d.Codec.Face.checkFaces [(q.map ob).reverse]
      [(ob (p 3), ob (p 1), ob (p 0)), (ob (p 3), ob (p 2), ob (p 1))] = true ∧
    M3d.Codec.Face.checkFaces [(q.map ob).reverse]
      [(ob (p 0), ob (p 1), ob (p 3)), (ob (p 1), ob (p 2), ob (p 3))] = false := by
  decide +kernel

/-! ## segment CSV -/

/-- **CSV round trip**: `DecodeCSV` (through the modelled subset of `encoding/csv`, 4 fields per record) of
what `SegmentCSVWriter.Write` wrote returns the same segments in the same order, bit for bit — given
Go's `'G', -1` float text law (`CsvTextOK`: parses back, and contains no comma, quote, CR or LF),
checked by the harness on every number. -/
theorem csv_roundtrip {fmtG : UInt64 → Bytes} {pf : Bytes → Option UInt64} (hok : CsvTextOK fmtG pf)
    (segs : List (List UInt64)) (h4 : ∀ s ∈ segs, s.length = 4) :
    csvDecode pf (csvEncode fmtG segs) = .ok segs :=
  csvDecode_encode hok segs h4

/-! ## vertex de-duplication and OBJ/3MF index construction -/

/-- **`WritePLY` / `BuildVertexColorOBJ` / `BuildMaterialOBJ` / `newIndexMesh` de-duplication**: for every
corner `p` visited, the index emitted is in range and the table entry there is `==` to `p`
(same key) — for any key function (Go `==` on coordinates is `key3`). -/
theorem dedup_index_correct {α κ : Type} [DecidableEq κ] (key : α → κ) (ps : List α) (p : α) (hp : p ∈ ps) :
    ∃ h : indexOfKey key (dedupCoords key ps) p < (dedupCoords key ps).length,
      key ((dedupCoords key ps)[indexOfKey key (dedupCoords key ps) p]) = key p :=
  dedup_index key ps p hp

/-- … and the vertex table never holds two `==` coordinates. -/
theorem dedup_no_duplicates {α κ : Type} [DecidableEq κ] (key : α → κ) (ps : List α) :
    ((dedupCoords key ps).map key).Nodup :=
  dedup_nodup key ps

/-- **OBJ: every face referenced exactly once** — `BuildVertexColorOBJ` emits one index triple per
triangle, in order (one group). -/
theorem obj_each_face_once (ts : List Tri3) : (objVertexColor ts).2.length = ts.length := by
  simp [objVertexColor, meshIndex]

/-- **OBJ: indices in range** — every index of every face is 1-based and at most the number of vertices. -/
theorem obj_indices_in_range (ts : List Tri3) :
    ∀ f ∈ (objVertexColor ts).2, ∀ i ∈ f, 1 ≤ i ∧ i ≤ (objVertexColor ts).1.length := by
  intro f hf i hi
  have hf' : f ∈ (ts.map fun t => t.corners.map (indexOfKey key3 (dedupCoords key3 (ts.flatMap Tri3.corners)))).map
      (fun f => f.map (· + 1)) := hf
  obtain ⟨g, hg, rfl⟩ := List.mem_map.mp hf'
  obtain ⟨t, ht, rfl⟩ := List.mem_map.mp hg
  obtain ⟨j, hj, rfl⟩ := List.mem_map.mp hi
  obtain ⟨p, hp, rfl⟩ := List.mem_map.mp hj
  have hmem : p ∈ ts.flatMap Tri3.corners := List.mem_flatMap.mpr ⟨t, ht, hp⟩
  obtain ⟨hlt, _⟩ := dedup_index key3 (ts.flatMap Tri3.corners) p hmem
  have hlen : (objVertexColor ts).1.length = (dedupCoords key3 (ts.flatMap Tri3.corners)).length := rfl
  rw [hlen]
  omega

/-- **MTL groups**: the material group a triangle is put in exists (index in range), so with
`obj_each_face_once` every face lies in exactly one existing group. -/
theorem obj_group_in_range {μ : Type} [DecidableEq μ] (mat : Nat → μ) (ts : List Tri3) :
    ∀ x ∈ (objMaterial mat ts).2.2, x.1 < (objMaterial mat ts).2.1.length := by
  intro x hx
  simp only [objMaterial, List.mem_map] at hx
  obtain ⟨⟨i, f⟩, hif, rfl⟩ := hx
  have hi : i ∈ List.range ts.length := (List.of_mem_zip hif).1
  have hm : mat i ∈ (List.range ts.length).map mat := List.mem_map.mpr ⟨i, hi, rfl⟩
  obtain ⟨hlt, _⟩ := dedup_index id ((List.range ts.length).map mat) (mat i) hm
  simpa [objMaterial] using hlt

/-- **3MF / PLY mesh writer**: the 0-based index triples are in range. -/
theorem threemf_indices_in_range (ts : List Tri3) :
    ∀ f ∈ (meshIndex ts).2, ∀ i ∈ f, i < (meshIndex ts).1.length := by
  intro f hf i hi
  have hf' : f ∈ ts.map fun t => t.corners.map (indexOfKey key3 (dedupCoords key3 (ts.flatMap Tri3.corners))) := hf
  obtain ⟨t, ht, rfl⟩ := List.mem_map.mp hf'
  obtain ⟨p, hp, rfl⟩ := List.mem_map.mp hi
  have hmem : p ∈ ts.flatMap Tri3.corners := List.mem_flatMap.mpr ⟨t, ht, hp⟩
  exact (dedup_index key3 (ts.flatMap Tri3.corners) p hmem).1

/-- **Index meshes reference every face exactly once, and the reference IS that face** (`newIndexMesh`
→ `Write3MF`, also `WritePLY` / `BuildVertexColorOBJ`; kind `3mf`): there is one index triple per
triangle, in the order the triangles are visited, and resolving the three indices against the vertex
table gives corners `==` to the triangle's corners (same keys: −0 ≡ +0), in the same order
(orientation) — for every triangle list, hence for whichever order Go's map iteration visits the
mesh in. -/
theorem mesh_index_resolves (ts : List Tri3) :
    (meshIndex ts).2.length = ts.length ∧
    (meshIndex ts).2.map (fun f => f.map fun j => key3 ((meshIndex ts).1.getD j (0, 0, 0))) =
      ts.map fun t => t.corners.map key3 :=
  ⟨by simp [meshIndex], meshIndex_resolves ts⟩

/-- **The vertex table has one entry per distinct coordinate, whatever the order of the visit**: its
length is the number of distinct keys among all corners, so any two orders of the same triangles
(`Write3MF` iterates a Go map) give tables of the same size. -/
theorem mesh_index_table_size (ts ts' : List Tri3) (h : ts.Perm ts') :
    (meshIndex ts).1.length = ((ts.flatMap Tri3.corners).map key3).toFinset.card ∧
    (meshIndex ts).1.length = (meshIndex ts').1.length :=
  ⟨dedup_length_card key3 _, dedup_length_perm key3 (h.flatMap_right _)⟩

/-- Non-vacuity: two triangles sharing an edge, one corner written once as −0 and once as +0. -/
example :
    let a : C3 := (0, 0, 0); let a' : C3 := (negZero64, 0, 0); let b : C3 := (1, 0, 0)
    let c : C3 := (0, 1, 0); let d : C3 := (1, 1, 0)
    meshIndex [(a, b, c), (b, a', d)] = ([a, b, c, d], [[0, 1, 2], [1, 0, 3]]) := by decide +kernel

/-! ### ASCII STL with runs of spaces / tabs (kind `stlw`) -/

/-- **Leading white space is invisible to the tokeniser** (kind `stlw`, partial): `strings.Fields` of a line that
is prefixed by any run of spaces (0x20) and tabs (0x09) is `strings.Fields` of the line — indentation of an
ASCII STL line by spaces or tabs cannot change the tokens `readASCII` sees.  (Partial: invariance under the choice
of the non-empty separator runs *between* tokens is exercised by kind `stlw` through the driver's
`fields bytes = fields spec` test and the faithful `fields` model, not yet proved in general.) -/
theorem fields_leading_ws_partial (ws bs : Bytes) (h : ∀ b ∈ ws, b = 0x20 ∨ b = 0x09) :
    fields (ws ++ bs) = fields bs := by
  induction ws with
  | nil => rfl
  | cons s t ih =>
    have hs := h s List.mem_cons_self
    have hw : spaceWidth (s :: (t ++ bs)) = 1 := by
      rcases hs with rfl | rfl <;> simp [spaceWidth, isAsciiSpace]
    have := fields_drop_space (s :: (t ++ bs)) (by rw [hw]; decide)
    rw [hw] at this
    simp only [List.drop_succ_cons, List.drop_zero] at this
    rw [List.cons_append, ← this]
    exact ih (fun b hb => h b (List.mem_cons_of_mem _ hb))

example : fields (ascii " \t  vertex 1 2 3") = fields (ascii "vertex 1 2 3") :=
  fields_leading_ws_partial (ascii " \t  ") (ascii "vertex 1 2 3") (by decide)


end M3d.C15
