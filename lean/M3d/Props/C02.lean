import M3d.Lemmas.Bisect
import M3d.Lemmas.MarchingSide
import M3d.Lemmas.DualContour
import M3d.Lemmas.MarchingFilter
import M3d.Lemmas.LookupEdge
import M3d.Lemmas.SearchSpec
import M3d.Lemmas.LookupEdgeArr
import M3d.Lemmas.DcBlock
import M3d.Lemmas.MarchingGlue
import M3d.Gen.McTable
import M3d.Props.C01
import M3d.Lemmas.C02ConjSide
/-!
# C02 — generated meshes bound exactly the sampled solid

Property theorems only.  Models: `M3d/Model/Bisect.lean` (the refinement loops of `mcSearchPoint`,
`msSearch`, `SolidSurfaceEstimator.Bisect*`), `M3d/Model/MarchingMesh.lean` + `M3d/Gen/McTable.lean`
(whole-lattice marching cubes / squares over the REGENERATED tables), `M3d/Model/DualContour.lean`
(`dcCubeLayout` index arithmetic, `populateEdges`/`appendMesh` topology, `Clip`), `M3d/Model/MarchingFilter.lean` +
`M3d/Model/Partition.lean` (the region filter: `Bounds`, `Split`, `Pieces`, worker pool).
`K` is any linear ordered field (ℚ — the type the driver executes — and ℝ included).
-/
namespace M3d.C02
open M3d.Bisect M3d.Marching M3d.DC M3d.Gen M3d.Partition M3d.MarchingFilter M3d.DcBlock M3d.MarchingGlue M3d.SearchSpec

set_option linter.unusedSectionVars false
variable {K : Type} [Field K] [LinearOrder K] [IsStrictOrderedRing K]

/-! ## 1. bisection along a lattice edge -/

/-- The loop of `mcSearchPoint` / `msSearch` / `BisectInterpRange` keeps its invariant: if
`falsePoint` is excluded and `truePoint` is contained before the loop, the same holds after any
number of iterations (the loop overwrites the end whose containment equals the midpoint's). -/
theorem bisect_keeps_contained_end (P : K → Bool) (s : K × K) (n : Nat)
    (h : P s.1 = false ∧ P s.2 = true) :
    P (bisect P s n).1 = false ∧ P (bisect P s n).2 = true :=
  ⟨bisect_false_end P n s h.1, bisect_true_end P n s h.2⟩

example : ∃ (P : ℚ → Bool) (s : ℚ × ℚ), P s.1 = false ∧ P s.2 = true :=
  ⟨fun x => decide (1 ≤ x), (0, 2), by decide, by decide⟩

/-- After `n` iterations the (signed) width of the interval is the initial one divided by `2ⁿ`. -/
theorem bisect_width (P : K → Bool) (s : K × K) (n : Nat) :
    (bisect P s n).2 - (bisect P s n).1 = (s.2 - s.1) / 2 ^ n :=
  bisect_width' P n s

/-- The refined vertex `(falsePoint + truePoint) / 2` lies strictly between the two ends of the
lattice edge it started on (so a vertex never leaves its edge and never reaches a lattice point). -/
theorem bisect_result_between (P : K → Bool) (s : K × K) (n : Nat) (h : s.1 ≠ s.2) :
    min s.1 s.2 < mid (bisect P s n) ∧ mid (bisect P s n) < max s.1 s.2 := by
  have hn := bisect_nested P n s
  have hm := mid_strict_between (bisect P s n) (bisect_ends_ne P n s h)
  constructor
  · exact lt_of_le_of_lt (le_min hn.1.1 hn.2.1) hm.1
  · exact lt_of_lt_of_le hm.2 (max_le hn.1.2 hn.2.2)

/-- **Within `spacing / 2^iterations` of a real transition.**  With `r` the final interval: the
returned vertex `mid r` is at distance exactly `|s.2 - s.1| / 2^(n+1)` from `r.1` and from `r.2`,
which lie on the edge (between the original ends), `r.1` being a point the solid excludes and `r.2`
a point it contains.  So a contained and an excluded sample of that edge lie within
`δ / 2^(n+1)` of the vertex, on either side of it. -/
theorem bisect_within_spacing (P : K → Bool) (s : K × K) (n : Nat) (h : P s.1 = false ∧ P s.2 = true) :
    let r := bisect P s n
    P r.1 = false ∧ P r.2 = true ∧
    mid r - r.1 = (s.2 - s.1) / 2 ^ (n + 1) ∧ r.2 - mid r = (s.2 - s.1) / 2 ^ (n + 1) ∧
    (min s.1 s.2 ≤ r.1 ∧ r.1 ≤ max s.1 s.2) ∧ (min s.1 s.2 ≤ r.2 ∧ r.2 ≤ max s.1 s.2) := by
  intro r
  have hw := bisect_width P s n
  have hn := bisect_nested P n s
  refine ⟨bisect_false_end P n s h.1, bisect_true_end P n s h.2, ?_, ?_, hn.1, hn.2⟩
  · rw [mid_sub_fst, hw, pow_succ]; field_simp
  · rw [snd_sub_mid, hw, pow_succ]; field_simp

/-- The end swap of `mcSearchPoint`: whenever exactly one end of the vertex's lattice edge is
contained, `truePoint` is the contained end and `falsePoint` the excluded one. -/
theorem search_picks_true_end (P : K → Bool) (lo hi : K) (h : P lo ≠ P hi) :
    P (mcEnds P lo hi).1 = false ∧ P (mcEnds P lo hi).2 = true := by
  unfold mcEnds
  by_cases hh : P hi = true
  · simp only [hh, if_true]
    refine ⟨?_, trivial⟩
    cases hl : P lo
    · rfl
    · exact absurd (hl.trans hh.symm) h
  · have hh' : P hi = false := by simpa using hh
    simp only [hh', Bool.false_eq_true, if_false]
    refine ⟨trivial, ?_⟩
    cases hl : P lo
    · exact absurd (hl.trans hh'.symm) h
    · rfl

/-- The normal-sign rule of `msSearch`, decided over the regenerated 16-row table: for every
segment of every row and both of its end vertices, the component of `Segment.Normal()` along the
vertex's lattice edge is non-zero and is positive exactly when the lower end of that edge is the
contained one.  Hence `if normal[axis] > 0 { truePoint, falsePoint = falsePoint, truePoint }`
makes `truePoint` the contained end, whichever of the two segments `mesh.Find(c)[0]` returns. -/
theorem ms_normal_picks_contained_end :
    ∀ cfg, cfg < 16 → msNormalRule cfg (getRow msTable cfg) = true := by
  have h : (List.range 16).all (fun cfg => msNormalRule cfg (getRow msTable cfg)) = true := by decide +kernel
  intro cfg hc
  exact List.all_eq_true.1 h cfg (List.mem_range.2 hc)

/-- `msSearch`'s ends: if the flag equals "the lower end is contained" and exactly one end is
contained, `truePoint` is the contained end. -/
theorem ms_search_picks_true_end (P : K → Bool) (lo hi : K) (normalPos : Bool)
    (hflag : normalPos = P lo) (h : P lo ≠ P hi) :
    P (msEnds lo hi normalPos).1 = false ∧ P (msEnds lo hi normalPos).2 = true := by
  unfold msEnds
  cases hl : P lo <;> cases hh : P hi <;> simp_all

/-- `MarchingCubesInterior`: the interior point stored for a vertex (`truePoint` after the loop) is
contained in the solid whenever exactly one end of the vertex's lattice edge is. -/
theorem interior_point_contained (P : K → Bool) (lo hi : K) (iters : Nat) (h : P lo ≠ P hi) :
    P (mcSearchPoint P lo hi iters).2 = true := by
  unfold mcSearchPoint
  exact bisect_true_end P iters _ (search_picks_true_end P lo hi h).2

/-- `mcSearchPoint` as a whole: the new vertex stays strictly inside its lattice edge and is within
`|hi - lo| / 2^(iters+1)` of the returned interior point, which is contained. -/
theorem mc_search_vertex_on_edge (P : K → Bool) (lo hi : K) (iters : Nat) (hne : lo ≠ hi) (h : P lo ≠ P hi) :
    min lo hi < (mcSearchPoint P lo hi iters).1 ∧ (mcSearchPoint P lo hi iters).1 < max lo hi ∧
    |(mcSearchPoint P lo hi iters).2 - (mcSearchPoint P lo hi iters).1| = |hi - lo| / 2 ^ (iters + 1) := by
  have hdef : mcSearchPoint P lo hi iters
      = (mid (bisect P (mcEnds P lo hi) iters), (bisect P (mcEnds P lo hi) iters).2) := rfl
  have hends : (mcEnds P lo hi = (lo, hi)) ∨ (mcEnds P lo hi = (hi, lo)) := by
    unfold mcEnds; by_cases hh : P hi = true <;> simp [hh]
  have hw := bisect_within_spacing P (mcEnds P lo hi) iters (search_picks_true_end P lo hi h)
  simp only at hw
  rw [hdef]
  simp only
  rcases hends with he | he
  · have hb := bisect_result_between P (mcEnds P lo hi) iters (by rw [he]; exact hne)
    rw [he] at hb hw ⊢
    refine ⟨hb.1, hb.2, ?_⟩
    rw [hw.2.2.2.1, abs_div, abs_pow, abs_two]
  · have hb := bisect_result_between P (mcEnds P lo hi) iters (by rw [he]; exact Ne.symm hne)
    rw [he] at hb hw ⊢
    simp only [min_comm hi lo, max_comm hi lo] at hb
    refine ⟨hb.1, hb.2, ?_⟩
    rw [hw.2.2.2.1, abs_div, abs_pow, abs_two, abs_sub_comm]

/-- `BisectInterior(p1, p2)` returns a point contained in the solid whenever exactly one of `p1`,
`p2` is (any bisection count).  Over a field `p1 + (p2 - p1)·1 = p2`; in floating point it is not,
which is why the code returns `p2` itself when the final `alpha` is 1 (repaired defect, see notes). -/
theorem bisect_interior_contained (C : V3 K → Bool) (p1 p2 : V3 K) (count : Nat) (h : C p1 ≠ C p2) :
    C (bisectInterior C p1 p2 count) = true := by
  have ho := orient_spec C p1 p2 h
  unfold bisectInterior
  simp only
  split
  · exact ho.2
  · unfold interpRange
    exact bisect_true_end (fun f => C (lerp (orient C p1 p2).1 (orient C p1 p2).2 f)) count (0, 1)
      (by simp only [lerp_one]; exact ho.2)

/-- The pre-repair `BisectInterior` is also correct over a field — the defect was purely a
floating-point one (found by the bit-exact correspondence, not by these theorems). -/
theorem bisect_interior_old_contained (C : V3 K → Bool) (p1 p2 : V3 K) (count : Nat) (h : C p1 ≠ C p2) :
    C (bisectInteriorOld C p1 p2 count) = true := by
  have ho := orient_spec C p1 p2 h
  unfold bisectInteriorOld interpRange
  exact bisect_true_end (fun f => C (lerp (orient C p1 p2).1 (orient C p1 p2).2 f)) count (0, 1)
    (by simp only [lerp_one]; exact ho.2)

/-- `Bisect(p1, p2)` returns a point of the segment at parameter strictly between 0 and 1 whose
two neighbours at parameter distance `1 / 2^(count+1)` are an excluded and a contained sample. -/
theorem bisect_point_bracketed (C : V3 K → Bool) (p1 p2 : V3 K) (count : Nat) (h : C p1 ≠ C p2) :
    let q := orient C p1 p2
    let r := interpRange C q.1 q.2 0 1 count
    bisectPoint C p1 p2 count = lerp q.1 q.2 (mid r) ∧
    C (lerp q.1 q.2 r.1) = false ∧ C (lerp q.1 q.2 r.2) = true ∧
    mid r - r.1 = 1 / 2 ^ (count + 1) ∧ r.2 - mid r = 1 / 2 ^ (count + 1) := by
  intro q r
  have ho := orient_spec C p1 p2 h
  have hw := bisect_within_spacing (fun f => C (lerp q.1 q.2 f)) (0, 1) count
    (by simp only [lerp_zero, lerp_one]; exact ho)
  simp only [sub_zero] at hw
  exact ⟨rfl, hw.1, hw.2.1, hw.2.2.1, hw.2.2.2.1⟩

/-- **`LookupEdgePoint` recovers the lattice edge a vertex was created on.**  An unrefined
marching-cubes vertex `c` is the midpoint of a lattice edge along some axis `k`: a lattice value
`origin_j + n_j·δ` on the axes before `k` (the code takes the first axis whose coordinate is in the
window) and `origin_k + (n_k + 1/2)·δ` on axis `k`.  The model of `squareSpacer.LookupEdgePoint`
(`math.Mod`, the window `(δ/4, 3δ/4)`, `int(x/δ)`; at `Rat`, the type the driver runs it at) returns
axis `k` and the two ends `origin_k + n_k·δ`, `origin_k + (n_k+1)·δ` of that edge — so
`mcSearchPoint` bisects the edge whose ends are classified differently. -/
theorem lookup_edge_point_recovers (origin c : List Rat) (d : Rat) (hd : 0 < d) (k : Nat) (n : Nat → Nat)
    (ho : k < origin.length) (hc : k < c.length)
    (hlat : ∀ j, j < k → c.getD j 0 - origin.getD j 0 = (n j : Rat) * d)
    (hmid : c.getD k 0 - origin.getD k 0 = ((n k : Rat) + 1 / 2) * d) :
    lookupEdgePoint origin d c =
      some (k, origin.getD k 0 + (n k : Rat) * d, origin.getD k 0 + ((n k : Rat) + 1) * d) :=
  lookupEdgePoint_recovers origin c d hd k n ho hc hlat hmid

example : lookupEdgePoint [0, 0, 0] (1 / 2) [1, 5 / 4, 3] = some (1, 1, 3 / 2) := by decide +kernel

/-- **The window of `msSearch` recovers the lattice edge** for every offset of the lattice from the
solid's `Min()` (the differences `c_j − Min_j` are integer — possibly negative — multiples of `δ`,
and `math.Mod` keeps the sign of its first argument): the ends are `c_k − δ/2` and `c_k + δ/2`. -/
theorem ms_lookup_recovers (mn c : List Rat) (d : Rat) (hd : 0 < d) (k : Nat) (z : Nat → Int)
    (ho : k < mn.length) (hc : k < c.length)
    (hlat : ∀ j, j < k → c.getD j 0 - mn.getD j 0 = (z j : Rat) * d)
    (hmid : c.getD k 0 - mn.getD k 0 = ((z k : Rat) + 1 / 2) * d) :
    msLookup mn d c = some (k, c.getD k 0 - d / 2, c.getD k 0 - d / 2 + d) :=
  msLookup_recovers mn c d hd k z ho hc hlat hmid

example : msLookup [1, 1] 1 [0, 1 / 2] = some (1, 0, 1) := by decide +kernel

/-! ## 1b. search refinement on the lattice the spacer STORES (floating-point lattices)

On a decimal spacing the lattice is the array the spacer accumulated; "lattice value `i`" computed in any other
way (`values[i-1] + (values[1] - values[0])`, `vertex − |Mod(vertex − Min, δ)|`) may differ from the stored
number by an ulp, and a face of the solid may pass between the two.  What the marching pass knows — the
classification at the STORED ends — is what has to orient the bisection. -/

/-- Whatever the starting bracket, each end of the final bracket is either the starting end or a midpoint
the loop evaluated, with the matching result (excluded for `falsePoint`, contained for `truePoint`). -/
theorem bisect_ends_tested_or_initial (P : K → Bool) (s : K × K) (n : Nat) :
    ((bisect P s n).1 = s.1 ∨ P (bisect P s n).1 = false) ∧
    ((bisect P s n).2 = s.2 ∨ P (bisect P s n).2 = true) :=
  bisect_ends_tested' P n s

/-- **`SearchSpec.changes` lists exactly the real transitions of an edge** (the decision procedure of the
`mcl` / `msl` kinds): for a classification that is constant between consecutive breakpoints
`a = t₀ < t₁ < … < tₘ` (boxes / half-spaces along a lattice line, breakpoints = lattice ends and face
coordinates), `c ∈ changes P ts` iff `c` is a point of the edge every neighbourhood of which contains points of
the edge of both classes; hence `nearTransition P ts v w` iff a real transition is within `w` of `v`. -/
theorem near_transition_decides (P : K → Bool) (a : K) (r : List K) (hinc : Incr (a :: r))
    (hpw : PwConst P (a :: r)) (v w : K) :
    (∀ c, c ∈ changes P (a :: r) ↔ IsTransition P a (lastOf a r) c) ∧
    (nearTransition P (a :: r) v w = true ↔ ∃ c, IsTransition P a (lastOf a r) c ∧ |v - c| ≤ w) := by
  refine ⟨fun c => ⟨fun hc => ?_, changes_complete P r a hinc hpw c⟩, nearTransition_iff P a r hinc hpw v w⟩
  have hb : ∀ (r : List K) (a : K), Incr (a :: r) → ∀ t ∈ a :: r, a ≤ t ∧ t ≤ lastOf a r := by
    intro r
    induction r with
    | nil => intro a _ t ht; simp at ht; subst ht; exact ⟨le_refl _, le_refl _⟩
    | cons b r ih =>
      intro a h t ht
      rcases List.mem_cons.1 ht with h1 | h1
      · subst h1; exact ⟨le_refl _, le_lastOf _ _ h⟩
      · exact ⟨le_trans (le_of_lt h.1) (ih b h.2 t h1).1, (ih b h.2 t h1).2⟩
  exact changes_sound P a (lastOf a r) (a :: r) hinc hpw (hb r a hinc) c hc

example : changes (fun x : ℚ => decide (1 ≤ x)) [0, 1, 2] = [1] ∧
    nearTransition (fun x : ℚ => decide (1 ≤ x)) [0, 1, 2] (7 / 8) (1 / 8) = true ∧
    nearTransition (fun x : ℚ => decide (1 ≤ x)) [0, 1, 2] (1 / 16) (1 / 8) = false := by decide +kernel

/-- **`mcSearchPoint` on the stored ends of a sign-changing edge passes the check**: with `lo < … < hi` the
breakpoints of the edge, `P` constant between them and `P lo ≠ P hi` (the labels the marching pass sampled at
the stored lattice values `values[idx]`, `values[idx+1]` that `LookupEdgePoint` returns), the refined vertex is
within `|hi − lo| / 2^(iters+1)` — and so within any `w ≥` that, e.g. `δ / 2^iters` — of a real transition of
the edge. -/
theorem search_stored_lattice_near_transition (P : K → Bool) (lo : K) (r : List K) (hinc : Incr (lo :: r))
    (hpw : PwConst P (lo :: r)) (iters : Nat) (h : P lo ≠ P (lastOf lo r)) (w : K)
    (hw : |lastOf lo r - lo| / 2 ^ (iters + 1) ≤ w) :
    nearTransition P (lo :: r) (mcSearchPoint P lo (lastOf lo r) iters).1 w = true := by
  set hi := lastOf lo r with hhi
  have hle : lo ≤ hi := le_lastOf r lo hinc
  have hends := search_picks_true_end P lo hi h
  have hb := bisect_within_spacing P (mcEnds P lo hi) iters hends
  simp only at hb
  obtain ⟨h1, h2, h3, h4, h5, h6⟩ := hb
  have hmm : min (mcEnds P lo hi).1 (mcEnds P lo hi).2 = lo ∧ max (mcEnds P lo hi).1 (mcEnds P lo hi).2 = hi ∧
      |(mcEnds P lo hi).2 - (mcEnds P lo hi).1| = |hi - lo| := by
    unfold mcEnds
    by_cases hh : P hi = true
    · rw [if_pos hh]; exact ⟨min_eq_left hle, max_eq_right hle, rfl⟩
    · rw [if_neg hh]; exact ⟨min_eq_right hle, max_eq_left hle, abs_sub_comm _ _⟩
  rw [hmm.1, hmm.2.1] at h5 h6
  apply nearTransition_mono P _ _ _ w hw
  have hdef : (mcSearchPoint P lo hi iters).1 = mid (bisect P (mcEnds P lo hi) iters) := rfl
  rw [hdef]
  have h2pos : (0 : K) < 2 ^ (iters + 1) := by positivity
  refine near_of_samples P lo r hinc hpw _ _ (bisect P (mcEnds P lo hi) iters).1
    (bisect P (mcEnds P lo hi) iters).2 h5 h6 (by rw [h1, h2]; decide) ?_ ?_
  · rw [h3, ← hmm.2.2, abs_div, abs_of_pos h2pos]
  · rw [abs_sub_comm, h4, ← hmm.2.2, abs_div, abs_of_pos h2pos]

example : Incr ([0, 1, 2] : List ℚ) ∧ PwConst (fun x : ℚ => decide (1 ≤ x)) [0, 1, 2] ∧
    (fun x : ℚ => decide (1 ≤ x)) 0 ≠ (fun x : ℚ => decide (1 ≤ x)) (lastOf 0 [1, 2]) := by
  refine ⟨⟨by norm_num, by norm_num, trivial⟩, ⟨fun x y h1 h2 h3 h4 => ?_, fun x y h1 h2 h3 h4 => ?_, trivial⟩, by decide⟩
  · have hx : ¬ (1 ≤ x) := not_le.2 h2
    have hy : ¬ (1 ≤ y) := not_le.2 h4
    simp [hx, hy]
  · simp [le_of_lt h1, le_of_lt h3]

/-- **`msSearch` with re-computed ends passes the check as long as the ORIENTATION comes from the labels.**
`a` (excluded) and `b` (contained) are the stored ends of the edge (`{a, b} = {lo, hi}`), `f0`, `t0` the ends
the code re-computes from the midpoint (`arr − modulus`, `+ δ`), each within `η` of the stored end it stands
for, `η` small against the final bracket (`η ≤ |t0 − f0| / 2^iters`).  The bracket is oriented by what the mesh
knows about the stored ends (the sign of a segment normal: `ms_normal_picks_contained_end`), NOT by evaluating
the solid at a re-computed end.  Then the refined vertex is within `|t0 − f0| / 2^(iters+1) + η` of a real
transition of the edge. -/
theorem ms_search_recomputed_ends_near_transition (P : K → Bool) (lo : K) (r : List K) (hinc : Incr (lo :: r))
    (hpw : PwConst P (lo :: r)) (a b f0 t0 η : K) (iters : Nat)
    (hab : (a = lo ∧ b = lastOf lo r) ∨ (a = lastOf lo r ∧ b = lo))
    (ha : P a = false) (hb : P b = true) (hf : |f0 - a| ≤ η) (ht : |t0 - b| ≤ η)
    (hη : η ≤ |t0 - f0| / 2 ^ iters) :
    nearTransition P (lo :: r) (mid (bisect P (f0, t0) iters)) (|t0 - f0| / 2 ^ (iters + 1) + η) = true := by
  set hi := lastOf lo r with hhi
  have hle : lo ≤ hi := le_lastOf r lo hinc
  have hT := bisect_ends_tested' P iters (f0, t0)
  have hI := bisect_tested_inside P iters (f0, t0)
  have hW := bisect_width' P iters (f0, t0)
  simp only at hT hI hW
  set q := bisect P (f0, t0) iters with hq
  have h2n : (0 : K) < 2 ^ iters := by positivity
  have hhalf : |q.2 - q.1| / 2 = |t0 - f0| / 2 ^ (iters + 1) := by
    rw [hW, abs_div, abs_of_pos h2n, pow_succ]; field_simp
  have hd1 : |mid q - q.1| = |t0 - f0| / 2 ^ (iters + 1) := by rw [abs_mid_sub_fst, hhalf]
  have hd2 : |mid q - q.2| = |t0 - f0| / 2 ^ (iters + 1) := by rw [abs_mid_sub_snd, hhalf]
  have hη0 : 0 ≤ η := le_trans (abs_nonneg _) hf
  have hfa := abs_le.1 hf
  have htb := abs_le.1 ht
  -- the stored ends are on the edge, and so is every tested midpoint
  have ha_in : lo ≤ a ∧ a ≤ hi := by rcases hab with h | h <;> rw [h.1] <;> exact ⟨by linarith, by linarith⟩
  have hb_in : lo ≤ b ∧ b ≤ hi := by rcases hab with h | h <;> rw [h.2] <;> exact ⟨by linarith, by linarith⟩
  have hmin : lo - η ≤ min f0 t0 := by
    apply le_min
    · linarith [ha_in.1]
    · linarith [hb_in.1]
  have hmax : max f0 t0 ≤ hi + η := by
    apply max_le
    · linarith [ha_in.2]
    · linarith [hb_in.2]
  have inside : ∀ z, (min f0 t0 + |t0 - f0| / 2 ^ iters ≤ z ∧ z ≤ max f0 t0 - |t0 - f0| / 2 ^ iters) →
      lo ≤ z ∧ z ≤ hi := fun z hz => ⟨by linarith [hz.1], by linarith [hz.2]⟩
  -- an excluded sample x and a contained sample y of the edge, both close to the vertex
  obtain ⟨x, hx_in, hPx, hdx⟩ : ∃ x, (lo ≤ x ∧ x ≤ hi) ∧ P x = false ∧
      |mid q - x| ≤ |t0 - f0| / 2 ^ (iters + 1) + η := by
    rcases hT.1 with h | h
    · refine ⟨a, ha_in, ha, ?_⟩
      have : mid q - a = (mid q - q.1) + (f0 - a) := by rw [h]; ring
      rw [this]
      exact le_trans (abs_add_le _ _) (by rw [hd1]; linarith)
    · rcases hI.1 with g | g
      · refine ⟨a, ha_in, ha, ?_⟩
        have : mid q - a = (mid q - q.1) + (f0 - a) := by rw [g]; ring
        rw [this]
        exact le_trans (abs_add_le _ _) (by rw [hd1]; linarith)
      · exact ⟨q.1, inside _ g, h, by rw [hd1]; linarith⟩
  obtain ⟨y, hy_in, hPy, hdy⟩ : ∃ y, (lo ≤ y ∧ y ≤ hi) ∧ P y = true ∧
      |mid q - y| ≤ |t0 - f0| / 2 ^ (iters + 1) + η := by
    rcases hT.2 with h | h
    · refine ⟨b, hb_in, hb, ?_⟩
      have : mid q - b = (mid q - q.2) + (t0 - b) := by rw [h]; ring
      rw [this]
      exact le_trans (abs_add_le _ _) (by rw [hd2]; linarith)
    · rcases hI.2 with g | g
      · refine ⟨b, hb_in, hb, ?_⟩
        have : mid q - b = (mid q - q.2) + (t0 - b) := by rw [g]; ring
        rw [this]
        exact le_trans (abs_add_le _ _) (by rw [hd2]; linarith)
      · exact ⟨q.2, inside _ g, h, by rw [hd2]; linarith⟩
  exact near_of_samples P lo r hinc hpw _ _ x y hx_in hy_in (by rw [hPx, hPy]; decide) hdx hdy

/-- Why the orientation must not be read off a re-computed end (the two shortcuts "the far end is the near end
plus the first lattice step" in `LookupEdgePoint`, "ask the solid at `arr − modulus + δ`" in `msSearch`): the
solid `x ≥ 1`, the edge `[0, 1]`, the far end re-computed as `1 − 1/1024`.  Both ends of the bracket are excluded,
`mcSearchPoint` converges to the wrong end (`1/512` after 8 iterations) and no transition of the edge is within
`δ / 2^8` of the vertex; from the stored end `1` the vertex is `1 − 1/512` and passes. -/
example :
    let P := fun x : ℚ => decide (1 ≤ x)
    (mcSearchPoint P 0 (1 - 1 / 1024) 8).1 < 1 / 256 ∧
    nearTransition P [0, 1] (mcSearchPoint P 0 (1 - 1 / 1024) 8).1 (1 / 256) = false ∧
    nearTransition P [0, 1] (mcSearchPoint P 0 1 8).1 (1 / 256) = true := by decide +kernel

/-- **`LookupEdgePoint` on the stored lattice returns the STORED ends of the edge**, also when the lattice is
only nearly evenly spaced (accumulated `x += δ` in floating point).  Write every coordinate of the unrefined
vertex `c` as `values_j[0] + (n_j + t_j)·δ` with `δ = Xs[1] − Xs[0]` and `0 ≤ t_j < 1`: on the axes before `k`
the coordinate is a stored lattice value that drifted by less than a quarter step (`t_j ∉ (1/4, 3/4)`), on axis
`k` it is the midpoint of the stored values `n_k`, `n_k + 1` (`1/4 < t_k < 3/4`).  Then the model of
`LookupEdgePoint` on the stored arrays returns axis `k` and `values_k[n_k]`, `values_k[n_k + 1]` — bit for bit the
numbers the marching pass evaluated the solid at, so `P lo ≠ P hi` (the edge carries a vertex because its labels
differ) is exactly the hypothesis of `search_picks_true_end` / `search_stored_lattice_near_transition`. -/
theorem lookup_edge_arr_recovers (vals : List (List Rat)) (c : List Rat) (k : Nat) (n : Nat → Nat) (t : Nat → Rat)
    (hd : 0 < (vals.getD 0 []).getD 1 0 - (vals.getD 0 []).getD 0 0)
    (hv : k < vals.length) (hc : k < c.length)
    (hlat : ∀ j, j < k → c.getD j 0 - (vals.getD j []).getD 0 0 =
        ((n j : Rat) + t j) * ((vals.getD 0 []).getD 1 0 - (vals.getD 0 []).getD 0 0) ∧
        0 ≤ t j ∧ t j < 1 ∧ ¬ (1 / 4 < t j ∧ t j < 3 / 4))
    (hmid : c.getD k 0 - (vals.getD k []).getD 0 0 =
        ((n k : Rat) + t k) * ((vals.getD 0 []).getD 1 0 - (vals.getD 0 []).getD 0 0))
    (h1 : 1 / 4 < t k) (h2 : t k < 3 / 4) (hlen : n k + 1 < (vals.getD k []).length) :
    lookupEdgeArr vals c = some (k, (vals.getD k []).getD (n k) 0, (vals.getD k []).getD (n k + 1) 0) :=
  lookupEdgeArr_recovers vals c k n t hd hv hc hlat hmid h1 h2 hlen

/-- a drifted lattice (`Xs[2]` is `1/1024` too large): the stored far end of the edge `Xs[1]..Xs[2]` is returned;
"near end + first step" gives `2`, a different point — on the other side of a face at `2 + 1/2048`. -/
example :
    lookupEdgeArr [[0, 1, 2 + 1 / 1024, 3], [0, 1, 2], [0, 1, 2]] [(1 + (2 + 1 / 1024)) / 2, 1, 1]
      = some (0, 1, 2 + 1 / 1024) ∧
    lookupEdgeFar [[0, 1, 2 + 1 / 1024, 3], [0, 1, 2], [0, 1, 2]] [(1 + (2 + 1 / 1024)) / 2, 1, 1]
      = some (0, 1, 2) := by decide +kernel

/-- **The window of `msSearch` on a nearly evenly spaced lattice**: with the coordinates of the unrefined vertex
written `Min_j + (z_j + t_j)·δ` as above (`z_j` may be negative: the lattice starts one step below `Min()`), the
re-computed lower end is the IDEAL lattice value `Min_k + z_k·δ` right of `Min` and `Min_k + (z_k + 2t_k − 1)·δ`
left of it, the upper end one `δ` further: each is within `|2t_k − 1|·δ` (twice the drift of the midpoint) of the
ideal value — and so within the drift of the stored value it stands for, the `η` of
`ms_search_recomputed_ends_near_transition`. -/
theorem ms_lookup_drift (mn c : List Rat) (d : Rat) (hd : 0 < d) (k : Nat) (z : Nat → Int) (t : Nat → Rat)
    (ho : k < mn.length) (hc : k < c.length)
    (hlat : ∀ j, j < k → c.getD j 0 - mn.getD j 0 = ((z j : Rat) + t j) * d ∧
        0 ≤ t j ∧ t j < 1 ∧ ¬ (1 / 4 < t j ∧ t j < 3 / 4))
    (hmid : c.getD k 0 - mn.getD k 0 = ((z k : Rat) + t k) * d) (h1 : 1 / 4 < t k) (h2 : t k < 3 / 4) :
    msLookup mn d c =
      some (k,
        mn.getD k 0 + ((z k : Rat) + (if 0 ≤ z k then 0 else 2 * t k - 1)) * d,
        mn.getD k 0 + ((z k : Rat) + (if 0 ≤ z k then 0 else 2 * t k - 1)) * d + d) :=
  msLookup_drift mn c d hd k z t ho hc hlat hmid h1 h2

example : msLookup [0, 0] 1 [1, 5 / 2 + 1 / 64] = some (1, 2, 3) ∧
    msLookup [0, 0] 1 [1, -1 / 2 + 1 / 64] = some (1, -1 + 1 / 32, 1 / 32) := by decide +kernel

/-! ## 2. marching cubes / squares on the whole lattice (regenerated tables) -/

/-- **A mesh vertex sits on a lattice edge iff the edge's two ends are labelled differently.**
`mcMesh mcTable nx ny nz lab` is the triangle list `MarchingCubes` builds for the labelling `lab`
of the `(nx+1)(ny+1)(nz+1)` lattice points; a vertex is named by its position in doubled lattice
coordinates, `edgeVertex p k` being the midpoint of the edge from `p` along axis `k`. -/
theorem mc_vertex_iff_sign_change (nx ny nz : Nat) (hnx : 0 < nx) (hny : 0 < ny) (hnz : 0 < nz)
    (lab : Nat → Nat → Nat → Bool) (p : Nat × Nat × Nat) (k : Nat) (hk : k < 3)
    (hp : inBox3 nx ny nz p) (hq : inBox3 nx ny nz (step3 p k)) :
    edgeVertex p k ∈ meshVerts (mcMesh mcTable nx ny nz lab) ↔
      lab p.1 p.2.1 p.2.2 ≠ lab (step3 p k).1 (step3 p k).2.1 (step3 p k).2.2 :=
  mcMesh_vertex_iff mcTable C01.mc_rows_wellformed nx ny nz hnx hny hnz lab p k hk hp hq

/-- **No vertex anywhere else**: every vertex of the mesh is the midpoint of a lattice edge of the
sampled box whose two ends are labelled differently. -/
theorem mc_vertex_only_on_sign_change (nx ny nz : Nat) (lab : Nat → Nat → Nat → Bool) (v : GV)
    (hv : v ∈ meshVerts (mcMesh mcTable nx ny nz lab)) :
    ∃ p k, k < 3 ∧ v = edgeVertex p k ∧ inBox3 nx ny nz p ∧ inBox3 nx ny nz (step3 p k) ∧
      lab p.1 p.2.1 p.2.2 ≠ lab (step3 p k).1 (step3 p k).2.1 (step3 p k).2.2 :=
  mcMesh_vertex_on_sign_change mcTable C01.mc_rows_wellformed nx ny nz lab v hv

/-- **Exactly one vertex position per edge**: different lattice edges have different vertex
positions, and all (up to four) cells round an edge name its vertex by the same position. -/
theorem mc_one_vertex_per_edge (p p' : Nat × Nat × Nat) (k k' : Nat) (hk : k < 3) (hk' : k' < 3)
    (h : edgeVertex p k = edgeVertex p' k') : p = p' ∧ k = k' :=
  edgeVertex_inj p p' k k' hk hk' h

/-- **Every lattice point is on the side its label says.**  Along the lattice line through `p`
parallel to axis `k`, starting at the outer layer (coordinate 0, labelled outside — the scanners
panic otherwise), the number of mesh vertices passed before reaching `p` is odd iff `p` is labelled
inside. -/
theorem mc_side_correct (nx ny nz : Nat) (hnx : 0 < nx) (hny : 0 < ny) (hnz : 0 < nz)
    (lab : Nat → Nat → Nat → Bool) (p : Nat × Nat × Nat) (k : Nat) (hk : k < 3) (hp : inBox3 nx ny nz p)
    (h0 : lab (setAxis p k 0).1 (setAxis p k 0).2.1 (setAxis p k 0).2.2 = false) :
    vertsBefore (meshVerts (mcMesh mcTable nx ny nz lab)) p k % 2 = if lab p.1 p.2.1 p.2.2 then 1 else 0 :=
  mcMesh_side_correct mcTable C01.mc_rows_wellformed nx ny nz hnx hny hnz lab p k hk hp h0

example : vertsBefore (meshVerts (mcMesh mcTable 2 2 2 (fun x y z => x == 1 && y == 1 && z == 1))) (1, 1, 1) 0 = 1 := by
  decide +kernel

/-- Marching squares: vertex on a lattice edge iff its ends are labelled differently. -/
theorem ms_vertex_iff_sign_change (nx ny : Nat) (hnx : 0 < nx) (hny : 0 < ny)
    (lab : Nat → Nat → Bool) (p : Nat × Nat) (k : Nat) (hk : k < 2)
    (hp : inBox2 nx ny p) (hq : inBox2 nx ny (step2 p k)) :
    edgeVertex2 p k ∈ meshVerts2 (msMesh msTable nx ny lab) ↔ lab p.1 p.2 ≠ lab (step2 p k).1 (step2 p k).2 :=
  msMesh_vertex_iff msTable C01.ms_rows_wellformed nx ny hnx hny lab p k hk hp hq

/-- Marching squares: no vertex anywhere else. -/
theorem ms_vertex_only_on_sign_change (nx ny : Nat) (lab : Nat → Nat → Bool) (v : GV2)
    (hv : v ∈ meshVerts2 (msMesh msTable nx ny lab)) :
    ∃ p k, k < 2 ∧ v = edgeVertex2 p k ∧ inBox2 nx ny p ∧ inBox2 nx ny (step2 p k) ∧
      lab p.1 p.2 ≠ lab (step2 p k).1 (step2 p k).2 :=
  msMesh_vertex_on_sign_change msTable C01.ms_rows_wellformed nx ny lab v hv

/-- Marching squares: one vertex position per lattice edge. -/
theorem ms_one_vertex_per_edge (p p' : Nat × Nat) (k k' : Nat) (hk : k < 2) (hk' : k' < 2)
    (h : edgeVertex2 p k = edgeVertex2 p' k') : p = p' ∧ k = k' :=
  edgeVertex2_inj p p' k k' hk hk' h

/-- Marching squares: every lattice point is on the side its label says (parity along lattice
lines). -/
theorem ms_side_correct (nx ny : Nat) (hnx : 0 < nx) (hny : 0 < ny) (lab : Nat → Nat → Bool)
    (p : Nat × Nat) (k : Nat) (hk : k < 2) (hp : inBox2 nx ny p)
    (h0 : lab (setAxis2 p k 0).1 (setAxis2 p k 0).2 = false) :
    vertsBefore2 (meshVerts2 (msMesh msTable nx ny lab)) p k % 2 = if lab p.1 p.2 then 1 else 0 :=
  msMesh_side_correct msTable C01.ms_rows_wellformed nx ny hnx hny lab p k hk hp h0

/-! ## 2b. the region filter of `MarchingSquaresFilter` / `MarchingCubesFilter` (+ `SearchFilter`)

`msFilterMesh msTable lab g sched` / `mcFilterMesh …` (`M3d/Model/Partition.lean`) is the face list
the Filter variants build: the root block is cut by `Pieces` with the filter oracle `g` into the
block queue, the workers (any schedule `sched`) cut their blocks again and scan the leaf cells.
`g b` stands for `f(b.Bounds(delta·1e-3))`.  `PointSound2 nx ny lab g`: whenever `g` rejects a (well-formed) block of the
lattice, all lattice points `min..max` (inclusive — the corners of the block's cells) carry one label. -/

/-- The regenerated marching-squares table draws nothing in a cell with four equal corners. -/
theorem ms_uniform_cell_empty (lab : Nat → Nat → Bool) (c : Nat × Nat) (h : uniformCell2 lab c) :
    Partition.cellSegs msTable lab c = [] := by
  have h0 : getRow msTable 0 = [] := by decide
  have h15 : getRow msTable 15 = [] := by decide
  unfold Partition.cellSegs
  rcases cellCfg2_uniform lab c h with e | e <;> rw [e]
  · rw [h0]; rfl
  · rw [h15]; rfl

/-- The regenerated marching-cubes table draws nothing in a cell with eight equal corners. -/
theorem mc_uniform_cell_empty (lab : Nat → Nat → Nat → Bool) (c : Nat × Nat × Nat) (h : uniformCell lab c) :
    Partition.cellTris mcTable lab c = [] := by
  have h0 : getRow mcTable 0 = [] := by decide
  have h255 : getRow mcTable 255 = [] := by decide
  unfold Partition.cellTris
  rcases cellCfg_uniform lab c h with e | e <;> rw [e]
  · rw [h0]; rfl
  · rw [h255]; rfl

/-- **`Bounds` covers the block's lattice points.**  The rectangle `msBlock.Bounds(ε)` hands to the
filter (`blockBounds2`; tied to the regenerated `msBlock.Bounds` by
`M3d.KernelsTie.FilterBounds.msBlock_bounds_eq`) contains the lattice point `(Xs[i], Ys[j])` for every
`min ≤ (i,j) ≤ max` of the block, BOTH ends inclusive, for non-decreasing spacer arrays and `ε ≥ 0` —
in particular the corners of the block's last column and row of cells. -/
theorem ms_filter_rect_covers_block_points (X Y : Nat → K) (hX : ∀ i j, i ≤ j → X i ≤ X j)
    (hY : ∀ i j, i ≤ j → Y i ≤ Y j) (eps : K) (he : 0 ≤ eps) (b : Block2) (i j : Nat)
    (hi0 : b.x0 ≤ i) (hi1 : i ≤ b.x1) (hj0 : b.y0 ≤ j) (hj1 : j ≤ b.y1) :
    (blockBounds2 X Y eps b).Has (X i) (Y j) :=
  blockBounds2_has X Y hX hY eps he b i j hi0 hi1 hj0 hj1

/-- 3-D twin (`mcBlock.Bounds`). -/
theorem mc_filter_rect_covers_block_points (X Y Z : Nat → K) (hX : ∀ i j, i ≤ j → X i ≤ X j)
    (hY : ∀ i j, i ≤ j → Y i ≤ Y j) (hZ : ∀ i j, i ≤ j → Z i ≤ Z j) (eps : K) (he : 0 ≤ eps) (b : Block)
    (i j k : Nat) (hi0 : b.x0 ≤ i) (hi1 : i ≤ b.x1) (hj0 : b.y0 ≤ j) (hj1 : j ≤ b.y1)
    (hk0 : b.z0 ≤ k) (hk1 : k ≤ b.z1) :
    (blockBounds3 X Y Z eps b).Has (X i) (Y j) (Z k) :=
  blockBounds3_has X Y Z hX hY hZ eps he b i j k hi0 hi1 hj0 hj1 hk0 hk1

/-- **A conservative user filter is sound for the lattice labelling.**  If the user's `f` answers
`false` only for rectangles on which `Contains` is constant (no surface in the rectangle — the
documented contract "it should never fail to report collisions"), then the block oracle
`g b = f(b.Bounds(ε))` rejects only blocks whose lattice points all carry one label. -/
theorem ms_rect_filter_point_sound (C : K → K → Bool) (F : Rect2 K → Bool)
    (hF : ∀ r, F r = false → ∀ x y x' y', r.Has x y → r.Has x' y' → C x y = C x' y')
    (X Y : Nat → K) (hX : ∀ i j, i ≤ j → X i ≤ X j) (hY : ∀ i j, i ≤ j → Y i ≤ Y j)
    (eps : K) (he : 0 ≤ eps) (nx ny : Nat) :
    PointSound2 nx ny (fun i j => C (X i) (Y j)) (fun b => F (blockBounds2 X Y eps b)) := by
  intro b _ hb x y hx0 hx1 hy0 hy1
  exact hF _ hb _ _ _ _
    (blockBounds2_has X Y hX hY eps he b x y hx0 hx1 hy0 hy1)
    (blockBounds2_has X Y hX hY eps he b b.x0 b.y0 (Nat.le_refl _) (by omega) (Nat.le_refl _) (by omega))

/-- 3-D twin. -/
theorem mc_rect_filter_point_sound (C : K → K → K → Bool) (F : Rect3 K → Bool)
    (hF : ∀ r, F r = false → ∀ x y z x' y' z', r.Has x y z → r.Has x' y' z' → C x y z = C x' y' z')
    (X Y Z : Nat → K) (hX : ∀ i j, i ≤ j → X i ≤ X j) (hY : ∀ i j, i ≤ j → Y i ≤ Y j)
    (hZ : ∀ i j, i ≤ j → Z i ≤ Z j) (eps : K) (he : 0 ≤ eps) (nx ny nz : Nat) :
    PointSound3 nx ny nz (fun i j k => C (X i) (Y j) (Z k)) (fun b => F (blockBounds3 X Y Z eps b)) := by
  intro b _ hb x y z hx0 hx1 hy0 hy1 hz0 hz1
  exact hF _ hb _ _ _ _ _ _
    (blockBounds3_has X Y Z hX hY hZ eps he b x y z hx0 hx1 hy0 hy1 hz0 hz1)
    (blockBounds3_has X Y Z hX hY hZ eps he b b.x0 b.y0 b.z0 (Nat.le_refl _) (by omega) (Nat.le_refl _)
      (by omega) (Nat.le_refl _) (by omega))

example : PointSound2 5 5 (fun i j => decide ((i : ℚ) + j ≤ 3)) (fun _ => true) := by
  intro b _ hb; cases hb

/-- **`MarchingSquaresFilter` = `MarchingSquares`** as multisets of segments, for every lattice,
labelling, sound filter oracle and schedule of the worker pool — no cell is dropped at a block
boundary and none is meshed twice. -/
theorem ms_filter_same_mesh (nx ny : Nat) (lab : Nat → Nat → Bool) (g : Block2 → Bool)
    (hg : PointSound2 nx ny lab g) (sched : List (List Block2))
    (hs : Schedule2 (blockQueue2 g (rootBlock2 nx ny)) sched) :
    (msFilterMesh msTable lab g sched).Perm (msMesh msTable nx ny lab) :=
  msFilterMesh_perm msTable ms_uniform_cell_empty nx ny lab g hg sched hs

/-- **`MarchingCubesFilter` = `MarchingCubes`** as multisets of triangles. -/
theorem mc_filter_same_mesh (nx ny nz : Nat) (lab : Nat → Nat → Nat → Bool) (g : Block → Bool)
    (hg : PointSound3 nx ny nz lab g) (sched : List (List Block))
    (hs : Schedule (blockQueue g (rootBlock nx ny nz)) sched) :
    (mcFilterMesh mcTable lab g sched).Perm (mcMesh mcTable nx ny nz lab) :=
  mcFilterMesh_perm mcTable mc_uniform_cell_empty nx ny nz lab g hg sched hs

/-- The filtered marching-squares mesh has a vertex on a lattice edge iff the edge's ends are
labelled differently (every sound filter, every schedule) — and, by `ms_filter_same_mesh`, nowhere
else. -/
theorem ms_filter_vertex_iff_sign_change (nx ny : Nat) (hnx : 0 < nx) (hny : 0 < ny)
    (lab : Nat → Nat → Bool) (g : Block2 → Bool) (hg : PointSound2 nx ny lab g) (sched : List (List Block2))
    (hs : Schedule2 (blockQueue2 g (rootBlock2 nx ny)) sched)
    (p : Nat × Nat) (k : Nat) (hk : k < 2) (hp : inBox2 nx ny p) (hq : inBox2 nx ny (step2 p k)) :
    edgeVertex2 p k ∈ meshVerts2 (msFilterMesh msTable lab g sched) ↔
      lab p.1 p.2 ≠ lab (step2 p k).1 (step2 p k).2 :=
  (meshVerts2_perm (ms_filter_same_mesh nx ny lab g hg sched hs) _).trans
    (ms_vertex_iff_sign_change nx ny hnx hny lab p k hk hp hq)

/-- Filtered marching squares: no vertex anywhere else. -/
theorem ms_filter_vertex_only_on_sign_change (nx ny : Nat) (lab : Nat → Nat → Bool) (g : Block2 → Bool)
    (hg : PointSound2 nx ny lab g) (sched : List (List Block2))
    (hs : Schedule2 (blockQueue2 g (rootBlock2 nx ny)) sched) (v : GV2)
    (hv : v ∈ meshVerts2 (msFilterMesh msTable lab g sched)) :
    ∃ p k, k < 2 ∧ v = edgeVertex2 p k ∧ inBox2 nx ny p ∧ inBox2 nx ny (step2 p k) ∧
      lab p.1 p.2 ≠ lab (step2 p k).1 (step2 p k).2 :=
  ms_vertex_only_on_sign_change nx ny lab v
    ((meshVerts2_perm (ms_filter_same_mesh nx ny lab g hg sched hs) v).1 hv)

/-- Filtered marching squares: every lattice point is on the side its label says. -/
theorem ms_filter_side_correct (nx ny : Nat) (hnx : 0 < nx) (hny : 0 < ny) (lab : Nat → Nat → Bool)
    (g : Block2 → Bool) (hg : PointSound2 nx ny lab g) (sched : List (List Block2))
    (hs : Schedule2 (blockQueue2 g (rootBlock2 nx ny)) sched)
    (p : Nat × Nat) (k : Nat) (hk : k < 2) (hp : inBox2 nx ny p)
    (h0 : lab (setAxis2 p k 0).1 (setAxis2 p k 0).2 = false) :
    vertsBefore2 (meshVerts2 (msFilterMesh msTable lab g sched)) p k % 2 = if lab p.1 p.2 then 1 else 0 := by
  rw [vertsBefore2_perm (ms_filter_same_mesh nx ny lab g hg sched hs)]
  exact ms_side_correct nx ny hnx hny lab p k hk hp h0

/-- The filtered marching-cubes mesh has a vertex on a lattice edge iff its ends are labelled
differently (every sound filter, every schedule). -/
theorem mc_filter_vertex_iff_sign_change (nx ny nz : Nat) (hnx : 0 < nx) (hny : 0 < ny) (hnz : 0 < nz)
    (lab : Nat → Nat → Nat → Bool) (g : Block → Bool) (hg : PointSound3 nx ny nz lab g) (sched : List (List Block))
    (hs : Schedule (blockQueue g (rootBlock nx ny nz)) sched)
    (p : Nat × Nat × Nat) (k : Nat) (hk : k < 3)
    (hp : inBox3 nx ny nz p) (hq : inBox3 nx ny nz (step3 p k)) :
    edgeVertex p k ∈ meshVerts (mcFilterMesh mcTable lab g sched) ↔
      lab p.1 p.2.1 p.2.2 ≠ lab (step3 p k).1 (step3 p k).2.1 (step3 p k).2.2 :=
  (meshVerts_perm (mc_filter_same_mesh nx ny nz lab g hg sched hs) _).trans
    (mc_vertex_iff_sign_change nx ny nz hnx hny hnz lab p k hk hp hq)

/-- Filtered marching cubes: no vertex anywhere else. -/
theorem mc_filter_vertex_only_on_sign_change (nx ny nz : Nat) (lab : Nat → Nat → Nat → Bool)
    (g : Block → Bool) (hg : PointSound3 nx ny nz lab g) (sched : List (List Block))
    (hs : Schedule (blockQueue g (rootBlock nx ny nz)) sched) (v : GV)
    (hv : v ∈ meshVerts (mcFilterMesh mcTable lab g sched)) :
    ∃ p k, k < 3 ∧ v = edgeVertex p k ∧ inBox3 nx ny nz p ∧ inBox3 nx ny nz (step3 p k) ∧
      lab p.1 p.2.1 p.2.2 ≠ lab (step3 p k).1 (step3 p k).2.1 (step3 p k).2.2 :=
  mc_vertex_only_on_sign_change nx ny nz lab v
    ((meshVerts_perm (mc_filter_same_mesh nx ny nz lab g hg sched hs) v).1 hv)

/-- Filtered marching cubes: every lattice point is on the side its label says. -/
theorem mc_filter_side_correct (nx ny nz : Nat) (hnx : 0 < nx) (hny : 0 < ny) (hnz : 0 < nz)
    (lab : Nat → Nat → Nat → Bool) (g : Block → Bool) (hg : PointSound3 nx ny nz lab g) (sched : List (List Block))
    (hs : Schedule (blockQueue g (rootBlock nx ny nz)) sched)
    (p : Nat × Nat × Nat) (k : Nat) (hk : k < 3) (hp : inBox3 nx ny nz p)
    (h0 : lab (setAxis p k 0).1 (setAxis p k 0).2.1 (setAxis p k 0).2.2 = false) :
    vertsBefore (meshVerts (mcFilterMesh mcTable lab g sched)) p k % 2 = if lab p.1 p.2.1 p.2.2 then 1 else 0 := by
  rw [vertsBefore_perm (mc_filter_same_mesh nx ny nz lab g hg sched hs)]
  exact mc_side_correct nx ny nz hnx hny hnz lab p k hk hp h0

/-- The filter the driver runs the model with — reject a block iff all of its lattice points carry
one label, the least permissive sound oracle — is sound; one worker receiving the whole queue is a
schedule.  So the model run `msFilterMesh1 … (tightFilter2 lab)` is an instance of the theorems above. -/
theorem filter_tight_sound (nx ny nz : Nat) (lab2 : Nat → Nat → Bool) (lab3 : Nat → Nat → Nat → Bool) :
    PointSound2 nx ny lab2 (tightFilter2 lab2) ∧ PointSound3 nx ny nz lab3 (tightFilter3 lab3) ∧
    (∀ g root, Schedule2 (blockQueue2 g root) [blockQueue2 g root]) ∧
    (∀ g root, Schedule (blockQueue g root) [blockQueue g root]) :=
  ⟨tightFilter2_sound nx ny lab2, tightFilter3_sound nx ny nz lab3,
   fun _ _ => by simp [Schedule2], fun _ _ => by simp [Schedule]⟩

/-- non-vacuity: a 40×40 lattice with one inside point in the LAST column of cells of a leaf block —
the tight filter does reject blocks, and the filtered model mesh still has the island's four vertices. -/
example : (meshVerts2 (msFilterMesh1 msTable 40 40 (fun x y => x == 20 && y == 7)
    (tightFilter2 (fun x y => x == 20 && y == 7)))).length = 8 := by decide +kernel

/-! ## 3. dual contouring -/

/-- **`c ∈ EdgeCubes(e) ⇔ e ∈ CubeEdges(c)`** for the flat indices of `dcCubeLayout`, every grid
size `len(Xs) = nx`, `len(Ys) = ny`, `BufRows = rows`, every `e < len(Edges)` and `c < len(Cubes)`. -/
theorem dc_edge_cubes_consistent (nx ny rows e c : Nat)
    (he : e < numEdges nx ny rows) (hc : c < numCubes nx ny rows) :
    some c ∈ edgeCubes nx ny rows e ↔ e ∈ cubeEdges nx ny c :=
  edgeCubes_iff_cubeEdges nx ny rows e c he hc

/-- The flat edge and cube indices are bijective encodings of lattice coordinates
(`edgeDecode`/`cubeCoord` are what `EdgeCorners`, `EdgeCubes`, `cubeCoord` compute; `x/y/zEdgeIdx`
and `cubeAt` are the encoders), and every index below `len(Edges)` decodes to a lattice edge — in
particular the top layer has no Z-edges. -/
theorem dc_index_roundtrip (nx ny rows : Nat) :
    (∀ e, edgeEncode nx ny (edgeDecode nx ny e) = e) ∧
    (∀ e, validEdge nx ny rows e = true → edgeDecode nx ny (edgeEncode nx ny e) = e ∧ edgeEncode nx ny e < numEdges nx ny rows) ∧
    (∀ i, i < numEdges nx ny rows → validEdge nx ny rows (edgeDecode nx ny i) = true) ∧
    (∀ c, cubeIdx nx ny (cubeCoord nx ny c).1 (cubeCoord nx ny c).2.1 (cubeCoord nx ny c).2.2 = c) ∧
    (∀ x y z, x + 1 < nx → y + 1 < ny → cubeCoord nx ny (cubeIdx nx ny x y z) = (x, y, z)) :=
  ⟨edgeEncode_edgeDecode nx ny,
   fun e h => ⟨edgeDecode_edgeEncode nx ny rows e h, edgeEncode_lt nx ny rows e h⟩,
   validEdge_of_lt nx ny rows, cubeIdx_cubeCoord nx ny,
   fun x y z hx hy => cubeCoord_cubeIdx nx ny x y z hx hy⟩

/-- **Four cubes round every non-border edge, in a fixed cyclic order**; a border edge misses at
least one (so `appendMesh` would panic if such an edge were active). -/
theorem dc_four_cubes_round_edge (nx ny rows : Nat) (e : EdgeC) (hv : validEdge nx ny rows e = true) :
    (interiorEdge nx ny rows e = true → edgeCubesC nx ny rows e = (fourCells e).map some) ∧
    (interiorEdge nx ny rows e = false → none ∈ edgeCubesC nx ny rows e) :=
  ⟨edgeCubesC_interior nx ny rows e, edgeCubesC_border nx ny rows e hv⟩

/-- **Exactly one quad per lattice edge whose end labels differ, none otherwise**; with an empty
outer layer every such edge has its four cells, so the quad is those four cells in `EdgeCubes`
order, reversed when the edge's first corner is inside. -/
theorem dc_one_quad_per_active_edge (nx ny rows : Nat) (lab : Lab) (e : EdgeC) :
    ((quads nx ny rows lab).map Prod.fst).count e =
        (if validEdge nx ny rows e = true ∧ active lab e = true then 1 else 0) ∧
    (EmptyBorder nx ny rows lab → validEdge nx ny rows e = true → active lab e = true →
      quadOf nx ny rows lab e = some (if lab e.x e.y e.z then (fourCells e).reverse else fourCells e)) :=
  ⟨quads_count nx ny rows lab e,
   fun hb hv ha => quadOf_interior nx ny rows lab e (active_interior nx ny rows lab hb e hv ha)⟩

/-- **Orientation**: with the cube centres as vertices, both triangulations `triangulateQuad` can
choose give four triangles whose normals point along `+axis` when the edge's lower corner is the
contained one and along `−axis` otherwise — from the contained to the excluded end, for all three
edge axes and every position in every grid. -/
theorem dc_quad_orientation (nx ny rows : Nat) (lab : Lab) (e : EdgeC)
    (h : interiorEdge nx ny rows e = true) : quadOrientedOk nx ny rows lab e = true :=
  quadOrientedOk_interior nx ny rows lab e h

/-- **Clip keeps the vertex in its cell**: `p.Max(min + m).Min(max − m)` lies in
`[min + m, max − m] ⊆ [min, max]` whenever `0 ≤ 2m ≤ max − min` (per coordinate). -/
theorem dc_clip_in_cell (p lo hi m : K) (hm : 0 ≤ m) (h2 : 2 * m ≤ hi - lo) :
    lo + m ≤ clip1 p lo hi m ∧ clip1 p lo hi m ≤ hi - m ∧ lo ≤ clip1 p lo hi m ∧ clip1 p lo hi m ≤ hi := by
  have h := clip1_in p lo hi m hm h2
  refine ⟨h.1, h.2, by linarith, by linarith⟩

/-- **Crossed exactly once, with the right normal.**  Project along the lattice edge, the edge at
the origin.  Four vertices anywhere in the four open cells round the edge (quadrants in the order
of `EdgeCubes`) give a quad that either triangulation of `triangulateQuad` crosses the edge with
exactly once — one triangle strictly, or both on their common diagonal: score 2 in the half-units
of the exact crossing counter — and every triangle that is hit has its normal along `−axis`
(unflipped order = lower corner excluded).  For the flipped quad all signs reverse
(`hitHalf_flip`, `areaSign_flip`). -/
theorem dc_quad_crossed_once (p0 p1 p2 p3 : K × K) (h : InQuadrants p0 p1 p2 p3) :
    (hitHalf p0 p1 p2 + hitHalf p0 p2 p3 = 2 ∧
      (hitHalf p0 p1 p2 ≠ 0 → areaSign p0 p1 p2 < 0) ∧ (hitHalf p0 p2 p3 ≠ 0 → areaSign p0 p2 p3 < 0)) ∧
    (hitHalf p1 p2 p3 + hitHalf p1 p3 p0 = 2 ∧
      (hitHalf p1 p2 p3 ≠ 0 → areaSign p1 p2 p3 < 0) ∧ (hitHalf p1 p3 p0 ≠ 0 → areaSign p1 p3 p0 < 0)) := by
  obtain ⟨c01, c12, c23, c30⟩ := quadrant_crosses p0 p1 p2 p3 h
  exact ⟨fan_hit_once p0 p1 p2 p3 c01 c12 c23 c30, fan_hit_once p1 p2 p3 p0 c12 c23 c30 c01⟩

example : InQuadrants ((1, -1) : ℚ × ℚ) (-1, -1) (-1, 1) (1, 1) := by
  unfold InQuadrants; norm_num

/-- **A quad meets no lattice edge but its own.**  Edge `e` along the third axis at `(b, e')`, `a < b < c`
and `d < e' < f` consecutive lattice values of the other two axes, `g < h` the lattice values at the
ends of `e`; `LX`, `LY`, `LZ` the sets of lattice values.  A triangle whose three vertices lie in the
open block `(a,c) × (d,f) × (g,h)` of the four cells round `e` — where `Clip` keeps the quad's vertices
(`dc_clip_in_cell`) — lies in that block (convexity), and a point of the block that is on ANY lattice
line is on `e` itself.  Hence the only quad that can cross a lattice edge is the edge's own quad, and
`dc_quad_crossed_once` + `dc_one_quad_per_active_edge` give "crossed exactly once iff the ends
differ, not at all otherwise" for the whole surface (the other two edge directions: permute the
coordinates). -/
theorem dc_quad_meets_only_own_edge (LX LY LZ : K → Prop) (a b c d e f g h : K)
    (hx : ∀ v, LX v → a < v → v < c → v = b) (hy : ∀ v, LY v → d < v → v < f → v = e)
    (hz : ∀ v, LZ v → g < v → v < h → False)
    (p0 p1 p2 : K × K × K)
    (h0 : InBlock a c d f g h p0) (h1 : InBlock a c d f g h p1) (h2 : InBlock a c d f g h p2)
    (u v w : K) (hu : 0 ≤ u) (hv : 0 ≤ v) (hw : 0 ≤ w) (hs : u + v + w = 1)
    (hl : OnLatticeLine LX LY LZ (comb u v w p0 p1 p2)) :
    (comb u v w p0 p1 p2).1 = b ∧ (comb u v w p0 p1 p2).2.1 = e ∧
      g < (comb u v w p0 p1 p2).2.2 ∧ (comb u v w p0 p1 p2).2.2 < h :=
  block_lattice_point_on_own_edge LX LY LZ a b c d e f g h hx hy hz _
    (tri_in_block a c d f g h p0 p1 p2 h0 h1 h2 u v w hu hv hw hs) hl

/-- **`Repair` keeps the cyclic order round a grid edge** (the repaired code, /repo 08bc264): seen
along a grid edge of the face shared by the two cubes of a singular mesh edge `A–B`, with the ends
kept `m > 2ε` inside their cubes (`Constrain` with `RepairEpsilon`, the new vertex moved by
`ε = 0.19·RepairEpsilon` — `0.49·RepairEpsilon` before the second repair — in a unit direction), the inserted vertex lies strictly between `A` and `B`
— the fan of the quad keeps its order and the grid edge is still crossed once.  With the margin `ε` of
the code before the repair it need not (`repair_midpoint_old_margin_fails`; found by the `dcr`
correspondence as a lattice edge crossed three times). -/
theorem dc_repair_midpoint_between (a1 a2 b1 b2 m eps dx dz : K)
    (ha1 : m ≤ a1) (ha2 : m ≤ a2) (hb1 : m ≤ b1) (hb2 : m ≤ b2) (he : 0 ≤ eps) (hm : 2 * eps < m)
    (hdx : |dx| ≤ 1) (hdz : |dz| ≤ 1) :
    0 < cross2 ((b1, b2) : K × K) ((-a1 + b1) / 2 + eps * dx, (a2 + b2) / 2 + eps * dz) ∧
    0 < cross2 (((-a1 + b1) / 2 + eps * dx, (a2 + b2) / 2 + eps * dz) : K × K) (-a1, a2) :=
  repair_midpoint_between a1 a2 b1 b2 m eps dx dz ha1 ha2 hb1 hb2 he hm hdx hdz

example : ∃ (a1 a2 b1 b2 m eps dx dz : ℚ), m ≤ a1 ∧ m ≤ a2 ∧ m ≤ b1 ∧ m ≤ b2 ∧ 0 < eps ∧ m = eps ∧
    |dx| ≤ 1 ∧ |dz| ≤ 1 ∧
    cross2 ((b1, b2) : ℚ × ℚ) ((-a1 + b1) / 2 + eps * dx, (a2 + b2) / 2 + eps * dz) < 0 :=
  repair_midpoint_old_margin_fails

/-- **The two `Repair` passes together keep the cyclic order round a grid edge** (the code since the second
repair of /repo: both passes move by `ε = 0.19·RepairEpsilon`).  `repairSingularEdges` inserts the vertex `N` from
the ends of a singular edge as they are then (`m = RepairEpsilon` inside their cubes) and moves it by `ee`;
`repairSingularVertices` may afterwards move either end by `ev` (a singular vertex is split into copies, each
moved in a unit direction `p`, `q`).  For `2·ee + 3·ev < m` — `5·0.19 < 1` — `N` is still strictly between the
FINAL ends as seen along a grid edge of the shared face: the boundary of the subdivided quad keeps its angular
order round the grid edge, and the fan is crossed by it exactly once.  With `ee = ev = 0.49·m` it need not
(`repair_two_passes_old_factor_fails`, the numbers of a real input: found by the `dcr` correspondence on round
bodies in general position as a lattice edge crossed three times). -/
theorem dc_repair_two_passes_between (a1 a2 b1 b2 m ee ev dx dz p1 p2 q1 q2 : K)
    (ha1 : m ≤ a1) (ha2 : m ≤ a2) (hb1 : m ≤ b1) (hb2 : m ≤ b2) (hee : 0 ≤ ee) (hev : 0 ≤ ev)
    (hm : 2 * ee + 3 * ev < m)
    (hdx : |dx| ≤ 1) (hdz : |dz| ≤ 1) (hp1 : |p1| ≤ 1) (hp2 : |p2| ≤ 1) (hq1 : |q1| ≤ 1) (hq2 : |q2| ≤ 1) :
    0 < cross2 ((b1 + ev * q1, b2 + ev * q2) : K × K) ((-a1 + b1) / 2 + ee * dx, (a2 + b2) / 2 + ee * dz) ∧
    0 < cross2 (((-a1 + b1) / 2 + ee * dx, (a2 + b2) / 2 + ee * dz) : K × K) (-(a1 + ev * p1), a2 + ev * p2) :=
  repair_two_passes_between a1 a2 b1 b2 m ee ev dx dz p1 p2 q1 q2 ha1 ha2 hb1 hb2 hee hev hm hdx hdz hp1 hp2 hq1 hq2

/-- the constants of the code satisfy the hypothesis (`ee = ev = 0.19·m`), the old ones (`0.49·m`) do not and
the conclusion fails for them -/
example : (∀ m : ℚ, 0 < m → 2 * (19 / 100 * m) + 3 * (19 / 100 * m) < m) ∧
    ∃ (a1 a2 b1 b2 m ee ev dx dz p1 p2 : ℚ), m ≤ a1 ∧ m ≤ a2 ∧ m ≤ b1 ∧ m ≤ b2 ∧
      ee = 49 / 100 * m ∧ ev = 49 / 100 * m ∧ |dx| ≤ 1 ∧ |dz| ≤ 1 ∧ |p1| ≤ 1 ∧ |p2| ≤ 1 ∧
      cross2 (((-a1 + b1) / 2 + ee * dx, (a2 + b2) / 2 + ee * dz) : ℚ × ℚ) (-(a1 + ev * p1), a2 + ev * p2) < 0 :=
  ⟨fun m hm => by linarith, repair_two_passes_old_factor_fails⟩

/-- Reversing a triangle (what the flip `vs[0..3] = vs[3],vs[2],vs[1],vs[0]` does to every triangle
of the quad) keeps its crossing score and negates its normal. -/
theorem dc_flip_reverses_normal (a b c : K × K) :
    hitHalf c b a = hitHalf a b c ∧ areaSign c b a = -areaSign a b c :=
  ⟨hitHalf_flip a b c, areaSign_flip a b c⟩

/-! ## 4. the wrappers round the meshers

`MarchingCubesConj` / `MarchingSquaresConj` (mesh `TransformSolid(JoinedTransform(xforms), s)`, map the
mesh back through `joined.Inverse()`), `MarchingSquaresC2F` / `MarchingCubesC2F` (the coarse mesh is the
region filter of the fine one) and `DualContour` / `DualContourInterior` (build the `DualContouring`
literal).  Models: `M3d/Model/MarchingGlue.lean`; the transforms are C05's `M3d.Tf.Xf`
(`M3d/Model/Transform.lean`), `t.Valid` = invertible by the library's own `Inverse()` (non-zero scales
and determinants). -/

/-- **`MarchingCubesConj` returns the surface of the lattice surface's pre-image.**  The vertex map
`mesh.Transform(joined.Inverse())` (`conjBack3`) and `joined.Apply` are mutually inverse: the returned
vertex is the unique point that the joined transform sends to the (refined) lattice-space vertex, for
every list of invertible transforms. -/
theorem conj_vertex_round_trip (ts : List (Tf.Xf K)) (hv : ∀ t ∈ ts, t.Valid) (q : Tf.V3 K) :
    (Tf.Xf.ofList ts).apply (conjBack3 ts q) = q ∧ conjBack3 ts ((Tf.Xf.ofList ts).apply q) = q :=
  ⟨Tf.Xf.apply_inverse _ (ofList_valid ts hv) q, Tf.Xf.inverse_apply _ (ofList_valid ts hv) q⟩

/-- The order: `joined.Apply` runs the members first to last, the vertex map runs their inverses LAST
TO FIRST (`foldr`). -/
theorem conj_back_is_reversed_inverses (ts : List (Tf.Xf K)) (v : Tf.V3 K) :
    conjBack3 ts v = ts.foldr (fun t c => t.inverse.apply c) v ∧
      (Tf.Xf.ofList ts).apply v = ts.foldl (fun c t => t.apply c) v :=
  ⟨conjBack3_eq ts v, ofList_apply ts v⟩

/-- the order matters: translate by (1,0,0) then scale by 2 sends the origin to (2,0,0); the members'
inverses applied first to last send (2,0,0) to (1/2,0,0), not back to the origin. -/
example : conjBack3 [Tf.Xf.translate ⟨1, 0, 0⟩, Tf.Xf.scale (2 : ℚ)] ⟨2, 0, 0⟩ = ⟨0, 0, 0⟩ ∧
    conjBackForward3 [Tf.Xf.translate ⟨1, 0, 0⟩, Tf.Xf.scale (2 : ℚ)] ⟨2, 0, 0⟩ = ⟨1 / 2, 0, 0⟩ := by
  constructor <;> (ext <;> norm_num [conjBack3, conjBackForward3, Tf.Xf.ofList, Tf.Xf.inverse, Tf.Xf.snoc, Tf.Xf.apply,
    Tf.V3.add, Tf.V3.scale])

/-- **Every lattice sample point is labelled with the solid's answer at the point the returned mesh
places it.**  For a solid inside its own bounds, the label `TransformSolid(joined, s).Contains(p)` of a
point `p` of the transformed space is `s.Contains` at `conjBack3 ts p`, the image of `p` under the
vertex map.  Hence the three clauses proved for the lattice-space mesh (`mc_vertex_iff_sign_change`,
`mc_side_correct`, `mc_search_vertex_on_edge`) hold for the returned mesh with the lattice
`conjBack3 ts (lattice point)` and the ORIGINAL solid — the map is a bijection (`conj_vertex_round_trip`). -/
theorem conj_label_is_solid (ts : List (Tf.Xf K)) (hv : ∀ t ∈ ts, t.Valid) (s : Tf.Solid K)
    (hs : ∀ x, s.contains x = true → Tf.Box s.lo s.hi x) (p : Tf.V3 K) :
    (conjSolid3 ts s).contains p = s.contains (conjBack3 ts p) :=
  conjSolid3_contains ts hv s hs p

/-- 2-D twins (`MarchingSquaresConj`). -/
theorem conj2_vertex_round_trip (ts : List (Tf.Xf2 K)) (hv : ∀ t ∈ ts, t.Valid) (q : Tf.V2 K) :
    (Tf.Xf2.ofList ts).apply (conjBack2 ts q) = q ∧ conjBack2 ts ((Tf.Xf2.ofList ts).apply q) = q :=
  ⟨Tf.Xf2.apply_inverse _ (ofList2_valid ts hv) q, Tf.Xf2.inverse_apply _ (ofList2_valid ts hv) q⟩

theorem conj2_back_is_reversed_inverses (ts : List (Tf.Xf2 K)) (v : Tf.V2 K) :
    conjBack2 ts v = ts.foldr (fun t c => t.inverse.apply c) v ∧
      (Tf.Xf2.ofList ts).apply v = ts.foldl (fun c t => t.apply c) v :=
  ⟨conjBack2_eq ts v, ofList2_apply ts v⟩

theorem conj2_label_is_solid (ts : List (Tf.Xf2 K)) (hv : ∀ t ∈ ts, t.Valid) (s : Tf.Solid2 K)
    (hs : ∀ x, s.contains x = true → Tf.Box2 s.lo s.hi x) (p : Tf.V2 K) :
    (conjSolid2 ts s).contains p = s.contains (conjBack2 ts p) :=
  conjSolid2_contains ts hv s hs p

example : ∀ t ∈ [Tf.Xf.translate ⟨1, 0, 0⟩, Tf.Xf.scale (2 : ℚ), Tf.Xf.matrix ⟨0, 0, 2, 0, 1, 0, 1 / 2, 0, 0⟩], t.Valid := by
  intro t ht
  simp only [List.mem_cons, List.not_mem_nil, or_false] at ht
  rcases ht with rfl | rfl | rfl <;> norm_num [Tf.Xf.Valid, Tf.M3.det]

/-! ### The Conj members: on which side of the returned surface the sample points lie

`MarchingSquaresConj` / `MarchingCubesConj` after the search: `mesh = mesh.Transform(joined.Inverse())`, then
`if msSignedArea(mesh) < 0 { mesh = mesh.InvertNormals() }` (`mcSignedVolume` in 3-D) — C01's models
`C01Search.conjMesh2 g o` / `conjMesh g o` (`g` = the map back, an invertible affine map `Aff2` / `Aff3`: `Translate`,
`Scale`, `VecScale`, `Matrix2/3Transform`, their inverses and every `JoinedTransform` of them are of this form).  The
lattice sample point `c` of the transformed space stands for the point `g c` of the original space
(`conj2_label_is_solid`: the label of `c` is `s.Contains(g c)`).  `C02Conj.sideOf2 s q` is the un-normalised
`s.Normal() · (q − s[0])`: positive = `q` is on the side the normal points to. -/

open M3d.C01Search M3d.C02Conj in
/-- **In the lattice space a marching-squares segment has the ends of its vertices' lattice edges on the sides its
normal says.**  For the end `v` of a segment `s` and the point `v + t·e_k` of the lattice line through `v`,
`Normal()·((v + t·e_k) − s[0]) = t · Normal()[k]` — for either end `v` of `s` and both axes.  With
`ms_normal_picks_contained_end` (`Normal()[k] > 0` iff the lower end of the edge is the contained one; refinement
moves vertices strictly inside their edges and keeps that sign) the excluded end of the edge is strictly on the normal
side and the contained end strictly behind the segment. -/
theorem ms_segment_side_of_edge_ends (s : (K × K) × (K × K)) (t : K) :
    sideOf2 s (s.1.1 + t, s.1.2) = t * (-(s.2.2 - s.1.2)) ∧ sideOf2 s (s.1.1, s.1.2 + t) = t * (s.2.1 - s.1.1) ∧
    sideOf2 s (s.2.1 + t, s.2.2) = t * (-(s.2.2 - s.1.2)) ∧ sideOf2 s (s.2.1, s.2.2 + t) = t * (s.2.1 - s.1.1) := by
  simp only [sideOf2, ndot2, det2, sub2]
  refine ⟨?_, ?_, ?_, ?_⟩ <;> ring

open M3d.C01Search M3d.C02Conj in
/-- **`MarchingSquaresConj`: every sample point keeps its side.**  For every invertible affine map back `g`
(orientation-preserving or not), every closed lattice-space mesh `ss` whose normals face outward (`shoe2 ss < 0`:
`msSignedArea > 0`) and wherever the signed area is measured from: the returned mesh is `ss.map (conjSeg g)` (mapped,
and reversed iff `det g < 0`), and for EVERY segment `s` and point `q` of the lattice space, `g q` lies on the normal
side of the returned segment iff `q` lies on the normal side of `s`, and behind it iff `q` lies behind `s`.  So the
pre-image of an excluded lattice point is in front of, and that of a contained one behind, the returned segments at
the vertices of its lattice edges (`ms_segment_side_of_edge_ends`): what the field `orient=1` of the `msj` kind demands. -/
theorem conj2_lattice_points_keep_their_side (g : Aff2 K) (hd : g.det ≠ 0) (o : K × K)
    (ss : List ((K × K) × (K × K))) (hclosed : ∀ v, pcnt false ss v = pcnt true ss v) (hout : shoe2 ss < 0) :
    conjMesh2 g.apply o ss = ss.map (conjSeg g) ∧
    ∀ s q, (0 < sideOf2 (conjSeg g s) (g.apply q) ↔ 0 < sideOf2 s q) ∧
           (sideOf2 (conjSeg g s) (g.apply q) < 0 ↔ sideOf2 s q < 0) := by
  refine ⟨conjMesh2_eq g hd o ss hclosed hout, fun s q => ?_⟩
  rw [sideOf2_conjSeg]
  exact pos_iff_of_abs_mul hd

open M3d.C01Search M3d.C02Conj in
/-- … and the signed area of the returned mesh (`msSignedArea` = −½ · `shoe2At`) is positive from wherever it is
measured (the second clause of `orient=1`). -/
theorem conj2_returned_area_positive (g : Aff2 K) (hd : g.det ≠ 0) (o o' : K × K)
    (ss : List ((K × K) × (K × K))) (hclosed : ∀ v, pcnt false ss v = pcnt true ss v) (hout : shoe2 ss < 0) :
    shoe2At o' (conjMesh2 g.apply o ss) < 0 :=
  conjMesh2_shoe_neg g hd o o' ss hclosed hout

open M3d.C01Search M3d.C02Conj in
/-- **A member that loses the reversal puts every sample point on the wrong side** (seeded C02-15:
`mesh.InvertNormals()` without the assignment — in model2d `InvertNormals` returns a new mesh): for `det g < 0` the
bare mapped segment has `g q` strictly behind it iff `q` was strictly in FRONT of `s`, and conversely; the pre-image
of every excluded lattice point next to the surface is on the inner side of the returned surface. -/
theorem conj2_unreversed_swaps_sides (g : Aff2 K) (hd : g.det < 0) (s : (K × K) × (K × K)) (q : K × K) :
    (sideOf2 (map2 g.apply s) (g.apply q) < 0 ↔ 0 < sideOf2 s q) ∧
    (0 < sideOf2 (map2 g.apply s) (g.apply q) ↔ sideOf2 s q < 0) := by
  rw [sideOf2_map]
  constructor
  · constructor
    · intro h; by_contra hx
      have := mul_nonneg_of_nonpos_of_nonpos hd.le (not_lt.1 hx); linarith
    · exact fun h => mul_neg_of_neg_of_pos hd h
  · constructor
    · intro h; by_contra hx
      have := mul_nonpos_of_nonpos_of_nonneg hd.le (not_lt.1 hx); linarith
    · exact fun h => mul_pos_of_neg_of_neg hd h

/-- Non-vacuity / the failing shape: the unit square `[0,1]²` meshed outward (clockwise), mirrored by
`x ↦ −x` (`det = −1`).  `conjMesh2` returns the four segments mapped and reversed, with the excluded point `(−2, ½)`
(image of `(2, ½)`) in front of the image of the right side; the bare map back has it behind. -/
example :
    let sq : List ((ℚ × ℚ) × (ℚ × ℚ)) := [((0, 0), (0, 1)), ((0, 1), (1, 1)), ((1, 1), (1, 0)), ((1, 0), (0, 0))]
    let g : C01Search.Aff2 ℚ := ⟨-1, 0, 0, 1, 0, 0⟩
    C01Search.shoe2 sq < 0 ∧ g.det ≠ 0 ∧
    C01Search.conjMesh2 g.apply (0, 0) sq = sq.map (fun s => C01Search.flip2 (C01Search.map2 g.apply s)) ∧
    0 < C02Conj.sideOf2 ((1, 1), (1, 0)) ((2 : ℚ), 1 / 2) ∧
    0 < C02Conj.sideOf2 (C01Search.conjSeg g ((1, 1), (1, 0))) (g.apply (2, 1 / 2)) ∧
    C02Conj.sideOf2 (C01Search.map2 g.apply ((1, 1), (1, 0))) (g.apply (2, 1 / 2)) < 0 := by
  decide +kernel

open M3d.C01Search M3d.C02Conj in
/-- **`MarchingCubesConj`: every sample point keeps its side of every returned triangle's plane**, and the returned
closed mesh has positive signed volume from wherever it is measured (`orient=1` of the `mcj` kind demands the second
clause; the plane of ONE triangle at a vertex need not separate the ends of that vertex's lattice edge in 3-D, so the
first clause is not evaluated per lattice point there). -/
theorem conj_lattice_points_keep_their_side (g : Aff3 K) (hd : g.det ≠ 0) (o o' : K × K × K)
    (ts : List ((K × K × K) × (K × K × K) × (K × K × K)))
    (hclosed : ∀ p q, pecnt ts (p, q) = pecnt ts (q, p)) (hout : 0 < vol6 ts) :
    conjMesh g.apply o ts = ts.map (conjTri g) ∧
    (∀ t q, (0 < sideOf3 (conjTri g t) (g.apply q) ↔ 0 < sideOf3 t q) ∧
            (sideOf3 (conjTri g t) (g.apply q) < 0 ↔ sideOf3 t q < 0)) ∧
    0 < vol6At o' (conjMesh g.apply o ts) := by
  refine ⟨conjMesh_eq g hd o ts hclosed hout, fun t q => ?_, conjMesh_vol_pos g hd o o' ts hclosed hout⟩
  rw [sideOf3_conjTri]
  exact pos_iff_of_abs_mul hd

example : ∃ g : C01Search.Aff3 ℚ, g.det < 0 := ⟨⟨-1, 0, 0, 0, 1, 0, 0, 0, 1, 0, 0, 0⟩, by decide +kernel⟩

/-- **The total margin of the coarse-to-fine filter covers one coarse cell.**  `extraSpace + 2·bigDelta·√3`
(`s3` = `math.Sqrt(3)`, of which only `1 ≤ s3` is used) is at least `extraSpace + bigDelta`. -/
theorem c2f_total_covers (s3 big extra : K) (hs : 1 ≤ s3) (hb : 0 ≤ big) :
    extra + big ≤ c2fTotal s3 big extra := by
  unfold c2fTotal
  nlinarith [mul_nonneg hb (sub_nonneg.mpr hs)]

/-- **The filter of `MarchingSquaresC2F` loses nothing the coarse mesh is near.**  `W` = the vertices of
the coarse mesh `MarchingSquaresSearch(s, bigDelta, iters)`; `F r` = `collider.RectCollision(r.Expand(e))`
with `e = c2fTotal …`, of which only "a rectangle whose expansion contains a vertex of the coarse mesh is
reported" is assumed (`hF`).  If every fine lattice point from which a lattice edge with differently
labelled ends starts has a vertex of `W` within `D ≤ e` in the max-norm (`hnear`: nothing is "totally
missed by the coarse mesh", or the caller's `extraSpace` makes up for it), then the block oracle
`b ↦ F(b.Bounds(ε))` is point-sound — so by `ms_filter_same_mesh` & co. the C2F output is the plain fine
mesh, for every schedule of the worker pool. -/
theorem c2f_ms_filter_sound (C : K → K → Bool) (X Y : Nat → K) (hX : ∀ i j, i ≤ j → X i ≤ X j)
    (hY : ∀ i j, i ≤ j → Y i ≤ Y j) (eps : K) (he : 0 ≤ eps) (W : List (K × K)) (e D : K) (hD : D ≤ e)
    (F : Rect2 K → Bool)
    (hF : ∀ r w, w ∈ W → (rectExpand2 r e).Has w.1 w.2 → F r = true)
    (nx ny : Nat)
    (hnear : ∀ i j, i ≤ nx → j ≤ ny →
      ((i + 1 ≤ nx ∧ C (X i) (Y j) ≠ C (X (i + 1)) (Y j)) ∨ (j + 1 ≤ ny ∧ C (X i) (Y j) ≠ C (X i) (Y (j + 1)))) →
      nearVertex2 W D (X i) (Y j) = true)
    (sched : List (List Block2))
    (hs : Schedule2 (blockQueue2 (fun b => F (blockBounds2 X Y eps b)) (rootBlock2 nx ny)) sched) :
    PointSound2 nx ny (fun i j => C (X i) (Y j)) (fun b => F (blockBounds2 X Y eps b)) ∧
    (msFilterMesh msTable (fun i j => C (X i) (Y j)) (fun b => F (blockBounds2 X Y eps b)) sched).Perm
      (msMesh msTable nx ny (fun i j => C (X i) (Y j))) := by
  have h := c2f_point_sound2 C X Y hX hY eps he W e D hD F hF nx ny hnear
  exact ⟨h, ms_filter_same_mesh nx ny _ _ h sched hs⟩

/-- 3-D twin: `MarchingCubesC2F`. -/
theorem c2f_mc_filter_sound (C : K → K → K → Bool) (X Y Z : Nat → K) (hX : ∀ i j, i ≤ j → X i ≤ X j)
    (hY : ∀ i j, i ≤ j → Y i ≤ Y j) (hZ : ∀ i j, i ≤ j → Z i ≤ Z j) (eps : K) (he : 0 ≤ eps)
    (W : List (K × K × K)) (e D : K) (hD : D ≤ e) (F : Rect3 K → Bool)
    (hF : ∀ r w, w ∈ W → (rectExpand3 r e).Has w.1 w.2.1 w.2.2 → F r = true)
    (nx ny nz : Nat)
    (hnear : ∀ i j k, i ≤ nx → j ≤ ny → k ≤ nz →
      ((i + 1 ≤ nx ∧ C (X i) (Y j) (Z k) ≠ C (X (i + 1)) (Y j) (Z k)) ∨
       (j + 1 ≤ ny ∧ C (X i) (Y j) (Z k) ≠ C (X i) (Y (j + 1)) (Z k)) ∨
       (k + 1 ≤ nz ∧ C (X i) (Y j) (Z k) ≠ C (X i) (Y j) (Z (k + 1)))) →
      nearVertex3 W D (X i) (Y j) (Z k) = true)
    (sched : List (List Block))
    (hs : Schedule (blockQueue (fun b => F (blockBounds3 X Y Z eps b)) (rootBlock nx ny nz)) sched) :
    PointSound3 nx ny nz (fun i j k => C (X i) (Y j) (Z k)) (fun b => F (blockBounds3 X Y Z eps b)) ∧
    (mcFilterMesh mcTable (fun i j k => C (X i) (Y j) (Z k)) (fun b => F (blockBounds3 X Y Z eps b)) sched).Perm
      (mcMesh mcTable nx ny nz (fun i j k => C (X i) (Y j) (Z k))) := by
  have h := c2f_point_sound3 C X Y Z hX hY hZ eps he W e D hD F hF nx ny nz hnear
  exact ⟨h, mc_filter_same_mesh nx ny nz _ _ h sched hs⟩

/-- non-vacuity of the C2F hypotheses: a lattice with one sign change next to a coarse vertex. -/
example : nearVertex2 [((1 : ℚ), (1 / 2 : ℚ))] 1 (1 / 2) 0 = true ∧ (0 : ℚ) + 1 ≤ c2fTotal (2 : ℚ) 1 0 := by
  constructor
  · decide +kernel
  · exact c2f_total_covers 2 1 0 (by norm_num) (by norm_num)

/-- **A feature inside a coarse cell that the coarse mesh crosses is within one coarse spacing of a
coarse vertex** (the reading of "not totally missed by the coarse mesh" under which `hnear` holds with
`D = bigDelta` and no `extraSpace`): if the four corners of coarse cell `(a, b)` are not all labelled
alike, the coarse marching-squares mesh has a vertex on one of the four edges of that cell — and the
search refinement keeps it on that edge (`bisect_result_between`), i.e. inside the closed cell, whose
extent is `bigDelta` on every axis. -/
theorem c2f_mixed_coarse_cell_has_vertex (nx ny : Nat) (hnx : 0 < nx) (hny : 0 < ny) (lab : Nat → Nat → Bool)
    (a b : Nat) (ha : a < nx) (hb : b < ny)
    (hmix : ¬ (lab a b = lab (a + 1) b ∧ lab a b = lab a (b + 1) ∧ lab a b = lab (a + 1) (b + 1))) :
    ∃ p k, k < 2 ∧ edgeVertex2 p k ∈ meshVerts2 (msMesh msTable nx ny lab) ∧
      a ≤ p.1 ∧ b ≤ p.2 ∧ (step2 p k).1 ≤ a + 1 ∧ (step2 p k).2 ≤ b + 1 := by
  have mk : ∀ (p : Nat × Nat) (k : Nat), k < 2 → inBox2 nx ny p → inBox2 nx ny (step2 p k) →
      lab p.1 p.2 ≠ lab (step2 p k).1 (step2 p k).2 →
      edgeVertex2 p k ∈ meshVerts2 (msMesh msTable nx ny lab) :=
    fun p k hk hp hq hne => (ms_vertex_iff_sign_change nx ny hnx hny lab p k hk hp hq).2 hne
  by_cases h1 : lab a b = lab (a + 1) b
  · by_cases h2 : lab a b = lab a (b + 1)
    · -- the two lower/left edges agree, so the far corner differs: the top edge changes sign
      have h3 : lab a (b + 1) ≠ lab (a + 1) (b + 1) := fun h => hmix ⟨h1, h2, h2.trans h⟩
      refine ⟨(a, b + 1), 0, by omega, mk (a, b + 1) 0 (by omega) ?_ ?_ ?_, ?_⟩
      · simp only [inBox2]; omega
      · simp only [inBox2, step2, unit]; simp; omega
      · simpa [step2, unit] using h3
      · simp [step2, unit]
    · refine ⟨(a, b), 1, by omega, mk (a, b) 1 (by omega) ?_ ?_ ?_, ?_⟩
      · simp only [inBox2]; omega
      · simp only [inBox2, step2, unit]; simp; omega
      · simpa [step2, unit] using h2
      · simp [step2, unit]
  · refine ⟨(a, b), 0, by omega, mk (a, b) 0 (by omega) ?_ ?_ ?_, ?_⟩
    · simp only [inBox2]; omega
    · simp only [inBox2, step2, unit]; simp; omega
    · simpa [step2, unit] using h1
    · simp [step2, unit]

/-- 3-D twin: a coarse cube whose eight corners are not all labelled alike has a coarse marching-cubes
vertex on one of its twelve edges. -/
theorem c2f_mixed_coarse_cube_has_vertex (nx ny nz : Nat) (hnx : 0 < nx) (hny : 0 < ny) (hnz : 0 < nz)
    (lab : Nat → Nat → Nat → Bool) (a b c : Nat) (ha : a < nx) (hb : b < ny) (hc : c < nz)
    (hmix : ¬ (∀ i j k, i ≤ 1 → j ≤ 1 → k ≤ 1 → lab (a + i) (b + j) (c + k) = lab a b c)) :
    ∃ p k, k < 3 ∧ edgeVertex p k ∈ meshVerts (mcMesh mcTable nx ny nz lab) ∧
      a ≤ p.1 ∧ b ≤ p.2.1 ∧ c ≤ p.2.2 ∧
      (step3 p k).1 ≤ a + 1 ∧ (step3 p k).2.1 ≤ b + 1 ∧ (step3 p k).2.2 ≤ c + 1 := by
  -- an edge of the cube, given by its lower end `(a+i, b+j, c+l)` and its axis, whose ends differ
  have mk : ∀ (i j l k : Nat), k < 3 → i + unit k 0 ≤ 1 → j + unit k 1 ≤ 1 → l + unit k 2 ≤ 1 →
      lab (a + i) (b + j) (c + l) ≠ lab (a + i + unit k 0) (b + j + unit k 1) (c + l + unit k 2) →
      ∃ p k, k < 3 ∧ edgeVertex p k ∈ meshVerts (mcMesh mcTable nx ny nz lab) ∧
        a ≤ p.1 ∧ b ≤ p.2.1 ∧ c ≤ p.2.2 ∧
        (step3 p k).1 ≤ a + 1 ∧ (step3 p k).2.1 ≤ b + 1 ∧ (step3 p k).2.2 ≤ c + 1 := by
    intro i j l k hk h0 h1 h2 hne
    refine ⟨(a + i, b + j, c + l), k, hk, ?_, ?_⟩
    · refine (mc_vertex_iff_sign_change nx ny nz hnx hny hnz lab (a + i, b + j, c + l) k hk ?_ ?_).2 ?_
      · simp only [inBox3]; omega
      · simp only [inBox3, step3]; omega
      · simpa [step3] using hne
    · simp only [step3]; omega
  by_contra hno
  apply hmix
  have e : ∀ (i j l k : Nat), k < 3 → i + unit k 0 ≤ 1 → j + unit k 1 ≤ 1 → l + unit k 2 ≤ 1 →
      lab (a + i) (b + j) (c + l) = lab (a + i + unit k 0) (b + j + unit k 1) (c + l + unit k 2) := by
    intro i j l k hk h0 h1 h2
    by_contra hne
    exact hno (mk i j l k hk h0 h1 h2 hne)
  have ex : ∀ j l, j ≤ 1 → l ≤ 1 → lab a (b + j) (c + l) = lab (a + 1) (b + j) (c + l) := by
    intro j l hj hl
    have := e 0 j l 0 (by omega) (by simp [unit]) (by simpa [unit] using hj) (by simpa [unit] using hl)
    simpa [unit] using this
  have ey : ∀ l, l ≤ 1 → lab a b (c + l) = lab a (b + 1) (c + l) := by
    intro l hl
    have := e 0 0 l 1 (by omega) (by simp [unit]) (by simp [unit]) (by simpa [unit] using hl)
    simpa [unit] using this
  have ez : lab a b c = lab a b (c + 1) := by
    have := e 0 0 0 2 (by omega) (by simp [unit]) (by simp [unit]) (by simp [unit])
    simpa [unit] using this
  intro i j k hi hj hk
  have sx : lab (a + i) (b + j) (c + k) = lab a (b + j) (c + k) := by
    have hi' : i = 0 ∨ i = 1 := by omega
    rcases hi' with rfl | rfl
    · rfl
    · exact (ex j k hj hk).symm
  have sy : lab a (b + j) (c + k) = lab a b (c + k) := by
    have hj' : j = 0 ∨ j = 1 := by omega
    rcases hj' with rfl | rfl
    · rfl
    · exact (ey k hk).symm
  have sz : lab a b (c + k) = lab a b c := by
    have hk' : k = 0 ∨ k = 1 := by omega
    rcases hk' with rfl | rfl
    · rfl
    · exact ez.symm
  rw [sx, sy, sz]

/-- **The convenience wrappers pass `clip` (and `repair`, `delta`) on.**  `DualContour(s, δ, repair, clip)`
and `DualContourInterior(s, δ, repair, clip)` build the literal `DualContouring{S, Delta: δ, Repair: repair,
Clip: clip}` (model `dualContourOptions` / `dualContourInteriorOptions`, tied by the `dc`/`dcr` kinds run
through the wrappers): with `clip = true` the clipping theorems (`dc_clip_in_cell`, `dc_quad_crossed_once`,
`dc_quad_meets_only_own_edge`) apply to what they return. -/
theorem dc_wrappers_pass_clip (delta : K) (repair clip : Bool) :
    (dualContourOptions delta repair clip).clip = clip ∧ (dualContourInteriorOptions delta repair clip).clip = clip ∧
    (dualContourOptions delta repair clip).repair = repair ∧ (dualContourInteriorOptions delta repair clip).repair = repair ∧
    (dualContourOptions delta repair clip).delta = delta ∧ (dualContourInteriorOptions delta repair clip).delta = delta ∧
    (dualContourOptions delta repair clip).wantInterior = false ∧
    (dualContourInteriorOptions delta repair clip).wantInterior = true :=
  ⟨rfl, rfl, rfl, rfl, rfl, rfl, rfl, rfl⟩

end M3d.C02
