import M3d.Model.Marching
/-! Kernel-decided chunk 0/16 of the 65 536 pixel windows of `Bitmap.Mesh` (windows 0…4095). -/
namespace M3d.C01
open M3d.Marching

theorem bitmap_windows_00 : windowsOk 0 4096 = true := by decide +kernel

end M3d.C01
