import M3d.Model.Marching
/-! Kernel-decided chunk 12/16 of the 65 536 pixel windows of `Bitmap.Mesh` (windows 49152…53247). -/
namespace M3d.C01
open M3d.Marching

theorem bitmap_windows_12 : windowsOk 49152 4096 = true := by decide +kernel

end M3d.C01
