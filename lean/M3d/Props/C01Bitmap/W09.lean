import M3d.Model.Marching
/-! Kernel-decided chunk 9/16 of the 65 536 pixel windows of `Bitmap.Mesh` (windows 36864…40959). -/
namespace M3d.C01
open M3d.Marching

theorem bitmap_windows_09 : windowsOk 36864 4096 = true := by decide +kernel

end M3d.C01
