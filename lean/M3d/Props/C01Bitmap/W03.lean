import M3d.Model.Marching
/-! Kernel-decided chunk 3/16 of the 65 536 pixel windows of `Bitmap.Mesh` (windows 12288…16383). -/
namespace M3d.C01
open M3d.Marching

theorem bitmap_windows_03 : windowsOk 12288 4096 = true := by decide +kernel

end M3d.C01
