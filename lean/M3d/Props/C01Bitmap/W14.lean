import M3d.Model.Marching
/-! Kernel-decided chunk 14/16 of the 65 536 pixel windows of `Bitmap.Mesh` (windows 57344…61439). -/
namespace M3d.C01
open M3d.Marching

theorem bitmap_windows_14 : windowsOk 57344 4096 = true := by decide +kernel

end M3d.C01
