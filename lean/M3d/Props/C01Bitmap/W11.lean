import M3d.Model.Marching
/-! Kernel-decided chunk 11/16 of the 65 536 pixel windows of `Bitmap.Mesh` (windows 45056…49151). -/
namespace M3d.C01
open M3d.Marching

theorem bitmap_windows_11 : windowsOk 45056 4096 = true := by decide +kernel

end M3d.C01
