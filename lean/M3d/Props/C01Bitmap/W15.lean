import M3d.Model.Marching
/-! Kernel-decided chunk 15/16 of the 65 536 pixel windows of `Bitmap.Mesh` (windows 61440…65535). -/
namespace M3d.C01
open M3d.Marching

theorem bitmap_windows_15 : windowsOk 61440 4096 = true := by decide +kernel

end M3d.C01
