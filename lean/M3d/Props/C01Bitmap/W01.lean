import M3d.Model.Marching
/-! Kernel-decided chunk 1/16 of the 65 536 pixel windows of `Bitmap.Mesh` (windows 4096…8191). -/
namespace M3d.C01
open M3d.Marching

theorem bitmap_windows_01 : windowsOk 4096 4096 = true := by decide +kernel

end M3d.C01
