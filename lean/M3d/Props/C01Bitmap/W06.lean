import M3d.Model.Marching
/-! Kernel-decided chunk 6/16 of the 65 536 pixel windows of `Bitmap.Mesh` (windows 24576…28671). -/
namespace M3d.C01
open M3d.Marching

theorem bitmap_windows_06 : windowsOk 24576 4096 = true := by decide +kernel

end M3d.C01
