import M3d.Model.Marching
/-! Kernel-decided chunk 8/16 of the 65 536 pixel windows of `Bitmap.Mesh` (windows 32768…36863). -/
namespace M3d.C01
open M3d.Marching

theorem bitmap_windows_08 : windowsOk 32768 4096 = true := by decide +kernel

end M3d.C01
