import M3d.Model.Marching
/-! Kernel-decided chunk 4/16 of the 65 536 pixel windows of `Bitmap.Mesh` (windows 16384…20479). -/
namespace M3d.C01
open M3d.Marching

theorem bitmap_windows_04 : windowsOk 16384 4096 = true := by decide +kernel

end M3d.C01
