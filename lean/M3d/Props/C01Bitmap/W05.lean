import M3d.Model.Marching
/-! Kernel-decided chunk 5/16 of the 65 536 pixel windows of `Bitmap.Mesh` (windows 20480…24575). -/
namespace M3d.C01
open M3d.Marching

theorem bitmap_windows_05 : windowsOk 20480 4096 = true := by decide +kernel

end M3d.C01
