import M3d.Model.Marching
/-! Kernel-decided chunk 13/16 of the 65 536 pixel windows of `Bitmap.Mesh` (windows 53248…57343). -/
namespace M3d.C01
open M3d.Marching

theorem bitmap_windows_13 : windowsOk 53248 4096 = true := by decide +kernel

end M3d.C01
