import M3d.Model.Marching
/-! Kernel-decided chunk 2/16 of the 65 536 pixel windows of `Bitmap.Mesh` (windows 8192…12287). -/
namespace M3d.C01
open M3d.Marching

theorem bitmap_windows_02 : windowsOk 8192 4096 = true := by decide +kernel

end M3d.C01
