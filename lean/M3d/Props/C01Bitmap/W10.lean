import M3d.Model.Marching
/-! Kernel-decided chunk 10/16 of the 65 536 pixel windows of `Bitmap.Mesh` (windows 40960…45055). -/
namespace M3d.C01
open M3d.Marching

theorem bitmap_windows_10 : windowsOk 40960 4096 = true := by decide +kernel

end M3d.C01
