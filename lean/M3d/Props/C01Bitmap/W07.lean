import M3d.Model.Marching
/-! Kernel-decided chunk 7/16 of the 65 536 pixel windows of `Bitmap.Mesh` (windows 28672…32767). -/
namespace M3d.C01
open M3d.Marching

theorem bitmap_windows_07 : windowsOk 28672 4096 = true := by decide +kernel

end M3d.C01
