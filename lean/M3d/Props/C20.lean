import M3d.Lemmas.Render
/-!
# C20 — a rendered pixel is the mean of its samples of the right scene

Property theorems only.  Models: `M3d/Model/Render.lean` (generic over the scalar; here proved for
every linearly ordered field `K`, in particular ℚ — the instance the exact-mode correspondence
runs — and ℝ).  Helper lemmas and specification predicates: `M3d/Lemmas/Render.lean`.
-/
set_option linter.unusedSectionVars false
set_option linter.unusedSimpArgs false
namespace M3d.C20
open M3d.Render Finset

variable {K : Type} [Field K] [LinearOrder K] [IsStrictOrderedRing K] {σ : Type}

/-! ## The sampling loop shared by `RecursiveRayTracer` and `BidirPathTracer` -/

/-- **A pixel is the arithmetic mean of the samples actually drawn for it.**
`rayRenderer.estimateColor` (ray_renderer.go, after the C20 repair), for *every* radiance stream
`draw` (any generator state type; antialias jitter is part of `draw`), every `NumSamples ≥ 1`, every
`MinSamples`, with or without a convergence check and for every convergence oracle `conv` (an
arbitrary function of the running count, sum and sum of squares — `MaxStddev`,
`OversaturatedStddevs` and custom `Convergence` functions are instances, see `codeConv`):
the reported `numSamples` is `n` with `1 ≤ n ≤ NumSamples`, exactly `n` samples were consumed from
the stream (the generator is left in the state after `n` draws) and the returned colour is
`(Σ of those n samples) / n` in every channel — equivalently `meanOf` of them, the value the
correspondence compares the real code with. -/
theorem pixel_is_mean (S : Sampler) (hN : 1 ≤ S.numSamples) (conv : Nat → V3 K → V3 K → Bool)
    (draw : σ → V3 K × σ) (g : σ) :
    let res := estimateColor (Nat.cast : Nat → K) S conv draw g
    let n := res.2.1
    let drawn := (drawN draw n g).1
    1 ≤ n ∧ n ≤ S.numSamples ∧ drawn.length = n ∧ res.2.2 = (drawN draw n g).2 ∧
      res.1 = meanOf Nat.cast drawn ∧
      res.1 = ⟨(drawn.map (·.x)).sum / n, (drawn.map (·.y)).sum / n, (drawn.map (·.z)).sum / n⟩ := by
  intro res n drawn
  obtain ⟨k, hk, hk1, hn, _, hg, hs⟩ := estLoop_spec S conv draw S.numSamples 0 V3.zero V3.zero g
  have hnk : n = k := by simp only [n, res, estimateColor]; omega
  have hlen : drawn.length = n := drawN_length draw n g
  have hsum : res.1 = (sumList drawn).scale (1 / (n : K)) := by
    simp only [res, estimateColor, drawn, n] at *
    rw [hs, sumList]
    congr 2
    · congr 2; omega
  refine ⟨by omega, by omega, hlen, ?_, ?_, ?_⟩
  · simp only [res, estimateColor, n] at *
    rw [hg]; congr 2; omega
  · rw [hsum, meanOf, hlen]
  · rw [hsum, sumList_eq]
    ext <;> simp [V3.scale, V3.sumX, div_eq_mul_inv]

/-- Non-vacuity / concrete instance: the stream 1, 2, 3, 4, … with a convergence test that says
yes at the third sample gives (1+2+3)/3 = 2 and reports 3 samples. -/
example :
    let draw : Nat → V3 Rat × Nat := fun i => (⟨(i : Rat) + 1, 0, 0⟩, i + 1)
    estimateColor (fun n => (n : Rat)) ⟨8, 2, true⟩ (fun n _ _ => n == 3) draw 0 = (⟨2, 0, 0⟩, 3, 3) := by
  decide +kernel

/-- **Record of defect F11 (fixed in /repo by the C20 `fix:` commit).**  The loop as it was before
the repair (`estimateColorOld`) does *not* return the mean: a constant radiance of 1 with
`NumSamples = 8`, `MinSamples = 2` and a convergence test that says yes when first asked draws three
samples but returns colour 3/2 and reports two samples. -/
theorem old_estimateColor_not_mean :
    let draw : Nat → V3 Rat × Nat := fun i => (⟨1, 1, 1⟩, i + 1)
    estimateColorOld (fun n => (n : Rat)) ⟨8, 2, true⟩ (fun _ _ _ => true) draw 0
      = (⟨3/2, 3/2, 3/2⟩, 2, 3) := by
  decide +kernel

/-- Early stopping happens only when it is allowed to: if fewer than `NumSamples` samples were
drawn then a convergence check is configured, at least `max MinSamples 2` samples were drawn, and
the convergence oracle said yes on exactly the statistics of the samples drawn. -/
theorem early_stop_only_when_converged (S : Sampler) (conv : Nat → V3 K → V3 K → Bool)
    (draw : σ → V3 K × σ) (g : σ) :
    let res := estimateColor (Nat.cast : Nat → K) S conv draw g
    let n := res.2.1
    let drawn := (drawN draw n g).1
    n < S.numSamples →
      S.hasCheck = true ∧ S.minSamples ≤ n ∧ 2 ≤ n ∧
        conv n (sumList drawn) (sumList (drawn.map fun s => s.mul s)) = true := by
  intro res n drawn hlt
  exact estLoop_early S conv draw g hlt

/-- **`estimateVariance` computes the unbiased sample variance.**  For every stream and every
`numSamples ≥ 2` each channel of the result is `Σ (xᵢ − mean)² / (n − 1)` over the `n` samples drawn
(`sampleVariance`); in particular the clamp at zero never changes the value. -/
theorem variance_unbiased_form (draw : σ → V3 K × σ) (n : Nat) (hn : 2 ≤ n) (g : σ) :
    let xs := (drawN draw n g).1
    estimateVariance (Nat.cast : Nat → K) draw n g =
      ⟨sampleVariance (xs.map (·.x)), sampleVariance (xs.map (·.y)), sampleVariance (xs.map (·.z))⟩ := by
  intro xs
  have hlen : xs.length = n := drawN_length draw n g
  have hx := variance_channel (xs.map (·.x)) (by simpa [hlen] using hn)
  have hy := variance_channel (xs.map (·.y)) (by simpa [hlen] using hn)
  have hz := variance_channel (xs.map (·.z)) (by simpa [hlen] using hn)
  have nx := sampleVariance_nonneg (xs.map (·.x)) (by simpa [hlen] using hn)
  have ny := sampleVariance_nonneg (xs.map (·.y)) (by simpa [hlen] using hn)
  have nz := sampleVariance_nonneg (xs.map (·.z)) (by simpa [hlen] using hn)
  simp only [List.length_map, hlen, List.map_map] at hx hy hz
  unfold estimateVariance
  simp only [sumList_eq]
  ext
  · simp only [V3.clamp0, V3.scale, V3.sub, V3.mul, V3.sumX, List.map_map]
    rw [← hx] at nx ⊢
    exact clamp_of_nonneg _ nx
  · simp only [V3.clamp0, V3.scale, V3.sub, V3.mul, V3.sumX, List.map_map]
    rw [← hy] at ny ⊢
    exact clamp_of_nonneg _ ny
  · simp only [V3.clamp0, V3.scale, V3.sub, V3.mul, V3.sumX, List.map_map]
    rw [← hz] at nz ⊢
    exact clamp_of_nonneg _ nz

example : estimateVariance (fun n => (n : Rat)) (fun i : Nat => (⟨(i : Rat), 1, 2 * i⟩, i + 1)) 4 0
    = ⟨5/3, 0, 20/3⟩ := by decide +kernel

/-! ## `mapCoordinates`: every pixel exactly once, whatever the number of workers and the interleaving -/

/-- The channel filled by `mapCoordinates(width, height, ·)` holds, in order, `(i mod w, i div w, i)`
for `i = 0, …, w·h − 1`: the index handed to `f` is the row-major index `x + y·w` that
`Image.At/Set` use, each exactly once. -/
theorem coords_row_major (w h : Nat) :
    coords w h = (List.range (w * h)).map fun i => (i % w, i / w, i) :=
  coords_eq w h

/-- **Every pixel is delivered exactly once.**  For every worker count `W ≥ 1` and every assignment
`sched` of channel entries to workers (every interleaving of the receive loops), the number of times
the entry of pixel index `i < w·h` is handed to `f`, summed over all workers, is exactly one; and
nothing else is delivered (the workers' logs together contain exactly the channel's entries). -/
theorem each_pixel_once (w h W : Nat) (sched : Nat → Nat) (hs : ∀ k, sched k < W) :
    (∀ i, i < w * h →
      ∑ wk ∈ range W, (workerLog sched (coords w h) wk).count (i % w, i / w, i) = 1) ∧
    (∀ e, ∑ wk ∈ range W, (workerLog sched (coords w h) wk).count e = (coords w h).count e) := by
  have hall : ∀ e, ∑ wk ∈ range W, (workerLog sched (coords w h) wk).count e = (coords w h).count e := by
    intro e
    have := partition_count W (dispatch sched (coords w h))
      (by intro e he; simp only [dispatch, List.mem_map] at he; obtain ⟨a, _, rfl⟩ := he; exact hs _) e
    rw [dispatch_map_snd] at this
    exact this
  refine ⟨?_, hall⟩
  intro i hi
  rw [hall, coords_eq]
  have hinj : Function.Injective fun i : Nat => (i % w, i / w, i) := by
    intro a b hab; simpa using congrArg (fun t => t.2.2) hab
  rw [List.count_map_of_injective _ _ hinj]
  exact List.count_eq_one_of_mem (List.nodup_range) (List.mem_range.mpr hi)

example : (workerLog (fun k => k % 3) (coords 2 2) 0, workerLog (fun k => k % 3) (coords 2 2) 1,
    workerLog (fun k => k % 3) (coords 2 2) 2) = ([(0,0,0), (1,1,3)], [(1,0,1)], [(0,1,2)]) := by decide

/-- Consequently the image written by `Render` does not depend on the schedule: pixel `i` holds the
colour computed for `(i mod w, i div w)`. -/
theorem image_independent_of_schedule {C : Type} (dflt : C) (w h : Nat) (sched : Nat → Nat)
    (pixel : Nat → Nat → C) :
    renderImage dflt w h sched pixel = (List.range (w * h)).map fun i => pixel (i % w) (i / w) :=
  renderImage_eq dflt w h sched pixel

/-! ## Camera -/

/-- **Un-projection inverts projection.**  For every camera whose screen axes are not parallel, every
image size `w, h > 0` (any aspect ratio), every field of view (`pd = 1/tan(fov/2) ≠ 0`), every image
coordinate `(ix, iy)` and every point `origin + t·Caster(ix, iy)` with `t > 0` on the ray through that
image coordinate, `Uncaster` (the adjugate/determinant inverse of `[x y z]`, then the perspective
division) returns `(ix, iy)`.  `sqrt` only needs to be non-zero on positive numbers. -/
theorem uncast_cast_id (sqrt : K → K) (c : Camera K) (w h ix iy t : K) (hw : 0 < w) (hh : 0 < h)
    (hpd : c.pd ≠ 0) (hind : c.screenX.cross c.screenY ≠ V3.zero)
    (hsqrt : ∀ v : K, 0 < v → sqrt v ≠ 0) (ht : 0 < t) :
    c.uncaster sqrt w h (c.origin.add ((c.caster sqrt w h ix iy).scale t)) = (ix, iy) :=
  uncast_cast sqrt c w h ix iy t hw hh hpd hind hsqrt ht

/-- Non-vacuity: the hypotheses hold for an axis-aligned camera (exact square root on the one value
used) and the round trip is the identity there. -/
example :
    let c : Camera Rat := ⟨⟨1, 2, 3⟩, ⟨1, 0, 0⟩, ⟨0, 1, 0⟩, 3/2⟩
    c.uncaster (fun _ => 1) 7 3 (c.origin.add ((c.caster (fun _ => 1) 7 3 (5/2) (1/4)).scale 9))
      = (5/2, 1/4) := by decide +kernel

/-- `Matrix3.Inverse` (adjugate times `1/Det`) is a two-sided inverse whenever the determinant is
non-zero — the fact `Uncaster` and `MatrixMultiply` rely on. -/
theorem matrix_inverse_correct (m : M3 K) (hd : m.det ≠ 0) (u : V3 K) :
    m.inverse.mulColumn (m.mulColumn u) = u ∧ m.mulColumn (m.inverse.mulColumn u) = u :=
  ⟨inverse_mulColumn m hd u, mulColumn_inverse m hd u⟩

/-- **An auto-framing camera contains the object.**  `DirectionalCamera` (helpers.go, after the C20
repair) bisects the camera distance with the containment test evaluated for cameras of the *same*
field of view as the one it returns; so if the farthest candidate (`maxDist = 10⁴·baseline`) sees
the whole bounding box inside the margins, the returned camera does too: every corner of the box
un-projects (with the returned camera's own `Uncaster(1,1)`) into `[margin, 1 − margin)²`. -/
theorem directional_camera_contains {F : Type} (uncastAt : F → K → V3 K → K × K) (margin : K)
    (corners : List (V3 K)) (fov : F) (minDist maxDist : K)
    (h0 : containedBy (uncastAt fov maxDist) margin corners = true) :
    let cam := dirCamera uncastAt margin corners fov minDist maxDist
    cam.2 = fov ∧ ∀ p ∈ corners,
      margin ≤ (uncastAt cam.2 cam.1 p).1 ∧ (uncastAt cam.2 cam.1 p).1 < 1 - margin ∧
      margin ≤ (uncastAt cam.2 cam.1 p).2 ∧ (uncastAt cam.2 cam.1 p).2 < 1 - margin := by
  intro cam
  refine ⟨rfl, ?_⟩
  have h := dirSearch_ok (fun d => containedBy (uncastAt fov d) margin corners) 32 minDist maxDist h0
  intro p hp
  have hp' := (List.all_eq_true.mp h) p hp
  simp only [Bool.not_eq_true', Bool.or_eq_false_iff, decide_eq_false_iff_not, not_lt, not_le] at hp'
  exact ⟨hp'.1.1.1, hp'.1.2, hp'.1.1.2, hp'.2⟩

/-- **The bisection of `DirectionalCamera`, step by step** (any containment test `ok`, any number of
steps, any initial bracket `lo ≤ hi`): the returned distance stays in the bracket; it is either a
distance at which the test succeeded or the untouched initial `hi`; and it is tight — there is a
distance `l`, either the initial `lo` or one at which the test *failed*, with
`result − l = (hi − lo)/2ⁿ` (for the code: `10⁴·baseline/2³²`). -/
theorem directional_search_invariant (ok : K → Bool) (n : Nat) (lo hi : K) (h : lo ≤ hi) :
    lo ≤ dirSearch ok n lo hi ∧ dirSearch ok n lo hi ≤ hi ∧
      (ok (dirSearch ok n lo hi) = true ∨ dirSearch ok n lo hi = hi) ∧
      ∃ l, (l = lo ∨ ok l = false) ∧ l ≤ dirSearch ok n lo hi ∧
        dirSearch ok n lo hi - l = (hi - lo) / 2 ^ n :=
  dirSearch_invariant ok n lo hi h

/-- **The complete `DirectionalCamera` (model `directionalCamera`: `NewCameraAt`, `Uncaster(1,1)`,
the eight corners, 32 bisection steps — the function the `dircamf` correspondence runs bit-for-bit
against the real code) returns a camera that contains the box**, for every box, direction, field of
view, `sqrt`, provided only that the bisection did not end on its untouched initial upper end
without that one containing the box (equivalently: some evaluated candidate, or the farthest one,
contains it). -/
theorem directional_camera_full_contains (sqrt : K → K) (tiny pd margin loF hiF : K)
    (mn mx direction : V3 K) :
    let cam := directionalCamera sqrt tiny pd margin loF hiF mn mx direction
    let diff := mn.sub mx
    let baseline := sqrt (diff.x * diff.x + diff.y * diff.y + diff.z * diff.z)
    let center := (mn.add mx).scale (1 / 2)
    let ok := fun d => containedBy (candidateUncast sqrt tiny pd center direction d) margin (boxCorners mn mx)
    (ok (baseline * hiF) = true ∨ dirSearch ok 32 (baseline * loF) (baseline * hiF) ≠ baseline * hiF) →
    baseline * loF ≤ baseline * hiF →
      ∀ p ∈ boxCorners mn mx,
        margin ≤ (cam.uncaster sqrt 1 1 p).1 ∧ (cam.uncaster sqrt 1 1 p).1 < 1 - margin ∧
        margin ≤ (cam.uncaster sqrt 1 1 p).2 ∧ (cam.uncaster sqrt 1 1 p).2 < 1 - margin := by
  intro cam diff baseline center ok hhyp hle p hp
  obtain ⟨_, _, hres, _⟩ := dirSearch_invariant ok 32 (baseline * loF) (baseline * hiF) hle
  have hok : ok (dirSearch ok 32 (baseline * loF) (baseline * hiF)) = true := by
    rcases hres with h | h
    · exact h
    · rcases hhyp with h' | h'
      · rw [h]; exact h'
      · exact absurd h h'
  have hp' := (List.all_eq_true.mp hok) p hp
  simp only [Bool.not_eq_true', Bool.or_eq_false_iff, decide_eq_false_iff_not, not_lt, not_le] at hp'
  exact ⟨hp'.1.1.1, hp'.1.2, hp'.1.1.2, hp'.2⟩

/-- **Record of the second defect found (fixed by the C20 `fix:` commit in helpers.go).**  The old
`DirectionalCamera` searched with `helperFieldOfView` but returned a camera with the caller's `fov`:
for a pinhole looking at the square `[-1,1]²` from distance `d` (half-width of the view `f·d`), a
caller asking for `f = 1/4` got the distance that is right for `f = 1`, and the corner `(1,1)`
projects to `41/16 > 1` — far outside the image. -/
theorem old_directional_camera_misses :
    let uncastAt : Rat → Rat → V3 Rat → Rat × Rat :=
      fun f d p => (1/2 + p.x / (2 * f * d), 1/2 + p.y / (2 * f * d))
    let corners : List (V3 Rat) := [⟨-1, -1, 0⟩, ⟨1, -1, 0⟩, ⟨-1, 1, 0⟩, ⟨1, 1, 0⟩]
    let cam := dirCameraOld uncastAt (1/20) corners 1 (1/4) (1/1000) 10000
    containedBy (uncastAt 1 10000) (1/20) corners = true ∧
      containedBy (uncastAt cam.2 cam.1) (1/20) corners = false ∧
      1 < (uncastAt cam.2 cam.1 ⟨1, 1, 0⟩).1 := by
  decide +kernel

/-! ## Composite objects -/

/-- **`JoinedObject.Cast` reports the nearest hit among its parts**: a miss iff every part misses,
otherwise a collision that one of the parts reported and whose ray parameter is ≤ that of every
collision any part reports (`Nearest`). -/
theorem joined_cast_is_nearest (parts : List (Cast K)) (r : Ray K) :
    Nearest parts r (joinedCast parts r) :=
  joinedCast_nearest parts r

/-- **The bounds prefilter of `FilteredObject` is sound**: if the bounds collider is hit by every ray
that hits the wrapped object, `FilteredObject.Cast` is the wrapped object's `Cast`. -/
theorem filtered_cast_sound (bounds : Ray K → Bool) (o : Cast K) (r : Ray K)
    (hb : bounds r = true ∨ o r = none) : filteredCast bounds o r = o r := by
  unfold filteredCast
  rcases hb with hb | hb
  · simp [hb]
  · split <;> simp [hb]

/-- **`BVHToObject(b).Cast` reports the nearest hit among all leaves of the hierarchy**, for every
tree shape, provided each branch's bounding collider is hit by every ray that hits a leaf below it. -/
theorem bvh_cast_is_nearest (t : BVH K) (r : Ray K) (hs : t.SoundAt r) :
    Nearest t.leaves r (t.cast r) :=
  BVH.cast_nearest r t hs

/-- Non-vacuity: three leaves in a two-level hierarchy with always-true bounds; the nearest one wins. -/
example :
    let leaf (s : Rat) (m : Nat) : BVH Rat := .leaf fun _ => some ⟨s, ⟨0, 0, 1⟩, m⟩
    let t : BVH Rat := .branch (fun _ => true) [leaf 5 0, .branch (fun _ => true) [leaf 2 1, leaf 3 2]]
    (t.cast ⟨⟨0, 0, 0⟩, ⟨0, 0, 1⟩⟩).map (·.mat) = some 1 := by
  decide +kernel

/-! ## Transformed objects -/

/-- **`Translate(obj, off)` is hit exactly where the translated original is.**  `Cast` traces the ray
with origin moved by `−off` (same direction), so for any surface `S` that `obj` casts correctly
(first hit, parameter ≥ 0, `CastsSurface`), the wrapper casts correctly the surface moved by `off`:
same ray parameter, hit point = inner hit point + `off`, same normal. -/
theorem translated_cast_conj (off : V3 K) (o : Cast K) :
    (∀ r : Ray K, translatedCast off o r = o ⟨r.origin.sub off, r.dir⟩) ∧
    (∀ (r : Ray K) (t : K), (r.at t) = ((⟨r.origin.sub off, r.dir⟩ : Ray K).at t).add off) ∧
    (∀ S, CastsSurface o S → CastsSurface (translatedCast off o) (fun p n => S (p.sub off) n)) := by
  refine ⟨fun r => rfl, ?_, fun S hS => translated_casts off o S hS⟩
  intro r t
  ext <;> simp [Ray.at, V3.sub, V3.add, V3.scale] <;> ring

/-- **`MatrixMultiply(obj, m)` (hence `Rotate`, `Scale`, and any invertible matrix: anisotropic
scales, shears) is hit exactly where the transformed original is.**  With `det m ≠ 0` and the
inverse `MatrixMultiply` stores: the inner ray is the pre-image of the outer ray, the ray parameter is
unchanged, the outer hit point is `m ·` inner hit point, and for any surface `S` that `obj` casts
correctly the wrapper casts correctly the image of `S` under `m`, reporting the normalised
inverse-transpose image `m⁻ᵀ n` of the inner normal (after the round-2 repair). -/
theorem matrix_cast_conj (sqrt : K → K) (m : M3 K) (hd : m.det ≠ 0) (o : Cast K) :
    (∀ (r : Ray K) (t : K), r.at t = m.mulColumn ((⟨m.inverse.mulColumn r.origin, m.inverse.mulColumn r.dir⟩ : Ray K).at t)) ∧
    (∀ S, CastsSurface o S →
      CastsSurface (matrixCast sqrt m m.inverse o)
        (fun p n' => ∃ q n, S q n ∧ p = m.mulColumn q ∧
          n' = (m.inverse.transpose.mulColumn n).normalize sqrt)) := by
  constructor
  · intro r t
    rw [mulColumn_at, mulColumn_inverse m hd]
  · intro S hS
    have h := matrix_casts sqrt m m.inverse o S hS
    refine ⟨?_, ?_, ?_⟩
    · intro r hh e
      obtain ⟨h0, n, hn, he⟩ := h.sound r hh e
      exact ⟨h0, _, n, hn, (mulColumn_inverse m hd _).symm, he⟩
    · intro r hh e t n' ht ⟨q, n, hq, hp, hn'⟩
      apply h.first r hh e t n' ht
      exact ⟨n, by rw [hp, inverse_mulColumn m hd]; exact hq, hn'⟩
    · intro r e t n' ht ⟨q, n, hq, hp, hn'⟩
      apply h.complete r e t n' ht
      exact ⟨n, by rw [hp, inverse_mulColumn m hd]; exact hq, hn'⟩

/-- **The reported normal is the normal of the transformed surface, for every invertible matrix.**
`m⁻ᵀ n` pairs with the image `m v` of any vector exactly as `n` pairs with `v`: it is perpendicular
to the images of the tangent vectors (`n·v = 0`) and lies on the same side as the image of any
vector on `n`'s side; after normalisation it has unit length (square root exact on non-negatives). -/
theorem matrix_normal_inverse_transpose (sqrt : K → K) (hsq : ∀ v : K, 0 ≤ v → sqrt v * sqrt v = v)
    (m : M3 K) (hd : m.det ≠ 0) (n : V3 K) (hn : n ≠ V3.zero) :
    (∀ v, (m.inverse.transpose.mulColumn n).dot (m.mulColumn v) = n.dot v) ∧
      ((m.inverse.transpose.mulColumn n).normalize sqrt).dot
        ((m.inverse.transpose.mulColumn n).normalize sqrt) = 1 := by
  refine ⟨inverse_transpose_normal m hd n, normalize_unit sqrt hsq _ ?_⟩
  intro h0
  have h1 := inverse_transpose_normal m hd n n
  rw [h0] at h1
  have hp := dot_self_pos n hn
  simp only [V3.dot, V3.zero, zero_mul, add_zero] at h1 hp
  linarith

/-- For rotations composed with uniform scalings (`mᵀm = s²·I`; what `Rotate` and `Scale` build) the
vector `m·n` the code used before the repair is `s²` times the inverse-transpose normal, i.e. the
same direction: those objects are unaffected by the repair. -/
theorem matrix_normal_conformal (m : M3 K) (hd : m.det ≠ 0) (s2 : K)
    (hc : m.transpose.mulM m = (M3.one : M3 K).scaleAll s2) (n : V3 K) :
    m.mulColumn n = (m.inverse.transpose.mulColumn n).scale s2 := by
  -- both sides pair identically with every image vector `m v`, and `m` is onto
  have key : ∀ w, (m.mulColumn n).dot w = ((m.inverse.transpose.mulColumn n).scale s2).dot w := by
    intro w
    have hw : w = m.mulColumn (m.inverse.mulColumn w) := (mulColumn_inverse m hd w).symm
    rw [hw, conformal_normal m s2 hc]
    have := inverse_transpose_normal m hd n (m.inverse.mulColumn w)
    simp only [V3.dot, V3.scale] at this ⊢
    linear_combination (-s2) * this
  have hx := key ⟨1, 0, 0⟩
  have hy := key ⟨0, 1, 0⟩
  have hz := key ⟨0, 0, 1⟩
  simp only [V3.dot, mul_one, mul_zero, add_zero, zero_add] at hx hy hz
  ext
  · exact hx
  · exact hy
  · exact hz

/-- **Record of the third defect (fixed in transform.go).**  The old code mapped normals with `m`
itself: for the anisotropic scale `diag(2,1,1)`, the normal `(1,1,0)` and the tangent `(1,−1,0)` of a
surface, the reported normal `m·n = (2,1,0)` is not perpendicular to the image tangent `(2,−1,0)`
(dot product 3), whereas the repaired code's `m⁻ᵀ n = (1/2,1,0)` is. -/
theorem old_matrix_normal_not_perpendicular :
    let m : M3 Rat := ⟨2, 0, 0, 0, 1, 0, 0, 0, 1⟩
    let n : V3 Rat := ⟨1, 1, 0⟩
    let v : V3 Rat := ⟨1, -1, 0⟩
    n.dot v = 0 ∧ (m.mulColumn n).dot (m.mulColumn v) = 3 ∧
      (m.inverse.transpose.mulColumn n).dot (m.mulColumn v) = 0 := by
  decide +kernel

/-- Non-vacuity of the conformality hypothesis: a quarter turn about z scaled by 2. -/
example : (⟨0, -2, 0, 2, 0, 0, 0, 0, 2⟩ : M3 Rat).transpose.mulM ⟨0, -2, 0, 2, 0, 0, 0, 0, 2⟩
    = (M3.one : M3 Rat).scaleAll 4 := by decide +kernel

/-! ## Scenes with radiance known in closed form -/

/-- A stream whose every sample is `E` renders to `E`, whatever the sampler settings. -/
theorem constant_stream_mean (S : Sampler) (hN : 1 ≤ S.numSamples) (conv : Nat → V3 K → V3 K → Bool)
    (draw : σ → V3 K × σ) (g : σ) (E : V3 K) (hE : ∀ g, (draw g).1 = E) :
    (estimateColor (Nat.cast : Nat → K) S conv draw g).1 = E := by
  obtain ⟨h1, _, hlen, _, _, hm⟩ := pixel_is_mean S hN conv draw g
  rw [hm]
  have hall : ∀ n g, ∀ s ∈ (drawN draw n g).1, s = E := by
    intro n
    induction n with
    | zero => intro g s hs; simp [drawN] at hs
    | succ n ih =>
      intro g s hs
      rw [drawN_succ] at hs
      simp only [List.mem_cons] at hs
      rcases hs with rfl | hs
      · exact hE g
      · exact ih _ s hs
  have hsum : ∀ (f : V3 K → K) (l : List (V3 K)), (∀ s ∈ l, s = E) → (l.map f).sum = l.length * f E := by
    intro f l
    induction l with
    | nil => simp
    | cons a l ih =>
      intro h
      simp only [List.map_cons, List.sum_cons, List.length_cons]
      rw [ih (fun s hs => h s (by simp [hs])), h a (by simp)]
      push_cast; ring
  set n := (estimateColor (Nat.cast : Nat → K) S conv draw g).2.1 with hn
  have hn0 : (n : K) ≠ 0 := by
    have : (1 : K) ≤ (n : K) := by exact_mod_cast h1
    intro h0; rw [h0] at this; linarith
  ext <;> simp only [hsum _ _ (hall n g), hlen] <;> field_simp

/-- **A closed scene of a uniform emitter renders to the emission.**  If every ray hits a surface whose
material emits `E`, has no ambient term and a zero BSDF (and `Cutoff ≤ 1`, no point lights), then
every sample `RecursiveRayTracer.recurse` returns is exactly `E`, for every recursion depth, generator
state and ray — so by `pixel_is_mean` the pixel is `E` for all sampler settings, with or without
antialias jitter (`jitter` picks the ray from the generator); `RayCaster` writes `E` as well. -/
theorem uniform_emitter_radiance (scene : Ray K → Option (Hit K × Mat K σ)) (sqrt abs : K → K)
    (cutoff eps : K) (hcut : cutoff ≤ 1) (E : V3 K)
    (hclosed : ∀ r, ∃ c m, scene r = some (c, m) ∧ m.emission = E ∧ m.ambient = V3.zero ∧
      ∀ n s d, m.bsdf n s d = V3.zero)
    (maxDepth : Nat) (jitter : σ → Ray K × σ) (uniform : σ → K × σ) (focus : List (FocusPt K σ))
    (S : Sampler) (hN : 1 ≤ S.numSamples) (conv : Nat → V3 K → V3 K → Bool) (g : σ) :
    let draw : σ → V3 K × σ := fun g =>
      recurse scene sqrt abs cutoff eps [] uniform focus maxDepth true (jitter g).2 (jitter g).1 ⟨1, 1, 1⟩
    (∀ g, (draw g).1 = E) ∧
      (estimateColor (Nat.cast : Nat → K) S conv draw g).1 = E ∧
      ∀ ray, rayCasterPixel scene sqrt [] ray = E := by
  intro draw
  have h1 : ∀ g, (draw g).1 = E := by
    intro g
    apply recurse_uniform_emitter scene sqrt abs cutoff eps uniform focus E hclosed
    have : ((1 : K) + 1 + 1) / 3 = 1 := by norm_num
    rw [this]; exact not_lt.mpr hcut
  refine ⟨h1, constant_stream_mean S hN conv draw g E h1, ?_⟩
  intro ray
  obtain ⟨c, m, hs, hE, hA, _⟩ := hclosed ray
  simp only [rayCasterPixel, hs, hE, hA]
  ext <;> simp [V3.add, V3.zero]

/-- **A single lit matte surface renders to its closed form.**  If the primary ray hits a surface
whose BSDF is a constant `ρ` (a matte, Lambert-like surface), `MaxDepth = 0`, `Cutoff ≤ 1`, and no
point light is shadowed at the hit point, then every sample of the `RecursiveRayTracer` equals the
`RayCaster` pixel, which is `ambient + emission + Σ_l ShadeCollision_l(normal, l − p)·ρ` with
`ShadeCollision = colour(·/dist²) · ¼·max(0, n·l̂)`; hence (by `constant_stream_mean`) the
ray-traced pixel is that value for all sampler settings. -/
theorem lit_matte_surface_radiance (scene : Ray K → Option (Hit K × Mat K σ)) (sqrt abs : K → K)
    (cutoff eps : K) (hcut : cutoff ≤ 1) (lights : List (PointLight K)) (ray : Ray K)
    (c : Hit K) (m : Mat K σ) (hs : scene ray = some (c, m)) (rho : V3 K)
    (hm : ∀ n s d, m.bsdf n s d = rho)
    (hshadow : ∀ l ∈ lights,
      let point := ray.origin.add (ray.dir.scale c.scale)
      let ld := l.origin.sub point
      match scene ⟨point.add ((ld.normalize sqrt).scale eps), ld⟩ with
      | some (sc, _) => ¬ sc.scale < 1
      | none => True)
    (uniform : σ → K × σ) (focus : List (FocusPt K σ))
    (S : Sampler) (hN : 1 ≤ S.numSamples) (conv : Nat → V3 K → V3 K → Bool) (g : σ) :
    let closed := lights.foldl (fun col l =>
      col.add ((l.shade sqrt c.normal (l.origin.sub (ray.origin.add (ray.dir.scale c.scale)))).mul rho))
      (m.ambient.add m.emission)
    rayCasterPixel scene sqrt lights ray = closed ∧
      (estimateColor (Nat.cast : Nat → K) S conv
        (fun g => recurse scene sqrt abs cutoff eps lights uniform focus 0 true g ray ⟨1, 1, 1⟩) g).1 = closed := by
  intro closed
  have hrc : rayCasterPixel scene sqrt lights ray = closed := by
    simp only [rayCasterPixel, hs, hm, closed]
  refine ⟨hrc, ?_⟩
  apply constant_stream_mean S hN conv _ g closed
  intro g'
  rw [← hrc]
  exact recurse_lit_matte scene sqrt abs cutoff eps hcut lights uniform focus ray g' c m hs rho hm hshadow

/-- Non-vacuity: a floor `z = 0` seen from `(0,0,2)` looking straight down, one white light at
`(0,0,1)` above the hit point, `ρ = (1/2, 1/2, 1/2)`: ambient 1/8 + ¼·1·½ = 1/4 in every channel. -/
example :
    let m : Mat Rat Nat := ⟨⟨0, 0, 0⟩, ⟨1/8, 1/8, 1/8⟩, fun _ _ _ => ⟨1/2, 1/2, 1/2⟩, fun g n _ => (n, g), fun _ _ _ => 1⟩
    let ray : Ray Rat := ⟨⟨0, 0, 2⟩, ⟨0, 0, -1⟩⟩
    let scene : Ray Rat → Option (Hit Rat × Mat Rat Nat) := fun r => if r = ray then some (⟨2, ⟨0, 0, 1⟩, 0⟩, m) else none
    rayCasterPixel scene (fun _ => 1) [⟨⟨0, 0, 1⟩, ⟨1, 1, 1⟩, false⟩] ray = ⟨1/4, 1/4, 1/4⟩ := by
  decide +kernel

/-! ## One bounce: matte surface lit by an emitter reached through `FocusPoints` -/

/-- **Closed form of a ray-traced sample for a single lit matte surface at `MaxDepth ≥ 1`.**  The
primary ray hits a surface `m`; `sampleNextSource` (material sampler or a focus point aimed at the
light, chosen by `FocusPointProbs`) yields the direction `src`; the bounce ray hits an emitter `m2`
with zero BSDF (an area light); no point lights; `Cutoff ≤ 1` and the bounce not cut off.  Then for
every `MaxDepth = fuel + 1 ≥ 1` the sample is
`emission + ambient + L₂ · BSDF(n, src, dest) · |src·n| / sourceDensity(src)`:
the light's emission times the BSDF times the cosine, divided by the density of the *mixture* the
direction was drawn from. -/
theorem one_bounce_closed_form (scene : Ray K → Option (Hit K × Mat K σ)) (sqrt abs : K → K)
    (cutoff eps : K) (uniform : σ → K × σ) (focus : List (FocusPt K σ))
    (fuel : Nat) (g : σ) (ray : Ray K) (c : Hit K) (m : Mat K σ) (hs : scene ray = some (c, m))
    (hcut : cutoff ≤ 1) (c2 : Hit K) (m2 : Mat K σ) (hB2 : ∀ n s d, m2.bsdf n s d = V3.zero) :
    let point := ray.origin.add (ray.dir.scale c.scale)
    let dest := (ray.dir.normalize sqrt).scale (-1)
    let src := (sampleNextSource uniform focus m g point c.normal dest).1
    let w := 1 / sourceDensity focus m point c.normal src dest * abs (src.dot c.normal)
    let mask := (m.bsdf c.normal src dest).scale w
    let dir := src.scale (-1)
    let next : Ray K := ⟨point.add ((dir.normalize sqrt).scale eps), dir⟩
    scene next = some (c2, m2) →
    ¬ (mask.x + mask.y + mask.z) / 3 < cutoff →
    (recurse scene sqrt abs cutoff eps [] uniform focus (fuel + 1) true g ray ⟨1, 1, 1⟩).1
      = (m.emission.add m.ambient).add (m2.emission.mul mask) :=
  recurse_one_bounce scene sqrt abs cutoff eps uniform focus fuel g ray c m hs hcut c2 m2 hB2

/-- **`sampleNextSource` picks focus point `i` exactly when the uniform draw falls in the `i`-th
interval of the cumulative `FocusPointProbs`** (`Σ_{j<i} prob_j ≤ p < Σ_{j≤i} prob_j`, an interval of
length `prob_i`), and falls back to the material's own sampler exactly when `p ≥ Σ prob`. -/
theorem focus_selection_intervals (p : K) (hp : 0 ≤ p) (fs : List (FocusPt K σ)) :
    match pickFocus p fs with
    | some f => ∃ i, ∃ hi : i < fs.length, fs[i] = f ∧
        ((fs.take i).map (·.prob)).sum ≤ p ∧ p < ((fs.take (i + 1)).map (·.prob)).sum
    | none => (fs.map (·.prob)).sum ≤ p :=
  pickFocus_spec p hp fs

/-- **`sourceDensity` is the density of that mixture**: `Σ probᵢ·FocusDensityᵢ + (1 − Σ probᵢ)·SourceDensity`. -/
theorem source_density_is_mixture (focus : List (FocusPt K σ)) (m : Mat K σ) (point normal source dest : V3 K) :
    sourceDensity focus m point normal source dest =
      (focus.map fun f => f.prob * f.density m point normal source dest).sum
        + (1 - (focus.map (·.prob)).sum) * m.density normal source dest :=
  sourceDensity_eq_mixture focus m point normal source dest

/-- **Dividing by the mixture density makes the bounce estimator unbiased** (exact expectation over
any finite set of directions): drawing from proposal `s` with probability `p s` (and from the
material's proposal `qm` otherwise) and weighting `f(ω)` by `1/mix(ω)` has expectation `Σ_ω f(ω)`,
whenever the mixture density is non-zero on the directions considered. -/
theorem mixture_importance_sampling_unbiased {Ω β : Type} (outcomes : List Ω) (S : List β) (p : β → K)
    (q : β → Ω → K) (qm : Ω → K) (f : Ω → K)
    (hmix : ∀ ω ∈ outcomes, (S.map fun s => p s * q s ω).sum + (1 - (S.map p).sum) * qm ω ≠ 0) :
    let mix := fun ω => (S.map fun s => p s * q s ω).sum + (1 - (S.map p).sum) * qm ω
    (S.map fun s => p s * (outcomes.map fun ω => q s ω * (f ω / mix ω)).sum).sum
      + (1 - (S.map p).sum) * (outcomes.map fun ω => qm ω * (f ω / mix ω)).sum
      = (outcomes.map f).sum :=
  mixture_unbiased outcomes S p q qm f hmix

/-! ## Bidirectional path tracer: multiple-importance weights and Russian roulette -/

/-- **The balance-heuristic weights `rayColor` applies sum to one, and weighting is exactly what the
code computes.**  For a path whose sampling strategies have densities `ds` (the list `Densities`
reports; `Σ ds ≠ 0`): the weights `w_s = d_s / Σ ds` sum to 1, and the contribution the code adds,
`intensity · (1/Σ ds)` (`misColor`), equals `w_s · (intensity / d_s)` for every strategy `s` with
`d_s ≠ 0` — the importance-sampled value `intensity/d_s` times its weight. -/
theorem mis_weights_sum_to_one (ds : List K) (hsum : ds.sum ≠ 0) (intensity : V3 K) :
    (ds.map fun d => d / ds.sum).sum = 1 ∧
      ∀ d ∈ ds, d ≠ 0 → misColor intensity ds = (intensity.scale (1 / d)).scale (d / ds.sum) := by
  constructor
  · rw [sum_map_div]; field_simp
  · intro d _ hd
    unfold misColor
    rw [foldl_add_eq_sum, zero_add]
    ext <;> simp only [V3.scale] <;> field_simp

/-- **The weighted multi-strategy estimator is unbiased** (exact expectation over any finite set of
paths): if strategy `s` produces path `x` with density `q s x` and every produced path contributes
`f x / Σ_t q t x`, the total expectation is `Σ_x f x`, provided some strategy can produce each path. -/
theorem mis_estimator_unbiased {Ω β : Type} (paths : List Ω) (S : List β) (q : β → Ω → K) (f : Ω → K)
    (hpos : ∀ x ∈ paths, (S.map fun s => q s x).sum ≠ 0) :
    (S.map fun s => (paths.map fun x => q s x * (f x / (S.map fun t => q t x).sum)).sum).sum
      = (paths.map f).sum := by
  have h := mixture_unbiased paths S (fun _ => (1 : K)) q (fun _ => 0) f
    (by intro x hx; simpa using hpos x hx)
  simpa using h

/-- **Russian roulette is unbiased**: continuing with probability `p ≠ 0` and multiplying the
surviving value by `1/p` (what `bptPathEnder.End` does to `currentRoulette`, and `rayColor` to a
connection kept with probability `keepProb`) has the exact two-point expectation
`p · (v · 1/p) + (1 − p) · 0 = v`. -/
theorem roulette_unbiased (p v : K) (hp : p ≠ 0) : p * (v * (1 / p)) + (1 - p) * 0 = v := by
  field_simp; ring

/-- **`bptPathEnder.End` implements exactly that** (with `MinLength = 0`): the path mask is
accumulated; while its mean is `≥ Cutoff` nothing random happens; below it the path survives iff the
uniform draw is `≤ keepProb = mean/Cutoff`, and survival multiplies `RouletteScale` by `1/keepProb`. -/
theorem path_ender_cutoff_roulette (cutoff : K) (uniform : σ → K × σ) (pe : PathEnder K) (g : σ) (i : Nat)
    (mask : V3 K) :
    let full := pe.fullMask.mul mask
    let mean := (full.x + full.y + full.z) / 3
    let keep := mean / cutoff
    PathEnder.step 0 cutoff uniform pe g i mask =
      if mean < cutoff then
        (if keep < (uniform g).1 then (true, { pe with fullMask := full }, (uniform g).2)
         else (false, { pe with fullMask := full, current := pe.current * (1 / keep) }, (uniform g).2))
      else (false, { pe with fullMask := full }, g) :=
  pathEnder_step_cutoff cutoff uniform pe g i mask

/-! ## `Image` accessors -/

/-- `Image.Set(x, y, c)` changes exactly pixel `(x, y)`: afterwards `At(x', y')` is `c` there and the
old value everywhere else (coordinates inside the bounds checks). -/
theorem image_set_at {C : Type} (z : C) (i : Img C) (x y x' y' : Nat) (c : C)
    (hx : x < i.width) (hy : y < i.height) (hx' : x' < i.width) (hwf : i.data.length = i.width * i.height) :
    (i.set x y c).at z x' y' = if x' = x ∧ y' = y then c else i.at z x' y' := by
  apply set_at z i x y x' y' c hx hx'
  rw [hwf]
  calc x + y * i.width < i.width + y * i.width := by omega
    _ = i.width * (y + 1) := by ring
    _ ≤ i.width * i.height := Nat.mul_le_mul_left _ hy

/-- **`Image.CopyFrom(i1, x, y)` writes every pixel of the overlap exactly as specified and nothing
else**: pixel `(a, b)` of the result is `i1`'s pixel `(a−x, b−y)` if `(a, b)` lies in the
`min(i1.Width, Width−x) × min(i1.Height, Height−y)` window at `(x, y)`, and the old pixel otherwise. -/
theorem image_copy_from_spec {C : Type} (z : C) (i i1 : Img C) (x y a b : Nat)
    (hwf : i.data.length = i.width * i.height) (hwf1 : i1.data.length = i1.width * i1.height)
    (hx : x ≤ i.width) (hy : y ≤ i.height) (ha : a < i.width) (hb : b < i.height) :
    (i.copyFrom i1 x y).at z a b =
      if x ≤ a ∧ a < x + min i1.width (i.width - x) ∧ y ≤ b ∧ b < y + min i1.height (i.height - y)
      then i1.at z (a - x) (b - y) else i.at z a b := by
  have h := copyFrom_rows z i.width i.height x y (min i1.width (i.width - x)) i1.width i1.data i.data hwf
    (by omega) (Nat.min_le_left _ _) (min i1.height (i.height - y)) (by omega)
    (by rw [hwf1]; exact Nat.mul_le_mul_left _ (Nat.min_le_left _ _))
  exact h.2 a b ha hb

/-- **`Image.Downsample(factor)` is the block mean**: output pixel `(j, i1)` is the arithmetic mean
(`meanOf`: sum in loop order times `1/factor²`) of the `factor × factor` block of source pixels
`(j·factor + l, i1·factor + k)`, and each output pixel is produced exactly once in row-major order. -/
theorem downsample_is_block_mean (i : Img (V3 K)) (f j i1 : Nat)
    (hj : j < i.width / f) (hi : i1 < i.height / f) :
    (i.downsample (Nat.cast : Nat → K) f).at V3.zero j i1 = meanOf Nat.cast (blockPixels i f i1 j) ∧
      (blockPixels i f i1 j).length = f * f ∧
      (i.downsample (Nat.cast : Nat → K) f).data.length = (i.width / f) * (i.height / f) := by
  refine ⟨downsample_at _ i f j i1 hj hi, blockPixels_length i f i1 j, ?_⟩
  simp [Img.downsample, flatMap_rows]

example : ((⟨[⟨1,0,0⟩, ⟨2,0,0⟩, ⟨3,0,0⟩, ⟨4,0,0⟩, ⟨5,0,0⟩, ⟨6,0,0⟩, ⟨7,0,0⟩, ⟨8,0,0⟩], 4, 2⟩ : Img (V3 Rat)).downsample
    (fun n => (n : Rat)) 2).data = [⟨7/2, 0, 0⟩, ⟨11/2, 0, 0⟩] := by decide +kernel

end M3d.C20
