import M3d.Lemmas.Render
/-!
# C20 — a rendered pixel is the mean of its samples of the right scene

Property theorems only.  Models: `M3d/Model/Render.lean` (generic over the scalar; here proved for
every linearly ordered field `K`, in particular ℚ — the instance the exact-mode correspondence
runs — and ℝ).  Helper lemmas and specification predicates: `M3d/Lemmas/Render.lean`.
-/
set_option linter.unusedSectionVars false
set_option linter.unusedSimpArgs false
namespace M3d.C20
open M3d.Render Finset

variable {K : Type} [Field K] [LinearOrder K] [IsStrictOrderedRing K] {σ : Type}

/-! ## The sampling loop shared by `RecursiveRayTracer` and `BidirPathTracer` -/

/-- **A pixel is the arithmetic mean of the samples actually drawn for it.**
`rayRenderer.estimateColor` (ray_renderer.go, after the C20 repair), for *every* radiance stream
`draw` (any generator state type; antialias jitter is part of `draw`), every `NumSamples ≥ 1`, every
`MinSamples`, with or without a convergence check and for every convergence oracle `conv` (an
arbitrary function of the running count, sum and sum of squares — `MaxStddev`,
`OversaturatedStddevs` and custom `Convergence` functions are instances, see `codeConv`):
the reported `numSamples` is `n` with `1 ≤ n ≤ NumSamples`, exactly `n` samples were consumed from
the stream (the generator is left in the state after `n` draws) and the returned colour is
`(Σ of those n samples) / n` in every channel — equivalently `meanOf` of them, the value the
correspondence compares the real code with. -/
theorem pixel_is_mean (S : Sampler) (hN : 1 ≤ S.numSamples) (conv : Nat → V3 K → V3 K → Bool)
    (draw : σ → V3 K × σ) (g : σ) :
    let res := estimateColor (Nat.cast : Nat → K) S conv draw g
    let n := res.2.1
    let drawn := (drawN draw n g).1
    1 ≤ n ∧ n ≤ S.numSamples ∧ drawn.length = n ∧ res.2.2 = (drawN draw n g).2 ∧
      res.1 = meanOf Nat.cast drawn ∧
      res.1 = ⟨(drawn.map (·.x)).sum / n, (drawn.map (·.y)).sum / n, (drawn.map (·.z)).sum / n⟩ := by
  intro res n drawn
  obtain ⟨k, hk, hk1, hn, _, hg, hs⟩ := estLoop_spec S conv draw S.numSamples 0 V3.zero V3.zero g
  have hnk : n = k := by simp only [n, res, estimateColor]; omega
  have hlen : drawn.length = n := drawN_length draw n g
  have hsum : res.1 = (sumList drawn).scale (1 / (n : K)) := by
    simp only [res, estimateColor, drawn, n] at *
    rw [hs, sumList]
    congr 2
    · congr 2; omega
  refine ⟨by omega, by omega, hlen, ?_, ?_, ?_⟩
  · simp only [res, estimateColor, n] at *
    rw [hg]; congr 2; omega
  · rw [hsum, meanOf, hlen]
  · rw [hsum, sumList_eq]
    ext <;> simp [V3.scale, V3.sumX, div_eq_mul_inv]

/-- Non-vacuity / concrete instance: the stream 1, 2, 3, 4, … with a convergence test that says
yes at the third sample gives (1+2+3)/3 = 2 and reports 3 samples. -/
example :
    let draw : Nat → V3 Rat × Nat := fun i => (⟨(i : Rat) + 1, 0, 0⟩, i + 1)
    estimateColor (fun n => (n : Rat)) ⟨8, 2, true⟩ (fun n _ _ => n == 3) draw 0 = (⟨2, 0, 0⟩, 3, 3) := by
  decide +kernel

/-- **Record of defect F11 (fixed in /repo by the C20 `fix:` commit).**  The loop as it was before
the repair (`estimateColorOld`) does *not* return the mean: a constant radiance of 1 with
`NumSamples = 8`, `MinSamples = 2` and a convergence test that says yes when first asked draws three
samples but returns colour 3/2 and reports two samples. -/
theorem old_estimateColor_not_mean :
    let draw : Nat → V3 Rat × Nat := fun i => (⟨1, 1, 1⟩, i + 1)
    estimateColorOld (fun n => (n : Rat)) ⟨8, 2, true⟩ (fun _ _ _ => true) draw 0
      = (⟨3/2, 3/2, 3/2⟩, 2, 3) := by
  decide +kernel

/-- Early stopping happens only when it is allowed to: if fewer than `NumSamples` samples were
drawn then a convergence check is configured, at least `max MinSamples 2` samples were drawn, and
the convergence oracle said yes on exactly the statistics of the samples drawn. -/
theorem early_stop_only_when_converged (S : Sampler) (conv : Nat → V3 K → V3 K → Bool)
    (draw : σ → V3 K × σ) (g : σ) :
    let res := estimateColor (Nat.cast : Nat → K) S conv draw g
    let n := res.2.1
    let drawn := (drawN draw n g).1
    n < S.numSamples →
      S.hasCheck = true ∧ S.minSamples ≤ n ∧ 2 ≤ n ∧
        conv n (sumList drawn) (sumList (drawn.map fun s => s.mul s)) = true := by
  intro res n drawn hlt
  exact estLoop_early S conv draw g hlt

/-- **`estimateVariance` computes the unbiased sample variance.**  For every stream and every
`numSamples ≥ 2` each channel of the result is `Σ (xᵢ − mean)² / (n − 1)` over the `n` samples drawn
(`sampleVariance`); in particular the clamp at zero never changes the value. -/
theorem variance_unbiased_form (draw : σ → V3 K × σ) (n : Nat) (hn : 2 ≤ n) (g : σ) :
    let xs := (drawN draw n g).1
    estimateVariance (Nat.cast : Nat → K) draw n g =
      ⟨sampleVariance (xs.map (·.x)), sampleVariance (xs.map (·.y)), sampleVariance (xs.map (·.z))⟩ := by
  intro xs
  have hlen : xs.length = n := drawN_length draw n g
  have hx := variance_channel (xs.map (·.x)) (by simpa [hlen] using hn)
  have hy := variance_channel (xs.map (·.y)) (by simpa [hlen] using hn)
  have hz := variance_channel (xs.map (·.z)) (by simpa [hlen] using hn)
  have nx := sampleVariance_nonneg (xs.map (·.x)) (by simpa [hlen] using hn)
  have ny := sampleVariance_nonneg (xs.map (·.y)) (by simpa [hlen] using hn)
  have nz := sampleVariance_nonneg (xs.map (·.z)) (by simpa [hlen] using hn)
  simp only [List.length_map, hlen, List.map_map] at hx hy hz
  unfold estimateVariance
  simp only [sumList_eq]
  ext
  · simp only [V3.clamp0, V3.scale, V3.sub, V3.mul, V3.sumX, List.map_map]
    rw [← hx] at nx ⊢
    exact clamp_of_nonneg _ nx
  · simp only [V3.clamp0, V3.scale, V3.sub, V3.mul, V3.sumX, List.map_map]
    rw [← hy] at ny ⊢
    exact clamp_of_nonneg _ ny
  · simp only [V3.clamp0, V3.scale, V3.sub, V3.mul, V3.sumX, List.map_map]
    rw [← hz] at nz ⊢
    exact clamp_of_nonneg _ nz

example : estimateVariance (fun n => (n : Rat)) (fun i : Nat => (⟨(i : Rat), 1, 2 * i⟩, i + 1)) 4 0
    = ⟨5/3, 0, 20/3⟩ := by decide +kernel

/-! ## `mapCoordinates`: every pixel exactly once, whatever the number of workers and the interleaving -/

/-- The channel filled by `mapCoordinates(width, height, ·)` holds, in order, `(i mod w, i div w, i)`
for `i = 0, …, w·h − 1`: the index handed to `f` is the row-major index `x + y·w` that
`Image.At/Set` use, each exactly once. -/
theorem coords_row_major (w h : Nat) :
    coords w h = (List.range (w * h)).map fun i => (i % w, i / w, i) :=
  coords_eq w h

/-- **Every pixel is delivered exactly once.**  For every worker count `W ≥ 1` and every assignment
`sched` of channel entries to workers (every interleaving of the receive loops), the number of times
the entry of pixel index `i < w·h` is handed to `f`, summed over all workers, is exactly one; and
nothing else is delivered (the workers' logs together contain exactly the channel's entries). -/
theorem each_pixel_once (w h W : Nat) (sched : Nat → Nat) (hs : ∀ k, sched k < W) :
    (∀ i, i < w * h →
      ∑ wk ∈ range W, (workerLog sched (coords w h) wk).count (i % w, i / w, i) = 1) ∧
    (∀ e, ∑ wk ∈ range W, (workerLog sched (coords w h) wk).count e = (coords w h).count e) := by
  have hall : ∀ e, ∑ wk ∈ range W, (workerLog sched (coords w h) wk).count e = (coords w h).count e := by
    intro e
    have := partition_count W (dispatch sched (coords w h))
      (by intro e he; simp only [dispatch, List.mem_map] at he; obtain ⟨a, _, rfl⟩ := he; exact hs _) e
    rw [dispatch_map_snd] at this
    exact this
  refine ⟨?_, hall⟩
  intro i hi
  rw [hall, coords_eq]
  have hinj : Function.Injective fun i : Nat => (i % w, i / w, i) := by
    intro a b hab; simpa using congrArg (fun t => t.2.2) hab
  rw [List.count_map_of_injective _ _ hinj]
  exact List.count_eq_one_of_mem (List.nodup_range) (List.mem_range.mpr hi)

example : (workerLog (fun k => k % 3) (coords 2 2) 0, workerLog (fun k => k % 3) (coords 2 2) 1,
    workerLog (fun k => k % 3) (coords 2 2) 2) = ([(0,0,0), (1,1,3)], [(1,0,1)], [(0,1,2)]) := by decide

/-- Consequently the image written by `Render` does not depend on the schedule: pixel `i` holds the
colour computed for `(i mod w, i div w)`. -/
theorem image_independent_of_schedule {C : Type} (dflt : C) (w h : Nat) (sched : Nat → Nat)
    (pixel : Nat → Nat → C) :
    renderImage dflt w h sched pixel = (List.range (w * h)).map fun i => pixel (i % w) (i / w) :=
  renderImage_eq dflt w h sched pixel

/-! ## Camera -/

/-- **Un-projection inverts projection.**  For every camera whose screen axes are not parallel, every
image size `w, h > 0` (any aspect ratio), every field of view (`pd = 1/tan(fov/2) ≠ 0`), every image
coordinate `(ix, iy)` and every point `origin + t·Caster(ix, iy)` with `t > 0` on the ray through that
image coordinate, `Uncaster` (the adjugate/determinant inverse of `[x y z]`, then the perspective
division) returns `(ix, iy)`.  `sqrt` only needs to be non-zero on positive numbers. -/
theorem uncast_cast_id (sqrt : K → K) (c : Camera K) (w h ix iy t : K) (hw : 0 < w) (hh : 0 < h)
    (hpd : c.pd ≠ 0) (hind : c.screenX.cross c.screenY ≠ V3.zero)
    (hsqrt : ∀ v : K, 0 < v → sqrt v ≠ 0) (ht : 0 < t) :
    c.uncaster sqrt w h (c.origin.add ((c.caster sqrt w h ix iy).scale t)) = (ix, iy) :=
  uncast_cast sqrt c w h ix iy t hw hh hpd hind hsqrt ht

/-- Non-vacuity: the hypotheses hold for an axis-aligned camera (exact square root on the one value
used) and the round trip is the identity there. -/
example :
    let c : Camera Rat := ⟨⟨1, 2, 3⟩, ⟨1, 0, 0⟩, ⟨0, 1, 0⟩, 3/2⟩
    c.uncaster (fun _ => 1) 7 3 (c.origin.add ((c.caster (fun _ => 1) 7 3 (5/2) (1/4)).scale 9))
      = (5/2, 1/4) := by decide +kernel

/-- `Matrix3.Inverse` (adjugate times `1/Det`) is a two-sided inverse whenever the determinant is
non-zero — the fact `Uncaster` and `MatrixMultiply` rely on. -/
theorem matrix_inverse_correct (m : M3 K) (hd : m.det ≠ 0) (u : V3 K) :
    m.inverse.mulColumn (m.mulColumn u) = u ∧ m.mulColumn (m.inverse.mulColumn u) = u :=
  ⟨inverse_mulColumn m hd u, mulColumn_inverse m hd u⟩

/-- **An auto-framing camera contains the object.**  `DirectionalCamera` (helpers.go, after the C20
repair) bisects the camera distance with the containment test evaluated for cameras of the *same*
field of view as the one it returns; so if the farthest candidate (`maxDist = 10⁴·baseline`) sees
the whole bounding box inside the margins, the returned camera does too: every corner of the box
un-projects (with the returned camera's own `Uncaster(1,1)`) into `[margin, 1 − margin)²`. -/
theorem directional_camera_contains {F : Type} (uncastAt : F → K → V3 K → K × K) (margin : K)
    (corners : List (V3 K)) (fov : F) (minDist maxDist : K)
    (h0 : containedBy (uncastAt fov maxDist) margin corners = true) :
    let cam := dirCamera uncastAt margin corners fov minDist maxDist
    cam.2 = fov ∧ ∀ p ∈ corners,
      margin ≤ (uncastAt cam.2 cam.1 p).1 ∧ (uncastAt cam.2 cam.1 p).1 < 1 - margin ∧
      margin ≤ (uncastAt cam.2 cam.1 p).2 ∧ (uncastAt cam.2 cam.1 p).2 < 1 - margin := by
  intro cam
  refine ⟨rfl, ?_⟩
  have h := dirSearch_ok (fun d => containedBy (uncastAt fov d) margin corners) 32 minDist maxDist h0
  intro p hp
  have hp' := (List.all_eq_true.mp h) p hp
  simp only [Bool.not_eq_true', Bool.or_eq_false_iff, decide_eq_false_iff_not, not_lt, not_le] at hp'
  exact ⟨hp'.1.1.1, hp'.1.2, hp'.1.1.2, hp'.2⟩

/-- **Record of the second defect found (fixed by the C20 `fix:` commit in helpers.go).**  The old
`DirectionalCamera` searched with `helperFieldOfView` but returned a camera with the caller's `fov`:
for a pinhole looking at the square `[-1,1]²` from distance `d` (half-width of the view `f·d`), a
caller asking for `f = 1/4` got the distance that is right for `f = 1`, and the corner `(1,1)`
projects to `41/16 > 1` — far outside the image. -/
theorem old_directional_camera_misses :
    let uncastAt : Rat → Rat → V3 Rat → Rat × Rat :=
      fun f d p => (1/2 + p.x / (2 * f * d), 1/2 + p.y / (2 * f * d))
    let corners : List (V3 Rat) := [⟨-1, -1, 0⟩, ⟨1, -1, 0⟩, ⟨-1, 1, 0⟩, ⟨1, 1, 0⟩]
    let cam := dirCameraOld uncastAt (1/20) corners 1 (1/4) (1/1000) 10000
    containedBy (uncastAt 1 10000) (1/20) corners = true ∧
      containedBy (uncastAt cam.2 cam.1) (1/20) corners = false ∧
      1 < (uncastAt cam.2 cam.1 ⟨1, 1, 0⟩).1 := by
  decide +kernel

/-! ## Composite objects -/

/-- **`JoinedObject.Cast` reports the nearest hit among its parts**: a miss iff every part misses,
otherwise a collision that one of the parts reported and whose ray parameter is ≤ that of every
collision any part reports (`Nearest`). -/
theorem joined_cast_is_nearest (parts : List (Cast K)) (r : Ray K) :
    Nearest parts r (joinedCast parts r) :=
  joinedCast_nearest parts r

/-- **The bounds prefilter of `FilteredObject` is sound**: if the bounds collider is hit by every ray
that hits the wrapped object, `FilteredObject.Cast` is the wrapped object's `Cast`. -/
theorem filtered_cast_sound (bounds : Ray K → Bool) (o : Cast K) (r : Ray K)
    (hb : bounds r = true ∨ o r = none) : filteredCast bounds o r = o r := by
  unfold filteredCast
  rcases hb with hb | hb
  · simp [hb]
  · split <;> simp [hb]

/-- **`BVHToObject(b).Cast` reports the nearest hit among all leaves of the hierarchy**, for every
tree shape, provided each branch's bounding collider is hit by every ray that hits a leaf below it. -/
theorem bvh_cast_is_nearest (t : BVH K) (r : Ray K) (hs : t.SoundAt r) :
    Nearest t.leaves r (t.cast r) :=
  BVH.cast_nearest r t hs

/-- Non-vacuity: three leaves in a two-level hierarchy with always-true bounds; the nearest one wins. -/
example :
    let leaf (s : Rat) (m : Nat) : BVH Rat := .leaf fun _ => some ⟨s, ⟨0, 0, 1⟩, m⟩
    let t : BVH Rat := .branch (fun _ => true) [leaf 5 0, .branch (fun _ => true) [leaf 2 1, leaf 3 2]]
    (t.cast ⟨⟨0, 0, 0⟩, ⟨0, 0, 1⟩⟩).map (·.mat) = some 1 := by
  decide +kernel

/-! ## Transformed objects -/

/-- **`Translate(obj, off)` is hit exactly where the translated original is.**  `Cast` traces the ray
with origin moved by `−off` (same direction), so for any surface `S` that `obj` casts correctly
(first hit, parameter ≥ 0, `CastsSurface`), the wrapper casts correctly the surface moved by `off`:
same ray parameter, hit point = inner hit point + `off`, same normal. -/
theorem translated_cast_conj (off : V3 K) (o : Cast K) :
    (∀ r : Ray K, translatedCast off o r = o ⟨r.origin.sub off, r.dir⟩) ∧
    (∀ (r : Ray K) (t : K), (r.at t) = ((⟨r.origin.sub off, r.dir⟩ : Ray K).at t).add off) ∧
    (∀ S, CastsSurface o S → CastsSurface (translatedCast off o) (fun p n => S (p.sub off) n)) := by
  refine ⟨fun r => rfl, ?_, fun S hS => translated_casts off o S hS⟩
  intro r t
  ext <;> simp [Ray.at, V3.sub, V3.add, V3.scale] <;> ring

/-- **`MatrixMultiply(obj, m)` (hence `Rotate`, `Scale`) is hit exactly where the transformed original
is.**  With `det m ≠ 0` and the inverse `MatrixMultiply` stores: the inner ray is the pre-image of
the outer ray, the ray parameter is unchanged, the outer hit point is `m ·` inner hit point, and for
any surface `S` that `obj` casts correctly the wrapper casts correctly the image of `S` under `m`,
reporting the normalised `m · n` as normal. -/
theorem matrix_cast_conj (sqrt : K → K) (m : M3 K) (hd : m.det ≠ 0) (o : Cast K) :
    (∀ (r : Ray K) (t : K), r.at t = m.mulColumn ((⟨m.inverse.mulColumn r.origin, m.inverse.mulColumn r.dir⟩ : Ray K).at t)) ∧
    (∀ S, CastsSurface o S →
      CastsSurface (matrixCast sqrt m m.inverse o)
        (fun p n' => ∃ q n, S q n ∧ p = m.mulColumn q ∧ n' = (m.mulColumn n).normalize sqrt)) := by
  constructor
  · intro r t
    rw [mulColumn_at, mulColumn_inverse m hd]
  · intro S hS
    have h := matrix_casts sqrt m m.inverse o S hS
    refine ⟨?_, ?_, ?_⟩
    · intro r hh e
      obtain ⟨h0, n, hn, he⟩ := h.sound r hh e
      exact ⟨h0, _, n, hn, (mulColumn_inverse m hd _).symm, he⟩
    · intro r hh e t n' ht ⟨q, n, hq, hp, hn'⟩
      apply h.first r hh e t n' ht
      exact ⟨n, by rw [hp, inverse_mulColumn m hd]; exact hq, hn'⟩
    · intro r e t n' ht ⟨q, n, hq, hp, hn'⟩
      apply h.complete r e t n' ht
      exact ⟨n, by rw [hp, inverse_mulColumn m hd]; exact hq, hn'⟩

/-- **The reported normal is the right one for rotations and uniform scalings** (`mᵀm = s²·I`,
`s² ≠ 0`; `Rotate`, `Scale` and their compositions): `m·n` is perpendicular to the image `m·v` of
every tangent vector `v ⟂ n`, keeps its side (`(m n)·(m v) = s²·(n·v)`), and the normalised vector has
unit length (given a square root that is exact on non-negative numbers). -/
theorem matrix_normal_conformal (sqrt : K → K) (hsq : ∀ v : K, 0 ≤ v → sqrt v * sqrt v = v)
    (m : M3 K) (s2 : K) (hc : m.transpose.mulM m = (M3.one : M3 K).scaleAll s2) (hs : 0 < s2)
    (n : V3 K) (hn : n ≠ V3.zero) :
    (∀ v, (m.mulColumn n).dot (m.mulColumn v) = s2 * n.dot v) ∧
      ((m.mulColumn n).normalize sqrt).dot ((m.mulColumn n).normalize sqrt) = 1 := by
  refine ⟨conformal_normal m s2 hc n, normalize_unit sqrt hsq _ ?_⟩
  intro h0
  have h1 := conformal_normal m s2 hc n n
  rw [h0] at h1
  have hp := dot_self_pos n hn
  simp only [V3.dot, V3.zero] at h1 hp
  nlinarith

/-- Non-vacuity of the conformality hypothesis: a quarter turn about z scaled by 2. -/
example : (⟨0, -2, 0, 2, 0, 0, 0, 0, 2⟩ : M3 Rat).transpose.mulM ⟨0, -2, 0, 2, 0, 0, 0, 0, 2⟩
    = (M3.one : M3 Rat).scaleAll 4 := by decide +kernel

/-! ## Scenes with radiance known in closed form -/

/-- A stream whose every sample is `E` renders to `E`, whatever the sampler settings. -/
theorem constant_stream_mean (S : Sampler) (hN : 1 ≤ S.numSamples) (conv : Nat → V3 K → V3 K → Bool)
    (draw : σ → V3 K × σ) (g : σ) (E : V3 K) (hE : ∀ g, (draw g).1 = E) :
    (estimateColor (Nat.cast : Nat → K) S conv draw g).1 = E := by
  obtain ⟨h1, _, hlen, _, _, hm⟩ := pixel_is_mean S hN conv draw g
  rw [hm]
  have hall : ∀ n g, ∀ s ∈ (drawN draw n g).1, s = E := by
    intro n
    induction n with
    | zero => intro g s hs; simp [drawN] at hs
    | succ n ih =>
      intro g s hs
      rw [drawN_succ] at hs
      simp only [List.mem_cons] at hs
      rcases hs with rfl | hs
      · exact hE g
      · exact ih _ s hs
  have hsum : ∀ (f : V3 K → K) (l : List (V3 K)), (∀ s ∈ l, s = E) → (l.map f).sum = l.length * f E := by
    intro f l
    induction l with
    | nil => simp
    | cons a l ih =>
      intro h
      simp only [List.map_cons, List.sum_cons, List.length_cons]
      rw [ih (fun s hs => h s (by simp [hs])), h a (by simp)]
      push_cast; ring
  set n := (estimateColor (Nat.cast : Nat → K) S conv draw g).2.1 with hn
  have hn0 : (n : K) ≠ 0 := by
    have : (1 : K) ≤ (n : K) := by exact_mod_cast h1
    intro h0; rw [h0] at this; linarith
  ext <;> simp only [hsum _ _ (hall n g), hlen] <;> field_simp

/-- **A closed scene of a uniform emitter renders to the emission.**  If every ray hits a surface whose
material emits `E`, has no ambient term and a zero BSDF (and `Cutoff ≤ 1`, no point lights), then
every sample `RecursiveRayTracer.recurse` returns is exactly `E`, for every recursion depth, generator
state and ray — so by `pixel_is_mean` the pixel is `E` for all sampler settings, with or without
antialias jitter (`jitter` picks the ray from the generator); `RayCaster` writes `E` as well. -/
theorem uniform_emitter_radiance (scene : Ray K → Option (Hit K × Mat K σ)) (sqrt abs : K → K)
    (cutoff eps : K) (hcut : cutoff ≤ 1) (E : V3 K)
    (hclosed : ∀ r, ∃ c m, scene r = some (c, m) ∧ m.emission = E ∧ m.ambient = V3.zero ∧
      ∀ n s d, m.bsdf n s d = V3.zero)
    (maxDepth : Nat) (jitter : σ → Ray K × σ)
    (S : Sampler) (hN : 1 ≤ S.numSamples) (conv : Nat → V3 K → V3 K → Bool) (g : σ) :
    let draw : σ → V3 K × σ := fun g =>
      recurse scene sqrt abs cutoff eps [] maxDepth true (jitter g).2 (jitter g).1 ⟨1, 1, 1⟩
    (∀ g, (draw g).1 = E) ∧
      (estimateColor (Nat.cast : Nat → K) S conv draw g).1 = E ∧
      ∀ ray, rayCasterPixel scene sqrt [] ray = E := by
  intro draw
  have h1 : ∀ g, (draw g).1 = E := by
    intro g
    apply recurse_uniform_emitter scene sqrt abs cutoff eps E hclosed
    have : ((1 : K) + 1 + 1) / 3 = 1 := by norm_num
    rw [this]; exact not_lt.mpr hcut
  refine ⟨h1, constant_stream_mean S hN conv draw g E h1, ?_⟩
  intro ray
  obtain ⟨c, m, hs, hE, hA, _⟩ := hclosed ray
  simp only [rayCasterPixel, hs, hE, hA]
  ext <;> simp [V3.add, V3.zero]

/-- **A single lit matte surface renders to its closed form.**  If the primary ray hits a surface
whose BSDF is a constant `ρ` (a matte, Lambert-like surface), `MaxDepth = 0`, `Cutoff ≤ 1`, and no
point light is shadowed at the hit point, then every sample of the `RecursiveRayTracer` equals the
`RayCaster` pixel, which is `ambient + emission + Σ_l ShadeCollision_l(normal, l − p)·ρ` with
`ShadeCollision = colour(·/dist²) · ¼·max(0, n·l̂)`; hence (by `constant_stream_mean`) the
ray-traced pixel is that value for all sampler settings. -/
theorem lit_matte_surface_radiance (scene : Ray K → Option (Hit K × Mat K σ)) (sqrt abs : K → K)
    (cutoff eps : K) (hcut : cutoff ≤ 1) (lights : List (PointLight K)) (ray : Ray K)
    (c : Hit K) (m : Mat K σ) (hs : scene ray = some (c, m)) (rho : V3 K)
    (hm : ∀ n s d, m.bsdf n s d = rho)
    (hshadow : ∀ l ∈ lights,
      let point := ray.origin.add (ray.dir.scale c.scale)
      let ld := l.origin.sub point
      match scene ⟨point.add ((ld.normalize sqrt).scale eps), ld⟩ with
      | some (sc, _) => ¬ sc.scale < 1
      | none => True)
    (S : Sampler) (hN : 1 ≤ S.numSamples) (conv : Nat → V3 K → V3 K → Bool) (g : σ) :
    let closed := lights.foldl (fun col l =>
      col.add ((l.shade sqrt c.normal (l.origin.sub (ray.origin.add (ray.dir.scale c.scale)))).mul rho))
      (m.ambient.add m.emission)
    rayCasterPixel scene sqrt lights ray = closed ∧
      (estimateColor (Nat.cast : Nat → K) S conv
        (fun g => recurse scene sqrt abs cutoff eps lights 0 true g ray ⟨1, 1, 1⟩) g).1 = closed := by
  intro closed
  have hrc : rayCasterPixel scene sqrt lights ray = closed := by
    simp only [rayCasterPixel, hs, hm, closed]
  refine ⟨hrc, ?_⟩
  apply constant_stream_mean S hN conv _ g closed
  intro g'
  rw [← hrc]
  exact recurse_lit_matte scene sqrt abs cutoff eps hcut lights ray g' c m hs rho hm hshadow

/-- Non-vacuity: a floor `z = 0` seen from `(0,0,2)` looking straight down, one white light at
`(0,0,1)` above the hit point, `ρ = (1/2, 1/2, 1/2)`: ambient 1/8 + ¼·1·½ = 1/4 in every channel. -/
example :
    let m : Mat Rat Nat := ⟨⟨0, 0, 0⟩, ⟨1/8, 1/8, 1/8⟩, fun _ _ _ => ⟨1/2, 1/2, 1/2⟩, fun g n _ => (n, g), fun _ _ _ => 1⟩
    let ray : Ray Rat := ⟨⟨0, 0, 2⟩, ⟨0, 0, -1⟩⟩
    let scene : Ray Rat → Option (Hit Rat × Mat Rat Nat) := fun r => if r = ray then some (⟨2, ⟨0, 0, 1⟩, 0⟩, m) else none
    rayCasterPixel scene (fun _ => 1) [⟨⟨0, 0, 1⟩, ⟨1, 1, 1⟩, false⟩] ray = ⟨1/4, 1/4, 1/4⟩ := by
  decide +kernel

end M3d.C20
