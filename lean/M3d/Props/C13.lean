import M3d.Lemmas.ConcDcl
import M3d.Lemmas.ConcPatterns
import M3d.Gen.ConcFacts
/-!
# C13 — concurrent read-only use is race-free and matches sequential use

Property theorems only.  Model: `M3d/Model/Conc.lean` (interleaving semantics with
happens-before sets; a schedule is *any* list of thread ids, blocked/finished picks stutter).
All theorems below quantify over **every schedule** and, where a thread count occurs, over
**every number of threads**; they are proved by inductive invariants
(`M3d/Lemmas/ConcDcl.lean`, `M3d/Lemmas/ConcPatterns.lean`), not by enumeration.  The model is
tied to the source by `M3d/Gen/ConcFacts.lean`, regenerated from /repo with go/ast on every
run (section "Facts" at the end): the step lists the theorems talk about are *computed from*
the extracted shapes, and every write a worker closure performs on captured state must fall
into one of the proved-safe classes.
-/
namespace M3d.C13
open M3d.Conc

/-! ### Lazy vertex index: `Mesh.getVertexToFace` (model3d, model2d) -/

/-- **Double-checked creation builds the index exactly once and publishes it safely.**
Any number of goroutines call `getVertexToFace` (fast path `atomic.Value.Load`, slow path
`v2fCreateLock`, re-check, build, `Store`, deferred `Unlock`) and then read the index they
got.  Under *every* schedule: at most one build happens (exactly one as soon as some caller
has returned); every caller that has returned holds the published object, that object is
the one built by the single builder, and its content was complete when read (`out = 1`);
and no plain access of the build races with any reader (`raceFree`). -/
theorem dcl_single_creation (sched : Schedule) :
    let c := run dclProg Config.init sched
    builds c ≤ 1 ∧
    ((∃ t, done dclProg c t = true) → builds c = 1) ∧
    (∀ t, done dclProg c t = true →
        (c.thr t).reg = c.mem V ∧ c.mem V ≠ 0 ∧ (c.thr t).out = 1 ∧
        ∀ a ∈ c.hist, a.isWrite = true → a.tid + 1 = (c.thr t).reg) ∧
    raceFree dclProg sched = true := by
  intro c
  have I : DclInv c := dclInv_run _ sched dclInv_init
  refine ⟨I.builds_le, ?_, ?_, ?_⟩
  · rintro ⟨t, ht⟩
    rw [dcl_done_iff] at ht
    have h1 := I.regnz t (by omega)
    have h2 := I.reg_eq t (by omega) (by omega) h1
    exact I.built_exV (h2 ▸ h1)
  · intro t ht
    rw [dcl_done_iff] at ht
    have hp := I.pcle t
    have h1 := I.regnz t (by omega)
    have h2 := I.reg_eq t (by omega) (by omega) h1
    have hV : c.mem V ≠ 0 := h2 ▸ h1
    refine ⟨h2, hV, I.out10 t (by omega), ?_⟩
    intro a ha hw
    rw [h2]
    exact I.builder hV a ha hw
  · exact List.isEmpty_iff.2 I.norace

/-- Non-vacuity: three goroutines racing the first query, interleaved so that all of them pass
the fast-path check before anyone builds; all three finish, one build, no race. -/
example :
    let s : Schedule := [0, 1, 2, 0, 1, 2, 1, 1, 1, 1, 1, 1, 1, 1, 0, 0, 0, 0, 0, 2, 2, 2, 2, 2]
    let c := run dclProg Config.init s
    ((List.range 3).all fun t => done dclProg c t) = true ∧ builds c = 1 ∧ raceFree dclProg s = true := by
  decide

/-- The answer of a goroutine that runs `getVertexToFace` + query alone (sequential use). -/
def seqAnswer (t : Tid) : Val := ((run dclProg Config.init (List.replicate 10 t)).thr t).out

/-- **Concurrent readers get the sequential answer**: whatever the schedule and however many
other goroutines race the lazy build, a finished reader's query result equals the result of
the same goroutine running alone (queries are functions of the immutable face set and the
index, and the index a reader sees is complete). -/
theorem readers_eq_sequential (sched : Schedule) (t : Tid)
    (h : done dclProg (run dclProg Config.init sched) t = true) :
    ((run dclProg Config.init sched).thr t).out = seqAnswer t := by
  have hseq : done dclProg (run dclProg Config.init (List.replicate 10 t)) t = true := by
    simp [List.replicate, run, List.foldl, step, dclProg, dclThread, exec, advance, access, Config.init,
      TState.init, upd, done, V, M, D]
  rw [seqAnswer, ((dcl_single_creation sched).2.2.1 t h).2.2.1,
    ((dcl_single_creation (List.replicate 10 t)).2.2.1 t hseq).2.2.1]

example : seqAnswer 5 = 1 := by decide

/-! ### Index partition: `essentials.ConcurrentMap(…, func(i int){ out[i] = … })` -/

/-- **Workers that write only their own slice elements never conflict, and the result is the
sequential map.**  `idxs t` are the indices handed to worker `t` (pairwise disjoint); worker
`t` performs `out[i] = f i` for each.  Under every schedule there is no data race, and once a
worker is done every one of its slots holds `f i`. -/
theorem index_partition_race_free (f : Nat → Val) (idxs : Tid → List Nat)
    (hdisj : ∀ t t' i, t ≠ t' → i ∈ idxs t → i ∉ idxs t') (sched : Schedule) :
    let c := run (partitionProg f idxs) Config.init sched
    raceFree (partitionProg f idxs) sched = true ∧
    (∀ t, done (partitionProg f idxs) c t = true → ∀ i ∈ idxs t, c.mem (OUT + i) = f i) ∧
    (∀ i, c.mem (OUT + i) = 0 ∨ c.mem (OUT + i) = f i) := by
  intro c
  have I : PartInv f idxs c := partInv_run f idxs hdisj _ sched (partInv_init f idxs)
  refine ⟨List.isEmpty_iff.2 I.norace, ?_, I.cell⟩
  intro t ht i hi
  simp only [done, partitionProg, partitionThread, List.length_map, decide_eq_true_eq] at ht
  obtain ⟨k, hk, rfl⟩ := List.mem_iff_getElem.1 hi
  exact I.val t k _ (by omega) (List.getElem?_eq_getElem hk)

/-- **`ConcurrentMap(maxGos, n, f)` equals the sequential loop.**  With the library's actual
hand-out (goroutine `s < maxGos` visits `s, s+maxGos, … < n`), for every `maxGos ≥ 1`, every
`n` and every schedule: no race, and when the `maxGos` workers are done the output slice is
`[f 0, …, f (n-1)]`. -/
theorem concurrentMap_eq_sequential (f : Nat → Val) (maxGos n : Nat) (hm : 0 < maxGos) (sched : Schedule) :
    let idxs : Tid → List Nat := fun t => if t < maxGos then strided maxGos n t else []
    let c := run (partitionProg f idxs) Config.init sched
    raceFree (partitionProg f idxs) sched = true ∧
    ((∀ t, t < maxGos → done (partitionProg f idxs) c t = true) →
      (List.range n).map (fun i => c.mem (OUT + i)) = (List.range n).map f) := by
  intro idxs c
  have hdisj : ∀ t t' i, t ≠ t' → i ∈ idxs t → i ∉ idxs t' := by
    intro t t' i hne hi
    by_cases h1 : t < maxGos <;> by_cases h2 : t' < maxGos <;> simp only [idxs, h1, h2, if_true, if_false] at hi ⊢
    · exact strided_disjoint h1 h2 hne hi
    · exact List.not_mem_nil
    · exact absurd hi List.not_mem_nil
    · exact List.not_mem_nil
  obtain ⟨h1, h2, _⟩ := index_partition_race_free f idxs hdisj sched
  refine ⟨h1, fun hd => ?_⟩
  apply List.map_congr_left
  intro i hi
  obtain ⟨s, hs, hmem⟩ := strided_cover hm (List.mem_range.1 hi)
  exact h2 s (hd s hs) i (by simpa [idxs, hs] using hmem)

/-- Non-vacuity: 3 goroutines, 7 indices, round-robin schedule: all done, result `[f 0 … f 6]`. -/
example :
    let f : Nat → Val := fun i => i * i + 1
    let idxs : Tid → List Nat := fun t => if t < 3 then strided 3 7 t else []
    let c := run (partitionProg f idxs) Config.init [0, 1, 2, 0, 1, 2, 0, 1, 2]
    ((List.range 3).all fun t => done (partitionProg f idxs) c t) = true ∧
      (List.range 7).map (fun i => c.mem (OUT + i)) = [1, 2, 5, 10, 17, 26, 37] := by
  decide

/-! ### Mutex-guarded reduction: `KMeans.Iterate`, `ReduceConcurrentMap` -/

/-- **Per-worker partial results merged under a mutex equal the sequential fold.**  `N` workers
each compute `loc t` privately, then `Lock; acc = merge acc (loc t); Unlock`.  For every
commutative and associative `merge`, every `N` and every schedule there is no data race on the
accumulator, and when all workers are done the accumulator is `fold merge 0 [loc 0 … loc (N-1)]`. -/
theorem mutex_reduction_correct (merge : Val → Val → Val)
    (hc : ∀ a b, merge a b = merge b a) (ha : ∀ a b c, merge (merge a b) c = merge a (merge b c))
    (loc : Tid → Val) (N : Nat) (sched : Schedule) :
    let p := reduceProgN merge loc N
    let c := run p Config.init sched
    raceFree p sched = true ∧
    ((∀ t, t < N → done p c t = true) → c.mem ACC = ((List.range N).map loc).foldl merge 0) := by
  intro p c
  have I : RedInv merge loc N c := redInv_run merge loc N _ sched (redInv_init merge loc N)
  refine ⟨List.isEmpty_iff.2 I.norace, fun hd => ?_⟩
  have hperm := I.order_perm (fun t ht => (red_done_iff merge loc N c t ht).1 (hd t ht))
  rw [I.acc]
  exact foldl_perm_comm_assoc merge hc ha (hperm.map loc) 0

/-- Non-vacuity (and the order really varies): three workers merging with `+` in the order 2,0,1. -/
example :
    let loc : Tid → Val := fun t => 10 * (t + 1)
    let p := reduceProgN (· + ·) loc 3
    let c := run p Config.init [0, 1, 2, 2, 1, 2, 2, 2, 0, 0, 0, 0, 1, 1, 1, 1]
    ((List.range 3).all fun t => done p c t) = true ∧ mergeOrder c = [2, 0, 1] ∧ c.mem ACC = 60 := by
  decide

/-- The same reduction with the `Lock`/`Unlock` dropped has a schedule with a data race and a
lost update (two workers, decided): this is what the facts check guards against. -/
theorem reduction_without_lock_racy :
    ∃ sched : Schedule,
      let p : Program := fun t => if t < 2 then reduceThreadNoLock (· + ·) (10 * (t + 1)) else []
      raceFree p sched = false ∧ (run p Config.init sched).mem ACC ≠ 30 ∧
      ((List.range 2).all fun t => done p (run p Config.init sched) t) = true :=
  ⟨[0, 1, 0, 1, 0, 1], by decide⟩

/-! ### Channel hand-out: `render3d.mapCoordinates` -/

/-- **A buffered channel pre-filled with all indices delivers every index to exactly one
worker.**  Any number of workers `for c := range coords { img.Data[c.idx] = … }`.  Under every
schedule the sequence of deliveries followed by what is still queued is exactly `0 … n-1`
(so nothing is delivered twice or lost), no two workers ever write the same pixel (no race),
every delivered pixel holds its value, and once any worker has left its loop every index has
been delivered exactly once. -/
theorem chan_each_index_once (n : Nat) (g : Val → Val) (sched : Schedule) :
    let c := run (chanProg g) (chanInit n) sched
    c.log.map (·.2) ++ (c.chan CH).map (·.1) = List.range n ∧
    raceFreeFrom (chanProg g) (chanInit n) sched = true ∧
    (∀ v ∈ c.log.map (·.2), c.mem (OUT + v) = g v) ∧
    ((∃ t, done (chanProg g) c t = true) →
      ∀ i, i < n → (c.log.map (·.2)).count i = 1 ∧ c.mem (OUT + i) = g i) := by
  intro c
  have I : ChanInv n g c := chanInv_run n g _ sched (chanInv_init n g)
  refine ⟨I.deliv, List.isEmpty_iff.2 I.norace, I.val, ?_⟩
  rintro ⟨t, ht⟩ i hi
  have hpc : (c.thr t).pc ≠ 0 := by
    have h2 : (chanProg g t).length ≤ (c.thr t).pc := of_decide_eq_true ht
    simp only [chanProg, chanWorker, List.length_cons, List.length_nil] at h2
    omega
  have hd := I.deliv
  rw [I.drained t hpc, List.map_nil, List.append_nil] at hd
  have hmem : i ∈ c.log.map (·.2) := hd ▸ List.mem_range.2 hi
  exact ⟨hd ▸ count_range_eq_one hi, I.val i hmem⟩

/-- Non-vacuity: 5 pixels, 2 workers taking turns; both leave, all pixels written. -/
example :
    let g : Val → Val := fun v => v + 100
    let c := run (chanProg g) (chanInit 5) [0, 1, 1, 0, 1, 0, 1]
    c.log = [(0, 0), (1, 1), (1, 2), (0, 3), (1, 4)] ∧ done (chanProg g) c 0 = true ∧
      (List.range 5).map (fun i => c.mem (OUT + i)) = [100, 101, 102, 103, 104] := by
  decide

/-! ### Channel hand-off: `asyncSolidCache.FetchZ` → `squareSpacer.Scan` -/

/-- **A buffer filled by a goroutine and signalled over a channel is read race-free and
complete.**  Producer: plain write of the buffer, then `Done <- struct{}{}`; consumer:
`<-Done`, then plain read.  Under every schedule there is no data race, and a consumer that
has finished read the value the producer wrote. -/
theorem handoff_race_free (v : Val) (sched : Schedule) :
    let c := run (handoffProg v) Config.init sched
    raceFree (handoffProg v) sched = true ∧ (done (handoffProg v) c 1 = true → (c.thr 1).out = v) := by
  intro c
  have I : HandInv v c := handInv_run v _ sched (handInv_init v)
  refine ⟨List.isEmpty_iff.2 I.norace, fun hd => I.got ?_⟩
  have h2 : (handoffProg v 1).length ≤ (c.thr 1).pc := of_decide_eq_true hd
  have := I.pc1
  simp [handoffProg] at h2
  omega

/-- Non-vacuity: the consumer is scheduled first (blocks), then everything runs. -/
example :
    let c := run (handoffProg 7) Config.init [1, 1, 0, 1, 0, 1, 1]
    done (handoffProg 7) c 1 = true ∧ (c.thr 1).out = 7 := by
  decide

/-! ### `HeightMap.updateAt` from `AddSpheresSDF` workers -/

/-- **With the callers holding a mutex, a cell ends up as the maximum of all proposed heights
and the `changed` results are consistent.**  `N` workers each do
`Lock; if cell < h t { cell = h t; changed = true }; Unlock`.  For every `N`, all heights and
every schedule: no data race; the cell never exceeds a proposed height; when all workers are
done the cell is `max(0, h 0, …, h (N-1))`; and some worker reported `changed` iff the cell
differs from its initial value. -/
theorem updateAt_locked_is_max (hs : Tid → Val) (N : Nat) (sched : Schedule) :
    let p := updProgN hs N
    let c := run p Config.init sched
    raceFree p sched = true ∧
    (c.mem CELL = 0 ∨ ∃ t, t < N ∧ c.mem CELL = hs t) ∧
    ((∃ t, t < N ∧ (c.thr t).flag = true) ↔ c.mem CELL ≠ 0) ∧
    ((∀ t, t < N → done p c t = true) → c.mem CELL = maxHeights hs N) := by
  intro p c
  have I : UpdInv hs N c := updInv_run hs N _ sched (updInv_init hs N)
  refine ⟨List.isEmpty_iff.2 I.norace, I.att, ⟨fun ⟨t, _, hf⟩ => I.flag_nz t hf, I.nz_flag⟩, fun hd => ?_⟩
  exact eq_maxHeights hs N _ (fun t ht => I.ub t (by have := (upd_done_iff hs N c t ht).1 (hd t ht); omega)) I.att

/-- Non-vacuity: heights 5, 3, 9 in the lock order 1, 0, 2: final 9, workers 1, 0, 2 report
changed = true, true, true; in the order 2, 0, 1 only worker 2 does. -/
example :
    let hs : Tid → Val := fun t => [5, 3, 9].getD t 0
    let c := run (updProgN hs 3) Config.init [1, 1, 1, 1, 0, 0, 0, 0, 2, 2, 2, 2]
    let c' := run (updProgN hs 3) Config.init [2, 2, 2, 2, 0, 0, 0, 0, 1, 1, 1, 1]
    c.mem CELL = 9 ∧ (List.range 3).map (fun t => (c.thr t).flag) = [true, true, true] ∧
      c'.mem CELL = 9 ∧ (List.range 3).map (fun t => (c'.thr t).flag) = [false, false, true] := by
  decide

/-- **The unsynchronised `updateAt` (the code as it was: plain read, compare, plain write from
several `StatefulConcurrentMap` workers) has a schedule with a data race and a lost update.**
Explicit two-goroutine witness: heights 5 and 3 on one cell, both read 0, 5 is written, then 3
overwrites it — the final value 3 is not the maximum 5 (decided by evaluation). -/
theorem updateAt_racy :
    ∃ sched : Schedule,
      let p : Program := fun t => if t < 2 then updateAtRacy ([5, 3].getD t 0) else []
      raceFree p sched = false ∧
      ((List.range 2).all fun t => done p (run p Config.init sched) t) = true ∧
      (run p Config.init sched).mem CELL = 3 ∧ maxHeights (fun t => [5, 3].getD t 0) 2 = 5 :=
  ⟨[0, 1, 0, 1], by decide⟩

/-! ### Facts: the shape of the current source is the shape the model assumes

`M3d.Gen.ConcFacts` is regenerated from /repo (go/ast) before every build.  The theorems
below are re-checked against it, so an edit that drops the re-check, moves the `Store` before
the build, removes a `Lock`, or makes a worker write captured state outside the proved-safe
classes breaks a proof obligation (the check then searches for a concrete failing schedule
with the model driver and for a race report / differing answer with the real code). -/
open M3d.Gen

/-- The thread program all DCL theorems are about *is* the program denoted by `dclShape`. -/
theorem dcl_model_is_shape (t : Tid) : dclOfShape dclShape t = dclThread t := rfl

/-- `getVertexToFace` in model3d/mesh.go and model2d/mesh.go has exactly the modelled statement
sequence (atomic load, return-if-set, lock, deferred unlock, atomic load, return-if-set,
alloc, build into the fresh object only, atomic store, return); `getVertexToFaceOrNil` is a
single `atomic.Value.Load`; the fields are an `atomic.Value` and a `sync.Mutex`; and no other
function of mesh.go touches them except `clearVertexToFace` (a documented mutation). -/
theorem facts_getVertexToFace :
    ConcFacts.getVertexToFace3d = dclShape ∧ ConcFacts.getVertexToFace2d = dclShape ∧
    ConcFacts.orNilIsAtomicLoad3d = true ∧ ConcFacts.orNilIsAtomicLoad2d = true ∧
    ConcFacts.v2fFieldTypes3d = ["v2fCreateLock:sync.Mutex", "vertexToFace:atomic.Value"] ∧
    ConcFacts.v2fFieldTypes2d = ["v2fCreateLock:sync.Mutex", "vertexToFace:atomic.Value"] ∧
    ConcFacts.v2fTouchers3d = ["clearVertexToFace", "getVertexToFace", "getVertexToFaceOrNil"] ∧
    ConcFacts.v2fTouchers2d = ["clearVertexToFace", "getVertexToFace", "getVertexToFaceOrNil"] := by
  decide

/-- **Every worker closure of the anchored files touches captured state only in proved-safe
ways**: writes to its own index / own element (`index_partition_race_free`), writes under a
mutex shared by the workers or in a `ReduceConcurrentMap` reduce function
(`mutex_reduction_correct`, `updateAt_locked_is_max`), channel operations
(`chan_each_index_once`), `sync.Map`/`atomic.Value` calls, or a write handed over by a channel
send.  No unguarded write, no unguarded call of a mutating method. -/
theorem facts_workers_safe : ConcFacts.workers.all Worker.safe = true := by decide

/-- The worker sites the model instances stand for are all present in the extracted facts
(so the previous theorem is not vacuous after a refactor that hides them from the extractor). -/
theorem facts_workers_cover :
    ([("model3d/mc.go", "MarchingCubesFilter#go1"), ("model3d/mc.go", "mcSearch#ConcurrentMap1"),
      ("model3d/mc.go", "asyncSolidCache.FetchZ#go1"),
      ("model3d/dc.go", "DualContouring.populateCorners#ConcurrentMap1"),
      ("model3d/dc.go", "DualContouring.populateEdges#ReduceConcurrentMap.iter1"),
      ("model3d/dc.go", "DualContouring.populateCubes#ConcurrentMap1"),
      ("model3d/dc.go", "DualContouring.appendMesh#ReduceConcurrentMap.reduce1"),
      ("model2d/rasterize.go", "Rasterizer.RasterizeSolid#ConcurrentMap1"),
      ("model2d/rasterize.go", "Rasterizer.RasterizeSolidFilter#ConcurrentMap1"),
      ("render3d/concurrency.go", "mapCoordinates#go1"),
      ("render3d/ray_renderer.go", "rayRenderer.Render#mapCoordinates1"),
      ("render3d/raycast.go", "RayCaster.Render#mapCoordinates1"),
      ("numerical/k_means.go", "KMeans.Iterate#go1"), ("numerical/k_means.go", "KMeans.Assign#ConcurrentMap1"),
      ("toolbox3d/height_map.go", "HeightMap.AddSpheresSDF#StatefulConcurrentMap.iter1")].all
      fun s => ConcFacts.workers.any fun w => w.file == s.1 && w.func == s.2) = true := by
  decide

/-- `KMeans.Iterate` merges into the shared accumulators only under `resultLock`;
`AddSpheresSDF`'s workers call the height-map mutators only under a mutex shared by all
workers (the repaired code — the instance `updateAt_locked_is_max` applies, not `updateAt_racy`). -/
theorem facts_locked_sites :
    ((ConcFacts.workers.filter fun w => w.func == "KMeans.Iterate#go1" ||
        w.func == "HeightMap.AddSpheresSDF#StatefulConcurrentMap.iter1").all
      fun w => !w.effects.isEmpty && w.effects.all (·.kind == .locked)) = true := by
  decide

/-- `mapCoordinates` creates a channel with room for every pixel, fills it, closes it and only
then spawns the workers, each of which ranges over the channel and calls back with the received
index: the `chanInit`/`chanProg` instance. -/
theorem facts_mapCoordinates :
    ConcFacts.mapCoordinates =
      ["makeChan(width*height)", "var", "fill", "close", "var", "spawn", "w:deferDone", "w:newLocal",
       "w:rangeRecvCall", "wait"] := by
  decide

/-- `HeightMap.updateAt` is the plain read-compare-write of `updateAtRacy` (bounds check,
index, `if Data[idx] < height { Data[idx] = height; return true }`, return) without a lock of
its own — so its concurrent callers must serialise it (`facts_locked_sites`). -/
theorem facts_updateAt : ConcFacts.updateAt = ["boundsRet", "idx", "readCompareWrite", "ret"] := by decide

/-- `CacheScalarFunc` touches its captured cache only through `sync.Map.Load/Store`. -/
theorem facts_cacheScalarFunc : ConcFacts.cacheScalarFunc = ["decl:sync.Map", "call:Load", "call:Store"] := by
  decide

end M3d.C13
