import M3d.Lemmas.ConcDcl
import M3d.Lemmas.ConcPatterns
import M3d.Lemmas.ConcQuery
import M3d.Lemmas.ConcIter
import M3d.Lemmas.ConcDerive
import M3d.Lemmas.ConcCollect
import M3d.Lemmas.ConcStrided
import M3d.Gen.ConcFacts
/-!
# C13 — concurrent read-only use is race-free and matches sequential use

Property theorems only.  Model: `M3d/Model/Conc.lean` (interleaving semantics with
happens-before sets; a schedule is *any* list of thread ids, blocked/finished picks stutter).
All theorems below quantify over **every schedule** and, where a thread count occurs, over
**every number of threads**; they are proved by inductive invariants
(`M3d/Lemmas/ConcDcl.lean`, `M3d/Lemmas/ConcPatterns.lean`), not by enumeration.  The model is
tied to the source by `M3d/Gen/ConcFacts.lean`, regenerated from /repo with go/ast on every
run (section "Facts" at the end): the step lists the theorems talk about are *computed from*
the extracted shapes, and every write a worker closure performs on captured state must fall
into one of the proved-safe classes.
-/
namespace M3d.C13
open M3d.Conc

/-! ### Lazy vertex index: `Mesh.getVertexToFace` (model3d, model2d) -/

/-- **Double-checked creation builds the index exactly once and publishes it safely.**
Any number of goroutines call `getVertexToFace` (fast path `atomic.Value.Load`, slow path
`v2fCreateLock`, re-check, build, `Store`, deferred `Unlock`) and then read the index they
got.  Under *every* schedule: at most one build happens (exactly one as soon as some caller
has returned); every caller that has returned holds the published object, that object is
the one built by the single builder, and its content was complete when read (`out = 1`);
and no plain access of the build races with any reader (`raceFree`). -/
theorem dcl_single_creation (sched : Schedule) :
    let c := run dclProg Config.init sched
    builds c ≤ 1 ∧
    ((∃ t, done dclProg c t = true) → builds c = 1) ∧
    (∀ t, done dclProg c t = true →
        (c.thr t).reg = c.mem V ∧ c.mem V ≠ 0 ∧ (c.thr t).out = 1 ∧
        ∀ a ∈ c.hist, a.isWrite = true → a.tid + 1 = (c.thr t).reg) ∧
    raceFree dclProg sched = true := by
  intro c
  have I : DclInv c := dclInv_run _ sched dclInv_init
  refine ⟨I.builds_le, ?_, ?_, ?_⟩
  · rintro ⟨t, ht⟩
    rw [dcl_done_iff] at ht
    have h1 := I.regnz t (by omega)
    have h2 := I.reg_eq t (by omega) (by omega) h1
    exact I.built_exV (h2 ▸ h1)
  · intro t ht
    rw [dcl_done_iff] at ht
    have hp := I.pcle t
    have h1 := I.regnz t (by omega)
    have h2 := I.reg_eq t (by omega) (by omega) h1
    have hV : c.mem V ≠ 0 := h2 ▸ h1
    refine ⟨h2, hV, I.out10 t (by omega), ?_⟩
    intro a ha hw
    rw [h2]
    exact I.builder hV a ha hw
  · exact List.isEmpty_iff.2 I.norace

/-- Non-vacuity: three goroutines racing the first query, interleaved so that all of them pass
the fast-path check before anyone builds; all three finish, one build, no race. -/
example :
    let s : Schedule := [0, 1, 2, 0, 1, 2, 1, 1, 1, 1, 1, 1, 1, 1, 0, 0, 0, 0, 0, 2, 2, 2, 2, 2]
    let c := run dclProg Config.init s
    ((List.range 3).all fun t => done dclProg c t) = true ∧ builds c = 1 ∧ raceFree dclProg s = true := by
  decide

/-- The answer of a goroutine that runs `getVertexToFace` + query alone (sequential use). -/
def seqAnswer (t : Tid) : Val := ((run dclProg Config.init (List.replicate 10 t)).thr t).out

/-- **Concurrent readers get the sequential answer**: whatever the schedule and however many
other goroutines race the lazy build, a finished reader's query result equals the result of
the same goroutine running alone (queries are functions of the immutable face set and the
index, and the index a reader sees is complete). -/
theorem readers_eq_sequential (sched : Schedule) (t : Tid)
    (h : done dclProg (run dclProg Config.init sched) t = true) :
    ((run dclProg Config.init sched).thr t).out = seqAnswer t := by
  have hseq : done dclProg (run dclProg Config.init (List.replicate 10 t)) t = true := by
    simp [List.replicate, run, List.foldl, step, dclProg, dclThread, exec, advance, access, Config.init,
      TState.init, upd, done, V, M, D]
  rw [seqAnswer, ((dcl_single_creation sched).2.2.1 t h).2.2.1,
    ((dcl_single_creation (List.replicate 10 t)).2.2.1 t hseq).2.2.1]

example : seqAnswer 5 = 1 := by decide

/-! ### Index partition: `essentials.ConcurrentMap(…, func(i int){ out[i] = … })` -/

/-- **Workers that write only their own slice elements never conflict, and the result is the
sequential map.**  `idxs t` are the indices handed to worker `t` (pairwise disjoint); worker
`t` performs `out[i] = f i` for each.  Under every schedule there is no data race, and once a
worker is done every one of its slots holds `f i`. -/
theorem index_partition_race_free (f : Nat → Val) (idxs : Tid → List Nat)
    (hdisj : ∀ t t' i, t ≠ t' → i ∈ idxs t → i ∉ idxs t') (sched : Schedule) :
    let c := run (partitionProg f idxs) Config.init sched
    raceFree (partitionProg f idxs) sched = true ∧
    (∀ t, done (partitionProg f idxs) c t = true → ∀ i ∈ idxs t, c.mem (OUT + i) = f i) ∧
    (∀ i, c.mem (OUT + i) = 0 ∨ c.mem (OUT + i) = f i) := by
  intro c
  have I : PartInv f idxs c := partInv_run f idxs hdisj _ sched (partInv_init f idxs)
  refine ⟨List.isEmpty_iff.2 I.norace, ?_, I.cell⟩
  intro t ht i hi
  simp only [done, partitionProg, partitionThread, List.length_map, decide_eq_true_eq] at ht
  obtain ⟨k, hk, rfl⟩ := List.mem_iff_getElem.1 hi
  exact I.val t k _ (by omega) (List.getElem?_eq_getElem hk)

/-- **`ConcurrentMap(maxGos, n, f)` equals the sequential loop.**  With the library's actual
hand-out (goroutine `s < maxGos` visits `s, s+maxGos, … < n`), for every `maxGos ≥ 1`, every
`n` and every schedule: no race, and when the `maxGos` workers are done the output slice is
`[f 0, …, f (n-1)]`. -/
theorem concurrentMap_eq_sequential (f : Nat → Val) (maxGos n : Nat) (hm : 0 < maxGos) (sched : Schedule) :
    let idxs : Tid → List Nat := fun t => if t < maxGos then strided maxGos n t else []
    let c := run (partitionProg f idxs) Config.init sched
    raceFree (partitionProg f idxs) sched = true ∧
    ((∀ t, t < maxGos → done (partitionProg f idxs) c t = true) →
      (List.range n).map (fun i => c.mem (OUT + i)) = (List.range n).map f) := by
  intro idxs c
  have hdisj : ∀ t t' i, t ≠ t' → i ∈ idxs t → i ∉ idxs t' := by
    intro t t' i hne hi
    by_cases h1 : t < maxGos <;> by_cases h2 : t' < maxGos <;> simp only [idxs, h1, h2, if_true, if_false] at hi ⊢
    · exact strided_disjoint h1 h2 hne hi
    · exact List.not_mem_nil
    · exact absurd hi List.not_mem_nil
    · exact List.not_mem_nil
  obtain ⟨h1, h2, _⟩ := index_partition_race_free f idxs hdisj sched
  refine ⟨h1, fun hd => ?_⟩
  apply List.map_congr_left
  intro i hi
  obtain ⟨s, hs, hmem⟩ := strided_cover hm (List.mem_range.1 hi)
  exact h2 s (hd s hs) i (by simpa [idxs, hs] using hmem)

/-- Non-vacuity: 3 goroutines, 7 indices, round-robin schedule: all done, result `[f 0 … f 6]`. -/
example :
    let f : Nat → Val := fun i => i * i + 1
    let idxs : Tid → List Nat := fun t => if t < 3 then strided 3 7 t else []
    let c := run (partitionProg f idxs) Config.init [0, 1, 2, 0, 1, 2, 0, 1, 2]
    ((List.range 3).all fun t => done (partitionProg f idxs) c t) = true ∧
      (List.range 7).map (fun i => c.mem (OUT + i)) = [1, 2, 5, 10, 17, 26, 37] := by
  decide

/-! ### Mutex-guarded reduction: `KMeans.Iterate`, `ReduceConcurrentMap` -/

/-- **Per-worker partial results merged under a mutex equal the sequential fold.**  `N` workers
each compute `loc t` privately, then `Lock; acc = merge acc (loc t); Unlock`.  For every
commutative and associative `merge`, every `N` and every schedule there is no data race on the
accumulator, and when all workers are done the accumulator is `fold merge 0 [loc 0 … loc (N-1)]`. -/
theorem mutex_reduction_correct (merge : Val → Val → Val)
    (hc : ∀ a b, merge a b = merge b a) (ha : ∀ a b c, merge (merge a b) c = merge a (merge b c))
    (loc : Tid → Val) (N : Nat) (sched : Schedule) :
    let p := reduceProgN merge loc N
    let c := run p Config.init sched
    raceFree p sched = true ∧
    ((∀ t, t < N → done p c t = true) → c.mem ACC = ((List.range N).map loc).foldl merge 0) := by
  intro p c
  have I : RedInv merge loc N c := redInv_run merge loc N _ sched (redInv_init merge loc N)
  refine ⟨List.isEmpty_iff.2 I.norace, fun hd => ?_⟩
  have hperm := I.order_perm (fun t ht => (red_done_iff merge loc N c t ht).1 (hd t ht))
  rw [I.acc]
  exact foldl_perm_comm_assoc merge hc ha (hperm.map loc) 0

/-- Non-vacuity (and the order really varies): three workers merging with `+` in the order 2,0,1. -/
example :
    let loc : Tid → Val := fun t => 10 * (t + 1)
    let p := reduceProgN (· + ·) loc 3
    let c := run p Config.init [0, 1, 2, 2, 1, 2, 2, 2, 0, 0, 0, 0, 1, 1, 1, 1]
    ((List.range 3).all fun t => done p c t) = true ∧ mergeOrder c = [2, 0, 1] ∧ c.mem ACC = 60 := by
  decide

/-- **The mutex-guarded reduction equals one goroutine, for every worker count.**  With the
library's strided hand-out (goroutine `s < maxGos` folds the findings `g i` of the indices
`s, s+maxGos, … < n` into its partial result) and a commutative-associative `merge` with unit
`0`: for every `maxGos ≥ 1`, every `n` and every schedule, when the workers are done the
accumulator is the fold over `0 … n-1` in order — what `maxGos = 1` computes. -/
theorem mutex_reduction_eq_sequential_all_worker_counts (merge : Val → Val → Val)
    (hc : ∀ a b, merge a b = merge b a) (ha : ∀ a b c, merge (merge a b) c = merge a (merge b c))
    (h0 : ∀ a, merge 0 a = a) (g : Nat → Val) (maxGos n : Nat) (hm : 0 < maxGos) (sched : Schedule) :
    let loc : Tid → Val := fun s => (strided maxGos n s).foldl (fun a i => merge a (g i)) 0
    let p := reduceProgN merge loc maxGos
    let c := run p Config.init sched
    raceFree p sched = true ∧
    ((∀ t, t < maxGos → done p c t = true) →
      c.mem ACC = (List.range n).foldl (fun a i => merge a (g i)) 0) := by
  intro loc p c
  obtain ⟨h1, h2⟩ := mutex_reduction_correct merge hc ha loc maxGos sched
  refine ⟨h1, fun hd => ?_⟩
  rw [h2 hd]
  exact strided_partials_eq_sequential merge hc ha h0 g hm n

/-- Non-vacuity: 2 workers, 5 indices with findings `i + 1`; both done; `1 + … + 5`. -/
example :
    let loc : Tid → Val := fun s => (strided 2 5 s).foldl (fun a i => a + (i + 1)) 0
    let p := reduceProgN (· + ·) loc 2
    let c := run p Config.init [0, 1, 0, 0, 0, 0, 1, 1, 1, 1]
    ((List.range 2).all fun t => done p c t) = true ∧ c.mem ACC = 15 ∧
      (List.range 5).foldl (fun a i => a + (i + 1)) 0 = 15 := by
  decide

/-- The same reduction with the `Lock`/`Unlock` dropped has a schedule with a data race and a
lost update (two workers, decided): this is what the facts check guards against. -/
theorem reduction_without_lock_racy :
    ∃ sched : Schedule,
      let p : Program := fun t => if t < 2 then reduceThreadNoLock (· + ·) (10 * (t + 1)) else []
      raceFree p sched = false ∧ (run p Config.init sched).mem ACC ≠ 30 ∧
      ((List.range 2).all fun t => done p (run p Config.init sched) t) = true :=
  ⟨[0, 1, 0, 1, 0, 1], by decide⟩

/-! ### Per-goroutine buffers handed to a reduce function: `DualContouring.populateEdges` -/

/-- **What every worker collected in a buffer of its own reaches the shared result exactly once.**
`ReduceConcurrentMap(maxGos, n, factory)`: each of the `N` goroutines calls the factory, which
binds the goroutine's buffer (`base t` = identity of its backing array), stores what it finds
(`v t`, the worker's partial list) in it with plain writes, and finally — under the launcher's
mutex — its reduce function reads the buffer and appends it to the shared result
(`*interior = append(*interior, localInterior...)`).  If different goroutines have different
backing arrays (`hinj`; what `var localInterior []Coord3D` + `append` gives), then for every
commutative-associative `merge` (the result as a multiset), every `N` and every schedule: no
data race, and when all workers are done the result is `fold merge 0 [v 0 … v (N-1)]` — every
worker's findings exactly once, the multiset a single goroutine collects. -/
theorem collect_reduce_correct (merge : Val → Val → Val)
    (hc : ∀ a b, merge a b = merge b a) (ha : ∀ a b c, merge (merge a b) c = merge a (merge b c))
    (base v : Tid → Val) (N : Nat)
    (hinj : ∀ t t', t < N → t' < N → base t = base t' → t = t') (sched : Schedule) :
    let p := collectProgN merge base v N
    let c := run p Config.init sched
    raceFree p sched = true ∧
    ((∀ t, t < N → done p c t = true) → c.mem CACC = ((List.range N).map v).foldl merge 0) := by
  intro p c
  have I : CollInv merge base v N c := collInv_run merge base v N hinj _ sched (collInv_init merge base v N)
  refine ⟨List.isEmpty_iff.2 I.norace, fun hd => ?_⟩
  have hperm := I.order_perm (fun t ht => (coll_done_iff merge base v N c t ht).1 (hd t ht))
  rw [I.acc]
  exact foldl_perm_comm_assoc merge hc ha (hperm.map v) 0

/-- **`ReduceConcurrentMap` with per-goroutine buffers equals one goroutine, for every worker
count.**  Goroutine `s < maxGos` collects the findings `g i` of its strided hand-out
`s, s+maxGos, … < n` in its own buffer; the reduce functions append the buffers to the shared
result.  For every commutative-associative `merge` with unit `0` (the result as a multiset),
every `maxGos ≥ 1`, every `n` and every schedule: no data race, and when the workers are done
the result is the fold over `0 … n-1` in order — what `MaxGos = 1` computes. -/
theorem collect_eq_sequential_all_worker_counts (merge : Val → Val → Val)
    (hc : ∀ a b, merge a b = merge b a) (ha : ∀ a b c, merge (merge a b) c = merge a (merge b c))
    (h0 : ∀ a, merge 0 a = a) (g : Nat → Val) (maxGos n : Nat) (hm : 0 < maxGos) (base : Tid → Val)
    (hinj : ∀ t t', t < maxGos → t' < maxGos → base t = base t' → t = t') (sched : Schedule) :
    let v : Tid → Val := fun s => (strided maxGos n s).foldl (fun a i => merge a (g i)) 0
    let p := collectProgN merge base v maxGos
    let c := run p Config.init sched
    raceFree p sched = true ∧
    ((∀ t, t < maxGos → done p c t = true) →
      c.mem CACC = (List.range n).foldl (fun a i => merge a (g i)) 0) := by
  intro v p c
  obtain ⟨h1, h2⟩ := collect_reduce_correct merge hc ha base v maxGos hinj sched
  refine ⟨h1, fun hd => ?_⟩
  rw [h2 hd]
  exact strided_partials_eq_sequential merge hc ha h0 g hm n

/-- Non-vacuity: 3 workers, 7 indices with findings `i + 1`, own arrays; all done; the result is
`1 + … + 7`, what the loop over `0 … 6` gives. -/
example :
    let v : Tid → Val := fun s => (strided 3 7 s).foldl (fun a i => a + (i + 1)) 0
    let p := collectProgN (· + ·) (fun t => t) v 3
    let c := run p Config.init [0, 1, 1, 1, 2, 1, 0, 1, 2, 1, 2, 2, 2, 2, 0, 0, 0, 0]
    ((List.range 3).all fun t => done p c t) = true ∧ c.mem CACC = 28 ∧
      (List.range 7).foldl (fun a i => a + (i + 1)) 0 = 28 := by
  decide

/-- Non-vacuity: three workers with their own arrays, collecting while others already reduce;
reduce order 1, 2, 0; all done, result 10 + 20 + 30. -/
example :
    let p := collectProgN (· + ·) (fun t => t) (fun t => 10 * (t + 1)) 3
    let c := run p Config.init [0, 1, 1, 1, 2, 1, 0, 1, 2, 1, 2, 2, 2, 2, 0, 0, 0, 0]
    ((List.range 3).all fun t => done p c t) = true ∧ collectOrder c = [1, 2, 0] ∧ c.mem CACC = 60 := by
  decide

/-- **Buffers that share one backing array are not safe**: if the factory cuts every goroutine's
buffer out of the same array (`localInterior := layout.interiorBuf[:0]` — the slice header is the
goroutine's, the array is not), two workers that both collect before either reduces write the
same cell: a data race, and the result holds one worker's finding twice and the other's not at
all (20 + 20 instead of 10 + 20), although every reduce ran under the mutex.  Decided. -/
theorem collect_aliased_buffers_racy :
    let p := collectProgN (· + ·) (fun _ => 0) (fun t => 10 * (t + 1)) 2
    let s : Schedule := [0, 0, 1, 1, 0, 0, 0, 0, 1, 1, 1, 1]
    let c := run p Config.init s
    raceFree p s = false ∧ ((List.range 2).all fun t => done p c t) = true ∧
    c.mem CACC = 40 ∧ ((List.range 2).map fun t => 10 * (t + 1)).foldl (· + ·) 0 = 30 := by
  decide

/-! ### Channel hand-out: `render3d.mapCoordinates` -/

/-- **A buffered channel pre-filled with all indices delivers every index to exactly one
worker.**  Any number of workers `for c := range coords { img.Data[c.idx] = … }`.  Under every
schedule the sequence of deliveries followed by what is still queued is exactly `0 … n-1`
(so nothing is delivered twice or lost), no two workers ever write the same pixel (no race),
every delivered pixel holds its value, and once any worker has left its loop every index has
been delivered exactly once. -/
theorem chan_each_index_once (n : Nat) (g : Val → Val) (sched : Schedule) :
    let c := run (chanProg g) (chanInit n) sched
    c.log.map (·.2) ++ (c.chan CH).map (·.1) = List.range n ∧
    raceFreeFrom (chanProg g) (chanInit n) sched = true ∧
    (∀ v ∈ c.log.map (·.2), c.mem (OUT + v) = g v) ∧
    ((∃ t, done (chanProg g) c t = true) →
      ∀ i, i < n → (c.log.map (·.2)).count i = 1 ∧ c.mem (OUT + i) = g i) := by
  intro c
  have I : ChanInv n g c := chanInv_run n g _ sched (chanInv_init n g)
  refine ⟨I.deliv, List.isEmpty_iff.2 I.norace, I.val, ?_⟩
  rintro ⟨t, ht⟩ i hi
  have hpc : (c.thr t).pc ≠ 0 := by
    have h2 : (chanProg g t).length ≤ (c.thr t).pc := of_decide_eq_true ht
    simp only [chanProg, chanWorker, List.length_cons, List.length_nil] at h2
    omega
  have hd := I.deliv
  rw [I.drained t hpc, List.map_nil, List.append_nil] at hd
  have hmem : i ∈ c.log.map (·.2) := hd ▸ List.mem_range.2 hi
  exact ⟨hd ▸ count_range_eq_one hi, I.val i hmem⟩

/-- Non-vacuity: 5 pixels, 2 workers taking turns; both leave, all pixels written. -/
example :
    let g : Val → Val := fun v => v + 100
    let c := run (chanProg g) (chanInit 5) [0, 1, 1, 0, 1, 0, 1]
    c.log = [(0, 0), (1, 1), (1, 2), (0, 3), (1, 4)] ∧ done (chanProg g) c 0 = true ∧
      (List.range 5).map (fun i => c.mem (OUT + i)) = [100, 101, 102, 103, 104] := by
  decide

/-! ### Channel hand-off: `asyncSolidCache.FetchZ` → `squareSpacer.Scan` -/

/-- **A buffer filled by a goroutine and signalled over a channel is read race-free and
complete.**  Producer: plain write of the buffer, then `Done <- struct{}{}`; consumer:
`<-Done`, then plain read.  Under every schedule there is no data race, and a consumer that
has finished read the value the producer wrote. -/
theorem handoff_race_free (v : Val) (sched : Schedule) :
    let c := run (handoffProg v) Config.init sched
    raceFree (handoffProg v) sched = true ∧ (done (handoffProg v) c 1 = true → (c.thr 1).out = v) := by
  intro c
  have I : HandInv v c := handInv_run v _ sched (handInv_init v)
  refine ⟨List.isEmpty_iff.2 I.norace, fun hd => I.got ?_⟩
  have h2 : (handoffProg v 1).length ≤ (c.thr 1).pc := of_decide_eq_true hd
  have := I.pc1
  simp [handoffProg] at h2
  omega

/-- Non-vacuity: the consumer is scheduled first (blocks), then everything runs. -/
example :
    let c := run (handoffProg 7) Config.init [1, 1, 0, 1, 0, 1, 1]
    done (handoffProg 7) c 1 = true ∧ (c.thr 1).out = 7 := by
  decide

/-! ### `HeightMap.updateAt` from `AddSpheresSDF` workers -/

/-- **With the callers holding a mutex, a cell ends up as the maximum of all proposed heights
and the `changed` results are consistent.**  `N` workers each do
`Lock; if cell < h t { cell = h t; changed = true }; Unlock`.  For every `N`, all heights and
every schedule: no data race; the cell never exceeds a proposed height; when all workers are
done the cell is `max(0, h 0, …, h (N-1))`; and some worker reported `changed` iff the cell
differs from its initial value. -/
theorem updateAt_locked_is_max (hs : Tid → Val) (N : Nat) (sched : Schedule) :
    let p := updProgN hs N
    let c := run p Config.init sched
    raceFree p sched = true ∧
    (c.mem CELL = 0 ∨ ∃ t, t < N ∧ c.mem CELL = hs t) ∧
    ((∃ t, t < N ∧ (c.thr t).flag = true) ↔ c.mem CELL ≠ 0) ∧
    ((∀ t, t < N → done p c t = true) → c.mem CELL = maxHeights hs N) := by
  intro p c
  have I : UpdInv hs N c := updInv_run hs N _ sched (updInv_init hs N)
  refine ⟨List.isEmpty_iff.2 I.norace, I.att, ⟨fun ⟨t, _, hf⟩ => I.flag_nz t hf, I.nz_flag⟩, fun hd => ?_⟩
  exact eq_maxHeights hs N _ (fun t ht => I.ub t (by have := (upd_done_iff hs N c t ht).1 (hd t ht); omega)) I.att

/-- Non-vacuity: heights 5, 3, 9 in the lock order 1, 0, 2: final 9, workers 1, 0, 2 report
changed = true, true, true; in the order 2, 0, 1 only worker 2 does. -/
example :
    let hs : Tid → Val := fun t => [5, 3, 9].getD t 0
    let c := run (updProgN hs 3) Config.init [1, 1, 1, 1, 0, 0, 0, 0, 2, 2, 2, 2]
    let c' := run (updProgN hs 3) Config.init [2, 2, 2, 2, 0, 0, 0, 0, 1, 1, 1, 1]
    c.mem CELL = 9 ∧ (List.range 3).map (fun t => (c.thr t).flag) = [true, true, true] ∧
      c'.mem CELL = 9 ∧ (List.range 3).map (fun t => (c'.thr t).flag) = [false, false, true] := by
  decide

/-- **The unsynchronised `updateAt` (the code as it was: plain read, compare, plain write from
several `StatefulConcurrentMap` workers) has a schedule with a data race and a lost update.**
Explicit two-goroutine witness: heights 5 and 3 on one cell, both read 0, 5 is written, then 3
overwrites it — the final value 3 is not the maximum 5 (decided by evaluation). -/
theorem updateAt_racy :
    ∃ sched : Schedule,
      let p : Program := fun t => if t < 2 then updateAtRacy ([5, 3].getD t 0) else []
      raceFree p sched = false ∧
      ((List.range 2).all fun t => done p (run p Config.init sched) t) = true ∧
      (run p Config.init sched).mem CELL = 3 ∧ maxHeights (fun t => [5, 3].getD t 0) 2 = 5 :=
  ⟨[0, 1, 0, 1], by decide⟩

/-! ### Immutable query structures: `JoinedCollider`, `profileCollider`, `colorFuncObject`, … -/

/-- **Queries that write only state of their own call and read only that state and the immutable
structure never race and compute what they compute alone.**  `own t l` says that location `l`
belongs to (the calls made by) goroutine `t`, `shared l` that `l` is part of the structure;
no location has two owners and a shared location has none.  Every goroutine runs an arbitrary
straight-line program of plain reads, plain writes and local computation that writes only
locations it owns and reads only locations it owns or shared ones (`stepRO`).  Then for every
initial memory `m0` (the structure as constructed), every schedule and every number of
goroutines: there is no data race; the structure still holds `m0`; and for every goroutine its
registers (`viewOf`: program counter, last value read = its answers, …) and the memory it owns
are exactly those of the execution in which it performs the same number of steps alone
(`alone sched t`, sequential use). -/
theorem owned_state_noninterference (own : Tid → Loc → Bool) (shared : Loc → Bool)
    (hdisj : ∀ t t' l, own t l = true → own t' l = true → t = t')
    (hsh : ∀ t l, shared l = true → own t l = false)
    (p : Program) (hp : ∀ t, ∀ s ∈ p t, stepRO own shared t s = true)
    (m0 : Loc → Val) (sched : Schedule) :
    let c0 : Config := { Config.init with mem := m0 }
    let c := run p c0 sched
    raceFreeFrom p c0 sched = true ∧
    (∀ l, shared l = true → c.mem l = m0 l) ∧
    (∀ t, viewOf c t = viewOf (run p c0 (alone sched t)) t ∧
      ∀ l, own t l = true → c.mem l = (run p c0 (alone sched t)).mem l) := by
  intro c0 c
  have I : OwnInv own shared m0 c :=
    ownInv_run own shared hdisj hsh p hp m0 c0 sched ⟨by simp [c0, Config.init], by simp [c0, Config.init], fun _ _ => rfl⟩
  refine ⟨List.isEmpty_iff.2 I.norace, I.frozen, fun t => ?_⟩
  have A := agree_run own shared hdisj hsh p hp t sched c0 c0 (Agree.refl own shared t c0)
  exact ⟨A.1, fun l hl => A.2 l (Or.inl hl)⟩

/-- The library's staged query (`queryLocalProg`: read the structure, stage the intermediate
result in a buffer / material allocated by the call, do other work, consume it) respects the
ownership discipline, for every goroutine. -/
theorem queryLocal_respects_ownership (f : Val → Val → Val) (xs : Tid → Val) (t : Tid) :
    ∀ s ∈ queryLocalProg f xs t, stepRO queryOwn queryShared t s = true := by
  intro s hs
  simp only [queryLocalProg, queryThread, List.mem_cons, List.mem_nil_iff, or_false] at hs
  rcases hs with rfl | rfl | rfl | rfl <;> simp [stepRO, queryOwn, queryShared, STRUCT, PRIV]

/-- **Concurrent queries on an immutable structure give the sequential answers.**  Any number of
goroutines query one structure with data `s`, goroutine `t` with input `xs t` (a ray, a point);
each stages `f s (xs t)` in state of its own call and consumes it later.  Under every schedule:
no data race, the structure is unchanged, and every query that has returned returned
`f s (xs t)` — the answer of sequential use. -/
theorem query_local_scratch_eq_sequential (f : Val → Val → Val) (xs : Tid → Val) (s : Val) (sched : Schedule) :
    let p := queryLocalProg f xs
    let c := run p (structInit s) sched
    raceFreeFrom p (structInit s) sched = true ∧ c.mem STRUCT = s ∧
    ∀ t, done p c t = true → (c.thr t).out = f s (xs t) := by
  intro p c
  have hdisj : ∀ t t' l, queryOwn t l = true → queryOwn t' l = true → t = t' := by
    intro t t' l h1 h2
    simp only [queryOwn, beq_iff_eq, PRIV] at h1 h2
    subst h1
    exact Nat.add_left_cancel h2
  have hsh : ∀ t l, queryShared l = true → queryOwn t l = false := by
    intro t l h
    simp only [queryShared, queryOwn, beq_iff_eq, STRUCT, PRIV, beq_eq_false_iff_ne] at h ⊢
    intro h'
    exact Nat.ne_of_lt (Nat.add_pos_left (by decide) t) (h.symm.trans h')
  have H := owned_state_noninterference queryOwn queryShared hdisj hsh p
    (queryLocal_respects_ownership f xs) (upd Config.init.mem STRUCT s) sched
  change raceFreeFrom p (structInit s) sched = true ∧
    (∀ l, queryShared l = true → c.mem l = upd Config.init.mem STRUCT s l) ∧
    (∀ t, viewOf c t = viewOf (run p (structInit s) (alone sched t)) t ∧
      ∀ l, queryOwn t l = true → c.mem l = (run p (structInit s) (alone sched t)).mem l) at H
  obtain ⟨h1, h2, h3⟩ := H
  refine ⟨h1, ?_, fun t ht => ?_⟩
  · rw [h2 STRUCT (by simp [queryShared])]
    simp [upd]
  · have hv := (h3 t).1
    rw [alone_eq_replicate] at hv
    simp only [viewOf, View.mk.injEq] at hv
    obtain ⟨e1, _, e3, _⟩ := hv
    have hpc : 4 ≤ (c.thr t).pc := by
      have : (p t).length ≤ (c.thr t).pc := of_decide_eq_true ht
      simpa [p, queryLocalProg, queryThread] using this
    have hsolo : (sched.count t < 4 →
          ((run p (structInit s) (List.replicate (sched.count t) t)).thr t).pc = sched.count t) ∧
        (4 ≤ sched.count t →
          ((run p (structInit s) (List.replicate (sched.count t) t)).thr t).out = f s (xs t)) :=
      query_solo f xs s t (sched.count t)
    have hk : 4 ≤ sched.count t := by
      by_contra hlt
      have := hsolo.1 (by omega)
      omega
    rw [e3]
    exact hsolo.2 hk

/-- Non-vacuity: three goroutines with different inputs, interleaved step by step; all return,
each with its own answer. -/
example :
    let p := queryLocalProg (fun s x => s + x) (fun t => 10 * (t + 1))
    let c := run p (structInit 5) [0, 1, 2, 0, 1, 2, 2, 1, 0, 0, 1, 2]
    ((List.range 3).all fun t => done p c t) = true ∧ (List.range 3).map (fun t => (c.thr t).out) = [15, 25, 35] := by
  decide

/-- **Staging in a field of the shared structure is not safe**: the same query with the buffer
kept on the structure (`p.rayBuf`, `c.mat`, a reordered child list) violates the ownership
discipline, and the *interrupted query* schedule the harness forces — goroutine 0 parked after
staging, goroutine 1 running a complete query, goroutine 0 resumed — has a data race and gives
goroutine 0 the answer to goroutine 1's input (25 instead of 15).  Decided by evaluation. -/
theorem query_field_scratch_racy :
    let p := queryFieldProg (fun s x => s + x) (fun t => 10 * (t + 1))
    let c := run p (structInit 5) (interrupted 2)
    progRO queryOwn queryShared p 2 = false ∧
    raceFreeFrom p (structInit 5) (interrupted 2) = false ∧
    ((List.range 2).all fun t => done p c t) = true ∧
    (c.thr 0).out = 25 ∧ (c.thr 1).out = 25 ∧
    ((run p (structInit 5) (alone (interrupted 2) 0)).thr 0).out = 15 := by
  decide

/-! ### Enumerating a shared mesh: `Mesh.Iterate`, `Mesh.IterateSorted` (model3d, model2d) -/

/-- **Concurrent enumerations of one mesh each visit every face exactly once, in their own
order.**  Any number of goroutines call `Iterate` / `IterateSorted(f, cmp)` on one mesh with
face set `s` and `n` faces; reader `t` sorts with its own comparison function (`srt t`; the
identity for `Iterate`) the list that `TriangleSlice()` / `SegmentSlice()` allocated for this
call, and hands the faces at positions `0 … n-1` of that list to its callback, which records
them (`snoc`) and may keep the reader inside user code for any time.  Under every schedule —
in particular with one reader parked inside its callback while others sort and enumerate with
other comparison functions: no data race, the face set is unchanged, and every reader that has
returned has been given exactly the faces `nth (srt t s) 0, …, nth (srt t s) (n-1)` in this
order: what the same call is given in sequential use. -/
theorem iterate_private_list_eq_sequential (srt : Tid → Val → Val) (nth : Val → Nat → Val)
    (snoc : Val → Val → Val) (n : Nat) (s : Val) (sched : Schedule) :
    let p := iterLocalProg srt nth snoc n
    let c := run p (structInit s) sched
    raceFreeFrom p (structInit s) sched = true ∧ c.mem FACES = s ∧
    ∀ t, done p c t = true →
      c.mem (ILOG t) = (List.range n).foldl (fun lg j => snoc lg (nth (srt t s) j)) 0 := by
  intro p c
  have H := owned_state_noninterference iterOwn iterShared iterOwn_disj iterShared_unowned p
    (iterLocal_RO srt nth snoc n) (upd Config.init.mem STRUCT s) sched
  change raceFreeFrom p (structInit s) sched = true ∧
    (∀ l, iterShared l = true → c.mem l = upd Config.init.mem STRUCT s l) ∧
    (∀ t, viewOf c t = viewOf (run p (structInit s) (alone sched t)) t ∧
      ∀ l, iterOwn t l = true → c.mem l = (run p (structInit s) (alone sched t)).mem l) at H
  obtain ⟨h1, h2, h3⟩ := H
  refine ⟨h1, ?_, fun t ht => ?_⟩
  · rw [h2 FACES (by simp [iterShared])]
    simp [upd, FACES]
  · obtain ⟨hv, hm⟩ := h3 t
    rw [hm (ILOG t) (by simp [iterOwn])]
    rw [alone_eq_replicate] at hv ⊢
    have S := solo_run p t (fun st hs => stepRO_isPlain _ _ t st (iterLocal_RO srt nth snoc n t st hs))
      (structInit s) rfl (sched.count t)
    have hpceq : (c.thr t).pc = ((run p (structInit s) (List.replicate (sched.count t) t)).thr t).pc := by
      have := congrArg View.pc hv
      simpa [viewOf] using this
    have hdone : (p t).length ≤ (c.thr t).pc := of_decide_eq_true ht
    have hk : (p t).length ≤ sched.count t := by
      rw [hpceq, S.1] at hdone
      exact Nat.le_trans hdone (Nat.min_le_left _ _)
    have e := congrArg Prod.fst S.2
    simp only at e
    rw [e, List.take_of_length_le hk]
    have hne : ILIST t ≠ ILOG t := by
      simp only [ILIST, ILOG, ne_eq]
      exact fun h => absurd (Nat.add_right_cancel h) (by decide)
    have hl : ILOG t ≠ FACES := by
      simp only [ILOG, FACES, STRUCT, ne_eq]
      exact fun h => absurd h (Nat.ne_of_gt (Nat.add_pos_left (by decide) _))
    have I := interp_iterThread (srt t) nth snoc n (ILIST t) (ILOG t) hne hl (structInit s).mem
      ((structInit s).thr t).out
    have m1 : (structInit s).mem FACES = s := by simp [structInit, upd, FACES]
    have m2 : (structInit s).mem (ILOG t) = 0 := by
      simp only [structInit]
      exact upd_other _ _ hl
    rw [m1, m2] at I
    exact I

/-- Non-vacuity: a mesh with the three faces 1, 2, 3 (a list is the decimal number with these
digits), reader 0 without a comparison function, reader 1 sorting in descending order, reader 2
plain again; reader 0 is parked inside its first callback while reader 1 runs completely, then all
interleave.  Every reader is given its own order, each face once. -/
example :
    let srt : Tid → Val → Val := fun t => if t = 1 then rev3 else id
    let p := iterLocalProg srt nth3 snoc10 3
    let s : Schedule := List.replicate 5 0 ++ List.replicate 11 1 ++
      [2, 0, 2, 0, 2, 0, 2, 0, 2, 0, 2, 0, 2, 2, 2, 2, 2]
    let c := run p (structInit 123) s
    ((List.range 3).all fun t => done p c t) = true ∧
      (List.range 3).map (fun t => c.mem (ILOG t)) = [123, 321, 123] := by
  decide

/-- **A face list cached in the mesh and sorted in place is not safe**: if the enumerations
share one list (`all := m.getFaceList()`) and a reader with a comparison function sorts that
list, the *interrupted reader* schedule the harness forces — reader 0 parked inside its first
callback, reader 1 running a complete `IterateSorted` in descending order, reader 0 resumed —
has a data race on the list and gives reader 0 the faces 1, 2, 1: face 1 twice, face 3 never,
where the same call alone is given 1, 2, 3.  Decided by evaluation. -/
theorem iterate_shared_list_racy :
    let srt : Tid → Option (Val → Val) := fun t => if t = 1 then some rev3 else none
    let p := iterSharedProg srt nth3 snoc10 3
    let s : Schedule := List.replicate 3 0 ++ List.replicate 11 1 ++ List.replicate 6 0
    let c := run p (structInit 123) s
    raceFreeFrom p (structInit 123) s = false ∧ ((List.range 2).all fun t => done p c t) = true ∧
    c.mem (ILOG 0) = 121 ∧ c.mem (ILOG 1) = 321 ∧
    (run p (structInit 123) (alone s 0)).mem (ILOG 0) = 123 := by
  decide

/-! ### Deriving a solid from a shared union: `JoinedSolid.Optimize` (model3d, model2d) -/

/-- **`Optimize()` and queries of one union do not disturb each other.**  Any number of goroutines
use one `JoinedSolid` with part list `s` and `n` parts: goroutine `t` either derives an optimized
solid (`grp t = some g`: it groups, with the permutation `g`, the copy of the list that its call
made, `append([]Solid{}, j...)`, and builds the hierarchy from that copy), or runs a query
(`grp t = none`: `Contains` / `Min` / `Max`) that loads the parts one by one from the shared list —
it may stay inside a part's `Contains` (user code) for any time between two loads — and folds
their answers with `acc t`.  Under every schedule, in particular with a query parked inside a
part while other goroutines run complete `Optimize()` calls: no data race; the part list is
unchanged; every query that has returned returned the fold of `acc t` over the parts
`nth s 0, …, nth s (n-1)` — for `Contains`: whether some part contains the point, the answer of
sequential use —; and every `Optimize()` that has returned built its hierarchy from `g s`. -/
theorem optimize_private_copy_eq_sequential (grp : Tid → Option (Val → Val)) (nth : Val → Nat → Val)
    (acc : Tid → Val → Val → Val) (n : Nat) (s : Val) (sched : Schedule) :
    let p := unionProg grp nth acc n
    let c := run p (structInit s) sched
    raceFreeFrom p (structInit s) sched = true ∧ c.mem PARTS = s ∧
    (∀ t, grp t = none → done p c t = true →
      c.mem (UANS t) = (List.range n).foldl (fun a k => acc t a (nth s k)) 0) ∧
    (∀ t g, grp t = some g → done p c t = true →
      (c.thr t).out = g s ∧ c.mem (UCOPY t) = g s) := by
  intro p c
  have H := owned_state_noninterference iterOwn iterShared iterOwn_disj iterShared_unowned p
    (unionProg_RO grp nth acc n) (upd Config.init.mem STRUCT s) sched
  change raceFreeFrom p (structInit s) sched = true ∧
    (∀ l, iterShared l = true → c.mem l = upd Config.init.mem STRUCT s l) ∧
    (∀ t, viewOf c t = viewOf (run p (structInit s) (alone sched t)) t ∧
      ∀ l, iterOwn t l = true → c.mem l = (run p (structInit s) (alone sched t)).mem l) at H
  obtain ⟨h1, h2, h3⟩ := H
  have m1 : (structInit s).mem PARTS = s := by simp [structInit, upd, PARTS]
  -- what a goroutine that has returned computed, from its run alone
  have solo : ∀ t, done p c t = true →
      (∀ l, iterOwn t l = true → c.mem l = (interp (p t) ((structInit s).mem, ((structInit s).thr t).out)).1 l) ∧
      (c.thr t).out = (interp (p t) ((structInit s).mem, ((structInit s).thr t).out)).2 := by
    intro t ht
    obtain ⟨hv, hm⟩ := h3 t
    rw [alone_eq_replicate] at hv hm
    have S := solo_run p t (fun st hs => stepRO_isPlain _ _ t st (unionProg_RO grp nth acc n t st hs))
      (structInit s) rfl (sched.count t)
    have hpceq : (c.thr t).pc = ((run p (structInit s) (List.replicate (sched.count t) t)).thr t).pc := by
      have := congrArg View.pc hv
      simpa [viewOf] using this
    have houteq : (c.thr t).out = ((run p (structInit s) (List.replicate (sched.count t) t)).thr t).out := by
      have := congrArg View.out hv
      simpa [viewOf] using this
    have hdone : (p t).length ≤ (c.thr t).pc := of_decide_eq_true ht
    have hk : (p t).length ≤ sched.count t := by
      rw [hpceq, S.1] at hdone
      exact Nat.le_trans hdone (Nat.min_le_left _ _)
    have e := S.2
    rw [List.take_of_length_le hk] at e
    refine ⟨fun l hl => ?_, ?_⟩
    · rw [hm l hl]
      exact congrFun (congrArg Prod.fst e) l
    · rw [houteq]
      exact congrArg Prod.snd e
  refine ⟨h1, ?_, fun t hg ht => ?_, fun t g hg ht => ?_⟩
  · rw [h2 PARTS (by simp [iterShared, PARTS, FACES])]
    simp [upd, PARTS]
  · obtain ⟨hm, _⟩ := solo t ht
    rw [hm (UANS t) (by simp [iterOwn, UANS])]
    have hp : p t = unionVisits nth (acc t) PARTS (UANS t) (List.range n) := by
      simp [p, unionProg, hg, unionQueryThread]
    have hne : PARTS ≠ UANS t := by
      simp only [PARTS, UANS, ILOG, STRUCT, ne_eq]
      exact fun h => absurd h.symm (Nat.ne_of_gt (Nat.add_pos_left (by decide) _))
    rw [hp, (interp_unionVisits nth (acc t) PARTS (UANS t) hne (List.range n) _ _).1, m1]
    have m2 : (structInit s).mem (UANS t) = 0 := by
      simp only [structInit]
      exact upd_other _ _ (Ne.symm hne)
    rw [m2]
  · obtain ⟨hm, ho⟩ := solo t ht
    have hp : p t = optimizeThread g (UCOPY t) := by simp [p, unionProg, hg]
    have I := interp_optimizeThread g (UCOPY t) (structInit s).mem ((structInit s).thr t).out
    rw [m1] at I
    refine ⟨?_, ?_⟩
    · rw [ho, hp]; exact I.2
    · rw [hm (UCOPY t) (by simp [iterOwn, UCOPY]), hp]; exact I.1

/-- Non-vacuity: a union of the parts 3, 2, 1 (the list is the decimal number 321); goroutine 0
asks for a point that lies in part 1 only and is parked inside its first part while goroutine 1
runs a complete `Optimize()` (grouping = reversal), then goroutine 2 (another `Contains`) and
goroutine 0 interleave.  Both queries answer 1, `Optimize()` built its hierarchy from 123. -/
example :
    let grp : Tid → Option (Val → Val) := fun t => if t = 1 then some rev3 else none
    let p := unionProg grp nth3 (fun _ => accIn1) 3
    let s : Schedule := [0, 0] ++ List.replicate 4 1 ++ [2, 0, 2, 0, 2, 0, 2, 0, 2, 0, 2, 0, 2, 0, 2, 2]
    let c := run p (structInit 321) s
    ((List.range 3).all fun t => done p c t) = true ∧
      c.mem (UANS 0) = 1 ∧ (c.thr 1).out = 123 ∧ c.mem (UANS 2) = 1 ∧ c.mem PARTS = 321 := by
  decide

/-- **`Optimize()` grouping the union's own slice is not safe**: with `GroupBounders(j)` instead of
a grouped copy, the *interrupted query* schedule the harness forces — `Contains` of goroutine 0
parked inside the first part (part 3), goroutine 1 running a complete `Optimize()` that reverses
the list, goroutine 0 resumed — has a data race on the part list, and goroutine 0 is shown the
parts 3, 2, 3: part 3 twice, part 1 (the one that contains its point) never.  It answers 0 where
the same call alone answers 1; the list is left reordered.  Decided by evaluation. -/
theorem optimize_in_place_racy :
    let grp : Tid → Option (Val → Val) := fun t => if t = 1 then some rev3 else none
    let p := unionInPlaceProg grp nth3 (fun _ => accIn1) 3
    let s : Schedule := [0, 0] ++ List.replicate 4 1 ++ List.replicate 7 0
    let c := run p (structInit 321) s
    raceFreeFrom p (structInit 321) s = false ∧ ((List.range 2).all fun t => done p c t) = true ∧
    c.mem (UANS 0) = 0 ∧ c.mem PARTS = 123 ∧
    (run p (structInit 321) (alone s 0)).mem (UANS 0) = 1 := by
  decide

/-! ### One renderer, several calls: `Render`, `RenderVariance`, `RayVariance` -/

/-- **Overlapping calls on one renderer each sample with the configuration they sample with
alone.**  Any number of goroutines call entry points of one `RecursiveRayTracer` /
`BidirPathTracer` whose `Antialias` field is `cfg`: goroutine `t` calls `Render` /
`RenderVariance` (`kinds t = 0`) or `RayVariance` (`kinds t ≠ 0`, "antialiasing is not used").
Every call copies the fields into a `rayRenderer` of its own (`RayVariance` into a further copy
with `Antialias = 0`) before its workers cast rays into the user's scene, and the workers read
that copy.  Under every schedule — in particular with one call parked inside the scene's `Cast`
while others run: no data race, the renderer's field is unchanged, and every call that has
returned sampled with `effCfg cfg (kinds t)`: the renderer's value for `Render` /
`RenderVariance`, `0` for `RayVariance` — as in sequential use. -/
theorem renderer_calls_private_config_eq_sequential (kinds : Tid → Val) (cfg : Val) (sched : Schedule) :
    let p := renderCallProg kinds
    let c := run p (structInit cfg) sched
    raceFreeFrom p (structInit cfg) sched = true ∧ c.mem CFG = cfg ∧
    ∀ t, done p c t = true → (c.thr t).out = effCfg cfg (kinds t) :=
  query_local_scratch_eq_sequential effCfg kinds cfg sched

/-- Non-vacuity: `RayVariance` (goroutine 0) parked inside the scene while `Render` (1) and
`RenderVariance` (2) run on the same renderer with `Antialias = 2`: they sample with 0, 2, 2. -/
example :
    let p := renderCallProg (fun t => if t = 0 then 1 else 0)
    let c := run p (structInit 2) [0, 0, 0, 1, 2, 1, 2, 1, 2, 1, 2, 0]
    ((List.range 3).all fun t => done p c t) = true ∧
      (List.range 3).map (fun t => (c.thr t).out) = [0, 2, 2] ∧ c.mem CFG = 2 := by
  decide

/-- **Switching antialiasing off in the renderer's own field is not safe**: if `RayVariance`
saves, zeroes and afterwards restores `r.Antialias` instead of zeroing a private copy, then
(1) with goroutine 0 parked inside the scene's `Cast` of its `RayVariance`, a complete `Render`
of goroutine 1 on the same renderer (`Antialias = 2`) snapshots 0 — it renders without
antialiasing, although the same call alone samples with 2 — and its read races with the writes
of goroutine 0; and (2) two overlapping `RayVariance` calls can leave the renderer with
`Antialias = 0` for good (the second saves the zeroed value and restores it last).  Decided. -/
theorem renderer_config_field_racy :
    let p := rendererFieldProg (fun t => if t = 0 then 1 else 0)
    let s : Schedule := [0, 0, 0, 1, 1, 1, 1, 0]
    let c := run p (structInit 2) s
    let p2 := rendererFieldProg (fun _ => 1)
    let c2 := run p2 (structInit 2) [0, 0, 1, 1, 0, 0, 1, 1]
    raceFreeFrom p (structInit 2) s = false ∧ ((List.range 2).all fun t => done p c t) = true ∧
    (c.thr 1).out = 0 ∧ effCfg 2 0 = 2 ∧ c.mem CFG = 2 ∧
    ((run p (structInit 2) (alone s 1)).thr 1).out = 2 ∧
    ((List.range 2).all fun t => done p2 c2 t) = true ∧ c2.mem CFG = 0 := by
  decide

/-! ### Progress reports of a rendering: `rayRenderer.Render`, `LogFunc` -/

/-- **Only the goroutine that called `Render` counts pixels and reports progress.**  The pixel
tasks (threads `0 … n-1`) color their pixel and send the number of samples over the progress
channel; the caller (thread `n`) receives, increments `pixelsComplete` and calls `LogFunc`, once
per pixel.  Under every schedule, for every `n`: no data race; every access of the counter is
the caller's (so the reports are made by one goroutine, one after the other); the counter is the
number of reports made so far — it goes up by exactly one per report, never loses an update —
and when the caller has returned it is `n`: the reports were `1/n, 2/n, …, n/n`, as when the
pixels are colored one after the other. -/
theorem progress_reports_single_consumer (n : Nat) (sched : Schedule) :
    let p := progressProg n
    let c := run p Config.init sched
    raceFree p sched = true ∧ (∀ a ∈ c.hist, a.tid = n) ∧
    c.mem CNT = (c.thr n).pc / 2 ∧ c.mem CNT ≤ n ∧
    (done p c n = true → c.mem CNT = n) := by
  intro p c
  have I : ProgInv n c := progInv_run n _ sched (progInv_init n)
  have hle : c.mem CNT ≤ n := by
    rw [I.cnt]
    exact Nat.div_le_of_le_mul I.pcle
  refine ⟨List.isEmpty_iff.2 I.norace, I.hist, I.cnt, hle, fun hd => ?_⟩
  have h2 : (p n).length ≤ (c.thr n).pc := of_decide_eq_true hd
  have hp : p n = progressConsumer n := by simp [p, progressProg]
  rw [hp, progressConsumer_length] at h2
  have hpc : (c.thr n).pc = 2 * n := Nat.le_antisymm I.pcle h2
  rw [I.cnt, hpc]
  exact Nat.mul_div_cancel_left n (by decide)

/-- Non-vacuity: three pixels; the caller is scheduled first (blocks on the empty channel), the
workers finish in the order 2, 0, 1; three reports, counter 3. -/
example :
    let p := progressProg 3
    let c := run p Config.init [3, 2, 2, 3, 3, 0, 1, 0, 3, 1, 3, 3, 3]
    done p c 3 = true ∧ c.mem CNT = 3 ∧ raceFree p [3, 2, 2, 3, 3, 0, 1, 0, 3, 1, 3, 3, 3] = true := by
  decide

/-- **Counters updated by the pixel workers themselves are not safe**: with the channel removed
and every worker doing `pixelsComplete++` itself, two workers that both read the counter before
either writes it race and lose an update (2 pixels colored, counter 1 — the last report is 1/2,
not 1).  Decided by evaluation. -/
theorem progress_counters_in_workers_racy :
    let p := progressRacyProg 2
    let s : Schedule := [0, 1, 0, 1, 0, 1]
    let c := run p Config.init s
    raceFree p s = false ∧ ((List.range 2).all fun t => done p c t) = true ∧ c.mem CNT = 1 := by
  decide

/-! ### `sync.Map` memoisation: `model2d.CacheScalarFunc` -/

/-- **Every caller of the cached function gets `f x`, whatever the schedule.**  Any number of
goroutines call `cached(x)` for one `x`: `Load`; if present return the stored value; otherwise
evaluate `f x` themselves and `Store` it (`v = f x + 1`, `0` = absent).  Under every schedule
the entry is absent or holds `f x`, every caller that has returned returned `f x` — in
particular a caller that overlaps the first evaluation — and there is no plain access at all
(so no data race). -/
theorem cache_memo_returns_fx (v : Val) (hv : v ≠ 0) (sched : Schedule) :
    let c := run (cacheProg v) Config.init sched
    (c.mem CACHE = 0 ∨ c.mem CACHE = v) ∧
    (∀ t, done (cacheProg v) c t = true → (c.thr t).reg = v) ∧
    raceFree (cacheProg v) sched = true := by
  intro c
  have I : CacheInv v c := cacheInv_run v hv _ sched (cacheInv_init v)
  refine ⟨I.cell, fun t ht => ?_, List.isEmpty_iff.2 I.norace⟩
  have h4 : (cacheProg v t).length ≤ (c.thr t).pc := of_decide_eq_true ht
  have := I.pcle t
  simp only [cacheProg, cacheThread, List.length_cons, List.length_nil] at h4
  exact I.r4 t (by omega)

/-- Non-vacuity: the second caller arrives while the first is still evaluating `f x`
(schedule-wise: between its `Load` and its `Store`); both return `f x`. -/
example :
    let c := run (cacheProg 8) Config.init [0, 0, 0, 1, 1, 1, 1, 0, 2, 2]
    ((List.range 3).all fun t => done (cacheProg 8) c t) = true ∧
      (List.range 3).map (fun t => (c.thr t).reg) = [8, 8, 8] := by
  decide

/-- **"Claim the entry first" is not safe**: publishing an empty slot with `LoadOrStore` and
filling it after `f x` returned lets a caller that finds the entry read the slot before it is
filled: with the interrupted schedule (goroutine 0 parked inside `f`, goroutine 1 complete,
goroutine 0 resumed) goroutine 1 returns 0 instead of `f x`, and its read races with the
owner's write.  Decided by evaluation. -/
theorem cache_claim_first_racy :
    let p := cacheClaimProg 8
    let s : Schedule := [0, 0, 0, 0, 1, 1, 1, 0, 0]
    let c := run p Config.init s
    raceFree p s = false ∧ ((List.range 2).all fun t => done p c t) = true ∧
    (c.thr 0).out = 8 ∧ (c.thr 1).out = 0 := by
  decide

/-! ### Facts: the shape of the current source is the shape the model assumes

`M3d.Gen.ConcFacts` is regenerated from /repo (go/ast) before every build.  The theorems
below are re-checked against it, so an edit that drops the re-check, moves the `Store` before
the build, removes a `Lock`, or makes a worker write captured state outside the proved-safe
classes breaks a proof obligation (the check then searches for a concrete failing schedule
with the model driver and for a race report / differing answer with the real code). -/
open M3d.Gen

/-- The thread program all DCL theorems are about *is* the program denoted by `dclShape`. -/
theorem dcl_model_is_shape (t : Tid) : dclOfShape dclShape t = dclThread t := rfl

/-- `getVertexToFace` in model3d/mesh.go and model2d/mesh.go has exactly the modelled statement
sequence (atomic load, return-if-set, lock, deferred unlock, atomic load, return-if-set,
alloc, build into the fresh object only, atomic store, return); `getVertexToFaceOrNil` is a
single `atomic.Value.Load`; the fields are an `atomic.Value` and a `sync.Mutex`; and no other
function of mesh.go touches them except `clearVertexToFace` (a documented mutation). -/
theorem facts_getVertexToFace :
    ConcFacts.getVertexToFace3d = dclShape ∧ ConcFacts.getVertexToFace2d = dclShape ∧
    ConcFacts.orNilIsAtomicLoad3d = true ∧ ConcFacts.orNilIsAtomicLoad2d = true ∧
    ConcFacts.v2fFieldTypes3d = ["v2fCreateLock:sync.Mutex", "vertexToFace:atomic.Value"] ∧
    ConcFacts.v2fFieldTypes2d = ["v2fCreateLock:sync.Mutex", "vertexToFace:atomic.Value"] ∧
    ConcFacts.v2fTouchers3d = ["clearVertexToFace", "getVertexToFace", "getVertexToFaceOrNil"] ∧
    ConcFacts.v2fTouchers2d = ["clearVertexToFace", "getVertexToFace", "getVertexToFaceOrNil"] := by
  decide

/-- **Every worker closure of the anchored files touches captured state only in proved-safe
ways**: writes to its own index / own element (`index_partition_race_free`), writes under a
mutex shared by the workers or in a `ReduceConcurrentMap` reduce function
(`mutex_reduction_correct`, `updateAt_locked_is_max`), channel operations
(`chan_each_index_once`), `sync.Map`/`atomic.Value` calls, or a write handed over by a channel
send.  No unguarded write, no unguarded call of a mutating method. -/
theorem facts_workers_safe : ConcFacts.workers.all Worker.safe = true := by decide

/-- The worker sites the model instances stand for are all present in the extracted facts
(so the previous theorem is not vacuous after a refactor that hides them from the extractor). -/
theorem facts_workers_cover :
    ([("model3d/mc.go", "MarchingCubesFilter#go1"), ("model3d/mc.go", "mcSearch#ConcurrentMap1"),
      ("model3d/mc.go", "asyncSolidCache.FetchZ#go1"),
      ("model3d/dc.go", "DualContouring.populateCorners#ConcurrentMap1"),
      ("model3d/dc.go", "DualContouring.populateEdges#ReduceConcurrentMap.iter1"),
      ("model3d/dc.go", "DualContouring.populateCubes#ConcurrentMap1"),
      ("model3d/dc.go", "DualContouring.appendMesh#ReduceConcurrentMap.reduce1"),
      ("model2d/rasterize.go", "Rasterizer.RasterizeSolid#ConcurrentMap1"),
      ("model2d/rasterize.go", "Rasterizer.RasterizeSolidFilter#ConcurrentMap1"),
      ("render3d/concurrency.go", "mapCoordinates#go1"),
      ("render3d/ray_renderer.go", "rayRenderer.Render#mapCoordinates1"),
      ("render3d/raycast.go", "RayCaster.Render#mapCoordinates1"),
      ("numerical/k_means.go", "KMeans.Iterate#go1"), ("numerical/k_means.go", "KMeans.Assign#ConcurrentMap1"),
      ("toolbox3d/height_map.go", "HeightMap.AddSpheresSDF#StatefulConcurrentMap.iter1")].all
      fun s => ConcFacts.workers.any fun w => w.file == s.1 && w.func == s.2) = true := by
  decide

/-- `KMeans.Iterate` merges into the shared accumulators only under `resultLock`;
`AddSpheresSDF`'s workers call the height-map mutators only under a mutex shared by all
workers (the repaired code — the instance `updateAt_locked_is_max` applies, not `updateAt_racy`). -/
theorem facts_locked_sites :
    ((ConcFacts.workers.filter fun w => w.func == "KMeans.Iterate#go1" ||
        w.func == "HeightMap.AddSpheresSDF#StatefulConcurrentMap.iter1").all
      fun w => !w.effects.isEmpty && w.effects.all (·.kind == .locked)) = true := by
  decide

/-- `DualContouring.populateEdges` is the `collectProgN` instance: its workers write captured
state only through their own edge (`ownElem`) — in particular the buffer of interior points is
the goroutine's own, not a slice of captured state — and the only writes of the shared result
happen in the reduce function, under `ReduceConcurrentMap`'s mutex. -/
theorem facts_collect_sites :
    ((ConcFacts.workers.filter fun w =>
        w.func == "DualContouring.populateEdges#ReduceConcurrentMap.iter1").all
      fun w => !w.effects.isEmpty && w.effects.all (·.kind == .ownElem)) = true ∧
    ((ConcFacts.workers.filter fun w =>
        w.func == "DualContouring.populateEdges#ReduceConcurrentMap.reduce1").all
      fun w => !w.effects.isEmpty && w.effects.all (·.kind == .locked)) = true ∧
    (ConcFacts.workers.any fun w =>
        w.func == "DualContouring.populateEdges#ReduceConcurrentMap.reduce1") = true := by
  decide

/-- `rayRenderer.Render` is the `progressProg` instance: its pixel workers write captured state
only through their own pixel (`img.Data[idx]`) and otherwise only send on the progress channel
(which the goroutine that runs `mapCoordinates` closes afterwards) — the counters and `LogFunc`
are touched by the caller alone. -/
theorem facts_progress_channel :
    ((ConcFacts.workers.filter fun w => w.func == "rayRenderer.Render#mapCoordinates1").map
      fun w => w.effects.map (·.kind)) = [[.ownIndex, .chanSend]] ∧
    ((ConcFacts.workers.filter fun w => w.func == "rayRenderer.Render#go1").map
      fun w => w.effects.map (·.kind)) = [[.chanClose]] := by
  decide

/-- `mapCoordinates` creates a channel with room for every pixel, fills it, closes it and only
then spawns the workers, each of which ranges over the channel and calls back with the received
index: the `chanInit`/`chanProg` instance. -/
theorem facts_mapCoordinates :
    ConcFacts.mapCoordinates =
      ["makeChan(width*height)", "var", "fill", "close", "var", "spawn", "w:deferDone", "w:newLocal",
       "w:rangeRecvCall", "wait"] := by
  decide

/-- `HeightMap.updateAt` is the plain read-compare-write of `updateAtRacy` (bounds check,
index, `if Data[idx] < height { Data[idx] = height; return true }`, return) without a lock of
its own — so its concurrent callers must serialise it (`facts_locked_sites`). -/
theorem facts_updateAt : ConcFacts.updateAt = ["boundsRet", "idx", "readCompareWrite", "ret"] := by decide

/-- `CacheScalarFunc` touches its captured cache only through `sync.Map.Load/Store`. -/
theorem facts_cacheScalarFunc : ConcFacts.cacheScalarFunc = ["decl:sync.Map", "call:Load", "call:Store"] := by
  decide

/-- **No read-only query method writes its receiver.**  Over all 380-odd methods named like the
library's query interfaces (`Collider`, `Solid`, the SDF family, `render3d.Object`, `Material`,
`AreaLight`, mesh queries incl. `Iterate` / `IterateSorted`, the entry points
`Render` / `RenderVariance` / `RayVariance` of the exported renderer types, and the read-only
derivations `Optimize` / `Copy` / `DeepCopy` / `MapCoords`) in model2d, model3d, render3d and
toolbox3d, the extractor found no
assignment to memory of the receiver — neither directly, nor through a slice alias of one of its
fields, nor through another method of the same type, nor by handing the receiver (a value of a
slice type), one of its fields or a slice of them to a function of the package that stores into
the elements of that argument (`GroupBounders`, `GroupTriangles`, … — computed as a fixed point
over the package's plain functions).  So the only state a query writes is state
of its own call: the discipline of `owned_state_noninterference` (for `JoinedSolid.Optimize`:
the program of `optimize_private_copy_eq_sequential`, not that of `optimize_in_place_racy`). -/
theorem facts_queries_readonly : ConcFacts.queryReceiverWrites = [] := by decide

/-- The query methods the staged-query model stands for are all still found by the extractor
(so the previous theorem is not vacuous after a refactor). -/
theorem facts_queries_cover :
    ConcFacts.querySitesSeen =
      ["model2d.ColliderSolid.Contains", "model2d.JoinedCollider.CircleCollision",
       "model2d.JoinedSolid.Contains", "model2d.JoinedSolid.Optimize", "model2d.Mesh.IterateSorted",
       "model3d.ColliderSolid.Contains", "model3d.JoinedCollider.FirstRayCollision",
       "model3d.JoinedCollider.RayCollisions", "model3d.JoinedCollider.SphereCollision",
       "model3d.JoinedSolid.Contains", "model3d.JoinedSolid.Optimize",
       "model3d.Mesh.IterateSorted",
       "model3d.SolidCollider.RayCollisions", "model3d.colliderSDF.SDF", "model3d.meshSDF.SDF",
       "model3d.profileCollider.FirstRayCollision", "model3d.profileCollider.RayCollisions",
       "model3d.profileCollider.SphereCollision", "model3d.transformedCollider.RayCollisions",
       "render3d.BidirPathTracer.RayVariance", "render3d.BidirPathTracer.Render",
       "render3d.ColliderObject.Cast", "render3d.FilteredObject.Cast", "render3d.JoinedObject.Cast",
       "render3d.PhongMaterial.BSDF", "render3d.RecursiveRayTracer.RayVariance",
       "render3d.RecursiveRayTracer.Render", "render3d.colorFuncObject.Cast"] ∧
    300 ≤ ConcFacts.queryMethodCount := by
  decide

/-- **No query closure writes a variable it did not declare.**  The function literals that become
the `Contains` / `SDF` / `PointSDF` of a solid or field (`FuncSolid`, `CheckedFuncSolid`,
`FuncSDF`, `FuncPointSDF`: `SmoothJoin`, `SmoothJoinV2`, `SDFToSolid`, `ProfileSolid`, …) and the
literals returned as color functions assign only their own locals: no variable captured from the
constructor (allocated once per solid and shared by all calls) and no package-level variable,
neither directly nor through a slice alias.  So their working state is state of the call: the
discipline of `owned_state_noninterference` (`query_field_scratch_racy` otherwise). -/
theorem facts_query_closures_readonly : ConcFacts.queryClosureWrites = [] := by decide

/-- The closures the previous theorem is about are still found by the extractor. -/
theorem facts_query_closures_cover :
    ConcFacts.queryClosureSitesSeen =
      ["model2d.CacheScalarFunc#return1", "model2d.SmoothJoin#CheckedFuncSolid1",
       "model2d.SmoothJoinV2#CheckedFuncSolid1", "model3d.ProfileSolid#CheckedFuncSolid1",
       "model3d.SDFToSolid#CheckedFuncSolid1", "model3d.SmoothJoin#CheckedFuncSolid1",
       "model3d.SmoothJoinV2#CheckedFuncSolid1"] ∧
    30 ≤ ConcFacts.queryClosureCount := by
  decide

end M3d.C13
